(* C12 — segmentation independence of the reader model (prefix stability, DESIGN.md 4.1):
   feeding a stream in pieces delivers the same messages and ends in the same error / the same
   state (up to the number of entries of _payload_fragments, which never influences a message)
   as feeding it at once. *)
From AV Require Import Lib.Base Lib.Utf8Valid Generated.WsGen Model.Ws.
From Coq Require Import ZifyBool ZifyN.
Ltac Zify.zify_post_hook ::= Z.to_euclidean_division_equations.
Open Scope N_scope.

Lemma takeN_app {A} (x y : list A) k : (length x <= k)%nat ->
  takeN k (x ++ y) = x ++ takeN (k - length x) y.
Proof.
  revert k; induction x as [|a x IH]; intros k H; cbn [app length takeN].
  - now rewrite Nat.sub_0_r.
  - destruct k as [|k]; [cbn in H; lia|]. cbn [takeN Nat.sub]. f_equal. apply IH. cbn in H; lia.
Qed.

Lemma dropN_app {A} (x y : list A) k : (length x <= k)%nat ->
  dropN k (x ++ y) = dropN (k - length x) y.
Proof.
  revert k; induction x as [|a x IH]; intros k H; cbn [app length dropN].
  - now rewrite Nat.sub_0_r.
  - destruct k as [|k]; [cbn in H; lia|]. cbn [dropN Nat.sub]. apply IH. cbn in H; lia.
Qed.

Lemma takeN_app_le {A} (x y : list A) k : (k <= length x)%nat -> takeN k (x ++ y) = takeN k x.
Proof.
  revert k; induction x as [|a x IH]; intros k H; cbn [app length takeN] in *.
  - assert (k = 0)%nat by lia. subst. destruct y; reflexivity.
  - destruct k as [|k]; [reflexivity|]. cbn [takeN]. f_equal. apply IH. lia.
Qed.

Lemma dropN_app_le {A} (x y : list A) k : (k <= length x)%nat -> dropN k (x ++ y) = dropN k x ++ y.
Proof.
  revert k; induction x as [|a x IH]; intros k H; cbn [app length dropN] in *.
  - assert (k = 0)%nat by lia. subst. destruct y; reflexivity.
  - destruct k as [|k]; [reflexivity|]. cbn [dropN]. apply IH. lia.
Qed.

Lemma dropN_length {A} (x : list A) k : (length (dropN k x) <= length x)%nat.
Proof.
  revert k; induction x as [|a x IH]; intros [|k]; cbn [dropN length]; try lia. specialize (IH k). lia.
Qed.

Section Seg.
Variable Cx : Type.
Variable decomp : Cx -> bytes -> N -> dres Cx.
Variable c : cfg.

Notation rstate := (rstate Cx).
Notation pres := (pres Cx).
Notation reader := (reader Cx).
Notation iter := (iter Cx decomp c).
Notation ph_header := (ph_header Cx c).
Notation ph_length := (ph_length Cx c).
Notation ph_mask := (ph_mask Cx).
Notation ph_payload := (ph_payload Cx decomp c).
Notation loop := (loop Cx decomp c).
Notation feed := (feed Cx decomp c).
Notation feed_all := (feed_all Cx decomp c).
Notation set_tail := (set_tail Cx).
Notation bind := (bind Cx).

(* forget len(_payload_fragments) *)
Definition zap (s : rstate) : rstate :=
  R (s_phase s) (s_tail s) (s_m s) (s_ffin s) (s_fop s) (s_frags s) 0 (s_hmask s) (s_mask s)
    (s_toread s) (s_lflag s) (s_comp s).

Definition zapp (r : pres) : pres :=
  match r with
  | PNeed s => PNeed (zap s) | PFail e => PFail e | PGo s d => PGo (zap s) d | PDone ev s d => PDone ev (zap s) d
  end.

Definition zapr (rd : reader) : reader := match rd with Live s => Live (zap s) | x => x end.
Definition zres (r : list msg * reader) : list msg * reader := (fst r, zapr (snd r)).

Lemma zap_idem s : zap (zap s) = zap s.
Proof. reflexivity. Qed.

Lemma zapp_idem r : zapp (zapp r) = zapp r.
Proof. destruct r; reflexivity. Qed.

Ltac break_if :=
  match goal with
  | |- context[if ?b then _ else _] => destruct b
  end.

Lemma ph_header_zap s d : ph_header (zap s) d = zapp (ph_header s d).
Proof.
  destruct s as [ph tl m ffin fop frags nf hm mk tr lf cp].
  unfold Ws.ph_header, zap; cbn [s_phase s_tail s_m s_ffin s_fop s_frags s_nfrags s_hmask s_mask s_toread s_lflag s_comp].
  destruct ph; try reflexivity.
  destruct d as [|b0 [|b1 r]]; try reflexivity.
  unfold pfail. repeat break_if; reflexivity.
Qed.

Lemma ph_length_zap s d : ph_length (zap s) d = zapp (ph_length s d).
Proof.
  destruct s as [ph tl m ffin fop frags nf hm mk tr lf cp].
  unfold Ws.ph_length, after_length, zap;
    cbn [s_phase s_tail s_m s_ffin s_fop s_frags s_nfrags s_hmask s_mask s_toread s_lflag s_comp].
  destruct ph; try reflexivity.
  destruct (lf =? 126).
  { destruct d as [|b0 [|b1 r]]; try reflexivity. break_if; reflexivity. }
  destruct (126 <? lf).
  { destruct d as [|b0 [|b1 [|b2 [|b3 [|b4 [|b5 [|b6 [|b7 r]]]]]]]]; try reflexivity.
    repeat break_if; reflexivity. }
  break_if; reflexivity.
Qed.

Lemma ph_mask_zap s d : ph_mask (zap s) d = zapp (ph_mask s d).
Proof.
  destruct s as [ph tl m ffin fop frags nf hm mk tr lf cp].
  unfold Ws.ph_mask, zap; cbn [s_phase s_tail s_m s_ffin s_fop s_frags s_nfrags s_hmask s_mask s_toread s_lflag s_comp].
  destruct ph; try reflexivity.
  destruct d as [|b0 [|b1 [|b2 [|b3 r]]]]; reflexivity.
Qed.

Lemma ph_payload_zap s d : zapp (ph_payload (zap s) d) = zapp (ph_payload s d).
Proof.
  destruct s as [ph tl m ffin fop frags nf hm mk tr lf cp].
  unfold Ws.ph_payload, unmask, zap;
    cbn [s_phase s_tail s_m s_ffin s_fop s_frags s_nfrags s_hmask s_mask s_toread s_lflag s_comp].
  destruct (lenN d <? tr); [reflexivity|].
  destruct (handle_frame _ _ _ _ _ _ _ _); reflexivity.
Qed.

Lemma bind_zapp r (k k' : rstate -> bytes -> pres) :
  (forall s d, zapp (k (zap s) d) = zapp (k' s d)) ->
  zapp (bind (zapp r) k) = zapp (bind r k').
Proof. intro H. destruct r; cbn [zapp Ws.bind]; try reflexivity. apply H. Qed.

Lemma iter_zap s d : zapp (iter (zap s) d) = zapp (iter s d).
Proof.
  unfold Ws.iter. rewrite ph_header_zap. apply bind_zapp. intros s1 d1.
  rewrite ph_length_zap. apply bind_zapp. intros s2 d2.
  rewrite ph_mask_zap. apply bind_zapp. intros s3 d3. apply ph_payload_zap.
Qed.

Lemma iter_zap2 s s' d : zap s = zap s' -> zapp (iter s d) = zapp (iter s' d).
Proof. intro H. rewrite <- (iter_zap s), <- (iter_zap s'), H. reflexivity. Qed.

(* ---- shape of the sections --------------------------------------------------------------- *)

Lemma set_tail_tail (s : rstate) t : s_tail (set_tail s t) = t.
Proof. reflexivity. Qed.

Lemma set_tail_back (s : rstate) x : s_tail s = [] -> set_tail (set_tail s x) [] = s.
Proof. destruct s; cbn. intros ->. reflexivity. Qed.

Lemma set_tail_nil (s : rstate) : s_tail s = [] -> set_tail s [] = s.
Proof. destruct s; cbn. intros ->. reflexivity. Qed.

(* header *)
Lemma ph_header_skip s d : s_phase s <> RH -> ph_header s d = PGo s d.
Proof. unfold Ws.ph_header. destruct (s_phase s); congruence. Qed.

Lemma ph_header_cases s d :
  match ph_header s d with
  | PNeed s1 => s_phase s = RH /\ s1 = set_tail s d /\ (length d < 2)%nat
  | PFail e => s_phase s = RH /\ exists b0 b1 r, d = b0 :: b1 :: r
  | PGo s1 d1 => (s_phase s <> RH /\ s1 = s /\ d1 = d) \/
                 (s_phase s = RH /\ s_phase s1 = RL /\ s_tail s1 = s_tail s /\ exists b0 b1, d = b0 :: b1 :: d1)
  | PDone _ _ _ => False
  end.
Proof.
  unfold Ws.ph_header. destruct (s_phase s) eqn:E; try (left; repeat split; congruence).
  destruct d as [|b0 [|b1 r]]; try (cbn; repeat split; lia).
  unfold pfail.
  repeat break_if; try (split; [reflexivity|]; repeat eexists);
    right; cbn; repeat split; repeat eexists.
Qed.

Lemma ph_header_app s x y :
  match ph_header s x with
  | PGo s1 x1 => ph_header s (x ++ y) = PGo s1 (x1 ++ y)
  | PFail e => ph_header s (x ++ y) = PFail e
  | _ => True
  end.
Proof.
  unfold Ws.ph_header. destruct (s_phase s); try reflexivity.
  destruct x as [|b0 [|b1 r]]; try exact I. cbn [app].
  unfold pfail. repeat break_if; reflexivity.
Qed.

(* length *)
Lemma ph_length_skip s d : s_phase s <> RL -> ph_length s d = PGo s d.
Proof. unfold Ws.ph_length. destruct (s_phase s); congruence. Qed.

Lemma ph_length_cases s d :
  match ph_length s d with
  | PNeed s1 => s_phase s = RL /\ s1 = set_tail s d
  | PFail e => s_phase s = RL
  | PGo s1 d1 => (s_phase s <> RL /\ s1 = s /\ d1 = d) \/
                 (s_phase s = RL /\ (s_phase s1 = RM \/ s_phase s1 = RP) /\ s_tail s1 = s_tail s /\
                  (length d1 <= length d)%nat)
  | PDone _ _ _ => False
  end.
Proof.
  unfold Ws.ph_length, after_length. destruct (s_phase s) eqn:E; try (left; repeat split; congruence).
  destruct (s_lflag s =? 126).
  { destruct d as [|b0 [|b1 r]]; try (split; reflexivity).
    break_if; [reflexivity|]. right. cbn. repeat split; try lia. destruct (s_hmask s); auto. }
  destruct (126 <? s_lflag s).
  { destruct d as [|b0 [|b1 [|b2 [|b3 [|b4 [|b5 [|b6 [|b7 r]]]]]]]]; try (split; reflexivity).
    break_if; [reflexivity|]. break_if; [reflexivity|].
    right. cbn. repeat split; try lia. destruct (s_hmask s); auto. }
  break_if; [reflexivity|]. right. cbn. repeat split; try lia. destruct (s_hmask s); auto.
Qed.

Lemma ph_length_app s x y :
  match ph_length s x with
  | PGo s1 x1 => ph_length s (x ++ y) = PGo s1 (x1 ++ y)
  | PFail e => ph_length s (x ++ y) = PFail e
  | _ => True
  end.
Proof.
  unfold Ws.ph_length, after_length. destruct (s_phase s); try reflexivity.
  destruct (s_lflag s =? 126).
  { destruct x as [|b0 [|b1 r]]; try exact I. cbn [app]. break_if; reflexivity. }
  destruct (126 <? s_lflag s).
  { destruct x as [|b0 [|b1 [|b2 [|b3 [|b4 [|b5 [|b6 [|b7 r]]]]]]]]; try exact I. cbn [app].
    repeat break_if; reflexivity. }
  break_if; reflexivity.
Qed.

(* mask *)
Lemma ph_mask_skip s d : s_phase s <> RM -> ph_mask s d = PGo s d.
Proof. unfold Ws.ph_mask. destruct (s_phase s); congruence. Qed.

Lemma ph_mask_cases s d :
  match ph_mask s d with
  | PNeed s1 => s_phase s = RM /\ s1 = set_tail s d
  | PFail e => False
  | PGo s1 d1 => (s_phase s <> RM /\ s1 = s /\ d1 = d) \/
                 (s_phase s = RM /\ s_phase s1 = RP /\ s_tail s1 = s_tail s /\ (length d1 <= length d)%nat)
  | PDone _ _ _ => False
  end.
Proof.
  unfold Ws.ph_mask. destruct (s_phase s) eqn:E; try (left; repeat split; congruence).
  destruct d as [|b0 [|b1 [|b2 [|b3 r]]]]; try (split; reflexivity).
  right. cbn. repeat split; lia.
Qed.

Lemma ph_mask_app s x y :
  match ph_mask s x with
  | PGo s1 x1 => ph_mask s (x ++ y) = PGo s1 (x1 ++ y)
  | _ => True
  end.
Proof.
  unfold Ws.ph_mask. destruct (s_phase s); try reflexivity.
  destruct x as [|b0 [|b1 [|b2 [|b3 r]]]]; try exact I. reflexivity.
Qed.

(* payload *)
Lemma ph_payload_cases s d :
  match ph_payload s d with
  | PNeed s1 => lenN d < s_toread s /\ s_phase s1 = RP /\ s_tail s1 = []
  | PGo _ _ => False
  | PDone ev s1 d1 => s_phase s1 = RH /\ s_tail s1 = [] /\ s_toread s <= lenN d /\
                      d1 = dropN (N.to_nat (s_toread s)) d
  | PFail _ => True
  end.
Proof.
  unfold Ws.ph_payload. destruct (lenN d <? s_toread s) eqn:E.
  - cbn. repeat split. lia.
  - destruct (handle_frame _ _ _ _ _ _ _ _); [|exact I]. cbn. repeat split. lia.
Qed.

Lemma lenN_nat {A} (l : list A) : N.to_nat (lenN l) = length l.
Proof. unfold lenN. lia. Qed.

Lemma ph_payload_app s x y :
  match ph_payload s x with
  | PDone ev s1 x1 => ph_payload s (x ++ y) = PDone ev s1 (x1 ++ y)
  | PFail e => ph_payload s (x ++ y) = PFail e
  | _ => True
  end.
Proof.
  unfold Ws.ph_payload. destruct (lenN x <? s_toread s) eqn:E; [exact I|].
  assert (H : (N.to_nat (s_toread s) <= length x)%nat) by (rewrite <- lenN_nat; lia).
  replace (lenN (x ++ y) <? s_toread s) with false by (rewrite lenN_app; lia).
  rewrite (takeN_app_le _ _ _ H), (dropN_app_le _ _ _ H).
  destruct (handle_frame _ _ _ _ _ _ _ _); reflexivity.
Qed.

(* resuming inside a payload: the chunk kept as a fragment plus the new data is the same payload *)
Lemma ph_payload_resume s x y s1 :
  ph_payload s x = PNeed s1 -> zapp (ph_payload s (x ++ y)) = zapp (ph_payload s1 y).
Proof.
  unfold Ws.ph_payload. destruct (lenN x <? s_toread s) eqn:E; [|destruct (handle_frame _ _ _ _ _ _ _ _); discriminate].
  intro H. injection H as <-.
  cbn [s_phase s_tail s_m s_ffin s_fop s_frags s_nfrags s_hmask s_mask s_toread s_lflag s_comp].
  rewrite lenN_app.
  destruct (lenN x + lenN y <? s_toread s) eqn:E2.
  - replace (lenN y <? s_toread s - lenN x) with true by lia.
    cbn [zapp]. unfold zap; cbn [s_phase s_tail s_m s_ffin s_fop s_frags s_nfrags s_hmask s_mask s_toread s_lflag s_comp].
    rewrite app_assoc. replace (s_toread s - (lenN x + lenN y)) with (s_toread s - lenN x - lenN y) by lia. reflexivity.
  - replace (lenN y <? s_toread s - lenN x) with false by lia.
    assert (Hx : (length x <= N.to_nat (s_toread s))%nat) by (rewrite <- lenN_nat; lia).
    rewrite (takeN_app _ _ _ Hx), (dropN_app _ _ _ Hx).
    replace (N.to_nat (s_toread s - lenN x)) with (N.to_nat (s_toread s) - length x)%nat by (rewrite <- lenN_nat; lia).
    rewrite app_assoc. unfold unmask. cbn [s_hmask s_mask].
    destruct (handle_frame _ _ _ _ _ _ _ _); reflexivity.
Qed.

(* ---- one pass ---------------------------------------------------------------------------- *)

Lemma iter_cases s d :
  match iter s d with
  | PGo _ _ => False
  | PDone ev s1 d1 => s_phase s1 = RH /\ s_tail s1 = [] /\ (length d1 <= length d)%nat /\
                      (s_phase s = RH -> (length d1 + 2 <= length d)%nat)
  | _ => True
  end.
Proof.
  unfold Ws.iter.
  pose proof (ph_header_cases s d) as H1. destruct (ph_header s d) as [| |s1 d1|]; cbn [Ws.bind]; try exact I; [|destruct H1].
  pose proof (ph_length_cases s1 d1) as H2. destruct (ph_length s1 d1) as [| |s2 d2|]; cbn [Ws.bind]; try exact I; [|destruct H2].
  pose proof (ph_mask_cases s2 d2) as H3. destruct (ph_mask s2 d2) as [| |s3 d3|]; cbn [Ws.bind]; try exact I; [|destruct H3].
  pose proof (ph_payload_cases s3 d3) as H4. destruct (ph_payload s3 d3) as [| | |ev s4 d4]; try exact I; [destruct H4|].
  destruct H4 as (Hp & Ht & _ & Hd). subst d4. pose proof (dropN_length d3 (N.to_nat (s_toread s3))) as Hl.
  assert (L3 : (length d3 <= length d2)%nat) by (destruct H3 as [(_ & _ & ->)|(_ & _ & _ & ?)]; lia).
  assert (L2 : (length d2 <= length d1)%nat) by (destruct H2 as [(_ & _ & ->)|(_ & _ & _ & ?)]; lia).
  repeat split; try assumption.
  - destruct H1 as [(_ & _ & ->)|(_ & _ & _ & b0 & b1 & ->)]; cbn [length]; lia.
  - intro E. destruct H1 as [(N1 & _)|(_ & _ & _ & b0 & b1 & ->)]; [congruence|]. cbn [length]. lia.
Qed.

Lemma iter_app s x y :
  match iter s x with
  | PDone ev s1 x1 => iter s (x ++ y) = PDone ev s1 (x1 ++ y)
  | PFail e => iter s (x ++ y) = PFail e
  | _ => True
  end.
Proof.
  unfold Ws.iter.
  pose proof (ph_header_app s x y) as A1. pose proof (ph_header_cases s x) as H1.
  destruct (ph_header s x) as [| |s1 d1|]; cbn [Ws.bind]; try exact I; [rewrite A1; reflexivity| |destruct H1].
  rewrite A1; cbn [Ws.bind].
  pose proof (ph_length_app s1 d1 y) as A2. pose proof (ph_length_cases s1 d1) as H2.
  destruct (ph_length s1 d1) as [| |s2 d2|]; cbn [Ws.bind]; try exact I; [rewrite A2; reflexivity| |destruct H2].
  rewrite A2; cbn [Ws.bind].
  pose proof (ph_mask_app s2 d2 y) as A3. pose proof (ph_mask_cases s2 d2) as H3.
  destruct (ph_mask s2 d2) as [| |s3 d3|]; cbn [Ws.bind]; try exact I; [destruct H3| |destruct H3].
  rewrite A3; cbn [Ws.bind].
  pose proof (ph_payload_app s3 d3 y) as A4.
  destruct (ph_payload s3 d3); try exact I; assumption.
Qed.

(* the state saved at a `break` resumes exactly where the pass over the longer input continues *)
Lemma iter_resume s x y s1 :
  s_tail s = [] -> iter s x = PNeed s1 ->
  zapp (iter s (x ++ y)) = zapp (iter (set_tail s1 []) (s_tail s1 ++ y)).
Proof.
  intros T. unfold Ws.iter at 1.
  pose proof (ph_header_app s x y) as A1. pose proof (ph_header_cases s x) as H1.
  destruct (ph_header s x) as [sa| |sa da|] eqn:E1; cbn [Ws.bind]; try (intro HH; discriminate HH).
  { intro H. injection H as <-. destruct H1 as (_ & -> & _).
    rewrite set_tail_back by exact T. reflexivity. }
  assert (Ta : s_tail sa = []) by (destruct H1 as [(_ & -> & _)|(_ & _ & -> & _)]; exact T).
  pose proof (ph_length_app sa da y) as A2. pose proof (ph_length_cases sa da) as H2.
  destruct (ph_length sa da) as [sb| |sb db|] eqn:E2; cbn [Ws.bind]; try (intro HH; discriminate HH).
  { intro H. injection H as <-. destruct H2 as (P & ->).
    rewrite set_tail_back by exact Ta. cbn [s_tail Ws.set_tail].
    unfold Ws.iter. rewrite A1. cbn [Ws.bind].
    rewrite (ph_header_skip sa) by congruence. reflexivity. }
  assert (Tb : s_tail sb = []) by (destruct H2 as [(_ & -> & _)|(_ & _ & -> & _)]; exact Ta).
  pose proof (ph_mask_app sb db y) as A3. pose proof (ph_mask_cases sb db) as H3.
  destruct (ph_mask sb db) as [sc| |sc dc|] eqn:E3; cbn [Ws.bind]; try (intro HH; discriminate HH).
  { intro H. injection H as <-. destruct H3 as (P & ->).
    rewrite set_tail_back by exact Tb. cbn [s_tail Ws.set_tail].
    unfold Ws.iter. rewrite A1. cbn [Ws.bind]. rewrite A2. cbn [Ws.bind].
    rewrite (ph_header_skip sb) by congruence. cbn [Ws.bind].
    rewrite (ph_length_skip sb) by congruence. reflexivity. }
  intro H4. pose proof (ph_payload_cases sc dc) as C4. rewrite H4 in C4. destruct C4 as (_ & P1 & T1).
  rewrite (set_tail_nil s1 T1), T1. cbn [app].
  unfold Ws.iter. rewrite A1. cbn [Ws.bind]. rewrite A2. cbn [Ws.bind]. rewrite A3. cbn [Ws.bind].
  rewrite (ph_header_skip s1) by congruence. cbn [Ws.bind].
  rewrite (ph_length_skip s1) by congruence. cbn [Ws.bind].
  rewrite (ph_mask_skip s1) by congruence. cbn [Ws.bind].
  apply ph_payload_resume. exact H4.
Qed.

(* ---- the loop, as a relation (fuel only matters for termination) ------------------------- *)

Inductive runs : rstate -> bytes -> list msg -> list msg * reader -> Prop :=
| RNeed s d acc s1 : iter s d = PNeed s1 -> runs s d acc (acc, Live s1)
| RFail s d acc e : iter s d = PFail e -> runs s d acc (acc, Latched e)
| RDone s d acc ev s1 d1 res : iter s d = PDone ev s1 d1 -> runs s1 d1 (acc ++ ev) res -> runs s d acc res.

Lemma loop_S f s d acc :
  loop (S f) s d acc =
  match iter s d with
  | PNeed s' => (acc, Live s')
  | PFail e => (acc, Latched e)
  | PDone ev s' d' => loop f s' d' (acc ++ ev)
  | PGo _ _ => (acc, Fuel)
  end.
Proof. reflexivity. Qed.

Lemma loop_runs f : forall s d acc, snd (loop f s d acc) <> Fuel -> runs s d acc (loop f s d acc).
Proof.
  induction f as [|f IH]; intros s d acc H; [cbn in H; congruence|].
  rewrite loop_S in *. destruct (iter s d) eqn:E.
  - apply RNeed; exact E.
  - apply RFail; exact E.
  - cbn in H; congruence.
  - eapply RDone; [exact E|]. apply IH. exact H.
Qed.

Lemma runs_det s d acc r1 : runs s d acc r1 -> forall r2, runs s d acc r2 -> r1 = r2.
Proof.
  induction 1 as [s d acc s1 E|s d acc e E|s d acc ev s1 d1 res E _ IH]; intros r2 H2; inversion H2; subst; try congruence.
  rewrite E in H. injection H as <- <- <-. apply IH. assumption.
Qed.

Lemma loop_no_fuel_RH f : forall s d acc, s_phase s = RH -> (length d < f)%nat -> snd (loop f s d acc) <> Fuel.
Proof.
  induction f as [|f IH]; intros s d acc P L; [lia|].
  rewrite loop_S. pose proof (iter_cases s d) as C. destruct (iter s d); cbn; try congruence; try (exfalso; exact C).
  destruct C as (P1 & _ & _ & L2). specialize (L2 P). apply IH; [exact P1|lia].
Qed.

Lemma loop_no_fuel f s d acc : (length d + 1 < f)%nat -> snd (loop f s d acc) <> Fuel.
Proof.
  destruct f as [|f]; [lia|]. intro L.
  rewrite loop_S. pose proof (iter_cases s d) as C. destruct (iter s d); cbn; try congruence; try (exfalso; exact C).
  destruct C as (P1 & _ & L1 & _). apply loop_no_fuel_RH; [exact P1|lia].
Qed.

Lemma zapp_need r z : zapp r = PNeed z -> exists s1, r = PNeed s1 /\ zap s1 = z.
Proof. destruct r; cbn; intro H; try discriminate. injection H as <-. eauto. Qed.
Lemma zapp_fail r e : zapp r = PFail e -> r = PFail e.
Proof. destruct r; cbn; intro H; try discriminate. exact H. Qed.
Lemma zapp_done r ev z d : zapp r = PDone ev z d -> exists s1, r = PDone ev s1 d /\ zap s1 = z.
Proof. destruct r; cbn; intro H; try discriminate. injection H as <- <- <-. eauto. Qed.

Lemma runs_zap s d acc res : runs s d acc res -> forall s', zap s' = zap s ->
  exists res', runs s' d acc res' /\ zres res' = zres res.
Proof.
  induction 1 as [s d acc s1 E|s d acc e E|s d acc ev s1 d1 res E _ IH]; intros s' Z;
    pose proof (iter_zap2 s' s d Z) as Q; rewrite E in Q; cbn [zapp] in Q.
  - apply zapp_need in Q as (s2 & E2 & Z2). eexists; split; [apply RNeed; exact E2|]. unfold zres; cbn. now rewrite Z2.
  - apply zapp_fail in Q. eexists; split; [apply RFail; exact Q|reflexivity].
  - apply zapp_done in Q as (s2 & E2 & Z2). destruct (IH s2 Z2) as (res' & R' & Zr).
    eexists; split; [eapply RDone; eassumption|exact Zr].
Qed.

(* prefix stability: what was done for x is done again for x ++ y, and the saved state continues with y *)
Lemma runs_app s x acc r1 : runs s x acc r1 -> s_tail s = [] -> forall y,
  match snd r1 with
  | Live s1 => forall r2, runs (set_tail s1 []) (s_tail s1 ++ y) (fst r1) r2 ->
               exists r, runs s (x ++ y) acc r /\ zres r = zres r2
  | Latched e => runs s (x ++ y) acc r1
  | Fuel => True
  end.
Proof.
  induction 1 as [s d acc s1 E|s d acc e E|s d acc ev s1 d1 res E _ IH]; intros T y; cbn [fst snd].
  - intros r2 R2. pose proof (iter_resume s d y s1 T E) as Q.
    inversion R2 as [? ? ? s2 E2|? ? ? e E2|? ? ? ev s2 d2 ? E2 R3]; subst; rewrite E2 in Q; cbn [zapp] in Q.
    + apply zapp_need in Q as (s3 & E3 & Z3). eexists; split; [apply RNeed; exact E3|]. unfold zres; cbn. now rewrite Z3.
    + apply zapp_fail in Q. eexists; split; [apply RFail; exact Q|reflexivity].
    + apply zapp_done in Q as (s3 & E3 & Z3). destruct (runs_zap _ _ _ _ R3 s3 Z3) as (r & R & Zr).
      eexists; split; [eapply RDone; eassumption|exact Zr].
  - pose proof (iter_app s d y) as A. rewrite E in A. apply RFail. exact A.
  - pose proof (iter_app s d y) as A. rewrite E in A.
    pose proof (iter_cases s d) as C. rewrite E in C. destruct C as (_ & T1 & _).
    specialize (IH T1 y). destruct (snd res) eqn:Es.
    + intros r2 R2. destruct (IH r2 R2) as (r & R & Zr). eexists; split; [eapply RDone; eassumption|exact Zr].
    + eapply RDone; eassumption.
    + exact I.
Qed.

(* ---- feed_data ------------------------------------------------------------------------------ *)

Lemma feed_runs s d : runs (set_tail s []) (s_tail s ++ d) [] (feed (Live s) d).
Proof. cbn [Ws.feed]. apply loop_runs. apply loop_no_fuel. lia. Qed.

Lemma feed_no_fuel rd d : rd <> Fuel -> snd (feed rd d) <> Fuel.
Proof.
  destruct rd as [s|e|]; cbn [Ws.feed snd]; try congruence. intros _. apply loop_no_fuel. lia.
Qed.

Lemma runs_acc s d acc res : runs s d acc res -> forall acc0, runs s d (acc0 ++ acc) (acc0 ++ fst res, snd res).
Proof.
  induction 1 as [s d acc s1 E|s d acc e E|s d acc ev s1 d1 res E _ IH]; intro acc0; cbn [fst snd].
  - apply RNeed; exact E.
  - apply RFail; exact E.
  - eapply RDone; [exact E|]. rewrite <- app_assoc. apply IH.
Qed.

(* two calls = one call on the concatenation *)
Lemma feed_app s x y :
  let '(e1, rd1) := feed (Live s) x in
  let '(e2, rd2) := feed rd1 y in
  zres (feed (Live s) (x ++ y)) = zres (e1 ++ e2, rd2).
Proof.
  pose proof (feed_runs s x) as R1. destruct (feed (Live s) x) as [e1 rd1] eqn:F1.
  pose proof (feed_no_fuel (Live s) x ltac:(congruence)) as NF. rewrite F1 in NF. cbn [snd] in NF.
  pose proof (runs_app _ _ _ _ R1 eq_refl y) as A. cbn [fst snd] in A.
  pose proof (feed_runs s (x ++ y)) as R12. rewrite app_assoc in R12.
  destruct rd1 as [s1|e|]; [| |congruence].
  - pose proof (feed_runs s1 y) as R2. destruct (feed (Live s1) y) as [e2 rd2] eqn:F2.
    apply (runs_acc _ _ _ _) with (acc0 := e1) in R2. rewrite app_nil_r in R2. cbn [fst snd] in R2.
    destruct (A _ R2) as (r & R & Zr). pose proof (runs_det _ _ _ _ R12 _ R) as XX. rewrite XX. exact Zr.
  - pose proof (runs_det _ _ _ _ R12 _ A) as XX. rewrite XX. cbn [Ws.feed]. rewrite app_nil_r. reflexivity.
Qed.

(* a state is settled when looking at its saved tail again changes nothing *)
Definition settled (s : rstate) : Prop :=
  exists s', iter (set_tail s []) (s_tail s) = PNeed s' /\ zap s' = zap s.

Lemma runs_settled s d acc ev s1 : runs s d acc (ev, Live s1) -> s_tail s = [] -> settled s1.
Proof.
  remember (ev, Live s1) as res eqn:Er. intro H. revert ev s1 Er.
  induction H as [s d acc s2 E|s d acc e E|s d acc ev' s2 d1 res E _ IH]; intros ev s1 Er T.
  - injection Er as -> ->. pose proof (iter_resume s d [] s1 T E) as Q. rewrite !app_nil_r in Q. rewrite E in Q.
    cbn [zapp] in Q. symmetry in Q. apply zapp_need in Q as (s3 & E3 & Z3). exists s3. split; assumption.
  - discriminate.
  - pose proof (iter_cases s d) as C. rewrite E in C. destruct C as (_ & T1 & _). eapply IH; eassumption.
Qed.

Lemma feed_settled s d ev s1 : feed (Live s) d = (ev, Live s1) -> settled s1.
Proof. intro F. pose proof (feed_runs s d) as R. rewrite F in R. eapply runs_settled; [exact R|reflexivity]. Qed.

Lemma feed_nil s : settled s -> zres (feed (Live s) []) = zres ([], Live s).
Proof.
  intros (s' & E & Z). pose proof (feed_runs s []) as R. rewrite app_nil_r in R.
  pose proof (runs_det _ _ _ _ R _ (RNeed _ _ _ _ E)) as XX. rewrite XX. unfold zres; cbn. now rewrite Z.
Qed.

Lemma feed_zap s s' d : zap s = zap s' -> zres (feed (Live s) d) = zres (feed (Live s') d).
Proof.
  intro Z. pose proof (feed_runs s d) as R. pose proof (feed_runs s' d) as R'.
  assert (Zt : s_tail s = s_tail s') by (destruct s, s'; unfold zap in Z; cbn in Z; injection Z; intros; subst; reflexivity).
  rewrite Zt in R.
  assert (Z0 : zap (set_tail s' []) = zap (set_tail s [])) by (destruct s, s'; unfold zap in *; cbn in *; injection Z; intros; subst; reflexivity).
  destruct (runs_zap _ _ _ _ R _ Z0) as (r & Rr & Zr). pose proof (runs_det _ _ _ _ R' _ Rr) as XX. rewrite XX. now symmetry.
Qed.

Lemma feed_zapr rd rd' d : zapr rd = zapr rd' -> zres (feed rd d) = zres (feed rd' d).
Proof.
  destruct rd as [s|e|], rd' as [s'|e'|]; cbn [zapr]; intro H; try discriminate; try (injection H as ->); try reflexivity.
  apply feed_zap. congruence.
Qed.

Lemma feed_all_zapr segs : forall rd rd', zapr rd = zapr rd' -> zres (feed_all rd segs) = zres (feed_all rd' segs).
Proof.
  induction segs as [|d rest IH]; intros rd rd' Z; cbn [Ws.feed_all].
  - unfold zres; cbn. now rewrite Z.
  - pose proof (feed_zapr rd rd' d Z) as F. destruct (feed rd d) as [e1 r1], (feed rd' d) as [e1' r1'].
    unfold zres in F; cbn in F. injection F as -> Z1. specialize (IH _ _ Z1).
    destruct (feed_all r1 rest) as [e2 r2], (feed_all r1' rest) as [e2' r2']. unfold zres in *; cbn in *. congruence.
Qed.

Definition settled_rd (rd : reader) : Prop := match rd with Live s => settled s | _ => True end.

(* MAIN: any segmentation of a stream = the stream fed at once *)
Theorem feed_all_concat segs : forall rd, settled_rd rd ->
  zres (feed_all rd segs) = zres (feed rd (concat segs)).
Proof.
  induction segs as [|d rest IH]; intros rd S; cbn [Ws.feed_all concat].
  - destruct rd as [s|e|]; try reflexivity. symmetry. apply feed_nil. exact S.
  - destruct rd as [s|e|].
    + pose proof (feed_app s d (concat rest)) as A.
      destruct (feed (Live s) d) as [e1 rd1] eqn:F1.
      assert (S1 : settled_rd rd1) by (destruct rd1; cbn; auto; eapply feed_settled; exact F1).
      specialize (IH rd1 S1). destruct (feed_all rd1 rest) as [e2 rd2]. destruct (feed rd1 (concat rest)) as [e2' rd2'].
      rewrite A. unfold zres in *; cbn in *. congruence.
    + cbn [Ws.feed]. specialize (IH (Latched e) I). cbn [Ws.feed] in IH. destruct (feed_all (Latched e) rest).
      unfold zres in *; cbn in *. congruence.
    + cbn [Ws.feed]. specialize (IH Fuel I). cbn [Ws.feed] in IH. destruct (feed_all Fuel rest).
      unfold zres in *; cbn in *. congruence.
Qed.

Lemma init_settled cx0 : settled (init_state Cx cx0).
Proof. eexists. split; reflexivity. Qed.

Lemma feed_all_no_fuel segs : forall rd, rd <> Fuel -> snd (feed_all rd segs) <> Fuel.
Proof.
  induction segs as [|d rest IH]; intros rd H; cbn [Ws.feed_all]; [exact H|].
  pose proof (feed_no_fuel rd d H) as F. destruct (feed rd d) as [e1 rd1]. cbn in F.
  specialize (IH rd1 F). destruct (feed_all rd1 rest). exact IH.
Qed.

(* nothing is delivered after an error *)
Lemma feed_all_latched e segs : feed_all (Latched e) segs = ([], Latched e).
Proof. induction segs as [|d rest IH]; cbn [Ws.feed_all Ws.feed]; [reflexivity|]. now rewrite IH. Qed.

End Seg.
