(* C15 — confinement proofs: realpath returns physical paths, the kernel walk of a physical path
   never leaves it, and the static handler serves only regular files physically below its root. *)
From AV Require Import Lib.Base Generated.StaticGen Model.Static Model.StaticSpec.
Open Scope N_scope.

(* ---------------------------------------------------------------- paths *)

Lemma path_eqb_eq a b : path_eqb a b = true <-> a = b.
Proof.
  revert b; induction a as [|x a IH]; destruct b as [|y b]; cbn [path_eqb]; split; intro H;
    try reflexivity; try discriminate.
  - apply andb_true_iff in H as [H1 H2]. apply list_eqb_eq in H1. apply IH in H2. now subst.
  - inversion H; subst. apply andb_true_iff. split; [now apply list_eqb_eq | now apply IH].
Qed.

Lemma path_prefix_app root a b : path_prefix root a = true -> path_prefix root (a ++ b) = true.
Proof.
  revert a; induction root as [|x r IH]; intros a H; [reflexivity|].
  destruct a as [|y a]; cbn [path_prefix app] in *; [discriminate|].
  apply andb_true_iff in H as [H1 H2]. rewrite H1. cbn [andb]. now apply IH.
Qed.

Lemma path_prefix_snoc root a x : path_prefix root (a ++ [x]) = true -> root = a ++ [x] \/ path_prefix root a = true.
Proof.
  revert a; induction root as [|y r IH]; intros a H; [right; reflexivity|].
  destruct a as [|z a]; cbn [path_prefix app] in *.
  - apply andb_true_iff in H as [H1 H2]. apply list_eqb_eq in H1. subst y.
    destruct r; [left; reflexivity|discriminate].
  - apply andb_true_iff in H as [H1 H2]. destruct (IH a H2) as [E|E].
    + left. apply list_eqb_eq in H1. now subst.
    + right. rewrite H1. exact E.
Qed.

Lemma path_prefix_spec root p : path_prefix root p = true <-> exists q, p = root ++ q.
Proof.
  revert p; induction root as [|x r IH]; intro p; cbn [path_prefix].
  - split; [intros _; exists p; reflexivity|reflexivity].
  - destruct p as [|y p].
    + split; [discriminate|intros [q H]; discriminate].
    + rewrite andb_true_iff, list_eqb_eq, IH. split.
      * intros [-> [q ->]]. exists q. reflexivity.
      * intros [q H]. inversion H; subst. split; [reflexivity|exists q; reflexivity].
Qed.

(* ---------------------------------------------------------------- physical paths *)

Lemma phys_from_app f a : forall c b, phys_from f c (a ++ b) <-> phys_from f c a /\ phys_from f (c ++ a) b.
Proof.
  induction a as [|s a IH]; intros c b; cbn [phys_from app].
  - rewrite app_nil_r. tauto.
  - rewrite IH. rewrite <- app_assoc. cbn [app]. tauto.
Qed.

Lemma Phys_nil f : Phys f [].
Proof. exact I. Qed.

Lemma Phys_snoc f p s : Phys f p -> normal_seg s = true -> is_link (child f p s) = false -> Phys f (p ++ [s]).
Proof.
  intros Hp Hs Hl. unfold Phys. apply phys_from_app. split; [exact Hp|]. cbn [phys_from app]. auto.
Qed.

Lemma Phys_prefix f a b : Phys f (a ++ b) -> Phys f a.
Proof. unfold Phys. rewrite phys_from_app. tauto. Qed.

Lemma Phys_removelast f p : Phys f p -> Phys f (removelast p).
Proof.
  destruct p as [|x p] using rev_ind; [trivial|]. rewrite removelast_last. apply Phys_prefix.
Qed.

Lemma Phys_last_normal f p s : Phys f (p ++ [s]) -> normal_seg s = true.
Proof. unfold Phys. rewrite phys_from_app. cbn [phys_from]. tauto. Qed.

(* ---------------------------------------------------------------- realpath *)

Lemma normal_from_tests s : is_empty s || is_dot s = false -> is_dotdot s = false -> normal_seg s = true.
Proof.
  intros H1 H2. apply orb_false_iff in H1 as [A B]. unfold normal_seg. rewrite A, B, H2. reflexivity.
Qed.

Lemma joinreal_phys f : forall fuel inprog cur work p,
  Phys f cur -> joinreal fuel f inprog cur work = RP_ok p -> Phys f p.
Proof.
  induction fuel as [|k IH]; intros inprog cur work p Hc H; cbn [joinreal] in H; [discriminate|].
  destruct work as [|[s|lp] w].
  - inversion H; subst. exact Hc.
  - destruct (is_empty s || is_dot s) eqn:E1; [eapply IH; eassumption|].
    destruct (is_dotdot s) eqn:E2; [eapply IH; [apply Phys_removelast; exact Hc|exact H]|].
    destruct (memN 0 s); [discriminate|].
    pose proof (normal_from_tests s E1 E2) as Hn.
    destruct (child f cur s) as [[c| |t|]|] eqn:Ech;
      try (eapply IH; [|exact H]; apply Phys_snoc; [exact Hc|exact Hn|rewrite Ech; reflexivity]).
    destruct (path_mem (cur ++ [s]) inprog); [discriminate|].
    eapply IH; [|exact H]. destruct (is_abs t); [apply Phys_nil|exact Hc].
  - eapply IH; eassumption.
Qed.

Lemma realpath_phys f fuel p q : joinreal fuel f [] [] (map Seg p) = RP_ok q -> Phys f q.
Proof. apply joinreal_phys. apply Phys_nil. Qed.

Lemma resolve_phys f p q : no_loop_met f p -> resolve f p = RP_ok q -> Phys f q.
Proof.
  unfold no_loop_met, resolve. intros Hn H.
  destruct (joinreal (rfuel f p) f [] [] (map Seg p)) as [q0|s| | |] eqn:E; try discriminate.
  - inversion H; subst. eapply realpath_phys. exact E.
  - exfalso. exact (Hn s eq_refl).
Qed.

(* ---------------------------------------------------------------- kernel walk on a physical path *)

Lemma normal_seg_tests s : normal_seg s = true -> is_empty s || is_dot s = false /\ is_dotdot s = false.
Proof.
  unfold normal_seg. intro H. apply andb_true_iff in H as [H H3]. apply andb_true_iff in H as [H1 H2].
  apply negb_true_iff in H1, H2, H3. rewrite H1, H2, H3. auto.
Qed.

Lemma node_at_snoc f c s : node_at f (c ++ [s]) = lookup f (c ++ [s]).
Proof. destruct c; reflexivity. Qed.

(* stat/lstat/open of a physical path end at that very path: no symbolic link is followed *)
Lemma kwalk_phys f : forall w fuel links fl cur q n,
  phys_from f cur w -> kwalk fuel links f fl cur w = KOk q n -> q = cur ++ w /\ node_at f q = Some n.
Proof.
  induction w as [|s w IH]; intros fuel links fl cur q n Hp H; (destruct fuel as [|k]; [discriminate|]); cbn [kwalk] in H.
  - rewrite app_nil_r. destruct (node_at f cur) eqn:E; [|discriminate]. inversion H; subst. auto.
  - destruct Hp as (Hn & Hl & Hp). destruct (memN 0 s); [discriminate|].
    destruct (normal_seg_tests s Hn) as [T1 T2]. rewrite T1, T2 in H.
    unfold child in Hl.
    destruct (node_at f cur) as [[c| |t|]|] eqn:Ecur; try discriminate.
    destruct (lookup f (cur ++ [s])) as [[c| |t|]|] eqn:El; try discriminate.
    + destruct w; [|discriminate]. inversion H; subst. rewrite node_at_snoc. auto.
    + destruct w as [|s2 w].
      * inversion H; subst. rewrite node_at_snoc. auto.
      * apply IH in H; [|exact Hp]. rewrite <- app_assoc in H. exact H.
    + destruct w; [|discriminate]. inversion H; subst. rewrite node_at_snoc. auto.
Qed.

(* lstat of (physical directory path)/name: the name itself is looked up, nothing is followed *)
Lemma klstat_last f : forall w fuel links cur s q n,
  phys_from f cur w -> normal_seg s = true ->
  kwalk fuel links f false cur (w ++ [s]) = KOk q n -> q = cur ++ w ++ [s] /\ lookup f q = Some n.
Proof.
  induction w as [|a w IH]; intros fuel links cur s q n Hp Hs H; (destruct fuel as [|k]; [discriminate|]); cbn [kwalk app] in H.
  - destruct (memN 0 s); [discriminate|].
    destruct (normal_seg_tests s Hs) as [T1 T2]. rewrite T1, T2 in H.
    destruct (node_at f cur) as [[c| |t|]|] eqn:Ecur; try discriminate.
    destruct (lookup f (cur ++ [s])) as [[c| |t|]|] eqn:El; try discriminate;
      cbn in H; inversion H; subst; auto.
  - destruct Hp as (Hn & Hl & Hp). destruct (memN 0 a); [discriminate|].
    destruct (normal_seg_tests a Hn) as [T1 T2]. rewrite T1, T2 in H.
    unfold child in Hl.
    destruct (node_at f cur) as [[c| |t|]|] eqn:Ecur; try discriminate.
    assert (Hne : w ++ [s] <> []) by (destruct w; discriminate).
    destruct (lookup f (cur ++ [a])) as [[c| |t|]|] eqn:El; try discriminate;
      destruct (w ++ [s]) as [|s2 w2] eqn:Ew; try congruence; try discriminate.
    rewrite <- Ew in H. apply IH in H; [|exact Hp|exact Hs]. rewrite <- app_assoc in H. exact H.
Qed.

(* ---------------------------------------------------------------- the handler *)

Lemma ext_lengths : forallb (fun e => Nat.leb 2 (length (fst e))) encoding_extensions = true.
Proof. vm_compute. reflexivity. Qed.

Lemma list_eqb_false_length a b : length a <> length b -> list_eqb a b = false.
Proof.
  intro H. destruct (list_eqb a b) eqn:E; [|reflexivity]. apply list_eqb_eq in E. subst. congruence.
Qed.

Lemma normal_app_ext name ext : normal_seg name = true -> (2 <= length ext)%nat -> normal_seg (name ++ ext) = true.
Proof.
  intros Hn Hl. unfold normal_seg, is_empty, is_nil, is_dot, is_dotdot in *.
  destruct name as [|a name]; [discriminate|].
  assert (L : (3 <= length ((a :: name) ++ ext))%nat) by (rewrite app_length; cbn [length]; lia).
  rewrite (list_eqb_false_length _ [46]) by (cbn [length] in *; lia).
  rewrite (list_eqb_false_length _ [46; 46]) by (cbn [length] in *; lia).
  reflexivity.
Qed.

Lemma try_encodings_sound f parent name accept : forall exts q enc c,
  forallb (fun e => Nat.leb 2 (length (fst e))) exts = true ->
  Phys f (parent ++ [name]) ->
  try_encodings f parent name accept exts = Some (q, enc, c) ->
  exists ext, (2 <= length ext)%nat /\ q = parent ++ [name ++ ext] /\ lookup f q = Some (NFile c) /\ Phys f q.
Proof.
  induction exts as [|[ext enc0] r IH]; intros q enc c Hl Hp H; cbn [try_encodings] in H; [discriminate|].
  cbn [forallb fst] in Hl. apply andb_true_iff in Hl as [Hl1 Hl2]. apply Nat.leb_le in Hl1.
  destruct (is_infix enc0 accept); [|eapply IH; eassumption].
  destruct (klstat f (parent ++ [name ++ ext])) as [q0 [c0| |t|]| | | | |] eqn:E; try (eapply IH; eassumption).
  inversion H; subst. clear H.
  pose proof (Phys_last_normal _ _ _ Hp) as Hn. pose proof (Phys_prefix _ _ _ Hp) as Hpar.
  pose proof (normal_app_ext name ext Hn Hl1) as Hn2.
  unfold klstat in E. apply klstat_last in E; [|exact Hpar|exact Hn2]. cbn [app] in E. destruct E as [-> El].
  exists ext. split; [exact Hl1|]. split; [reflexivity|]. split; [exact El|].
  apply Phys_snoc; [exact Hpar|exact Hn2|].
  unfold child. destruct (node_at f parent) as [[| | |]|]; try reflexivity. rewrite El. reflexivity.
Qed.

Lemma file_lookup_sound f p accept q enc c :
  Phys f p -> file_lookup f p accept = SFile q enc c ->
  lookup f q = Some (NFile c) /\ Phys f q /\
  (q = p \/ exists parent name ext, p = parent ++ [name] /\ q = parent ++ [name ++ ext]).
Proof.
  intros Hp H. unfold file_lookup in H.
  destruct (rev p) as [|name rparent] eqn:Er; [discriminate|].
  assert (Ep : p = rev rparent ++ [name]).
  { rewrite <- (rev_involutive p), Er. reflexivity. }
  destruct (try_encodings f (rev rparent) name (map lower_ascii accept) encoding_extensions) as [[[q0 enc0] c0]|] eqn:Et.
  - inversion H; subst q0 c0. clear H. rewrite Ep in Hp.
    destruct (try_encodings_sound _ _ _ _ _ _ _ _ ext_lengths Hp Et) as (ext & _ & -> & Hl & Hq).
    split; [exact Hl|]. split; [exact Hq|]. right. exists (rev rparent), name, ext. auto.
  - destruct (kstat f p) as [q0 [c0| |t|]| | | | |] eqn:Ek; try discriminate.
    inversion H; subst. clear H. unfold kstat in Ek. apply kwalk_phys in Ek; [|exact Hp].
    cbn [app] in Ek. destruct Ek as [-> Hn].
    split; [|split; [exact Hp|left; reflexivity]].
    rewrite node_at_snoc in Hn. exact Hn.
Qed.

(* sandbox mode, when realpath did not give up at a symlink loop: what is served is a regular file
   physically below the root *)
Lemma handle_confined_partial f root show accept fn p enc c :
  kstat f root = KOk root NDir ->
  no_loop_met f (root ++ snd (parse_posix fn)) ->
  handle f root false show accept fn = SFile p enc c ->
  path_prefix root p = true /\ Phys f p /\ lookup f p = Some (NFile c).
Proof.
  intros Hroot Hnl H. unfold handle in H.
  destruct (parse_posix fn) as [isabs segs]. cbn [snd] in Hnl. destruct isabs; [discriminate|].
  destruct (resolve f (root ++ segs)) as [p0|s0| | |] eqn:Er; try discriminate.
  destruct (path_prefix root p0) eqn:Epre; [|discriminate].
  pose proof (resolve_phys _ _ _ Hnl Er) as Hp0.
  assert (Hfl : file_lookup f p0 accept = SFile p enc c /\
                (forall q, kstat f p0 <> KOk q NDir)).
  { destruct (kstat f p0) as [q0 [c0| |t|]| | | | |] eqn:Ek; try (split; [exact H|intros q E; discriminate]).
    - destruct show; [destruct (path_prefix root p0)|]; discriminate.
    - discriminate. }
  destruct Hfl as [Hfl Hnd].
  destruct (file_lookup_sound _ _ _ _ _ _ Hp0 Hfl) as (Hl & Hq & Hcase).
  split; [|auto].
  destruct Hcase as [->|(parent & name & ext & -> & ->)]; [exact Epre|].
  apply path_prefix_snoc in Epre as [E|E].
  - exfalso. subst root. apply (Hnd (parent ++ [name])). exact Hroot.
  - apply path_prefix_app. exact E.
Qed.

(* what holds in sandbox mode for EVERY tree and filename, loops included: the path handed to the
   file response is lexically below the root (but may still contain an unresolved link, see the
   refutation below) *)
Lemma file_lookup_path f p accept q enc c :
  file_lookup f p accept = SFile q enc c ->
  q = p \/ exists parent name ext, p = parent ++ [name] /\ q = parent ++ [name ++ ext].
Proof.
  intro H. unfold file_lookup in H.
  destruct (rev p) as [|name rparent] eqn:Er; [discriminate|].
  assert (Ep : p = rev rparent ++ [name]).
  { rewrite <- (rev_involutive p), Er. reflexivity. }
  destruct (try_encodings f (rev rparent) name (map lower_ascii accept) encoding_extensions) as [[[q0 enc0] c0]|] eqn:Et.
  - inversion H; subst q0 c0. clear H. right.
    assert (G : forall exts, try_encodings f (rev rparent) name (map lower_ascii accept) exts = Some (q, enc0, c) ->
                exists ext, q = rev rparent ++ [name ++ ext]).
    { induction exts as [|[ext e0] r IH]; cbn [try_encodings]; [discriminate|].
      destruct (is_infix e0 (map lower_ascii accept)); [|exact IH].
      destruct (klstat f (rev rparent ++ [name ++ ext])) as [q1 [c1| |t|]| | | | |]; try exact IH.
      intro E; inversion E; subst. exists ext. reflexivity. }
    destruct (G _ Et) as [ext ->]. exists (rev rparent), name, ext. auto.
  - destruct (kstat f p) as [q0 [c0| |t|]| | | | |]; try discriminate. inversion H; subst. left. reflexivity.
Qed.

Lemma handle_lexically_confined f root show accept fn p enc c :
  kstat f root = KOk root NDir ->
  handle f root false show accept fn = SFile p enc c ->
  path_prefix root p = true.
Proof.
  intros Hroot H. unfold handle in H.
  destruct (parse_posix fn) as [isabs segs]. destruct isabs; [discriminate|].
  destruct (resolve f (root ++ segs)) as [p0|s0| | |] eqn:Er; try discriminate.
  destruct (path_prefix root p0) eqn:Epre; [|discriminate].
  assert (Hfl : file_lookup f p0 accept = SFile p enc c /\
                (forall q, kstat f p0 <> KOk q NDir)).
  { destruct (kstat f p0) as [q0 [c0| |t|]| | | | |] eqn:Ek; try (split; [exact H|intros q E; discriminate]).
    - destruct show; [destruct (path_prefix root p0)|]; discriminate.
    - discriminate. }
  destruct Hfl as [Hfl Hnd].
  destruct (file_lookup_path _ _ _ _ _ _ Hfl) as [->|(parent & name & ext & -> & ->)]; [exact Epre|].
  apply path_prefix_snoc in Epre as [E|E].
  - exfalso. subst root. apply (Hnd (parent ++ [name])). exact Hroot.
  - apply path_prefix_app. exact E.
Qed.

(* follow mode: the lexically normalised target is below the root (the URI cannot walk out; links can) *)
Lemma handle_follow_lexical f root show accept fn p enc c :
  handle f root true show accept fn = SFile p enc c ->
  exists segs n, parse_posix fn = (false, segs) /\
    n = snd (parse_posix (py_normpath (path_str (root ++ segs)))) /\
    path_prefix root n = true /\ exists p0, resolve f n = RP_ok p0.
Proof.
  intro H. unfold handle in H.
  destruct (parse_posix fn) as [isabs segs]. destruct isabs; [discriminate|].
  set (n := snd (parse_posix (py_normpath (path_str (root ++ segs))))) in *.
  destruct (path_prefix root n) eqn:Epre; [|discriminate].
  destruct (resolve f n) as [p0|s0| | |] eqn:Er; try discriminate.
  exists segs, n. repeat split; auto. exists p0. first [exact Er | reflexivity].
Qed.

(* a directory listing is produced only when show_index is set, and only for a path lexically below the root *)
Lemma handle_listing f root follow show accept fn d names :
  handle f root follow show accept fn = SListing d names ->
  show = true /\ path_prefix root d = true.
Proof.
  intro H. unfold handle in H.
  destruct (parse_posix fn) as [isabs segs]. destruct isabs; [discriminate|].
  assert (G : forall p0,
    match kstat f p0 with
    | KOk q NDir => if show then (if path_prefix root p0 then SListing p0 (children f q) else S500) else S403
    | KFuel => SFuel
    | _ => file_lookup f p0 accept
    end = SListing d names -> show = true /\ path_prefix root d = true).
  { intros p0 H0. destruct (kstat f p0) as [q0 [c0| |t|]| | | | |] eqn:Ek;
      try (unfold file_lookup in H0; destruct (rev p0); [discriminate|];
           destruct (try_encodings _ _ _ _ _) as [[[? ?] ?]|]; [discriminate|];
           rewrite ?Ek in H0; try discriminate;
           destruct (kstat f p0) as [? [| | |]| | | | |]; discriminate).
    - destruct show; [|discriminate]. destruct (path_prefix root p0) eqn:Epp; [|discriminate].
      inversion H0; subst. auto.
    - discriminate. }
  destruct follow.
  - set (n := snd (parse_posix (py_normpath (path_str (root ++ segs))))) in *.
    destruct (path_prefix root n); [|discriminate].
    destruct (resolve f n) as [p0|s0| | |] eqn:Er; try discriminate. exact (G p0 H).
  - destruct (resolve f (root ++ segs)) as [p0|s0| | |] eqn:Er; try discriminate.
    destruct (path_prefix root p0) eqn:Epre; [|discriminate]. exact (G p0 H).
Qed.

(* ... and, when realpath did not give up at a loop, the listed directory is the physical one *)
Lemma handle_listing_physical f root show accept fn d names :
  no_loop_met f (root ++ snd (parse_posix fn)) ->
  handle f root false show accept fn = SListing d names ->
  Phys f d /\ node_at f d = Some NDir /\ names = children f d.
Proof.
  intros Hnl H. unfold handle in H.
  destruct (parse_posix fn) as [isabs segs]. cbn [snd] in Hnl. destruct isabs; [discriminate|].
  destruct (resolve f (root ++ segs)) as [p0|s0| | |] eqn:Er; try discriminate.
  destruct (path_prefix root p0) eqn:Epre; [|discriminate].
  pose proof (resolve_phys _ _ _ Hnl Er) as Hp0.
  destruct (kstat f p0) as [q0 [c0| |t|]| | | | |] eqn:Ek;
      try (unfold file_lookup in H; destruct (rev p0); [discriminate|];
           destruct (try_encodings _ _ _ _ _) as [[[? ?] ?]|]; [discriminate|];
           rewrite ?Ek in H; try discriminate;
           destruct (kstat f p0) as [? [| | |]| | | | |]; discriminate).
  - destruct show; [|discriminate]. rewrite Epre in H. inversion H; subst.
    unfold kstat in Ek. apply kwalk_phys in Ek; [|exact Hp0]. cbn [app] in Ek. destruct Ek as [-> Hn]. auto.
  - discriminate.
Qed.

Lemma handle_absolute f root follow show accept fn : is_abs fn = true -> handle f root follow show accept fn = S404.
Proof. intro H. unfold handle, parse_posix. rewrite H. reflexivity. Qed.

(* the whole route: whatever the request path decodes to *)
Lemma serve_path_listing f prefix root follow show accept path_safe d names :
  serve_path f prefix root follow show accept path_safe = SListing d names ->
  show = true /\ path_prefix root d = true.
Proof.
  intro H. unfold serve_path in H. destruct (static_resolve prefix path_safe); [|discriminate].
  eapply handle_listing; eassumption.
Qed.

Lemma serve_path_confined_partial f prefix root show accept path_safe p enc c :
  kstat f root = KOk root NDir ->
  (forall fn, static_resolve prefix path_safe = Some fn -> no_loop_met f (root ++ snd (parse_posix fn))) ->
  serve_path f prefix root false show accept path_safe = SFile p enc c ->
  path_prefix root p = true /\ Phys f p /\ lookup f p = Some (NFile c).
Proof.
  intros Hr Hn H. unfold serve_path in H. destruct (static_resolve prefix path_safe) as [fn|] eqn:E; [|discriminate].
  eapply handle_confined_partial; [exact Hr|exact (Hn fn eq_refl)|exact H].
Qed.

(* ---------------------------------------------------------------- the refutation *)
(* /r (root) ; /r/a -> b ; /r/b -> a (a loop) ; /r/l -> ../o ; /o regular file "B" (outside).
   filename "a/../l": realpath gives up at the loop, the rest "../l" is only normalised lexically,
   /r/l passes relative_to(root) and is opened through the link: bytes of /o are served. *)
Definition loop_fs : fs :=
  [([[114]], NDir); ([[114]; [97]], NLink [98]); ([[114]; [98]], NLink [97]);
   ([[114]; [108]], NLink [46; 46; 47; 111]); ([[111]], NFile [66])].
Definition loop_fn : str := [97; 47; 46; 46; 47; 108].

Lemma confined_refuted :
  kstat loop_fs [[114]] = KOk [[114]] NDir /\
  handle loop_fs [[114]] false false [] loop_fn = SFile [[114]; [108]] None [66] /\
  kstat loop_fs [[114]; [108]] = KOk [[111]] (NFile [66]) /\
  path_prefix [[114]] [[111]] = false /\
  resolve loop_fs [[114]; [97]; [46; 46]; [108]] = RP_ok [[114]; [108]] /\
  is_link (lookup loop_fs [[114]; [108]]) = true.
Proof. vm_compute. repeat split; reflexivity. Qed.

(* a tree  /r (root, dir)  /r/f (file "A")  /r/l -> ../o   /o (file "B") used by the examples *)
Definition ex_fs : fs :=
  [([[114]], NDir); ([[114]; [102]], NFile [65]); ([[114]; [108]], NLink [46; 46; 47; 111]); ([[111]], NFile [66])].

Lemma ex_no_loop : no_loop_met ex_fs ([[114]] ++ snd (parse_posix [102])).
Proof. intros s H. vm_compute in H. discriminate. Qed.
