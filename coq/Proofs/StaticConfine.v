(* C15 — confinement proofs: realpath returns physical paths, the kernel walk of a physical path
   never leaves it, and the static handler serves only regular files physically below its root. *)
From AV Require Import Lib.Base Generated.StaticGen Model.Static Model.StaticSpec Proofs.StaticPaths.
Open Scope N_scope.

(* ---------------------------------------------------------------- paths *)

Lemma path_eqb_eq a b : path_eqb a b = true <-> a = b.
Proof.
  revert b; induction a as [|x a IH]; destruct b as [|y b]; cbn [path_eqb]; split; intro H;
    try reflexivity; try discriminate.
  - apply andb_true_iff in H as [H1 H2]. apply list_eqb_eq in H1. apply IH in H2. now subst.
  - inversion H; subst. apply andb_true_iff. split; [now apply list_eqb_eq | now apply IH].
Qed.

Lemma path_prefix_app root a b : path_prefix root a = true -> path_prefix root (a ++ b) = true.
Proof.
  revert a; induction root as [|x r IH]; intros a H; [reflexivity|].
  destruct a as [|y a]; cbn [path_prefix app] in *; [discriminate|].
  apply andb_true_iff in H as [H1 H2]. rewrite H1. cbn [andb]. now apply IH.
Qed.

Lemma path_prefix_snoc root a x : path_prefix root (a ++ [x]) = true -> root = a ++ [x] \/ path_prefix root a = true.
Proof.
  revert a; induction root as [|y r IH]; intros a H; [right; reflexivity|].
  destruct a as [|z a]; cbn [path_prefix app] in *.
  - apply andb_true_iff in H as [H1 H2]. apply list_eqb_eq in H1. subst y.
    destruct r; [left; reflexivity|discriminate].
  - apply andb_true_iff in H as [H1 H2]. destruct (IH a H2) as [E|E].
    + left. apply list_eqb_eq in H1. now subst.
    + right. rewrite H1. exact E.
Qed.

Lemma path_prefix_spec root p : path_prefix root p = true <-> exists q, p = root ++ q.
Proof.
  revert p; induction root as [|x r IH]; intro p; cbn [path_prefix].
  - split; [intros _; exists p; reflexivity|reflexivity].
  - destruct p as [|y p].
    + split; [discriminate|intros [q H]; discriminate].
    + rewrite andb_true_iff, list_eqb_eq, IH. split.
      * intros [-> [q ->]]. exists q. reflexivity.
      * intros [q H]. inversion H; subst. split; [reflexivity|exists q; reflexivity].
Qed.

(* ---------------------------------------------------------------- physical paths *)

Lemma phys_from_app f a : forall c b, phys_from f c (a ++ b) <-> phys_from f c a /\ phys_from f (c ++ a) b.
Proof.
  induction a as [|s a IH]; intros c b; cbn [phys_from app].
  - rewrite app_nil_r. tauto.
  - rewrite IH. rewrite <- app_assoc. cbn [app]. tauto.
Qed.

Lemma Phys_nil f : Phys f [].
Proof. exact I. Qed.

Lemma Phys_snoc f p s : Phys f p -> normal_seg s = true -> is_link (child f p s) = false -> Phys f (p ++ [s]).
Proof.
  intros Hp Hs Hl. unfold Phys. apply phys_from_app. split; [exact Hp|]. cbn [phys_from app]. auto.
Qed.

Lemma Phys_prefix f a b : Phys f (a ++ b) -> Phys f a.
Proof. unfold Phys. rewrite phys_from_app. tauto. Qed.

Lemma Phys_removelast f p : Phys f p -> Phys f (removelast p).
Proof.
  destruct p as [|x p] using rev_ind; [trivial|]. rewrite removelast_last. apply Phys_prefix.
Qed.

Lemma Phys_last_normal f p s : Phys f (p ++ [s]) -> normal_seg s = true.
Proof. unfold Phys. rewrite phys_from_app. cbn [phys_from]. tauto. Qed.

(* ---------------------------------------------------------------- realpath *)

Lemma normal_from_tests s : is_empty s || is_dot s = false -> is_dotdot s = false -> memN 0 s = false -> normal_seg s = true.
Proof.
  intros H1 H2 H3. apply orb_false_iff in H1 as [A B]. unfold normal_seg. rewrite A, B, H2, H3. reflexivity.
Qed.

Lemma joinreal_phys f : forall fuel inprog cur work p,
  Phys f cur -> joinreal fuel f inprog cur work = RP_ok p -> Phys f p.
Proof.
  induction fuel as [|k IH]; intros inprog cur work p Hc H; cbn [joinreal] in H; [discriminate|].
  destruct work as [|[s|lp] w].
  - inversion H; subst. exact Hc.
  - destruct (is_empty s || is_dot s) eqn:E1; [eapply IH; eassumption|].
    destruct (is_dotdot s) eqn:E2; [eapply IH; [apply Phys_removelast; exact Hc|exact H]|].
    destruct (memN 0 s) eqn:E3; [discriminate|].
    pose proof (normal_from_tests s E1 E2 E3) as Hn.
    destruct (child f cur s) as [[c| |t|]|] eqn:Ech;
      try (eapply IH; [|exact H]; apply Phys_snoc; [exact Hc|exact Hn|rewrite Ech; reflexivity]).
    destruct (path_mem (cur ++ [s]) inprog); [discriminate|].
    eapply IH; [|exact H]. destruct (is_abs t); [apply Phys_nil|exact Hc].
  - eapply IH; eassumption.
Qed.

Lemma realpath_phys f fuel p q : joinreal fuel f [] [] (map Seg p) = RP_ok q -> Phys f q.
Proof. apply joinreal_phys. apply Phys_nil. Qed.

Lemma resolve_phys f p q : no_loop_met f p -> resolve f p = RP_ok q -> Phys f q.
Proof.
  unfold no_loop_met, resolve. intros Hn H.
  destruct (joinreal (rfuel f p) f [] [] (map Seg p)) as [q0|s| | |] eqn:E; try discriminate.
  - inversion H; subst. eapply realpath_phys. exact E.
  - exfalso. exact (Hn s eq_refl).
Qed.

(* ---------------------------------------------------------------- kernel walk on a physical path *)

Lemma normal_seg_tests s : normal_seg s = true -> is_empty s || is_dot s = false /\ is_dotdot s = false.
Proof.
  unfold normal_seg. intro H. apply andb_true_iff in H as [H H4]. apply andb_true_iff in H as [H H3]. apply andb_true_iff in H as [H1 H2].
  apply negb_true_iff in H1, H2, H3. rewrite H1, H2, H3. auto.
Qed.

Lemma normal_seg_nonul s : normal_seg s = true -> memN 0 s = false.
Proof. unfold normal_seg. intro H. apply andb_true_iff in H as [_ H]. apply negb_true_iff in H. exact H. Qed.

Lemma node_at_snoc f c s : node_at f (c ++ [s]) = lookup f (c ++ [s]).
Proof. destruct c; reflexivity. Qed.

(* stat/lstat/open of a physical path end at that very path: no symbolic link is followed *)
Lemma kwalk_phys f : forall w fuel links fl cur q n,
  phys_from f cur w -> kwalk fuel links f fl cur w = KOk q n -> q = cur ++ w /\ node_at f q = Some n.
Proof.
  induction w as [|s w IH]; intros fuel links fl cur q n Hp H; (destruct fuel as [|k]; [discriminate|]); cbn [kwalk] in H.
  - rewrite app_nil_r. destruct (node_at f cur) eqn:E; [|discriminate]. inversion H; subst. auto.
  - destruct Hp as (Hn & Hl & Hp). destruct (memN 0 s); [discriminate|].
    destruct (normal_seg_tests s Hn) as [T1 T2]. rewrite T1, T2 in H.
    unfold child in Hl.
    destruct (node_at f cur) as [[c| |t|]|] eqn:Ecur; try discriminate.
    destruct (lookup f (cur ++ [s])) as [[c| |t|]|] eqn:El; try discriminate.
    + destruct w; [|discriminate]. inversion H; subst. rewrite node_at_snoc. auto.
    + destruct w as [|s2 w].
      * inversion H; subst. rewrite node_at_snoc. auto.
      * apply IH in H; [|exact Hp]. rewrite <- app_assoc in H. exact H.
    + destruct w; [|discriminate]. inversion H; subst. rewrite node_at_snoc. auto.
Qed.

(* lstat of (physical directory path)/name: the name itself is looked up, nothing is followed *)
Lemma klstat_last f : forall w fuel links cur s q n,
  phys_from f cur w -> normal_seg s = true ->
  kwalk fuel links f false cur (w ++ [s]) = KOk q n -> q = cur ++ w ++ [s] /\ lookup f q = Some n.
Proof.
  induction w as [|a w IH]; intros fuel links cur s q n Hp Hs H; (destruct fuel as [|k]; [discriminate|]); cbn [kwalk app] in H.
  - destruct (memN 0 s); [discriminate|].
    destruct (normal_seg_tests s Hs) as [T1 T2]. rewrite T1, T2 in H.
    destruct (node_at f cur) as [[c| |t|]|] eqn:Ecur; try discriminate.
    destruct (lookup f (cur ++ [s])) as [[c| |t|]|] eqn:El; try discriminate;
      cbn in H; inversion H; subst; auto.
  - destruct Hp as (Hn & Hl & Hp). destruct (memN 0 a); [discriminate|].
    destruct (normal_seg_tests a Hn) as [T1 T2]. rewrite T1, T2 in H.
    unfold child in Hl.
    destruct (node_at f cur) as [[c| |t|]|] eqn:Ecur; try discriminate.
    assert (Hne : w ++ [s] <> []) by (destruct w; discriminate).
    destruct (lookup f (cur ++ [a])) as [[c| |t|]|] eqn:El; try discriminate;
      destruct (w ++ [s]) as [|s2 w2] eqn:Ew; try congruence; try discriminate.
    rewrite <- Ew in H. apply IH in H; [|exact Hp|exact Hs]. rewrite <- app_assoc in H. exact H.
Qed.

(* ---------------------------------------------------------------- lstat finds every link on a physical directory path *)

Fixpoint dirs_from (f : fs) (cur : path) (w : path) : Prop :=
  match w with
  | [] => True
  | s :: w' => lookup f (cur ++ [s]) = Some NDir /\ dirs_from f (cur ++ [s]) w'
  end.

Lemma dirs_from_app f a : forall c b, dirs_from f c (a ++ b) <-> dirs_from f c a /\ dirs_from f (c ++ a) b.
Proof.
  induction a as [|s a IH]; intros c b; cbn [dirs_from app].
  - rewrite app_nil_r. tauto.
  - rewrite IH. rewrite <- app_assoc. cbn [app]. tauto.
Qed.

(* in a tree, a directory's ancestors are directories *)
Lemma wf_dirs f : wf_fs f -> forall p, node_at f p = Some NDir -> dirs_from f [] p.
Proof.
  intros Hwf p. induction p as [|x q IH] using rev_ind; intro H; [exact I|].
  apply dirs_from_app. cbn [dirs_from app]. rewrite node_at_snoc in H. split; [|auto].
  apply IH. destruct q as [|y q']; [reflexivity|].
  cbn [node_at]. eapply Hwf; [discriminate|exact H].
Qed.

Lemma kwalk_complete f : forall w fuel links cur s n,
  (length w < fuel)%nat -> node_at f cur = Some NDir -> phys_from f cur w -> dirs_from f cur w ->
  normal_seg s = true -> lookup f (cur ++ w ++ [s]) = Some n ->
  kwalk fuel links f false cur (w ++ [s]) = KOk (cur ++ w ++ [s]) n.
Proof.
  induction w as [|a w IH]; intros fuel links cur s n Hf Hcur Hp Hd Hs Hl; (destruct fuel as [|k]; [cbn in Hf; lia|]); cbn [kwalk app].
  - destruct (normal_seg_tests s Hs) as [T1 T2]. rewrite (normal_seg_nonul s Hs), T1, T2, Hcur.
    cbn [app] in Hl. rewrite Hl. destruct n; reflexivity.
  - destruct Hp as (Hn & Hlk & Hp). destruct Hd as (Hda & Hd).
    destruct (normal_seg_tests a Hn) as [T1 T2]. rewrite (normal_seg_nonul a Hn), T1, T2, Hcur, Hda.
    destruct (w ++ [s]) as [|s2 w2] eqn:Ew; [destruct w; discriminate|]. rewrite <- Ew.
    rewrite IH with (n := n); try assumption.
    + rewrite <- app_assoc. reflexivity.
    + cbn [length] in Hf. lia.
    + rewrite node_at_snoc. exact Hda.
    + rewrite <- app_assoc. exact Hl.
Qed.

Lemma klstat_complete f probe s n : wf_fs f -> Phys f probe -> normal_seg s = true ->
  child f probe s = Some n -> klstat f (probe ++ [s]) = KOk (probe ++ [s]) n.
Proof.
  intros Hwf Hp Hs Hc. unfold child in Hc.
  destruct (node_at f probe) as [[| | |]|] eqn:En; try discriminate.
  unfold klstat. apply (kwalk_complete f probe (kfuel f (probe ++ [s])) MAXSYMLINKS [] s n); try assumption.
  - unfold kfuel. rewrite app_length. cbn [length]. lia.
  - reflexivity.
  - apply wf_dirs; assumption.
Qed.

(* the loop of fix 6ac5763 establishes exactly Phys *)
Lemma no_link_phys f : wf_fs f -> forall parts probe,
  Phys f probe -> forallb normal_seg parts = true -> no_link_below f probe parts = true -> Phys f (probe ++ parts).
Proof.
  intros Hwf. induction parts as [|s r IH]; intros probe Hp Hn H; [rewrite app_nil_r; exact Hp|].
  cbn [forallb] in Hn. apply andb_true_iff in Hn as [Hs Hn]. cbn [no_link_below] in H.
  assert (Hl : is_link (child f probe s) = false).
  { destruct (child f probe s) as [[c| |t|]|] eqn:Ec; try reflexivity.
    rewrite (klstat_complete f probe s _ Hwf Hp Hs Ec) in H. discriminate. }
  assert (Hr : no_link_below f (probe ++ [s]) r = true).
  { destruct (klstat f (probe ++ [s])) as [q [c| |t|]| | | | |]; try exact H. discriminate. }
  replace (probe ++ s :: r) with ((probe ++ [s]) ++ r) by (rewrite <- app_assoc; reflexivity).
  apply IH; [apply Phys_snoc; assumption|exact Hn|exact Hr].
Qed.

Lemma phys_from_normal f : forall w c, phys_from f c w -> forallb normal_seg w = true.
Proof.
  induction w as [|s w IH]; intros c H; [reflexivity|]. destruct H as (A & _ & B).
  cbn [forallb]. rewrite A. cbn [andb]. eapply IH. exact B.
Qed.

(* every segment of a path Path.resolve() returns is an ordinary name *)
Lemma resolve_normal f p q : resolve f p = RP_ok q -> forallb normal_seg q = true.
Proof.
  unfold resolve. intro H.
  destruct (joinreal (rfuel f p) f [] [] (map Seg p)) as [q0|s| | |] eqn:E; try discriminate.
  - inversion H; subst. eapply phys_from_normal. eapply (joinreal_phys f _ _ _ _ _ (Phys_nil f) E).
  - set (qq := snd (parse_posix (py_normpath s))) in *.
    destruct (existsb (memN 0) qq) eqn:Ez; [discriminate|].
    assert (q = qq) by (destruct (kstat f qq) as [? ?| | | | |]; try discriminate; inversion H; reflexivity).
    subst q. pose proof (normpath_abs_no_dd s (joinreal_partial_abs _ _ _ _ _ _ E)) as Hdd. fold qq in Hdd.
    apply forallb_forall. intros x Hx. unfold normal_seg.
    assert (Hf : negb (is_empty x) && negb (is_dot x) = true).
    { unfold qq, parse_posix in Hx. cbn [snd] in Hx. apply filter_In in Hx as [_ Hx]. exact Hx. }
    rewrite Hf. unfold no_dd in Hdd. rewrite forallb_forall in Hdd. rewrite (Hdd x Hx). cbn [andb].
    destruct (memN 0 x) eqn:Em; [|reflexivity].
    assert (existsb (memN 0) qq = true) by (apply existsb_exists; exists x; auto). congruence.
Qed.

Lemma path_prefix_skipn root : forall p, path_prefix root p = true -> p = root ++ skipn (length root) p.
Proof.
  induction root as [|x r IH]; intros p H; [reflexivity|].
  destruct p as [|y p]; cbn [path_prefix] in H; [discriminate|].
  apply andb_true_iff in H as [H1 H2]. apply list_eqb_eq in H1. subst y. cbn [length skipn app]. f_equal. apply IH. exact H2.
Qed.

Lemma sandbox_phys f root x p0 : wf_fs f -> Phys f root -> resolve f x = RP_ok p0 ->
  path_prefix root p0 = true -> no_link_below f root (skipn (length root) p0) = true -> Phys f p0.
Proof.
  intros Hwf Hroot Er Epre Hnl. pose proof (resolve_normal _ _ _ Er) as Hn.
  pose proof (path_prefix_skipn root p0 Epre) as E.
  remember (skipn (length root) p0) as rel eqn:Erel. clear Erel.
  rewrite E in Hn. rewrite E. rewrite forallb_app in Hn. apply andb_true_iff in Hn as [_ Hn].
  apply no_link_phys; assumption.
Qed.

(* a decidable form of wf_fs, for concrete trees *)
Definition wf_fsb (f : fs) : bool :=
  forallb (fun e => match rev (fst e) with
                    | [] => true
                    | _ :: rp => match rev rp with
                                 | [] => true
                                 | par => match lookup f par with Some NDir => true | _ => false end
                                 end
                    end) f.

Lemma lookup_in f : forall x n, lookup f x = Some n -> exists q, In (q, n) f /\ q = x.
Proof.
  induction f as [|[q m] r IH]; intros x n H; cbn [lookup] in H; [discriminate|].
  destruct (path_eqb q x) eqn:E.
  - inversion H; subst. apply path_eqb_eq in E. exists q. split; [left; reflexivity|exact E].
  - destruct (IH x n H) as (q' & A & B). exists q'. split; [right; exact A|exact B].
Qed.

Lemma wf_fsb_sound f : wf_fsb f = true -> wf_fs f.
Proof.
  unfold wf_fsb, wf_fs. rewrite forallb_forall. intros H p s n Hp Hl.
  destruct (lookup_in f _ _ Hl) as (q & Hin & ->). specialize (H _ Hin). cbn [fst] in H.
  rewrite rev_app_distr in H. cbn [rev app] in H. rewrite rev_involutive in H.
  destruct p as [|y p']; [congruence|].
  destruct (lookup f (y :: p')) as [[| | |]|]; try discriminate. reflexivity.
Qed.

(* ---------------------------------------------------------------- the handler *)

Lemma ext_lengths : forallb (fun e => Nat.leb 2 (length (fst e)) && negb (memN 0 (fst e))) encoding_extensions = true.
Proof. vm_compute. reflexivity. Qed.

Lemma list_eqb_false_length a b : length a <> length b -> list_eqb a b = false.
Proof.
  intro H. destruct (list_eqb a b) eqn:E; [|reflexivity]. apply list_eqb_eq in E. subst. congruence.
Qed.

Lemma normal_app_ext name ext : normal_seg name = true -> (2 <= length ext)%nat -> memN 0 ext = false ->
  normal_seg (name ++ ext) = true.
Proof.
  intros Hn Hl Hz. pose proof (normal_seg_nonul _ Hn) as Hz0.
  assert (Hz2 : memN 0 (name ++ ext) = false) by (rewrite memN_app, Hz0, Hz; reflexivity).
  unfold normal_seg in *. rewrite Hz2. cbn [negb]. rewrite andb_true_r. rewrite Hz0 in Hn. cbn [negb] in Hn. rewrite andb_true_r in Hn.
  unfold is_empty, is_nil, is_dot, is_dotdot in *.
  destruct name as [|a name]; [discriminate|].
  assert (L : (3 <= length ((a :: name) ++ ext))%nat) by (rewrite app_length; cbn [length]; lia).
  rewrite (list_eqb_false_length _ [46]) by (cbn [length] in *; lia).
  rewrite (list_eqb_false_length _ [46; 46]) by (cbn [length] in *; lia).
  reflexivity.
Qed.

Lemma try_encodings_sound f parent name accept : forall exts q enc c,
  forallb (fun e => Nat.leb 2 (length (fst e)) && negb (memN 0 (fst e))) exts = true ->
  Phys f (parent ++ [name]) ->
  try_encodings f parent name accept exts = Some (q, enc, c) ->
  exists ext, (2 <= length ext)%nat /\ q = parent ++ [name ++ ext] /\ lookup f q = Some (NFile c) /\ Phys f q.
Proof.
  induction exts as [|[ext enc0] r IH]; intros q enc c Hl Hp H; cbn [try_encodings] in H; [discriminate|].
  cbn [forallb fst] in Hl. apply andb_true_iff in Hl as [Hl1 Hl2]. apply andb_true_iff in Hl1 as [Hl1 Hz].
  apply Nat.leb_le in Hl1. apply negb_true_iff in Hz.
  destruct (is_infix enc0 accept); [|eapply IH; eassumption].
  destruct (klstat f (parent ++ [name ++ ext])) as [q0 [c0| |t|]| | | | |] eqn:E; try (eapply IH; eassumption).
  inversion H; subst. clear H.
  pose proof (Phys_last_normal _ _ _ Hp) as Hn. pose proof (Phys_prefix _ _ _ Hp) as Hpar.
  pose proof (normal_app_ext name ext Hn Hl1 Hz) as Hn2.
  unfold klstat in E. apply klstat_last in E; [|exact Hpar|exact Hn2]. cbn [app] in E. destruct E as [-> El].
  exists ext. split; [exact Hl1|]. split; [reflexivity|]. split; [exact El|].
  apply Phys_snoc; [exact Hpar|exact Hn2|].
  unfold child. destruct (node_at f parent) as [[| | |]|]; try reflexivity. rewrite El. reflexivity.
Qed.

Lemma file_lookup_sound f p accept q enc c :
  Phys f p -> file_lookup f p accept = SFile q enc c ->
  lookup f q = Some (NFile c) /\ Phys f q /\
  (q = p \/ exists parent name ext, p = parent ++ [name] /\ q = parent ++ [name ++ ext]).
Proof.
  intros Hp H. unfold file_lookup in H.
  destruct (rev p) as [|name rparent] eqn:Er; [discriminate|].
  assert (Ep : p = rev rparent ++ [name]).
  { rewrite <- (rev_involutive p), Er. reflexivity. }
  destruct (try_encodings f (rev rparent) name (map lower_ascii accept) encoding_extensions) as [[[q0 enc0] c0]|] eqn:Et.
  - inversion H; subst q0 c0. clear H. rewrite Ep in Hp.
    destruct (try_encodings_sound _ _ _ _ _ _ _ _ ext_lengths Hp Et) as (ext & _ & -> & Hl & Hq).
    split; [exact Hl|]. split; [exact Hq|]. right. exists (rev rparent), name, ext. auto.
  - destruct (kstat f p) as [q0 [c0| |t|]| | | | |] eqn:Ek; try discriminate.
    inversion H; subst. clear H. unfold kstat in Ek. apply kwalk_phys in Ek; [|exact Hp].
    cbn [app] in Ek. destruct Ek as [-> Hn].
    split; [|split; [exact Hp|left; reflexivity]].
    rewrite node_at_snoc in Hn. exact Hn.
Qed.

(* ---- the two branches of _resolve_path_to_response, inverted once ---- *)
Definition after_resolve (f : fs) (root : path) (show : bool) (accept : str) (p : path) : sresp :=
  match kstat f p with
  | KOk q NDir => if show then (if path_prefix root p then SListing p (children f q) else S500) else S403
  | KFuel => SFuel
  | _ => file_lookup f p accept
  end.

(* sandbox branch (with the per-component symlink check of fix 6ac5763) *)
Lemma handle_sandbox_inv f root show accept fn r :
  handle f root false show accept fn = r ->
  (exists segs p0, parse_posix fn = (false, segs) /\ resolve f (root ++ segs) = RP_ok p0 /\
     path_prefix root p0 = true /\ no_link_below f root (skipn (length root) p0) = true /\
     r = after_resolve f root show accept p0)
  \/ r = S404 \/ r = SFuel \/ r = S500.
Proof.
  unfold handle. destruct (parse_posix fn) as [isabs segs]. destruct isabs; [intros <-; auto|].
  destruct (resolve f (root ++ segs)) as [p0|s0| | |] eqn:Er; try (intros <-; auto; fail).
  destruct (path_prefix root p0) eqn:Epre; try (intros <-; auto; fail).
  destruct (no_link_below f root (skipn (length root) p0)) eqn:Enl; try (intros <-; auto; fail).
  intros <-. left. exists segs, p0. repeat split; auto.
Qed.

Lemma handle_follow_inv f root show accept fn r :
  handle f root true show accept fn = r ->
  (exists segs p0, parse_posix fn = (false, segs) /\
     path_prefix root (snd (parse_posix (py_normpath (path_str (root ++ segs))))) = true /\
     resolve f (snd (parse_posix (py_normpath (path_str (root ++ segs))))) = RP_ok p0 /\
     r = after_resolve f root show accept p0)
  \/ r = S404 \/ r = SFuel \/ r = S500.
Proof.
  unfold handle. destruct (parse_posix fn) as [isabs segs]. destruct isabs; [intros <-; auto|].
  destruct (path_prefix root (snd (parse_posix (py_normpath (path_str (root ++ segs)))))) eqn:Epre;
    try (intros <-; auto; fail).
  destruct (resolve f (snd (parse_posix (py_normpath (path_str (root ++ segs)))))) as [p0|s0| | |] eqn:Er;
    try (intros <-; auto; fail).
  intros <-. left. exists segs, p0. repeat split; auto.
Qed.

Lemma after_resolve_file f root show accept p0 p enc c :
  after_resolve f root show accept p0 = SFile p enc c ->
  file_lookup f p0 accept = SFile p enc c /\ (forall q, kstat f p0 <> KOk q NDir).
Proof.
  unfold after_resolve. intro H.
  destruct (kstat f p0) as [q0 [c0| |t|]| | | | |] eqn:Ek; try (split; [exact H|intros q E; discriminate]).
  - destruct show; [destruct (path_prefix root p0)|]; discriminate.
  - discriminate.
Qed.

Lemma file_lookup_not_listing f p accept d names : file_lookup f p accept <> SListing d names.
Proof.
  unfold file_lookup. destruct (rev p); [discriminate|].
  destruct (try_encodings _ _ _ _ _) as [[[? ?] ?]|]; [discriminate|].
  destruct (kstat f p) as [? [| | |]| | | | |]; discriminate.
Qed.

Lemma after_resolve_listing f root show accept p0 d names :
  after_resolve f root show accept p0 = SListing d names ->
  show = true /\ d = p0 /\ path_prefix root p0 = true /\ exists q, kstat f p0 = KOk q NDir /\ names = children f q.
Proof.
  unfold after_resolve. intro H.
  destruct (kstat f p0) as [q0 [c0| |t|]| | | | |] eqn:Ek;
    try (exfalso; exact (file_lookup_not_listing _ _ _ _ _ H)); try discriminate.
  destruct show; [|discriminate]. destruct (path_prefix root p0) eqn:Epp; [|discriminate].
  inversion H; subst. repeat split; auto. exists q0. auto.
Qed.

(* core: a PHYSICAL path below the root handed to the file response yields a regular file stored
   physically below the root (also through the pre-compressed sibling) *)
Lemma after_resolve_confined f root show accept p0 p enc c :
  kstat f root = KOk root NDir -> Phys f p0 -> path_prefix root p0 = true ->
  after_resolve f root show accept p0 = SFile p enc c ->
  path_prefix root p = true /\ Phys f p /\ lookup f p = Some (NFile c).
Proof.
  intros Hroot Hp0 Epre H. apply after_resolve_file in H as [Hfl Hnd].
  destruct (file_lookup_sound _ _ _ _ _ _ Hp0 Hfl) as (Hl & Hq & Hcase).
  split; [|auto].
  destruct Hcase as [->|(parent & name & ext & -> & ->)]; [exact Epre|].
  apply path_prefix_snoc in Epre as [E|E].
  - exfalso. subst root. apply (Hnd (parent ++ [name])). exact Hroot.
  - apply path_prefix_app. exact E.
Qed.

(* THE FULL STATEMENT: sandbox mode, any tree, any filename text, any Accept-Encoding *)
Lemma handle_confined f root show accept fn p enc c :
  wf_fs f -> Phys f root -> kstat f root = KOk root NDir ->
  handle f root false show accept fn = SFile p enc c ->
  path_prefix root p = true /\ Phys f p /\ lookup f p = Some (NFile c).
Proof.
  intros Hwf Hpr Hroot H.
  apply handle_sandbox_inv in H as [(segs & p0 & Hp & Er & Epre & Enl & H)|[H|[H|H]]]; try discriminate.
  eapply after_resolve_confined; [exact Hroot|exact (sandbox_phys _ _ _ _ Hwf Hpr Er Epre Enl)|exact Epre|symmetry; exact H].
Qed.

(* without assuming anything about the tree's shape, under the hypothesis of the unrepaired code *)
Lemma handle_confined_partial f root show accept fn p enc c :
  kstat f root = KOk root NDir ->
  no_loop_met f (root ++ snd (parse_posix fn)) ->
  handle f root false show accept fn = SFile p enc c ->
  path_prefix root p = true /\ Phys f p /\ lookup f p = Some (NFile c).
Proof.
  intros Hroot Hnl H. apply handle_sandbox_inv in H as [(segs & p0 & Hp & Er & Epre & _ & H)|[H|[H|H]]]; try discriminate.
  rewrite Hp in Hnl. cbn [snd] in Hnl.
  eapply after_resolve_confined; [exact Hroot|exact (resolve_phys _ _ _ Hnl Er)|exact Epre|symmetry; exact H].
Qed.

Lemma file_lookup_path f p accept q enc c :
  file_lookup f p accept = SFile q enc c ->
  q = p \/ exists parent name ext, p = parent ++ [name] /\ q = parent ++ [name ++ ext].
Proof.
  intro H. unfold file_lookup in H.
  destruct (rev p) as [|name rparent] eqn:Er; [discriminate|].
  assert (Ep : p = rev rparent ++ [name]).
  { rewrite <- (rev_involutive p), Er. reflexivity. }
  destruct (try_encodings f (rev rparent) name (map lower_ascii accept) encoding_extensions) as [[[q0 enc0] c0]|] eqn:Et.
  - inversion H; subst q0 c0. clear H. right.
    assert (G : forall exts, try_encodings f (rev rparent) name (map lower_ascii accept) exts = Some (q, enc0, c) ->
                exists ext, q = rev rparent ++ [name ++ ext]).
    { induction exts as [|[ext e0] r IH]; cbn [try_encodings]; [discriminate|].
      destruct (is_infix e0 (map lower_ascii accept)); [|exact IH].
      destruct (klstat f (rev rparent ++ [name ++ ext])) as [q1 [c1| |t|]| | | | |]; try exact IH.
      intro E; inversion E; subst. exists ext. reflexivity. }
    destruct (G _ Et) as [ext ->]. exists (rev rparent), name, ext. auto.
  - destruct (kstat f p) as [q0 [c0| |t|]| | | | |]; try discriminate. inversion H; subst. left. reflexivity.
Qed.

Lemma handle_lexically_confined f root show accept fn p enc c :
  kstat f root = KOk root NDir ->
  handle f root false show accept fn = SFile p enc c ->
  path_prefix root p = true.
Proof.
  intros Hroot H. apply handle_sandbox_inv in H as [(segs & p0 & Hp & Er & Epre & _ & H)|[H|[H|H]]]; try discriminate.
  symmetry in H. apply after_resolve_file in H as [Hfl Hnd].
  destruct (file_lookup_path _ _ _ _ _ _ Hfl) as [->|(parent & name & ext & -> & ->)]; [exact Epre|].
  apply path_prefix_snoc in Epre as [E|E].
  - exfalso. subst root. apply (Hnd (parent ++ [name])). exact Hroot.
  - apply path_prefix_app. exact E.
Qed.

(* follow mode: the lexically normalised target is below the root (the URI cannot walk out; links can) *)
Lemma handle_follow_lexical f root show accept fn p enc c :
  handle f root true show accept fn = SFile p enc c ->
  exists segs n, parse_posix fn = (false, segs) /\
    n = snd (parse_posix (py_normpath (path_str (root ++ segs)))) /\
    path_prefix root n = true /\ exists p0, resolve f n = RP_ok p0.
Proof.
  intro H. apply handle_follow_inv in H as [(segs & p0 & Hp & Epre & Er & H)|[H|[H|H]]]; try discriminate.
  exists segs, (snd (parse_posix (py_normpath (path_str (root ++ segs))))). repeat split; auto. exists p0. exact Er.
Qed.

(* a directory listing is produced only when show_index is set, and only for a path lexically below the root *)
Lemma handle_listing f root follow show accept fn d names :
  handle f root follow show accept fn = SListing d names ->
  show = true /\ path_prefix root d = true.
Proof.
  intro H. destruct follow.
  - apply handle_follow_inv in H as [(segs & p0 & Hp & Epre & Er & H)|[H|[H|H]]]; try discriminate.
    symmetry in H. apply after_resolve_listing in H as (A & -> & B & _). auto.
  - apply handle_sandbox_inv in H as [(segs & p0 & Hp & Er & Epre & _ & H)|[H|[H|H]]]; try discriminate.
    symmetry in H. apply after_resolve_listing in H as (A & -> & B & _). auto.
Qed.

(* sandbox mode: the listed directory is the physical directory d below the root, and its own entries *)
Lemma handle_listing_physical f root show accept fn d names :
  wf_fs f -> Phys f root ->
  handle f root false show accept fn = SListing d names ->
  path_prefix root d = true /\ Phys f d /\ node_at f d = Some NDir /\ names = children f d.
Proof.
  intros Hwf Hpr H. apply handle_sandbox_inv in H as [(segs & p0 & Hp & Er & Epre & Enl & H)|[H|[H|H]]]; try discriminate.
  pose proof (sandbox_phys _ _ _ _ Hwf Hpr Er Epre Enl) as Hp0.
  symmetry in H. apply after_resolve_listing in H as (A & -> & B & q & Ek & ->).
  unfold kstat in Ek. apply kwalk_phys in Ek; [|exact Hp0]. cbn [app] in Ek. destruct Ek as [-> Hn]. auto.
Qed.

Lemma handle_absolute f root follow show accept fn : is_abs fn = true -> handle f root follow show accept fn = S404.
Proof. intro H. unfold handle, parse_posix. rewrite H. reflexivity. Qed.

(* the whole route: whatever the request path decodes to *)
Lemma serve_path_listing f prefix root follow show accept path_safe d names :
  serve_path f prefix root follow show accept path_safe = SListing d names ->
  show = true /\ path_prefix root d = true.
Proof.
  intro H. unfold serve_path in H. destruct (static_resolve prefix path_safe); [|discriminate].
  eapply handle_listing; eassumption.
Qed.

Lemma serve_path_confined f prefix root show accept path_safe p enc c :
  wf_fs f -> Phys f root -> kstat f root = KOk root NDir ->
  serve_path f prefix root false show accept path_safe = SFile p enc c ->
  path_prefix root p = true /\ Phys f p /\ lookup f p = Some (NFile c).
Proof.
  intros Hwf Hpr Hr H. unfold serve_path in H. destruct (static_resolve prefix path_safe) as [fn|]; [|discriminate].
  eapply handle_confined; eassumption.
Qed.

Lemma serve_path_listing_physical f prefix root show accept path_safe d names :
  wf_fs f -> Phys f root ->
  serve_path f prefix root false show accept path_safe = SListing d names ->
  path_prefix root d = true /\ Phys f d /\ node_at f d = Some NDir /\ names = children f d.
Proof.
  intros Hwf Hpr H. unfold serve_path in H. destruct (static_resolve prefix path_safe) as [fn|]; [|discriminate].
  eapply handle_listing_physical; eassumption.
Qed.

(* ---------------------------------------------------------------- witnesses of the two repaired escapes *)
(* Repaired by 706b3e0 / 6ac5763:
   /r (root) ; /r/a -> b ; /r/b -> a (a loop) ; /r/l -> ../o ; /o regular file "B" (outside).
   filename "a/../l": realpath gives up at the loop, Path.resolve() returns /r/l (a link) which passes
   relative_to(root); originally /o was served. *)
Definition loop_fs : fs :=
  [([[114]], NDir); ([[114]; [97]], NLink [98]); ([[114]; [98]], NLink [97]);
   ([[114]; [108]], NLink [46; 46; 47; 111]); ([[111]], NFile [66])].
Definition loop_fn : str := [97; 47; 46; 46; 47; 108].

Lemma loop_escape_repaired :
  wf_fsb loop_fs = true /\
  kstat loop_fs [[114]] = KOk [[114]] NDir /\
  resolve loop_fs [[114]; [97]; [46; 46]; [108]] = RP_ok [[114]; [108]] /\
  is_link (lookup loop_fs [[114]; [108]]) = true /\
  handle loop_fs [[114]] false false [] loop_fn = S404 /\
  handle loop_fs [[114]] false true [] loop_fn = S404.
Proof. vm_compute. repeat split; reflexivity. Qed.

(* Repaired by 6ac5763 (it survived the fixed-point test of 706b3e0):
   /r (root) ; /r/d -> ../o ; /o dir (outside) ; /o/n -> "x/../n/../../r/d/n" (x missing) ; /o/n.gz file "S".
   filename "d/n": realpath gives up when it meets /o/n again, the rest "../../r/d/n" normalises the answer
   back to /r/d/n; stat() there fails with ENOENT (not ELOOP) so resolve() returns /r/d/n, a fixed point of
   resolve() below the root lexically; with Accept-Encoding: gzip the sibling /r/d/n.gz was lstat'ed through
   the link d and /o/n.gz served.  The per-component check finds the link /r/d. *)
Definition sib_fs : fs :=
  [([[114]], NDir); ([[114]; [100]], NLink [46; 46; 47; 111]); ([[111]], NDir);
   ([[111]; [110]], NLink [120; 47; 46; 46; 47; 110; 47; 46; 46; 47; 46; 46; 47; 114; 47; 100; 47; 110]);
   ([[111]; [110; 46; 103; 122]], NFile [83])].
Definition sib_fn : str := [100; 47; 110].
Definition gzip_str : str := [103; 122; 105; 112].

Lemma sibling_escape_repaired :
  wf_fsb sib_fs = true /\
  kstat sib_fs [[114]] = KOk [[114]] NDir /\
  resolve sib_fs [[114]; [100]; [110]] = RP_ok [[114]; [100]; [110]] /\
  is_link (lookup sib_fs [[114]; [100]]) = true /\
  klstat sib_fs [[114]; [100]; [110; 46; 103; 122]] = KOk [[111]; [110; 46; 103; 122]] (NFile [83]) /\
  handle sib_fs [[114]] false false gzip_str sib_fn = S404 /\
  handle sib_fs [[114]] false false [] sib_fn = S404.
Proof. vm_compute. repeat split; reflexivity. Qed.

(* a tree  /r (root, dir)  /r/f (file "A")  /r/l -> ../o   /o (file "B") used by the examples *)
Definition ex_fs : fs :=
  [([[114]], NDir); ([[114]; [102]], NFile [65]); ([[114]; [108]], NLink [46; 46; 47; 111]); ([[111]], NFile [66])].

Lemma ex_hyps : wf_fs ex_fs /\ Phys ex_fs [[114]] /\ kstat ex_fs [[114]] = KOk [[114]] NDir.
Proof.
  split; [apply wf_fsb_sound; vm_compute; reflexivity|].
  split; [|vm_compute; reflexivity].
  unfold Phys. cbn [phys_from]. repeat split; vm_compute; reflexivity.
Qed.

Lemma ex_no_loop : no_loop_met ex_fs ([[114]] ++ snd (parse_posix [102])).
Proof. intros s H. vm_compute in H. discriminate. Qed.
