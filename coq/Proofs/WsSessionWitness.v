(* C13 — concrete reachable states of the model (each history is also a corpus case replayed on the implementation:
   corpus/C13/*.json), and helpers to exhibit reachable states. *)
From Coq Require Import List NArith Bool Arith Lia.
Import ListNotations.
From AV Require Import Generated.WsSessionGen Model.WsSession Proofs.WsSessionTransport.
Open Scope N_scope.

Lemma reach_apply c es : forall s s', reach c s -> apply_events c s es = Some s' -> reach c s'.
Proof.
  induction es as [|e r IH]; intros s s' R H; cbn [apply_events] in H.
  - inversion H; subst; exact R.
  - destruct (step c s e) eqn:E; [|discriminate]. eapply IH; [|exact H]. eapply reach_step; eauto.
Qed.

Lemma reach_run_idle c n : forall s, reach c s -> reach c (run_idle c n s).
Proof.
  induction n; intros s R; cbn [run_idle]; [exact R|].
  destruct (ready s) eqn:E; [exact R|]. apply IHn. eapply reach_step with (e := ERun); [exact R|]. unfold step. rewrite E. reflexivity.
Qed.

(* events, then the loop runs until idle *)
Fixpoint play (c : config) (s : state) (bursts : list (list event)) : option state :=
  match bursts with
  | [] => Some s
  | b :: r => match apply_events c s b with Some s' => play c (run_idle c 64 s') r | None => None end
  end.
Lemma reach_play c bs : forall s s', reach c s -> play c s bs = Some s' -> reach c s'.
Proof.
  induction bs as [|b r IH]; intros s s' R H; cbn [play] in H.
  - inversion H; subst; exact R.
  - destruct (apply_events c s b) eqn:E; [|discriminate]. eapply IH; [|exact H].
    apply reach_run_idle. eapply reach_apply; eauto.
Qed.

Definition no_closer (c : config) (s : state) : Prop := forall t, closer c (t_pc (tasks s t)) = false.
(* the session has ended: closed, and no task is still inside close() *)
Definition finished (c : config) (s : state) : Prop := closed s = true /\ no_closer c s.

Definition cfgS : config := mkConfig Server true true None 9 None.
Definition cfgC : config := mkConfig Client true true None 9 None.

Ltac all_tasks := let t := fresh "t" in intro t; do 5 (destruct t as [|t]; [vm_compute; reflexivity|]); vm_compute; reflexivity.

(* ---- the former counterexamples (all repaired in /repo; corpus/C13/fixed_*.json) now end as the property says ---- *)

(* server: close(code=1001) from task 1 while task 0 is blocked in receive(): close() now waits for the peer
   (fix ee50231); the peer answers 4001 *)
Definition w_close_vs_receive : list (list event) :=
  [[ECall 0 OpRecv]; [ECall 1 (OpClose 1001)]; [EPeer (PMsg (MClose 4001))]].
Lemma witness_server_close_vs_receive_waits :
  exists s, reach cfgS s /\ finished cfgS s /\ tr_closing s = true /\ sent s = [FClose 1001] /\
            peer_closes s = [4001] /\ close_code s = Some 4001 /\ t_pc (tasks s 0) = PDone (RMsg MClosing) /\
            t_pc (tasks s 1) = PDone (RBool true).
Proof.
  destruct (play cfgS (init cfgS) w_close_vs_receive) as [s|] eqn:E; [|vm_compute in E; discriminate].
  exists s. split; [eapply reach_play; [apply reach_init|exact E]|].
  vm_compute in E. inversion E; subst. clear E.
  repeat split; try reflexivity. all_tasks.
Qed.
(* ... and with a silent peer it ends with 1006 after the close timeout *)
Lemma witness_server_close_vs_receive_timeout :
  exists s, reach cfgS s /\ finished cfgS s /\ tr_closing s = true /\ peer_closes s = [] /\
            close_code s = Some ws_close_abnormal.
Proof.
  destruct (play cfgS (init cfgS) [[ECall 0 OpRecv]; [ECall 1 (OpClose 1001)]; [EAdvance 9]]) as [s|] eqn:E; [|vm_compute in E; discriminate].
  exists s. split; [eapply reach_play; [apply reach_init|exact E]|].
  vm_compute in E. inversion E; subst. clear E.
  repeat split; try reflexivity. all_tasks.
Qed.

(* server: close() and connection loss in the same tick while receive() is blocked: 1006 (fix ee50231) *)
Definition w_close_eof : list (list event) := [[ECall 0 OpRecv]; [ECall 1 (OpClose 1000); EDrop]].
Lemma witness_server_close_racing_eof :
  exists s, reach cfgS s /\ finished cfgS s /\ lost s = true /\ peer_closes s = [] /\ sent s = [] /\
            close_code s = Some ws_close_abnormal.
Proof.
  destruct (play cfgS (init cfgS) w_close_eof) as [s|] eqn:E; [|vm_compute in E; discriminate].
  exists s. split; [eapply reach_play; [apply reach_init|exact E]|].
  vm_compute in E. inversion E; subst. clear E.
  repeat split; try reflexivity. all_tasks.
Qed.

(* server: close() cancelled while it waits for the blocked receive() to wake: transport closed, 1006 (fix 6837d66) *)
Definition w_cancel_cw : list (list event) := [[ECall 0 OpRecv]; [ECall 1 (OpClose 1000); ERun; ECancel 1]].
Lemma witness_server_cancelled_close :
  exists s, reach cfgS s /\ finished cfgS s /\ ready s = [] /\ tr_closing s = true /\
            close_code s = Some ws_close_abnormal /\ t_pc (tasks s 1) = PDone XCancelled.
Proof.
  destruct (play cfgS (init cfgS) w_cancel_cw) as [s|] eqn:E; [|vm_compute in E; discriminate].
  exists s. split; [eapply reach_play; [apply reach_init|exact E]|].
  vm_compute in E. inversion E; subst. clear E.
  repeat split; try reflexivity. all_tasks.
Qed.

(* client: a malformed frame while receive() is blocked: our close frame carries 1002, the report is 1006 (fix 2731c52) *)
Definition w_client_bad : list (list event) := [[ECall 0 OpRecv]; [EPeer (PBad ws_close_protocol_error)]].
Lemma witness_client_protocol_error :
  exists s, reach cfgC s /\ finished cfgC s /\ tr_closing s = true /\ sent s = [FClose ws_close_protocol_error] /\
            peer_closes s = [] /\ close_code s = Some ws_close_abnormal.
Proof.
  destruct (play cfgC (init cfgC) w_client_bad) as [s|] eqn:E; [|vm_compute in E; discriminate].
  exists s. split; [eapply reach_play; [apply reach_init|exact E]|].
  vm_compute in E. inversion E; subst. clear E.
  repeat split; try reflexivity. all_tasks.
Qed.

(* close() at time 0 with close timeout 9; a text frame at time 8 does NOT re-arm the timeout: by time 16 close()
   has returned with 1006 — on the client (since fix 7b896a4) as on the server *)
Definition w_client_restart : list (list event) :=
  [[ECall 0 (OpClose 1000)]; [EAdvance 8]; [EPeer (PMsg MText)]; [EAdvance 8]].
Lemma witness_client_deadline_kept :
  exists s, reach cfgC s /\ now s = now (init cfgC) + 16 /\ c_close_tmo cfgC = 9 /\
            t_pc (tasks s 0) = PDone (RBool true) /\ close_code s = Some ws_close_abnormal /\ tr_closing s = true.
Proof.
  destruct (play cfgC (init cfgC) w_client_restart) as [s|] eqn:E; [|vm_compute in E; discriminate].
  exists s. split; [eapply reach_play; [apply reach_init|exact E]|].
  vm_compute in E. inversion E; subst. clear E.
  repeat split; reflexivity.
Qed.

(* the same history on the server *)
Lemma witness_server_deadline_kept :
  exists s, reach cfgS s /\ now s = now (init cfgS) + 16 /\
            t_pc (tasks s 0) = PDone (RBool true) /\ close_code s = Some ws_close_abnormal /\ tr_closing s = true.
Proof.
  destruct (play cfgS (init cfgS) w_client_restart) as [s|] eqn:E; [|vm_compute in E; discriminate].
  exists s. split; [eapply reach_play; [apply reach_init|exact E]|].
  vm_compute in E. inversion E; subst. clear E.
  repeat split; reflexivity.
Qed.

(* non-vacuity: a clean closing handshake on both sides *)
Definition w_clean : list (list event) := [[ECall 0 OpRecv]; [EPeer (PMsg (MClose 4001))]].
Lemma witness_clean_server :
  exists s, reach cfgS s /\ finished cfgS s /\ tr_closing s = true /\ cw_leak s = false /\
            sent s = [FClose ws_close_ok] /\ close_code s = Some 4001 /\ t_pc (tasks s 0) = PDone (RMsg (MClose 4001)).
Proof.
  destruct (play cfgS (init cfgS) w_clean) as [s|] eqn:E; [|vm_compute in E; discriminate].
  exists s. split; [eapply reach_play; [apply reach_init|exact E]|].
  vm_compute in E. inversion E; subst. clear E.
  repeat split; try reflexivity. all_tasks.
Qed.
Definition w_clean_client : list (list event) := [[ECall 0 OpRecv]; [ECall 1 (OpClose 1000)]; [EPeer (PMsg (MClose 4002))]].
Lemma witness_clean_client :
  exists s, reach cfgC s /\ finished cfgC s /\ tr_closing s = true /\ cw_leak s = false /\
            sent s = [FClose 1000] /\ close_code s = Some 4002 /\ t_pc (tasks s 1) = PDone (RBool true).
Proof.
  destruct (play cfgC (init cfgC) w_clean_client) as [s|] eqn:E; [|vm_compute in E; discriminate].
  exists s. split; [eapply reach_play; [apply reach_init|exact E]|].
  vm_compute in E. inversion E; subst. clear E.
  repeat split; try reflexivity. all_tasks.
Qed.

Definition code_ok (s : state) : Prop :=
  close_code s = Some ws_close_abnormal \/ exists x, close_code s = Some x /\ In x (peer_closes s).

Lemma transport_closed_full c s : reach c s -> finished c s -> tr_closing s = true.
Proof. intros R [Hc Hn]. eapply closed_implies_transport_closed; eauto. Qed.

(* a blocked receive() that is the registered waiter of the queue; a blocked close() with its timer armed *)
Lemma witness_blocked_receive :
  exists s, reach cfgS s /\ t_pc (tasks s 0) = PRecvWait /\ t_fut (tasks s 0) = None /\ q_waiter s = Some 0%nat /\
            waiting s = true /\ closed s = false /\ closing s = false /\ tr_closing s = false /\ lost s = false /\
            proto_close s = false /\ rd_exc s = false /\ close_wait s = None.
Proof.
  destruct (play cfgS (init cfgS) [[ECall 0 OpRecv]]) as [s|] eqn:E; [|vm_compute in E; discriminate].
  exists s. split; [eapply reach_play; [apply reach_init|exact E]|].
  vm_compute in E. inversion E; subst. clear E. repeat split; reflexivity.
Qed.
Lemma witness_blocked_close :
  exists s, reach cfgS s /\ t_pc (tasks s 0) = PCloseRead KTop /\ t_fut (tasks s 0) = None /\
            t_tmo (tasks s 0) = Some (now s + 9) /\ t_expired (tasks s 0) = false /\ t_cancel (tasks s 0) = false.
Proof.
  destruct (play cfgS (init cfgS) [[ECall 0 (OpClose 1000)]]) as [s|] eqn:E; [|vm_compute in E; discriminate].
  exists s. split; [eapply reach_play; [apply reach_init|exact E]|].
  vm_compute in E. inversion E; subst. clear E. repeat split; reflexivity.
Qed.

(* why "a blocked reader is the registered waiter" is not an invariant: client, receive() of task 0 woken by a text
   frame and cancelled before it runs, close() of tasks 1 and 2 started in between: task 2 consumes the buffer and
   registers, then the cancelled read() of task 0 executes `self._waiter = None` *)
Lemma witness_registration_wiped :
  exists s, reach cfgC s /\ t_pc (tasks s 2) = PCloseRead KTop /\ t_fut (tasks s 2) = None /\ q_waiter s = None /\ ready s = [].
Proof.
  destruct (play cfgC (init cfgC)
              [[ECall 0 OpRecv]; [ECall 1 (OpClose 1000); ECall 2 (OpClose 1000); EPeer (PMsg MText); ECancel 0]])
    as [s|] eqn:E; [|vm_compute in E; discriminate].
  exists s. split; [eapply reach_play; [apply reach_init|exact E]|].
  vm_compute in E. inversion E; subst. clear E. repeat split; reflexivity.
Qed.

(* client: two close() calls racing a blocked receive(); the handshake completes with the peer's code 3000 and the late
   receive() (its wake-up message was consumed by the second close()) no longer overwrites it (fix 0ea8ce0) *)
Lemma witness_client_two_closes_keep_peer_code :
  exists s, reach cfgC s /\ finished cfgC s /\ tr_closing s = true /\ sent s = [FClose 1001] /\
            peer_closes s = [3000] /\ close_code s = Some 3000.
Proof.
  destruct (play cfgC (init cfgC)
              [[ECall 0 OpRecv]; [ECall 1 (OpClose 1001); EPeerQ (PMsg (MClose 3000)); ECall 2 (OpClose 1001)]])
    as [s|] eqn:E; [|vm_compute in E; discriminate].
  exists s. split; [eapply reach_play; [apply reach_init|exact E]|].
  vm_compute in E. inversion E; subst. clear E. repeat split; try reflexivity. all_tasks.
Qed.
(* ... and when receive() takes the peer's close frame the second close() returns normally with that code *)
Lemma witness_client_receive_takes_peer_close :
  exists s, reach cfgC s /\ finished cfgC s /\ tr_closing s = true /\ peer_closes s = [3000] /\ close_code s = Some 3000 /\
            t_pc (tasks s 0) = PDone (RMsg (MClose 3000)).
Proof.
  destruct (play cfgC (init cfgC)
              [[ECall 0 OpRecv]; [ECall 1 (OpClose 3000); ECall 3 (OpClose 4001); EPeerQ (PMsg (MClose 3000))]])
    as [s|] eqn:E; [|vm_compute in E; discriminate].
  exists s. split; [eapply reach_play; [apply reach_init|exact E]|].
  vm_compute in E. inversion E; subst. clear E. repeat split; try reflexivity. all_tasks.
Qed.
