(* C06 — basic facts about Model/ClientConn.v: run/reachability, functional maps, the generated
   decision functions, and the connection-key theorem. *)
From AV Require Import Lib.Base Generated.ClientConnGen Model.ClientConn.
Open Scope N_scope.

(* ---- run ---- *)
Lemma run_app cf tr1 : forall s tr2,
  run cf s (tr1 ++ tr2) = match run cf s tr1 with Some s1 => run cf s1 tr2 | None => None end.
Proof.
  induction tr1 as [|ev tr1 IH]; intros s tr2; [reflexivity|].
  cbn [app run]. destruct (step cf s ev); [apply IH|reflexivity].
Qed.

Lemma run_invariant cf (P : state -> Prop) :
  (forall s ev s', P s -> step cf s ev = Some s' -> P s') ->
  forall tr s0 s, P s0 -> run cf s0 tr = Some s -> P s.
Proof.
  intros Hstep tr. induction tr as [|ev tr IH]; intros s0 s H0 Hr; cbn [run] in Hr.
  - now inversion Hr; subst.
  - destruct (step cf s0 ev) as [s1|] eqn:E; [|discriminate]. eapply IH; [|exact Hr]. eapply Hstep; eauto.
Qed.

(* ---- functional maps ---- *)
Lemma upd_same {A} (f : N -> A) i v : upd f i v i = v.
Proof. unfold upd. now rewrite N.eqb_refl. Qed.

Lemma upd_other {A} (f : N -> A) i v j : j <> i -> upd f i v j = f j.
Proof. unfold upd. intros H. apply N.eqb_neq in H. now rewrite H. Qed.

Lemma upd_cases {A} (f : N -> A) i v j : (j = i /\ upd f i v j = v) \/ (j <> i /\ upd f i v j = f j).
Proof.
  destruct (N.eq_dec j i) as [->|H]; [left; split; [reflexivity|apply upd_same]|right; split; [exact H|now apply upd_other]].
Qed.

(* ---- generated decisions (these lemmas are where a change of the Python conditions surfaces) ---- *)
Lemma should_close_false sc po up ex pp bu ta pl :
  should_close_gen sc po up ex pp bu ta pl = false ->
  sc = false /\ po = false /\ up = false /\ ex = false /\ bu = false /\ ta = false /\ pl = false.
Proof. unfold should_close_gen. destruct sc, po, up, ex, pp, bu, ta, pl; cbn; intros H; try discriminate; repeat split. Qed.

Lemma release_closes_false f a p : release_closes_gen f a p = false -> f = false /\ a = false /\ p = false.
Proof. unfold release_closes_gen. destruct f, a, p; cbn; intros H; try discriminate; repeat split. Qed.

Lemma release_closes_arg f p : release_closes_gen f true p = true.
Proof. unfold release_closes_gen. destruct f, p; reflexivity. Qed.

Lemma get_reuses_connected c p a k : get_reuses_gen c p a k = true -> c = true.
Proof. unfold get_reuses_gen. destruct c; [reflexivity|discriminate]. Qed.

Lemma get_reuses_clean c p a k : get_reuses_gen c p a k = true -> p = false.
Proof. unfold get_reuses_gen. destruct c, p; cbn; intros H; try discriminate; reflexivity. Qed.

Lemma response_eof_releases_true c u : response_eof_releases_gen c u = true -> c = false /\ u = false.
Proof. unfold response_eof_releases_gen. destruct c, u; cbn; intros H; try discriminate; split; reflexivity. Qed.

Lemma key_of_req_inj r1 r2 : key_of_req r1 = key_of_req r2 -> r1 = r2.
Proof.
  destruct r1, r2. unfold key_of_req. cbn. intros H. inversion H; subst. reflexivity.
Qed.

Lemma nonempty_false {A} (l : list A) : nonempty l = false -> l = [].
Proof. destruct l; [reflexivity|discriminate]. Qed.

(* ---- tactics ---- *)
Ltac inv_some :=
  repeat match goal with
  | H : Some (_, _) = Some (?a, ?b) |- _ => is_var a; is_var b; injection H as <- <-
  | H : Some _ = Some ?a |- _ => is_var a; injection H as <-
  | H : Some ?x = Some (?a, ?b) |- _ => is_var a; is_var b; injection H as H
  | H : (_, _) = (?a, ?b) |- _ => is_var a; is_var b; injection H as <- <-
  | H : None = Some _ |- _ => discriminate H
  | H : Some _ = None |- _ => discriminate H
  end.

Ltac break_hyp_match H :=
  match type of H with
  | context[match ?x with _ => _ end] => destruct x eqn:?
  | context[if ?x then _ else _] => destruct x eqn:?
  end.

(* ---- identity of a connection: c_rq and c_key never change ---- *)
Definition same_id (a b : conn) : Prop := c_rq b = c_rq a /\ c_key b = c_key a.

Lemma same_id_refl a : same_id a a.
Proof. split; reflexivity. Qed.

Lemma same_id_trans a b c : same_id a b -> same_id b c -> same_id a c.
Proof. intros [? ?] [? ?]. split; congruence. Qed.

Definition keyed (s : state) : Prop := forall c, c_key (s_conn s c) = key_of_req (c_rq (s_conn s c)).

(* every state change on an existing connection goes through the record setters *)
Lemma close_proto_id cn : same_id cn (close_proto cn).
Proof. split; reflexivity. Qed.

Lemma mark_incomplete_id cn : same_id cn (mark_incomplete cn).
Proof. unfold mark_incomplete. destruct (prog_done _); split; reflexivity. Qed.

Lemma push_msgs_id ms : forall cn, same_id cn (push_msgs cn ms).
Proof.
  induction ms as [|m ms IH]; intros cn; cbn [push_msgs]; [apply same_id_refl|].
  eapply same_id_trans; [|apply IH]. destruct (m_close m && msg_close_latches_gen); split; reflexivity.
Qed.

Lemma keyed_set_conn s c cn : keyed s -> c_key cn = key_of_req (c_rq cn) -> keyed (set_conn s c cn).
Proof.
  intros K H c'. cbn. destruct (upd_cases (s_conn s) c cn c') as [[-> E]|[_ E]]; rewrite E; [exact H|apply K].
Qed.

Lemma keyed_same s c cn : keyed s -> same_id (s_conn s c) cn -> keyed (set_conn s c cn).
Proof. intros K [H1 H2]. apply keyed_set_conn; [exact K|]. rewrite H1, H2. apply K. Qed.

Lemma keyed_release cf s c arg : keyed s -> keyed (release_conn cf s c arg).
Proof.
  intros K. unfold release_conn. destruct (c_phase (s_conn s c)); try exact K.
  destruct (release_closes_gen _ _ _).
  - apply keyed_same; [exact K|]. eapply same_id_trans; [apply mark_incomplete_id|apply close_proto_id].
  - intros c'. cbn. apply (keyed_same s c (set_c_phase (mark_incomplete (s_conn s c)) PIdle) K).
    eapply same_id_trans; [apply mark_incomplete_id|split; reflexivity].
Qed.

Lemma keyed_frame s s' : (forall c, s_conn s' c = s_conn s c) -> keyed s -> keyed s'.
Proof. intros H K c. rewrite H. apply K. Qed.

Lemma keyed_response_eof cf s e : keyed s -> keyed (response_eof cf s e).
Proof.
  intros K. unfold response_eof. destruct (response_eof_releases_gen _ _); [|exact K].
  destruct (x_held (s_x s e)); [apply keyed_release|]; (eapply keyed_frame; [|exact K]); reflexivity.
Qed.

Lemma keyed_pool_get cf key : forall pool s kept s1 got,
  keyed s -> pool_get cf s key pool kept = (s1, got) ->
  keyed s1 /\ (forall c, got = Some c -> c_key (s_conn s1 c) = key /\ c_rq (s_conn s1 c) = c_rq (s_conn s c)) /\
  s_nconn s1 = s_nconn s.
Proof.
  induction pool as [|c rest IH]; intros s kept s1 got K H; cbn [pool_get] in H.
  - inversion H; subst. split; [eapply keyed_frame; [|exact K]; reflexivity|]. split; [intros ? ?; discriminate|reflexivity].
  - destruct (list_eqb (c_key (s_conn s c)) key) eqn:Ek.
    + destruct (reusable cf s (s_conn s c)).
      * inversion H; subst. split; [eapply keyed_frame; [|exact K]; reflexivity|].
        split; [|reflexivity]. intros c' Hc. inversion Hc; subst. split; [|reflexivity].
        now apply list_eqb_eq in Ek.
      * specialize (IH (set_conn s c (close_proto (s_conn s c))) kept s1 got).
        destruct IH as (K1 & Hg & Hn); [apply keyed_same; [exact K|apply close_proto_id]|exact H|].
        split; [exact K1|]. split; [|exact Hn].
        intros c' Hc. destruct (Hg c' Hc) as [G1 G2]. split; [exact G1|]. rewrite G2. cbn.
        destruct (upd_cases (s_conn s) c (close_proto (s_conn s c)) c') as [[-> E]|[_ E]]; rewrite E; reflexivity.
    + eapply IH; eauto.
Qed.

Lemma keyed_init : keyed init.
Proof. intros c. reflexivity. Qed.

(* parse_tok / proc_tok only touch the connection through setters *)
Lemma keyed_parse_error s g s' g' : keyed s -> parse_error s g = (s', g') -> keyed s'.
Proof. intros K H. unfold parse_error in H. inversion H; subst. apply keyed_same; [exact K|split; reflexivity]. Qed.

Lemma keyed_surplus_tail s cn : keyed s -> keyed (surplus_tail s cn).
Proof. intros K. unfold surplus_tail. destruct (prog_done _); [|exact K]. eapply keyed_frame; [|exact K]; reflexivity. Qed.

Lemma keyed_set_payl s p pl : keyed s -> keyed (set_payl s p pl).
Proof. intros K. eapply keyed_frame; [|exact K]; reflexivity. Qed.

Lemma keyed_parse_tok cf s g tk tg s' g' : keyed s -> parse_tok cf s g tk tg = Some (s', g') -> keyed s'.
Proof.
  intros K H. unfold parse_tok in H.
  destruct (c_pst (s_conn s (g_c g))) as [|pid rem] eqn:Ep; destruct tk as [id blen cl up|id n|id|id]; try discriminate.
  - destruct (c_ptail _ || c_psc _); [eapply keyed_parse_error; [exact K|]; instantiate (1 := g'); instantiate (1 := g); congruence|].
    destruct up; [inv_some; apply keyed_same; [exact K|split; reflexivity]|].
    destruct (blen =? 0); inv_some.
    + apply keyed_same; [exact K|split; reflexivity].
    + apply keyed_set_conn; [|cbn; apply K].
      eapply keyed_frame; [|exact K]. reflexivity.
  - inv_some. apply keyed_surplus_tail. apply keyed_same; [exact K|split; reflexivity].
  - eapply keyed_parse_error; [exact K|]; instantiate (1 := g'); instantiate (1 := g); congruence.
  - inv_some. apply keyed_surplus_tail. apply keyed_same; [exact K|split; reflexivity].
  - destruct (n <? rem); inv_some.
    + apply keyed_set_conn; [apply keyed_set_payl; exact K|cbn; apply K].
    + assert (K2 : keyed (set_conn (set_payl s pid (set_p_cb (set_p_eof (set_p_items (s_pay s pid) (p_items (s_pay s pid) ++ [(id, tg)])) true) None))
                           (g_c g) (set_c_pst (s_conn s (g_c g)) PSHead))).
      { apply keyed_set_conn; [apply keyed_set_payl; exact K|cbn; apply K]. }
      match goal with |- keyed (if _ then surplus_tail (set_conn ?s3 _ _) _ else _) => assert (K3 : keyed s3) end.
      { cbn [p_cb set_p_items]. destruct (p_cb (s_pay s pid)); [apply keyed_response_eof|]; exact K2. }
      destruct (rem <? n); [|exact K3]. apply keyed_surplus_tail. apply keyed_same; [exact K3|split; reflexivity].
Qed.

Lemma keyed_proc_tok cf s g tk tg s' g' : keyed s -> proc_tok cf s g tk tg = Some (s', g') -> keyed s'.
Proof.
  intros K H. unfold proc_tok in H. destruct (g_err g); [inv_some; exact K|].
  destruct (g_stash g); [inv_some; apply keyed_same; [exact K|split; reflexivity]|].
  destruct (c_pupg _); [inv_some; exact K|]. eapply keyed_parse_tok; eauto.
Qed.

Lemma keyed_ghost_tok s c tk : keyed s -> keyed (ghost_tok s c tk).
Proof.
  intros K. unfold ghost_tok. destruct (c_phase (s_conn s c)).
  - destruct (ghost_prog _ _). apply keyed_same; [exact K|split; reflexivity].
  - eapply keyed_frame with (s := set_conn s c (set_c_dirty (s_conn s c) true)); [reflexivity|].
    apply keyed_same; [exact K|split; reflexivity].
  - eapply keyed_frame with (s := set_conn s c (set_c_dirty (s_conn s c) true)); [reflexivity|].
    apply keyed_same; [exact K|split; reflexivity].
Qed.

Lemma keyed_step cf s ev s' : keyed s -> step cf s ev = Some s' -> keyed s'.
Proof.
  intros K H. destruct ev; cbn [step] in H;
    try (destruct (no_seg s); [|discriminate]).
  - (* connect *)
    unfold do_connect in H. destruct (x_st (s_x s e)); try discriminate.
    destruct (pool_get cf s (key_of_req r) (s_pool s) []) as [s1 got] eqn:Eg.
    destruct (keyed_pool_get cf _ _ _ _ _ _ K Eg) as (K1 & _ & _).
    destruct got as [c|]; inv_some.
    + eapply keyed_frame with (s := set_conn s1 c (set_c_prog (set_c_phase (s_conn s1 c) (PFlight e)) GNone)); [reflexivity|].
      apply keyed_same; [exact K1|split; reflexivity].
    + eapply keyed_frame with (s := set_conn s1 (s_nconn s1) (new_conn r e)); [reflexivity|].
      apply keyed_set_conn; [exact K1|reflexivity].
  - (* params *)
    unfold do_params in H. destruct (x_st (s_x s e)); try discriminate.
    destruct (c_htail (s_conn s (x_conn (s_x s e)))); inv_some.
    + eapply keyed_frame with (s := set_conn s (x_conn (s_x s e)) _); [reflexivity|].
      apply keyed_same; [exact K|split; reflexivity].
    + eapply keyed_frame with (s := set_conn s (x_conn (s_x s e)) _); [reflexivity|].
      apply keyed_same; [exact K|split; reflexivity].
  - (* read *)
    unfold do_read in H. destruct (x_st (s_x s e)); try discriminate.
    destruct (c_buf (s_conn s (x_conn (s_x s e)))) as [|m rest] eqn:Eb.
    + destruct (c_exc _ =? 0); [discriminate|]. inv_some. apply keyed_release.
      eapply keyed_frame; [|exact K]; reflexivity.
    + set (s3 := set_exch _ e _) in H.
      assert (K3 : keyed s3).
      { eapply keyed_frame with (s := set_conn s (x_conn (s_x s e)) (set_c_buf (s_conn s (x_conn (s_x s e))) rest)); [reflexivity|].
        apply keyed_same; [exact K|split; reflexivity]. }
      destruct (m_pay m).
      * destruct (p_eof _); [inv_some; now apply keyed_response_eof|].
        destruct (p_exc _); inv_some; [exact K3|]. now apply keyed_set_payl.
      * inv_some. now apply keyed_response_eof.
  - (* body *)
    unfold do_body in H. destruct (x_st (s_x s e)); try discriminate.
    assert (Hfin : forall s0, keyed s0 ->
      keyed (let x' := s_x s0 e in
             let upgraded := x_held x' && c_upg (s_conn s0 (x_conn x')) in
             let s'' := set_exch s0 e (set_x_held (set_x_st x' XDone) (x_held x' && upgraded)) in
             if x_held x' && negb upgraded then release_conn cf s'' (x_conn x') false else s'')).
    { intros s0 K0. cbv zeta. destruct (x_held (s_x s0 e) && negb _); [apply keyed_release|];
        (eapply keyed_frame; [|exact K0]); reflexivity. }
    destruct (x_pay (s_x s e)).
    + destruct (p_exc _ || _).
      * inv_some. destruct (x_held _); [apply keyed_release|]; (eapply keyed_frame; [|exact K]); reflexivity.
      * destruct (p_eof _); [|discriminate]. inv_some.
        apply (Hfin (set_s_log s (s_log s ++ log_items e (p_items (s_pay s n))))).
        apply keyed_frame with (s := s); [reflexivity|exact K].
    + inv_some. exact (Hfin s K).
  - (* release *)
    unfold do_release in H.
    assert (Hgo : forall s0 x, keyed s0 ->
              keyed (let s1 := set_exch s0 e (set_x_held (set_x_closed (set_x_st x XDone) true) false) in
                     if x_held x then release_conn cf s1 (x_conn x) false else s1)).
    { intros s0 x K0. cbv zeta. destruct (x_held x); [apply keyed_release|]; (eapply keyed_frame; [|exact K0]); reflexivity. }
    destruct (x_st (s_x s e)); try discriminate; inv_some; apply Hgo;
      destruct (x_pay (s_x s e)); try exact K; now apply keyed_set_payl.
  - (* close *)
    unfold do_release in H.
    assert (Hgo : forall s0 x, keyed s0 ->
              keyed (let s1 := set_exch s0 e (set_x_held (set_x_closed (set_x_st x XDone) true) false) in
                     if x_held x then release_conn cf s1 (x_conn x) true else s1)).
    { intros s0 x K0. cbv zeta. destruct (x_held x); [apply keyed_release|]; (eapply keyed_frame; [|exact K0]); reflexivity. }
    destruct (x_st (s_x s e)); try discriminate; inv_some; apply Hgo;
      destruct (x_pay (s_x s e)); try exact K; now apply keyed_set_payl.
  - (* segbegin *)
    unfold do_segbegin in H. destruct ((c <? s_nconn s) && c_conn (s_conn s c)); inv_some.
    eapply keyed_frame; [|exact K]; reflexivity.
  - (* tok *)
    unfold do_tok in H. destruct (s_seg s) as [g|]; [|discriminate]. destruct (g_queue g); [|discriminate].
    destruct (proc_tok cf (ghost_tok s (g_c g) tk) g tk (g_tag g)) as [[s1 g1]|] eqn:Ep; [|discriminate]. inv_some.
    eapply keyed_frame with (s := s1); [reflexivity|]. eapply keyed_proc_tok; [|exact Ep]. now apply keyed_ghost_tok.
  - (* replay *)
    unfold do_replay in H. destruct (s_seg s) as [g|]; [|discriminate]. destruct (g_queue g) as [|[tk tg] q]; [discriminate|].
    destruct (proc_tok cf s (set_g_queue g q) tk tg) as [[s1 g1]|] eqn:Ep; [|discriminate]. inv_some.
    eapply keyed_frame with (s := s1); [reflexivity|]. eapply keyed_proc_tok; eauto.
  - (* segend *)
    unfold do_segend in H. destruct (s_seg s) as [g|]; [|discriminate]. destruct (g_queue g); [|discriminate]. inv_some.
    eapply keyed_frame with (s := set_conn s (g_c g) _); [reflexivity|].
    apply keyed_same; [exact K|]. destruct (g_err g || g_stash g); [apply same_id_refl|].
    eapply same_id_trans; [apply push_msgs_id|split; reflexivity].
  - (* peerclose *)
    unfold do_peerclose in H. destruct ((c <? s_nconn s) && c_conn (s_conn s c)); inv_some.
    match goal with |- keyed (set_conn ?t _ _) => set (s1 := t) end.
    assert (K1 : keyed s1 /\ s_conn s1 c = s_conn s c).
    { subst s1. destruct (c_parser _); [|split; [exact K|reflexivity]].
      destruct (c_pst _); [split; [exact K|reflexivity]|].
      destruct (c_pay _); [|split; [exact K|reflexivity]]. split; [now apply keyed_set_payl|reflexivity]. }
    destruct K1 as [K1 E1]. apply keyed_same; [exact K1|]. rewrite E1.
    destruct (c_exc (s_conn s c) =? 0); split; reflexivity.
Qed.

Lemma keyed_reach cf tr s : run cf init tr = Some s -> keyed s.
Proof. apply (run_invariant cf keyed (keyed_step cf) tr init s keyed_init). Qed.

(* C06_same_key: a connection taken from the pool was created for a request with the same seven key
   properties (host, port, scheme is TLS, ssl setting, proxy, proxy-headers hash, server_hostname). *)
Theorem same_key cf tr s e r s' :
  run cf init tr = Some s -> step cf s (EConnect e r) = Some s' ->
  x_conn (s_x s' e) < s_nconn s ->
  c_rq (s_conn s (x_conn (s_x s' e))) = r.
Proof.
  intros Hr H Hlt. pose proof (keyed_reach _ _ _ Hr) as K.
  cbn [step] in H. destruct (no_seg s); [|discriminate].
  unfold do_connect in H. destruct (x_st (s_x s e)); try discriminate.
  destruct (pool_get cf s (key_of_req r) (s_pool s) []) as [s1 got] eqn:Eg.
  destruct (keyed_pool_get cf _ _ _ _ _ _ K Eg) as (K1 & Hg & Hn).
  destruct got as [c|]; inv_some.
  - cbn in Hlt |- *. rewrite upd_same in Hlt |- *. cbn in Hlt |- *.
    destruct (Hg c eq_refl) as [G1 G2]. apply key_of_req_inj. rewrite <- G2, <- K1. exact G1.
  - cbn in Hlt. rewrite upd_same in Hlt. cbn in Hlt. rewrite Hn in Hlt. lia.
Qed.
