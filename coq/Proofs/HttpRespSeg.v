(* C03 for the response parser: HttpResp.rfeed (= HttpResponseParser.feed_data, lax mode) does not
   depend on how the byte stream is cut into reads.  Well-formedness invariant, fuel sufficiency, the two-read splitting
   theorem and its lifting to arbitrary segmentations.  Mirrors Proofs/HttpSeg.v. *)
From Coq Require Import ZifyBool ZifyN.
From AV Require Import Lib.Base Lib.BytesX Generated.HttpGen Generated.HttpRespGen Model.Http Model.HttpResp
  Proofs.HttpSegBase Proofs.HttpRespBase Proofs.HttpRespChunk.
Ltac Zify.zify_post_hook ::= Z.to_euclidean_division_equations.
Open Scope N_scope.

(* ------------------------------------------------------------------ one step of rfeed_loop *)
Definition rfcfg := (rst * racc)%type.
Definition rfres := (rst * racc * routcome)%type.

Definition rstep_f (cfg : rcfg) (se : rfcfg) (buf : bytes) : (rfcfg * bytes) + rfres :=
  let lim := c_lim cfg in
  let '(s, evs) := se in
  match buf with
  | [] => inr (s, evs, OOk [])
  | _ :: _ =>
    match rpayload s with
    | Some p =>
      match rfeed_payload lim p buf evs with
      | QNeed p' e1 =>
        inr (mkRS (rlines s) (rtail s) (Some p') (rupgraded s) (rpending_upgrade s) (rshould_close s) (rin_flight s),
             e1, OOk [])
      | QDone rest e1 =>
        let s' := mkRS (rlines s) (rtail s) None (rupgraded s || rpending_upgrade s) false
                       (rshould_close s) (rin_flight s) in
        inl ((s', e1), rest)
      | QFail e e1 =>
        if rpayload_error_is_fatal e then inr (s, rev_err e e1, OErr e)
        else
          inr (mkRS (rlines s) (rtail s) None (rupgraded s || rpending_upgrade s) false (rshould_close s) (rin_flight s),
               rev_err e e1, OOk [])
      end
    | None =>
      if rupgraded s then inr (s, evs, OOk buf)
      else if (0 <? max_queue lim) && (max_queue lim <=? rin_flight s) then
        inr (mkRS (rlines s) buf None (rupgraded s) (rpending_upgrade s) (rshould_close s) (rin_flight s), evs, OOk [])
      else
        match find_lf buf with
        | Some (raw, rest) =>
          match raw, rlines s with
          | [], [] => inl ((s, evs), rest)
          | _, _ =>
            if rshould_close s then inr (s, evs, OErr EBadMessage) else
            let line := rstrip_cr raw in
            let limit := match rlines s with [] => max_line lim | _ => max_field lim end in
            if limit <? len1 raw then inr (s, evs, OErr ELineTooLong) else
            let ls := rlines s ++ [line] in
            if max_headers lim <? lenN ls then inr (s, evs, OErr EBadMessage) else
            match line with
            | [] =>
              match rstart_message cfg s ls with
              | QErr e => inr (s, evs, OErr e)
              | QOk (s', e1) => inl ((s', e1 evs), rest)
              end
            | _ =>
              inl ((mkRS ls (rtail s) None (rupgraded s) (rpending_upgrade s) (rshould_close s) (rin_flight s), evs),
                   rest)
            end
          end
        | None =>
          let limit := match rlines s with [] => max_line lim | _ => max_field lim end in
          if limit <? len1 buf then inr (s, evs, OErr ELineTooLong)
          else inr (mkRS (rlines s) buf None (rupgraded s) (rpending_upgrade s) (rshould_close s) (rin_flight s),
                    evs, OOk [])
        end
    end
  end.

Lemma rfeed_loop_S f cfg s buf evs :
  rfeed_loop (S f) cfg s buf evs =
  match rstep_f cfg (s, evs) buf with
  | inl ((s', evs'), rest) => rfeed_loop f cfg s' rest evs'
  | inr r => r
  end.
Proof.
  destruct buf as [|a r]; [reflexivity|].
  cbn [rfeed_loop rstep_f]. repeat dm_goal; reflexivity.
Qed.

Definition rfdflt (se : rfcfg) : rfres := (fst se, snd se, OErr EBadMessage).
Definition rmu_f (se : rfcfg) : nat := match rpayload (fst se) with Some _ => 1%nat | None => 0%nat end.
Definition rpwf (s : rst) : Prop := match rpayload s with Some p => rwfp p | None => True end.
Definition rinv_f (se : rfcfg) : Prop := rtail (fst se) = [] /\ rpwf (fst se).

Definition rfloop cfg := loop (rstep_f cfg) rfdflt.

Lemma rfeed_loop_loop : forall f cfg s buf evs,
  rfeed_loop f cfg s buf evs = rfloop cfg f (s, evs) buf.
Proof.
  induction f as [|f IH]; intros; [reflexivity|].
  rewrite rfeed_loop_S. unfold rfloop. cbn [loop].
  destruct (rstep_f cfg (s, evs) buf) as [[[s' evs'] rest]|r]; [|reflexivity].
  apply IH.
Qed.

(* ------------------------------------------------------------------ rstart_message *)
Lemma rstart_message_inv cfg s ls s' e1 : rstart_message cfg s ls = QOk (s', e1) ->
  rtail s' = [] /\ rlines s' = [] /\ rpwf s'.
Proof.
  unfold rstart_message. intro H. cbv zeta in H.
  destruct (parse_response (max_field (c_lim cfg)) (removelast ls)) as [m|e]; [|discriminate].
  destruct (get_header h_content_length (rm_headers m)) as [v|].
  - destruct (nonempty v && forallb dec_digit v && (lenN v <=? int_max_str_digits)); [|discriminate].
    destruct (has_header h_sec_websocket_key1 (rm_headers m)); [discriminate|].
    destruct (negb (empty_body_status (rm_code m)) && ((0 <? parse_dec v) || rm_chunked m)) eqn:Eb.
    + destruct (c_with_body cfg).
      * inversion H; subst. unfold rpwf, rwfp. cbn. repeat split.
        destruct (rm_chunked m) eqn:Ec; cbn; [reflexivity|].
        rewrite orb_false_r in Eb. apply andb_true_iff in Eb as [_ Eb]. repeat split. lia.
      * inversion H; subst. unfold rpwf. cbn. repeat split.
    + cbn [andb] in H. rewrite andb_false_r in H. cbn [andb] in H.
      repeat (dmH H; try discriminate); inversion H; subst; unfold rpwf, rwfp; cbn; repeat split.
  - destruct (has_header h_sec_websocket_key1 (rm_headers m)); [discriminate|].
    destruct (negb (empty_body_status (rm_code m)) && (false || rm_chunked m)) eqn:Eb.
    + destruct (c_with_body cfg).
      * inversion H; subst. unfold rpwf, rwfp. cbn. repeat split.
        destruct (rm_chunked m) eqn:Ec; cbn; [reflexivity|].
        rewrite andb_false_r in Eb. discriminate.
      * inversion H; subst. unfold rpwf. cbn. repeat split.
    + repeat (dmH H; try discriminate); inversion H; subst; unfold rpwf, rwfp; cbn; repeat split.
Qed.

(* ------------------------------------------------------------------ loop hypotheses *)
Ltac rdec_fin :=
  cbn [fst rtail rpayload rlines];
  try match goal with E0 : rstart_message _ _ _ = QOk (?s0, _) |- _ =>
        apply rstart_message_inv in E0 as (?A & ?B & ?C); unfold rpwf in *; destruct (rpayload s0) end;
  repeat split; try assumption; try exact I; cbn [length] in *; try lia.

Lemma rstep_f_dec cfg : forall se b se' b', rinv_f se -> rstep_f cfg se b = inl (se', b') ->
  rinv_f se' /\ (meas rmu_f se' b' < meas rmu_f se b)%nat.
Proof.
  intros [s evs] b se' b' [Ht Hp] H. destruct b as [|a r]; [discriminate|].
  unfold meas, rmu_f, rinv_f, rpwf in *. cbn [fst snd] in *. cbn [rstep_f] in H.
  destruct (rpayload s) as [p|] eqn:Ep.
  - destruct (rfeed_payload (c_lim cfg) p (a :: r) evs) as [p' e1|rest e1|e e1] eqn:E; [discriminate| |dmH H; discriminate].
    inj_inl H. cbn [fst rtail rpayload]. apply (rfeed_payload_done _ _ _ _ _ _ Hp) in E as [HL _].
    repeat split; [assumption|lia].
  - destruct (rupgraded s); [discriminate|].
    destruct ((0 <? max_queue (c_lim cfg)) && (max_queue (c_lim cfg) <=? rin_flight s)); [discriminate|].
    destruct (find_lf (a :: r)) as [[raw rest]|] eqn:E; [|repeat (dmH H; try discriminate)].
    apply find_lf_len in E.
    destruct raw as [|l0 raw].
    + destruct (rlines s) as [|l1 ls] eqn:El.
      * inj_inl H. cbn [fst]. rewrite Ep. repeat split; [assumption|lia].
      * repeat (dmH H; try discriminate); inj_inl H; rdec_fin.
    + repeat (dmH H; try discriminate); inj_inl H; rdec_fin.
Qed.

Lemma rstep_f_stable cfg : forall se x se' x' y, rinv_f se -> rstep_f cfg se x = inl (se', x') ->
  rstep_f cfg se (x ++ y) = inl (se', x' ++ y).
Proof.
  intros [s evs] x se' x' y [Ht Hp] H. destruct x as [|a r]; [discriminate|].
  unfold rpwf in Hp. cbn [fst] in *. cbn [rstep_f app] in *.
  destruct (rpayload s) as [p|] eqn:Ep.
  - destruct (rfeed_payload (c_lim cfg) p (a :: r) evs) as [p' e1|rest e1|e e1] eqn:E; [discriminate| |dmH H; discriminate].
    apply (rfeed_payload_done _ _ _ _ _ _ Hp) in E as [_ E]. specialize (E y). cbn [app] in E.
    rewrite E. inj_inl H. reflexivity.
  - destruct (rupgraded s); [discriminate|].
    destruct ((0 <? max_queue (c_lim cfg)) && (max_queue (c_lim cfg) <=? rin_flight s)); [discriminate|].
    destruct (find_lf (a :: r)) as [[raw rest]|] eqn:E; [|repeat (dmH H; try discriminate)].
    apply (find_lf_app _ y) in E. cbn [app] in E. rewrite E.
    repeat (dmH H; try discriminate); inj_inl H; reflexivity.
Qed.

Lemma rfloop_fuel cfg f f' se b : rinv_f se -> (meas rmu_f se b < f)%nat -> (meas rmu_f se b < f')%nat ->
  rfloop cfg f se b = rfloop cfg f' se b.
Proof. apply loop_fuel with (inv := rinv_f). apply rstep_f_dec. Qed.

(* ------------------------------------------------------------------ statements' vocabulary *)
(* well-formed parser states (between two feed_data calls) *)
Definition rwf (s : rst) : Prop :=
  (rtail s <> [] -> rpayload s = None /\ rupgraded s = false) /\ rpwf s.

(* the buffered partial chunk-size / trailer line passes the length re-check made by the next call *)
Definition rtail_ok (lim : limits) (s : rst) : bool :=
  match rpayload s with Some p => negb (rtoo_long lim p) | None => true end.

(* ... or it does not pass, but the line it belongs to is completed by the bytes y that follow: the
   re-check is monotone (a complete line is measured like a partial one), so the one-read run raises
   the same LineTooLong.  What remains excluded is only the early rejection of a line that is too
   long and still incomplete after y. *)
Definition rrecheck_ok (lim : limits) (s : rst) (y : bytes) : bool := rtail_ok lim s || has_byte 10 y.

Definition rprepend (lo : bytes) (r : routcome) : routcome :=
  match r with OOk l => OOk (lo ++ l) | _ => r end.

(* what is observable of a result: after an exception the parser object is discarded *)
Definition robs (x : rfres) : option rst * racc * routcome :=
  let '(s, a, r) := x in (match r with OOk _ => Some s | _ => None end, a, r).

Definition rclr (s : rst) : rst :=
  mkRS (rlines s) [] (rpayload s) (rupgraded s) (rpending_upgrade s) (rshould_close s) (rin_flight s).

Lemma rclr_id s : rtail s = [] -> rclr s = s.
Proof. destruct s; cbn. intros ->. reflexivity. Qed.

Lemma rfeed_floop cfg s d a :
  rfeed cfg s d a = rfloop cfg (2 * length (rtail s ++ d) + 2) (rclr s, a) (rtail s ++ d).
Proof. unfold rfeed. rewrite rfeed_loop_loop. reflexivity. Qed.

Lemma rwf_init : rwf rinit.
Proof. split; [intro H; now elim H|exact I]. Qed.

Lemma rinv_f_clr s a : rwf s -> rinv_f (rclr s, a).
Proof. intros [_ H]. split; [reflexivity|exact H]. Qed.

Lemma rmeas_f_fuel se (x : bytes) : (meas rmu_f se x < 2 * length x + 2)%nat.
Proof. unfold meas, rmu_f. destruct (rpayload (fst se)); lia. Qed.

Lemma rfatal_all e : rpayload_error_is_fatal e = true.
Proof. destruct e; reflexivity. Qed.

Lemma rprepend_nil r : rprepend [] r = r.
Proof. destruct r; reflexivity. Qed.

Lemma robs_prepend_nil (x : rfres) : robs (let '(s2, a2, r) := x in (s2, a2, rprepend [] r)) = robs x.
Proof. destruct x as [[s2 a2] r]. rewrite rprepend_nil. reflexivity. Qed.

(* ------------------------------------------------------------------ a stop with a normal return *)
Lemma rfstop_ok cfg s evs x s1 acc1 lo1 :
  rinv_f (s, evs) ->
  rstep_f cfg (s, evs) x = inr (s1, acc1, OOk lo1) ->
  rwf s1 /\
  (forall y, rrecheck_ok (c_lim cfg) s1 y = true ->
   forall f, (meas rmu_f (s, evs) (x ++ y) < f)%nat ->
     robs (rfloop cfg f (s, evs) (x ++ y)) =
     robs (let '(s2, a2, r) := rfeed cfg s1 y acc1 in (s2, a2, rprepend lo1 r))).
Proof.
  intros [Ht Hp] H. cbn [fst] in Ht, Hp.
  destruct x as [|a r].
  { (* buffer exhausted *)
    cbn [rstep_f] in H. inversion H; subst. clear H. split.
    - split; [intro Hn; now elim Hn|assumption].
    - intros y _ f Hf. rewrite robs_prepend_nil. rewrite rfeed_floop, Ht, (rclr_id _ Ht). cbn [app].
      f_equal. apply rfloop_fuel; [split; assumption|assumption|apply rmeas_f_fuel]. }
  cbn [rstep_f] in H. unfold rpwf in Hp.
  destruct (rpayload s) as [p|] eqn:Ep.
  - (* inside a payload *)
    destruct (rfeed_payload (c_lim cfg) p (a :: r) evs) as [p' e1|rest e1|e e1] eqn:E; [|discriminate|].
    2:{ rewrite rfatal_all in H. discriminate. }
    inversion H; subst. clear H.
    destruct (rfeed_payload_need _ _ _ _ _ _ Hp E) as (Hwp' & Hmt & Hres).
    split.
    + split; [intro Hn; now elim Hn|]. unfold rpwf. cbn [rpayload]. assumption.
    + unfold rrecheck_ok, rtail_ok. cbn [rpayload]. intros y Hok f Hf.
      assert (Hok' : rtoo_long (c_lim cfg) p' = false \/ has_byte 10 y = true)
        by (apply orb_true_iff in Hok as [A|A]; [left; now apply negb_true_iff|right; exact A]).
      rewrite robs_prepend_nil. rewrite rfeed_floop. unfold rclr. cbn [rtail rlines rpayload rupgraded rpending_upgrade rshould_close rin_flight].
      rewrite Ht. cbn [app].
      destruct y as [|b y].
      * rewrite app_nil_r. destruct f as [|f]; [lia|]. unfold rfloop. cbn [loop length Nat.mul Nat.add rstep_f].
        rewrite Ep, E. destruct s; cbn in *; subst; reflexivity.
      * destruct f as [|f]; [lia|].
        replace (2 * length (b :: y) + 2)%nat with (S (2 * length (b :: y) + 1)) by lia.
        unfold rfloop. cbn [loop]. cbn [rstep_f app rpayload]. rewrite Ep.
        specialize (Hres (b :: y) Hok'). cbn [app] in Hres. rewrite Hres.
        destruct (rfeed_payload (c_lim cfg) p' (b :: y) acc1) as [p'' e2|rest e2|e e2] eqn:E2.
        -- destruct s; cbn in *; subst; reflexivity.
        -- cbn [rlines rtail rupgraded rpending_upgrade rshould_close rin_flight]. rewrite Ht.
           apply (rfeed_payload_done _ _ _ _ _ _ Hwp') in E2 as [HL _].
           f_equal. apply rfloop_fuel.
           ++ split; [reflexivity|exact I].
           ++ unfold meas, rmu_f in *. cbn [fst rpayload length] in *. rewrite app_length in Hf. cbn [length] in *. lia.
           ++ unfold meas, rmu_f in *. cbn [fst rpayload length] in *. lia.
        -- rewrite rfatal_all. reflexivity.
  - destruct (rupgraded s) eqn:Eu.
    { (* upgraded connection: everything is handed back *)
      inversion H; subst. clear H. split.
      - split; [intro Hn; now elim Hn|]. unfold rpwf. rewrite Ep. exact I.
      - intros y _ f Hf. rewrite rfeed_floop, Ht, (rclr_id _ Ht). cbn [app].
        destruct f as [|f]; [lia|]. unfold rfloop. cbn [loop]. cbn [rstep_f app]. rewrite Ep, Eu.
        destruct y as [|b y]; cbn [loop length Nat.mul Nat.add rstep_f]; [reflexivity|].
        replace (length y + S (length y + 0) + 2)%nat with (S (length y + S (length y + 0) + 1)) by lia.
        cbn [loop rstep_f]. rewrite Ep, Eu. reflexivity. }
    destruct ((0 <? max_queue (c_lim cfg)) && (max_queue (c_lim cfg) <=? rin_flight s)) eqn:Eq.
    { (* message queue full: the whole buffer is kept *)
      inversion H; subst. clear H. split.
      - split; [intros _; split; reflexivity|exact I].
      - intros y _ f Hf. rewrite robs_prepend_nil. rewrite rfeed_floop. unfold rclr.
        cbn [rtail rlines rpayload rupgraded rpending_upgrade rshould_close rin_flight].
        destruct f as [|f]; [lia|].
        replace (2 * length ((a :: r) ++ y) + 2)%nat with (S (2 * length ((a :: r) ++ y) + 1)) by lia.
        unfold rfloop. cbn [loop]. cbn [rstep_f app rpayload rupgraded rin_flight]. rewrite Ep, Eu, Eq.
        cbn [rlines rpending_upgrade rshould_close rupgraded rin_flight]. reflexivity. }
    destruct (find_lf (a :: r)) as [[raw rest]|] eqn:Ef.
    { exfalso. repeat (dmH H; try discriminate). }
    (* partial line kept *)
    dmH H; [discriminate|]. inversion H; subst. clear H. split.
    + split; [intros _; split; reflexivity|exact I].
    + intros y _ f Hf. rewrite robs_prepend_nil. rewrite rfeed_floop. unfold rclr.
      cbn [rtail rlines rpayload rupgraded rpending_upgrade rshould_close rin_flight].
      assert (Hs : mkRS (rlines s) [] None false (rpending_upgrade s) (rshould_close s) (rin_flight s) = s)
        by (destruct s; cbn in *; subst; reflexivity).
      rewrite Hs. f_equal. apply rfloop_fuel; [split; cbn [fst]; [assumption|unfold rpwf; rewrite Ep; exact I]|assumption|apply rmeas_f_fuel].
Qed.

(* ------------------------------------------------------------------ item 1: invariant *)
Lemma rfeed_stop cfg s d a : rwf s ->
  exists sk ek xk,
    stopcfg (rstep_f cfg) (2 * length (rtail s ++ d) + 2) (rclr s, a) (rtail s ++ d) = (sk, ek, xk) /\
    rinv_f (sk, ek) /\ rstep_f cfg (sk, ek) xk = inr (rfeed cfg s d a).
Proof.
  intro Hw. rewrite rfeed_floop.
  destruct (stopcfg (rstep_f cfg) (2 * length (rtail s ++ d) + 2) (rclr s, a) (rtail s ++ d)) as [[sk ek] xk] eqn:E.
  destruct (stopcfg_stop _ _ (rstep_f cfg) rfdflt rmu_f rinv_f (rstep_f_dec cfg) _ _ _
              (rinv_f_clr s a Hw) (rmeas_f_fuel _ _) _ _ E) as (A & B & r & C & D).
  exists sk, ek, xk. unfold rfloop. rewrite D. auto.
Qed.

Theorem rfeed_wf cfg s d a s1 a1 lo1 : rwf s -> rfeed cfg s d a = (s1, a1, OOk lo1) -> rwf s1.
Proof.
  intros Hw H. destruct (rfeed_stop cfg s d a Hw) as (sk & ek & xk & E & Hi & Hs).
  rewrite H in Hs. exact (proj1 (rfstop_ok _ _ _ _ _ _ _ Hi Hs)).
Qed.

(* ------------------------------------------------------------------ item 2: fuel *)
Theorem rfeed_loop_fuel cfg s buf evs f f' : rtail s = [] -> rpwf s ->
  (2 * length buf + 2 <= f)%nat -> (2 * length buf + 2 <= f')%nat ->
  rfeed_loop f cfg s buf evs = rfeed_loop f' cfg s buf evs.
Proof.
  intros Ht Hp H1 H2. rewrite !rfeed_loop_loop.
  pose proof (rmeas_f_fuel (s, evs) buf).
  apply rfloop_fuel; [split; assumption|lia|lia].
Qed.

Theorem rchunked_loop_fuel lim mt c tl chunk evs f f' :
  match c with RData rem => 0 < rem | _ => True end ->
  (2 * length chunk + 2 <= f)%nat -> (2 * length chunk + 2 <= f')%nat ->
  rchunked_loop f lim mt c tl chunk evs = rchunked_loop f' lim mt c tl chunk evs.
Proof.
  intros Hc H1 H2. rewrite !rchunked_loop_loop.
  pose proof (rmeas_c_fuel c tl evs chunk).
  apply rcloop_fuel; [exact Hc|lia|lia].
Qed.

Theorem rfeed_loop_never_out_of_fuel cfg s buf evs f (d' : rfcfg -> rfres) : rtail s = [] -> rpwf s ->
  (2 * length buf + 2 <= f)%nat ->
  rfeed_loop f cfg s buf evs = loop (rstep_f cfg) d' f (s, evs) buf.
Proof.
  intros Ht Hp Hf. rewrite rfeed_loop_loop. unfold rfloop.
  pose proof (rmeas_f_fuel (s, evs) buf).
  apply (loop_dflt_irrel _ _ _ rmu_f rinv_f (rstep_f_dec cfg)); [split; assumption|lia].
Qed.

Theorem rchunked_loop_never_out_of_fuel lim mt c tl chunk evs f (d' : rcst -> rpres) :
  match c with RData rem => 0 < rem | _ => True end ->
  (2 * length chunk + 2 <= f)%nat ->
  rchunked_loop f lim mt c tl chunk evs = loop (rstep_c lim mt) d' f (c, tl, evs) chunk.
Proof.
  intros Hc Hf. rewrite rchunked_loop_loop. unfold rcloop.
  pose proof (rmeas_c_fuel c tl evs chunk).
  apply (loop_dflt_irrel _ _ _ rmu_c rcwf (rstep_c_dec lim mt)); [exact Hc|lia].
Qed.

Theorem rfeed_fuel cfg s d a f : rwf s -> (2 * length (rtail s ++ d) + 2 <= f)%nat ->
  rfeed_loop f cfg (rclr s) (rtail s ++ d) a = rfeed cfg s d a.
Proof.
  intros [_ Hp] Hf. unfold rfeed. apply rfeed_loop_fuel; [reflexivity|exact Hp|lia|lia].
Qed.

(* ------------------------------------------------------------------ item 3: two reads *)
Theorem rfeed_split cfg s a b acc s1 acc1 lo1 :
  rwf s ->
  rfeed cfg s a acc = (s1, acc1, OOk lo1) ->
  rrecheck_ok (c_lim cfg) s1 b = true ->
  robs (rfeed cfg s (a ++ b) acc) =
  robs (let '(s2, acc2, r) := rfeed cfg s1 b acc1 in (s2, acc2, rprepend lo1 r)).
Proof.
  intros Hw H Hok. destruct (rfeed_stop cfg s a acc Hw) as (sk & ek & xk & E & Hi & Hs).
  rewrite H in Hs. destruct (rfstop_ok _ _ _ _ _ _ _ Hi Hs) as [_ Hres].
  rewrite (rfeed_floop cfg s (a ++ b)). rewrite app_assoc. unfold rfloop.
  rewrite (loop_app _ _ (rstep_f cfg) rfdflt rmu_f rinv_f (rstep_f_dec cfg) (rstep_f_stable cfg)
             _ _ _ b _ (S (meas rmu_f (sk, ek) (xk ++ b))) (rinv_f_clr s acc Hw) (rmeas_f_fuel _ _)
             (rmeas_f_fuel _ _) _ _ E ltac:(lia)).
  apply (Hres b Hok (S (meas rmu_f (sk, ek) (xk ++ b)))). lia.
Qed.

Theorem rfeed_split_accept cfg s a b acc s1 acc1 lo1 s2 acc2 lo2 :
  rwf s ->
  rfeed cfg s a acc = (s1, acc1, OOk lo1) ->
  rfeed cfg s1 b acc1 = (s2, acc2, OOk lo2) ->
  rfeed cfg s (a ++ b) acc = (s2, acc2, OOk (lo1 ++ lo2)).
Proof.
  intros Hw H1 H2. destruct (rtail_ok (c_lim cfg) s1) eqn:Hok.
  - assert (Hok2 : rrecheck_ok (c_lim cfg) s1 b = true) by (unfold rrecheck_ok; rewrite Hok; reflexivity).
    pose proof (rfeed_split cfg s a b acc s1 acc1 lo1 Hw H1 Hok2) as H. rewrite H2 in H.
    destruct (rfeed cfg s (a ++ b) acc) as [[s' a'] r']. cbn in H.
    destruct r'; inversion H; subst; reflexivity.
  - pose proof (rfeed_wf _ _ _ _ _ _ _ Hw H1) as [Hw1 _].
    unfold rtail_ok in Hok. destruct (rpayload s1) as [p'|] eqn:Ep; [|discriminate].
    apply negb_false_iff in Hok.
    assert (Ht : rtail s1 = []).
    { destruct (rtail s1) as [|c t]; [reflexivity|]. destruct (Hw1 ltac:(discriminate)) as [A _]. discriminate. }
    rewrite rfeed_floop, Ht in H2. cbn [app] in H2.
    destruct b as [|c b].
    + cbn in H2. inversion H2; subst. rewrite !app_nil_r. rewrite H1. rewrite (rclr_id _ Ht). reflexivity.
    + exfalso. replace (2 * length (c :: b) + 2)%nat with (S (2 * length (c :: b) + 1)) in H2 by lia.
      unfold rfloop in H2. cbn [loop] in H2. unfold rclr in H2. cbn [rstep_f rpayload] in H2. rewrite Ep in H2.
      rewrite (rfeed_payload_too_long _ _ _ _ Hok), rfatal_all in H2. discriminate.
Qed.

(* ------------------------------------------------------------------ item 4: any segmentation *)
Lemma rrun_segs_cons cfg s d segs a lo :
  rrun_segs cfg s (d :: segs) a lo =
  match rfeed cfg s d a with
  | (s', a', OOk l) => rrun_segs cfg s' segs a' (lo ++ l)
  | (s', a', r) => (s', a', r)
  end.
Proof. reflexivity. Qed.

Lemma rrun_segs_accept_cons : forall segs cfg s d acc lo s' acc' lo',
  rwf s ->
  rrun_segs cfg s (d :: segs) acc lo = (s', acc', OOk lo') ->
  rwf s' /\ rrun_segs cfg s [d ++ concat segs] acc lo = (s', acc', OOk lo').
Proof.
  induction segs as [|e segs IH]; intros cfg s d acc lo s' acc' lo' Hw H.
  - cbn [concat]. rewrite app_nil_r. split; [|exact H].
    rewrite rrun_segs_cons in H. destruct (rfeed cfg s d acc) as [[s1 a1] r1] eqn:E1.
    destruct r1; try discriminate. cbn [rrun_segs] in H. inversion H; subst.
    eapply rfeed_wf; eassumption.
  - rewrite rrun_segs_cons in H.
    destruct (rfeed cfg s d acc) as [[s1 a1] r1] eqn:E1.
    destruct r1 as [l1|]; try discriminate.
    pose proof (rfeed_wf _ _ _ _ _ _ _ Hw E1) as Hw1.
    destruct (IH cfg s1 e a1 (lo ++ l1) s' acc' lo' Hw1 H) as [Hw' H'].
    split; [assumption|].
    rewrite rrun_segs_cons in H'. destruct (rfeed cfg s1 (e ++ concat segs) a1) as [[s2 a2] r2] eqn:E2.
    destruct r2 as [l2|]; try discriminate. cbn [rrun_segs] in H'. inversion H'; subst.
    cbn [concat]. rewrite rrun_segs_cons.
    rewrite (rfeed_split_accept _ _ _ _ _ _ _ _ _ _ _ Hw E1 E2). cbn [rrun_segs].
    rewrite app_assoc. reflexivity.
Qed.

Theorem rseg_accept cfg segs s acc lo s' acc' lo' :
  rwf s -> segs <> [] ->
  rrun_segs cfg s segs acc lo = (s', acc', OOk lo') ->
  rrun_segs cfg s [concat segs] acc lo = (s', acc', OOk lo').
Proof.
  intros Hw Hn H. destruct segs as [|d segs]; [congruence|].
  cbn [concat]. exact (proj2 (rrun_segs_accept_cons _ _ _ _ _ _ _ _ _ Hw H)).
Qed.

Lemma rrun_segs_wf_cons : forall segs cfg s d acc lo s' acc' lo',
  rwf s -> rrun_segs cfg s (d :: segs) acc lo = (s', acc', OOk lo') -> rwf s'.
Proof.
  induction segs as [|e segs IH]; intros cfg s d acc lo s' acc' lo' Hw H;
    rewrite rrun_segs_cons in H; destruct (rfeed cfg s d acc) as [[s1 a1] r1] eqn:E1;
    destruct r1 as [l1|]; try discriminate; pose proof (rfeed_wf _ _ _ _ _ _ _ Hw E1) as Hw1.
  - cbn [rrun_segs] in H. inversion H; subst. assumption.
  - eapply IH; eassumption.
Qed.

Theorem rrun_segs_wf cfg segs s acc lo s' acc' lo' :
  rwf s -> rrun_segs cfg s segs acc lo = (s', acc', OOk lo') -> rwf s'.
Proof.
  intros Hw H. destruct segs as [|d segs].
  - cbn in H. inversion H; subst. assumption.
  - eapply rrun_segs_wf_cons; eassumption.
Qed.

(* two accepted segmentations of the same stream are indistinguishable *)
Theorem rseg_indep_accept cfg segs1 segs2 s acc lo s1 acc1 lo1 s2 acc2 lo2 :
  rwf s -> segs1 <> [] -> segs2 <> [] -> concat segs1 = concat segs2 ->
  rrun_segs cfg s segs1 acc lo = (s1, acc1, OOk lo1) ->
  rrun_segs cfg s segs2 acc lo = (s2, acc2, OOk lo2) ->
  (s1, acc1, lo1) = (s2, acc2, lo2).
Proof.
  intros Hw N1 N2 Hc H1 H2.
  apply (rseg_accept _ _ _ _ _ _ _ _ Hw N1) in H1.
  apply (rseg_accept _ _ _ _ _ _ _ _ Hw N2) in H2.
  rewrite Hc in H1. rewrite H1 in H2. inversion H2; subst. reflexivity.
Qed.

(* one-read rejection implies rejection of every segmentation *)
Theorem rseg_oneshot_reject cfg segs s acc lo s1 acc1 e :
  rwf s -> segs <> [] ->
  rrun_segs cfg s [concat segs] acc lo = (s1, acc1, OErr e) ->
  forall s2 acc2 r2, rrun_segs cfg s segs acc lo = (s2, acc2, r2) -> forall l, r2 <> OOk l.
Proof.
  intros Hw Hn H1 s2 acc2 r2 H2 l ->.
  rewrite (rseg_accept _ _ _ _ _ _ _ _ Hw Hn H2) in H1. discriminate.
Qed.

(* the invariant in plain words *)
Lemma rwf_spelled s : rwf s ->
  (rpayload s <> None \/ rupgraded s = true -> rtail s = []) /\
  forall p, rpayload s = Some p ->
    match rpk p with
    | RLength rem => 0 < rem /\ rctail p = [] /\ rtlines p = []
    | RUntilEof => rctail p = [] /\ rtlines p = []
    | RChunked (RData rem) => 0 < rem /\ rctail p = []
    | RChunked RDataEnd => rctail p = [] \/ rctail p = [13]
    | RChunked _ => has_byte 10 (rctail p) = false
    end.
Proof.
  intros [H1 H2]. split.
  - intro A. destruct (rtail s) as [|c t]; [reflexivity|].
    destruct (H1 ltac:(discriminate)) as [B C]. destruct A as [A|A]; congruence.
  - intros p Ep. unfold rpwf in H2. rewrite Ep in H2. unfold rwfp, rwfc in H2.
    destruct (rpk p) as [rem|c|]; [assumption| |assumption].
    destruct c; try assumption; now apply find_lf_none_has.
Qed.

(* ------------------------------------------------------------------ rejected runs *)
(* the reads a segmented run consumes: up to and including the first one that does not return *)
Fixpoint rconsumed (cfg : rcfg) (s : rst) (segs : list bytes) (a : racc) : list bytes :=
  match segs with
  | [] => []
  | d :: segs' =>
    match rfeed cfg s d a with
    | (s', a', OOk _) => d :: rconsumed cfg s' segs' a'
    | _ => [d]
    end
  end.

(* at every read boundary followed by a read: the buffered chunk line passes the length re-check or is
   completed by the bytes consumed after it *)
Fixpoint rboundaries_ok (cfg : rcfg) (s : rst) (segs : list bytes) (a : racc) : bool :=
  match segs with
  | [] => true
  | d :: segs' =>
    match rfeed cfg s d a with
    | (s', a', OOk _) =>
      match segs' with
      | [] => true
      | _ => rrecheck_ok (c_lim cfg) s' (concat (rconsumed cfg s' segs' a'))
             && rboundaries_ok cfg s' segs' a'
      end
    | _ => true
    end
  end.

Definition rlift (lo : bytes) (x : rfres) : rfres := let '(s, a, r) := x in (s, a, rprepend lo r).

Lemma rrun_segs_single cfg s d a lo : rrun_segs cfg s [d] a lo = rlift lo (rfeed cfg s d a).
Proof. cbn [rrun_segs]. destruct (rfeed cfg s d a) as [[s' a'] r]. destruct r; reflexivity. Qed.

Lemma robs_lift lo x y : robs x = robs y -> robs (rlift lo x) = robs (rlift lo y).
Proof.
  destruct x as [[s1 a1] r1], y as [[s2 a2] r2]. cbn.
  destruct r1, r2; intro H; inversion H; subst; reflexivity.
Qed.

Lemma rlift_lift lo l1 x : rlift lo (rlift l1 x) = rlift (lo ++ l1) x.
Proof. destruct x as [[s a] r]. destruct r; cbn; try reflexivity. now rewrite app_assoc. Qed.

Lemma rconsumed_cons cfg s d segs a :
  rconsumed cfg s (d :: segs) a =
  match rfeed cfg s d a with
  | (s', a', OOk _) => d :: rconsumed cfg s' segs a'
  | _ => [d]
  end.
Proof. reflexivity. Qed.

Lemma rrun_segs_consumed_cons : forall segs cfg s d acc lo,
  rwf s -> rboundaries_ok cfg s (d :: segs) acc = true ->
  robs (rrun_segs cfg s (d :: segs) acc lo) =
  robs (rrun_segs cfg s [concat (rconsumed cfg s (d :: segs) acc)] acc lo).
Proof.
  induction segs as [|e segs IH]; intros cfg s d acc lo Hw Hb.
  - cbn [rconsumed]. destruct (rfeed cfg s d acc) as [[s1 a1] r1] eqn:E1.
    destruct r1; cbn [concat]; rewrite app_nil_r; reflexivity.
  - rewrite rconsumed_cons. cbn [rboundaries_ok] in Hb. rewrite rrun_segs_cons.
    destruct (rfeed cfg s d acc) as [[s1 a1] r1] eqn:E1.
    destruct r1 as [l1|]; try (cbn [concat]; rewrite app_nil_r, rrun_segs_single, E1; reflexivity).
    apply andb_true_iff in Hb as [Hok Hb2].
    pose proof (rfeed_wf _ _ _ _ _ _ _ Hw E1) as Hw1.
    rewrite (IH cfg s1 e a1 (lo ++ l1) Hw1 Hb2).
    rewrite concat_cons, !rrun_segs_single.
    rewrite <- rlift_lift. apply robs_lift. symmetry.
    exact (rfeed_split cfg s d _ acc s1 a1 l1 Hw E1 Hok).
Qed.

(* the segmented run - normal or rejected - is observably (same exception class, same messages with
   the same body bytes and marks) the one-read run of the bytes it consumed *)
Theorem rseg_consumed_obs cfg segs s acc lo :
  rwf s -> segs <> [] -> rboundaries_ok cfg s segs acc = true ->
  robs (rrun_segs cfg s segs acc lo) =
  robs (rrun_segs cfg s [concat (rconsumed cfg s segs acc)] acc lo).
Proof.
  intros Hw Hn Hb. destruct segs as [|d segs]; [congruence|]. now apply rrun_segs_consumed_cons.
Qed.
