(* C03: HttpRequestParser.feed_data (Model/Http.v) does not depend on how the byte stream is cut
   into reads.  Well-formedness invariant, fuel sufficiency, the two-read splitting theorem and its
   lifting to arbitrary segmentations. *)
From Coq Require Import ZifyBool ZifyN.
From AV Require Import Lib.Base Lib.BytesX Generated.HttpGen Model.Http
  Proofs.HttpSegBase Proofs.HttpSegChunk.
Ltac Zify.zify_post_hook ::= Z.to_euclidean_division_equations.
Open Scope N_scope.

(* ------------------------------------------------------------------ one step of feed_loop *)
Definition fcfg := (pst * acc)%type.
Definition fres := (pst * acc * outcome)%type.

Definition step_f (lim : limits) (o : oracle) (se : fcfg) (buf : bytes) : (fcfg * bytes) + fres :=
  let '(s, evs) := se in
  match buf with
  | [] => inr (s, evs, ROk [])
  | _ :: _ =>
    match payload s with
    | Some p =>
      match feed_payload lim p buf evs with
      | PRNeed p' e1 =>
        inr (mkS (lines s) (tail s) (Some p') (upgraded s) (pending_upgrade s) (should_close s) (in_flight s),
             e1, ROk [])
      | PRDone rest e1 =>
        let s' := mkS (lines s) (tail s) None (upgraded s || pending_upgrade s) false
                      (should_close s) (in_flight s) in
        inl ((s', e1), rest)
      | PRFail e e1 =>
        if payload_error_is_fatal e then inr (s, ev_err e e1, RErr e)
        else
          inr (mkS (lines s) (tail s) None (upgraded s || pending_upgrade s) false (should_close s) (in_flight s),
               ev_err e e1, ROk [])
      end
    | None =>
      if upgraded s then inr (s, evs, ROk buf)
      else if (0 <? max_queue lim) && (max_queue lim <=? in_flight s) then
        inr (mkS (lines s) buf None (upgraded s) (pending_upgrade s) (should_close s) (in_flight s), evs, ROk [])
      else
        match find_crlf buf with
        | Some (line, rest) =>
          match line, lines s with
          | [], [] => inl ((s, evs), rest)
          | _, _ =>
            if should_close s then inr (s, evs, RErr EBadMessage) else
            let limit := match lines s with [] => max_line lim | _ => max_field lim end in
            if limit <? lenN line then inr (s, evs, RErr ELineTooLong) else
            let ls := lines s ++ [line] in
            if max_headers lim <? lenN ls then inr (s, evs, RErr EBadMessage) else
            match line with
            | [] =>
              match start_message lim o s ls with
              | PErr e => inr (s, evs, RErr e)
              | PAsk c t => inr (s, evs, RAsk c t)
              | POk (s', e1) => inl ((s', e1 evs), rest)
              end
            | _ =>
              inl ((mkS ls (tail s) None (upgraded s) (pending_upgrade s) (should_close s) (in_flight s), evs),
                   rest)
            end
          end
        | None =>
          let limit := match lines s with [] => max_line lim | _ => max_field lim end in
          if has_byte 10 buf then inr (s, evs, RErr EBadMessage)
          else if limit <? tail_len tail_check_discounts_cr buf then inr (s, evs, RErr ELineTooLong)
          else inr (mkS (lines s) buf None (upgraded s) (pending_upgrade s) (should_close s) (in_flight s),
                    evs, ROk [])
        end
    end
  end.

Lemma feed_loop_S f lim o s buf evs :
  feed_loop (S f) lim o s buf evs =
  match step_f lim o (s, evs) buf with
  | inl ((s', evs'), rest) => feed_loop f lim o s' rest evs'
  | inr r => r
  end.
Proof.
  destruct buf as [|a r]; [reflexivity|].
  cbn [feed_loop step_f]. repeat dm_goal; reflexivity.
Qed.

Definition fdflt (se : fcfg) : fres := (fst se, snd se, RErr EBadMessage).
Definition mu_f (se : fcfg) : nat := match payload (fst se) with Some _ => 1%nat | None => 0%nat end.
Definition pwf (s : pst) : Prop := match payload s with Some p => wfp p | None => True end.
Definition inv_f (se : fcfg) : Prop := tail (fst se) = [] /\ pwf (fst se).

Definition floop lim o := loop (step_f lim o) fdflt.

Lemma feed_loop_loop : forall f lim o s buf evs,
  feed_loop f lim o s buf evs = floop lim o f (s, evs) buf.
Proof.
  induction f as [|f IH]; intros; [reflexivity|].
  rewrite feed_loop_S. unfold floop. cbn [loop].
  destruct (step_f lim o (s, evs) buf) as [[[s' evs'] rest]|r]; [|reflexivity].
  apply IH.
Qed.

(* ------------------------------------------------------------------ start_message *)
Lemma start_message_inv lim o s ls s' e1 : start_message lim o s ls = POk (s', e1) ->
  tail s' = [] /\ lines s' = [] /\ pwf s'.
Proof.
  unfold start_message. intro H. cbv zeta in H.
  destruct (parse_request o (removelast ls)) as [m|e|c t]; try discriminate.
  destruct (get_header h_content_length (m_headers m)) as [v|].
  - destruct (nonempty v && forallb dec_digit v && (lenN v <=? int_max_str_digits)); [|discriminate].
    destruct (has_header h_sec_websocket_key1 (m_headers m)); [discriminate|].
    destruct (negb (request_head_has_no_body && mem_bytes (m_method m) empty_body_methods) &&
              ((0 <? parse_dec v) || m_chunked m)) eqn:Eb.
    + inversion H; subst. unfold pwf, wfp. cbn. repeat split.
      destruct (m_chunked m) eqn:Ec; cbn; [split; reflexivity|].
      rewrite orb_false_r in Eb. apply andb_true_iff in Eb as [_ Eb]. repeat split. lia.
    + repeat (dmH H; try discriminate); inversion H; subst; unfold pwf, wfp; cbn; repeat split.
  - destruct (has_header h_sec_websocket_key1 (m_headers m)); [discriminate|].
    destruct (negb (request_head_has_no_body && mem_bytes (m_method m) empty_body_methods) &&
              (false || m_chunked m)) eqn:Eb.
    + inversion H; subst. unfold pwf, wfp. cbn. repeat split.
      destruct (m_chunked m) eqn:Ec; cbn; [split; reflexivity|].
      rewrite andb_false_r in Eb. discriminate.
    + repeat (dmH H; try discriminate); inversion H; subst; unfold pwf, wfp; cbn; repeat split.
Qed.

(* ------------------------------------------------------------------ loop hypotheses *)
Lemma step_f_dec lim o : forall se b se' b', inv_f se -> step_f lim o se b = inl (se', b') ->
  inv_f se' /\ (meas mu_f se' b' < meas mu_f se b)%nat.
Proof.
  intros [s evs] b se' b' [Ht Hp] H. destruct b as [|a r]; [discriminate|].
  unfold meas, mu_f, inv_f, pwf in *. cbn [fst snd] in *. cbn [step_f] in H.
  destruct (payload s) as [p|] eqn:Ep.
  - destruct (feed_payload lim p (a :: r) evs) as [p' e1|rest e1|e e1] eqn:E; [discriminate| |dmH H; discriminate].
    inj_inl H. cbn [fst tail payload]. apply (feed_payload_done _ _ _ _ _ _ Hp) in E as [HL _].
    repeat split; [assumption|lia].
  - destruct (upgraded s); [discriminate|].
    destruct ((0 <? max_queue lim) && (max_queue lim <=? in_flight s)); [discriminate|].
    destruct (find_crlf (a :: r)) as [[line rest]|] eqn:E; [|repeat (dmH H; try discriminate)].
    apply find_crlf_len in E.
    destruct line as [|l0 line].
    + destruct (lines s) as [|l1 ls] eqn:El.
      * inj_inl H. cbn [fst]. rewrite Ep. repeat split; [assumption|lia].
      * repeat (dmH H; try discriminate). inj_inl H. cbn [fst].
        match goal with E0 : start_message _ _ _ _ = _ |- _ =>
          apply start_message_inv in E0 as (A & B & C) end.
        unfold pwf in C. repeat split; try assumption. destruct (payload p); lia.
    + repeat (dmH H; try discriminate); inj_inl H; cbn [fst tail payload]; repeat split; try assumption; lia.
Qed.

Lemma step_f_stable lim o : forall se x se' x' y, inv_f se -> step_f lim o se x = inl (se', x') ->
  step_f lim o se (x ++ y) = inl (se', x' ++ y).
Proof.
  intros [s evs] x se' x' y [Ht Hp] H. destruct x as [|a r]; [discriminate|].
  unfold pwf in Hp. cbn [fst] in *. cbn [step_f app] in *.
  destruct (payload s) as [p|] eqn:Ep.
  - destruct (feed_payload lim p (a :: r) evs) as [p' e1|rest e1|e e1] eqn:E; [discriminate| |dmH H; discriminate].
    apply (feed_payload_done _ _ _ _ _ _ Hp) in E as [_ E]. specialize (E y). cbn [app] in E.
    rewrite E. inj_inl H. reflexivity.
  - destruct (upgraded s); [discriminate|].
    destruct ((0 <? max_queue lim) && (max_queue lim <=? in_flight s)); [discriminate|].
    destruct (find_crlf (a :: r)) as [[line rest]|] eqn:E; [|repeat (dmH H; try discriminate)].
    apply (find_crlf_app _ y) in E. cbn [app] in E. rewrite E.
    repeat (dmH H; try discriminate); inj_inl H; reflexivity.
Qed.

Lemma floop_fuel lim o f f' se b : inv_f se -> (meas mu_f se b < f)%nat -> (meas mu_f se b < f')%nat ->
  floop lim o f se b = floop lim o f' se b.
Proof. apply loop_fuel with (inv := inv_f). apply step_f_dec. Qed.

(* ------------------------------------------------------------------ statements' vocabulary *)
(* well-formed parser states (between two feed_data calls) *)
Definition wf (s : pst) : Prop :=
  (tail s <> [] -> payload s = None /\ upgraded s = false) /\ pwf s.

(* the buffered partial chunk-size / trailer line passes the length re-check made by the next call *)
Definition tail_ok (lim : limits) (s : pst) : bool :=
  match payload s with Some p => negb (too_long lim p) | None => true end.

(* ... or the bytes b that follow contain the end of that line: then the over-long line is rejected
   with LineTooLong whether it is seen in pieces or at once *)
Definition line_end_ok (lim : limits) (s : pst) (b : bytes) : bool :=
  tail_ok lim s ||
  match payload s with
  | Some p => match find_crlf (ctail p ++ b) with Some _ => true | None => false end
  | None => true
  end.

Definition prepend (lo : bytes) (r : outcome) : outcome :=
  match r with ROk l => ROk (lo ++ l) | _ => r end.

(* what is observable of a result: after an exception the parser object is discarded *)
Definition obs (x : fres) : option pst * acc * outcome :=
  let '(s, a, r) := x in (match r with ROk _ => Some s | _ => None end, a, r).

Definition clr (s : pst) : pst :=
  mkS (lines s) [] (payload s) (upgraded s) (pending_upgrade s) (should_close s) (in_flight s).

Lemma clr_id s : tail s = [] -> clr s = s.
Proof. destruct s; cbn. intros ->. reflexivity. Qed.

Lemma feed_floop lim o s d a :
  feed lim o s d a = floop lim o (2 * length (tail s ++ d) + 2) (clr s, a) (tail s ++ d).
Proof. unfold feed. rewrite feed_loop_loop. reflexivity. Qed.

Lemma wf_init : wf init.
Proof. split; [intro H; now elim H|exact I]. Qed.

Lemma inv_f_clr s a : wf s -> inv_f (clr s, a).
Proof. intros [_ H]. split; [reflexivity|exact H]. Qed.

Lemma meas_f_fuel se (x : bytes) : (meas mu_f se x < 2 * length x + 2)%nat.
Proof. unfold meas, mu_f. destruct (payload (fst se)); lia. Qed.

Lemma fatal_all e : payload_error_is_fatal e = true.
Proof. destruct e; reflexivity. Qed.

Lemma prepend_nil r : prepend [] r = r.
Proof. destruct r; reflexivity. Qed.

Lemma obs_prepend_nil (x : fres) : obs (let '(s2, a2, r) := x in (s2, a2, prepend [] r)) = obs x.
Proof. destruct x as [[s2 a2] r]. rewrite prepend_nil. reflexivity. Qed.

(* ------------------------------------------------------------------ a stop with a normal return *)
Lemma fstop_ok lim o s evs x s1 acc1 lo1 :
  inv_f (s, evs) ->
  step_f lim o (s, evs) x = inr (s1, acc1, ROk lo1) ->
  wf s1 /\
  (tail_ok lim s1 = true -> forall y f, (meas mu_f (s, evs) (x ++ y) < f)%nat ->
     obs (floop lim o f (s, evs) (x ++ y)) =
     obs (let '(s2, a2, r) := feed lim o s1 y acc1 in (s2, a2, prepend lo1 r))).
Proof.
  intros [Ht Hp] H. cbn [fst] in Ht, Hp.
  destruct x as [|a r].
  { (* buffer exhausted *)
    cbn [step_f] in H. inversion H; subst. clear H. split.
    - split; [intro Hn; now elim Hn|assumption].
    - intros _ y f Hf. rewrite obs_prepend_nil. rewrite feed_floop, Ht, (clr_id _ Ht). cbn [app].
      f_equal. apply floop_fuel; [split; assumption|assumption|apply meas_f_fuel]. }
  cbn [step_f] in H. unfold pwf in Hp.
  destruct (payload s) as [p|] eqn:Ep.
  - (* inside a payload *)
    destruct (feed_payload lim p (a :: r) evs) as [p' e1|rest e1|e e1] eqn:E; [|discriminate|].
    2:{ rewrite fatal_all in H. discriminate. }
    inversion H; subst. clear H.
    destruct (feed_payload_need _ _ _ _ _ _ Hp E) as (Hwp' & Hmt & Hres).
    split.
    + split; [intro Hn; now elim Hn|]. unfold pwf. cbn [payload]. assumption.
    + unfold tail_ok. cbn [payload]. intros Hok y f Hf.
      apply negb_true_iff in Hok. specialize (Hres Hok).
      rewrite obs_prepend_nil. rewrite feed_floop. unfold clr. cbn [tail lines payload upgraded pending_upgrade should_close in_flight].
      rewrite Ht. cbn [app].
      destruct y as [|b y].
      * rewrite app_nil_r. destruct f as [|f]; [lia|]. unfold floop. cbn [loop length Nat.mul Nat.add step_f].
        rewrite Ep, E. destruct s; cbn in *; subst; reflexivity.
      * destruct f as [|f]; [lia|].
        replace (2 * length (b :: y) + 2)%nat with (S (2 * length (b :: y) + 1)) by lia.
        unfold floop. cbn [loop]. cbn [step_f app payload]. rewrite Ep.
        specialize (Hres (b :: y)). cbn [app] in Hres. rewrite Hres.
        destruct (feed_payload lim p' (b :: y) acc1) as [p'' e2|rest e2|e e2] eqn:E2.
        -- destruct s; cbn in *; subst; reflexivity.
        -- cbn [lines tail upgraded pending_upgrade should_close in_flight]. rewrite Ht.
           apply (feed_payload_done _ _ _ _ _ _ Hwp') in E2 as [HL _].
           f_equal. apply floop_fuel.
           ++ split; [reflexivity|exact I].
           ++ unfold meas, mu_f in *. cbn [fst payload length] in *. rewrite app_length in Hf. cbn [length] in *. lia.
           ++ unfold meas, mu_f in *. cbn [fst payload length] in *. lia.
        -- rewrite fatal_all. reflexivity.
  - destruct (upgraded s) eqn:Eu.
    { (* upgraded connection: everything is handed back *)
      inversion H; subst. clear H. split.
      - split; [intro Hn; now elim Hn|]. unfold pwf. rewrite Ep. exact I.
      - intros _ y f Hf. rewrite feed_floop, Ht, (clr_id _ Ht). cbn [app].
        destruct f as [|f]; [lia|]. unfold floop. cbn [loop]. cbn [step_f app]. rewrite Ep, Eu.
        destruct y as [|b y]; cbn [loop length Nat.mul Nat.add step_f]; [reflexivity|].
        replace (length y + S (length y + 0) + 2)%nat with (S (length y + S (length y + 0) + 1)) by lia.
        cbn [loop step_f]. rewrite Ep, Eu. reflexivity. }
    destruct ((0 <? max_queue lim) && (max_queue lim <=? in_flight s)) eqn:Eq.
    { (* message queue full: the whole buffer is kept *)
      inversion H; subst. clear H. split.
      - split; [intros _; split; reflexivity|exact I].
      - intros _ y f Hf. rewrite obs_prepend_nil. rewrite feed_floop. unfold clr.
        cbn [tail lines payload upgraded pending_upgrade should_close in_flight].
        destruct f as [|f]; [lia|].
        replace (2 * length ((a :: r) ++ y) + 2)%nat with (S (2 * length ((a :: r) ++ y) + 1)) by lia.
        unfold floop. cbn [loop]. cbn [step_f app payload upgraded in_flight]. rewrite Ep, Eu, Eq.
        cbn [lines pending_upgrade should_close upgraded in_flight]. reflexivity. }
    destruct (find_crlf (a :: r)) as [[line rest]|] eqn:Ef.
    { exfalso. repeat (dmH H; try discriminate). }
    (* partial line kept *)
    destruct (has_byte 10 (a :: r)); [discriminate|].
    dmH H; [discriminate|]. inversion H; subst. clear H. split.
    + split; [intros _; split; reflexivity|exact I].
    + intros _ y f Hf. rewrite obs_prepend_nil. rewrite feed_floop. unfold clr.
      cbn [tail lines payload upgraded pending_upgrade should_close in_flight].
      assert (Hs : mkS (lines s) [] None false (pending_upgrade s) (should_close s) (in_flight s) = s)
        by (destruct s; cbn in *; subst; reflexivity).
      rewrite Hs. f_equal. apply floop_fuel; [split; cbn [fst]; [assumption|unfold pwf; rewrite Ep; exact I]|assumption|apply meas_f_fuel].
Qed.

(* ------------------------------------------------------------------ item 1: invariant *)
Lemma feed_stop lim o s d a : wf s ->
  exists sk ek xk,
    stopcfg (step_f lim o) (2 * length (tail s ++ d) + 2) (clr s, a) (tail s ++ d) = (sk, ek, xk) /\
    inv_f (sk, ek) /\ step_f lim o (sk, ek) xk = inr (feed lim o s d a).
Proof.
  intro Hw. rewrite feed_floop.
  destruct (stopcfg (step_f lim o) (2 * length (tail s ++ d) + 2) (clr s, a) (tail s ++ d)) as [[sk ek] xk] eqn:E.
  destruct (stopcfg_stop _ _ (step_f lim o) fdflt mu_f inv_f (step_f_dec lim o) _ _ _
              (inv_f_clr s a Hw) (meas_f_fuel _ _) _ _ E) as (A & B & r & C & D).
  exists sk, ek, xk. unfold floop. rewrite D. auto.
Qed.

Theorem feed_wf lim o s d a s1 a1 lo1 : wf s -> feed lim o s d a = (s1, a1, ROk lo1) -> wf s1.
Proof.
  intros Hw H. destruct (feed_stop lim o s d a Hw) as (sk & ek & xk & E & Hi & Hs).
  rewrite H in Hs. exact (proj1 (fstop_ok _ _ _ _ _ _ _ _ Hi Hs)).
Qed.

(* ------------------------------------------------------------------ item 2: fuel *)
(* the fuel supplied by feed (2 * |buffer| + 2) is enough, and any larger amount gives the same run;
   so the out-of-fuel branch of feed_loop plays no role *)
Theorem feed_loop_fuel lim o s buf evs f f' : tail s = [] -> pwf s ->
  (2 * length buf + 2 <= f)%nat -> (2 * length buf + 2 <= f')%nat ->
  feed_loop f lim o s buf evs = feed_loop f' lim o s buf evs.
Proof.
  intros Ht Hp H1 H2. rewrite !feed_loop_loop.
  pose proof (meas_f_fuel (s, evs) buf).
  apply floop_fuel; [split; assumption|lia|lia].
Qed.

Theorem chunked_loop_fuel lim p c tl chunk evs f f' :
  match c with CData rem => 0 < rem | _ => True end ->
  (2 * length chunk + 2 <= f)%nat -> (2 * length chunk + 2 <= f')%nat ->
  chunked_loop f lim p c tl chunk evs = chunked_loop f' lim p c tl chunk evs.
Proof.
  intros Hc H1 H2. rewrite !chunked_loop_loop.
  pose proof (meas_c_fuel c tl evs chunk).
  apply cloop_fuel; [exact Hc|lia|lia].
Qed.

(* ------------------------------------------------------------------ item 3: two reads *)
Theorem feed_split lim o s a b acc s1 acc1 lo1 :
  wf s ->
  feed lim o s a acc = (s1, acc1, ROk lo1) ->
  tail_ok lim s1 = true ->
  obs (feed lim o s (a ++ b) acc) =
  obs (let '(s2, acc2, r) := feed lim o s1 b acc1 in (s2, acc2, prepend lo1 r)).
Proof.
  intros Hw H Hok. destruct (feed_stop lim o s a acc Hw) as (sk & ek & xk & E & Hi & Hs).
  rewrite H in Hs. destruct (fstop_ok _ _ _ _ _ _ _ _ Hi Hs) as [_ Hres].
  rewrite (feed_floop lim o s (a ++ b)). rewrite app_assoc. unfold floop.
  rewrite (loop_app _ _ (step_f lim o) fdflt mu_f inv_f (step_f_dec lim o) (step_f_stable lim o)
             _ _ _ b _ (S (meas mu_f (sk, ek) (xk ++ b))) (inv_f_clr s acc Hw) (meas_f_fuel _ _)
             (meas_f_fuel _ _) _ _ E ltac:(lia)).
  apply (Hres Hok b (S (meas mu_f (sk, ek) (xk ++ b)))). lia.
Qed.

Lemma feed_payload_too_long lim p d evs : too_long lim p = true ->
  feed_payload lim p d evs = PRFail ELineTooLong evs.
Proof.
  intro H. destruct (pk p) as [rem|c|] eqn:Ek; try (unfold too_long in H; rewrite Ek in H; discriminate).
  rewrite (feed_payload_chunked _ _ _ _ _ Ek), H. reflexivity.
Qed.

(* a stop that leaves an over-long partial chunk line buffered (the next call raises LineTooLong) *)
Lemma fstop_long lim o s evs x s1 acc1 lo1 :
  inv_f (s, evs) -> step_f lim o (s, evs) x = inr (s1, acc1, ROk lo1) -> tail_ok lim s1 = false ->
  exists p', payload s1 = Some p' /\ tail s1 = [] /\ lo1 = [] /\
  forall c y f, (meas mu_f (s, evs) (x ++ c :: y) < f)%nat ->
    feed lim o s1 (c :: y) acc1 = (clr s1, ev_err ELineTooLong acc1, RErr ELineTooLong) /\
    ((exists st, floop lim o f (s, evs) (x ++ c :: y) = (st, ev_err ELineTooLong acc1, RErr ELineTooLong)) \/
     (find_crlf (ctail p' ++ c :: y) = None /\
      ((exists st, floop lim o f (s, evs) (x ++ c :: y) = (st, ev_err ETransferEncoding acc1, RErr ETransferEncoding)) \/
       (exists st, floop lim o f (s, evs) (x ++ c :: y) = (st, acc1, ROk []) /\ tail_ok lim st = false /\ wf st)))).
Proof.
  intros [Ht Hp] H Hok. cbn [fst] in Ht, Hp. unfold tail_ok in Hok.
  assert (Htwo : forall p' c y, payload s1 = Some p' -> tail s1 = [] -> too_long lim p' = true ->
            feed lim o s1 (c :: y) acc1 = (clr s1, ev_err ELineTooLong acc1, RErr ELineTooLong)).
  { intros p' c y Ep' Ht1 Htl. rewrite feed_floop, Ht1. cbn [app].
    replace (2 * length (c :: y) + 2)%nat with (S (2 * length (c :: y) + 1)) by lia.
    unfold floop. cbn [loop]. unfold clr at 1. cbn [step_f payload]. rewrite Ep'.
    rewrite (feed_payload_too_long _ _ _ _ Htl), fatal_all. unfold clr. rewrite Ep'. reflexivity. }
  destruct x as [|a r].
  { cbn [step_f] in H. inversion H; subst. clear H.
    destruct (payload s1) as [p'|] eqn:Ep; [|discriminate]. apply negb_false_iff in Hok.
    exists p'. repeat split; try reflexivity; try assumption.
    - apply (Htwo p'); [reflexivity|exact Ht|exact Hok].
    - left. destruct f as [|f]; [lia|]. unfold floop. cbn [loop app step_f]. rewrite Ep.
      rewrite (feed_payload_too_long _ _ _ _ Hok), fatal_all. eauto. }
  cbn [step_f] in H. unfold pwf in Hp.
  destruct (payload s) as [p|] eqn:Ep.
  - destruct (feed_payload lim p (a :: r) evs) as [p' e1|rest e1|e e1] eqn:E; [|discriminate|].
    2:{ rewrite fatal_all in H. discriminate. }
    inversion H; subst. clear H. cbn [payload] in Hok. apply negb_false_iff in Hok.
    exists p'. cbn [payload tail]. repeat split; try reflexivity; try assumption.
    + apply (Htwo p'); [reflexivity|exact Ht|exact Hok].
    + destruct f as [|f]; [lia|]. unfold floop. cbn [loop]. cbn [step_f app]. rewrite Ep.
      pose proof (feed_payload_need_long lim p (a :: r) evs p' acc1 (c :: y) Hp E Hok ltac:(discriminate)) as Hl.
      cbn [app] in Hl.
      destruct (find_crlf (ctail p' ++ c :: y)) as [x0|].
      * rewrite Hl, fatal_all. left. eauto.
      * right. split; [reflexivity|]. destruct (has_byte 10 (ctail p' ++ c :: y)).
        -- rewrite Hl, fatal_all. left. eauto.
        -- destruct Hl as (p'' & Hl & Ht''). rewrite Hl. right. eexists. split; [reflexivity|].
           split; [unfold tail_ok; cbn [payload]; rewrite Ht''; reflexivity|].
           split; [intro Hn; cbn [tail] in Hn; rewrite Ht in Hn; now elim Hn|].
           unfold pwf. cbn [payload].
           exact (proj1 (feed_payload_need _ _ _ _ _ _ Hp Hl)).
  - exfalso. destruct (upgraded s). { inversion H; subst. rewrite Ep in Hok. discriminate. }
    destruct ((0 <? max_queue lim) && (max_queue lim <=? in_flight s)). { inversion H; subst. discriminate. }
    destruct (find_crlf (a :: r)) as [[line rest]|]; repeat (dmH H; try discriminate); inversion H; subst; discriminate.
Qed.

(* two reads, no hypothesis on the state between them: either the results are observably equal, or
   the second read raised LineTooLong on an over-long partial chunk-size / trailer line buffered by
   the first, whose end has not arrived yet: then one read of the same bytes raises
   TransferEncodingError (a bare LF in that line) or returns normally with the same messages, still
   buffering the over-long line (so that whatever follows is rejected): rejection noticed earlier *)
Theorem feed_split_full lim o s a b acc s1 acc1 lo1 :
  wf s ->
  feed lim o s a acc = (s1, acc1, ROk lo1) ->
  obs (feed lim o s (a ++ b) acc) =
  obs (let '(s2, acc2, r) := feed lim o s1 b acc1 in (s2, acc2, prepend lo1 r)) \/
  (tail_ok lim s1 = false /\
   (exists s2, feed lim o s1 b acc1 = (s2, ev_err ELineTooLong acc1, RErr ELineTooLong)) /\
   (exists p', payload s1 = Some p' /\ find_crlf (ctail p' ++ b) = None) /\
   ((exists s3, feed lim o s (a ++ b) acc = (s3, ev_err ETransferEncoding acc1, RErr ETransferEncoding)) \/
    (exists s3, feed lim o s (a ++ b) acc = (s3, acc1, ROk []) /\ tail_ok lim s3 = false /\ wf s3))).
Proof.
  intros Hw H. destruct (tail_ok lim s1) eqn:Hok; [left; apply feed_split; assumption|].
  destruct (feed_stop lim o s a acc Hw) as (sk & ek & xk & E & Hi & Hs). rewrite H in Hs.
  destruct (fstop_long _ _ _ _ _ _ _ _ Hi Hs Hok) as (p' & Ep' & Ht1 & -> & Hres).
  destruct b as [|c y].
  - left. rewrite app_nil_r, H. rewrite feed_floop, Ht1. cbn. rewrite (clr_id _ Ht1). reflexivity.
  - rewrite (feed_floop lim o s (a ++ c :: y)). rewrite app_assoc. unfold floop.
    rewrite (loop_app _ _ (step_f lim o) fdflt mu_f inv_f (step_f_dec lim o) (step_f_stable lim o)
               _ _ _ (c :: y) _ (S (meas mu_f (sk, ek) (xk ++ c :: y))) (inv_f_clr s acc Hw) (meas_f_fuel _ _)
               (meas_f_fuel _ _) _ _ E ltac:(lia)).
    destruct (Hres c y (S (meas mu_f (sk, ek) (xk ++ c :: y))) ltac:(lia)) as [Htwo Hone].
    unfold floop in Hone.
    destruct Hone as [[st Ho]|[Hnone [[st Ho]|(st & Ho & Hb & Hwf)]]].
    + left. rewrite Ho, Htwo. reflexivity.
    + right. rewrite Ho. split; [reflexivity|]. split; [eauto|]. split; [eauto|]. left. eauto.
    + right. rewrite Ho. split; [reflexivity|]. split; [eauto|]. split; [eauto|]. right. eauto.
Qed.

Theorem feed_split_weak lim o s a b acc s1 acc1 lo1 :
  wf s ->
  feed lim o s a acc = (s1, acc1, ROk lo1) ->
  line_end_ok lim s1 b = true ->
  obs (feed lim o s (a ++ b) acc) =
  obs (let '(s2, acc2, r) := feed lim o s1 b acc1 in (s2, acc2, prepend lo1 r)).
Proof.
  intros Hw H Hok. destruct (feed_split_full lim o s a b acc s1 acc1 lo1 Hw H) as [Heq|(Ht & _ & (p' & Ep & Hn) & _)];
    [exact Heq|].
  unfold line_end_ok in Hok. rewrite Ht, Ep, Hn in Hok. discriminate.
Qed.

Lemma line_end_ok_app lim s b more : line_end_ok lim s b = true -> line_end_ok lim s (b ++ more) = true.
Proof.
  unfold line_end_ok. destruct (tail_ok lim s); [reflexivity|]. cbn [orb].
  destruct (payload s) as [p|]; [|reflexivity].
  destruct (find_crlf (ctail p ++ b)) as [[l r]|] eqn:E; [|discriminate]. intros _.
  rewrite app_assoc, (find_crlf_app _ more _ _ E). reflexivity.
Qed.

Lemma tail_ok_line_end lim s b : tail_ok lim s = true -> line_end_ok lim s b = true.
Proof. unfold line_end_ok. intros ->. reflexivity. Qed.

Theorem feed_split_accept lim o s a b acc s1 acc1 lo1 s2 acc2 lo2 :
  wf s ->
  feed lim o s a acc = (s1, acc1, ROk lo1) ->
  feed lim o s1 b acc1 = (s2, acc2, ROk lo2) ->
  feed lim o s (a ++ b) acc = (s2, acc2, ROk (lo1 ++ lo2)).
Proof.
  intros Hw H1 H2. destruct (tail_ok lim s1) eqn:Hok.
  - pose proof (feed_split lim o s a b acc s1 acc1 lo1 Hw H1 Hok) as H. rewrite H2 in H.
    destruct (feed lim o s (a ++ b) acc) as [[s' a'] r']. cbn in H.
    destruct r'; inversion H; subst; reflexivity.
  - pose proof (feed_wf _ _ _ _ _ _ _ _ Hw H1) as [Hw1 _].
    unfold tail_ok in Hok. destruct (payload s1) as [p'|] eqn:Ep; [|discriminate].
    apply negb_false_iff in Hok.
    assert (Ht : tail s1 = []).
    { destruct (tail s1) as [|c t]; [reflexivity|]. destruct (Hw1 ltac:(discriminate)) as [A _]. discriminate. }
    rewrite feed_floop, Ht in H2. cbn [app] in H2.
    destruct b as [|c b].
    + cbn in H2. inversion H2; subst. rewrite !app_nil_r. rewrite H1. rewrite (clr_id _ Ht). reflexivity.
    + exfalso. replace (2 * length (c :: b) + 2)%nat with (S (2 * length (c :: b) + 1)) in H2 by lia.
      unfold floop in H2. cbn [loop] in H2. unfold clr in H2. cbn [step_f payload] in H2. rewrite Ep in H2.
      rewrite (feed_payload_too_long _ _ _ _ Hok), fatal_all in H2. discriminate.
Qed.

(* ------------------------------------------------------------------ item 4: any segmentation *)
Lemma run_segs_cons lim o s d segs a lo :
  run_segs lim o s (d :: segs) a lo =
  match feed lim o s d a with
  | (s', a', ROk l) => run_segs lim o s' segs a' (lo ++ l)
  | (s', a', r) => (s', a', r)
  end.
Proof. reflexivity. Qed.

Lemma run_segs_accept_cons : forall segs lim o s d acc lo s' acc' lo',
  wf s ->
  run_segs lim o s (d :: segs) acc lo = (s', acc', ROk lo') ->
  wf s' /\ run_segs lim o s [d ++ concat segs] acc lo = (s', acc', ROk lo').
Proof.
  induction segs as [|e segs IH]; intros lim o s d acc lo s' acc' lo' Hw H.
  - cbn [concat]. rewrite app_nil_r. split; [|exact H].
    rewrite run_segs_cons in H. destruct (feed lim o s d acc) as [[s1 a1] r1] eqn:E1.
    destruct r1; try discriminate. cbn [run_segs] in H. inversion H; subst.
    eapply feed_wf; eassumption.
  - rewrite run_segs_cons in H. destruct (feed lim o s d acc) as [[s1 a1] r1] eqn:E1.
    destruct r1 as [l1| |]; try discriminate.
    pose proof (feed_wf _ _ _ _ _ _ _ _ Hw E1) as Hw1.
    destruct (IH lim o s1 e a1 (lo ++ l1) s' acc' lo' Hw1 H) as [Hw' H'].
    split; [assumption|].
    rewrite run_segs_cons in H'. destruct (feed lim o s1 (e ++ concat segs) a1) as [[s2 a2] r2] eqn:E2.
    destruct r2 as [l2| |]; try discriminate. cbn [run_segs] in H'. inversion H'; subst.
    cbn [concat]. rewrite run_segs_cons.
    rewrite (feed_split_accept _ _ _ _ _ _ _ _ _ _ _ _ Hw E1 E2). cbn [run_segs].
    rewrite app_assoc. reflexivity.
Qed.

Theorem seg_accept lim o segs s acc lo s' acc' lo' :
  wf s -> segs <> [] ->
  run_segs lim o s segs acc lo = (s', acc', ROk lo') ->
  run_segs lim o s [concat segs] acc lo = (s', acc', ROk lo').
Proof.
  intros Hw Hn H. destruct segs as [|d segs]; [congruence|].
  cbn [concat]. exact (proj2 (run_segs_accept_cons _ _ _ _ _ _ _ _ _ _ Hw H)).
Qed.

Theorem run_segs_wf lim o segs s acc lo s' acc' lo' :
  wf s -> run_segs lim o s segs acc lo = (s', acc', ROk lo') -> wf s'.
Proof.
  intros Hw H. destruct segs as [|d segs].
  - cbn in H. inversion H; subst. assumption.
  - exact (proj1 (run_segs_accept_cons _ _ _ _ _ _ _ _ _ _ Hw H)).
Qed.

(* two accepted segmentations of the same stream are indistinguishable *)
Theorem seg_indep_accept lim o segs1 segs2 s acc lo s1 acc1 lo1 s2 acc2 lo2 :
  wf s -> segs1 <> [] -> segs2 <> [] -> concat segs1 = concat segs2 ->
  run_segs lim o s segs1 acc lo = (s1, acc1, ROk lo1) ->
  run_segs lim o s segs2 acc lo = (s2, acc2, ROk lo2) ->
  (s1, acc1, lo1) = (s2, acc2, lo2).
Proof.
  intros Hw N1 N2 Hc H1 H2.
  apply (seg_accept _ _ _ _ _ _ _ _ _ Hw N1) in H1.
  apply (seg_accept _ _ _ _ _ _ _ _ _ Hw N2) in H2.
  rewrite Hc in H1. rewrite H1 in H2. inversion H2; subst. reflexivity.
Qed.

(* ------------------------------------------------------------------ item 2, second form *)
(* feed_loop / chunked_loop agree with a loop whose out-of-fuel answer is arbitrary *)
Theorem feed_loop_never_out_of_fuel lim o s buf evs f (d' : fcfg -> fres) : tail s = [] -> pwf s ->
  (2 * length buf + 2 <= f)%nat ->
  feed_loop f lim o s buf evs = loop (step_f lim o) d' f (s, evs) buf.
Proof.
  intros Ht Hp Hf. rewrite feed_loop_loop. unfold floop.
  pose proof (meas_f_fuel (s, evs) buf).
  apply (loop_dflt_irrel _ _ _ mu_f inv_f (step_f_dec lim o)); [split; assumption|lia].
Qed.

Theorem chunked_loop_never_out_of_fuel lim p c tl chunk evs f (d' : cst -> pres) :
  match c with CData rem => 0 < rem | _ => True end ->
  (2 * length chunk + 2 <= f)%nat ->
  chunked_loop f lim p c tl chunk evs = loop (step_c lim (max_trailers p)) d' f (c, tl, evs) chunk.
Proof.
  intros Hc Hf. rewrite chunked_loop_loop. unfold cloop.
  pose proof (meas_c_fuel c tl evs chunk).
  apply (loop_dflt_irrel _ _ _ mu_c cwf (step_c_dec lim (max_trailers p))); [exact Hc|lia].
Qed.

Theorem feed_fuel lim o s d a f : wf s -> (2 * length (tail s ++ d) + 2 <= f)%nat ->
  feed_loop f lim o (clr s) (tail s ++ d) a = feed lim o s d a.
Proof.
  intros [_ Hp] Hf. unfold feed. apply feed_loop_fuel; [reflexivity|exact Hp|lia|lia].
Qed.

(* the invariant in plain words *)
Lemma wf_spelled s : wf s ->
  (payload s <> None \/ upgraded s = true -> tail s = []) /\
  forall p, payload s = Some p ->
    match pk p with
    | PLength rem => 0 < rem /\ ctail p = [] /\ tlines p = []
    | PUntilEof => ctail p = [] /\ tlines p = []
    | PChunked (CData rem) => 0 < rem /\ ctail p = []
    | PChunked CDataEnd => ctail p = [] \/ ctail p = [13]
    | PChunked _ => find_crlf (ctail p) = None /\ has_byte 10 (ctail p) = false
    end.
Proof.
  intros [H1 H2]. split.
  - intro A. destruct (tail s) as [|c t]; [reflexivity|].
    destruct (H1 ltac:(discriminate)) as [B C]. destruct A as [A|A]; congruence.
  - intros p Ep. unfold pwf in H2. rewrite Ep in H2. unfold wfp, wfc in H2.
    destruct (pk p) as [rem|c|]; [assumption| |assumption]. destruct c; assumption.
Qed.

(* ------------------------------------------------------------------ item 6a: rejected runs *)
(* the reads a segmented run consumes: up to and including the first one that does not return *)
Fixpoint consumed (lim : limits) (o : oracle) (s : pst) (segs : list bytes) (a : acc) : list bytes :=
  match segs with
  | [] => []
  | d :: segs' =>
    match feed lim o s d a with
    | (s', a', ROk _) => d :: consumed lim o s' segs' a'
    | _ => [d]
    end
  end.

(* every parser state at a read boundary that is followed by another read passes the length
   re-check of its buffered partial chunk-size / trailer line, or the reads consumed after it
   contain the end of that line *)
Fixpoint boundaries_ok (lim : limits) (o : oracle) (s : pst) (segs : list bytes) (a : acc) : bool :=
  match segs with
  | [] => true
  | d :: segs' =>
    match feed lim o s d a with
    | (s', a', ROk _) =>
      match segs' with
      | [] => true
      | _ => line_end_ok lim s' (concat (consumed lim o s' segs' a')) && boundaries_ok lim o s' segs' a'
      end
    | _ => true
    end
  end.

Definition lift (lo : bytes) (x : fres) : fres := let '(s, a, r) := x in (s, a, prepend lo r).

Lemma run_segs_single lim o s d a lo : run_segs lim o s [d] a lo = lift lo (feed lim o s d a).
Proof. cbn [run_segs]. destruct (feed lim o s d a) as [[s' a'] r]. destruct r; reflexivity. Qed.

Lemma obs_lift lo x y : obs x = obs y -> obs (lift lo x) = obs (lift lo y).
Proof.
  destruct x as [[s1 a1] r1], y as [[s2 a2] r2]. cbn.
  destruct r1, r2; intro H; inversion H; subst; reflexivity.
Qed.

Lemma lift_lift lo l1 x : lift lo (lift l1 x) = lift (lo ++ l1) x.
Proof. destruct x as [[s a] r]. destruct r; cbn; try reflexivity. now rewrite app_assoc. Qed.

Lemma consumed_cons lim o s d segs a :
  consumed lim o s (d :: segs) a =
  match feed lim o s d a with
  | (s', a', ROk _) => d :: consumed lim o s' segs a'
  | _ => [d]
  end.
Proof. reflexivity. Qed.

Lemma run_segs_consumed_cons : forall segs lim o s d acc lo,
  wf s -> boundaries_ok lim o s (d :: segs) acc = true ->
  obs (run_segs lim o s (d :: segs) acc lo) =
  obs (run_segs lim o s [concat (consumed lim o s (d :: segs) acc)] acc lo).
Proof.
  induction segs as [|e segs IH]; intros lim o s d acc lo Hw Hb.
  - cbn [consumed]. destruct (feed lim o s d acc) as [[s1 a1] r1] eqn:E1.
    destruct r1; cbn [concat]; rewrite app_nil_r; reflexivity.
  - rewrite consumed_cons. cbn [boundaries_ok] in Hb. rewrite run_segs_cons.
    destruct (feed lim o s d acc) as [[s1 a1] r1] eqn:E1.
    destruct r1 as [l1| |]; try (cbn [concat]; rewrite app_nil_r, run_segs_single, E1; reflexivity).
    apply andb_true_iff in Hb as [Hok Hb].
    pose proof (feed_wf _ _ _ _ _ _ _ _ Hw E1) as Hw1.
    rewrite (IH lim o s1 e a1 (lo ++ l1) Hw1 Hb).
    assert (HC : exists C', concat (consumed lim o s1 (e :: segs) a1) = e ++ C').
    { rewrite consumed_cons. destruct (feed lim o s1 e a1) as [[s2 a2] r2]. destruct r2; cbn [concat]; eauto. }
    destruct HC as [C' HC]. rewrite HC in Hok. rewrite concat_cons, HC, !run_segs_single.
    rewrite <- lift_lift. apply obs_lift. symmetry.
    exact (feed_split_weak lim o s d (e ++ C') acc s1 a1 l1 Hw E1 Hok).
Qed.

Theorem seg_consumed_obs lim o segs s acc lo :
  wf s -> segs <> [] -> boundaries_ok lim o s segs acc = true ->
  obs (run_segs lim o s segs acc lo) =
  obs (run_segs lim o s [concat (consumed lim o s segs acc)] acc lo).
Proof.
  intros Hw Hn Hb. destruct segs as [|d segs]; [congruence|]. now apply run_segs_consumed_cons.
Qed.

(* one-shot rejection (exception or oracle question) implies that every segmentation is rejected *)
Theorem seg_oneshot_reject lim o segs s acc lo s1 acc1 r1 :
  wf s -> segs <> [] ->
  run_segs lim o s [concat segs] acc lo = (s1, acc1, r1) -> (forall l, r1 <> ROk l) ->
  forall s2 acc2 r2, run_segs lim o s segs acc lo = (s2, acc2, r2) -> forall l, r2 <> ROk l.
Proof.
  intros Hw Hn H1 Hr s2 acc2 r2 H2 l ->.
  rewrite (seg_accept _ _ _ _ _ _ _ _ _ Hw Hn H2) in H1. inversion H1; subst. now apply (Hr l).
Qed.
