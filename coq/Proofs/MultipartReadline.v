(* Termination of `while not part.at_eof(): await part.readline()` (after fix 5a38184: the third read at stream EOF
   raises): every readline() call raises, reaches at_eof, or strictly decreases
   8 * (2 * bytes left in the stream + bytes in _unread) + 2 * (3 - _content_eof) + [stream not at EOF]. *)
From AV Require Import Lib.Base Generated.MultipartGen Model.Multipart Proofs.MultipartStream.
From Coq Require Import ZifyBool ZifyN ZifyNat.
Open Scope N_scope.
Ltac Zify.zify_post_hook ::= Z.to_euclidean_division_equations.

Lemma find_lf_some b : forall line rest, find_lf b = Some (line, rest) -> b = line ++ rest /\ line <> [].
Proof.
  induction b as [|c b IH]; intros line rest H; cbn [find_lf] in H; [discriminate|].
  destruct (c =? 10).
  - inversion H; subst. split; [reflexivity|discriminate].
  - destruct (find_lf b) as [[l r]|]; [|discriminate]. inversion H; subst.
    destruct (IH _ _ eq_refl) as [-> _]. split; [reflexivity|discriminate].
Qed.

Lemma readline_go_total p : forall acc buf eof eager max l b' p' e',
  readline_go p acc buf eof eager max = (Some l, (b', p', e')) ->
  lenN l + lenN b' + pending_total p' = lenN acc + lenN buf + pending_total p /\
  (l = [] -> b' = [] /\ e' = true).
Proof.
  induction p as [|[d seg] p IH]; intros acc buf eof eager max l b' p' e' H; cbn [readline_go] in H.
  - destruct (find_lf buf) as [[line rest]|] eqn:F.
    + apply find_lf_some in F as [-> NE]. destruct (max <? _); inversion H; subst.
      split; [rewrite !lenN_app; lia|]. intro Z. apply app_eq_nil in Z as [_ Z]. congruence.
    + destruct (max <? _); [discriminate|]. destruct eof; inversion H; subst; (split; [rewrite !lenN_app, ?lenN_nil0; cbn [pending_total]; lia|]).
      * intro Z. split; reflexivity.
      * intro Z. split; reflexivity.
  - destruct (find_lf buf) as [[line rest]|] eqn:F.
    + apply find_lf_some in F as [-> NE]. destruct (max <? _); inversion H; subst.
      split; [rewrite !lenN_app; lia|]. intro Z. apply app_eq_nil in Z as [_ Z]. congruence.
    + destruct (max <? _); [discriminate|]. destruct eof.
      * inversion H; subst. split; [rewrite !lenN_app, lenN_nil0; lia|]. intro Z. split; reflexivity.
      * destruct (IH _ _ _ _ _ _ _ _ _ H) as [T Z]. split; [|exact Z].
        rewrite lenN_app in T. cbn [pending_total]. lia.
Qed.

Lemma s_readline_total max s l s' :
  s_readline max s = (Some l, s') -> s_total s' + lenN l = s_total s /\ (l = [] -> s_at_eof s' = true).
Proof.
  unfold s_readline. set (s0 := s_tick s).
  destruct (readline_go (s_pending s0) (@nil N) (s_buf s0) (s_eof s0) (s_eager s0) _) as [r [[b p] e]] eqn:R.
  intro H; inversion H; subst. apply readline_go_total in R as [T Z]. rewrite lenN_nil0 in T.
  split.
  - rewrite s_with_total. rewrite <- (s_tick_total s). fold s0. unfold s_total. lia.
  - intro E. destruct (Z E) as [-> ->]. reflexivity.
Qed.

Fixpoint unread_len (u : list bytes) : N := match u with [] => 0 | l :: r => lenN l + unread_len r end.
Lemma unread_len_app a b : unread_len (a ++ b) = unread_len a + unread_len b.
Proof. induction a as [|x a IH]; cbn [app unread_len]; lia. Qed.

Definition rl_measure (p : part) (s : stream) : N :=
  8 * (2 * s_total s + unread_len (p_unread p)) + 2 * (3 - p_content_eof p) + (if s_at_eof s then 0 else 1).

Lemma starts_with_nonempty b line : starts_with b line = true -> line = [] -> b = [].
Proof. intros H ->. destruct b; [reflexivity|discriminate]. Qed.

Theorem part_readline_progress p s d p' s' :
  p_at_eof p = false -> part_readline p s = Ok (d, p', s') ->
  p_at_eof p' = true \/ rl_measure p' s' < rl_measure p s.
Proof.
  intros E H. unfold part_readline in H. rewrite E in H.
  (* the line, wherever it comes from *)
  assert (SRC : (exists line p1 s1,
            (match p_unread p with
             | l :: u => Ok (l, p_set_unread u p, s)
             | [] => match s_readline 0 s with (None, _) => Err ELineTooLong | (Some l, s') => Ok (l, p, s') end
             end) = Ok (line, p1, s1) /\
            2 * s_total s1 + unread_len (p_unread p1) + lenN line <= 2 * s_total s + unread_len (p_unread p) /\
            p_content_eof p1 = p_content_eof p /\ p_at_eof p1 = false /\
            (line = [] -> s_at_eof s1 = false -> s1 = s /\ s_at_eof s = false) /\
            ((if s_at_eof s1 then 0 else 1) <= 1))
            \/ (match p_unread p with
                | l :: u => Ok (l, p_set_unread u p, s)
                | [] => match s_readline 0 s with (None, _) => Err ELineTooLong | (Some l, s') => Ok (l, p, s') end
                end) = Err ELineTooLong).
  { destruct (p_unread p) as [|l u] eqn:U.
    - destruct (s_readline 0 s) as [[l|] s1] eqn:R; [|right; reflexivity]. left.
      apply s_readline_total in R as [T Z]. exists l, p, s1. rewrite U. cbn [unread_len].
      split; [reflexivity|]. split; [lia|]. split; [reflexivity|]. split; [exact E|].
      split; [intros L A; rewrite (Z L) in A; discriminate|destruct (s_at_eof s1); lia].
    - left. exists l, (p_set_unread u p), s. cbn [p_unread p_set_unread p_content_eof p_at_eof unread_len].
      split; [reflexivity|]. split; [lia|]. split; [reflexivity|]. split; [exact E|].
      split; [intros _ A; split; [reflexivity|exact A]|destruct (s_at_eof s); lia]. }
  destruct SRC as [(line & p1 & s1 & SE & M1 & C1 & E1 & Z1 & _) | SE]; rewrite SE in H; [|discriminate]. cbv beta iota zeta in H.
  set (bump := is_nil line && s_at_eof s1) in *.
  set (ceof := if bump then p_content_eof p1 + 1 else p_content_eof p1) in *.
  unfold content_eof_exceeded in H.
  destruct (bump && (2 <? ceof)) eqn:X; [discriminate|].
  assert (CE : bump = true -> ceof = p_content_eof p + 1 /\ ceof <= 2).
  { intro B. rewrite B in X. cbn [andb] in X. unfold ceof. rewrite B, C1. unfold ceof in X. rewrite B, C1 in X. lia. }
  assert (CN : bump = false -> ceof = p_content_eof p).
  { intro B. unfold ceof. rewrite B. exact C1. }
  destruct (p_prev_crlf p1 && starts_with (p_boundary p) line) eqn:BR.
  - (* looks like a delimiter line *)
    destruct (list_eqb _ _ || list_eqb _ _) eqn:EX.
    + inversion H; subst. left. reflexivity.
    + apply andb_true_iff in BR as [_ SW].
      assert (NE : line <> []).
      { intro L. pose proof (starts_with_nonempty _ _ SW L) as B0. subst line.
        rewrite B0 in EX. cbn in EX. discriminate. }
      apply lenN_pos_cons in NE.
      assert (Hd : d = line /\ p' = p_set_line ceof (ends_crlf line) p1 /\ s' = s1) by (inversion H; auto).
      destruct Hd as (-> & -> & ->). right.
      unfold rl_measure. cbn [p_unread p_set_line p_content_eof].
      destruct (s_at_eof s1); destruct (s_at_eof s); destruct bump; try (destruct (CE eq_refl)); try (pose proof (CN eq_refl)); lia.
  - (* ordinary line: peek the next one *)
    destruct (s_readline 0 s1) as [[nl|] s2] eqn:R2; [|discriminate].
    apply s_readline_total in R2 as [T2 Z2].
    assert (Hd : p' = p_set_unread (p_unread (p_set_line ceof (ends_crlf line) p1) ++ [nl]) (p_set_line ceof (ends_crlf line) p1) /\ s' = s2)
      by (inversion H; auto).
    destruct Hd as (-> & ->). clear H. right.
    unfold rl_measure. cbn [p_unread p_set_unread p_set_line p_content_eof]. rewrite unread_len_app. cbn [unread_len].
    destruct (N.eq_dec (lenN line + lenN nl) 0) as [Z0|NZ].
    + (* nothing arrived at all: the stream is at EOF now; either this was counted or the stream was not at EOF before *)
      assert (L0 : line = []) by (apply lenN_zero_nil; lia). assert (N0 : nl = []) by (apply lenN_zero_nil; lia).
      rewrite (Z2 N0). rewrite L0, N0, lenN_nil0 in *.
      destruct (s_at_eof s1) eqn:A1.
      * assert (B : bump = true) by (unfold bump; rewrite ?L0, ?A1; reflexivity).
        destruct (CE B) as [C2 C3]. destruct (s_at_eof s); lia.
      * destruct (Z1 eq_refl eq_refl) as [-> A0]. rewrite A0.
        assert (B : bump = false) by (unfold bump; rewrite ?A1, ?andb_false_r; reflexivity).
        rewrite (CN B). lia.
    + destruct (s_at_eof s2); destruct (s_at_eof s); destruct bump; try (destruct (CE eq_refl)); try (pose proof (CN eq_refl)); lia.
Qed.

Lemma part_readline_no_fuel p s : part_readline p s <> Err EFuel.
Proof.
  unfold part_readline. destruct (p_at_eof p); [discriminate|].
  destruct (match p_unread p with [] => _ | l :: u => _ end) as [[[line p1] s1]|e] eqn:S.
  - destruct (_ && content_eof_exceeded _); [discriminate|].
    destruct (p_prev_crlf p1 && _).
    + destruct (_ || _); discriminate.
    + destruct (s_readline 0 s1) as [[nl|] s2]; discriminate.
  - destruct (p_unread p); [|discriminate]. destruct (s_readline 0 s) as [[l|] s0]; [discriminate|].
    inversion S; subst. discriminate.
Qed.

Lemma lines_loop_eq fuel count bounded acc p s :
  lines_loop fuel count bounded acc p s =
  if p_at_eof p || (bounded && (count =? 0)) then Ok (acc, p, s) else
  match fuel with
  | O => Err EFuel
  | S f => match part_readline p s with
           | Err e => Err e
           | Ok (d, p', s') => lines_loop f (count - 1) bounded (acc ++ d) p' s'
           end
  end.
Proof. destruct fuel; reflexivity. Qed.

Theorem lines_loop_terminates fuel : forall count bounded acc p s,
  (N.to_nat (rl_measure p s) < fuel)%nat -> lines_loop fuel count bounded acc p s <> Err EFuel.
Proof.
  induction fuel as [|f IH]; intros count bounded acc p s Hf; [lia|].
  rewrite lines_loop_eq. destruct (p_at_eof p) eqn:E; [discriminate|]. cbn [orb].
  destruct (bounded && (count =? 0)); [discriminate|].
  destruct (part_readline p s) as [[[d p'] s']|e] eqn:R.
  - destruct (part_readline_progress _ _ _ _ _ E R) as [E'|M].
    + rewrite lines_loop_eq, E'. discriminate.
    + apply IH. lia.
  - intro X; inversion X; subst. exact (part_readline_no_fuel _ _ R).
Qed.
