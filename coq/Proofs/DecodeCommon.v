(* C09: shared by the bounded-memory and the progress developments (so that they compile in parallel). *)
From AV Require Import Lib.Base Generated.DecodeGen Model.Decode.
From Coq Require Import ZifyBool ZifyN.
Ltac Zify.zify_post_hook ::= Z.to_euclidean_division_equations.
Open Scope N_scope.

Arguments cf {H} s. Arguments pr {H} s. Arguments pa {H} s. Arguments de {H} s. Arguments re {H} s. Arguments fed {H} s.
Arguments comp {H} d. Arguments d_enc {H} d. Arguments d_h {H} d. Arguments d_size {H} d. Arguments d_started {H} d.
Arguments core {H} s. Arguments pend {H} s.
Arguments BNext {H} s chunk. Arguments BCont {H} s chunk. Arguments BRet {H} s r.

Lemma lenN_concat_snoc (l : list bytes) (x : bytes) : lenN (concat (l ++ [x])) = lenN (concat l) + lenN x.
Proof. rewrite concat_app, lenN_app. cbn [concat]. rewrite app_nil_r. reflexivity. Qed.

Lemma lenN_firstn_skipn (n : nat) (l : bytes) : lenN (firstn n l) + lenN (skipn n l) = lenN l.
Proof. rewrite <- lenN_app, firstn_skipn. reflexivity. Qed.

Lemma take_drop_len (k : N) (l : bytes) : lenN (take k l) + lenN (drop k l) = lenN l.
Proof. unfold take, drop. destruct (lenN l <=? k); [cbn; lia|apply lenN_firstn_skipn]. Qed.

Section Common.
  Variable H : Type.
  Variable hnew : N -> H.
  Variable hstep : H -> bytes -> N -> option (option (H * bytes)).
  Variable havail : H -> bool.

  (* payload.feed_data never raises a framing error *)
  Lemma db_feed_err s chunk s' e : db_feed H hnew hstep havail s chunk = (s', FErr e) -> is_framing e = false.
  Proof.
    unfold db_feed. destruct (negb (comp (de (set_fed H s (fed s ++ chunk))))).
    - destruct (rd_feed H _ chunk); intros [= <- <-]; reflexivity.
    - match goal with |- context [hstep ?a ?b ?m] => destruct (hstep a b m) as [[[h2 out]|]|] end; try (intros [= <- <-]; reflexivity).
      destruct (isnil out); [discriminate|]. destruct (rd_feed H _ out); [discriminate|]. intros [= <- <-]; reflexivity.
  Qed.
End Common.
