(* C13 — once the session is closed and no close() is in progress, the transport is closed.
   Invariant over all reachable states, both sides (since fix 6837d66 the server's cancelled
   `await self._close_wait` closes the transport too; the ghost flag cw_leak is never set). *)
From Coq Require Import List NArith Bool Arith Lia.
Import ListNotations.
From AV Require Import Generated.WsSessionGen Model.WsSession.
Open Scope N_scope.

Section Tr.
Variable c : config.

(* a task that is inside close() after the closed flag was set *)
Definition closer (p : pc) : bool :=
  match p with
  | PCloseRead _ => true
  | PCloseCW _ _ => match c_side c with Server => true | Client => false end
  | _ => false
  end.

Definition pc_of (s : state) (x : nat) : pc := t_pc (tasks s x).

Lemma in_app_single {A} (x y : A) l : In x (l ++ [y]) -> In x l \/ x = y.
Proof. intros H. apply in_app_or in H. destruct H as [H|[H|[]]]; auto. Qed.
Lemma filter_in_conn l : In RConnLost (filter not_flush l) -> In RConnLost l.
Proof. intros H. apply filter_In in H. tauto. Qed.


(* what a piece of code run by task t may change, as far as this invariant is concerned *)
Definition frame_tr (t : nat) (s s' : state) : Prop :=
  (tr_closing s = true -> tr_closing s' = true) /\
  (cw_leak s = true -> cw_leak s' = true) /\
  (forall x, x <> t -> pc_of s' x = pc_of s x) /\
  lost s' = lost s /\
  (In RConnLost (ready s') -> In RConnLost (ready s) \/ tr_closing s' = true) /\
  (closed s = true -> closed s' = true) /\
  (c_side c = Server -> close_wait s' = close_wait s \/ closed s' = true) /\
  cw_leak s' = cw_leak s.

Lemma frame_refl t s : frame_tr t s s.
Proof. unfold frame_tr. repeat split; auto. Qed.

Lemma frame_trans t s1 s2 s3 : frame_tr t s1 s2 -> frame_tr t s2 s3 -> frame_tr t s1 s3.
Proof.
  unfold frame_tr. intros (A1 & A2 & A3 & A4 & A5 & A6 & A7 & A8) (B1 & B2 & B3 & B4 & B5 & B6 & B7 & B8).
  repeat split; auto.
  - intros x Hx. rewrite B3, A3; auto.
  - congruence.
  - intros H. destruct (B5 H) as [H'|H']; [|auto]. destruct (A5 H') as [H''|H'']; auto.
  - intros Hs. destruct (B7 Hs) as [B7'|B7']; [|auto]. destruct (A7 Hs) as [A7'|A7']; [left; congruence|right; auto].
  - rewrite B8, A8. reflexivity.
Qed.

Ltac fr_simple :=
  try match goal with |- frame_tr ?t ?s _ => tryif is_var s then idtac else (let x := fresh "x" in generalize s; intro x) end;
  unfold frame_tr, pc_of; repeat split; cbn; intros; auto;
  try match goal with |- context [Nat.eqb ?x ?t] => destruct (Nat.eqb_spec x t); [congruence|reflexivity] end;
  try congruence.

Lemma fr_upd_task s t f : (forall k, t_pc (f k) = t_pc k) -> forall t0, frame_tr t0 s (upd_task s t f).
Proof.
  intros Hf t0. unfold frame_tr, pc_of. repeat split; intros; cbn in *; auto.
  destruct (Nat.eqb x t); [apply Hf|reflexivity].
Qed.
Lemma fr_upd_task_self s t f : frame_tr t s (upd_task s t f).
Proof. fr_simple. Qed.
Lemma fr_enq s r t0 : r <> RConnLost -> frame_tr t0 s (enq s r).
Proof. intros Hr. fr_simple. apply in_app_single in H. destruct H; [auto|congruence]. Qed.
Lemma fr_fut_done s t r t0 : frame_tr t0 s (fut_done s t r).
Proof.
  unfold fut_done. destruct (t_fut (tasks s t)); [apply frame_refl|].
  eapply frame_trans; [|apply fr_enq; discriminate]. apply fr_upd_task. reflexivity.
Qed.
Lemma fr_finish s t r : frame_tr t s (finish s t r). Proof. apply fr_upd_task_self. Qed.
Lemma fr_suspend s t p d : frame_tr t s (suspend s t p d). Proof. apply fr_upd_task_self. Qed.
Lemma fr_release_waiter s t0 : frame_tr t0 s (release_waiter s).
Proof.
  unfold release_waiter. destruct (q_waiter s); [|apply frame_refl].
  eapply frame_trans; [|apply fr_fut_done]. fr_simple.
Qed.
Lemma fr_feed_data s m t0 : frame_tr t0 s (feed_data s m).
Proof. unfold feed_data. eapply frame_trans; [|apply fr_release_waiter]. fr_simple. Qed.

Lemma fr_cancel_heartbeat s t0 : frame_tr t0 s (cancel_heartbeat s).
Proof. fr_simple. left. apply filter_in_conn. assumption. Qed.
Lemma fr_mark_closed s t0 : frame_tr t0 s (mark_closed s).
Proof. unfold mark_closed. eapply frame_trans; [|apply fr_cancel_heartbeat]. fr_simple. Qed.
Lemma fr_mark_closing s t0 : frame_tr t0 s (mark_closing s).
Proof. unfold mark_closing. eapply frame_trans; [|apply fr_cancel_heartbeat]. fr_simple. Qed.
Lemma fr_send_frame s f t0 : frame_tr t0 s (fst (send_frame s f)).
Proof. unfold send_frame. destruct (_ && _); [apply frame_refl|]. destruct (tr_closing s); [apply frame_refl|]. fr_simple. Qed.
Lemma fr_writer_close s code t0 : frame_tr t0 s (fst (writer_close s code)).
Proof.
  unfold writer_close. eapply frame_trans; [|apply fr_send_frame]. fr_simple.
Qed.
Lemma fr_transport_close s t0 : frame_tr t0 s (transport_close s).
Proof.
  unfold transport_close. destruct (tr_closing s) eqn:E; [apply frame_refl|].
  unfold frame_tr, pc_of. repeat split; intros; cbn in *; auto.
Qed.
Lemma fr_close_transport s t0 : frame_tr t0 s (close_transport c s).
Proof.
  unfold close_transport. destruct (c_side c); [destruct (lost s); [apply frame_refl|]|]; apply fr_transport_close.
Qed.
Lemma fr_abnormal s t0 : frame_tr t0 s (abnormal c s).
Proof. unfold abnormal. eapply frame_trans; [|apply fr_close_transport]. fr_simple. Qed.
Lemma fr_close_ret s t k b : frame_tr t s (close_ret s t k b).
Proof.
  unfold close_ret. destruct k; [apply fr_finish|]. eapply frame_trans; [|apply fr_finish].
  destruct (ph && negb b); [fr_simple|apply frame_refl].
Qed.
Lemma fr_close_exc s t k : frame_tr t s (close_exc c s t k).
Proof.
  unfold close_exc. eapply frame_trans; [|apply fr_close_ret]. eapply frame_trans; [|apply fr_abnormal]. fr_simple.
Qed.

(* ---- the invariant -------------------------------------------------------------------------- *)
Definition good (s : state) : Prop :=
  tr_closing s = true \/ cw_leak s = true \/ exists x, closer (pc_of s x) = true.
Definition good_at (t : nat) (s : state) : Prop :=
  tr_closing s = true \/ cw_leak s = true \/ closer (pc_of s t) = true.

Record Inv_tr (s : state) : Prop := {
  inv_lost : lost s = true -> tr_closing s = true;
  inv_queued : In RConnLost (ready s) -> tr_closing s = true;
  inv_cw : c_side c = Server -> closed s = false -> close_wait s = None;
  inv_closed : closed s = true -> good s;
  inv_leak : cw_leak s = false
}.

Lemma good_at_good t s : good_at t s -> good s.
Proof. unfold good_at, good. intros [H|[H|H]]; eauto. Qed.

(* how the invariant moves along a framed step of task t *)
Lemma inv_step t s s' :
  Inv_tr s -> frame_tr t s s' ->
  (closed s' = true -> closed s = false \/ closer (pc_of s t) = true -> good_at t s') ->
  Inv_tr s'.
Proof.
  intros [I1 I2 I3 I4 I5] (F1 & F2 & F3 & F4 & F5 & F6 & F7 & F8) G. constructor; [| | | |rewrite F8; auto].
  - rewrite F4. auto.
  - intros H. destruct (F5 H); auto.
  - intros Hs Hc. destruct (F7 Hs) as [F7'|F7']; [|congruence]. rewrite F7'. apply I3; auto.
    destruct (closed s) eqn:E; auto. rewrite F6 in Hc; auto.
  - intros Hc. destruct (closed s) eqn:E.
    + destruct (I4 eq_refl) as [H|[H|[x H]]].
      * left. auto.
      * right. left. auto.
      * destruct (Nat.eq_dec x t) as [->|Hx].
        -- apply (good_at_good t). apply G; auto.
        -- right. right. exists x. rewrite F3; auto.
    + apply (good_at_good t). apply G; auto.
Qed.

(* transport closed after close_transport, given the invariant's lost -> tr_closing *)
Lemma close_transport_closes s : (lost s = true -> tr_closing s = true) -> tr_closing (close_transport c s) = true.
Proof.
  intros H. unfold close_transport, transport_close.
  destruct (c_side c); [destruct (lost s) eqn:E; [auto|]|]; destruct (tr_closing s) eqn:E'; auto.
Qed.
Lemma abnormal_closes s : (lost s = true -> tr_closing s = true) -> tr_closing (abnormal c s) = true.
Proof. intros H. unfold abnormal. apply close_transport_closes. exact H. Qed.

Lemma trc_finish s t r : tr_closing (finish s t r) = tr_closing s. Proof. reflexivity. Qed.
Lemma trc_close_ret s t k b : tr_closing (close_ret s t k b) = tr_closing s.
Proof. unfold close_ret. destruct k; [reflexivity|]. destruct (ph && negb b); reflexivity. Qed.
Lemma close_exc_closes s t k : (lost s = true -> tr_closing s = true) -> tr_closing (close_exc c s t k) = true.
Proof. intros H. unfold close_exc. rewrite trc_close_ret. apply abnormal_closes. exact H. Qed.

(* lost -> tr_closing is stable along frames *)
Definition lost_ok (s : state) : Prop := lost s = true -> tr_closing s = true.
Lemma lost_ok_frame t s s' : lost_ok s -> frame_tr t s s' -> lost_ok s'.
Proof. unfold lost_ok. intros H (F1 & _ & _ & F4 & _) Hl. rewrite F4 in Hl. auto. Qed.

Lemma closed_fut_done s t r : closed (fut_done s t r) = closed s.
Proof. unfold fut_done. destruct (t_fut _); reflexivity. Qed.
Lemma closed_feed_data s m : closed (feed_data s m) = closed s.
Proof. unfold feed_data, release_waiter. destruct (q_waiter _); [rewrite closed_fut_done|]; reflexivity. Qed.
Lemma closed_suspend s t p d : closed (suspend s t p d) = closed s. Proof. reflexivity. Qed.

(* ---- close(): frames and outcome ------------------------------------------------------------ *)
Lemma pc_suspend s t p d : pc_of (suspend s t p d) t = p.
Proof. unfold pc_of, suspend, upd_task. cbn. rewrite Nat.eqb_refl. reflexivity. Qed.

Lemma close_read_loop_spec buf : forall s t k d,
  lost_ok s -> frame_tr t s (close_read_loop c buf s t k d) /\ good_at t (close_read_loop c buf s t k d).
Proof.
  induction buf as [|m rest IH]; intros s t k d L; cbn [close_read_loop].
  - destruct (q_eof s).
    { split; [apply fr_close_exc|left; apply close_exc_closes; exact L]. }
    destruct (q_waiter s).
    { split; [apply fr_close_exc|left; apply close_exc_closes; exact L]. }
    split.
    + eapply frame_trans; [|apply fr_suspend]. fr_simple.
    + right. right. rewrite pc_suspend. reflexivity.
  - cbn zeta.
    assert (F0 : frame_tr t s (set_q_buf s rest)) by fr_simple.
    assert (L0 : lost_ok (set_q_buf s rest)) by exact L.
    destruct m;
      try (destruct (IH (set_q_buf s rest) t k (next_deadline c (set_q_buf s rest) d) L0) as [F G];
           split; [eapply frame_trans; [exact F0|exact F]|exact G]).
    split.
    + eapply frame_trans; [exact F0|]. eapply frame_trans; [|apply fr_close_ret].
      eapply frame_trans; [|apply fr_close_transport]. fr_simple.
    + left. rewrite trc_close_ret. apply close_transport_closes. exact L.
Qed.

Lemma close_read_resume_spec s t k d :
  lost_ok s -> frame_tr t s (close_read_resume c s t k d) /\ good_at t (close_read_resume c s t k d).
Proof.
  intros L. unfold close_read_resume. destruct (q_buf s) eqn:E.
  - destruct (c_side c); [split; [apply fr_close_exc|left; apply close_exc_closes; exact L]|].
    destruct (_ && _); [|split; [apply fr_close_exc|left; apply close_exc_closes; exact L]].
    split; [eapply frame_trans; [apply fr_close_transport|apply fr_close_ret]|].
    left. rewrite trc_close_ret. apply close_transport_closes. exact L.
  - rewrite <- E. apply close_read_loop_spec. exact L.
Qed.

Lemma server_close_tail_spec s t k :
  lost_ok s -> frame_tr t s (server_close_tail c s t k) /\ good_at t (server_close_tail c s t k).
Proof.
  intros L. unfold server_close_tail. destruct (closing s).
  - split.
    + eapply frame_trans; [apply fr_close_transport|apply fr_close_ret].
    + left. rewrite trc_close_ret. apply close_transport_closes. exact L.
  - apply close_read_loop_spec. exact L.
Qed.

(* frames of a close that finds the session closed already keep `closed`; otherwise the result is good *)
Lemma client_close_body_spec s t k code :
  lost_ok s ->
  frame_tr t s (client_close_body c s t k code) /\
  (closed s = false -> good_at t (client_close_body c s t k code)).
Proof.
  intros L. unfold client_close_body. destruct (closed s) eqn:Ec.
  { split; [apply fr_close_ret|discriminate]. }
  pose proof (fr_writer_close (mark_closed s) code t) as F1.
  assert (F0 : frame_tr t s (mark_closed s)) by apply fr_mark_closed.
  destruct (writer_close (mark_closed s) code) as [s1 raised]. cbn [fst] in F1.
  assert (F : frame_tr t s s1) by (eapply frame_trans; eassumption).
  assert (L1 : lost_ok s1) by (eapply (lost_ok_frame t); eassumption).
  destruct raised.
  { split; [eapply frame_trans; [exact F|apply fr_close_exc]|intros _; left; apply close_exc_closes; exact L1]. }
  destruct (truthy_code _).
  - split.
    + eapply frame_trans; [exact F|]. eapply frame_trans; [|apply fr_close_ret].
      eapply frame_trans; [|apply fr_close_transport]. destruct k as [|m ph]; [apply frame_refl|destruct ph; [fr_simple|apply frame_refl]].
    + intros _. left. rewrite trc_close_ret. apply close_transport_closes.
      destruct k as [|m ph]; [exact L1|destruct ph; exact L1].
  - destruct (close_read_loop_spec (q_buf s1) s1 t k (now s1 + c_close_tmo c) L1) as [F2 G].
    split; [eapply frame_trans; eassumption|intros _; exact G].
Qed.

Lemma close_entry_spec s t k code :
  lost_ok s -> (c_side c = Server -> closed s = false -> close_wait s = None) ->
  frame_tr t s (close_entry c s t k code) /\
  (closed s = false -> closed (close_entry c s t k code) = true -> good_at t (close_entry c s t k code)).
Proof.
  intros L B. unfold close_entry. destruct (c_side c) eqn:Es.
  - destruct (closed s) eqn:Ec.
    { split; [apply fr_close_ret|discriminate]. }
    pose proof (fr_writer_close (mark_closed s) code t) as F1.
    assert (F0 : frame_tr t s (mark_closed s)) by apply fr_mark_closed.
    assert (Hcw : close_wait (fst (writer_close (mark_closed s) code)) = None).
    { unfold writer_close, send_frame. destruct (_ && _); [|destruct (tr_closing _)]; cbn; apply B; auto. }
    destruct (writer_close (mark_closed s) code) as [s1 raised]. cbn [fst] in F1, Hcw.
    assert (F : frame_tr t s s1) by (eapply frame_trans; eassumption).
    assert (L1 : lost_ok s1) by (eapply (lost_ok_frame t); eassumption).
    destruct raised.
    { split; [eapply frame_trans; [exact F|apply fr_close_exc]|intros _ _; left; apply close_exc_closes; exact L1]. }
    destruct (waiting s1).
    + rewrite Hcw. split.
      * eapply frame_trans; [exact F|]. eapply frame_trans; [|apply fr_suspend].
        eapply frame_trans; [|apply fr_feed_data]. unfold frame_tr, pc_of. repeat split; intros; cbn in *; auto.
        right. destruct F1 as (_ & _ & _ & _ & _ & F6' & _). apply F6'. reflexivity.
      * intros _ _. right. right. rewrite pc_suspend. cbn. rewrite Es. reflexivity.
    + destruct (server_close_tail_spec s1 t k L1) as [F2 G].
      split; [eapply frame_trans; eassumption|intros _ _; exact G].
  - destruct (waiting s && negb (closing s)).
    + split.
      * eapply frame_trans; [|apply fr_suspend]. eapply frame_trans; [|apply fr_feed_data].
        eapply frame_trans; [|apply fr_mark_closing].
        unfold frame_tr, pc_of. repeat split; intros; cbn in *; auto. congruence.
      * intros Hc Hc'. exfalso. rewrite closed_suspend, closed_feed_data in Hc'. cbn in Hc'. congruence.
    + destruct (client_close_body_spec s t k code L) as [F G]. split; [exact F|intros H _; exact (G H)].
Qed.

(* ---- receive() --------------------------------------------------------------------------------- *)
Definition cwB (s : state) : Prop := c_side c = Server -> closed s = false -> close_wait s = None.
Lemma cwB_frame t s s' : cwB s -> frame_tr t s s' -> cwB s'.
Proof.
  unfold cwB. intros H (_ & _ & _ & _ & _ & F6 & F7 & _) Hs Hc.
  destruct (F7 Hs) as [E|E]; [|congruence]. rewrite E. apply H; auto.
  destruct (closed s) eqn:Ec; auto. rewrite F6 in Hc; auto.
Qed.

Definition tr_spec (t : nat) (s s' : state) : Prop :=
  frame_tr t s s' /\ (closed s = false -> closed s' = true -> good_at t s').
Lemma tr_spec_same t s s' : frame_tr t s s' -> closed s' = closed s -> tr_spec t s s'.
Proof. intros F E. split; [exact F|]. intros H1 H2. congruence. Qed.
(* first a part that leaves `closed` alone, then a part with a spec *)
Lemma tr_spec_pre t s s1 s' : frame_tr t s s1 -> closed s1 = closed s -> tr_spec t s1 s' -> tr_spec t s s'.
Proof.
  intros F E [F' G]. split; [eapply frame_trans; eassumption|]. intros H1 H2. apply G; congruence.
Qed.

Lemma fr_recv_finally s t0 : frame_tr t0 s (recv_finally s).
Proof.
  unfold recv_finally. cbn zeta. destruct (close_wait _).
  - destruct (is_close_cw _).
    + eapply frame_trans; [|apply fr_fut_done]. fr_simple.
    + fr_simple.
  - fr_simple.
Qed.
Lemma closed_recv_finally s : closed (recv_finally s) = closed s.
Proof. unfold recv_finally. cbn zeta. destruct (close_wait _); [destruct (is_close_cw _); [rewrite closed_fut_done|]|]; reflexivity. Qed.
Lemma closed_send_frame s f : closed (fst (send_frame s f)) = closed s.
Proof. unfold send_frame. destruct (_ && _); [|destruct (tr_closing s)]; reflexivity. Qed.

Lemma close_entry_tr_spec s t k code : lost_ok s -> cwB s -> tr_spec t s (close_entry c s t k code).
Proof. intros L B. destruct (close_entry_spec s t k code L B) as [F G]. split; assumption. Qed.

Lemma recv_handle_spec s t r :
  lost_ok s -> cwB s ->
  match recv_handle c s t r with
  | Stop s' => tr_spec t s s'
  | Cont s' => frame_tr t s s' /\ closed s' = closed s
  end.
Proof.
  intros L B. unfold recv_handle. destruct r as [m|code| | |].
  - destruct m.
    + apply tr_spec_same; [apply fr_finish|reflexivity].
    + destruct (c_autoping c); [|apply tr_spec_same; [apply fr_finish|reflexivity]].
      pose proof (fr_send_frame s FPong t) as F. pose proof (closed_send_frame s FPong) as E.
      destruct (send_frame s FPong) as [s1 raised]. cbn [fst] in *. destruct raised.
      * apply tr_spec_same; [eapply frame_trans; [exact F|apply fr_finish]|exact E].
      * split; assumption.
    + destruct (c_autoping c); [split; [apply frame_refl|reflexivity]|apply tr_spec_same; [apply fr_finish|reflexivity]].
    + set (s1 := set_close_code (mark_closing s) (Some code)).
      assert (F : frame_tr t s s1) by (unfold s1; eapply frame_trans; [apply fr_mark_closing|fr_simple]).
      assert (E : closed s1 = closed s) by reflexivity.
      destruct (_ && _).
      * eapply tr_spec_pre; [exact F|exact E|]. apply close_entry_tr_spec; [eapply (lost_ok_frame t); [exact L|exact F]|eapply (cwB_frame t); [exact B|exact F]].
      * apply tr_spec_same; [eapply frame_trans; [exact F|apply fr_finish]|exact E].
    + apply tr_spec_same; [|destruct (c_side c); [destruct (closed s) eqn:E; cbn; auto|reflexivity]].
      eapply frame_trans; [|apply fr_finish]. destruct (c_side c).
      * destruct (closed s); [apply frame_refl|]. eapply frame_trans; [apply fr_mark_closing|fr_simple].
      * apply fr_mark_closing.
    + apply tr_spec_same; [apply fr_finish|reflexivity].
    + apply tr_spec_same; [apply fr_finish|reflexivity].
  - match goal with |- tr_spec t s (close_entry c ?X t _ _) =>
      eapply (tr_spec_pre t s X);
        [destruct (c_side c); [destruct (closed s)|]; try apply frame_refl; fr_simple
        |destruct (c_side c); [destruct (closed s) eqn:E; cbn; auto|reflexivity]|] end.
    apply close_entry_tr_spec; (destruct (c_side c); [destruct (closed s)|]); assumption.
  - match goal with |- tr_spec t s (close_entry c ?X t _ _) =>
      eapply (tr_spec_pre t s X);
        [destruct (closed s); try apply frame_refl; fr_simple|destruct (closed s) eqn:E; cbn; auto|] end.
    apply close_entry_tr_spec; destruct (closed s); assumption.
  - apply tr_spec_same; [|destruct (c_side c); reflexivity].
    eapply frame_trans; [|apply fr_finish]. destruct (c_side c); [apply frame_refl|fr_simple].
  - apply tr_spec_same; [|destruct (c_side c); reflexivity].
    eapply frame_trans; [|apply fr_finish]. destruct (c_side c); [apply frame_refl|fr_simple].
Qed.

Lemma recv_loop_spec buf : forall s t, lost_ok s -> cwB s -> tr_spec t s (recv_loop c buf s t).
Proof.
  induction buf as [|m rest IH]; intros s t L B; cbn [recv_loop];
  (destruct (waiting s); [apply tr_spec_same; [apply fr_finish|reflexivity]|]);
  (destruct (closed s) eqn:Ec;
   [destruct (c_side c); [destruct (_ <=? _)|];
    (apply tr_spec_same; [eapply frame_trans; [|apply fr_finish]; fr_simple|reflexivity])|]);
  (destruct (closing s);
   [destruct (c_side c) eqn:Es; [apply tr_spec_same; [apply fr_finish|reflexivity]|apply close_entry_tr_spec; assumption]|]);
  cbn zeta.
  - destruct (q_eof _).
    + eapply tr_spec_pre with (s1 := recv_finally (set_waiting s true)).
      * eapply frame_trans; [|apply fr_recv_finally]. fr_simple.
      * rewrite closed_recv_finally. reflexivity.
      * assert (L1 : lost_ok (recv_finally (set_waiting s true))).
        { eapply (lost_ok_frame t); [exact L|]. eapply frame_trans; [|apply fr_recv_finally]. fr_simple. }
        assert (B1 : cwB (recv_finally (set_waiting s true))).
        { eapply (cwB_frame t); [exact B|]. eapply frame_trans; [|apply fr_recv_finally]. fr_simple. }
        match goal with |- context [recv_handle c ?s0 t ?r] => pose proof (recv_handle_spec s0 t r L1 B1) as H;
          destruct (recv_handle c s0 t r) end; cbn [stop_state]; [exact H|].
        destruct H as [F E]. apply tr_spec_same; assumption.
    + destruct (q_waiter _).
      * set (s1 := set_close_code (mark_closing (set_has_exc (recv_finally (set_waiting s true)) true)) (Some ws_close_abnormal)).
        assert (F : frame_tr t s s1).
        { unfold s1. eapply frame_trans with (s2 := recv_finally (set_waiting s true)).
          - eapply frame_trans; [|apply fr_recv_finally]. fr_simple.
          - eapply frame_trans with (s2 := mark_closing (set_has_exc (recv_finally (set_waiting s true)) true)).
            + eapply frame_trans; [|apply fr_mark_closing]. fr_simple.
            + fr_simple. }
        eapply tr_spec_pre; [exact F| |].
        { unfold s1. cbn. rewrite closed_recv_finally. reflexivity. }
        apply close_entry_tr_spec; [eapply (lost_ok_frame t); [exact L|exact F]|eapply (cwB_frame t); [exact B|exact F]].
      * apply tr_spec_same; [|reflexivity]. eapply frame_trans; [|apply fr_suspend]. fr_simple.
  - set (s0 := recv_finally (set_q_buf (set_waiting s true) rest)).
    assert (F0 : frame_tr t s s0).
    { unfold s0. eapply frame_trans; [|apply fr_recv_finally]. fr_simple. }
    assert (E0 : closed s0 = closed s) by (unfold s0; rewrite closed_recv_finally; reflexivity).
    assert (L0 : lost_ok s0) by (eapply (lost_ok_frame t); eassumption).
    assert (B0 : cwB s0) by (eapply (cwB_frame t); eassumption).
    pose proof (recv_handle_spec s0 t (RRMsg m) L0 B0) as H.
    destruct (recv_handle c s0 t (RRMsg m)) as [s'|s'].
    + eapply tr_spec_pre; eassumption.
    + destruct H as [F E]. eapply tr_spec_pre with (s1 := s').
      * eapply frame_trans; eassumption.
      * congruence.
      * apply IH; [exact (lost_ok_frame t s0 s' L0 F)|exact (cwB_frame t s0 s' B0 F)].
Qed.

Lemma start_op_spec s t o : lost_ok s -> cwB s -> tr_spec t s (start_op c s t o).
Proof.
  intros L B. destruct o; cbn [start_op].
  - apply recv_loop_spec; assumption.
  - apply close_entry_tr_spec; assumption.
  - match goal with |- context [send_frame s ?f] =>
      pose proof (fr_send_frame s f t) as F; pose proof (closed_send_frame s f) as E; destruct (send_frame s f) as [s1 raised] end.
    cbn [fst] in *. apply tr_spec_same; [eapply frame_trans; [exact F|apply fr_finish]|exact E].
Qed.

(* ---- one task step ------------------------------------------------------------------------------ *)
Definition wake_ok (t : nat) (s s' : state) : Prop :=
  frame_tr t s s' /\ (closed s' = true -> closed s = false \/ closer (pc_of s t) = true -> good_at t s').

Lemma wake_ok_refl t s : wake_ok t s s.
Proof.
  split; [apply frame_refl|]. intros Hc [H|H]; [congruence|]. right. right. exact H.
Qed.
Lemma wake_ok_spec t s s' : closer (pc_of s t) = false -> tr_spec t s s' -> wake_ok t s s'.
Proof. intros Hn [F G]. split; [exact F|]. intros Hc [H|H]; [auto|congruence]. Qed.
Lemma wake_ok_good t s s' : frame_tr t s s' -> good_at t s' -> wake_ok t s s'.
Proof. intros F G. split; auto. Qed.

Lemma run_wake_ok s t : lost_ok s -> cwB s -> wake_ok t s (run_wake c s t).
Proof.
  intros L B. unfold run_wake. cbn zeta. destruct (t_pc (tasks s t)) as [|o| |kk code|kk|r] eqn:Epc; try apply wake_ok_refl.
  - (* PStart *)
    assert (Hn : closer (pc_of s t) = false) by (unfold pc_of; rewrite Epc; reflexivity).
    destruct (t_cancel _).
    + apply wake_ok_spec; [exact Hn|]. apply tr_spec_same; [apply fr_finish|reflexivity].
    + apply wake_ok_spec; [exact Hn|]. apply start_op_spec; assumption.
  - (* PRecvWait *)
    assert (Hn : closer (pc_of s t) = false) by (unfold pc_of; rewrite Epc; reflexivity).
    destruct (t_fut _) as [fr|]; [|apply wake_ok_refl]. apply wake_ok_spec; [exact Hn|].
    match goal with |- context [let '(_, _) := ?X in _] =>
      assert (FX : frame_tr t s (fst X) /\ closed (fst X) = closed s); [|destruct X as [s1 r]] end.
    { destruct (was_cancelled _); [split; [fr_simple|reflexivity]|].
      destruct fr; try (split; [apply frame_refl|reflexivity]);
        (unfold read_from_buffer; destruct (q_buf s); [destruct (q_exc s)|]; cbn [fst]; split; try apply frame_refl; try reflexivity; fr_simple). }
    cbn [fst] in FX. destruct FX as [F1 E1].
    set (s0 := recv_finally s1).
    assert (F0 : frame_tr t s s0) by (unfold s0; eapply frame_trans; [exact F1|apply fr_recv_finally]).
    assert (E0 : closed s0 = closed s) by (unfold s0; rewrite closed_recv_finally; exact E1).
    assert (L0 : lost_ok s0) by (eapply (lost_ok_frame t); eassumption).
    assert (B0 : cwB s0) by (eapply (cwB_frame t); eassumption).
    pose proof (recv_handle_spec s0 t r L0 B0) as H.
    destruct (recv_handle c s0 t r) as [s'|s'].
    + eapply tr_spec_pre; eassumption.
    + destruct H as [F E]. eapply tr_spec_pre with (s1 := s').
      * eapply frame_trans; eassumption.
      * congruence.
      * apply recv_loop_spec; [exact (lost_ok_frame t s0 s' L0 F)|exact (cwB_frame t s0 s' B0 F)].
  - (* PCloseCW *)
    destruct (t_fut _); [|apply wake_ok_refl]. destruct (was_cancelled _).
    + destruct (c_side c) eqn:Es.
      * apply wake_ok_good; [eapply frame_trans; [apply fr_abnormal|apply fr_finish]|].
        left. rewrite trc_finish. apply abnormal_closes. exact L.
      * apply wake_ok_spec; [unfold pc_of; rewrite Epc; cbn; rewrite Es; reflexivity|].
        apply tr_spec_same; [apply fr_finish|reflexivity].
    + destruct (c_side c) eqn:Es.
      * destruct (server_close_tail_spec s t kk L) as [F G]. apply wake_ok_good; assumption.
      * apply wake_ok_spec; [unfold pc_of; rewrite Epc; cbn; rewrite Es; reflexivity|].
        destruct (client_close_body_spec s t kk code L) as [F G]. split; [exact F|]. intros H _. exact (G H).
  - (* PCloseRead *)
    destruct (t_fut _) as [fr|]; [|apply wake_ok_refl]. destruct (was_cancelled _).
    + assert (L1 : lost_ok (set_q_waiter s None)) by exact L.
      destruct (is_timeout _).
      * apply wake_ok_good; [eapply frame_trans; [|apply fr_close_exc]; fr_simple|].
        left. apply close_exc_closes. exact L1.
      * apply wake_ok_good.
        -- eapply frame_trans; [|apply fr_finish]. eapply frame_trans; [|apply fr_abnormal]. fr_simple.
        -- left. rewrite trc_finish. apply abnormal_closes. exact L1.
    + destruct fr.
      * destruct (close_read_resume_spec s t kk
                   (match t_tmo (tasks s t) with Some d => d | None => now s + c_close_tmo c end) L) as [F G].
        apply wake_ok_good; assumption.
      * apply wake_ok_good; [apply fr_close_exc|left; apply close_exc_closes; exact L].
      * destruct (close_read_resume_spec s t kk
                   (match t_tmo (tasks s t) with Some d => d | None => now s + c_close_tmo c end) L) as [F G].
        apply wake_ok_good; assumption.
Qed.

Lemma inv_lost_ok s : Inv_tr s -> lost_ok s. Proof. intros [H _ _ _ _]. exact H. Qed.
Lemma inv_cwB s : Inv_tr s -> cwB s. Proof. intros [_ _ H _ _]. exact H. Qed.

Lemma run_wake_inv s t : Inv_tr s -> Inv_tr (run_wake c s t).
Proof.
  intros I. destruct (run_wake_ok s t (inv_lost_ok s I) (inv_cwB s I)) as [F G].
  eapply inv_step; eassumption.
Qed.

(* ---- steps that are not a task ------------------------------------------------------------------- *)
(* a frame for every t0: no task changed its program counter *)
Lemma inv_step_all s s' :
  Inv_tr s -> (forall t0, frame_tr t0 s s') -> (closed s = false -> closed s' = true -> tr_closing s' = true) -> Inv_tr s'.
Proof.
  intros I F G. eapply inv_step with (t := O); [exact I|apply F|].
  intros Hc [H|H].
  - left. auto.
  - right. right. destruct (F 1%nat) as (_ & _ & F3 & _). rewrite F3; [exact H|discriminate].
Qed.

Lemma fr_ping_pong_exc s t0 : frame_tr t0 s (ping_pong_exc c s).
Proof.
  unfold ping_pong_exc. destruct (closed s); [apply frame_refl|]. cbn zeta.
  assert (F : frame_tr t0 s (set_has_exc (abnormal c (mark_closed s)) true)).
  { eapply frame_trans; [apply fr_mark_closed|]. eapply frame_trans; [apply fr_abnormal|]. fr_simple. }
  destruct (_ && _); [eapply frame_trans; [exact F|apply fr_feed_data]|exact F].
Qed.
Lemma trc_fut_done s t r : tr_closing (fut_done s t r) = tr_closing s.
Proof. unfold fut_done. destruct (t_fut _); reflexivity. Qed.
Lemma trc_feed_data s m : tr_closing (feed_data s m) = tr_closing s.
Proof. unfold feed_data, release_waiter. destruct (q_waiter _); [rewrite trc_fut_done|]; reflexivity. Qed.
Lemma ping_pong_exc_closes s : lost_ok s -> closed s = false -> tr_closing (ping_pong_exc c s) = true.
Proof.
  intros L Hc. unfold ping_pong_exc. rewrite Hc. cbn zeta.
  assert (H : tr_closing (set_has_exc (abnormal c (mark_closed s)) true) = true).
  { change (tr_closing (abnormal c (mark_closed s)) = true). apply abnormal_closes. exact L. }
  destruct (_ && _); [rewrite trc_feed_data|]; exact H.
Qed.
Lemma closed_ping_pong_noop s : closed s = true -> ping_pong_exc c s = s.
Proof. intros H. unfold ping_pong_exc. rewrite H. reflexivity. Qed.

Lemma ping_pong_exc_inv s : Inv_tr s -> Inv_tr (ping_pong_exc c s).
Proof.
  intros I. apply inv_step_all with (s := s); [exact I|intros; apply fr_ping_pong_exc|].
  intros Hc _. apply ping_pong_exc_closes; [apply inv_lost_ok; exact I|exact Hc].
Qed.

Lemma inv_same s s' : Inv_tr s -> (forall t0, frame_tr t0 s s') -> closed s' = closed s -> Inv_tr s'.
Proof. intros I F E. apply inv_step_all with (s := s); auto. intros. congruence. Qed.

Lemma run_timer_inv s k : Inv_tr s -> Inv_tr (run_timer c s k).
Proof.
  intros I. destruct k; cbn [run_timer].
  - destruct (due _ _); [|exact I]. unfold fire_hb. cbn zeta.
    assert (I0 : Inv_tr (set_hb_cb s None)) by (apply inv_same with (s := s); [exact I|intros; fr_simple|reflexivity]).
    destruct (need_reset _); [exact I0|]. destruct (_ <? _).
    { apply inv_same with (s := s); [exact I|intros; fr_simple|reflexivity]. }
    destruct (c_hb c); [|exact I0].
    match goal with |- context [send_frame ?s0 FPing] =>
      assert (I1 : Inv_tr (fst (send_frame s0 FPing)));
      [apply inv_same with (s := s); [exact I|intros; eapply frame_trans; [|apply fr_send_frame]; fr_simple|rewrite closed_send_frame; reflexivity]|];
      destruct (send_frame s0 FPing) as [s1 raised] end.
    cbn [fst] in I1. destruct raised; [apply ping_pong_exc_inv|]; exact I1.
  - destruct (due _ _); [|exact I]. unfold fire_pong. cbn zeta.
    assert (I0 : Inv_tr (set_pong_cb s None)) by (apply inv_same with (s := s); [exact I|intros; fr_simple|reflexivity]).
    destruct (c_side c); [destruct (lost _); [exact I0|]|]; apply ping_pong_exc_inv; exact I0.
  - destruct (due _ _); [|exact I]. unfold fire_task_timeout. cbn zeta.
    apply inv_same with (s := s); [exact I| |rewrite closed_fut_done; reflexivity].
    intros. eapply frame_trans; [|apply fr_fut_done]. apply fr_upd_task. reflexivity.
Qed.

Lemma fr_feed_eof s t0 : frame_tr t0 s (feed_eof s).
Proof.
  unfold feed_eof. eapply frame_trans with (s2 := release_waiter (set_q_eof s true)); [|fr_simple].
  eapply frame_trans; [|apply fr_release_waiter]. fr_simple.
Qed.
Lemma closed_release_waiter s : closed (release_waiter s) = closed s.
Proof. unfold release_waiter. destruct (q_waiter _); [rewrite closed_fut_done|]; reflexivity. Qed.

(* connection_lost: only ever runs when the transport is closing *)
Lemma conn_lost_inv s : Inv_tr s -> tr_closing s = true -> Inv_tr (conn_lost c s).
Proof.
  intros I T. unfold conn_lost. destruct (lost s); [exact I|].
  assert (I1 : Inv_tr (set_lost s true)).
  { destruct I as [I1 I2 I3 I4 I5]. constructor; cbn; auto. }
  destruct (c_side c).
  - apply inv_same with (s := set_lost s true); [exact I1|intros; apply fr_feed_eof|]. unfold feed_eof. cbn. rewrite closed_release_waiter. reflexivity.
  - destruct (proto_close _); [exact I1|].
    apply inv_same with (s := set_lost s true); [exact I1| |].
    + intros. eapply frame_trans; [apply fr_feed_eof|]. fr_simple.
    + cbn. unfold feed_eof. cbn. rewrite closed_release_waiter. reflexivity.
Qed.

Lemma fr_deliver s p t0 : frame_tr t0 s (deliver c s p).
Proof.
  unfold deliver. destruct (_ || _); [apply frame_refl|]. cbn zeta.
  assert (F : frame_tr t0 s (on_data_received c s)).
  { unfold on_data_received. destruct (c_hb c); [|apply frame_refl]. destruct (need_reset s); [apply frame_refl|].
    eapply frame_trans; [|apply fr_enq; discriminate]. fr_simple. }
  destruct (rd_exc _).
  - eapply frame_trans; [exact F|]. fr_simple.
  - destruct p.
    + eapply frame_trans; [exact F|]. eapply frame_trans; [|apply fr_feed_data]. destruct m; try apply frame_refl. fr_simple.
    + eapply frame_trans; [exact F|].
      eapply frame_trans with (s2 := q_set_exception (set_rd_exc (on_data_received c s) true) code); [|fr_simple].
      unfold q_set_exception. cbn zeta. destruct (q_waiter _).
      * eapply frame_trans; [|apply fr_fut_done]. fr_simple.
      * fr_simple.
Qed.
Lemma closed_on_data_received s : closed (on_data_received c s) = closed s.
Proof. unfold on_data_received. destruct (c_hb c); [destruct (need_reset s)|]; reflexivity. Qed.
Lemma closed_deliver s p : closed (deliver c s p) = closed s.
Proof.
  unfold deliver. destruct (_ || _); [reflexivity|]. cbn zeta. destruct (rd_exc _).
  - cbn. apply closed_on_data_received.
  - destruct p.
    + rewrite closed_feed_data. destruct m; cbn; apply closed_on_data_received.
    + cbn. unfold q_set_exception. cbn zeta. destruct (q_waiter _); [rewrite closed_fut_done|]; cbn; apply closed_on_data_received.
Qed.

Lemma fr_flush s t0 : frame_tr t0 s (flush_heartbeat c s).
Proof.
  unfold flush_heartbeat. destruct (need_reset s); [|apply frame_refl].
  eapply frame_trans with (s2 := reset_heartbeat c s); [|fr_simple].
  unfold reset_heartbeat. destruct (c_hb c); [|apply frame_refl]. cbn zeta. destruct (hb_cb _); fr_simple.
Qed.
Lemma closed_flush s : closed (flush_heartbeat c s) = closed s.
Proof.
  unfold flush_heartbeat. destruct (need_reset s); [|reflexivity]. cbn.
  unfold reset_heartbeat. destruct (c_hb c); [|reflexivity]. cbn zeta. destruct (hb_cb _); reflexivity.
Qed.

Lemma run_item_inv s r : Inv_tr s -> (r = RConnLost -> tr_closing s = true) -> Inv_tr (run_item c s r).
Proof.
  intros I T. destruct r; cbn [run_item].
  - apply run_wake_inv; exact I.
  - apply conn_lost_inv; auto.
  - apply inv_same with (s := s); [exact I|intros; apply fr_flush|apply closed_flush].
  - apply run_timer_inv; exact I.
  - apply inv_same with (s := s); [exact I|intros; apply fr_deliver|apply closed_deliver].
Qed.

Lemma closer_free k : task_free k = true -> closer (t_pc k) = false.
Proof. unfold task_free. destruct (t_pc k); try discriminate; reflexivity. Qed.

Lemma step_inv s e s' : Inv_tr s -> step c s e = Some s' -> Inv_tr s'.
Proof.
  intros I Hs. destruct e; cbn [step] in Hs.
  - destruct (Nat.ltb t ntasks && task_free (tasks s t)) eqn:E; inversion Hs; subst. apply andb_true_iff in E. destruct E as [_ E].
    eapply inv_step with (t := t); [exact I| |].
    + eapply frame_trans; [apply fr_upd_task_self|apply fr_enq; discriminate].
    + intros Hc [H|H]; [cbn in Hc; congruence|]. unfold pc_of in H. rewrite closer_free in H; [discriminate|exact E].
  - inversion Hs; subst. apply inv_same with (s := s); [exact I|intros; apply fr_deliver|apply closed_deliver].
  - inversion Hs; subst. apply inv_same with (s := s); [exact I|intros; apply fr_enq; discriminate|reflexivity].
  - inversion Hs; subst. destruct (tr_closing s) eqn:T; [exact I|].
    apply conn_lost_inv; [|reflexivity].
    destruct I as [I1 I2 I3 I4 I5]. constructor; cbn; auto. intros _. left. reflexivity.
  - destruct (Nat.ltb t ntasks); inversion Hs; subst. unfold cancel_task. cbn zeta.
    destruct (task_blocked _).
    + apply inv_same with (s := s); [exact I| |rewrite closed_fut_done; reflexivity].
      intros. eapply frame_trans; [|apply fr_fut_done]. apply fr_upd_task. reflexivity.
    + destruct (t_pc (tasks s t)); try exact I.
      apply inv_same with (s := s); [exact I| |reflexivity]. intros. apply fr_upd_task. reflexivity.
  - inversion Hs; subst. apply inv_same with (s := s); [exact I| |reflexivity].
    intros. unfold advance. fr_simple. apply in_app_or in H. destruct H as [H|H]; [auto|].
    apply in_map_iff in H. destruct H as (x & Hx & _). discriminate.
  - destruct (ready s) as [|r rest] eqn:E; inversion Hs; subst.
    assert (I0 : Inv_tr (set_ready s rest)).
    { apply inv_same with (s := s); [exact I| |reflexivity]. intros. fr_simple. left. rewrite E. right. assumption. }
    apply run_item_inv; [exact I0|]. intros ->. cbn. destruct I as [_ I2 _ _ _]. apply I2. rewrite E. left. reflexivity.
  - inversion Hs; subst. apply inv_same with (s := s); [exact I|intros; apply fr_transport_close|].
    unfold transport_close. destruct (tr_closing s); reflexivity.
Qed.

Lemma init_inv : Inv_tr (init c).
Proof.
  unfold init, reset_heartbeat. destruct (c_hb c); constructor; cbn; intros; try discriminate; try contradiction; auto.
Qed.

Theorem reach_inv_tr s : reach c s -> Inv_tr s.
Proof. induction 1; [apply init_inv|eapply step_inv; eauto]. Qed.

End Tr.

(* the session is closed and no task is inside close(): the transport is closed (both sides) *)
Theorem no_leak c s : reach c s -> cw_leak s = false.
Proof. intros R. destruct (reach_inv_tr c s R) as [_ _ _ _ I5]. exact I5. Qed.

Theorem closed_implies_transport_closed c s :
  reach c s -> closed s = true ->
  (forall t, closer c (t_pc (tasks s t)) = false) ->
  tr_closing s = true.
Proof.
  intros R Hc Hn. destruct (reach_inv_tr c s R) as [_ _ _ I4 I5].
  destruct (I4 Hc) as [H|[H|[x H]]]; [exact H|congruence|]. unfold pc_of in H. rewrite Hn in H. discriminate.
Qed.
