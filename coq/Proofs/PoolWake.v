(* C07 — no forgotten waiter (total limit only): while a live waiter is queued, the slots in use plus
   the wake-ups in flight cover the limit; so at quiescence (no wake-up in flight) a queued waiter
   means the capacity really is exhausted. *)
From AV Require Import Lib.Base Generated.PoolGen Model.Pool Proofs.PoolLimit Proofs.PoolCoh Proofs.PoolOwner Proofs.PoolConn.
Open Scope N_scope.

Definition has_live (s : state) : Prop := exists t k, In (t, k, false) (waiters s).

Definition wake_inv (c : cfg) (s : state) : Prop :=
  closed s = false -> has_live s ->
  (limit c <= Z.of_nat (length (acquired s)) + Z.of_nat (length (woken s)))%Z.

(* ---- counting ----------------------------------------------------------------------------------- *)

Lemma filter_notin_id {A} (f : A -> bool) l : (forall x, In x l -> f x = true) -> filter f l = l.
Proof.
  induction l as [|x l IH]; cbn [filter]; intro H; [reflexivity|].
  rewrite (H x (or_introl eq_refl)). f_equal. apply IH. intros y Hy. apply H. right. exact Hy.
Qed.

Lemma remove_length {A} (eqb : A -> A -> bool) (spec : forall a b, eqb a b = true <-> a = b) x l :
  NoDup l -> (length l <= S (length (filter (fun y => negb (eqb y x)) l)))%nat.
Proof.
  induction l as [|y l IH]; cbn [filter length]; intro H; [lia|].
  inversion H as [|? ? Hy Hl]; subst. destruct (eqb y x) eqn:E; cbn [negb length].
  - apply spec in E. subst y. rewrite filter_notin_id; [lia|].
    intros z Hz. destruct (eqb z x) eqn:E2; [|reflexivity]. apply spec in E2. subst z. contradiction.
  - specialize (IH Hl). lia.
Qed.

Lemma woken_remove_length (t : task) (l : list task) :
  NoDup l -> (length l <= S (length (filter (fun x => negb (N.eqb x t)) l)))%nat.
Proof. apply (remove_length N.eqb N.eqb_eq). Qed.

Lemma acq_remove_length sl l :
  NoDup l -> (length l <= S (length (filter (fun x => negb (slot_eqb x sl)) l)))%nat.
Proof. apply (remove_length slot_eqb slot_eqb_eq). Qed.

(* ---- with no per-host limit the capacity is the same for every key ------------------------------ *)

Lemma avail_indep l a h h' : available_connections l 0 a h = available_connections l 0 a h'.
Proof. formula. Qed.

Lemma avail_key c s k k' : lph c = 0%Z -> avail c s k = avail c s k'.
Proof. intro H. unfold avail. rewrite H. apply avail_indep. Qed.

(* ---- _release_waiter wakes a live waiter when there is one and capacity is positive -------------- *)

Lemma release_loop_idle_noop c order : forall s,
  (forall k, release_skips_key (avail c s k) = true) -> release_loop c s order = s.
Proof.
  induction order as [|k r IH]; intros s H; cbn [release_loop]; [reflexivity|].
  rewrite H. apply IH. exact H.
Qed.

Lemma release_loop_wakes c order : forall s,
  (forall k, release_skips_key (avail c s k) = false) ->
  (exists t, woken (release_loop c s order) = t :: woken s) \/
  (woken (release_loop c s order) = woken s /\
   forall t k, In k order -> ~ In (t, k, false) (waiters (release_loop c s order))).
Proof.
  induction order as [|k r IH]; intros s H; cbn [release_loop].
  - right. split; [reflexivity|]. intros t k [].
  - rewrite H. destruct (wake_key k (waiters s)) as [w' [t|]] eqn:E.
    + left. exists t. reflexivity.
    + destruct (IH (with_waiters s w')) as [(t & X)|(X & Y)].
      * intro k'. exact (H k').
      * left. exists t. exact X.
      * right. split; [exact X|]. intros t k' [<-|Hin]; [|apply Y; exact Hin].
        intro Z. apply release_loop_waiters_sub in Z. cbn [with_waiters waiters] in Z.
        apply (wake_key_sub _ _ _ _ E) in Z. exact (wake_key_none _ _ _ E t Z).
Qed.

Lemma covers_spec order w x : covers order w = true -> In x w -> In (snd (fst x)) order.
Proof.
  unfold covers. intros H Hin. rewrite forallb_forall in H. apply memN_In. apply H. exact Hin.
Qed.

(* the effect of _release_waiter on the quantities of the invariant *)
Lemma release_waiter_effect c s order s' :
  lph c = 0%Z -> (0 < limit c)%Z ->
  release_waiter c s order = Some s' ->
  acquired s' = acquired s /\
  (has_live s' -> has_live s) /\
  ((limit c <= Z.of_nat (length (acquired s)))%Z \/
   (has_live s' -> length (woken s') = S (length (woken s)))).
Proof.
  intros Hl HL H. unfold release_waiter in H. destruct (covers order (waiters s)) eqn:Ecov; [|discriminate].
  injection H as <-. destruct (release_loop_frame c order s) as (A & _).
  split; [exact A|]. split.
  { intros (t & k & X). exists t, k. eapply release_loop_waiters_sub; eauto. }
  destruct (release_skips_key (avail c s 0)) eqn:Es.
  - left. apply skips_true in Es. unfold avail in Es. rewrite Hl in Es.
    apply avail_total_only_nonpos in Es; [exact Es|exact HL].
  - right. intros (t & k & X).
    destruct (release_loop_wakes c order s) as [(t' & Y)|(_ & Y)].
    + intro k'. rewrite (avail_key c s k' 0 Hl). exact Es.
    + rewrite Y. reflexivity.
    + exfalso. apply (Y t k); [|exact X].
      pose proof (release_loop_waiters_sub _ _ _ _ X) as X0.
      exact (covers_spec order (waiters s) (t, k, false) Ecov X0).
Qed.

(* ---- the step ------------------------------------------------------------------------------------ *)

Lemma wake_same c s s' :
  acquired s' = acquired s -> woken s' = woken s -> closed s' = closed s ->
  (has_live s' -> has_live s) -> wake_inv c s -> wake_inv c s'.
Proof.
  unfold wake_inv. intros -> -> -> Hl W Hc Hlive. apply W; [exact Hc|apply Hl; exact Hlive].
Qed.

Lemma proceed_wake c s t k n :
  closed s = false ->
  (has_live s -> (limit c <= Z.of_nat (length (acquired s)) + Z.of_nat n)%Z) ->
  (n <= S (length (woken s)))%nat ->
  wake_inv c (proceed c s t k).
Proof.
  intros Hc W Hn _ Hlive. unfold proceed in *.
  destruct (take_idle k (idle s)) as [[cn rest]|];
    cbn [with_pc add_slot with_idle acquired woken waiters length] in *;
    (assert (L : has_live s) by (destruct Hlive as (t' & k' & X); exists t', k'; exact X));
    specialize (W L); rewrite Nat2Z.inj_succ; clear - W Hn; unfold task in *; lia.
Qed.

(* lia's preprocessing trips over boolean lambdas inside `filter`: abstract such lengths first *)
Ltac absf :=
  repeat match goal with
         | |- context [@length ?A (@filter ?B ?f ?l)] =>
             let n := fresh "n" in let E := fresh "E" in
             remember (@length A (@filter B f l)) as n eqn:E; clear E
         | H : context [@length ?A (@filter ?B ?f ?l)] |- _ =>
             let n := fresh "n" in let E := fresh "E" in
             remember (@length A (@filter B f l)) as n eqn:E; clear E
         end.
Ltac zlia :=
  repeat match goal with x := _ : state |- _ => subst x end;
  cbn [with_pc with_waiters with_woken with_idle with_closedc add_slot del_slot swap_slot bump_conn
       acquired woken waiters] in *;
  unfold task, key, conn in *; absf; lia.

Lemma step_wake c s e s' :
  lph c = 0%Z -> (0 < limit c)%Z ->
  coh s -> conn_inv s -> wake_inv c s -> step c s e = Some s' -> wake_inv c s'.
Proof.
  intros Hl HL C (I1 & _) W H Hc'. pose proof (step_closed _ _ _ _ H Hc') as Hc.
  specialize (I1 Hc). specialize (W Hc). revert Hc'.
  destruct e as [t k|t order|t|t|t order|t cl order|]; cbn [step] in H.
  - (* EStart *)
    destruct (get_pc (pcs s) t); try discriminate.
    assert (P : wake_inv c (proceed c s t k)).
    { apply (proceed_wake c s t k (length (woken s)) Hc); [exact W|zlia]. }
    destruct (if connect_fast_path (avail c s k) then take_idle k (idle s) else None);
      [injection H as <-; intro Hc'; apply P; exact Hc'|].
    unfold start_tail in H.
    destruct (connect_must_wait (avail c s k)) eqn:Ew; [|injection H as <-; intro Hc'; apply P; exact Hc'].
    apply must_wait_true in Ew. unfold avail in Ew. rewrite Hl in Ew.
    apply avail_total_only_nonpos in Ew; [|exact HL].
    destruct (refuse_wait s); injection H as <-; intros _ _; cbn [with_pc with_waiters acquired woken]; zlia.
  - (* EResume *)
    destruct (get_pc (pcs s) t) as [| k f | | | | |] eqn:Ep; try discriminate. destruct f; try discriminate.
    + set (s1 := with_woken s (filter (fun x => negb (x =? t)) (woken s))) in *.
      pose proof (woken_remove_length t (woken s) (proj2 (proj2 (proj2 C)))) as Hlen.
      destruct (wait_slot_found (avail c s1 k)) eqn:Ef.
      * injection H as <-.
        intro Hc'. apply (proceed_wake c s1 t k (length (woken s))); [exact Hc| |exact Hlen|exact Hc'].
        intros (t' & k' & X). apply W. exists t', k'. exact X.
      * apply slot_found_false in Ef. unfold avail in Ef. rewrite Hl in Ef. cbn [s1 with_woken acquired hostacq] in Ef.
        apply avail_total_only_nonpos in Ef; [|exact HL].
        unfold requeue in H. destruct (hand_on c s1 order) as [s2|] eqn:Eh; [|discriminate].
        destruct (hand_on_frame _ _ _ _ Eh) as (A & _).
        destruct (refuse_wait s2); injection H as <-; intros _ _;
          cbn [with_pc with_waiters acquired woken]; rewrite A; cbn [s1 with_woken acquired]; zlia.
    + injection H as <-. intros _ (t' & k' & X). cbn [with_pc with_waiters acquired woken waiters] in *.
      apply filter_In in X as [X _]. apply W. exists t', k'. exact X.
    + set (s1 := with_woken s (filter (fun x => negb (x =? t)) (woken s))) in *.
      pose proof (woken_remove_length t (woken s) (proj2 (proj2 (proj2 C)))) as Hlen.
      destruct (release_waiter c s1 order) as [s2|] eqn:Er; [|discriminate]. injection H as <-.
      destruct (release_waiter_effect c s1 order s2 Hl HL Er) as (A & B & D).
      intros _ Hlive. cbn [with_pc acquired woken] in *. rewrite A.
      assert (L2 : has_live s2) by (destruct Hlive as (t' & k' & X); exists t', k'; exact X).
      destruct D as [D|D]; [cbn [s1 with_woken acquired] in D |- *; zlia|].
      specialize (D L2). rewrite D. specialize (B L2). cbn [s1 with_woken acquired woken waiters] in *.
      assert (L : has_live s) by exact B. specialize (W L). rewrite Nat2Z.inj_succ. zlia.
  - (* ECancel *)
    destruct (get_pc (pcs s) t) as [| k f | | | | |] eqn:Ep; try discriminate.
    destruct f; try discriminate; injection H as <-; intros _ (t' & k' & X);
      cbn [with_pc with_waiters acquired woken waiters] in *.
    + apply W. apply in_map_iff in X as ([[t0 k0] b0] & Ex & X). unfold cancel_entry in Ex. cbn [fst] in Ex.
      destruct (t0 =? t); [discriminate|]. injection Ex as -> -> ->. exists t', k'. exact X.
    + apply W. exists t', k'. exact X.
  - (* ECreateOk *)
    destruct (get_pc (pcs s) t); try discriminate. rewrite Hc in H. injection H as <-.
    intros _ (t' & k' & X). cbn [with_pc swap_slot bump_conn acquired woken waiters] in *. rewrite map_length.
    apply W. exists t', k'. exact X.
  - (* ECreateFail *)
    destruct (get_pc (pcs s) t); try discriminate.
    destruct (release_acquired c s (SPh t) order) as [s1|] eqn:Er; [|discriminate]. injection H as <-.
    unfold release_acquired in Er. rewrite Hc in Er.
    destruct (release_waiter_effect c _ order s1 Hl HL Er) as (A & B & D).
    pose proof (acq_remove_length (SPh t) (acquired s) (f_acq_nodup _ I1)) as Hlen.
    intros _ Hlive. cbn [with_pc acquired woken] in *. rewrite A.
    assert (L1 : has_live s1) by (destruct Hlive as (t' & k' & X); exists t', k'; exact X).
    cbn [del_slot acquired woken waiters] in *.
    destruct D as [D|D]; [zlia|]. rewrite (D L1). assert (L : has_live s) by exact (B L1).
    specialize (W L). rewrite Nat2Z.inj_succ. zlia.
  - (* ERelease *)
    destruct (get_pc (pcs s) t) as [| | | k cn0 | | |]; try discriminate. rewrite Hc in H.
    destruct (release_acquired c s (SConn cn0) order) as [s1|] eqn:Er; [|discriminate]. injection H as <-.
    unfold release_acquired in Er. rewrite Hc in Er.
    destruct (release_waiter_effect c _ order s1 Hl HL Er) as (A & B & D).
    pose proof (acq_remove_length (SConn cn0) (acquired s) (f_acq_nodup _ I1)) as Hlen.
    intros _ Hlive.
    assert (L1 : has_live s1).
    { destruct Hlive as (t' & k' & X). exists t', k'. destruct (force_close c || cl); exact X. }
    assert (E1 : acquired (with_pc (if force_close c || cl then with_closedc s1 (cn0 :: closedc s1)
                                    else with_idle s1 (idle s1 ++ [(cn0, k)])) t PDone) = acquired s1)
      by (destruct (force_close c || cl); reflexivity).
    assert (E2 : woken (with_pc (if force_close c || cl then with_closedc s1 (cn0 :: closedc s1)
                                 else with_idle s1 (idle s1 ++ [(cn0, k)])) t PDone) = woken s1)
      by (destruct (force_close c || cl); reflexivity).
    rewrite E1, E2, A. cbn [del_slot acquired woken waiters] in *.
    destruct D as [D|D]; [zlia|]. rewrite (D L1). assert (L : has_live s) by exact (B L1).
    specialize (W L). rewrite Nat2Z.inj_succ. zlia.
  - (* EClose *)
    rewrite Hc in H. injection H as <-. cbn [closed]. discriminate.
Qed.

Lemma wake_init c : wake_inv c init.
Proof. intros _ (t & k & []). Qed.

Lemma run_wake c : lph c = 0%Z -> (0 < limit c)%Z -> forall tr s s',
  coh s -> owned c s -> conn_inv s -> wake_inv c s -> run c s tr = Some s' -> wake_inv c s'.
Proof.
  intros Hl HL. induction tr as [|e r IH]; intros s s' C O I W H; cbn [run] in H.
  - injection H as <-. exact W.
  - destruct (step c s e) as [s1|] eqn:Es; [|discriminate]. eapply IH; [| | | |exact H].
    + eapply step_coh; eauto.
    + eapply step_owned; eauto.
    + eapply step_conn; eauto.
    + eapply step_wake; eauto.
Qed.

(* No forgotten waiter, total limit only: in every reachable open state with no wake-up in flight, a
   request that is queued (and not cancelled) finds no capacity: nothing it could use is free. *)
Lemma no_lost_wakeup_total c tr s t k :
  lph c = 0%Z -> (0 < limit c)%Z ->
  run c init tr = Some s -> closed s = false -> woken s = [] ->
  In (t, k, false) (waiters s) ->
  (avail c s k <= 0)%Z /\ (limit c <= Z.of_nat (length (acquired s)))%Z.
Proof.
  intros Hl HL H Hc Hw Hin.
  pose proof (run_wake c Hl HL tr init s coh_init (owned_init c) conn_inv_init (wake_init c) H) as W.
  assert (L : has_live s) by (exists t, k; exact Hin). specialize (W Hc L). rewrite Hw in W. cbn [length] in W.
  split; [|lia]. unfold avail. rewrite Hl. apply avail_total_only_full; [exact HL|lia].
Qed.

(* the counting form, with wake-ups in flight *)
Lemma wakeups_cover_limit c tr s t k :
  lph c = 0%Z -> (0 < limit c)%Z ->
  run c init tr = Some s -> closed s = false -> In (t, k, false) (waiters s) ->
  (limit c <= Z.of_nat (length (acquired s)) + Z.of_nat (length (woken s)))%Z.
Proof.
  intros Hl HL H Hc Hin.
  pose proof (run_wake c Hl HL tr init s coh_init (owned_init c) conn_inv_init (wake_init c) H) as W.
  apply W; [exact Hc|]. exists t, k. exact Hin.
Qed.
