(* C06 — the tag invariant of Model/ClientConn.v (definitions and small facts).
   It holds in every reachable state in which no token was ever handled on a connection that no
   exchange was holding (s_idle_parsed = false). *)
From AV Require Import Lib.Base Generated.ClientConnGen Model.ClientConn Proofs.ClientConnBase Proofs.ClientConnStruct.
Open Scope N_scope.

Definition msg_ok (s : state) (m : msg) : Prop :=
  forall pid, m_pay m = Some pid -> pid < s_npay s /\ p_tag (s_pay s pid) = m_tag m.

Definition last_pay (ms : list msg) (dflt : option N) : option N :=
  match rev ms with m :: _ => m_pay m | [] => dflt end.

Record ConnTags (s : state) (c : N) : Prop := {
  ct_flight : forall e, c_phase (s_conn s c) = PFlight e ->
     Forall (fun m => m_tag m = TFlight e) (c_buf (s_conn s c)) /\
     Forall (fun p => snd p = TFlight e) (c_htail (s_conn s c));
  ct_idle : c_phase (s_conn s c) = PIdle ->
     c_buf (s_conn s c) = [] /\ c_htail (s_conn s c) = [] /\ c_pst (s_conn s c) = PSHead;
  ct_closed : c_phase (s_conn s c) = PClosed -> c_conn (s_conn s c) = false;
  ct_msgs : Forall (msg_ok s) (c_buf (s_conn s c));
  ct_pst : forall pid rem, c_pst (s_conn s c) = PSBody pid rem ->
     pid < s_npay s /\ p_conn (s_pay s pid) = c /\ p_eof (s_pay s pid) = false /\
     (forall e, c_phase (s_conn s c) = PFlight e -> p_tag (s_pay s pid) = TFlight e)
}.

(* the open data_received call *)
Record SegTags (s : state) (g : seg) : Prop := {
  sg_tag : forall e, c_phase (s_conn s (g_c g)) = PFlight e -> g_tag g = TFlight e;
  sg_queue : Forall (fun p => snd p = g_tag g) (g_queue g);
  sg_msgs : Forall (fun m => m_tag m = g_tag g) (g_msgs g);
  sg_rest : Forall (fun p => snd p = g_tag g) (g_rest g);
  sg_msgok : Forall (msg_ok s) (g_msgs g);
  sg_idle : c_phase (s_conn s (g_c g)) = PIdle -> g_msgs g = [] /\ g_rest g = [] /\ g_queue g = [];
  sg_cb : forall pid rem, c_pst (s_conn s (g_c g)) = PSBody pid rem -> p_cb (s_pay s pid) <> None ->
            g_msgs g = [] /\ g_queue g = [];
  sg_pupg : g_rest g <> [] -> c_pupg (s_conn s (g_c g)) = true;
  sg_pst : forall pid rem, c_pst (s_conn s (g_c g)) = PSBody pid rem -> p_tag (s_pay s pid) = g_tag g;
  sg_err : g_err g = true -> c_pst (s_conn s (g_c g)) = PSHead /\ g_msgs g = [];
  sg_stash : g_stash g = true -> g_msgs g = [];
  sg_replay : g_queue g <> [] -> exists e, c_phase (s_conn s (g_c g)) = PFlight e;
  sg_link : forall pid rem, c_pst (s_conn s (g_c g)) = PSBody pid rem -> c_phase (s_conn s (g_c g)) <> PClosed ->
            last_pay (g_msgs g) (c_pay (s_conn s (g_c g))) = Some pid
}.

Definition in_seg (s : state) (c : N) : Prop := exists g, s_seg s = Some g /\ g_c g = c.

(* the protocol's _payload is the payload the parser is in the middle of (between data_received calls) *)
Definition LinkOK (cn : conn) : Prop :=
  forall pid rem, c_pst cn = PSBody pid rem -> c_phase cn <> PClosed -> c_pay cn = Some pid.

(* the part that does not mention the open segment *)
Record Core (s : state) : Prop := {
  tg_log : Forall well_tagged (s_log s);
  tg_conn : forall c, ConnTags s c;
  tg_items : forall pid, Forall (fun it => snd it = p_tag (s_pay s pid)) (p_items (s_pay s pid));
  tg_xpay : forall e pid, x_pay (s_x s e) = Some pid -> pid < s_npay s /\ p_tag (s_pay s pid) = TFlight e
}.

Record Tags (s : state) : Prop := {
  tg_core : Core s;
  tg_seg : forall g, s_seg s = Some g -> SegTags s g;
  tg_link : forall c, ~ in_seg s c -> LinkOK (s_conn s c)
}.

Lemma last_pay_nil d : last_pay [] d = d.
Proof. reflexivity. Qed.

Lemma last_pay_snoc ms m d : last_pay (ms ++ [m]) d = m_pay m.
Proof. unfold last_pay. now rewrite rev_app_distr. Qed.

Lemma push_msgs_fields ms : forall cn,
  c_phase (push_msgs cn ms) = c_phase cn /\ c_htail (push_msgs cn ms) = c_htail cn /\
  c_pst (push_msgs cn ms) = c_pst cn /\ c_conn (push_msgs cn ms) = c_conn cn /\
  c_pupg (push_msgs cn ms) = c_pupg cn /\
  c_buf (push_msgs cn ms) = c_buf cn ++ ms /\ c_pay (push_msgs cn ms) = last_pay ms (c_pay cn).
Proof.
  induction ms as [|m ms IH]; intros cn; cbn [push_msgs].
  - rewrite app_nil_r. repeat split.
  - destruct (IH (set_c_buf (set_c_pay (if m_close m && msg_close_latches_gen then set_c_sc cn true else cn) (m_pay m))
                            (c_buf (if m_close m && msg_close_latches_gen then set_c_sc cn true else cn) ++ [m])))
      as (H1 & H2 & H3 & H4 & H5 & H6 & H7).
    rewrite H1, H2, H3, H4, H5, H6, H7.
    destruct (m_close m && msg_close_latches_gen); cbn; rewrite <- app_assoc; cbn; repeat split;
      unfold last_pay; cbn [rev]; destruct (rev ms) eqn:Er; cbn; reflexivity.
Qed.

Lemma tags_init : Tags init.
Proof.
  split.
  - split.
    + constructor.
    + intros c. split; cbn; intros; try discriminate; try constructor; reflexivity.
    + intros pid. constructor.
    + cbn. discriminate.
  - cbn. discriminate.
  - intros c _ pid rem H. cbn in H. discriminate.
Qed.

(* the flag never goes back *)
Lemma release_idle_flag cf s c arg : s_idle_parsed (release_conn cf s c arg) = s_idle_parsed s.
Proof. unfold release_conn. destruct (c_phase _); try reflexivity. now destruct (release_closes_gen _ _ _). Qed.

Lemma response_eof_idle_flag cf s e : s_idle_parsed (response_eof cf s e) = s_idle_parsed s.
Proof.
  unfold response_eof. destruct (response_eof_releases_gen _ _); [|reflexivity].
  destruct (x_held _); [now rewrite release_idle_flag|reflexivity].
Qed.

Lemma surplus_tail_idle_flag s cn : s_idle_parsed (surplus_tail s cn) = s_idle_parsed s.
Proof. unfold surplus_tail. now destruct (prog_done _). Qed.

Lemma parse_tok_idle_flag cf s g tk tg s' g' : parse_tok cf s g tk tg = Some (s', g') -> s_idle_parsed s' = s_idle_parsed s.
Proof.
  intros H. unfold parse_tok in H.
  destruct (c_pst (s_conn s (g_c g))) as [|pid rem]; destruct tk as [id blen cl up|id n|id|id]; try discriminate.
  - destruct (c_ptail _ || c_psc _); [unfold parse_error in H; now inv_some|].
    destruct up; [now inv_some|]. destruct (blen =? 0); now inv_some.
  - inv_some. now rewrite surplus_tail_idle_flag.
  - unfold parse_error in H. now inv_some.
  - inv_some. now rewrite surplus_tail_idle_flag.
  - destruct (n <? rem); inv_some; [reflexivity|].
    destruct (rem <? n); [rewrite surplus_tail_idle_flag|]; cbn [s_idle_parsed set_conn set_s_conn];
      (destruct (p_cb _); [now rewrite response_eof_idle_flag|reflexivity]).
Qed.

Lemma proc_tok_idle_flag cf s g tk tg s' g' : proc_tok cf s g tk tg = Some (s', g') -> s_idle_parsed s' = s_idle_parsed s.
Proof.
  intros H. unfold proc_tok in H. destruct (g_err g); [now inv_some|].
  destruct (g_stash g); [now inv_some|]. destruct (c_pupg _); [now inv_some|]. eapply parse_tok_idle_flag; eauto.
Qed.

Lemma pool_get_idle_flag cf key : forall pool s kept s1 got,
  pool_get cf s key pool kept = (s1, got) -> s_idle_parsed s1 = s_idle_parsed s.
Proof.
  induction pool as [|c rest IH]; intros s kept s1 got H; cbn [pool_get] in H; [now inv_some|].
  destruct (list_eqb _ _); [|eapply IH; eauto].
  destruct (reusable _ _ _); [now inv_some|]. apply IH in H. exact H.
Qed.

Lemma ghost_tok_flag_true s c tk : s_idle_parsed s = true -> s_idle_parsed (ghost_tok s c tk) = true.
Proof.
  intros H. unfold ghost_tok. destruct (c_phase _); [|reflexivity|reflexivity]. now destruct (ghost_prog _ _).
Qed.

Lemma idle_flag_mono cf s ev s' : step cf s ev = Some s' -> s_idle_parsed s = true -> s_idle_parsed s' = true.
Proof.
  intros H F. destruct ev; cbn [step] in H; try (destruct (no_seg s); [|discriminate]).
  - unfold do_connect in H. destruct (x_st _); try discriminate.
    destruct (pool_get _ _ _ _ _) as [s1 got] eqn:Eg. apply pool_get_idle_flag in Eg.
    destruct got; inv_some; cbn; congruence.
  - unfold do_params in H. destruct (x_st _); try discriminate. destruct (c_htail _); inv_some; exact F.
  - unfold do_read in H. destruct (x_st _); try discriminate. destruct (c_buf _).
    + destruct (c_exc _ =? 0); [discriminate|]. inv_some. now rewrite release_idle_flag.
    + destruct (m_pay _).
      * destruct (p_eof _); [inv_some; now rewrite response_eof_idle_flag|]. destruct (p_exc _); inv_some; exact F.
      * inv_some. now rewrite response_eof_idle_flag.
  - unfold do_body in H. destruct (x_st _); try discriminate. destruct (x_pay _).
    + destruct (p_exc _ || _).
      * inv_some. destruct (x_held _); [now rewrite release_idle_flag|exact F].
      * destruct (p_eof _); [|discriminate]. inv_some. cbv zeta.
        destruct (_ && negb _); [now rewrite release_idle_flag|exact F].
    + inv_some. cbv zeta. destruct (_ && negb _); [now rewrite release_idle_flag|exact F].
  - unfold do_release in H. destruct (x_st _); try discriminate; inv_some;
      (destruct (x_held _); [rewrite release_idle_flag|]); destruct (x_pay _); exact F.
  - unfold do_release in H. destruct (x_st _); try discriminate; inv_some;
      (destruct (x_held _); [rewrite release_idle_flag|]); destruct (x_pay _); exact F.
  - unfold do_segbegin in H. destruct (_ && _); inv_some. exact F.
  - unfold do_tok in H. destruct (s_seg s) as [g|]; [|discriminate]. destruct (g_queue g); [|discriminate].
    destruct (proc_tok _ _ _ _ _) as [[s1 g1]|] eqn:Ep; [|discriminate]. inv_some. cbn.
    apply proc_tok_idle_flag in Ep. rewrite Ep. now apply ghost_tok_flag_true.
  - unfold do_replay in H. destruct (s_seg s) as [g|]; [|discriminate]. destruct (g_queue g) as [|[tk tg] q]; [discriminate|].
    destruct (proc_tok _ _ _ _ _) as [[s1 g1]|] eqn:Ep; [|discriminate]. inv_some. cbn.
    apply proc_tok_idle_flag in Ep. congruence.
  - unfold do_segend in H. destruct (s_seg s) as [g|]; [|discriminate]. destruct (g_queue g); [|discriminate]. inv_some. exact F.
  - unfold do_peerclose in H. destruct (_ && _); inv_some. cbn.
    destruct (c_parser _); [|exact F]. destruct (c_pst _); [exact F|]. destruct (c_pay _); exact F.
Qed.
