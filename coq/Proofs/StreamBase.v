(* Stream reader: basic lemmas and a generic preservation principle.

   `Section Preserve` proves once that a state predicate P that is preserved by the primitive
   state transformers of the model (feed_data, end_chunk, the consumption step, ...) is preserved by
   every operation of the system, including the re-entrant feeding that happens inside
   `_read_nowait_chunk` when it resumes the protocol. *)
From AV Require Import Lib.Base Generated.StreamGen Model.Stream.
From Coq Require Import ZifyBool.
Open Scope Z_scope.

Lemma len_nil {A} : len (@nil A) = 0. Proof. reflexivity. Qed.
Lemma len_cons {A} (x : A) l : len (x :: l) = 1 + len l.
Proof. unfold len. cbn [length]. lia. Qed.
Lemma len_app {A} (a b : list A) : len (a ++ b) = len a + len b.
Proof. unfold len. rewrite app_length. lia. Qed.
Lemma len_nonneg {A} (l : list A) : 0 <= len l.
Proof. unfold len. lia. Qed.
Lemma len_zero {A} (l : list A) : len l = 0 -> l = [].
Proof. destruct l; [reflexivity|]. rewrite len_cons. pose proof (len_nonneg l). lia. Qed.
Lemma len_pos {A} (l : list A) : l <> [] -> 0 < len l.
Proof. destruct l; [congruence|]. intros _. rewrite len_cons. pose proof (len_nonneg l). lia. Qed.

(* ---- unfolding equations -------------------------------------------------------------- *)

Lemma take_n_eq fuel n s :
  take_n fuel n s =
  match buf s with
  | [] => (s, [], SOk)
  | f :: r =>
    match fuel with
    | O => (s, [], SFuel)
    | S fuel' =>
      let '(s1, d) := rnc n f r s in
      let n' := n - len d in
      if n' =? 0 then (s1, d, SOk)
      else let '(s2, d2, e) := take_n fuel' n' s1 in (s2, d ++ d2, e)
    end
  end.
Proof. destruct fuel; reflexivity. Qed.

Lemma drain_S k s :
  drain (S k) s =
  match buf s with
  | [] => (s, [], SIndex)
  | f :: r => let '(s1, d) := rnc (-1) f r s in
              let '(s2, d2, e) := drain k s1 in (s2, d ++ d2, e)
  end.
Proof. reflexivity. Qed.

Lemma k_readall_eq fuel acc s :
  k_readall fuel acc s =
  if need_wait s then block (KReadAll acc) s
  else
    let '(s1, d, e) := read_nowait (-1) s in
    match e with
    | SOk =>
      match d with
      | [] => (s1, Done (RBytes acc))
      | _ =>
        match exc s1 with
        | Some x => (s1, Done (RRaise (ExStream x) (acc ++ d)))
        | None =>
          match fuel with
          | O => (s1, Done (RRaise ExFuel (acc ++ d)))
          | S fuel' => k_readall fuel' (acc ++ d) s1
          end
        end
      end
    | _ => (s1, Done (finish e RNone (acc ++ d)))
    end.
Proof. destruct fuel; reflexivity. Qed.

Lemma k_until_eq fuel sep maxsz acc s :
  k_until fuel sep maxsz acc s =
  match buf s with
  | [] => if eof s then (s, Done (RBytes acc)) else block (KReadUntil sep maxsz acc) s
  | f :: r =>
    match fuel with
    | O => (s, Done (RRaise ExFuel acc))
    | S fuel' =>
      match find_sub sep f with
      | Some i =>
        let '(s1, d) := rnc (i + len sep) f r s in
        let acc' := acc ++ d in
        if line_too_long (len acc') maxsz then (s1, Done (RRaise ExLineTooLong acc'))
        else (s1, Done (RBytes acc'))
      | None =>
        let '(s1, d) := rnc (-1) f r s in
        let acc' := acc ++ d in
        if line_too_long (len acc') maxsz then (s1, Done (RRaise ExLineTooLong acc'))
        else k_until fuel' sep maxsz acc' s1
      end
    end
  end.
Proof. destruct fuel; reflexivity. Qed.

Lemma k_exactly_eq fuel n acc s :
  k_exactly fuel n acc s =
  if need_wait s then block (KReadExactly n acc) s
  else
    let '(s1, d, e) := read_nowait n s in
    match e with
    | SOk =>
      match d with
      | [] => (s1, Done (RRaise (ExIncomplete acc (len acc + n)) []))
      | _ =>
        let n' := n - len d in
        let acc' := acc ++ d in
        if n' <=? 0 then (s1, Done (RBytes acc'))
        else
          match exc s1 with
          | Some x => (s1, Done (RRaise (ExStream x) acc'))
          | None =>
            match fuel with
            | O => (s1, Done (RRaise ExFuel acc'))
            | S fuel' => k_exactly fuel' n' acc' (set_chunk_size n' s1)
            end
          end
      end
    | _ => (s1, Done (finish e RNone (acc ++ d)))
    end.
Proof. destruct fuel; reflexivity. Qed.

Lemma need_wait_true s : need_wait s = true -> buf s = [] /\ eof s = false.
Proof. unfold need_wait. destruct (buf s); [|discriminate]. destruct (eof s); [discriminate|auto]. Qed.

(* ---- the waiter state is never set to Waiting by producers / by consumption -------------- *)

Lemma wt_wake_ok s : wt s = NoTask -> wt (wake_ok s) = NoTask.
Proof. unfold wake_ok. intros H. rewrite H. exact H. Qed.

Lemma wt_feed d s : wt s = NoTask -> wt (fst (feed_data d s)) = NoTask.
Proof.
  intros H. unfold feed_data. destruct (eof s); [exact H|]. destruct d as [|x d]; [exact H|].
  cbn [fst]. unfold wake_ok; cbn [wt]. rewrite H.
  match goal with |- wt (if ?c then _ else _) = _ => destruct c end; cbn; auto.
Qed.

Lemma wt_end_chunk s : wt s = NoTask -> wt (fst (end_chunk s)) = NoTask.
Proof.
  intros H. unfold end_chunk. destruct (splits s) as [l|]; [|exact H].
  destruct (empty_chunk _ _); [exact H|]. cbn [fst].
  match goal with |- wt (wake_ok (if ?c then _ else _)) = _ => destruct c end;
    unfold wake_ok, do_pause; cbn; rewrite H; cbn; auto.
Qed.

Lemma wt_feed_eof s : wt s = NoTask -> wt (feed_eof s) = NoTask.
Proof.
  intros H. unfold feed_eof, wake_ok. cbn [wt set_eof set_paused]. rewrite H. cbn. exact H.
Qed.

Lemma wt_apply_pitem it s : wt s = NoTask -> wt (apply_pitem it s) = NoTask.
Proof.
  intros H. destruct it as [d|]; cbn [apply_pitem]; [apply wt_feed; exact H|].
  destruct (splits s); [apply wt_end_chunk; exact H|exact H].
Qed.

Lemma wt_deliver items : forall s, wt s = NoTask -> wt (deliver items s) = NoTask.
Proof.
  induction items as [|it rest IH]; intros s H; cbn [deliver]; [exact H|].
  destruct (paused s || eof s); [exact H|]. apply IH. apply wt_apply_pitem. exact H.
Qed.

Lemma consume_wt n f r s : wt (fst (consume n f r s)) = wt s.
Proof. unfold consume. destruct (take_chunk n f r). reflexivity. Qed.

(* ---- generic preservation ---------------------------------------------------------------- *)

Section Preserve.
  Variable P : st -> Prop.
  Hypothesis P_feed : forall d s, P s -> P (fst (feed_data d s)).
  Hypothesis P_begin : forall s, P s -> P (fst (begin_chunk s)).
  Hypothesis P_end : forall s, P s -> P (fst (end_chunk s)).
  Hypothesis P_eof : forall s, P s -> P (feed_eof s).
  Hypothesis P_exc : forall e s, P s -> P (set_exception e s).
  Hypothesis P_pend : forall s v, P s -> P (set_pend s v).
  Hypothesis P_consume : forall n f r s, P s -> wt s = NoTask -> buf s = f :: r ->
    let s1 := fst (consume n f r s) in P (if resume_cond s1 then set_paused s1 false else s1).
  Hypothesis P_marks : forall n s, P s -> P (set_chunk_size n s).
  Hypothesis P_block : forall s, P s -> wt s = NoTask -> buf s = [] -> eof s = false -> wait_exc s = None -> P (set_wt s Waiting).
  Hypothesis P_notask : forall s, P s -> P (set_wt s NoTask).
  Hypothesis P_pop : forall s l1 l2, P s -> wt s = NoTask -> splits s = Some (l1 ++ l2) -> P (set_splits s (Some l2)).
  Hypothesis P_unread : forall d s, P s -> wt s = NoTask -> P (unread d s).

  Definition CP (s : st) : Prop := P s /\ wt s = NoTask.

  Lemma apply_pitem_P it s : P s -> P (apply_pitem it s).
  Proof.
    intros H. destruct it as [d|]; cbn [apply_pitem]; [apply P_feed; exact H|].
    destruct (splits s); [apply P_end; exact H|exact H].
  Qed.

  Lemma deliver_P items : forall s, P s -> P (deliver items s).
  Proof.
    induction items as [|it rest IH]; intros s H; cbn [deliver]; [apply P_pend; exact H|].
    destruct (paused s || eof s); [apply P_pend; exact H|]. apply IH. apply apply_pitem_P. exact H.
  Qed.

  Lemma rnc_CP n f r s : CP s -> buf s = f :: r -> CP (fst (rnc n f r s)).
  Proof.
    intros [HP Hw] Hb. unfold rnc.
    pose proof (P_consume n f r s HP Hw Hb) as HC. cbv zeta in HC.
    pose proof (consume_wt n f r s) as HW.
    destruct (consume n f r s) as [s1 d]. cbn [fst] in *.
    destruct (resume_cond s1).
    - unfold do_resume. cbv zeta. split.
      + apply deliver_P. exact HC.
      + apply wt_deliver. cbn. congruence.
    - split; [exact HC|congruence].
  Qed.

  Lemma drain_CP k : forall s, CP s -> CP (fst (fst (drain k s))).
  Proof.
    induction k as [|k IH]; intros s H; [exact H|].
    rewrite drain_S. destruct (buf s) as [|f r] eqn:Eb; [exact H|].
    pose proof (rnc_CP (-1) f r s H Eb) as H1.
    destruct (rnc (-1) f r s) as [s1 d]. cbn [fst] in H1.
    specialize (IH s1 H1). destruct (drain k s1) as [[s2 d2] e]. exact IH.
  Qed.

  Lemma take_n_CP fuel : forall n s, CP s -> CP (fst (fst (take_n fuel n s))).
  Proof.
    induction fuel as [|fuel IH]; intros n s H; rewrite take_n_eq;
      destruct (buf s) as [|f r] eqn:Eb; try exact H.
    pose proof (rnc_CP n f r s H Eb) as H1.
    destruct (rnc n f r s) as [s1 d]. cbn [fst] in H1. cbv zeta.
    destruct (n - len d =? 0); [exact H1|].
    specialize (IH (n - len d) s1 H1). destruct (take_n fuel (n - len d) s1) as [[s2 d2] e]. exact IH.
  Qed.

  Lemma read_nowait_CP n s : CP s -> CP (fst (fst (read_nowait n s))).
  Proof. intros H. unfold read_nowait. destruct (n =? -1); [apply drain_CP|apply take_n_CP]; exact H. Qed.

  Definition post (so : st * outcome) : Prop :=
    P (fst so) /\ match snd so with Done _ => wt (fst so) = NoTask | Block _ => wt (fst so) = Waiting end.

  Lemma done_post s r : CP s -> post (s, Done r).
  Proof. intros [H1 H2]. split; assumption. Qed.

  Lemma block_post k s : CP s -> buf s = [] -> eof s = false -> post (block k s).
  Proof.
    intros [H1 H2] Hb He. unfold block. destruct (wait_exc s) eqn:Ex.
    - split; assumption.
    - split; [apply P_block; assumption|reflexivity].
  Qed.

  Lemma k_read_post n s : CP s -> post (k_read n s).
  Proof.
    intros H. unfold k_read. destruct (need_wait s) eqn:Ew.
    - apply need_wait_true in Ew as [Hb He]. apply block_post; assumption.
    - pose proof (read_nowait_CP n s H) as H1. destruct (read_nowait n s) as [[s1 d] e].
      apply done_post. exact H1.
  Qed.

  Lemma k_readall_post fuel : forall acc s, CP s -> post (k_readall fuel acc s).
  Proof.
    induction fuel as [|fuel IH]; intros acc s H; rewrite k_readall_eq;
      (destruct (need_wait s) eqn:Ew;
       [apply need_wait_true in Ew as [Hb He]; apply block_post; assumption|]);
      pose proof (read_nowait_CP (-1) s H) as H1; destruct (read_nowait (-1) s) as [[s1 d] e];
      cbn [fst] in H1; destruct e; try (apply done_post; exact H1);
      destruct d; try (apply done_post; exact H1);
      destruct (exc s1); try (apply done_post; exact H1).
    apply IH. exact H1.
  Qed.

  Lemma k_until_post fuel : forall sep m acc s, CP s -> post (k_until fuel sep m acc s).
  Proof.
    induction fuel as [|fuel IH]; intros sep m acc s H; rewrite k_until_eq;
      (destruct (buf s) as [|f r] eqn:Eb;
       [destruct (eof s) eqn:Ee; [apply done_post; exact H|apply block_post; assumption]|]);
      try (apply done_post; exact H).
    destruct (find_sub sep f) as [i|].
    - pose proof (rnc_CP (i + len sep) f r s H Eb) as H1.
      destruct (rnc (i + len sep) f r s) as [s1 d]. cbv zeta.
      destruct (line_too_long _ _); apply done_post; exact H1.
    - pose proof (rnc_CP (-1) f r s H Eb) as H1.
      destruct (rnc (-1) f r s) as [s1 d]. cbv zeta.
      destruct (line_too_long _ _); [apply done_post; exact H1|]. apply IH. exact H1.
  Qed.

  Lemma set_chunk_size_CP n s : CP s -> CP (set_chunk_size n s).
  Proof.
    intros [H1 H2]. split; [apply P_marks; exact H1|].
    unfold set_chunk_size. destruct (chunk_size_raises _ _); [cbn|]; exact H2.
  Qed.

  Lemma k_exactly_post fuel : forall n acc s, CP s -> post (k_exactly fuel n acc s).
  Proof.
    induction fuel as [|fuel IH]; intros n acc s H; rewrite k_exactly_eq;
      (destruct (need_wait s) eqn:Ew;
       [apply need_wait_true in Ew as [Hb He]; apply block_post; assumption|]);
      pose proof (read_nowait_CP n s H) as H1; destruct (read_nowait n s) as [[s1 d] e];
      cbn [fst] in H1; destruct e; try (apply done_post; exact H1);
      destruct d; try (apply done_post; exact H1); cbv zeta;
      (match goal with |- context [if ?c then _ else _] => destruct c end; [apply done_post; exact H1|]);
      destruct (exc s1); try (apply done_post; exact H1).
    apply IH. apply set_chunk_size_CP. exact H1.
  Qed.

  Lemma pop_splits_suffix c l : exists l1, l = l1 ++ snd (pop_splits c l).
  Proof.
    induction l as [|p l IH]; [exists []; reflexivity|]. cbn [pop_splits].
    destruct (readchunk_at p c); [exists [p]; reflexivity|].
    destruct (readchunk_ahead p c); [exists [p]; reflexivity|].
    destruct IH as [l1 IH]. exists (p :: l1). cbn. f_equal. exact IH.
  Qed.

  Lemma k_readchunk_post s : CP s -> post (k_readchunk s).
  Proof.
    intros H. unfold k_readchunk. destruct (exc s); [apply done_post; exact H|].
    assert (H0 : forall found s0,
      (found, s0) = match splits s with
                    | None => (None, s)
                    | Some l => let '(p, l') := pop_splits (cursor s) l in (p, set_splits s (Some l'))
                    end -> CP s0 /\ buf s0 = buf s /\ eof s0 = eof s).
    { intros found s0 E. destruct (splits s) as [l|] eqn:El.
      - destruct (pop_splits_suffix (cursor s) l) as [l1 Hl].
        destruct (pop_splits (cursor s) l) as [p l']. cbn [snd] in Hl. inversion E; subst found s0.
        destruct H as [HP Hw]. split; [split|split; reflexivity].
        + apply (P_pop s l1 l'); [exact HP|exact Hw|rewrite El; f_equal; exact Hl].
        + exact Hw.
      - inversion E; subst. auto. }
    destruct (match splits s with
              | None => (None, s)
              | Some l => let '(p, l') := pop_splits (cursor s) l in (p, set_splits s (Some l'))
              end) as [found s0] eqn:E.
    destruct (H0 found s0 eq_refl) as [HC [Hb He]].
    destruct found as [p|].
    - destruct (readchunk_at p (cursor s)); [apply done_post; exact HC|].
      pose proof (read_nowait_CP (p - cursor s) s0 HC) as H1.
      destruct (read_nowait (p - cursor s) s0) as [[s1 d] e]. apply done_post. exact H1.
    - destruct (buf s0) as [|f r] eqn:Eb.
      + destruct (eof s0) eqn:Ee; [apply done_post; exact HC|apply block_post; assumption].
      + pose proof (rnc_CP (-1) f r s0 HC Eb) as H1. destruct (rnc (-1) f r s0) as [s1 d].
        apply done_post. exact H1.
  Qed.

  Lemma sync_op_CP c s s' r : CP s -> sync_op c s = Some (s', r) -> CP s'.
  Proof.
    intros H E. destruct c; cbn [sync_op] in E; try discriminate.
    - (* read_nowait *)
      destruct (exc s). { inversion E; subst; exact H. }
      destruct H as [HP Hw]. rewrite Hw in E.
      destruct (n <? -1). { inversion E; subst. split; assumption. }
      pose proof (read_nowait_CP n s (conj HP Hw)) as H1.
      destruct (read_nowait n s) as [[s1 d] e]. inversion E; subst. exact H1.
    - inversion E; subst. destruct H as [HP Hw]. split; [apply P_unread; assumption|].
      unfold unread. destruct d; [exact Hw|exact Hw].
    - inversion E; subst. apply set_chunk_size_CP. exact H.
  Qed.

  Lemma raise_exc_post s k : CP s -> post k -> post (raise_exc s k).
  Proof. intros H Hk. unfold raise_exc. destruct (exc s); [apply done_post; exact H|exact Hk]. Qed.

  Lemma start_post c s : CP s -> post (start c s).
  Proof.
    intros H. destruct c; cbn [start].
    - apply raise_exc_post; [exact H|]. destruct (n =? 0); [apply done_post; exact H|].
      destruct (n <? 0); [apply k_readall_post|apply k_read_post]; apply set_chunk_size_CP; exact H.
    - apply raise_exc_post; [exact H|]. apply k_read_post. exact H.
    - destruct sep; [apply done_post; exact H|]. apply raise_exc_post; [exact H|].
      apply k_until_post. exact H.
    - apply raise_exc_post; [exact H|]. destruct (n <=? 0); [apply done_post; exact H|].
      apply k_exactly_post. apply set_chunk_size_CP. exact H.
    - apply k_readchunk_post. exact H.
    - destruct (sync_op (CReadNowait n) s) as [[s' r]|] eqn:E; [|apply done_post; exact H].
      apply done_post. eapply sync_op_CP; eassumption.
    - destruct (sync_op (CUnread d) s) as [[s' r]|] eqn:E; [|apply done_post; exact H].
      apply done_post. eapply sync_op_CP; eassumption.
    - destruct (sync_op (CSetChunkSize n) s) as [[s' r]|] eqn:E; [|apply done_post; exact H].
      apply done_post. eapply sync_op_CP; eassumption.
  Qed.

  Lemma resume_k_post k s : CP s -> post (resume_k k s).
  Proof.
    intros H. destruct k; cbn [resume_k].
    - apply k_read_post; exact H.
    - apply k_readall_post; exact H.
    - apply k_until_post; exact H.
    - apply k_exactly_post; exact H.
    - apply k_readchunk_post; exact H.
  Qed.

  Definition SysP (y : sys) : Prop := P (sst y) /\ (task y = None -> wt (sst y) = NoTask).

  Lemma finish_task_SysP so : post so -> SysP (fst (finish_task so)).
  Proof.
    destruct so as [s o]. intros [H1 H2]. cbn [fst snd] in *. unfold finish_task.
    destruct o; cbn [fst]; split; cbn [sst task].
    - apply P_notask. exact H1.
    - reflexivity.
    - exact H1.
    - discriminate.
  Qed.

  Lemma wt_NoTask_wake_exc e s : wt s = NoTask -> wt (wake_exc e s) = NoTask.
  Proof. unfold wake_exc. intros H. rewrite H. exact H. Qed.

  Theorem step_SysP o y : SysP y -> SysP (fst (step o y)).
  Proof.
    intros [HP Ht]. destruct o; cbn [step]; unfold prod; cbn [fst snd].
    - split; cbn [sst task]; [apply P_feed; exact HP|]. intros E. apply wt_feed. auto.
    - split; cbn [sst task]; [apply P_begin; exact HP|]. intros E. unfold begin_chunk.
      destruct (splits (sst y)); [auto|]. destruct (total (sst y) =? 0); cbn; auto.
    - split; cbn [sst task]; [apply P_end; exact HP|]. intros E. apply wt_end_chunk. auto.
    - split; cbn [sst task]; [apply P_eof; exact HP|]. intros E. apply wt_feed_eof. auto.
    - split; cbn [sst task]; [apply P_exc; exact HP|]. intros E. unfold set_exception.
      apply wt_NoTask_wake_exc. cbn. auto.
    - split; cbn [sst task]; [apply P_pend; exact HP|]. intros E. cbn. auto.
    - destruct (task y) as [k|] eqn:Et.
      + destruct c; cbn [fst]; try (split; [exact HP|intros E; congruence]).
        * destruct (wt (sst y)); cbn [fst]; split; try exact HP; intros E; congruence.
        * split; cbn [fst sst task]; [apply P_marks; exact HP|intros E; congruence].
      + apply finish_task_SysP. apply start_post. split; auto.
    - destruct (task y) as [k|] eqn:Et; [|split; auto].
      destruct (wt (sst y)) eqn:Ew; cbn [fst]; try (split; [exact HP|intros E; congruence]).
      + apply finish_task_SysP. apply resume_k_post. split; [apply P_notask; exact HP|reflexivity].
      + split; cbn [fst sst task]; [apply P_notask; exact HP|reflexivity].
  Qed.

  Theorem run_SysP ops : forall y, SysP y -> SysP (fst (run ops y)).
  Proof.
    induction ops as [|o ops IH]; intros y H; [exact H|]. cbn [run].
    pose proof (step_SysP o y H) as H1. destruct (step o y) as [y1 b]. cbn [fst] in H1.
    specialize (IH y1 H1). destruct (run ops y1) as [y2 bs]. exact IH.
  Qed.
End Preserve.
