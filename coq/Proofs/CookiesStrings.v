(* C16 — string-level lemmas: the jar's suffix / prefix enumerations and _is_domain_match against the
   RFC 6265 domain-match and path-match predicates. *)
From AV Require Import Lib.Base Generated.CookiesGen Model.Cookies.
Open Scope N_scope.

Lemma list_eqb_refl a : list_eqb a a = true.
Proof. apply list_eqb_eq. reflexivity. Qed.

Lemma list_eqb_neq a b : list_eqb a b = false <-> a <> b.
Proof.
  split; intro H.
  - intro E. apply list_eqb_eq in E. congruence.
  - destruct (list_eqb a b) eqn:E; [apply list_eqb_eq in E; contradiction | reflexivity].
Qed.

Lemma list_eqb_sym a b : list_eqb a b = list_eqb b a.
Proof.
  destruct (list_eqb a b) eqn:E.
  - apply list_eqb_eq in E. subst. symmetry. apply list_eqb_refl.
  - symmetry. apply list_eqb_neq. apply list_eqb_neq in E. congruence.
Qed.

(* ------------------------------------------------------------ last_is / first_is *)

Lemma last_is_app c p : last_is c (p ++ [c]) = true.
Proof.
  induction p as [|x p IH]; simpl.
  - apply N.eqb_refl.
  - destruct (p ++ [c]) eqn:E; [destruct p; discriminate | exact IH].
Qed.

Lemma last_is_spec c s : last_is c s = true <-> exists p, s = p ++ [c].
Proof.
  split.
  - induction s as [|x s IH]; simpl; [discriminate|].
    destruct s as [|y s'].
    + intro H. apply N.eqb_eq in H. subst. exists []. reflexivity.
    + intro H. destruct (IH H) as [p Hp]. exists (x :: p). rewrite Hp. reflexivity.
  - intros [p ->]. apply last_is_app.
Qed.

Lemma last_is_nil c : last_is c [] = false.
Proof. reflexivity. Qed.

Lemma first_is_spec c s : first_is c s = true <-> exists t, s = c :: t.
Proof.
  destruct s as [|x s]; simpl; split; try discriminate.
  - intros [t H]; discriminate.
  - intro H. apply N.eqb_eq in H. subst. eauto.
  - intros [t H]. inversion H. apply N.eqb_refl.
Qed.

(* ------------------------------------------------------------ strip_suffix *)

Lemma strip_suffix_unfold s suf :
  strip_suffix s suf =
  if list_eqb s suf then Some []
  else match s with
       | [] => None
       | c :: t => match strip_suffix t suf with Some p => Some (c :: p) | None => None end
       end.
Proof. destruct s; reflexivity. Qed.

Lemma strip_suffix_sound s : forall suf p, strip_suffix s suf = Some p -> s = p ++ suf.
Proof.
  induction s as [|c t IH]; intros suf p; rewrite strip_suffix_unfold.
  - destruct (list_eqb [] suf) eqn:E; [|discriminate].
    intro H. inversion H. apply list_eqb_eq in E. subst. reflexivity.
  - destruct (list_eqb (c :: t) suf) eqn:E.
    + intro H. inversion H. apply list_eqb_eq in E. subst. reflexivity.
    + destruct (strip_suffix t suf) eqn:F; [|discriminate].
      intro H. inversion H. subst. simpl. f_equal. apply IH. exact F.
Qed.

Lemma strip_suffix_complete p : forall suf, strip_suffix (p ++ suf) suf = Some p.
Proof.
  induction p as [|c p IH]; intro suf.
  - simpl. rewrite strip_suffix_unfold, list_eqb_refl. reflexivity.
  - change ((c :: p) ++ suf) with (c :: (p ++ suf)). rewrite strip_suffix_unfold.
    destruct (list_eqb (c :: p ++ suf) suf) eqn:E.
    + apply list_eqb_eq in E. exfalso.
      assert (L : length (c :: p ++ suf) = length suf) by (rewrite E; reflexivity).
      simpl in L. rewrite app_length in L. lia.
    + rewrite IH. reflexivity.
Qed.

(* ------------------------------------------------------------ enumerations *)

Lemma tails_after_In sep s : forall t, In t (tails_after sep s) <-> exists p, s = p ++ sep :: t.
Proof.
  induction s as [|c s IH]; intro t; simpl.
  - split; [tauto|]. intros [p H]. destruct p; discriminate.
  - rewrite in_app_iff, IH. split.
    + intros [H|[p H]].
      * destruct (c =? sep) eqn:E; [|destruct H]. apply N.eqb_eq in E. subst.
        destruct H as [H|[]]. subst. exists []. reflexivity.
      * exists (c :: p). rewrite H. reflexivity.
    + intros [p H]. destruct p as [|x p]; simpl in H; inversion H; subst.
      * left. rewrite N.eqb_refl. left. reflexivity.
      * right. exists p. reflexivity.
Qed.

Lemma prefixes_before_In sep s : forall p, In p (prefixes_before sep s) <-> exists t, s = p ++ sep :: t.
Proof.
  induction s as [|c s IH]; intro p; simpl.
  - split; [tauto|]. intros [t H]. destruct p; discriminate.
  - rewrite in_app_iff, in_map_iff. split.
    + intros [H|[q [Hq Hin]]].
      * destruct (c =? sep) eqn:E; [|destruct H]. apply N.eqb_eq in E. subst.
        destruct H as [H|[]]. subst. exists s. reflexivity.
      * apply IH in Hin. destruct Hin as [t Ht]. subst. exists t. reflexivity.
    + intros [t H]. destruct p as [|x p]; simpl in H; inversion H; subst.
      * left. rewrite N.eqb_refl. left. reflexivity.
      * right. exists p. split; [reflexivity|]. apply IH. exists t. reflexivity.
Qed.

Lemma dot_suffixes_In h d : In d (dot_suffixes h) <-> d = h \/ exists p, h = p ++ DOT :: d.
Proof.
  unfold dot_suffixes. rewrite <- in_rev. simpl. rewrite tails_after_In.
  split; intros [H|H]; auto.
Qed.

Lemma path_prefixes_In r p : In p (path_prefixes r) <-> p = r \/ exists t, r = p ++ SLASH :: t.
Proof.
  unfold path_prefixes. rewrite in_app_iff, prefixes_before_In. simpl.
  split; intros [H|H]; auto.
  - destruct H as [H|[]]; auto.
Qed.

(* ------------------------------------------------------------ domain match *)

(* RFC 6265 5.1.3, as a proposition: identical, or the domain is a suffix of the host, the character
   before the suffix is ".", and the host is a host name (not an IP address) *)
Definition domain_match (d h : str) : Prop :=
  d = h \/ (d <> [] /\ (exists p, h = p ++ DOT :: d) /\ is_ip h = false).

Lemma rfc_domain_match_spec d h : rfc_domain_match d h = true <-> domain_match d h.
Proof.
  unfold rfc_domain_match, domain_match. rewrite orb_true_iff, list_eqb_eq. split.
  - intros [H|H]; [left; exact H|right].
    apply andb_true_iff in H. destruct H as [H Hip].
    destruct (strip_suffix h d) as [p|] eqn:E; [|discriminate].
    apply andb_true_iff in H. destruct H as [Hl Hd].
    apply strip_suffix_sound in E. apply last_is_spec in Hl. destruct Hl as [q ->].
    split; [destruct d; [discriminate|congruence]|].
    split; [exists q; rewrite E, <- app_assoc; reflexivity|].
    apply negb_true_iff in Hip. exact Hip.
  - intros [H|[Hd [[p Hp] Hip]]]; [left; exact H|right].
    assert (E : strip_suffix h d = Some (p ++ [DOT])).
    { rewrite Hp. replace (p ++ DOT :: d) with ((p ++ [DOT]) ++ d) by (rewrite <- app_assoc; reflexivity).
      apply strip_suffix_complete. }
    rewrite E, last_is_app, Hip. destruct d; [congruence|reflexivity].
Qed.

(* the jar's own test is the same boolean function *)
Lemma is_domain_match_rfc d h : is_domain_match d h = rfc_domain_match d h.
Proof.
  unfold is_domain_match, rfc_domain_match. rewrite (list_eqb_sym h d).
  destruct (list_eqb d h); [reflexivity|]. simpl.
  destruct (strip_suffix h d) as [p|]; [|reflexivity].
  destruct d as [|x d].
  - simpl. rewrite andb_false_r. reflexivity.
  - rewrite andb_true_r. destruct (last_is DOT p); reflexivity.
Qed.

Lemma is_domain_match_spec d h : is_domain_match d h = true <-> domain_match d h.
Proof. rewrite is_domain_match_rfc. apply rfc_domain_match_spec. Qed.

Lemma is_domain_match_refl d : is_domain_match d d = true.
Proof. unfold is_domain_match. rewrite list_eqb_refl. reflexivity. Qed.

Lemma domain_match_nonempty d h : domain_match d h -> h <> [] -> d <> [].
Proof. intros [H|[H _]] Hh; congruence. Qed.

(* a domain reached by the jar's suffix enumeration domain-matches the request host *)
Lemma dot_suffix_domain_match h d :
  In d (dot_suffixes h) -> d <> [] -> is_ip h = false -> domain_match d h.
Proof.
  intros Hin Hd Hip. apply dot_suffixes_In in Hin. destruct Hin as [H|H]; [left; exact H|right]. auto.
Qed.

(* ------------------------------------------------------------ rstrip *)

Lemma rstrip_unfold sep c t :
  rstrip sep (c :: t) = match rstrip sep t with
                        | [] => if c =? sep then [] else [c]
                        | t' => c :: t'
                        end.
Proof. reflexivity. Qed.

Lemma rstrip_spec sep s : exists k, s = rstrip sep s ++ repeat sep k.
Proof.
  induction s as [|c s IHs].
  - exists 0%nat. reflexivity.
  - destruct IHs as [k IH]. rewrite rstrip_unfold. destruct (rstrip sep s) as [|y t'] eqn:E.
    + destruct (c =? sep) eqn:F.
      * apply N.eqb_eq in F. subst c. exists (S k). simpl in *. rewrite IH at 1. reflexivity.
      * exists k. simpl in *. rewrite IH at 1. reflexivity.
    + exists k. simpl in *. rewrite IH at 1. reflexivity.
Qed.

(* ------------------------------------------------------------ path match *)

(* RFC 6265 5.1.4: cookie-path c, request-path r *)
Definition path_match (c r : str) : Prop :=
  c = r \/ (exists t, r = c ++ t /\ (last_is SLASH c = true \/ first_is SLASH t = true)).

Lemma starts_with_app p t : starts_with p (p ++ t) = true.
Proof. induction p as [|x p IH]; simpl; [reflexivity|]. rewrite N.eqb_refl. exact IH. Qed.

Lemma starts_with_spec p : forall s, starts_with p s = true -> exists t, s = p ++ t.
Proof.
  induction p as [|x p IH]; intros s H.
  - exists s. reflexivity.
  - destruct s as [|y s]; simpl in H; [discriminate|].
    apply andb_true_iff in H. destruct H as [E H]. apply N.eqb_eq in E. subst.
    destruct (IH _ H) as [t ->]. exists t. reflexivity.
Qed.

Lemma skipn_length_app {A} (p t : list A) : skipn (length p) (p ++ t) = t.
Proof. induction p; simpl; auto. Qed.

Lemma rfc_path_match_spec c r : rfc_path_match c r = true <-> path_match c r.
Proof.
  unfold rfc_path_match, path_match. rewrite orb_true_iff, list_eqb_eq. split.
  - intros [H|H]; [left; exact H|right].
    apply andb_true_iff in H. destruct H as [Hs H].
    apply starts_with_spec in Hs. destruct Hs as [t ->]. exists t. split; [reflexivity|].
    rewrite skipn_length_app in H. apply orb_true_iff in H. exact H.
  - intros [H|[t [-> H]]]; [left; exact H|right].
    rewrite starts_with_app, skipn_length_app. simpl. apply orb_true_iff. exact H.
Qed.

Lemma repeat_snoc {A} (x : A) k : repeat x (S k) = repeat x k ++ [x].
Proof. induction k; simpl; [reflexivity|]. f_equal. exact IHk. Qed.

(* what the jar checks about paths -- the key path.rstrip("/") is one of the request path's "/"-separated
   ancestors and the cookie's own path is a prefix of the request path -- implies RFC path-match *)
Lemma jar_path_sound cp r :
  In (rstrip SLASH cp) (path_prefixes r) ->
  starts_with cp r = true ->
  path_match cp r.
Proof.
  intros Hin Hsw. apply starts_with_spec in Hsw. destruct Hsw as [t Ht].
  destruct (rstrip_spec SLASH cp) as [k Hk].
  set (pk := rstrip SLASH cp) in *.
  destruct k as [|k].
  - simpl in Hk. rewrite app_nil_r in Hk.
    apply path_prefixes_In in Hin. destruct Hin as [H|[t' H]].
    + left. congruence.
    + right. exists (SLASH :: t'). split; [rewrite Hk; exact H|]. right. reflexivity.
  - right. exists t. split; [exact Ht|]. left. rewrite Hk, repeat_snoc, app_assoc. apply last_is_app.
Qed.

(* ------------------------------------------------------------ default path *)

Lemma before_last_first sep : forall s p, before_last sep s = Some p -> p <> [] ->
  exists c t, s = c :: t /\ exists p', p = c :: p'.
Proof.
  intros s p H Hp. destruct s as [|c t]; simpl in H; [discriminate|].
  destruct (before_last sep t) as [q|].
  - inversion H. subst. eauto.
  - destruct (c =? sep); inversion H. subst. congruence.
Qed.

Lemma default_path_first up : first_is SLASH (default_path up) = true.
Proof.
  unfold default_path. destruct (first_is SLASH up) eqn:E; [|reflexivity].
  destruct (before_last SLASH up) as [[|x p]|] eqn:F; try reflexivity.
  destruct (before_last_first _ _ _ F) as [c [t [-> [p' Hp]]]]; [discriminate|].
  inversion Hp. subst. exact E.
Qed.
