(* C15 — proofs about the Range parsing and slice arithmetic of Model/Static.v *)
From Coq Require Import ZifyBool ZifyN.
From AV Require Import Lib.Base Generated.StaticGen Model.Static Model.StaticSpec.
Ltac Zify.zify_post_hook ::= Z.to_euclidean_division_equations.
Open Scope Z_scope.

(* ---------------------------------------------------------------- parsing *)

Lemma strip_prefix_app p s : strip_prefix p (p ++ s) = Some s.
Proof. induction p as [|x p IH]; cbn [strip_prefix app]; [reflexivity|]. rewrite N.eqb_refl. exact IH. Qed.

Lemma strip_prefix_inv p : forall s r, strip_prefix p s = Some r -> s = p ++ r.
Proof.
  induction p as [|x p IH]; intros s r H; cbn [strip_prefix] in H.
  - inversion H. reflexivity.
  - destruct s as [|y s]; [discriminate|]. destruct (x =? y)%N eqn:E; [|discriminate].
    apply N.eqb_eq in E. subst y. cbn [app]. f_equal. apply IH. exact H.
Qed.

Lemma span_digits_all d : all_digits d -> span_digits d = (d, []).
Proof.
  unfold all_digits. induction d as [|c d IH]; cbn [span_digits forallb]; intro H; [reflexivity|].
  apply andb_true_iff in H as [Hc Hd]. rewrite Hc. rewrite (IH Hd). reflexivity.
Qed.

Lemma span_digits_stop d c r : all_digits d -> range_digit c = false -> span_digits (d ++ c :: r) = (d, c :: r).
Proof.
  unfold all_digits. induction d as [|x d IH]; cbn [span_digits forallb app]; intros H Hc.
  - rewrite Hc. reflexivity.
  - apply andb_true_iff in H as [Hx Hd]. rewrite Hx. rewrite (IH Hd Hc). reflexivity.
Qed.

Lemma span_digits_inv s : forall d r, span_digits s = (d, r) ->
  s = d ++ r /\ all_digits d /\ match r with c :: _ => range_digit c = false | [] => True end.
Proof.
  unfold all_digits. induction s as [|c s IH]; intros d r H; cbn [span_digits] in H.
  - inversion H. cbn. auto.
  - destruct (range_digit c) eqn:E.
    + destruct (span_digits s) as [d' t] eqn:E2. inversion H; subst. clear H.
      destruct (IH d' r eq_refl) as (H1 & H2 & H3). subst s. cbn [app forallb]. rewrite E, H2. auto.
    + inversion H; subst. cbn. auto.
Qed.

Lemma sep_not_digit : range_digit range_sep = false.
Proof. vm_compute. reflexivity. Qed.
Lemma lf_not_digit : range_digit 10%N = false.
Proof. vm_compute. reflexivity. Qed.

Lemma match_range_header d1 d2 : all_digits d1 -> all_digits d2 -> match_range (range_header d1 d2) = Some (d1, d2).
Proof.
  intros H1 H2. unfold match_range, range_header. rewrite strip_prefix_app.
  rewrite (span_digits_stop d1 range_sep d2 H1 sep_not_digit). rewrite N.eqb_refl.
  rewrite (span_digits_all d2 H2). reflexivity.
Qed.

Lemma match_range_header_lf d1 d2 : all_digits d1 -> all_digits d2 ->
  match_range (range_header d1 d2 ++ [10%N]) = Some (d1, d2).
Proof.
  intros H1 H2. unfold match_range, range_header. rewrite <- app_assoc. rewrite strip_prefix_app.
  rewrite <- app_assoc. cbn [app]. rewrite (span_digits_stop d1 range_sep (d2 ++ [10%N]) H1 sep_not_digit).
  rewrite N.eqb_refl. rewrite (span_digits_stop d2 10%N [] H2 lf_not_digit). reflexivity.
Qed.

(* completeness of the grammar: anything accepted has exactly this shape *)
Lemma match_range_inv h d1 d2 : match_range h = Some (d1, d2) ->
  all_digits d1 /\ all_digits d2 /\ (h = range_header d1 d2 \/ h = range_header d1 d2 ++ [10%N]).
Proof.
  unfold match_range, range_header. intro H.
  destruct (strip_prefix range_prefix h) as [r|] eqn:E; [|discriminate].
  apply strip_prefix_inv in E. subst h.
  destruct (span_digits r) as [a r1] eqn:E1. apply span_digits_inv in E1 as (-> & Ha & _).
  destruct r1 as [|c r2]; [discriminate|].
  destruct (c =? range_sep)%N eqn:Ec; [|discriminate]. apply N.eqb_eq in Ec. subst c.
  destruct (span_digits r2) as [b r3] eqn:E2. apply span_digits_inv in E2 as (-> & Hb & _).
  destruct r3 as [|c3 r4].
  - inversion H; subst. rewrite app_nil_r. auto.
  - destruct r4; [|discriminate].
    destruct ((c3 =? 10)%N && range_end_allows_trailing_lf) eqn:E3; [|discriminate].
    inversion H; subst. apply andb_true_iff in E3 as [E3 _]. apply N.eqb_eq in E3. subst c3.
    split; [assumption|]. split; [assumption|]. right. rewrite <- !app_assoc. reflexivity.
Qed.

(* ---------------------------------------------------------------- decimal values *)

Lemma digit_range c : range_digit c = true -> (48 <= c <= 57)%N.
Proof. unfold range_digit. lia. Qed.

Lemma dec_value_ge d : forall acc, all_digits d -> 0 <= acc -> acc <= dec_value acc d.
Proof.
  unfold all_digits. induction d as [|c d IH]; intros acc H Hacc; cbn [dec_value forallb] in *; [lia|].
  apply andb_true_iff in H as [Hc Hd]. apply digit_range in Hc.
  specialize (IH (acc * 10 + (Z.of_N c - 48)) Hd). lia.
Qed.

Lemma dec_value_nonneg d : all_digits d -> 0 <= dec_value 0 d.
Proof. intro H. apply (dec_value_ge d 0 H). lia. Qed.

Lemma dec_value_app a b : forall acc, dec_value acc (a ++ b) = dec_value (dec_value acc a) b.
Proof. induction a as [|c a IH]; intro acc; cbn [dec_value app]; [reflexivity|apply IH]. Qed.

(* printing then reading a natural number gives it back, and only digits are printed *)
Lemma dec_digits_spec : forall fuel n rest, (N.to_nat n < 2 ^ fuel)%nat -> (0 < fuel)%nat ->
  exists ds, dec_digits fuel n rest = ds ++ rest /\ all_digits ds /\ ds <> [] /\
             forall acc, dec_value acc ds = acc * 10 ^ Z.of_nat (length ds) + Z.of_N n.
Proof.
  induction fuel as [|k IH]; intros n rest Hn Hf; [lia|].
  cbn [dec_digits].
  assert (Hd : range_digit (48 + n mod 10)%N = true).
  { unfold range_digit. assert (n mod 10 < 10)%N by (apply N.mod_lt; lia). lia. }
  destruct (n / 10 =? 0)%N eqn:E.
  - exists [(48 + n mod 10)%N]. split; [reflexivity|]. split; [unfold all_digits; cbn [forallb]; rewrite Hd; reflexivity|].
    split; [discriminate|]. intro acc. cbn [dec_value length]. apply N.eqb_eq in E.
    assert (n = n mod 10)%N by (pose proof (N.div_mod n 10); lia). lia.
  - apply N.eqb_neq in E.
    assert (Hk : (0 < k)%nat).
    { destruct k; [|lia]. cbn in Hn. assert (n = 0)%N by lia. subst n. cbn in E. congruence. }
    assert (Hn' : (N.to_nat (n / 10) < 2 ^ k)%nat).
    { assert (n / 10 <= n / 2)%N by (apply N.div_le_compat_l; lia).
      assert (N.to_nat (n / 2) < 2 ^ k)%nat.
      { rewrite Nat.pow_succ_r' in Hn. assert (N.to_nat (n / 2) = N.to_nat n / 2)%nat.
        { rewrite N2Nat.inj_div. reflexivity. }
        rewrite H0. apply Nat.div_lt_upper_bound; lia. }
      lia. }
    destruct (IH (n / 10)%N ((48 + n mod 10)%N :: rest) Hn' Hk) as (ds & H1 & H2 & H3 & H4).
    exists (ds ++ [(48 + n mod 10)%N]). split; [rewrite H1, <- app_assoc; reflexivity|].
    split.
    { unfold all_digits in *. rewrite forallb_app, H2. cbn [forallb]. rewrite Hd. reflexivity. }
    split; [destruct ds; discriminate|].
    intro acc. rewrite dec_value_app, H4. cbn [dec_value]. rewrite app_length. cbn [length].
    rewrite Nat2Z.inj_add. rewrite Z.pow_add_r by lia. change (Z.of_nat 1) with 1. rewrite Z.pow_1_r.
    pose proof (N.div_mod n 10). assert (n mod 10 < 10)%N by (apply N.mod_lt; lia). nia.
Qed.

Lemma size_nat_bound n : (N.to_nat n < 2 ^ N.size_nat n)%nat.
Proof.
  destruct n as [|p]; [cbn; lia|]. cbn [N.size_nat N.to_nat].
  induction p as [p IH|p IH|]; cbn [Pos.size_nat].
  - rewrite Pos2Nat.inj_xI, Nat.pow_succ_r'. lia.
  - rewrite Pos2Nat.inj_xO, Nat.pow_succ_r'. lia.
  - cbn. lia.
Qed.

Lemma dec_of_N_spec n : all_digits (dec_of_N n) /\ dec_of_N n <> [] /\ dec_value 0 (dec_of_N n) = Z.of_N n.
Proof.
  unfold dec_of_N.
  destruct (dec_digits_spec (S (N.size_nat n)) n []) as (ds & H1 & H2 & H3 & H4).
  - rewrite Nat.pow_succ_r'. pose proof (size_nat_bound n). lia.
  - lia.
  - rewrite H1, app_nil_r. split; [assumption|]. split; [assumption|]. rewrite H4. lia.
Qed.

Lemma dec_of_Z_roundtrip z : 0 <= z -> all_digits (dec_of_Z z) /\ dec_value 0 (dec_of_Z z) = z.
Proof.
  intro H. destruct z as [|p|p]; try lia; unfold dec_of_Z.
  - destruct (dec_of_N_spec (Z.to_N 0)) as (A & _ & B). auto.
  - destruct (dec_of_N_spec (Z.to_N (Z.pos p))) as (A & _ & B). split; [assumption|]. rewrite B. lia.
Qed.

(* ---------------------------------------------------------------- http_range *)

Lemma conv_group_digits d : all_digits d -> (lenN d <= INT_MAX_STR_DIGITS)%N ->
  conv_group d = Some (match d with [] => None | _ => Some (dec_value 0 d) end).
Proof.
  intros _ Hl. unfold conv_group, py_int. destruct d as [|c d]; [reflexivity|].
  destruct (INT_MAX_STR_DIGITS <? lenN (c :: d))%N eqn:E; [lia|reflexivity].
Qed.

Lemma py_int_some d v : py_int d = Some v -> v = dec_value 0 d.
Proof. unfold py_int. destruct (INT_MAX_STR_DIGITS <? lenN d)%N; congruence. Qed.

(* every accepted Range value gives start/stop with these shapes *)
Lemma http_range_shape h st e : http_range h = HR_ok st e ->
  match st, e with
  | None, None => h = None
  | None, Some _ => False
  | Some s, None => True
  | Some s, Some ev => 0 <= s < ev
  end.
Proof.
  unfold http_range. destruct h as [s|]; [|intro H; inversion H; reflexivity].
  destruct (match_range s) as [[d1 d2]|] eqn:Em; [|discriminate].
  apply match_range_inv in Em as (H1 & H2 & _).
  unfold conv_group.
  destruct d2 as [|c2 d2'].
  - destruct d1 as [|c1 d1']; [discriminate|].
    destruct (py_int (c1 :: d1')); [|discriminate]. intro H; inversion H; subst. exact I.
  - destruct (py_int (c2 :: d2')) as [ev|] eqn:E2; [|discriminate].
    destruct d1 as [|c1 d1'].
    + destruct (suffix_zero_test ev); [discriminate|]. intro H; inversion H; subst. exact I.
    + destruct (py_int (c1 :: d1')) as [sv|] eqn:E1; [|discriminate].
      destruct (range_empty_test sv (end_adjust ev)) eqn:E3; [discriminate|].
      intro H; inversion H; subst. unfold range_empty_test, end_adjust in *.
      apply py_int_some in E1. pose proof (dec_value_nonneg _ H1). lia.
Qed.

Lemma http_range_suffix h s : http_range h = HR_ok (Some s) None -> s < 0 \/ 0 <= s.
Proof. lia. Qed.

(* ---------------------------------------------------------------- the decision *)

(* safety for EVERY header value and size: a 206 always describes a non-empty slice inside the file *)
Lemma decision_206_bounds sz gate h st n cr : 0 <= sz ->
  range_decision sz gate h = D206 st n cr ->
  0 <= st /\ 0 < n /\ st + n <= sz /\ cr = cr_sat st n sz.
Proof.
  intros Hsz. unfold range_decision. destruct gate; [|discriminate].
  destruct (http_range h) as [s e|] eqn:E; [|discriminate].
  pose proof (http_range_shape h s e E) as Sh.
  destruct s as [s|]; [|discriminate].
  unfold tail_test, tail_clamp, tail_start, tail_count, range_count, unsat_test.
  destruct e as [ev|].
  - cbn [andb]. rewrite andb_false_r.
    destruct (sz <=? s) eqn:E1; [discriminate|]. intro H; inversion H; subst; repeat split; try reflexivity; lia.
  - rewrite andb_true_r. destruct (s <? 0) eqn:E0.
    + destruct (s + sz <? 0) eqn:E1.
      * destruct (sz <=? 0) eqn:E2; [discriminate|]. intro H; inversion H; subst; repeat split; try reflexivity; lia.
      * destruct (sz <=? s + sz) eqn:E2; [discriminate|]. intro H; inversion H; subst; repeat split; try reflexivity; lia.
    + destruct (sz <=? s) eqn:E1; [discriminate|]. intro H; inversion H; subst; repeat split; try reflexivity; lia.
Qed.

Lemma decision_200 sz gate h n : range_decision sz gate h = D200 n -> n = sz /\ (gate = false \/ h = None).
Proof.
  unfold range_decision. destruct gate; [|intro H; inversion H; auto].
  destruct (http_range h) as [s e|] eqn:E; [|discriminate].
  destruct s as [s|].
  - destruct (tail_test s match e with Some _ => false | None => true end);
      match goal with |- context [unsat_test ?a ?b] => destruct (unsat_test a b) end; discriminate.
  - intro H; inversion H. split; [reflexivity|]. right.
    pose proof (http_range_shape h None e E) as Sh. destruct e; [contradiction|assumption].
Qed.

Lemma decision_416 sz gate h cr : range_decision sz gate h = D416 cr -> cr = cr_unsat sz /\ gate = true /\ h <> None.
Proof.
  unfold range_decision. destruct gate; [|discriminate].
  destruct h as [s|]; [|cbn; discriminate].
  destruct (http_range (Some s)) as [st e|]; [|intro H; inversion H; repeat split; discriminate].
  destruct st as [st|]; [|discriminate].
  destruct (tail_test st match e with Some _ => false | None => true end);
    match goal with |- context [unsat_test ?a ?b] => destruct (unsat_test a b) end;
    intro H; inversion H; repeat split; discriminate.
Qed.

Lemma decision_no_gate sz h : range_decision sz false h = D200 sz.
Proof. reflexivity. Qed.
Lemma decision_no_header sz gate : range_decision sz gate None = D200 sz.
Proof. destruct gate; reflexivity. Qed.

(* functional correctness against the RFC reading, for every well-formed header and every size *)
Lemma decision_exact sz d1 d2 : 0 <= sz -> all_digits d1 -> all_digits d2 ->
  (lenN d1 <= INT_MAX_STR_DIGITS)%N -> (lenN d2 <= INT_MAX_STR_DIGITS)%N ->
  range_decision sz true (Some (range_header d1 d2)) = expected_decision sz d1 d2.
Proof.
  intros Hsz H1 H2 L1 L2. unfold range_decision, http_range, expected_decision.
  rewrite (match_range_header d1 d2 H1 H2).
  rewrite (conv_group_digits d2 H2 L2), (conv_group_digits d1 H1 L1).
  pose proof (dec_value_nonneg d1 H1) as N1. pose proof (dec_value_nonneg d2 H2) as N2.
  unfold spec_of_groups, requested_slice.
  unfold suffix_zero_test, suffix_start, end_adjust, range_empty_test,
    tail_test, tail_clamp, tail_start, tail_count, range_count, unsat_test.
  destruct d1 as [|c1 d1']; destruct d2 as [|c2 d2'].
  - reflexivity.
  - set (ev := dec_value 0 (c2 :: d2')) in *.
    destruct (ev =? 0) eqn:E0.
    + replace (0 <? ev) with false by lia. reflexivity.
    + replace (0 <? ev) with true by lia. replace (- ev <? 0) with true by lia. cbn [andb].
      destruct (- ev + sz <? 0) eqn:E1.
      * destruct (sz <=? 0) eqn:E2.
        { replace (0 <? sz) with false by lia. reflexivity. }
        { replace (0 <? sz) with true by lia. replace (Z.min ev sz) with sz by lia.
          replace (sz - sz) with 0 by lia. replace (sz - 0) with sz by lia. reflexivity. }
      * destruct (sz <=? - ev + sz) eqn:E2; [lia|].
        replace (0 <? sz) with true by lia. replace (Z.min ev sz) with ev by lia.
        replace (sz - ev) with (- ev + sz) by lia. replace (sz - (- ev + sz)) with ev by lia. reflexivity.
  - set (sv := dec_value 0 (c1 :: d1')) in *.
    replace (sv <? 0) with false by lia. cbn [andb].
    rewrite Z.min_id. destruct (sz <=? sv) eqn:E1.
    + replace (sv <? sz) with false by lia. reflexivity.
    + replace (sv <? sz) with true by lia. reflexivity.
  - set (sv := dec_value 0 (c1 :: d1')) in *. set (ev := dec_value 0 (c2 :: d2')) in *.
    destruct (ev + 1 <=? sv) eqn:E0.
    + replace (sv <=? ev) with false by lia. reflexivity.
    + replace (sv <=? ev) with true by lia. rewrite andb_false_r. cbn [andb].
      destruct (sz <=? sv) eqn:E1.
      * replace (sv <? sz) with false by lia. reflexivity.
      * replace (sv <? sz) with true by lia.
        replace (Z.min ev (sz - 1) - sv + 1) with (Z.min (ev + 1) sz - sv) by lia. reflexivity.
Qed.

(* a value that does not have the shape "bytes=<digits>-<digits>" is answered 416 *)
Lemma decision_malformed sz h : match_range h = None -> range_decision sz true (Some h) = D416 (cr_unsat sz).
Proof. intro H. unfold range_decision, http_range. rewrite H. reflexivity. Qed.

(* the regression the `fix:` commit repaired: suffix length zero *)
Lemma suffix_zero_unsat sz d : all_digits d -> d <> [] -> dec_value 0 d = 0 -> (lenN d <= INT_MAX_STR_DIGITS)%N ->
  range_decision sz true (Some (range_header [] d)) = D416 (cr_unsat sz).
Proof.
  intros H Hne H0 L. unfold range_decision, http_range.
  assert (A : all_digits []) by reflexivity.
  rewrite (match_range_header [] d A H). rewrite (conv_group_digits d H L). cbn [conv_group].
  destruct d; [congruence|]. rewrite H0. reflexivity.
Qed.

(* ---------------------------------------------------------------- the copy loop *)

Lemma firstn_skipn_split {A} (n m : nat) (l : list A) :
  firstn (n + m) l = firstn n l ++ firstn m (skipn n l).
Proof.
  revert l; induction n as [|n IH]; intro l; [reflexivity|].
  destruct l as [|x l]; cbn [Nat.add firstn skipn app]; [rewrite firstn_nil; reflexivity|].
  f_equal. apply IH.
Qed.

Lemma fallback_loop_spec : forall fuel cs chunk rest count,
  0 < cs -> 0 < count -> chunk = firstn (Z.to_nat (Z.min cs count)) (chunk ++ rest) ->
  (length (chunk ++ rest) < fuel)%nat ->
  exists l, fallback_loop fuel cs chunk rest count = Some l /\
            concat l = firstn (Z.to_nat count) (chunk ++ rest) /\
            Forall (fun c => c <> [] /\ Z.of_nat (length c) <= cs) l.
Proof.
  induction fuel as [|k IH]; intros cs chunk rest count Hcs Hcount Hchunk Hfuel; [lia|].
  cbn [fallback_loop].
  destruct chunk as [|b chunk'] eqn:Echunk.
  - (* EOF before count bytes were read *)
    exists []. split; [reflexivity|]. split; [|constructor]. cbn [concat app] in *.
    destruct rest as [|x rest]; [rewrite firstn_nil; reflexivity|].
    exfalso. assert (Z.to_nat (Z.min cs count) = S (Z.to_nat (Z.min cs count) - 1))%nat by lia.
    rewrite H in Hchunk. cbn in Hchunk. discriminate.
  - rewrite <- Echunk in *. assert (Hne : chunk <> []) by (subst; discriminate).
    assert (Hlen : (length chunk <= Z.to_nat (Z.min cs count))%nat).
    { rewrite Hchunk at 1. apply firstn_le_length. }
    assert (Hlen0 : (0 < length chunk)%nat) by (subst chunk; cbn; lia).
    replace (match chunk with [] => Some [] | _ :: _ => _ end) with
      (let count' := count - Z.of_nat (length chunk) in
       if count' <=? 0 then Some [chunk]
       else let '(c2, rest') := file_read (Z.min cs count') rest in
            match fallback_loop k cs c2 rest' count' with Some l => Some (chunk :: l) | None => None end)
      by (subst chunk; reflexivity).
    cbv zeta. destruct (count - Z.of_nat (length chunk) <=? 0) eqn:E.
    + exists [chunk]. split; [reflexivity|]. split.
      * cbn [concat]. rewrite app_nil_r.
        assert (Z.to_nat count = length chunk) by lia.
        rewrite H. rewrite firstn_app, Nat.sub_diag, firstn_all. cbn [firstn]. rewrite app_nil_r. reflexivity.
      * constructor; [|constructor]. split; [assumption|lia].
    + set (count' := count - Z.of_nat (length chunk)) in *.
      unfold file_read. replace (Z.min cs count' <? 0) with false by lia.
      set (m := Z.to_nat (Z.min cs count')).
      destruct (IH cs (firstn m rest) (skipn m rest) count') as (l & H1 & H2 & H3); try lia.
      * rewrite firstn_skipn. reflexivity.
      * rewrite firstn_skipn. rewrite app_length in Hfuel. lia.
      * rewrite H1. exists (chunk :: l). split; [reflexivity|]. split.
        { cbn [concat]. rewrite H2, firstn_skipn.
          replace (Z.to_nat count) with (length chunk + Z.to_nat count')%nat by lia.
          rewrite firstn_skipn_split. rewrite firstn_app, Nat.sub_diag, firstn_all. cbn [firstn]. rewrite app_nil_r.
          rewrite skipn_app, Nat.sub_diag, skipn_all. reflexivity. }
        { constructor; [|assumption]. split; [assumption|lia]. }
Qed.

Lemma sendfile_fallback_exact cs content offset count :
  0 < cs -> 0 <= offset -> 0 < count ->
  exists l, sendfile_fallback cs content offset count = Some l /\
            concat l = slice content offset count /\
            Forall (fun c => c <> [] /\ Z.of_nat (length c) <= cs) l.
Proof.
  intros Hcs Hoff Hcount. unfold sendfile_fallback, slice, file_read.
  replace (Z.min cs count <? 0) with false by lia.
  set (a := skipn (Z.to_nat offset) content). set (m := Z.to_nat (Z.min cs count)).
  destruct (fallback_loop_spec (S (length content)) cs (firstn m a) (skipn m a) count) as (l & H1 & H2 & H3); try lia.
  - rewrite firstn_skipn. reflexivity.
  - rewrite firstn_skipn. unfold a. rewrite skipn_length. lia.
  - exists l. rewrite firstn_skipn in H2. auto.
Qed.

Lemma slice_length content first count : 0 <= first -> 0 <= count ->
  first + count <= Z.of_N (lenN content) -> Z.of_nat (length (slice content first count)) = count.
Proof.
  intros. unfold slice, lenN in *. rewrite firstn_length, skipn_length. lia.
Qed.

Lemma slice_whole content : slice content 0 (Z.of_N (lenN content)) = content.
Proof.
  unfold slice, lenN. change (Z.to_nat 0) with 0%nat. cbn [skipn].
  replace (Z.to_nat (Z.of_N (N.of_nat (length content)))) with (length content) by lia. apply firstn_all.
Qed.
