(* C03 support, part 6: the segmented run against one read of the bytes it consumed, with no
   hypothesis on the states at the read boundaries.  Either the two are observably equal, or the
   segmented run noticed a rejection earlier: it raised LineTooLong on an over-long partial
   chunk-size / trailer line that a previous read had left buffered and whose end has not arrived. *)
From Coq Require Import ZifyBool ZifyN.
From AV Require Import Lib.Base Lib.BytesX Generated.HttpGen Model.Http
  Proofs.HttpSegBase Proofs.HttpSegChunk Proofs.HttpSeg.
Ltac Zify.zify_post_hook ::= Z.to_euclidean_division_equations.
Open Scope N_scope.

(* split = the segmented run, one = one read of the consumed bytes *)
Definition noticed_earlier (lim : limits) (split one : fres) : Prop :=
  exists acc1,
    obs split = (None, ev_err ELineTooLong acc1, RErr ELineTooLong) /\
    (obs one = (None, ev_err ETransferEncoding acc1, RErr ETransferEncoding) \/
     exists s3 lo', obs one = (Some s3, acc1, ROk lo') /\ tail_ok lim s3 = false).

Lemma feed_bad_tail lim o s1 a1 c y : wf s1 -> tail_ok lim s1 = false ->
  feed lim o s1 (c :: y) a1 = (clr s1, ev_err ELineTooLong a1, RErr ELineTooLong).
Proof.
  intros [Hw1 _] Hok. unfold tail_ok in Hok. destruct (payload s1) as [p'|] eqn:Ep; [|discriminate].
  apply negb_false_iff in Hok.
  assert (Ht : tail s1 = []).
  { destruct (tail s1) as [|x t]; [reflexivity|]. destruct (Hw1 ltac:(discriminate)) as [A _]. discriminate. }
  rewrite feed_floop, Ht. cbn [app].
  replace (2 * length (c :: y) + 2)%nat with (S (2 * length (c :: y) + 1)) by lia.
  unfold floop. cbn [loop]. unfold clr at 1. cbn [step_f payload]. rewrite Ep.
  rewrite (feed_payload_too_long _ _ _ _ Hok), fatal_all. unfold clr. rewrite Ep. reflexivity.
Qed.

Lemma feed_nil_bad_tail lim o s1 a1 : wf s1 -> tail_ok lim s1 = false -> feed lim o s1 [] a1 = (s1, a1, ROk []).
Proof.
  intros [Hw1 _] Hok. unfold tail_ok in Hok. destruct (payload s1) as [p'|] eqn:Ep; [|discriminate].
  assert (Ht : tail s1 = []).
  { destruct (tail s1) as [|x t]; [reflexivity|]. destruct (Hw1 ltac:(discriminate)) as [A _]. discriminate. }
  rewrite feed_floop, Ht. cbn. now rewrite (clr_id _ Ht).
Qed.

(* from such a state every run that consumes at least one byte ends with that LineTooLong *)
Lemma bad_tail_run lim o s1 a1 : wf s1 -> tail_ok lim s1 = false ->
  forall segs lo, concat (consumed lim o s1 segs a1) <> [] ->
    obs (run_segs lim o s1 segs a1 lo) = (None, ev_err ELineTooLong a1, RErr ELineTooLong).
Proof.
  intros Hw Hok. induction segs as [|e segs IH]; intros lo Hne; [cbn in Hne; congruence|].
  rewrite run_segs_cons. rewrite consumed_cons in Hne.
  destruct e as [|c y].
  - rewrite (feed_nil_bad_tail lim o s1 a1 Hw Hok) in *. cbn [concat app] in Hne. apply IH. exact Hne.
  - rewrite (feed_bad_tail lim o s1 a1 c y Hw Hok). reflexivity.
Qed.

Lemma obs_lift_eq lo x y : obs x = obs y -> obs (lift lo x) = obs (lift lo y).
Proof. apply obs_lift. Qed.

Lemma seg_consumed_full_cons lim o : forall segs s d acc lo, wf s ->
  obs (run_segs lim o s (d :: segs) acc lo) =
  obs (run_segs lim o s [concat (consumed lim o s (d :: segs) acc)] acc lo) \/
  noticed_earlier lim (run_segs lim o s (d :: segs) acc lo)
                      (run_segs lim o s [concat (consumed lim o s (d :: segs) acc)] acc lo).
Proof.
  induction segs as [|e segs IH]; intros s d acc lo Hw.
  - left. rewrite consumed_cons. destruct (feed lim o s d acc) as [[s1 a1] r1] eqn:E1.
    destruct r1; cbn [concat]; rewrite app_nil_r; reflexivity.
  - rewrite consumed_cons, run_segs_cons.
    destruct (feed lim o s d acc) as [[s1 a1] r1] eqn:E1.
    destruct r1 as [l1| |]; try (left; cbn [concat]; rewrite app_nil_r, run_segs_single, E1; reflexivity).
    pose proof (feed_wf _ _ _ _ _ _ _ _ Hw E1) as Hw1.
    assert (HC : exists C', concat (consumed lim o s1 (e :: segs) a1) = e ++ C').
    { rewrite consumed_cons. destruct (feed lim o s1 e a1) as [[s2 a2] r2]. destruct r2; cbn [concat]; eauto. }
    destruct HC as [C' HC]. set (X := e ++ C') in *.
    rewrite concat_cons, HC. rewrite run_segs_single.
    destruct (feed_split_full lim o s d X acc s1 a1 l1 Hw E1) as [Heq|(Hok & (s2 & Hs2) & (p' & Ep' & Hnone) & Hone)].
    + (* the boundary is harmless: go on *)
      assert (Hone' : obs (lift lo (feed lim o s (d ++ X) acc)) =
                      obs (run_segs lim o s1 [concat (consumed lim o s1 (e :: segs) a1)] a1 (lo ++ l1))).
      { rewrite HC, run_segs_single, <- lift_lift. apply obs_lift. exact Heq. }
      destruct (IH s1 e a1 (lo ++ l1) Hw1) as [H|(acc1 & Hsp & Hon)].
      * left. rewrite H. symmetry. exact Hone'.
      * right. exists acc1. split; [exact Hsp|]. rewrite Hone'. exact Hon.
    + (* the next reads run into the re-check of the over-long buffered line *)
      right. exists a1. split.
      * apply bad_tail_run; [exact Hw1|exact Hok|]. rewrite HC. intro HX. rewrite HX in Hs2.
        rewrite (feed_nil_bad_tail lim o s1 a1 Hw1 Hok) in Hs2. discriminate.
      * destruct Hone as [(s3 & ->)|(s3 & -> & Hb & _)]; [left; reflexivity|right].
        exists s3, (lo ++ []). split; [reflexivity|exact Hb].
Qed.

Theorem seg_consumed_full lim o segs s acc lo : wf s -> segs <> [] ->
  obs (run_segs lim o s segs acc lo) =
  obs (run_segs lim o s [concat (consumed lim o s segs acc)] acc lo) \/
  noticed_earlier lim (run_segs lim o s segs acc lo)
                      (run_segs lim o s [concat (consumed lim o s segs acc)] acc lo).
Proof. intros Hw Hn. destruct segs as [|d segs]; [congruence|]. now apply seg_consumed_full_cons. Qed.
