(* Header limits are enforced while the header block is being read, by every reader of a (nested) multipart body;
   the base64 switch of a part does not depend on the letter case of the Content-Transfer-Encoding token. *)
From AV Require Import Lib.Base Lib.BytesX Generated.MultipartGen Model.Multipart Proofs.MultipartStream.
From Coq Require Import ZifyBool ZifyN ZifyNat.
Open Scope N_scope.

Lemma readline_go_len p : forall acc buf eof eager max l st,
  lenN acc <= max -> readline_go p acc buf eof eager max = (Some l, st) -> lenN l <= max.
Proof.
  induction p as [|[d seg] p IH]; intros acc buf eof eager max l st Ha H; cbn [readline_go] in H.
  - destruct (find_lf buf) as [[line rest]|].
    + destruct (max <? lenN (acc ++ line)) eqn:C; inversion H; subst. lia.
    + destruct (max <? lenN (acc ++ buf)) eqn:C; [discriminate|]. destruct eof; inversion H; subst; lia.
  - destruct (find_lf buf) as [[line rest]|].
    + destruct (max <? lenN (acc ++ line)) eqn:C; inversion H; subst. lia.
    + destruct (max <? lenN (acc ++ buf)) eqn:C; [discriminate|]. destruct eof.
      * inversion H; subst. lia.
      * eapply IH; [|exact H]. lia.
Qed.

Lemma s_readline_len max s l s' : s_readline max s = (Some l, s') -> lenN l <= (if max =? 0 then s_high (s_tick s) else max).
Proof.
  unfold s_readline. set (s0 := s_tick s). set (m := if max =? 0 then s_high s0 else max).
  destruct (readline_go (s_pending s0) (@nil N) (s_buf s0) (s_eof s0) (s_eager s0) m) as [r [[b p] e]] eqn:R.
  intro H; inversion H; subst. eapply readline_go_len; [|exact R]. rewrite lenN_nil0. lia.
Qed.

Lemma rstrip_go_len (f : N -> bool) : forall r,
  (length ((fix go (r : bytes) : bytes := match r with c :: r' => if f c then go r' else r | [] => [] end) r) <= length r)%nat.
Proof. induction r as [|c r IH]; [cbn; lia|]. cbn. destruct (f c); [lia|cbn; lia]. Qed.

Lemma rstrip_with_len f b : lenN (rstrip_with f b) <= lenN b.
Proof.
  unfold rstrip_with, lenN. rewrite rev_length. pose proof (rstrip_go_len f (rev b)) as H. rewrite rev_length in H. lia.
Qed.

(* _read_headers: every line that is accepted is at most max_field_size long, and at most max_headers lines are
   accepted - the tests are made line by line, before the next line is read *)
Theorem read_header_lines_limits fuel : forall lines r s ls s',
  0 < r_max_field r ->
  read_header_lines fuel lines r s = Ok (ls, s') ->
  (Forall (fun l => lenN l <= r_max_field r) lines -> Forall (fun l => lenN l <= r_max_field r) ls) /\
  lenN ls <= N.max (lenN lines) (r_max_headers r).
Proof.
  induction fuel as [|f IH]; intros lines r s ls s' Hm H; [discriminate|]. cbn [read_header_lines] in H.
  destruct (s_readline (r_max_field r) s) as [[l|] s1] eqn:R; [|discriminate].
  apply s_readline_len in R. destruct (r_max_field r =? 0) eqn:Z; [lia|].
  destruct (is_nil (rstrip_crlf l)).
  - inversion H; subst. split; [tauto|lia].
  - unfold too_many_headers in H. destruct (r_max_headers r <? lenN lines + 1) eqn:T; [discriminate|].
    destruct (IH _ _ _ _ _ Hm H) as [I1 I2]. split.
    + intro F. apply I1. apply Forall_app. split; [exact F|]. constructor; [|constructor].
      pose proof (rstrip_with_len is_crlf_byte l). unfold rstrip_crlf. lia.
    + rewrite lenN_app in I2. change (lenN [rstrip_crlf l]) with 1 in I2. lia.
Qed.

Corollary fresh_header_block_limits fuel r s ls s' :
  0 < r_max_field r -> read_header_lines fuel [] r s = Ok (ls, s') ->
  Forall (fun l => lenN l <= r_max_field r) ls /\ lenN ls <= r_max_headers r.
Proof.
  intros Hm H. destruct (read_header_lines_limits _ _ _ _ _ _ Hm H) as [A B]. split; [apply A; constructor|].
  rewrite lenN_nil0 in B. lia.
Qed.

(* the limits of a reader *)
Definition limits_of (r : reader) : N * N * N := (r_max_field r, r_max_headers r, r_client_max r).

Lemma nested_reader_limits r b form : limits_of (nested_reader r b form) = limits_of r.
Proof. reflexivity. Qed.

Lemma make_part_nested_limits r hs hs' c : make_part r hs = Ok (FNested hs' c) -> limits_of c = limits_of r.
Proof.
  unfold make_part. destruct (is_multipart_ctype _).
  - destruct (negb _); [discriminate|]. destruct (mime_boundary _); [|discriminate].
    destruct (max_boundary_len <? _); [discriminate|]. intro H; inversion H; subst. apply nested_reader_limits.
  - destruct (r_form r && _); [discriminate|]. destruct (r_form r); [discriminate|].
    destruct (get_header h_content_length hs); [|discriminate]. destruct (all_digits _); discriminate.
Qed.

Lemma r_upd_limits r a b u : limits_of (r_upd r a b u) = limits_of r.
Proof. reflexivity. Qed.

Lemma r_readline_limits r s l r' s' : r_readline r s = Ok (l, r', s') -> limits_of r' = limits_of r.
Proof.
  unfold r_readline. destruct (r_unread r).
  - destruct (s_readline 0 s) as [[x|] s1]; [|discriminate]. intro H; inversion H; subst. reflexivity.
  - intro H; inversion H; subst. reflexivity.
Qed.

Lemma closing_tail_limits r1 s1 r' s' : closing_tail r1 s1 = Ok (r', s') -> limits_of r' = limits_of r1.
Proof.
  unfold closing_tail.
  destruct (r_readline r1 s1) as [[[ep r2] s2]|e] eqn:R2; [|discriminate]. apply r_readline_limits in R2.
  destruct (r_readline r2 s2) as [[[nl r3] s3]|e] eqn:R3; [|discriminate]. apply r_readline_limits in R3.
  intro H; inversion H; subst. rewrite r_upd_limits. congruence.
Qed.

Lemma first_boundary_limits fuel : forall r s r' s', read_until_first_boundary fuel r s = Ok (r', s') -> limits_of r' = limits_of r.
Proof.
  induction fuel as [|f IH]; intros r s r' s' H; [discriminate|]. cbn [read_until_first_boundary] in H.
  destruct (r_readline r s) as [[[chunk r1] s1]|e] eqn:R; [|discriminate]. apply r_readline_limits in R.
  destruct (is_nil chunk); [discriminate|].
  destruct (list_eqb _ (r_boundary r)); [inversion H; subst; exact R|].
  destruct (list_eqb _ _); [apply closing_tail_limits in H; congruence|].
  rewrite (IH _ _ _ _ H). exact R.
Qed.

Lemma read_boundary_limits r s r' s' : read_boundary r s = Ok (r', s') -> limits_of r' = limits_of r.
Proof.
  unfold read_boundary. destruct (r_readline r s) as [[[chunk r1] s1]|e] eqn:R1; [|discriminate]. apply r_readline_limits in R1.
  destruct (list_eqb _ (r_boundary r)); [intro H; inversion H; subst; exact R1|].
  destruct (list_eqb _ _); [|discriminate]. intro H. apply closing_tail_limits in H. congruence.
Qed.

(* MultipartReader.next(): the reader keeps its limits and a nested reader starts with the same limits *)
Theorem reader_next_limits fuel r last s x r' s' :
  reader_next fuel r last s = Ok (x, r', s') ->
  limits_of r' = limits_of r /\ (forall hs c, x = NNested hs c -> limits_of c = limits_of r).
Proof.
  unfold reader_next. destruct (r_at_eof r).
  - intro H; inversion H; subst. split; [reflexivity|discriminate].
  - destruct (maybe_release fuel r last s) as [[[r1 s1]|e]|] eqn:M.
    3:{ intro H; inversion H; subst. split; [reflexivity|discriminate]. }
    2:{ discriminate. }
    assert (L1 : limits_of r1 = limits_of r).
    { unfold maybe_release in M. destruct last as [|p|c].
      - inversion M; subst. reflexivity.
      - destruct (release_loop fuel p s) as [[p' s0]|e]; inversion M; subst. reflexivity.
      - destruct (r_at_eof c); inversion M; subst. reflexivity. }
    set (rb := if r_at_bof r1 then _ else _).
    destruct rb as [[r2 s2]|e] eqn:RB; [|discriminate].
    assert (L2 : limits_of r2 = limits_of r1).
    { unfold rb in RB. destruct (r_at_bof r1).
      - destruct (read_until_first_boundary fuel r1 s1) as [[r3 s3]|e] eqn:F; [|discriminate].
        apply first_boundary_limits in F. inversion RB; subst. rewrite r_upd_limits. exact F.
      - apply read_boundary_limits in RB. exact RB. }
    destruct (r_at_eof r2).
    + intro H; inversion H; subst. split; [congruence|discriminate].
    + unfold fetch_next_part. destruct (read_header_lines fuel [] r2 s2) as [[lines s3]|e]; [|discriminate].
      destruct (parse_fields lines []) as [hs|e]; [|discriminate].
      destruct (make_part r2 hs) as [ft|e] eqn:MP; [|discriminate].
      destruct ft as [hs' p|hs' c| |]; intro H; inversion H; subst; (split; [congruence|]); try discriminate.
      intros hs0 c0 E. inversion E; subst. apply make_part_nested_limits in MP. congruence.
Qed.

(* the base64 switch: decided on the lower-cased token, so `Base64`, `BASE64`, ... behave like `base64` *)
Theorem make_part_b64_any_case r hs hs' p v :
  make_part r hs = Ok (FPart hs' p) -> get_header h_cte hs = Some v -> p_b64 p = list_eqb (map lower v) t_base64.
Proof.
  unfold make_part. intros H G. rewrite G in H.
  destruct (is_multipart_ctype _).
  - destruct (negb _); [discriminate|]. destruct (mime_boundary _); [|discriminate]. destruct (max_boundary_len <? _); discriminate.
  - destruct (r_form r && _); [discriminate|]. destruct (r_form r); [inversion H; subst; reflexivity|].
    destruct (get_header h_content_length hs); [|inversion H; subst; reflexivity].
    destruct (all_digits _); [inversion H; subst; reflexivity|discriminate].
Qed.
