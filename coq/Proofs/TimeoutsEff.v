(* C18 — what one step does to each request (effect characterisation of Model/Timeouts.step). *)
From Coq Require Import ZArith Lia Bool List.
From AV Require Import Lib.Base Generated.TimeoutsGen Model.Timeouts.
Open Scope Z_scope.

Lemma upd_same f t v : upd f t v t = v.
Proof. unfold upd. now rewrite N.eqb_refl. Qed.

Lemma upd_other f t v t' : t' <> t -> upd f t v t' = f t'.
Proof. intro H. unfold upd. destruct (t' =? t)%N eqn:E; [apply N.eqb_eq in E; contradiction|reflexivity]. Qed.

Lemma In_remove_t x t l : In x (remove_t t l) <-> In x l /\ x <> t.
Proof.
  unfold remove_t. rewrite filter_In. rewrite negb_true_iff, N.eqb_neq. tauto.
Qed.

Lemma NoDup_remove_t t l : NoDup l -> NoDup (remove_t t l).
Proof. intro H. unfold remove_t. now apply NoDup_filter. Qed.

Lemma In_add_closed x c l : In x (add_closed c l) <-> x = c \/ In x l.
Proof.
  unfold add_closed. destruct (memN c l) eqn:E.
  - apply memN_In in E. split; [tauto|]. intros [->|H]; assumption.
  - simpl. split; intros [H|H]; auto.
Qed.

(* ---- acquire / wake --------------------------------------------------------------------------- *)

(* the three ways a request that takes a slot continues *)
Definition acquired_form (g : gcfg) (nw : Z) (old new : tstate) : Prop :=
  (exists c, new = to_headers old c nw) \/ new = to_connect g old nw \/ new = set_pc old PResolve.

Lemma acquire_now g s t : now (acquire g s t) = now s.
Proof. unfold acquire. destruct (idle s); [destruct (dns s)|]; reflexivity. Qed.

Lemma acquire_tasks g s t t' :
  (t' <> t -> tasks (acquire g s t) t' = tasks s t') /\
  acquired_form g (now s) (tasks s t) (tasks (acquire g s t) t).
Proof.
  unfold acquire, acquired_form. destruct (idle s) as [|c r]; [destruct (dns s)|]; simpl; split;
    try (intro H; apply upd_other; assumption); rewrite upd_same; eauto.
Qed.

Lemma wake_now g s : now (wake g s) = now s.
Proof.
  unfold wake. destruct (waiters s); [reflexivity|].
  destruct (release_skips_key _); [reflexivity|]. now rewrite acquire_now.
Qed.

(* a wake-up changes at most the first queued request *)
Lemma wake_tasks g s t' :
  tasks (wake g s) t' = tasks s t' \/
  (exists ws, waiters s = t' :: ws) /\ acquired_form g (now s) (tasks s t') (tasks (wake g s) t').
Proof.
  unfold wake. destruct (waiters s) as [|w ws] eqn:W; [left; reflexivity|].
  destruct (release_skips_key _); [left; reflexivity|].
  set (s1 := mkS _ _ _ _ _ _ _ _ _).
  destruct (acquire_tasks g s1 w t') as [A B].
  destruct (N.eq_dec t' w) as [->|N].
  - right. split; [eexists; reflexivity|]. exact B.
  - left. rewrite A by assumption. reflexivity.
Qed.

(* ---- the effect of a step on the requests ------------------------------------------------------- *)

Definition ev_task (e : event) : option task :=
  match e with
  | EStart t _ | EConn t | EWritten t | EData t _ | ERead t | ECancel t | EFire t _ => Some t
  | EAdv _ | EDns => None
  end.

(* what can happen to a request that is not the subject of the event *)
Definition other_eff (g : gcfg) (nw : Z) (old new : tstate) : Prop :=
  new = old \/
  (pcs old = PWaitSlot /\ acquired_form g nw old new) \/
  (pcs old = PResolve /\ new = to_connect g old nw).

Lemma give_back_tasks s t ts' i c t' : t' <> t -> tasks (give_back s t ts' i c) t' = tasks s t'.
Proof. intro H. unfold give_back. simpl. now apply upd_other. Qed.

Lemma fail_now g s t f : now (fail g s t f) = now s.
Proof. unfold fail. destruct (holds_slot _); [rewrite wake_now|]; reflexivity. Qed.

(* the queue holds only requests that wait for a slot (part of the state invariant; needed to know
   that a wake-up never touches the request that has just ended) *)
Definition waiters_wait (s : state) : Prop :=
  forall t, In t (waiters s) -> pcs (tasks s t) = PWaitSlot.

Lemma wake_give_back_other g s t ts' i c t' :
  waiters_wait s -> t' <> t ->
  other_eff g (now s) (tasks s t') (tasks (wake g (give_back s t ts' i c)) t').
Proof.
  intros WW N. set (s1 := give_back s t ts' i c).
  destruct (wake_tasks g s1 t') as [E|[[ws W] F]].
  - left. rewrite E. unfold s1. now apply give_back_tasks.
  - right; left. unfold s1 in *. rewrite give_back_tasks in F by assumption. split.
    + apply WW. simpl in W. assert (In t' (remove_t t (waiters s))) by (rewrite W; left; reflexivity).
      apply In_remove_t in H. tauto.
    + exact F.
Qed.

Lemma wake_give_back_own g s t ts' i c :
  tasks (wake g (give_back s t ts' i c)) t = ts'.
Proof.
  set (s1 := give_back s t ts' i c).
  destruct (wake_tasks g s1 t) as [E|[[ws W] F]].
  - rewrite E. unfold s1, give_back. simpl. apply upd_same.
  - exfalso. unfold s1 in W. simpl in W.
    assert (In t (remove_t t (waiters s))) by (rewrite W; left; reflexivity).
    apply In_remove_t in H. tauto.
Qed.

Lemma fail_other g s t f t' :
  waiters_wait s -> t' <> t -> other_eff g (now s) (tasks s t') (tasks (fail g s t f) t').
Proof.
  intros WW N. unfold fail. destruct (holds_slot _).
  - now apply wake_give_back_other.
  - left. now apply give_back_tasks.
Qed.

Lemma fail_own g s t f : tasks (fail g s t f) t = failed (tasks s t) f (now s).
Proof.
  unfold fail. destruct (holds_slot _).
  - apply wake_give_back_own.
  - unfold give_back. simpl. apply upd_same.
Qed.

Ltac break_match H :=
  repeat match type of H with
  | context [match ?x with _ => _ end] => destruct x eqn:?; try discriminate H
  end.

(* every request other than the subject of the event is left alone, woken, or (EDns) starts connecting *)
Lemma step_other g s e s' t' :
  waiters_wait s -> step g s e = Some s' -> ev_task e <> Some t' ->
  other_eff g (now s) (tasks s t') (tasks s' t').
Proof.
  intros WW H N. destruct e; simpl in H, N.
  - (* EAdv *) break_match H. injection H as <-. left. reflexivity.
  - (* EStart *) assert (t' <> t) by congruence.
    break_match H; injection H as <-.
    + left. simpl. now apply upd_other.
    + left. match goal with |- context [acquire g ?s1 t] => destruct (acquire_tasks g s1 t t') as [A _] end.
      rewrite A by assumption. simpl. now apply upd_other.
    + left. match goal with |- context [acquire g ?s1 t] => destruct (acquire_tasks g s1 t t') as [A _] end.
      rewrite A by assumption. simpl. now apply upd_other.
  - (* EDns *) break_match H. injection H as <-. simpl.
    destruct (pcs (tasks s t')) eqn:P; try (left; reflexivity).
    right; right. split; [assumption|reflexivity].
  - (* EConn *) assert (t' <> t) by congruence. break_match H. injection H as <-. left. simpl. now apply upd_other.
  - (* EWritten *) assert (t' <> t) by congruence. break_match H. injection H as <-. left. simpl. now apply upd_other.
  - (* EData *) assert (t' <> t) by congruence.
    break_match H; injection H as <-; try (left; simpl; now apply upd_other);
      now apply wake_give_back_other.
  - (* ERead *) assert (t' <> t) by congruence.
    break_match H; injection H as <-; try (left; simpl; now apply upd_other); now apply fail_other.
  - (* ECancel *) assert (t' <> t) by congruence. break_match H. injection H as <-. now apply fail_other.
  - (* EFire *) assert (t' <> t) by congruence.
    break_match H; injection H as <-; try (left; simpl; now apply upd_other); now apply fail_other.
Qed.

Lemma step_now g s e s' :
  step g s e = Some s' -> now s' = match e with EAdv d => now s + d | _ => now s end.
Proof.
  intro H. destruct e; simpl in H; break_match H; injection H as <-;
    rewrite ?wake_now, ?fail_now, ?acquire_now; reflexivity.
Qed.

(* what happens to the subject of the event *)
Inductive own_eff (g : gcfg) (nw : Z) (e : event) (old new : tstate) : Prop :=
| OStartReuse c cf : e = EStart c cf -> (exists k, new = to_headers (start_ts g cf nw) k nw) -> own_eff g nw e old new
| OStartWait t cf : e = EStart t cf -> new = set_pc (enter_connect g (start_ts g cf nw) nw) PWaitSlot -> own_eff g nw e old new
| OStartGo t cf : e = EStart t cf ->
    (new = to_connect g (enter_connect g (start_ts g cf nw) nw) nw \/
     new = set_pc (enter_connect g (start_ts g cf nw) nw) PResolve) -> own_eff g nw e old new
| OConn t c : e = EConn t -> pcs old = PConnect -> new = to_headers old c nw -> own_eff g nw e old new
| OWritten t : e = EWritten t -> writer old = true -> has_conn (pcs old) = true -> new = written_ts old nw -> own_eff g nw e old new
| OPart t : e = EData t KPart -> has_conn (pcs old) = true -> paused old = false -> latched old <> Some FSockRead ->
    new = rearm_read old nw -> own_eff g nw e old new
| OHead t : e = EData t KHead -> pcs old = PHeaders -> paused old = false -> latched old <> Some FSockRead ->
    new = head_ts old nw -> own_eff g nw e old new
| OBigRead t : e = EData t KBig -> pcs old = PBody true -> paused old = false -> new = big_read_ts old nw -> own_eff g nw e old new
| OBigPause t : e = EData t KBig -> pcs old = PBody false -> paused old = false -> latched old <> Some FSockRead ->
    new = big_pause_ts old -> own_eff g nw e old new
| OEnd t r : e = EData t KEnd -> pcs old = PBody r -> paused old = false -> new = ended_ts old r -> own_eff g nw e old new
| ORead t : e = ERead t -> pcs old = PBody false -> latched old = None -> new = read_ts old nw -> own_eff g nw e old new
| OReadFail t f : e = ERead t -> pcs old = PBody false \/ pcs old = PRecv -> latched old = Some f -> new = failed old f nw -> own_eff g nw e old new
| OReadRecv t : e = ERead t -> pcs old = PRecv -> latched old = None -> new = done_ts old -> own_eff g nw e old new
| OCancel t : e = ECancel t -> pending (pcs old) = true -> new = failed old FCancelled nw -> own_eff g nw e old new
| OFireFail t w d f : e = EFire t w -> deadline old w = Some d -> d <= nw ->
    (w = TTotal /\ f = FTotal /\ awaiting (pcs old) = true \/
     w = TConn /\ f = FConnect /\ connecting (pcs old) = true \/
     w = TSock /\ f = FSockConnect /\ pcs old = PConnect \/
     w = TRead /\ f = FSockRead /\ awaiting (pcs old) = true) ->
    new = failed old f nw -> own_eff g nw e old new
| OLatchTotal t d : e = EFire t TTotal -> deadline old TTotal = Some d -> d <= nw -> pcs old = PBody false ->
    new = latch_total_ts old -> own_eff g nw e old new
| OLatchRead t d : e = EFire t TRead -> deadline old TRead = Some d -> d <= nw -> pcs old = PBody false ->
    new = latch_read_ts old -> own_eff g nw e old new.

Lemma not_awaiting_live p : awaiting p = false -> live p = true -> p = PBody false.
Proof. destruct p as [| | | | |[|]| | |]; simpl; congruence. Qed.

Lemma step_own g s e s' t :
  step g s e = Some s' -> ev_task e = Some t -> own_eff g (now s) e (tasks s t) (tasks s' t).
Proof.
  intros H E. destruct e; simpl in E; try discriminate; injection E as ->; simpl in H.
  - (* EStart *)
    break_match H; injection H as <-.
    + eapply OStartWait; [reflexivity|]. simpl. apply upd_same.
    + eapply OStartGo; [reflexivity|]. unfold acquire; simpl. destruct (dns s); simpl; rewrite !upd_same; auto.
    + eapply OStartReuse; [reflexivity|]. unfold acquire; simpl. rewrite !upd_same. eauto.
  - (* EConn *) break_match H. injection H as <-. simpl. rewrite upd_same. eapply OConn; eauto.
  - (* EWritten *) break_match H. injection H as <-. simpl. rewrite upd_same.
    match goal with H : _ && _ = true |- _ => apply andb_true_iff in H as [? ?] end. eapply OWritten; eauto.
  - (* EData *)
    break_match H; injection H as <-; simpl; rewrite ?upd_same; rewrite ?wake_give_back_own;
      try (eapply OPart; eauto; (congruence || (match goal with H : pcs _ = _ |- _ => rewrite H; reflexivity end)));
      try (eapply OHead; eauto; congruence);
      try (eapply OBigRead; eauto; congruence);
      try (eapply OBigPause; eauto; congruence);
      try (eapply OEnd; eauto; congruence).
  - (* ERead *)
    break_match H; injection H as <-; simpl; rewrite ?upd_same, ?fail_own.
    + eapply OReadFail; eauto.
    + eapply ORead; eauto.
    + eapply OReadFail; eauto.
    + eapply OReadRecv; eauto.
  - (* ECancel *) break_match H. injection H as <-. rewrite fail_own. eapply OCancel; eauto.
  - (* EFire *)
    break_match H; injection H as <-; simpl; rewrite ?upd_same, ?fail_own;
      match goal with H : (_ <=? _) = true |- _ => apply Z.leb_le in H end.
    + eapply OFireFail; eauto 8.
    + eapply OLatchTotal; eauto. now apply not_awaiting_live.
    + eapply OFireFail; eauto 8.
    + eapply OFireFail; eauto 9.
    + eapply OFireFail; eauto 9.
    + eapply OLatchRead; eauto. now apply not_awaiting_live.
Qed.
