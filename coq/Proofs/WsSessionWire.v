(* C13 — wire invariants of the WebSocket session model: at most one close frame, no data frame after it.
   Holds in every reachable state of the transition system (all interleavings), both sides. *)
From Coq Require Import List NArith Bool Arith Lia.
Import ListNotations.
From AV Require Import Generated.WsSessionGen Model.WsSession.
Open Scope N_scope.

Fixpoint count_close (l : list frame) : nat :=
  match l with [] => O | f :: r => ((if is_close_frame f then 1 else 0) + count_close r)%nat end.
(* no data frame after a close frame *)
Fixpoint ok_sent (l : list frame) : bool :=
  match l with
  | [] => true
  | f :: r => (if is_close_frame f then negb (existsb is_data_frame r) else true) && ok_sent r
  end.

Lemma count_close_app : forall l f, count_close (l ++ [f]) = (count_close l + (if is_close_frame f then 1 else 0))%nat.
Proof. induction l; intros; cbn [app count_close]; [lia | rewrite IHl; lia]. Qed.

Lemma existsb_data_app : forall l f, existsb is_data_frame (l ++ [f]) = existsb is_data_frame l || is_data_frame f.
Proof. intros. rewrite existsb_app. cbn. rewrite orb_false_r. reflexivity. Qed.

Lemma ok_sent_app_nondata : forall l f, is_data_frame f = false -> ok_sent (l ++ [f]) = ok_sent l.
Proof.
  induction l; intros f Hf; cbn [app ok_sent].
  - destruct (is_close_frame f); reflexivity.
  - rewrite IHl by assumption. rewrite existsb_data_app, Hf, orb_false_r. reflexivity.
Qed.

Lemma ok_sent_app_data : forall l f, count_close l = O -> ok_sent (l ++ [f]) = ok_sent l.
Proof.
  induction l; intros f Hc; cbn [app ok_sent].
  - destruct (is_close_frame f); reflexivity.
  - cbn [count_close] in Hc. destruct (is_close_frame a); [lia|]. cbn in Hc. rewrite IHl by lia. reflexivity.
Qed.

Definition wire (s : state) : bool * bool * list frame := (closed s, w_closing s, sent s).
Definition WInv (v : bool * bool * list frame) : Prop :=
  let '(c, w, l) := v in
  (c = false -> count_close l = O) /\ (count_close l <= 1)%nat /\ (w = false -> count_close l = O) /\ ok_sent l = true.
Definition Inv_wire (s : state) : Prop := WInv (wire s).

(* closing_write_allowed on the generated opcodes: data frames are refused once the writer is closing,
   control frames are not *)
Lemma cwa_text : closing_write_allowed (frame_opcode FText) = false. Proof. reflexivity. Qed.
Lemma cwa_close : forall c, closing_write_allowed (frame_opcode (FClose c)) = true. Proof. reflexivity. Qed.

(* ---- primitives that do not touch the wire ---- *)
Lemma wire_upd_task s t f : wire (upd_task s t f) = wire s. Proof. reflexivity. Qed.
Lemma wire_enq s r : wire (enq s r) = wire s. Proof. reflexivity. Qed.
Lemma wire_fut_done s t r : wire (fut_done s t r) = wire s.
Proof. unfold fut_done. destruct (t_fut (tasks s t)); reflexivity. Qed.
Lemma wire_finish s t r : wire (finish s t r) = wire s. Proof. reflexivity. Qed.
Lemma wire_suspend s t p d : wire (suspend s t p d) = wire s. Proof. reflexivity. Qed.
Lemma wire_release_waiter s : wire (release_waiter s) = wire s.
Proof. unfold release_waiter. destruct (q_waiter s); [rewrite wire_fut_done|]; reflexivity. Qed.
Lemma wire_feed_data s m : wire (feed_data s m) = wire s.
Proof. unfold feed_data. rewrite wire_release_waiter. reflexivity. Qed.
Lemma wire_feed_eof s : wire (feed_eof s) = wire s.
Proof. unfold feed_eof. change (wire (release_waiter (set_q_eof s true)) = wire s). rewrite wire_release_waiter. reflexivity. Qed.
Lemma wire_q_set_exception s c : wire (q_set_exception s c) = wire s.
Proof. unfold q_set_exception. cbn zeta. destruct (q_waiter _); [rewrite wire_fut_done|]; reflexivity. Qed.
Lemma wire_cancel_heartbeat s : wire (cancel_heartbeat s) = wire s. Proof. reflexivity. Qed.
Lemma wire_mark_closing s : wire (mark_closing s) = wire s. Proof. reflexivity. Qed.
Lemma wire_reset_heartbeat c s : wire (reset_heartbeat c s) = wire s.
Proof. unfold reset_heartbeat. destruct (c_hb c); [|reflexivity]. cbn zeta. destruct (hb_cb _); reflexivity. Qed.
Lemma wire_on_data_received c s : wire (on_data_received c s) = wire s.
Proof. unfold on_data_received. destruct (c_hb c); [|reflexivity]. destruct (need_reset s); reflexivity. Qed.
Lemma wire_flush c s : wire (flush_heartbeat c s) = wire s.
Proof. unfold flush_heartbeat. destruct (need_reset s); [|reflexivity].
  change (wire (reset_heartbeat c s) = wire s). apply wire_reset_heartbeat. Qed.
Lemma wire_transport_close s : wire (transport_close s) = wire s.
Proof. unfold transport_close. destruct (tr_closing s); reflexivity. Qed.
Lemma wire_close_transport c s : wire (close_transport c s) = wire s.
Proof. unfold close_transport. destruct (c_side c); [destruct (lost s)|]; try reflexivity; apply wire_transport_close. Qed.
Lemma wire_abnormal c s : wire (abnormal c s) = wire s.
Proof. unfold abnormal. rewrite wire_close_transport. reflexivity. Qed.
Lemma wire_close_ret s t k b : wire (close_ret s t k b) = wire s.
Proof. unfold close_ret. destruct k; [reflexivity|]. rewrite wire_finish. destruct (ph && negb b); reflexivity. Qed.
Lemma wire_close_exc c s t k : wire (close_exc c s t k) = wire s.
Proof. unfold close_exc. rewrite wire_close_ret, wire_abnormal. reflexivity. Qed.
Lemma wire_read_from_buffer s : wire (fst (read_from_buffer s)) = wire s.
Proof. unfold read_from_buffer. destruct (q_buf s); [destruct (q_exc s)|]; reflexivity. Qed.
Lemma wire_recv_finally s : wire (recv_finally s) = wire s.
Proof. unfold recv_finally. cbn zeta. destruct (close_wait _); [|reflexivity].
  destruct (is_close_cw _); [rewrite wire_fut_done|]; reflexivity. Qed.
Lemma wire_conn_lost c s : wire (conn_lost c s) = wire s.
Proof. unfold conn_lost. destruct (lost s); [reflexivity|]. destruct (c_side c).
  - rewrite wire_feed_eof. reflexivity.
  - destruct (proto_close _); [reflexivity|]. change (wire (feed_eof (set_lost s true)) = wire s).
    rewrite wire_feed_eof. reflexivity. Qed.
Lemma wire_deliver c s p : wire (deliver c s p) = wire s.
Proof. unfold deliver. destruct (_ || _); [reflexivity|]. cbn zeta.
  destruct (rd_exc _).
  - change (wire (on_data_received c s) = wire s). apply wire_on_data_received.
  - destruct p.
    + rewrite wire_feed_data. destruct m; apply wire_on_data_received.
    + change (wire (q_set_exception (set_rd_exc (on_data_received c s) true) code) = wire s).
      rewrite wire_q_set_exception. apply wire_on_data_received. Qed.
Lemma wire_fire_task_timeout s t : wire (fire_task_timeout s t) = wire s.
Proof. unfold fire_task_timeout. cbn zeta. rewrite wire_fut_done. reflexivity. Qed.
Lemma wire_cancel_task s t : wire (cancel_task s t) = wire s.
Proof. unfold cancel_task. cbn zeta. destruct (task_blocked _); [rewrite wire_fut_done; reflexivity|].
  destruct (t_pc _); reflexivity. Qed.
Lemma wire_advance s dt : wire (advance s dt) = wire s. Proof. reflexivity. Qed.

(* ---- the two primitives that write ---- *)
Lemma send_frame_inv s f :
  Inv_wire s -> is_close_frame f = false -> Inv_wire (fst (send_frame s f)).
Proof.
  unfold Inv_wire, send_frame, wire. intros (H1 & H2 & H3 & H4) Hf.
  destruct (w_closing s && negb (closing_write_allowed (frame_opcode f))) eqn:E; [cbn; auto|].
  destruct (tr_closing s); [cbn; auto|]. cbn [fst closed w_closing sent set_sent WInv].
  rewrite count_close_app, Hf, Nat.add_0_r. repeat split; auto.
  destruct f; try (rewrite ok_sent_app_nondata by reflexivity; assumption).
  rewrite cwa_text in E. cbn in E. rewrite andb_true_r in E. rewrite ok_sent_app_data; auto.
Qed.

Lemma close_and_send_inv s code :
  Inv_wire s -> closed s = false -> Inv_wire (fst (writer_close (mark_closed s) code)).
Proof.
  unfold Inv_wire, writer_close, send_frame, wire, mark_closed. intros (H1 & H2 & H3 & H4) Hc.
  specialize (H1 Hc).
  cbn [w_closing set_w_closing cancel_heartbeat set_closed set_hb_cb set_need_reset set_ready set_pong_cb tr_closing sent closed].
  rewrite cwa_close. cbn [negb andb].
  destruct (tr_closing s); cbn [fst closed w_closing sent set_sent set_w_closing WInv].
  - repeat split; intros; try discriminate; try lia; auto.
  - rewrite count_close_app, H1. cbn. repeat split; intros; try discriminate; try lia.
    rewrite ok_sent_app_nondata by reflexivity. assumption.
Qed.

Lemma closed_after_close_and_send s code : closed (fst (writer_close (mark_closed s) code)) = true.
Proof. unfold writer_close, send_frame. destruct (_ && _); [reflexivity|]. destruct (tr_closing _); reflexivity. Qed.

(* once the writer is closing every data frame is refused, whatever else happens in between: this is what keeps
   a data frame from following the close frame even if WebSocketWriter.close() is suspended in its drain *)
Lemma data_refused_when_closing s : w_closing s = true -> send_frame s FText = (s, true).
Proof. intros H. unfold send_frame. rewrite H, cwa_text. reflexivity. Qed.
Lemma writer_close_flag_first s code : writer_close s code = send_frame (set_w_closing s true) (FClose code).
Proof. reflexivity. Qed.

Ltac wire_simpl :=
  repeat first
    [ rewrite wire_finish | rewrite wire_suspend | rewrite wire_close_ret | rewrite wire_close_exc
    | rewrite wire_close_transport | rewrite wire_abnormal | rewrite wire_feed_data | rewrite wire_fut_done
    | rewrite wire_recv_finally | rewrite wire_upd_task | rewrite wire_enq | rewrite wire_transport_close ].

Lemma Inv_wire_ext s s' : wire s' = wire s -> Inv_wire s -> Inv_wire s'.
Proof. unfold Inv_wire. intros ->. auto. Qed.

Lemma close_read_loop_wire c buf : forall s t k d, wire (close_read_loop c buf s t k d) = wire s.
Proof.
  induction buf as [|m rest IH]; intros; cbn [close_read_loop].
  - destruct (q_eof s); [apply wire_close_exc|]. destruct (q_waiter s); [apply wire_close_exc|].
    rewrite wire_suspend. reflexivity.
  - cbn zeta. destruct m; try (rewrite IH; reflexivity).
    rewrite wire_close_ret, wire_close_transport. reflexivity.
Qed.

Lemma close_read_resume_wire c s t k d : wire (close_read_resume c s t k d) = wire s.
Proof.
  unfold close_read_resume. destruct (q_buf s); [|apply close_read_loop_wire].
  destruct (c_side c); [apply wire_close_exc|]. destruct (_ && _); [|apply wire_close_exc].
  rewrite wire_close_ret, wire_close_transport. reflexivity.
Qed.

Lemma server_close_tail_wire c s t k : wire (server_close_tail c s t k) = wire s.
Proof. unfold server_close_tail. destruct (closing s).
  - rewrite wire_close_ret, wire_close_transport. reflexivity.
  - apply close_read_loop_wire. Qed.

Lemma client_close_body_inv c s t k code : Inv_wire s -> Inv_wire (client_close_body c s t k code).
Proof.
  intros H. unfold client_close_body. destruct (closed s) eqn:Ec.
  - eapply Inv_wire_ext; [apply wire_close_ret|assumption].
  - pose proof (close_and_send_inv s code H Ec) as H'.
    destruct (writer_close (mark_closed s) code) as [s1 raised]. cbn [fst] in H'.
    destruct raised.
    + eapply Inv_wire_ext; [apply wire_close_exc|assumption].
    + destruct (truthy_code _).
      * eapply Inv_wire_ext; [|exact H']. rewrite wire_close_ret, wire_close_transport.
        destruct k as [|m ph]; [reflexivity|destruct ph; reflexivity].
      * eapply Inv_wire_ext; [apply close_read_loop_wire|assumption].
Qed.

Lemma close_entry_inv c s t k code : Inv_wire s -> Inv_wire (close_entry c s t k code).
Proof.
  intros H. unfold close_entry. destruct (c_side c).
  - destruct (closed s) eqn:Ec.
    + eapply Inv_wire_ext; [apply wire_close_ret|assumption].
    + pose proof (close_and_send_inv s code H Ec) as H'.
      destruct (writer_close (mark_closed s) code) as [s1 raised]. cbn [fst] in H'.
      destruct raised.
      * eapply Inv_wire_ext; [apply wire_close_exc|assumption].
      * destruct (waiting s1).
        -- destruct (close_wait s1).
           ++ eapply Inv_wire_ext; [apply wire_finish|assumption].
           ++ eapply Inv_wire_ext; [|exact H']. rewrite wire_suspend, wire_feed_data. reflexivity.
        -- eapply Inv_wire_ext; [apply server_close_tail_wire|assumption].
  - destruct (waiting s && negb (closing s)).
    + eapply Inv_wire_ext; [|exact H]. rewrite wire_suspend, wire_feed_data. reflexivity.
    + apply client_close_body_inv. assumption.
Qed.

Definition lres_state (r : lres) : state := match r with Stop s => s | Cont s => s end.

Lemma recv_handle_inv c s t r : Inv_wire s -> Inv_wire (lres_state (recv_handle c s t r)).
Proof.
  intros H. unfold recv_handle. destruct r as [m|code| | |].
  - destruct m; cbn [lres_state]; try (eapply Inv_wire_ext; [apply wire_finish|assumption]).
    + (* ping *) destruct (c_autoping c); [|eapply Inv_wire_ext; [apply wire_finish|assumption]].
      pose proof (send_frame_inv s FPong H eq_refl) as H'. destruct (send_frame s FPong) as [s1 raised].
      cbn [fst] in H'. destruct raised; cbn [lres_state]; [eapply Inv_wire_ext; [apply wire_finish|assumption]|assumption].
    + destruct (c_autoping c); cbn [lres_state]; [assumption|eapply Inv_wire_ext; [apply wire_finish|assumption]].
    + (* close *) destruct (_ && _); cbn [lres_state].
      * apply close_entry_inv. eapply Inv_wire_ext; [|exact H]. reflexivity.
      * eapply Inv_wire_ext; [|exact H]. rewrite wire_finish. reflexivity.
    + (* closing *) eapply Inv_wire_ext; [|exact H]. rewrite wire_finish. destruct (c_side c); [destruct (closed s)|]; reflexivity.
  - cbn [lres_state]. apply close_entry_inv. eapply Inv_wire_ext; [|exact H].
    destruct (c_side c); [destruct (closed s)|]; reflexivity.
  - cbn [lres_state]. apply close_entry_inv. eapply Inv_wire_ext; [|exact H]. destruct (closed s); reflexivity.
  - cbn [lres_state]. eapply Inv_wire_ext; [|exact H]. rewrite wire_finish. destruct (c_side c); reflexivity.
  - cbn [lres_state]. eapply Inv_wire_ext; [|exact H]. rewrite wire_finish. destruct (c_side c); reflexivity.
Qed.

Lemma recv_loop_inv c buf : forall s t, Inv_wire s -> Inv_wire (recv_loop c buf s t).
Proof.
  induction buf as [|m rest IH]; intros s t H; cbn [recv_loop];
  (destruct (waiting s); [eapply Inv_wire_ext; [apply wire_finish|assumption]|]);
  (destruct (closed s);
   [destruct (c_side c); [destruct (_ <=? _)|]; (eapply Inv_wire_ext; [|exact H]); rewrite wire_finish; reflexivity|]);
  (destruct (closing s);
   [destruct (c_side c); [eapply Inv_wire_ext; [apply wire_finish|assumption]|apply close_entry_inv; assumption]|]);
  cbn zeta.
  - destruct (q_eof _).
    + assert (H1 : Inv_wire (recv_finally (set_waiting s true))).
      { eapply Inv_wire_ext; [|exact H]. rewrite wire_recv_finally. reflexivity. }
      match goal with |- context [recv_handle c ?s0 t ?r] => pose proof (recv_handle_inv c s0 t r H1) as H2;
        destruct (recv_handle c s0 t r) end; exact H2.
    + destruct (q_waiter _).
      * apply close_entry_inv. eapply Inv_wire_ext; [|exact H].
        transitivity (wire (recv_finally (set_waiting s true))); [reflexivity|rewrite wire_recv_finally; reflexivity].
      * eapply Inv_wire_ext; [|exact H]. rewrite wire_suspend. reflexivity.
  - assert (H1 : Inv_wire (recv_finally (set_q_buf (set_waiting s true) rest))).
    { eapply Inv_wire_ext; [|exact H]. rewrite wire_recv_finally. reflexivity. }
    pose proof (recv_handle_inv c _ t (RRMsg m) H1) as H2.
    destruct (recv_handle c _ t (RRMsg m)); cbn [lres_state] in H2; [assumption|apply IH; assumption].
Qed.

Lemma start_op_inv c s t o : Inv_wire s -> Inv_wire (start_op c s t o).
Proof.
  intros H. destruct o; cbn [start_op].
  - apply recv_loop_inv. assumption.
  - apply close_entry_inv. assumption.
  - match goal with |- context [send_frame s ?f] => pose proof (send_frame_inv s f H) as H'; destruct (send_frame s f) as [s1 raised] end.
    cbn [fst] in H'. eapply Inv_wire_ext; [apply wire_finish|]. apply H'. destruct k; reflexivity.
Qed.

Lemma run_wake_inv c s t : Inv_wire s -> Inv_wire (run_wake c s t).
Proof.
  intros H. unfold run_wake. cbn zeta. destruct (t_pc (tasks s t)) as [|o| |kk code|kk|r]; try assumption.
  - destruct (t_cancel _); [eapply Inv_wire_ext; [apply wire_finish|assumption]|apply start_op_inv; assumption].
  - destruct (t_fut _) as [fr|]; [|assumption].
    match goal with |- context [let '(_, _) := ?X in _] => assert (W : wire (fst X) = wire s); [|destruct X as [s1 r]] end.
    { destruct (was_cancelled _); [reflexivity|]. destruct fr; try apply wire_read_from_buffer. reflexivity. }
    cbn [fst] in W.
    assert (H1 : Inv_wire (recv_finally s1)).
    { eapply Inv_wire_ext; [|exact H]. rewrite wire_recv_finally, W. reflexivity. }
    pose proof (recv_handle_inv c _ t r H1) as H2.
    destruct (recv_handle c (recv_finally s1) t r); cbn [lres_state] in H2; [assumption|apply recv_loop_inv; assumption].
  - destruct (t_fut _); [|assumption]. destruct (was_cancelled _).
    + eapply Inv_wire_ext; [|exact H]. rewrite wire_finish. destruct (c_side c); [apply wire_abnormal|reflexivity].
    + destruct (c_side c); [eapply Inv_wire_ext; [apply server_close_tail_wire|assumption]|apply client_close_body_inv; assumption].
  - destruct (t_fut _) as [fr|]; [|assumption]. destruct (was_cancelled _).
    + destruct (is_timeout _); (eapply Inv_wire_ext; [|exact H]).
      * rewrite wire_close_exc. reflexivity.
      * rewrite wire_finish, wire_abnormal. reflexivity.
    + destruct fr; try (eapply Inv_wire_ext; [apply wire_close_exc|assumption]).
      * eapply Inv_wire_ext; [apply close_read_resume_wire|assumption].
      * eapply Inv_wire_ext; [apply close_read_resume_wire|assumption].
Qed.

Lemma ping_pong_exc_inv c s : Inv_wire s -> Inv_wire (ping_pong_exc c s).
Proof.
  intros H. unfold ping_pong_exc. destruct (closed s) eqn:Ec; [assumption|]. cbn zeta.
  assert (H1 : Inv_wire (set_has_exc (abnormal c (mark_closed s)) true)).
  { destruct H as (H1 & H2 & H3 & H4). specialize (H1 Ec). unfold Inv_wire.
    change (wire (set_has_exc (abnormal c (mark_closed s)) true)) with (wire (abnormal c (mark_closed s))).
    rewrite wire_abnormal. unfold wire, mark_closed. cbn. rewrite H1. repeat split; auto. }
  destruct (_ && _); [eapply Inv_wire_ext; [apply wire_feed_data|assumption]|assumption].
Qed.

Lemma run_timer_inv c s k : Inv_wire s -> Inv_wire (run_timer c s k).
Proof.
  intros H. destruct k; cbn [run_timer].
  - destruct (due _ _); [|assumption]. unfold fire_hb. cbn zeta.
    destruct (need_reset _); [exact H|]. destruct (_ <? _); [exact H|]. destruct (c_hb c); [|exact H].
    match goal with |- context [send_frame ?s0 FPing] =>
      assert (H0 : Inv_wire s0) by exact H;
      pose proof (send_frame_inv s0 FPing H0 eq_refl) as H'; destruct (send_frame s0 FPing) as [s1 raised] end.
    cbn [fst] in H'. destruct raised; [apply ping_pong_exc_inv|]; assumption.
  - destruct (due _ _); [|assumption]. unfold fire_pong. cbn zeta.
    destruct (c_side c); [destruct (lost _); [exact H|]|]; apply ping_pong_exc_inv; exact H.
  - destruct (due _ _); [|assumption]. eapply Inv_wire_ext; [apply wire_fire_task_timeout|assumption].
Qed.

Lemma run_item_inv c s r : Inv_wire s -> Inv_wire (run_item c s r).
Proof.
  intros H. destruct r; cbn [run_item].
  - apply run_wake_inv; assumption.
  - eapply Inv_wire_ext; [apply wire_conn_lost|assumption].
  - eapply Inv_wire_ext; [apply wire_flush|assumption].
  - apply run_timer_inv; assumption.
  - eapply Inv_wire_ext; [apply wire_deliver|assumption].
Qed.

Lemma step_inv c s e s' : Inv_wire s -> step c s e = Some s' -> Inv_wire s'.
Proof.
  intros H Hs. destruct e; cbn [step] in Hs.
  - destruct (_ && _); inversion Hs; subst. exact H.
  - inversion Hs; subst. eapply Inv_wire_ext; [apply wire_deliver|assumption].
  - inversion Hs; subst. exact H.
  - inversion Hs; subst. destruct (tr_closing s); [assumption|].
    eapply Inv_wire_ext; [apply wire_conn_lost|exact H].
  - destruct (_ <? _)%nat; inversion Hs; subst. eapply Inv_wire_ext; [apply wire_cancel_task|assumption].
  - inversion Hs; subst. exact H.
  - destruct (ready s) eqn:E; inversion Hs; subst. apply run_item_inv. exact H.
  - inversion Hs; subst. eapply Inv_wire_ext; [apply wire_transport_close|assumption].
Qed.

Lemma init_inv c : Inv_wire (init c).
Proof. unfold Inv_wire, init. rewrite wire_reset_heartbeat. cbn. repeat split; auto. Qed.

Theorem reach_inv_wire c s : reach c s -> Inv_wire s.
Proof. induction 1; [apply init_inv|eapply step_inv; eauto]. Qed.

Theorem one_close_frame c s : reach c s -> (count_close (sent s) <= 1)%nat.
Proof. intros H. apply reach_inv_wire in H. destruct H as (_ & H & _). exact H. Qed.

Theorem no_data_after_close c s : reach c s -> ok_sent (sent s) = true.
Proof. intros H. apply reach_inv_wire in H. destruct H as (_ & _ & _ & H). exact H. Qed.

(* ok_sent, spelled out *)
Lemma ok_sent_spec : forall l, ok_sent l = true ->
  forall l1 c l2, l = l1 ++ FClose c :: l2 -> ~ In FText l2.
Proof.
  induction l; intros H l1 c l2 E.
  - destruct l1; discriminate.
  - cbn [ok_sent] in H. apply andb_true_iff in H. destruct H as [Ha Hr].
    destruct l1; cbn [app] in E; inversion E; subst.
    + cbn in Ha. intros Hin. apply negb_true_iff in Ha.
      assert (existsb is_data_frame l2 = true) by (apply existsb_exists; exists FText; split; [assumption|reflexivity]).
      congruence.
    + eapply IHl; eauto.
Qed.
