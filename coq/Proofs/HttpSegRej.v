(* C03 support, part 5: the reject direction under explicit hypotheses.  An exception (or oracle
   question) raised while the parser is looking at a COMPLETE line is raised identically, with the
   same messages, when more bytes follow in the same read; so a rejected segmentation is rejected
   identically by one read of the whole stream, provided (1) the failing read fails on a complete
   line and (2) the buffered chunk lines at the read boundaries pass the length re-check. *)
From Coq Require Import ZifyBool ZifyN.
From AV Require Import Lib.Base Lib.BytesX Generated.HttpGen Model.Http
  Proofs.HttpSegBase Proofs.HttpSegChunk Proofs.HttpSeg.
Ltac Zify.zify_post_hook ::= Z.to_euclidean_division_equations.
Open Scope N_scope.

Definition not_ok (r : outcome) : Prop := forall l, r <> ROk l.

(* the parser stopped on something other than a partial (CRLF-less) line *)
Definition f_complete (lim : limits) (se : fcfg) (x : bytes) : bool :=
  match payload (fst se) with
  | None => match find_crlf x with Some _ => true | None => false end
  | Some p => pl_complete lim p x (snd se)
  end.

Lemma fstop_fail lim o s evs x s1 acc1 r y :
  inv_f (s, evs) -> step_f lim o (s, evs) x = inr (s1, acc1, r) -> not_ok r ->
  f_complete lim (s, evs) x = true ->
  step_f lim o (s, evs) (x ++ y) = inr (s1, acc1, r).
Proof.
  intros [Ht Hp] H Hr Hc. cbn [fst] in Ht, Hp. unfold pwf in Hp.
  destruct x as [|a r0].
  { cbn [step_f] in H. inversion H; subst. now elim (Hr []). }
  unfold f_complete in Hc. cbn [fst snd] in Hc. cbn [step_f app] in *.
  destruct (payload s) as [p|] eqn:Ep.
  - destruct (feed_payload lim p (a :: r0) evs) as [p' e1|rest e1|e e1] eqn:E.
    + inversion H; subst. now elim (Hr []).
    + discriminate.
    + pose proof (feed_payload_fail_app _ _ _ _ _ _ y Hp E Hc) as E'. cbn [app] in E'. rewrite E'.
      exact H.
  - destruct (upgraded s). { inversion H; subst. now elim (Hr (a :: r0)). }
    destruct ((0 <? max_queue lim) && (max_queue lim <=? in_flight s)).
    { inversion H; subst. now elim (Hr []). }
    destruct (find_crlf (a :: r0)) as [[line rest]|] eqn:Ef; [|discriminate].
    apply (find_crlf_app _ y) in Ef. cbn [app] in Ef. rewrite Ef.
    repeat (dmH H; try discriminate); exact H.
Qed.

(* where the run of one read stops: the bytes not yet consumed when feed returned or raised *)
Definition feed_complete (lim : limits) (o : oracle) (s : pst) (x : bytes) (a : acc) : bool :=
  let '((sk, ek), xk) :=
    stopcfg (step_f lim o) (2 * length (tail s ++ x) + 2) (clr s, a) (tail s ++ x) in
  f_complete lim (sk, ek) xk.

Theorem feed_fail_app lim o s x acc s1 acc1 r :
  wf s -> feed lim o s x acc = (s1, acc1, r) -> not_ok r ->
  feed_complete lim o s x acc = true ->
  forall y, feed lim o s (x ++ y) acc = (s1, acc1, r).
Proof.
  intros Hw H Hr Hc y. destruct (feed_stop lim o s x acc Hw) as (sk & ek & xk & E & Hi & Hs).
  rewrite H in Hs. unfold feed_complete in Hc. rewrite E in Hc.
  rewrite (feed_floop lim o s (x ++ y)). rewrite app_assoc. unfold floop.
  rewrite (loop_app _ _ (step_f lim o) fdflt mu_f inv_f (step_f_dec lim o) (step_f_stable lim o)
             _ _ _ y _ (S (meas mu_f (sk, ek) (xk ++ y))) (inv_f_clr s acc Hw) (meas_f_fuel _ _)
             (meas_f_fuel _ _) _ _ E ltac:(lia)).
  cbn [loop]. rewrite (fstop_fail _ _ _ _ _ _ _ _ y Hi Hs Hr Hc). reflexivity.
Qed.

(* the read of a segmented run that does not return fails on a complete line *)
Fixpoint fail_complete (lim : limits) (o : oracle) (s : pst) (segs : list bytes) (a : acc) : bool :=
  match segs with
  | [] => true
  | d :: segs' =>
    match feed lim o s d a with
    | (s', a', ROk _) => fail_complete lim o s' segs' a'
    | _ => feed_complete lim o s d a
    end
  end.

Lemma lift_not_ok lo s a r : not_ok r -> lift lo (s, a, r) = (s, a, r).
Proof. intro H. destruct r; try reflexivity. now elim (H unconsumed). Qed.

Lemma consumed_prefix lim o : forall segs s a, exists more, concat segs = concat (consumed lim o s segs a) ++ more.
Proof.
  induction segs as [|d segs IH]; intros s a; [exists []; reflexivity|].
  rewrite consumed_cons. destruct (feed lim o s d a) as [[s' a'] r]. destruct r.
  - destruct (IH s' a') as [more Hm]. exists more. cbn [concat]. rewrite Hm at 1. now rewrite app_assoc.
  - exists (concat segs). cbn [concat]. now rewrite app_nil_r.
  - exists (concat segs). cbn [concat]. now rewrite app_nil_r.
Qed.

Lemma seg_reject_cons : forall segs lim o s d acc lo s1 acc1 r1,
  wf s -> boundaries_ok lim o s (d :: segs) acc = true ->
  run_segs lim o s (d :: segs) acc lo = (s1, acc1, r1) -> not_ok r1 ->
  fail_complete lim o s (d :: segs) acc = true ->
  obs (run_segs lim o s [d ++ concat segs] acc lo) = obs (s1, acc1, r1).
Proof.
  induction segs as [|e segs IH]; intros lim o s d acc lo s1 acc1 r1 Hw Hb H Hr Hc.
  - cbn [concat]. rewrite app_nil_r. f_equal. exact H.
  - rewrite run_segs_cons in H. cbn [boundaries_ok] in Hb. cbn [fail_complete] in Hc.
    destruct (feed lim o s d acc) as [[s' a'] r'] eqn:E1.
    destruct r' as [l1| |].
    + apply andb_true_iff in Hb as [Hok Hb].
      pose proof (feed_wf _ _ _ _ _ _ _ _ Hw E1) as Hw1.
      specialize (IH lim o s' e a' (lo ++ l1) s1 acc1 r1 Hw1 Hb H Hr Hc).
      rewrite <- IH. cbn [concat]. rewrite !run_segs_single. rewrite <- lift_lift.
      apply obs_lift. destruct (consumed_prefix lim o (e :: segs) s' a') as [more Hm].
      assert (Hok' : line_end_ok lim s' (e ++ concat segs) = true).
      { change (e ++ concat segs) with (concat (e :: segs)). rewrite Hm. apply line_end_ok_app. exact Hok. }
      exact (feed_split_weak lim o s d (e ++ concat segs) acc s' a' l1 Hw E1 Hok').
    + inversion H; subst. rewrite run_segs_single.
      rewrite (feed_fail_app _ _ _ _ _ _ _ _ Hw E1 Hr Hc). now rewrite lift_not_ok.
    + inversion H; subst. rewrite run_segs_single.
      rewrite (feed_fail_app _ _ _ _ _ _ _ _ Hw E1 Hr Hc). now rewrite lift_not_ok.
Qed.

Theorem seg_reject lim o segs s acc lo s1 acc1 r1 :
  wf s -> segs <> [] ->
  boundaries_ok lim o s segs acc = true ->
  fail_complete lim o s segs acc = true ->
  run_segs lim o s segs acc lo = (s1, acc1, r1) -> not_ok r1 ->
  obs (run_segs lim o s [concat segs] acc lo) = obs (s1, acc1, r1).
Proof.
  intros Hw Hn Hb Hc H Hr. destruct segs as [|d segs]; [congruence|].
  cbn [concat]. eapply seg_reject_cons; eassumption.
Qed.
