(* C17 — invariants of the redirect loop model (Model/Redirect.v). *)
From AV Require Import Lib.Base Generated.RedirectGen Model.Redirect.
From Coq Require Import ZifyBool ZifyN.
Open Scope N_scope.

(* ---- origins ----------------------------------------------------------------------------- *)

Lemma optN_eqb_eq a b : optN_eqb a b = true -> a = b.
Proof.
  destruct a, b; simpl; try discriminate; auto.
  intro H. apply N.eqb_eq in H. now subst.
Qed.

Lemma origin_eqb_eq a b : origin_eqb a b = true -> a = b.
Proof.
  destruct a as [s1 h1 p1], b as [s2 h2 p2]; unfold origin_eqb; cbn [o_sch o_host o_port]. intro H.
  apply andb_true_iff in H as [H H3]. apply andb_true_iff in H as [H1 H2].
  apply N.eqb_eq in H1. apply N.eqb_eq in H2. apply optN_eqb_eq in H3. now subst.
Qed.

Lemma origin_eqb_refl a : origin_eqb a a = true.
Proof.
  destruct a as [s h p]; unfold origin_eqb; cbn [o_sch o_host o_port].
  rewrite !N.eqb_refl. destruct p; simpl; auto using N.eqb_refl.
Qed.

(* equal origins (as compared by the loop) go to the same destination *)
Lemma origin_eq_dest a b : origin_eqb a b = true -> dest a = dest b.
Proof. intro H. apply origin_eqb_eq in H. now subst. Qed.

(* ---- case analysis of one loop iteration ------------------------------------------------- *)

Inductive run_case (c : config) (st : rstate) (resps : list response) : Prop :=
| RC_conflict :
    conflict st = true ->
    run_from c st resps = {| sents := []; disps := []; result := Failed EAuthConflict (r_history st) |} ->
    run_case c st resps
| RC_pending :
    conflict st = false -> resps = [] ->
    run_from c st resps = {| sents := [sent_of st]; disps := []; result := Pending |} ->
    run_case c st resps
| RC_stop r rest o d :
    conflict st = false -> resps = r :: rest ->
    after c (stripped st) (sent_of st) r = Stop o d ->
    run_from c st resps = {| sents := [sent_of st]; disps := [d]; result := o |} ->
    run_case c st resps
| RC_next r rest st2 d :
    conflict st = false -> resps = r :: rest ->
    after c (stripped st) (sent_of st) r = Next st2 d ->
    run_from c st resps =
      {| sents := sent_of st :: sents (run_from c st2 rest); disps := d :: disps (run_from c st2 rest);
         result := result (run_from c st2 rest) |} ->
    run_case c st resps.

Lemma run_cases c st resps : run_case c st resps.
Proof.
  destruct (conflict st) eqn:E.
  - apply RC_conflict; auto. destruct resps; cbn [run_from]; unfold prep; rewrite E; reflexivity.
  - destruct resps as [|r rest].
    + apply RC_pending; auto. cbn [run_from]; unfold prep; rewrite E; reflexivity.
    + destruct (after c (stripped st) (sent_of st) r) as [o d|st2 d] eqn:A.
      * apply (RC_stop c st (r :: rest) r rest o d); auto. cbn [run_from]; unfold prep; rewrite E, A; reflexivity.
      * apply (RC_next c st (r :: rest) r rest st2 d); auto. cbn [run_from]; unfold prep; rewrite E, A; reflexivity.
Qed.

Lemma after_Next c st s r st2 d : after c st s r = Next st2 d ->
  d = DReleased /\
  follow_redirect (rs_status r) (c_allow c) = true /\
  too_many_redirects (r_redirects st + 1)%Z (c_max c) = false /\
  (negb (toget_of s r) && consumed_after_send (s_body s) && negb (rs_unsent r)) = false /\
  exists target, resolve (s_org s) (rs_loc r) = inr (Some target) /\ st2 = next_state st s r target.
Proof.
  unfold after.
  destruct (follow_redirect _ _); [|discriminate].
  destruct (too_many_redirects _ _); [discriminate|].
  destruct (negb _ && _ && _); [discriminate|].
  destruct (resolve _ _) as [e|[t|]]; try discriminate.
  intro H. inversion H; subst. repeat split; eauto.
Qed.

Lemma after_Stop_not_pending c st s r o d : after c st s r = Stop o d -> o <> Pending.
Proof.
  unfold after.
  destruct (follow_redirect _ _).
  - destruct (too_many_redirects _ _); [intro H; inversion H; discriminate|].
    destruct (negb _ && _ && _); [intro H; inversion H; discriminate|].
    destruct (resolve _ _) as [e|[t|]]; intro H; inversion H; discriminate.
  - intro H; inversion H; discriminate.
Qed.

Lemma nth_single {A} (x s : A) i : nth_error [x] i = Some s -> i = 0%nat /\ s = x.
Proof.
  destruct i as [|i]; simpl.
  - intro H; inversion H; auto.
  - destruct i; discriminate.
Qed.

(* ---- confinement of caller-supplied credentials ------------------------------------------ *)

Definition st_secret (st : rstate) : Prop :=
  (exists t, r_auth st = Some (ACaller t)) \/ r_cookie st <> None \/ r_pauth st <> None \/ r_reqck st <> None.

Lemma sent_secret st : carries_caller_secret (sent_of st) -> st_secret st.
Proof.
  unfold carries_caller_secret, st_secret, sent_of, auth_for; cbn.
  intros [[t H]|H]; [|now right].
  destruct (u_cred (r_url st)); [discriminate|]. left; eauto.
Qed.

Lemma stripped_secret st : st_secret (stripped st) -> st_secret st.
Proof.
  unfold st_secret, stripped, auth_for; cbn.
  intros [[t H]|H]; [|now right].
  destruct (u_cred (r_url st)); [discriminate|]. left; eauto.
Qed.

Lemma next_secret st s r target :
  st_secret (next_state st s r target) -> st_secret st /\ s_org s = u_org target.
Proof.
  unfold st_secret, next_state; cbn.
  destruct (origin_eqb (s_org s) (u_org target)) eqn:E.
  - intro H. split; [exact H|]. now apply origin_eqb_eq.
  - intros [[t H]|[H|[H|H]]]; try discriminate; congruence.
Qed.

Lemma confined_from c : forall resps st i s,
  nth_error (sents (run_from c st resps)) i = Some s ->
  carries_caller_secret s ->
  st_secret st /\
  forall j sj, (j <= i)%nat -> nth_error (sents (run_from c st resps)) j = Some sj -> s_org sj = u_org (r_url st).
Proof.
  induction resps as [|r0 rest0 IH]; intros st i s Hn Hs.
  - destruct (run_cases c st []) as [Hc Hr|Hc He Hr|r rest o d Hc He|r rest st2 d Hc He]; try discriminate.
    + rewrite Hr in *; cbn [sents] in *. destruct i; discriminate.
    + rewrite Hr in *; cbn [sents] in *. apply nth_single in Hn as [-> ->].
      split; [now apply sent_secret|]. intros j sj Hj Hsj. apply nth_single in Hsj as [_ ->]. reflexivity.
  - destruct (run_cases c st (r0 :: rest0)) as [Hc Hr|Hc He Hr|r rest o d Hc He Ha Hr|r rest st2 d Hc He Ha Hr]; try discriminate.
    + rewrite Hr in *; cbn [sents] in *. destruct i; discriminate.
    + rewrite Hr in *; cbn [sents] in *. apply nth_single in Hn as [-> ->].
      split; [now apply sent_secret|]. intros j sj Hj Hsj. apply nth_single in Hsj as [_ ->]. reflexivity.
    + inversion He; subst r rest. rewrite Hr in *; cbn [sents] in *.
      destruct i as [|i].
      * cbn in Hn. inversion Hn; subst s.
        split; [now apply sent_secret|]. intros j sj Hj Hsj.
        assert (j = 0%nat) by lia. subst j. cbn in Hsj. inversion Hsj. reflexivity.
      * cbn [nth_error] in Hn.
        destruct (IH st2 i s Hn Hs) as [Hsec Horg].
        apply after_Next in Ha as (_ & _ & _ & _ & target & Hres & ->).
        apply next_secret in Hsec as [Hsec Heq].
        split; [now apply stripped_secret|].
        intros j sj Hj Hsj. destruct j as [|j].
        -- cbn in Hsj. inversion Hsj. reflexivity.
        -- cbn [nth_error] in Hsj. rewrite (Horg j sj) by (lia || assumption).
           cbn [next_state r_url]. rewrite <- Heq. reflexivity.
Qed.

(* ---- URL-embedded credentials -------------------------------------------------------------- *)

Lemma urlcred_from c : forall resps st i s t,
  nth_error (sents (run_from c st resps)) i = Some s ->
  s_auth s = Some (AUrl t) ->
  (exists k sk, (k <= i)%nat /\ nth_error (sents (run_from c st resps)) k = Some sk /\ s_urlcred sk = Some t /\
     forall j sj, (k <= j <= i)%nat -> nth_error (sents (run_from c st resps)) j = Some sj -> s_org sj = s_org sk)
  \/ (r_auth st = Some (AUrl t) /\
      forall j sj, (j <= i)%nat -> nth_error (sents (run_from c st resps)) j = Some sj -> s_org sj = u_org (r_url st)).
Proof.
  assert (Hhead : forall st t, s_auth (sent_of st) = Some (AUrl t) ->
            s_urlcred (sent_of st) = Some t \/ r_auth st = Some (AUrl t)).
  { intros st t. unfold sent_of, auth_for; cbn. destruct (u_cred (r_url st)); intro H; [left|right]; congruence. }
  assert (Hone : forall st s t, s_auth s = Some (AUrl t) -> s = sent_of st ->
            forall l, (exists k sk, (k <= 0)%nat /\ nth_error (sent_of st :: l) k = Some sk /\ s_urlcred sk = Some t /\
                forall j sj, (k <= j <= 0)%nat -> nth_error (sent_of st :: l) j = Some sj -> s_org sj = s_org sk)
              \/ (r_auth st = Some (AUrl t) /\
                  forall j sj, (j <= 0)%nat -> nth_error (sent_of st :: l) j = Some sj -> s_org sj = u_org (r_url st))).
  { intros st s t Ha -> l. destruct (Hhead st t Ha) as [H|H].
    - left. exists 0%nat, (sent_of st). repeat split; auto.
      intros j sj Hj Hsj. assert (j = 0%nat) by lia. subst j. cbn in Hsj. now inversion Hsj.
    - right. split; auto. intros j sj Hj Hsj. assert (j = 0%nat) by lia. subst j. cbn in Hsj. now inversion Hsj. }
  induction resps as [|r0 rest0 IH]; intros st i s t Hn Ha.
  - destruct (run_cases c st []) as [Hc Hr|Hc He Hr|r rest o d Hc He|r rest st2 d Hc He]; try discriminate.
    + rewrite Hr in *; cbn [sents] in *. destruct i; discriminate.
    + rewrite Hr in *; cbn [sents] in *. apply nth_single in Hn as [-> ->]. now apply (Hone st (sent_of st) t).
  - destruct (run_cases c st (r0 :: rest0)) as [Hc Hr|Hc He Hr|r rest o d Hc He Hafter Hr|r rest st2 d Hc He Hafter Hr]; try discriminate.
    + rewrite Hr in *; cbn [sents] in *. destruct i; discriminate.
    + rewrite Hr in *; cbn [sents] in *. apply nth_single in Hn as [-> ->]. now apply (Hone st (sent_of st) t).
    + inversion He; subst r rest. rewrite Hr in *; cbn [sents] in *.
      destruct i as [|i].
      * cbn in Hn. inversion Hn; subst s. now apply (Hone st (sent_of st) t).
      * cbn [nth_error] in Hn.
        destruct (IH st2 i s t Hn Ha) as [(k & sk & Hk & Hsk & Hcred & Hrun)|[Hauth Hrun]].
        -- left. exists (S k), sk. repeat split; auto; try lia.
           intros j sj Hj Hsj. destruct j as [|j]; [lia|]. cbn [nth_error] in Hsj. apply (Hrun j sj); [lia|assumption].
        -- apply after_Next in Hafter as (_ & _ & _ & _ & target & Hres & ->).
           cbn [next_state r_auth r_url] in Hauth, Hrun.
           destruct (origin_eqb (s_org (sent_of st)) (u_org target)) eqn:E; [|discriminate].
           apply origin_eqb_eq in E.
           (* the header was in force at this hop already *)
           assert (Hs0 : s_auth (sent_of st) = Some (AUrl t)) by exact Hauth.
           destruct (Hhead st t Hs0) as [H|H].
           ++ left. exists 0%nat, (sent_of st). repeat split; auto; try lia.
              intros j sj Hj Hsj. destruct j as [|j]; [cbn in Hsj; now inversion Hsj|].
              cbn [nth_error] in Hsj. rewrite (Hrun j sj) by (lia || assumption). now rewrite E.
           ++ right. split; auto.
              intros j sj Hj Hsj. destruct j as [|j]; [cbn in Hsj; now inversion Hsj|].
              cbn [nth_error] in Hsj. rewrite (Hrun j sj) by (lia || assumption). rewrite <- E. reflexivity.
Qed.

(* ---- jar cookies are selected anew at every hop ------------------------------------------- *)

Lemma jar_from c : forall resps st i s,
  nth_error (sents (run_from c st resps)) i = Some s ->
  s_jar s = jar_filter (jar_after (r_jar st) (sents (run_from c st resps)) resps i) (o_host (s_org s)) (s_path s).
Proof.
  induction resps as [|r0 rest0 IH]; intros st i s Hn.
  - destruct (run_cases c st []) as [Hc Hr|Hc He Hr|r rest o d Hc He|r rest st2 d Hc He]; try discriminate.
    + rewrite Hr in *; cbn [sents] in *. destruct i; discriminate.
    + rewrite Hr in *; cbn [sents] in *. apply nth_single in Hn as [-> ->]. reflexivity.
  - destruct (run_cases c st (r0 :: rest0)) as [Hc Hr|Hc He Hr|r rest o d Hc He Ha Hr|r rest st2 d Hc He Ha Hr]; try discriminate.
    + rewrite Hr in *; cbn [sents] in *. destruct i; discriminate.
    + rewrite Hr in *; cbn [sents] in *. apply nth_single in Hn as [-> ->]. reflexivity.
    + inversion He; subst r rest. rewrite Hr in *; cbn [sents] in *.
      destruct i as [|i].
      * cbn in Hn. inversion Hn; subst s. reflexivity.
      * cbn [nth_error] in Hn. rewrite (IH st2 i s Hn). cbn [jar_after].
        apply after_Next in Ha as (_ & _ & _ & _ & target & Hres & ->).
        reflexivity.
Qed.

(* a cookie selected from the jar for host h was stored for host h *)
Lemma jar_filter_In j h path n v : In (n, v) (jar_filter j h path) ->
  exists sc, In (h, n, v, sc) j /\ scope_matches sc path = true.
Proof.
  unfold jar_filter. intro H. apply in_map_iff in H as [[[[h' n'] v'] sc] [E H]].
  apply filter_In in H as [H1 H2]. unfold je_host, je_name, je_val, je_scope in *. cbn in *.
  apply andb_true_iff in H2 as [H2 H3]. apply N.eqb_eq in H2. inversion E; subst. eauto.
Qed.

(* every pair on the Cookie line comes from one of the three sources *)
Lemma override_In base over p : In p (override base over) -> In p over \/ In p base.
Proof.
  unfold override. intro H. apply in_app_or in H as [H|H]; auto.
  apply filter_In in H as [H _]. auto.
Qed.

Lemma cookie_pairs_sources s p : In p (cookie_pairs s) ->
  In p (s_jar s) \/ In p (optl (s_hdrcookie s)) \/ In p (optl (s_reqck s)).
Proof.
  unfold cookie_pairs. intro H.
  apply override_In in H as [H|H]; auto.
  apply override_In in H as [H|H]; auto.
Qed.

(* ---- the method / body table ------------------------------------------------------------- *)

Lemma switch_to_get_doc status m :
  switch_to_get status (is_head m) (is_post m) (is_get m) = doc_switch_to_get status m.
Proof.
  unfold switch_to_get, doc_switch_to_get. cbn [memN].
  destruct (status =? 303) eqn:E3; destruct (status =? 301) eqn:E1; destruct (status =? 302) eqn:E2;
    destruct (is_head m); destruct (is_post m); try reflexivity; lia.
Qed.

Lemma follow_redirect_doc status allow :
  follow_redirect status allow = true -> In status [301; 302; 303; 307; 308] /\ allow = true.
Proof.
  unfold follow_redirect. intro H. apply andb_true_iff in H as [H1 H2]. split; auto.
  now apply memN_In.
Qed.

Lemma head_sent c st resps s :
  nth_error (sents (run_from c st resps)) 0 = Some s -> s = sent_of st.
Proof.
  destruct (run_cases c st resps) as [Hc Hr|Hc He Hr|r rest o d Hc He Ha Hr|r rest st2 d Hc He Ha Hr];
    rewrite Hr; cbn; intro H; now inversion H.
Qed.

(* two consecutive requests are linked by one `after` step on the response in between *)
Lemma step_from c : forall resps st i s s',
  nth_error (sents (run_from c st resps)) i = Some s ->
  nth_error (sents (run_from c st resps)) (S i) = Some s' ->
  exists r st1 target,
    nth_error resps i = Some r /\ s = sent_of st1 /\
    follow_redirect (rs_status r) (c_allow c) = true /\
    too_many_redirects (r_redirects st1 + 1)%Z (c_max c) = false /\
    (negb (toget_of s r) && consumed_after_send (s_body s) && negb (rs_unsent r)) = false /\
    resolve (s_org s) (rs_loc r) = inr (Some target) /\
    s' = sent_of (next_state (stripped st1) s r target).
Proof.
  induction resps as [|r0 rest0 IH]; intros st i s s' Hn Hn'.
  - destruct (run_cases c st []) as [Hc Hr|Hc He Hr|r rest o d Hc He|r rest st2 d Hc He]; try discriminate;
      rewrite Hr in *; cbn [sents] in *; destruct i; cbn in Hn'; try discriminate; destruct i; discriminate.
  - destruct (run_cases c st (r0 :: rest0)) as [Hc Hr|Hc He Hr|r rest o d Hc He Ha Hr|r rest st2 d Hc He Ha Hr]; try discriminate.
    + rewrite Hr in *; cbn [sents] in *. destruct i; discriminate.
    + rewrite Hr in *; cbn [sents] in *. destruct i; cbn in Hn'; try discriminate; destruct i; discriminate.
    + inversion He; subst r rest. rewrite Hr in *; cbn [sents] in *.
      destruct i as [|i].
      * cbn in Hn. inversion Hn; subst s. cbn [nth_error] in Hn'.
        apply head_sent in Hn'. subst s'.
        apply after_Next in Ha as (_ & Hf & Ht & Hb & target & Hres & ->).
        exists r0, st, target. cbn [nth_error]. repeat split; auto.
      * cbn [nth_error] in Hn, Hn'.
        destruct (IH st2 i s s' Hn Hn') as (r & st1 & target & H1 & H2).
        exists r, st1, target. cbn [nth_error]. split; auto.
Qed.

(* ---- termination --------------------------------------------------------------------------- *)

Lemma too_many_false r m : too_many_redirects r m = false -> (r < m)%Z.
Proof. unfold too_many_redirects. intros H. lia. Qed.

Lemma bounded_from c : forall resps st,
  (Z.of_nat (length (sents (run_from c st resps))) <= Z.max 1 (c_max c - r_redirects st))%Z.
Proof.
  induction resps as [|r0 rest0 IH]; intros st.
  - destruct (run_cases c st []) as [Hc Hr|Hc He Hr|r rest o d Hc He|r rest st2 d Hc He]; try discriminate;
      rewrite Hr; cbn [sents length]; lia.
  - destruct (run_cases c st (r0 :: rest0)) as [Hc Hr|Hc He Hr|r rest o d Hc He Ha Hr|r rest st2 d Hc He Ha Hr];
      try discriminate; rewrite Hr; cbn [sents length]; try lia.
    inversion He; subst r rest.
    apply after_Next in Ha as (_ & _ & Ht & _ & target & _ & ->).
    apply too_many_false in Ht.
    specialize (IH (next_state (stripped st) (sent_of st) r0 target)).
    cbn [next_state r_redirects stripped] in IH, Ht. lia.
Qed.

Lemma pending_len c : forall resps st,
  result (run_from c st resps) = Pending -> length (sents (run_from c st resps)) = S (length resps).
Proof.
  induction resps as [|r0 rest0 IH]; intros st.
  - destruct (run_cases c st []) as [Hc Hr|Hc He Hr|r rest o d Hc He|r rest st2 d Hc He]; try discriminate;
      rewrite Hr; cbn; auto; discriminate.
  - destruct (run_cases c st (r0 :: rest0)) as [Hc Hr|Hc He Hr|r rest o d Hc He Ha Hr|r rest st2 d Hc He Ha Hr];
      try discriminate; rewrite Hr; cbn [sents result length].
    + discriminate.
    + intro H. subst o. now apply after_Stop_not_pending in Ha.
    + inversion He; subst r rest. intro H. rewrite (IH st2 H). reflexivity.
Qed.

(* ---- only http(s) requests are made ---------------------------------------------------------- *)

Lemma scheme_allowed_http s : scheme_allowed s = true -> http_scheme s = true.
Proof. unfold scheme_allowed, http_scheme. cbn [memN]. rewrite orb_false_r. auto. Qed.

Lemma resolve_http cur l target :
  http_scheme (o_sch cur) = true -> resolve cur l = inr (Some target) -> http_scheme (o_sch (u_org target)) = true.
Proof.
  intros Hc. destruct l; cbn [resolve]; try discriminate.
  - destruct (scheme_allowed (o_sch (u_org u))) eqn:E; [|discriminate].
    intro H; inversion H; subst. now apply scheme_allowed_http.
  - intro H; inversion H; subst. exact Hc.
  - intro H; inversion H; subst. exact Hc.
Qed.

Lemma http_from c : forall resps st i s,
  http_scheme (o_sch (u_org (r_url st))) = true ->
  nth_error (sents (run_from c st resps)) i = Some s -> http_scheme (o_sch (s_org s)) = true.
Proof.
  induction resps as [|r0 rest0 IH]; intros st i s Hh Hn.
  - destruct (run_cases c st []) as [Hc Hr|Hc He Hr|r rest o d Hc He|r rest st2 d Hc He]; try discriminate.
    + rewrite Hr in *; cbn [sents] in *. destruct i; discriminate.
    + rewrite Hr in *; cbn [sents] in *. apply nth_single in Hn as [-> ->]. exact Hh.
  - destruct (run_cases c st (r0 :: rest0)) as [Hc Hr|Hc He Hr|r rest o d Hc He Ha Hr|r rest st2 d Hc He Ha Hr]; try discriminate.
    + rewrite Hr in *; cbn [sents] in *. destruct i; discriminate.
    + rewrite Hr in *; cbn [sents] in *. apply nth_single in Hn as [-> ->]. exact Hh.
    + inversion He; subst r rest. rewrite Hr in *; cbn [sents] in *.
      destruct i as [|i].
      * cbn in Hn. inversion Hn; subst s. exact Hh.
      * cbn [nth_error] in Hn. apply (IH st2 i s); auto.
        apply after_Next in Ha as (_ & _ & _ & _ & target & Hres & ->).
        cbn [next_state r_url]. eapply resolve_http; eauto.
Qed.

(* ---- history and what becomes of every response ------------------------------------------------ *)

Lemma resolve_err cur l e : resolve cur l = inl e -> e = EInvalidRedirect \/ e = ENonHttpRedirect.
Proof.
  destruct l; cbn [resolve]; try discriminate.
  - intro H; inversion H; auto.
  - intro H; inversion H; auto.
  - destruct (scheme_allowed (o_sch (u_org u))); intro H; inversion H; auto.
Qed.

Lemma resolve_none cur l : resolve cur l = inr None -> l = LNone.
Proof.
  destruct l; cbn [resolve]; try discriminate; auto.
  destruct (scheme_allowed (o_sch (u_org u))); discriminate.
Qed.

(* the outcome's history, the dispositions and the requests of a run, relative to the history so far *)
Lemma history_from c : forall resps st,
  let t := run_from c st resps in
  match result t with
  | Pending => disps t = repeat DReleased (length resps) /\ length (sents t) = S (length resps)
  | Failed EAuthConflict h => h = r_history st /\ sents t = [] /\ disps t = []
  | Failed _ h =>
      h = r_history st ++ hist_of (sents t) resps /\
      exists n, length (sents t) = S n /\ disps t = repeat DReleased n ++ [DClosed] /\ (n < length resps)%nat
  | Done status h =>
      exists n r, length (sents t) = S n /\ disps t = repeat DReleased n ++ [DReturned] /\
        nth_error resps n = Some r /\ status = rs_status r /\
        (h = r_history st ++ hist_of (firstn n (sents t)) resps
         \/ (h = r_history st ++ hist_of (sents t) resps /\ rs_loc r = LNone /\
             follow_redirect (rs_status r) (c_allow c) = true))
  end.
Proof.
  induction resps as [|r0 rest0 IH]; intros st; cbn zeta.
  - destruct (run_cases c st []) as [Hc Hr|Hc He Hr|r rest o d Hc He|r rest st2 d Hc He]; try discriminate;
      rewrite Hr; cbn; auto.
  - destruct (run_cases c st (r0 :: rest0)) as [Hc Hr|Hc He Hr|r rest o d Hc He Ha Hr|r rest st2 d Hc He Ha Hr];
      try discriminate; rewrite Hr; cbn [sents disps result].
    + auto.
    + inversion He; subst r rest. clear Hr.
      unfold after in Ha.
      destruct (follow_redirect (rs_status r0) (c_allow c)) eqn:Hf.
      * destruct (too_many_redirects _ _).
        { inversion Ha; subst. cbn. split; [reflexivity|]. exists 0%nat. cbn. repeat split; auto. lia. }
        destruct (negb _ && _ && _).
        { inversion Ha; subst. cbn. split; [reflexivity|]. exists 0%nat. cbn. repeat split; auto. lia. }
        destruct (resolve _ _) as [e|[tg|]] eqn:Hres; inversion Ha; subst.
        { apply resolve_err in Hres as [-> | ->]; cbn; (split; [reflexivity|]); exists 0%nat; cbn; repeat split; auto; lia. }
        { exists 0%nat, r0. cbn. repeat split; auto. right. repeat split; auto.
          now apply resolve_none in Hres. }
      * inversion Ha; subst. exists 0%nat, r0. cbn. repeat split; auto. left. now rewrite app_nil_r.
    + inversion He; subst r rest. clear Hr.
      apply after_Next in Ha as (-> & Hf & Ht & Hb & target & Hres & ->).
      specialize (IH (next_state (stripped st) (sent_of st) r0 target)). cbn zeta in IH.
      set (t := run_from c (next_state (stripped st) (sent_of st) r0 target) rest0) in *.
      assert (Hh : r_history (next_state (stripped st) (sent_of st) r0 target) =
                   r_history st ++ [(rs_status r0, s_org (sent_of st), s_path (sent_of st))]) by reflexivity.
      destruct (result t) as [status h|e h|].
      * destruct IH as (n & r & Hl & Hd & Hr & Hs & Hh').
        exists (S n), r. cbn [length nth_error repeat app]. rewrite Hl, Hd. repeat split; auto.
        destruct Hh' as [Hh'|(Hh' & Hloc & Hfr)]; [left|right; repeat split; auto];
          rewrite Hh', Hh, <- app_assoc; reflexivity.
      * destruct e.
        -- (* a later hop cannot hit the first-hop conflict: its history is not empty *)
           destruct IH as (_ & Hs & _). exfalso.
           destruct (run_cases c (next_state (stripped st) (sent_of st) r0 target) rest0)
             as [Hc' Hr'|Hc' He' Hr'|r' rest' o' d' Hc' He' Ha' Hr'|r' rest' st2' d' Hc' He' Ha' Hr'];
             fold t in Hr'; rewrite Hr' in Hs; cbn in Hs; try discriminate.
           unfold conflict in Hc'. rewrite Hh in Hc'.
           destruct (u_cred _); [|discriminate]. destruct (r_auth _); [|discriminate].
           destruct (r_history st); discriminate.
        -- destruct IH as (Hh' & n & Hl & Hd & Hlt). split; [rewrite Hh', Hh, <- app_assoc; reflexivity|].
           exists (S n). cbn [length repeat app]. rewrite Hl, Hd. repeat split; auto. lia.
        -- destruct IH as (Hh' & n & Hl & Hd & Hlt). split; [rewrite Hh', Hh, <- app_assoc; reflexivity|].
           exists (S n). cbn [length repeat app]. rewrite Hl, Hd. repeat split; auto. lia.
        -- destruct IH as (Hh' & n & Hl & Hd & Hlt). split; [rewrite Hh', Hh, <- app_assoc; reflexivity|].
           exists (S n). cbn [length repeat app]. rewrite Hl, Hd. repeat split; auto. lia.
        -- destruct IH as (Hh' & n & Hl & Hd & Hlt). split; [rewrite Hh', Hh, <- app_assoc; reflexivity|].
           exists (S n). cbn [length repeat app]. rewrite Hl, Hd. repeat split; auto. lia.
      * destruct IH as (Hd & Hl). cbn [length repeat]. rewrite Hd, Hl. auto.
Qed.

(* ================= statements about a whole call: run c q resps ================================= *)

Lemma confined c q resps i s :
  nth_error (sents (run c q resps)) i = Some s ->
  carries_caller_secret s ->
  forall j sj, (j <= i)%nat -> nth_error (sents (run c q resps)) j = Some sj -> s_org sj = u_org (q_url q).
Proof.
  intros Hn Hs. destruct (confined_from c resps (init q) i s Hn Hs) as [_ H]. exact H.
Qed.

(* same statement about where the bytes really go (scheme, host, effective port) *)
Lemma confined_dest c q resps i s :
  nth_error (sents (run c q resps)) i = Some s ->
  carries_caller_secret s ->
  forall j sj, (j <= i)%nat -> nth_error (sents (run c q resps)) j = Some sj -> dest (s_org sj) = dest (u_org (q_url q)).
Proof. intros Hn Hs j sj Hj Hsj. now rewrite (confined c q resps i s Hn Hs j sj Hj Hsj). Qed.

(* whatever is on the Cookie line is a jar cookie selected for this hop, or (same-origin prefix only) the caller's *)
Lemma cookie_line_confined c q resps i s p :
  nth_error (sents (run c q resps)) i = Some s ->
  In p (cookie_pairs s) ->
  In p (s_jar s) \/
  ((In p (optl (q_cookie q)) \/ In p (optl (q_reqck q))) /\
   forall j sj, (j <= i)%nat -> nth_error (sents (run c q resps)) j = Some sj -> s_org sj = u_org (q_url q)).
Proof.
  intros Hn Hp. apply cookie_pairs_sources in Hp as [Hp|Hp]; [now left|right].
  (* the header / per-request cookies of any hop are the caller's or absent *)
  assert (Hsrc : forall resps st k sk, nth_error (sents (run_from c st resps)) k = Some sk ->
            (s_hdrcookie sk = None \/ s_hdrcookie sk = r_cookie st) /\ (s_reqck sk = None \/ s_reqck sk = r_reqck st)).
  { clear. induction resps as [|r0 rest0 IH]; intros st k sk Hk.
    - destruct (run_cases c st []) as [Hc Hr|Hc He Hr|r rest o d Hc He|r rest st2 d Hc He]; try discriminate;
        rewrite Hr in Hk; cbn [sents] in Hk; [destruct k; discriminate|].
      apply nth_single in Hk as [_ ->]. cbn. auto.
    - destruct (run_cases c st (r0 :: rest0)) as [Hc Hr|Hc He Hr|r rest o d Hc He Ha Hr|r rest st2 d Hc He Ha Hr];
        try discriminate; rewrite Hr in Hk; cbn [sents] in Hk.
      + destruct k; discriminate.
      + apply nth_single in Hk as [_ ->]. cbn. auto.
      + inversion He; subst r rest. destruct k as [|k].
        * cbn in Hk. inversion Hk; subst. cbn. auto.
        * cbn [nth_error] in Hk. destruct (IH st2 k sk Hk) as [H1 H2].
          apply after_Next in Ha as (_ & _ & _ & _ & target & _ & ->).
          cbn [next_state r_cookie r_reqck stripped] in H1, H2.
          destruct (origin_eqb _ _); intuition. }
  destruct (Hsrc resps (init q) i s Hn) as [H1 H2]. cbn [init r_cookie r_reqck] in H1, H2.
  assert (Hsec : carries_caller_secret s).
  { unfold carries_caller_secret. destruct Hp as [Hp|Hp].
    - right; left. destruct (s_hdrcookie s); [discriminate|destruct Hp].
    - right; right; right. destruct (s_reqck s); [discriminate|destruct Hp]. }
  split; [|exact (confined c q resps i s Hn Hsec)].
  destruct Hp as [Hp|Hp]; [left|right].
  - destruct H1 as [H1|H1]; rewrite H1 in Hp; [destruct Hp|exact Hp].
  - destruct H2 as [H2|H2]; rewrite H2 in Hp; [destruct Hp|exact Hp].
Qed.

Lemma urlcred c q resps i s t :
  nth_error (sents (run c q resps)) i = Some s ->
  s_auth s = Some (AUrl t) ->
  exists k sk, (k <= i)%nat /\ nth_error (sents (run c q resps)) k = Some sk /\ s_urlcred sk = Some t /\
    forall j sj, (k <= j <= i)%nat -> nth_error (sents (run c q resps)) j = Some sj -> s_org sj = s_org sk.
Proof.
  intros Hn Ha. destruct (urlcred_from c resps (init q) i s t Hn Ha) as [H|[H _]]; [exact H|].
  cbn [init r_auth] in H. destruct (q_auth q); discriminate.
Qed.

Lemma jar_reselected c q resps i s :
  nth_error (sents (run c q resps)) i = Some s ->
  s_jar s = jar_filter (jar_after (q_jar q) (sents (run c q resps)) resps i) (o_host (s_org s)) (s_path s).
Proof. intro Hn. exact (jar_from c resps (init q) i s Hn). Qed.

Lemma table c q resps i s s' :
  nth_error (sents (run c q resps)) i = Some s ->
  nth_error (sents (run c q resps)) (S i) = Some s' ->
  exists r, nth_error resps i = Some r /\
    In (rs_status r) [301; 302; 303; 307; 308] /\ c_allow c = true /\
    if doc_switch_to_get (rs_status r) (s_meth s)
    then s_meth s' = MGet /\ s_body s' = BNone /\ s_clen s' = false
    else s_meth s' = s_meth s /\ s_body s' = s_body s /\ s_clen s' = s_clen s /\
         (consumed_after_send (s_body s) = false \/ rs_unsent r = true).
Proof.
  intros Hn Hn'.
  destruct (step_from c resps (init q) i s s' Hn Hn') as (r & st1 & target & Hr & Hs & Hf & _ & Hb & _ & Hs').
  exists r. split; auto. apply follow_redirect_doc in Hf as [Hf1 Hf2]. split; auto. split; auto.
  unfold toget_of in Hb. rewrite switch_to_get_doc in Hb.
  subst s'. cbn [sent_of next_state s_meth s_body s_clen r_meth r_body r_clen stripped].
  unfold toget_of. rewrite switch_to_get_doc.
  destruct (doc_switch_to_get (rs_status r) (s_meth s)); [auto|].
  cbn [negb andb] in Hb. subst s. cbn [sent_of s_meth s_body s_clen] in *.
  repeat split; auto.
  destruct (consumed_after_send (r_body st1)); [right|left; reflexivity].
  cbn [andb] in Hb. now destruct (rs_unsent r).
Qed.

Lemma terminates c q resps :
  (Z.of_nat (length (sents (run c q resps))) <= Z.max 1 (c_max c))%Z.
Proof.
  pose proof (bounded_from c resps (init q)) as H. cbn [init r_redirects] in H.
  unfold run. lia.
Qed.

Lemma terminates_outcome c q resps :
  (Z.max 1 (c_max c) <= Z.of_nat (length resps))%Z -> result (run c q resps) <> Pending.
Proof.
  intros Hl Hp. pose proof (terminates c q resps) as H.
  unfold run in *. rewrite (pending_len c resps (init q) Hp) in H. lia.
Qed.

Lemma only_http c q resps i s :
  http_scheme (o_sch (u_org (q_url q))) = true ->
  nth_error (sents (run c q resps)) i = Some s -> http_scheme (o_sch (s_org s)) = true.
Proof. intros Hh Hn. exact (http_from c resps (init q) i s Hh Hn). Qed.

Lemma refused_not_followed c q resps i r :
  nth_error resps i = Some r -> refused_location (rs_loc r) ->
  nth_error (sents (run c q resps)) (S i) = None.
Proof.
  intros Hr Hl.
  destruct (nth_error (sents (run c q resps)) (S i)) as [s'|] eqn:Hn'; [|reflexivity]. exfalso.
  assert (Hlt : (i < length (sents (run c q resps)))%nat).
  { assert (S i < length (sents (run c q resps)))%nat by (apply nth_error_Some; congruence). lia. }
  destruct (nth_error (sents (run c q resps)) i) as [s|] eqn:Hn; [|apply nth_error_None in Hn; lia].
  destruct (step_from c resps (init q) i s s' Hn Hn') as (r' & st1 & target & Hr' & _ & _ & _ & _ & Hres & _).
  rewrite Hr in Hr'. inversion Hr'; subst r'.
  destruct Hl as [Hl|[Hl|[Hl|(u & Hl & Hu)]]]; rewrite Hl in Hres; cbn [resolve] in Hres; try discriminate.
  destruct (scheme_allowed (o_sch (u_org u))) eqn:E; [|discriminate].
  apply scheme_allowed_http in E. congruence.
Qed.

Lemma history_done c q resps status h :
  result (run c q resps) = Done status h ->
  exists n r, length (sents (run c q resps)) = S n /\
    disps (run c q resps) = repeat DReleased n ++ [DReturned] /\
    nth_error resps n = Some r /\ status = rs_status r /\
    (h = hist_of (firstn n (sents (run c q resps))) resps
     \/ (h = hist_of (sents (run c q resps)) resps /\ rs_loc r = LNone /\ follow_redirect (rs_status r) (c_allow c) = true)).
Proof.
  intro H. pose proof (history_from c resps (init q)) as P. cbn zeta in P. unfold run in *. rewrite H in P. exact P.
Qed.

Lemma history_failed c q resps e h :
  result (run c q resps) = Failed e h -> e <> EAuthConflict ->
  h = hist_of (sents (run c q resps)) resps /\
  exists n, length (sents (run c q resps)) = S n /\ disps (run c q resps) = repeat DReleased n ++ [DClosed] /\ (n < length resps)%nat.
Proof.
  intros H He. pose proof (history_from c resps (init q)) as P. cbn zeta in P. unfold run in *. rewrite H in P.
  destruct e; try congruence; exact P.
Qed.

Lemma history_conflict c q resps h :
  result (run c q resps) = Failed EAuthConflict h ->
  h = [] /\ sents (run c q resps) = [] /\ disps (run c q resps) = [].
Proof.
  intros H. pose proof (history_from c resps (init q)) as P. cbn zeta in P. unfold run in *. rewrite H in P. exact P.
Qed.
