(* C10 (totality, request target): every ACCEPTED request head passed check_target, so an authority-form (CONNECT)
   or absolute-form target was put to the URL library and accepted by it — no message is handed on whose URL
   object would raise when it is read (in RequestHandler.start, outside every try block).  For all byte strings
   and every oracle. *)
From AV Require Import Lib.Base Lib.BytesX Generated.HttpGen Model.Http Proofs.HttpReject Proofs.HttpHead.
Open Scope N_scope.

Definition target_validated (o : oracle) (m : msg) : Prop :=
  existsb target_forbidden (m_target m) = false /\
  if list_eqb (m_method m) m_CONNECT then ask o true (m_target m) = Some true
  else if starts_with [47] (m_target m) then True
  else if list_eqb (m_target m) [42] && list_eqb (m_method m) m_OPTIONS then True
  else ask o false (m_target m) = Some true.

Lemma check_target_validated o meth t :
  check_target o meth t = POk tt ->
  existsb target_forbidden t = false /\
  if list_eqb meth m_CONNECT then ask o true t = Some true
  else if starts_with [47] t then True
  else if list_eqb t [42] && list_eqb meth m_OPTIONS then True
  else ask o false t = Some true.
Proof.
  unfold check_target. destruct (existsb target_forbidden t); [discriminate|]. intro H. split; [reflexivity|].
  destruct (list_eqb meth m_CONNECT).
  - destruct (ask o true t) as [[|]|]; [reflexivity|discriminate|discriminate].
  - destruct (starts_with [47] t); [exact I|].
    destruct (list_eqb t [42] && list_eqb meth m_OPTIONS); [exact I|].
    destruct (ask o false t) as [[|]|]; [reflexivity|discriminate|discriminate].
Qed.

Lemma parse_request_target_checked o lines m :
  parse_request o lines = POk m -> check_target o (m_method m) (m_target m) = POk tt.
Proof.
  destruct lines as [|rl fls]; [discriminate|]. cbn [parse_request].
  destruct (split_first 32 rl) as [[meth r]|]; [|discriminate].
  destruct (split_first 32 r) as [[t v]|]; [|discriminate].
  destruct (nonempty meth && forallb tchar meth); cbn [negb]; [|discriminate].
  destruct (parse_version v) as [[vmaj vmin]|]; [|discriminate].
  destruct (check_target o (map upper meth) t) as [[]| |] eqn:Et; try discriminate.
  destruct (parse_fields fls []) as [hs| |]; try discriminate.
  destruct (derive hs) as [hi| |]; try discriminate.
  destruct ((vmaj =? 1) && (vmin =? 1) && negb (has_header h_host hs)); [discriminate|].
  intro H. inversion H; subst; clear H. cbn. exact Et.
Qed.

Lemma accepted_target_validated o lines m : parse_request o lines = POk m -> target_validated o m.
Proof. intro H. apply parse_request_target_checked in H. exact (check_target_validated _ _ _ H). Qed.

(* ... and so for every message the parser starts *)
Lemma started_message_target_validated lim o s ls r :
  start_message lim o s ls = POk r -> exists m, parse_request o (removelast ls) = POk m /\ target_validated o m.
Proof.
  intro H. apply start_message_cl in H as (m & Hm & _). exists m. split; [exact Hm|exact (accepted_target_validated _ _ _ Hm)].
Qed.

(* an authority the URL library refuses, or was never asked about, is never accepted *)
Lemma connect_refused_not_accepted o lines m :
  parse_request o lines = POk m -> list_eqb (m_method m) m_CONNECT = true -> ask o true (m_target m) <> Some true -> False.
Proof.
  intros H Hc Hn. apply accepted_target_validated in H as [_ H]. rewrite Hc in H. exact (Hn H).
Qed.

(* witnesses: CONNECT h:443 with the three possible answers of the oracle *)
Definition w_connect_lines : list bytes :=
  [[67;79;78;78;69;67;84; 32; 104;58;52;52;51; 32; 72;84;84;80;47;49;46;49]; [72;111;115;116;58;32;120]].
Definition w_connect_target : bytes := [104;58;52;52;51].
Lemma connect_witness :
  (exists m, parse_request [(true, w_connect_target, true)] w_connect_lines = POk m /\ m_target m = w_connect_target) /\
  parse_request [(true, w_connect_target, false)] w_connect_lines = PErr EInvalidUrl /\
  parse_request [] w_connect_lines = PAsk true w_connect_target.
Proof. split; [eexists; split; vm_compute; reflexivity|split; vm_compute; reflexivity]. Qed.
