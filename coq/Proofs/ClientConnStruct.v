(* C06 — structural invariant of Model/ClientConn.v: who holds which connection, what the pool contains. *)
From AV Require Import Lib.Base Generated.ClientConnGen Model.ClientConn Proofs.ClientConnBase.
Open Scope N_scope.

Lemma NoDup_app_intro_single (l : list N) c : NoDup l -> ~ In c l -> NoDup (l ++ [c]).
Proof.
  induction l as [|a l IH]; cbn; intros Hn Hi; [constructor; [tauto|constructor]|].
  inversion Hn; subst. constructor.
  - intros H. apply in_app_or in H. destruct H as [H|[H|[]]]; [contradiction|subst; tauto].
  - apply IH; [assumption|tauto].
Qed.

(* local well-formedness of an exchange record *)
Definition xok (x : exch) : Prop :=
  (x_st x = XConn \/ x_st x = XWait -> x_held x = true) /\
  (x_closed x = false -> x_st x = XHead \/ x_st x = XDone).

(* the part of the state the structural invariant talks about *)
Record Struct (s : state) : Prop := {
  st_fresh : forall c, s_nconn s <= c -> c_phase (s_conn s c) = PClosed;
  st_pool : forall c, In c (s_pool s) -> c_phase (s_conn s c) = PIdle;
  st_nodup : NoDup (s_pool s);
  st_held : forall e, x_held (s_x s e) = true -> c_phase (s_conn s (x_conn (s_x s e))) = PFlight e;
  st_xok : forall e, xok (s_x s e)
}.

(* a step that leaves phases, pool, exchanges and the connection counter alone *)
Lemma struct_frame s s' :
  (forall c, c_phase (s_conn s' c) = c_phase (s_conn s c)) ->
  s_pool s' = s_pool s -> (forall e, s_x s' e = s_x s e) -> s_nconn s' = s_nconn s ->
  Struct s -> Struct s'.
Proof.
  intros Hc Hp Hx Hn [A B C D E]. split.
  - intros c H. rewrite Hc. apply A. now rewrite <- Hn.
  - intros c H. rewrite Hc. apply B. now rewrite <- Hp.
  - now rewrite Hp.
  - intros e H. rewrite Hx in *. rewrite Hc. now apply D.
  - intros e. rewrite Hx. apply E.
Qed.

Lemma struct_init : Struct init.
Proof.
  split; cbn; intros; try reflexivity; try contradiction; try discriminate; [constructor|].
  split; cbn; intros H; [destruct H; discriminate|discriminate].
Qed.

Lemma mark_incomplete_phase cn : c_phase (mark_incomplete cn) = c_phase cn.
Proof. unfold mark_incomplete. now destruct (prog_done _). Qed.

(* releasing the connection held by exchange e, together with e giving it up *)
Lemma struct_release cf s e x' arg :
  Struct s -> x_held (s_x s e) = true -> x_held x' = false -> xok x' ->
  Struct (release_conn cf (set_exch s e x') (x_conn (s_x s e)) arg).
Proof.
  intros [A B C D E] Hh Hx' Hst'. set (c := x_conn (s_x s e)).
  pose proof (D e Hh) as Hph. fold c in Hph.
  assert (Hother : forall e', e' <> e -> x_held (s_x s e') = true -> x_conn (s_x s e') <> c).
  { intros e' Hne Hh' Heq. pose proof (D e' Hh') as H1. rewrite Heq, Hph in H1. congruence. }
  assert (Hnp : ~ In c (s_pool s)).
  { intros Hin. apply B in Hin. congruence. }
  unfold release_conn. cbn [s_conn set_exch set_s_x]. rewrite Hph.
  destruct (release_closes_gen _ _ _).
  - split; cbn.
    + intros c' H. destruct (upd_cases (s_conn s) c (close_proto (mark_incomplete (s_conn s c))) c') as [[-> E']|[_ E']]; rewrite E'; [reflexivity|now apply A].
    + intros c' H. destruct (upd_cases (s_conn s) c (close_proto (mark_incomplete (s_conn s c))) c') as [[-> E']|[_ E']]; rewrite E'; [contradiction|now apply B].
    + exact C.
    + intros e' H. destruct (upd_cases (s_x s) e x' e') as [[-> E']|[Hne E']]; rewrite E' in *; [congruence|].
      rewrite upd_other; [now apply D|now apply Hother].
    + intros e'. destruct (upd_cases (s_x s) e x' e') as [[-> E']|[Hne E']]; rewrite E'; [exact Hst'|apply E].
  - split; cbn.
    + intros c' H. destruct (upd_cases (s_conn s) c (set_c_phase (mark_incomplete (s_conn s c)) PIdle) c') as [[-> E']|[_ E']]; rewrite E'.
      * specialize (A c H). congruence.
      * now apply A.
    + intros c' H. apply in_app_or in H.
      destruct (upd_cases (s_conn s) c (set_c_phase (mark_incomplete (s_conn s c)) PIdle) c') as [[-> E']|[Hne E']]; rewrite E'; [reflexivity|].
      destruct H as [H|[H|[]]]; [now apply B|congruence].
    + apply NoDup_app_intro_single; assumption.
    + intros e' H. destruct (upd_cases (s_x s) e x' e') as [[-> E']|[Hne E']]; rewrite E' in *; [congruence|].
      rewrite upd_other; [now apply D|now apply Hother].
    + intros e'. destruct (upd_cases (s_x s) e x' e') as [[-> E']|[Hne E']]; rewrite E'; [exact Hst'|apply E].
Qed.

(* ---- small frames ---- *)
Lemma sf_conn s c cn' : Struct s -> c_phase cn' = c_phase (s_conn s c) -> Struct (set_conn s c cn').
Proof.
  intros S H. apply (struct_frame s); try reflexivity; [|exact S].
  intros c'. cbn. destruct (upd_cases (s_conn s) c cn' c') as [[-> E]|[_ E]]; rewrite E; [exact H|reflexivity].
Qed.

Lemma sf_payl s p pl : Struct s -> Struct (set_payl s p pl).
Proof. intros S. now apply (struct_frame s). Qed.
Lemma sf_log s l : Struct s -> Struct (set_s_log s l).
Proof. intros S. now apply (struct_frame s). Qed.
Lemma sf_seg s g : Struct s -> Struct (set_s_seg s g).
Proof. intros S. now apply (struct_frame s). Qed.
Lemma sf_npay s n : Struct s -> Struct (set_s_npay s n).
Proof. intros S. now apply (struct_frame s). Qed.
Lemma sf_idle s b : Struct s -> Struct (set_s_idle_parsed s b).
Proof. intros S. now apply (struct_frame s). Qed.
Lemma sf_tails s b : Struct s -> Struct (set_s_tail_surplus s b).
Proof. intros S. now apply (struct_frame s). Qed.

(* an exchange record changes without giving up or taking a connection *)
Lemma sf_exch s e x' :
  Struct s -> x_held x' = x_held (s_x s e) -> x_conn x' = x_conn (s_x s e) -> xok x' ->
  Struct (set_exch s e x').
Proof.
  intros [A B C D E] Hh Hc Hw. split; cbn; try assumption.
  - intros e' H. destruct (upd_cases (s_x s) e x' e') as [[-> E']|[Hne E']]; rewrite E' in *.
    + rewrite Hc. apply D. now rewrite <- Hh.
    + now apply D.
  - intros e'. destruct (upd_cases (s_x s) e x' e') as [[-> E']|[Hne E']]; rewrite E'; [exact Hw|apply E].
Qed.

(* an exchange that holds nothing changes into one that holds nothing *)
Lemma sf_exch_unheld s e x' :
  Struct s -> x_held (s_x s e) = false -> x_held x' = false -> xok x' ->
  Struct (set_exch s e x').
Proof.
  intros [A B C D E] Hh Hx' Hst. split; cbn; try assumption.
  - intros e' H. destruct (upd_cases (s_x s) e x' e') as [[-> E']|[Hne E']]; rewrite E' in *; [congruence|now apply D].
  - intros e'. destruct (upd_cases (s_x s) e x' e') as [[-> E']|[Hne E']]; rewrite E'; [exact Hst|apply E].
Qed.

(* either way of dropping the connection of exchange e *)
Lemma struct_drop cf s e x' arg :
  Struct s -> x_held x' = false -> xok x' ->
  Struct (let s1 := set_exch s e x' in if x_held (s_x s e) then release_conn cf s1 (x_conn (s_x s e)) arg else s1).
Proof.
  intros S Hx' Hst. cbv zeta. destruct (x_held (s_x s e)) eqn:Hh.
  - now apply struct_release.
  - now apply sf_exch_unheld.
Qed.

(* ---- _get ---- *)
Lemma struct_pool_get cf key : forall pool s kept s1 got,
  (forall c, s_nconn s <= c -> c_phase (s_conn s c) = PClosed) ->
  (forall c, In c (kept ++ pool) -> c_phase (s_conn s c) = PIdle) ->
  NoDup (kept ++ pool) ->
  (forall e, x_held (s_x s e) = true -> c_phase (s_conn s (x_conn (s_x s e))) = PFlight e) ->
  (forall e, xok (s_x s e)) ->
  pool_get cf s key pool kept = (s1, got) ->
  Struct s1 /\ s_x s1 = s_x s /\ s_nconn s1 = s_nconn s /\
  (forall c, got = Some c -> c_phase (s_conn s1 c) = PIdle /\ ~ In c (s_pool s1) /\ c_conn (s_conn s1 c) = true).
Proof.
  induction pool as [|c rest IH]; intros s kept s1 got A B C D E H; cbn [pool_get] in H.
  - inv_some. rewrite app_nil_r in *. split; [|repeat split; intros; discriminate].
    split; cbn; assumption.
  - destruct (list_eqb (c_key (s_conn s c)) key).
    + destruct (reusable cf s (s_conn s c)) eqn:Er.
      * inv_some. split; [|split; [reflexivity|split; [reflexivity|]]].
        -- split; cbn; try assumption.
           ++ intros c' Hin. apply B. apply in_app_or in Hin. apply in_or_app. destruct Hin; [now left|right; now right].
           ++ apply NoDup_remove_1 in C. exact C.
        -- intros c' Hc. injection Hc as <-. split; [apply B; apply in_or_app; right; now left|]. split.
           ++ apply NoDup_remove_2 in C. exact C.
           ++ unfold reusable in Er. apply andb_true_iff in Er as [Er _]. now apply get_reuses_connected in Er.
      * assert (Hc : c_phase (s_conn s c) = PIdle) by (apply B; apply in_or_app; right; now left).
        apply (IH (set_conn s c (close_proto (s_conn s c))) kept s1 got); try exact H; cbn.
        -- intros c' Hge. destruct (upd_cases (s_conn s) c (close_proto (s_conn s c)) c') as [[-> E']|[_ E']]; rewrite E'; [reflexivity|now apply A].
        -- intros c' Hin. destruct (upd_cases (s_conn s) c (close_proto (s_conn s c)) c') as [[-> E']|[_ E']]; rewrite E'.
           ++ exfalso. apply NoDup_remove_2 in C. exact (C Hin).
           ++ apply B. apply in_app_or in Hin. apply in_or_app. destruct Hin; [now left|right; now right].
        -- apply NoDup_remove_1 in C. exact C.
        -- intros e' Hh. pose proof (D e' Hh) as H1.
           destruct (upd_cases (s_conn s) c (close_proto (s_conn s c)) (x_conn (s_x s e'))) as [[Eq E']|[_ E']]; rewrite E'; [|exact H1].
           rewrite Eq in H1. congruence.
        -- exact E.
    + apply (IH s (kept ++ [c]) s1 got); try assumption; rewrite <- app_assoc; cbn; assumption.
Qed.

(* ---- helpers of the step function ---- *)
Lemma struct_response_eof cf s e : Struct s -> Struct (response_eof cf s e).
Proof.
  intros S. unfold response_eof.
  destruct (response_eof_releases_gen _ _) eqn:Ec; [|exact S].
  apply response_eof_releases_true in Ec as [Hc _].
  apply (struct_drop cf s e (set_x_held (set_x_closed (s_x s e) true) false) false S); [reflexivity|].
  destruct (st_xok s S e) as [_ H2]. specialize (H2 Hc).
  split; cbn; intros H; [destruct H2, H; congruence|discriminate].
Qed.

Lemma push_msgs_phase ms : forall cn, c_phase (push_msgs cn ms) = c_phase cn.
Proof.
  induction ms as [|m ms IH]; intros cn; cbn [push_msgs]; [reflexivity|]. rewrite IH.
  now destruct (m_close m && msg_close_latches_gen).
Qed.

Lemma struct_surplus_tail s cn : Struct s -> Struct (surplus_tail s cn).
Proof. intros S. unfold surplus_tail. destruct (prog_done _); [now apply sf_tails|exact S]. Qed.

Lemma struct_parse_tok cf s g tk tg s' g' : Struct s -> parse_tok cf s g tk tg = Some (s', g') -> Struct s'.
Proof.
  intros S H. unfold parse_tok in H.
  destruct (c_pst (s_conn s (g_c g))) as [|pid rem]; destruct tk as [id blen cl up|id n|id|id]; try discriminate.
  - destruct (c_ptail _ || c_psc _); [unfold parse_error in H; inv_some; now apply sf_conn|].
    destruct up; [inv_some; now apply sf_conn|].
    destruct (blen =? 0); inv_some; [now apply sf_conn|].
    apply sf_conn; [|reflexivity]. apply sf_npay. now apply sf_payl.
  - inv_some. apply struct_surplus_tail. now apply sf_conn.
  - unfold parse_error in H. inv_some. now apply sf_conn.
  - inv_some. apply struct_surplus_tail. now apply sf_conn.
  - destruct (n <? rem); inv_some.
    + apply sf_conn; [now apply sf_payl|reflexivity].
    + match goal with |- Struct (if _ then surplus_tail (set_conn ?s3 _ _) _ else _) => assert (S3 : Struct s3) end.
      { assert (S2 : Struct (set_conn (set_payl s pid (set_p_cb (set_p_eof (set_p_items (s_pay s pid) (p_items (s_pay s pid) ++ [(id, tg)])) true) None))
                               (g_c g) (set_c_pst (s_conn s (g_c g)) PSHead)))
          by (apply sf_conn; [now apply sf_payl|reflexivity]).
        cbn [p_cb set_p_items]. destruct (p_cb _); [now apply struct_response_eof|exact S2]. }
      destruct (rem <? n); [|exact S3]. apply struct_surplus_tail. now apply sf_conn.
Qed.

Lemma struct_proc_tok cf s g tk tg s' g' : Struct s -> proc_tok cf s g tk tg = Some (s', g') -> Struct s'.
Proof.
  intros S H. unfold proc_tok in H. destruct (g_err g); [inv_some; exact S|].
  destruct (g_stash g); [inv_some; now apply sf_conn|].
  destruct (c_pupg _); [inv_some; exact S|]. eapply struct_parse_tok; eauto.
Qed.

Lemma struct_ghost_tok s c tk : Struct s -> Struct (ghost_tok s c tk).
Proof.
  intros S. unfold ghost_tok. destruct (c_phase (s_conn s c)) eqn:E.
  - destruct (ghost_prog _ _). apply sf_conn; [exact S|now rewrite E].
  - apply sf_idle. apply sf_conn; [exact S|now rewrite E].
  - apply sf_idle. apply sf_conn; [exact S|now rewrite E].
Qed.

Lemma xok_conn c : xok {| x_st := XConn; x_conn := c; x_held := true; x_closed := true; x_pay := None |}.
Proof. split; cbn; intros H; [reflexivity|discriminate]. Qed.

Lemma struct_step cf s ev s' : Struct s -> step cf s ev = Some s' -> Struct s'.
Proof.
  intros S H. destruct ev; cbn [step] in H; try (destruct (no_seg s); [|discriminate]).
  - (* connect *)
    unfold do_connect in H. destruct (x_st (s_x s e)); try discriminate.
    destruct (pool_get cf s (key_of_req r) (s_pool s) []) as [s1 got] eqn:Eg.
    destruct S as [A B C D E].
    destruct (struct_pool_get cf (key_of_req r) (s_pool s) s [] s1 got A B C D E Eg) as ([A1 B1 C1 D1 E1] & Hx & Hn & Hg).
    destruct got as [c|]; inv_some.
    + destruct (Hg c eq_refl) as (Hph & Hnin & _). split; cbn.
      * intros c' Hge. destruct (upd_cases (s_conn s1) c (set_c_prog (set_c_phase (s_conn s1 c) (PFlight e)) GNone) c') as [[-> E']|[_ E']]; rewrite E'; [|now apply A1].
        specialize (A1 c Hge). congruence.
      * intros c' Hin. destruct (upd_cases (s_conn s1) c (set_c_prog (set_c_phase (s_conn s1 c) (PFlight e)) GNone) c') as [[-> E']|[_ E']]; rewrite E'; [contradiction|now apply B1].
      * exact C1.
      * intros e' Hh. destruct (upd_cases (s_x s1) e {| x_st := XConn; x_conn := c; x_held := true; x_closed := true; x_pay := None |} e') as [[-> E']|[Hne E']]; rewrite E' in *; cbn.
        -- now rewrite upd_same.
        -- pose proof (D1 e' Hh) as H1. rewrite upd_other; [exact H1|]. intros Heq. rewrite Heq in H1. congruence.
      * intros e'. destruct (upd_cases (s_x s1) e {| x_st := XConn; x_conn := c; x_held := true; x_closed := true; x_pay := None |} e') as [[-> E']|[Hne E']]; rewrite E'; [apply xok_conn|apply E1].
    + set (n := s_nconn s1). assert (Hpn : c_phase (s_conn s1 n) = PClosed) by (apply A1; subst n; lia).
      split; cbn.
      * intros c' Hge. rewrite upd_other; [apply A1; fold n; lia|fold n in Hge; lia].
      * intros c' Hin. rewrite upd_other; [now apply B1|]. intros ->. apply B1 in Hin. fold n in Hin. congruence.
      * exact C1.
      * intros e' Hh. destruct (upd_cases (s_x s1) e {| x_st := XConn; x_conn := n; x_held := true; x_closed := true; x_pay := None |} e') as [[-> E']|[Hne E']]; rewrite E' in *; cbn.
        -- now rewrite upd_same.
        -- pose proof (D1 e' Hh) as H1. rewrite upd_other; [exact H1|]. intros Heq. rewrite Heq in H1. congruence.
      * intros e'. destruct (upd_cases (s_x s1) e {| x_st := XConn; x_conn := n; x_held := true; x_closed := true; x_pay := None |} e') as [[-> E']|[Hne E']]; rewrite E'; [apply xok_conn|apply E1].
  - (* params *)
    unfold do_params in H. destruct (x_st (s_x s e)) eqn:Est; try discriminate.
    destruct (st_xok s S e) as [X1 X2].
    assert (Sx : Struct (set_exch s e (set_x_st (s_x s e) XWait))).
    { apply sf_exch; [exact S|reflexivity|reflexivity|]. split; cbn; intros H'; [apply X1; now left|].
      destruct (X2 H'); congruence. }
    destruct (c_htail (s_conn s (x_conn (s_x s e)))); inv_some.
    + now apply sf_conn.
    + apply sf_seg. now apply sf_conn.
  - (* read *)
    unfold do_read in H. destruct (x_st (s_x s e)) eqn:Est; try discriminate.
    destruct (st_xok s S e) as [X1 X2].
    assert (Hh : x_held (s_x s e) = true) by (apply X1; now right).
    destruct (c_buf (s_conn s (x_conn (s_x s e)))) as [|m rest] eqn:Eb.
    + destruct (c_exc _ =? 0); [discriminate|]. inv_some.
      apply struct_release; [exact S|exact Hh|reflexivity|]. split; cbn; intros H'; [destruct H'; discriminate|].
      destruct (X2 H'); congruence.
    + match type of H with context[set_exch ?t e ?x] => assert (S3 : Struct (set_exch t e x)) end.
      { apply sf_exch; [apply sf_log; now apply sf_conn|reflexivity|reflexivity|].
        split; cbn; intros H'; [destruct H'; discriminate|now left]. }
      destruct (m_pay m).
      * destruct (p_eof _); [inv_some; now apply struct_response_eof|].
        destruct (p_exc _); inv_some; [exact S3|now apply sf_payl].
      * inv_some. now apply struct_response_eof.
  - (* body *)
    unfold do_body in H. destruct (x_st (s_x s e)) eqn:Est; try discriminate.
    assert (Hfin : forall s0, Struct s0 -> x_st (s_x s0 e) = XHead ->
      Struct (let x' := s_x s0 e in
              let upgraded := x_held x' && c_upg (s_conn s0 (x_conn x')) in
              let s'' := set_exch s0 e (set_x_held (set_x_st x' XDone) (x_held x' && upgraded)) in
              if x_held x' && negb upgraded then release_conn cf s'' (x_conn x') false else s'')).
    { intros s0 S0 E0. cbv zeta. destruct (st_xok s0 S0 e) as [Y1 Y2].
      assert (Hxok : forall b, xok (set_x_held (set_x_st (s_x s0 e) XDone) b)).
      { intros b. split; cbn; intros H'; [destruct H'; discriminate|now right]. }
      destruct (x_held (s_x s0 e)) eqn:Hh; cbn [andb].
      - destruct (c_upg (s_conn s0 (x_conn (s_x s0 e)))) eqn:Eu; cbn [negb andb].
        + apply sf_exch; [exact S0|now rewrite Hh|reflexivity|apply Hxok].
        + apply struct_release; [exact S0|exact Hh|reflexivity|apply Hxok].
      - apply sf_exch_unheld; [exact S0|exact Hh|reflexivity|apply Hxok]. }
    destruct (x_pay (s_x s e)).
    + destruct (p_exc _ || _).
      * inv_some.
        apply (struct_drop cf s e (set_x_held (set_x_closed (set_x_st (s_x s e) XDone) true) false) true S); [reflexivity|].
        split; cbn; intros H'; [destruct H'; discriminate|discriminate].
      * destruct (p_eof _); [|discriminate]. inv_some.
        apply (Hfin (set_s_log s (s_log s ++ log_items e (p_items (s_pay s n))))); [now apply sf_log|exact Est].
    + inv_some. exact (Hfin s S Est).
  - (* release *)
    unfold do_release in H.
    assert (Hgo : forall s0, Struct s0 -> s_x s0 e = s_x s e ->
              Struct (let s1 := set_exch s0 e (set_x_held (set_x_closed (set_x_st (s_x s e) XDone) true) false) in
                      if x_held (s_x s e) then release_conn cf s1 (x_conn (s_x s e)) false else s1)).
    { intros s0 S0 Ex. rewrite <- Ex.
      apply (struct_drop cf s0 e (set_x_held (set_x_closed (set_x_st (s_x s0 e) XDone) true) false) false S0); [reflexivity|].
      split; cbn; intros H'; [destruct H'; discriminate|discriminate]. }
    destruct (x_st (s_x s e)); try discriminate; inv_some; apply Hgo;
      destruct (x_pay (s_x s e)); try exact S; try reflexivity; now apply sf_payl.
  - (* close *)
    unfold do_release in H.
    assert (Hgo : forall s0, Struct s0 -> s_x s0 e = s_x s e ->
              Struct (let s1 := set_exch s0 e (set_x_held (set_x_closed (set_x_st (s_x s e) XDone) true) false) in
                      if x_held (s_x s e) then release_conn cf s1 (x_conn (s_x s e)) true else s1)).
    { intros s0 S0 Ex. rewrite <- Ex.
      apply (struct_drop cf s0 e (set_x_held (set_x_closed (set_x_st (s_x s0 e) XDone) true) false) true S0); [reflexivity|].
      split; cbn; intros H'; [destruct H'; discriminate|discriminate]. }
    destruct (x_st (s_x s e)); try discriminate; inv_some; apply Hgo;
      destruct (x_pay (s_x s e)); try exact S; try reflexivity; now apply sf_payl.
  - (* segbegin *)
    unfold do_segbegin in H. destruct ((c <? s_nconn s) && c_conn (s_conn s c)); inv_some. now apply sf_seg.
  - (* tok *)
    unfold do_tok in H. destruct (s_seg s) as [g|]; [|discriminate]. destruct (g_queue g); [|discriminate].
    destruct (proc_tok cf (ghost_tok s (g_c g) tk) g tk (g_tag g)) as [[s1 g1]|] eqn:Ep; [|discriminate]. inv_some.
    apply sf_seg. eapply struct_proc_tok; [|exact Ep]. now apply struct_ghost_tok.
  - (* replay *)
    unfold do_replay in H. destruct (s_seg s) as [g|]; [|discriminate]. destruct (g_queue g) as [|[tk tg] q]; [discriminate|].
    destruct (proc_tok cf s (set_g_queue g q) tk tg) as [[s1 g1]|] eqn:Ep; [|discriminate]. inv_some.
    apply sf_seg. eapply struct_proc_tok; eauto.
  - (* segend *)
    unfold do_segend in H. destruct (s_seg s) as [g|]; [|discriminate]. destruct (g_queue g); [|discriminate]. inv_some.
    apply sf_seg. apply sf_conn; [exact S|]. destruct (g_err g || g_stash g); [reflexivity|]. cbn. apply push_msgs_phase.
  - (* peerclose *)
    unfold do_peerclose in H. destruct ((c <? s_nconn s) && c_conn (s_conn s c)); inv_some.
    match goal with |- Struct (set_conn ?t _ _) => set (s1 := t) end.
    assert (K1 : Struct s1 /\ s_conn s1 c = s_conn s c).
    { subst s1. destruct (c_parser _); [|split; [exact S|reflexivity]].
      destruct (c_pst _); [split; [exact S|reflexivity]|].
      destruct (c_pay _); [|split; [exact S|reflexivity]]. split; [now apply sf_payl|reflexivity]. }
    destruct K1 as [K1 E1]. apply sf_conn; [exact K1|]. rewrite E1.
    now destruct (c_exc (s_conn s c) =? 0).
Qed.

Lemma struct_reach cf tr s : run cf init tr = Some s -> Struct s.
Proof. apply (run_invariant cf Struct (struct_step cf) tr init s struct_init). Qed.
