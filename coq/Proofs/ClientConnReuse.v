(* C06 — which connections _get hands out again, and when _release pools a connection. *)
From AV Require Import Lib.Base Generated.ClientConnGen Model.ClientConn Proofs.ClientConnBase Proofs.ClientConnStruct
  Proofs.ClientConnTagsDef Proofs.ClientConnCore Proofs.ClientConnTagsA Proofs.ClientConnTagsB.
Open Scope N_scope.

Lemma pool_get_reused cf key : forall pool s kept s1 c,
  pool_get cf s key pool kept = (s1, Some c) ->
  In c pool /\ reusable cf s1 (s_conn s1 c) = true /\
  (forall c', s_conn s1 c' = s_conn s c' \/ c_conn (s_conn s1 c') = false) /\ s_pay s1 = s_pay s.
Proof.
  induction pool as [|c0 rest IH]; intros s kept s1 c H; cbn [pool_get] in H; [discriminate|].
  destruct (list_eqb _ _).
  - destruct (reusable cf s (s_conn s c0)) eqn:Er.
    + injection H as <- <-. split; [now left|]. split; [exact Er|]. split; [intros c'; now left|reflexivity].
    + destruct (IH _ _ _ _ H) as (H1 & H2 & H3 & H4). split; [now right|]. split; [exact H2|]. split; [|exact H4].
      intros c'. destruct (H3 c') as [E|E]; [|now right]. rewrite E. cbn.
      destruct (upd_cases (s_conn s) c0 (close_proto (s_conn s c0)) c') as [[-> E']|[_ E']]; rewrite E'; [now right|now left].
  - destruct (IH _ _ _ _ H) as (H1 & H2 & H3 & H4). split; [now right|]. now split.
Qed.

(* C06_reuse_only_idle_connected: a connection handed out again was sitting in the pool, released there by
   _release (never closed by our side) and still connected (not closed by the peer, no parse error). *)
Theorem reuse_only_idle_connected cf tr s e r s' :
  run cf init tr = Some s -> step cf s (EConnect e r) = Some s' ->
  x_conn (s_x s' e) < s_nconn s ->
  let c := x_conn (s_x s' e) in
  In c (s_pool s) /\ c_phase (s_conn s c) = PIdle /\ c_conn (s_conn s c) = true.
Proof.
  intros Hr H Hlt. pose proof (struct_reach _ _ _ Hr) as S.
  cbn [step] in H. destruct (no_seg s); [|discriminate].
  unfold do_connect in H. destruct (x_st (s_x s e)); try discriminate.
  destruct (pool_get cf s (key_of_req r) (s_pool s) []) as [s1 got] eqn:Eg.
  destruct S as [A B C D E].
  destruct (struct_pool_get cf (key_of_req r) (s_pool s) s [] s1 got A B C D E Eg) as (_ & _ & Hn & _).
  destruct got as [c|]; inv_some.
  - cbn in Hlt |- *. rewrite upd_same in Hlt |- *. cbn in Hlt |- *.
    destruct (pool_get_reused cf _ _ _ _ _ _ Eg) as (H1 & H2 & H3 & _).
    unfold reusable in H2. apply andb_true_iff in H2 as [H2 _]. apply get_reuses_connected in H2.
    destruct (H3 c) as [E'|E']; [|congruence]. rewrite <- E'. repeat split; [exact H1| |exact H2].
    rewrite E'. now apply B.
  - cbn in Hlt. rewrite upd_same in Hlt. cbn in Hlt. rewrite Hn in Hlt. lia.
Qed.

(* what _release requires before it pools a connection (for every state, reachable or not) *)
Theorem release_pools_only_clean cf s c arg e :
  c_phase (s_conn s c) = PFlight e ->
  c_phase (s_conn (release_conn cf s c arg) c) = PIdle ->
  arg = false /\ cfg_force cf = false /\
  c_sc (s_conn s c) = false /\ pay_open s (s_conn s c) = false /\ c_upg (s_conn s c) = false /\
  c_exc (s_conn s c) = 0 /\ c_buf (s_conn s c) = [] /\ c_htail (s_conn s c) = [].
Proof.
  intros Hph H. unfold release_conn in H. rewrite Hph in H.
  destruct (release_closes_gen _ _ _) eqn:Er; cbn in H; rewrite upd_same in H.
  - unfold mark_incomplete in H. destruct (prog_done _); cbn in H; discriminate.
  - apply release_closes_false in Er as (E1 & E2 & E3).
    assert (E3' : proto_should_close s (s_conn s c) = false).
    { unfold mark_incomplete in E3. now destruct (prog_done _). }
    unfold proto_should_close in E3'. apply should_close_false in E3' as (X1 & X2 & X3 & X4 & X5 & X6 & X7).
    repeat split; try assumption.
    + destruct (c_exc (s_conn s c) =? 0) eqn:Ee; [now apply N.eqb_eq in Ee|discriminate].
    + now apply nonempty_false.
    + now apply nonempty_false.
Qed.

(* C06_quiet_pool_clean: in a quiet run every pooled connection has an empty response queue, an empty raw
   tail and a parser at a message boundary: there is nothing a later request could be answered with. *)
Theorem quiet_pool_clean cf tr s c :
  run cf init tr = Some s -> s_idle_parsed s = false -> In c (s_pool s) ->
  c_buf (s_conn s c) = [] /\ c_htail (s_conn s c) = [] /\ c_pst (s_conn s c) = PSHead.
Proof.
  intros Hr F Hin. destruct (good_run cf tr init s struct_init tags_init Hr F) as [S T].
  apply (ct_idle s c (tg_conn s (tg_core s T) c)). now apply (st_pool s S).
Qed.

(* C06_reuse_only_clean: at the moment a pooled connection is handed out again the protocol reports nothing that
   could belong to an earlier exchange: no close announced, last payload complete, not upgraded, no exception,
   response queue empty, raw tail empty, and no incomplete line in the parser's buffer. *)
Theorem reuse_only_clean cf tr s e r s' :
  run cf init tr = Some s -> step cf s (EConnect e r) = Some s' ->
  x_conn (s_x s' e) < s_nconn s ->
  let cn := s_conn s (x_conn (s_x s' e)) in
  c_sc cn = false /\ pay_open s cn = false /\ c_upg cn = false /\ c_exc cn = 0 /\
  c_buf cn = [] /\ c_htail cn = [] /\ (c_parser cn && c_ptail cn) = false.
Proof.
  intros Hr H Hlt. pose proof (struct_reach _ _ _ Hr) as S.
  cbn [step] in H. destruct (no_seg s); [|discriminate].
  unfold do_connect in H. destruct (x_st (s_x s e)); try discriminate.
  destruct (pool_get cf s (key_of_req r) (s_pool s) []) as [s1 got] eqn:Eg.
  destruct S as [A B C D E].
  destruct (struct_pool_get cf (key_of_req r) (s_pool s) s [] s1 got A B C D E Eg) as (_ & _ & Hn & _).
  destruct got as [c|]; inv_some.
  - cbn in Hlt |- *. rewrite upd_same in Hlt |- *. cbn in Hlt |- *.
    destruct (pool_get_reused cf _ _ _ _ _ _ Eg) as (H1 & H2 & H3 & H4).
    unfold reusable in H2. apply andb_true_iff in H2 as [H2 _].
    pose proof (get_reuses_connected _ _ _ _ H2) as Hc. apply get_reuses_clean in H2.
    destruct (H3 c) as [E'|E']; [|congruence]. rewrite E' in H2.
    unfold proto_should_close in H2. apply should_close_false in H2 as (X1 & X2 & X3 & X4 & X5 & X6 & X7).
    unfold pay_open in X2 |- *. rewrite H4 in X2.
    repeat split; try assumption.
    + destruct (c_exc (s_conn s c) =? 0) eqn:Ee; [now apply N.eqb_eq in Ee|discriminate].
    + now apply nonempty_false.
    + now apply nonempty_false.
  - cbn in Hlt. rewrite upd_same in Hlt. cbn in Hlt. rewrite Hn in Hlt. lia.
Qed.
