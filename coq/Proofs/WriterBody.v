(* C04 support: body framing of the StreamWriter model (Model/Writer.v: wstep / wrun).
   1. hexadecimal chunk-size numerals round-trip through the parser's parse_hex;
   2. what a chunked writer emits is decoded by the REQUEST PARSER's chunked decoder
      (Model/Http.v: feed_payload / chunked_loop) as exactly the written data;
   3. a declared length truncates what write() emits;
   4. the buffered head goes out first and exactly once. *)
From Coq Require Import ZifyBool ZifyN.
From AV Require Import Lib.Base Lib.BytesX Generated.HttpGen Model.Http Model.Writer
  Proofs.HttpSegBase Proofs.HttpSegChunk Proofs.HttpReject.
Ltac Zify.zify_post_hook ::= Z.to_euclidean_division_equations.
Open Scope N_scope.

(* ================================================================== 1. hex numerals *)
Definition hstep (a c : N) : N := 16 * a + hex_val c.

Lemma hex_val_hexdigit d : d < 16 -> hex_val (hexdigit d) = d.
Proof.
  intro H. unfold hex_val, hexdigit.
  destruct (d <? 10) eqn:E.
  - destruct ((48 <=? 48 + d) && (48 + d <=? 57)) eqn:E1; lia.
  - destruct ((48 <=? 87 + d) && (87 + d <=? 57)) eqn:E1; [lia|].
    destruct ((65 <=? 87 + d) && (87 + d <=? 70)) eqn:E2; lia.
Qed.

Lemma hexdigit_is_hex d : d < 16 -> hex_digit (hexdigit d) = true.
Proof. intro H. unfold hex_digit, hexdigit. destruct (d <? 10) eqn:E; lia. Qed.

Lemma hex_digit_not_sep c : hex_digit c = true -> c <> 13 /\ c <> 10 /\ c <> 59.
Proof. unfold hex_digit. intro H. lia. Qed.

Lemma to_hex_aux_parse : forall fuel n acc, n < 2 ^ N.of_nat fuel ->
  fold_left hstep (to_hex_aux fuel n acc) 0 = fold_left hstep acc n.
Proof.
  induction fuel as [|f IH]; intros n acc Hn.
  - cbn [to_hex_aux]. change (2 ^ N.of_nat 0) with 1 in Hn. replace n with 0 by lia. reflexivity.
  - cbn [to_hex_aux].
    assert (Hm : n mod 16 < 16) by (apply N.mod_lt; lia).
    rewrite Nat2N.inj_succ, N.pow_succ_r' in Hn.
    destruct (n / 16 =? 0) eqn:E.
    + cbn [fold_left]. f_equal. unfold hstep. rewrite hex_val_hexdigit by exact Hm. lia.
    + rewrite IH by (set (P := 2 ^ N.of_nat f) in *; lia).
      cbn [fold_left]. f_equal. unfold hstep. rewrite hex_val_hexdigit by exact Hm. lia.
Qed.

Lemma parse_hex_to_hex n : parse_hex (to_hex n) = n.
Proof.
  unfold parse_hex, to_hex.
  change (fold_left hstep (to_hex_aux (S (N.to_nat (N.log2 n))) n []) 0 = n).
  rewrite to_hex_aux_parse; [reflexivity|].
  rewrite Nat2N.inj_succ, N2Nat.id.
  destruct n as [|p]; [reflexivity|]. apply N.log2_spec. lia.
Qed.

Lemma to_hex_aux_digits : forall fuel n acc, forallb hex_digit acc = true ->
  forallb hex_digit (to_hex_aux fuel n acc) = true.
Proof.
  induction fuel as [|f IH]; intros n acc H; cbn [to_hex_aux]; [assumption|].
  assert (H2 : forallb hex_digit (hexdigit (n mod 16) :: acc) = true).
  { cbn [forallb]. rewrite H, hexdigit_is_hex; [reflexivity|]. apply N.mod_lt. lia. }
  destruct (n / 16 =? 0); [assumption|apply IH; assumption].
Qed.

Lemma to_hex_digits n : forallb hex_digit (to_hex n) = true.
Proof. apply to_hex_aux_digits. reflexivity. Qed.

Lemma to_hex_aux_nonnil : forall fuel n acc, acc <> [] -> to_hex_aux fuel n acc <> [].
Proof.
  induction fuel as [|f IH]; intros n acc H; cbn [to_hex_aux]; [assumption|].
  destruct (n / 16 =? 0); [discriminate|apply IH; discriminate].
Qed.

Lemma to_hex_nonnil n : to_hex n <> [].
Proof.
  unfold to_hex. cbn [to_hex_aux].
  destruct (n / 16 =? 0); [discriminate|apply to_hex_aux_nonnil; discriminate].
Qed.

Lemma to_hex_clean n c : In c (to_hex n) -> c <> 13 /\ c <> 10 /\ c <> 59.
Proof.
  intro H. apply hex_digit_not_sep.
  exact (forallb_In hex_digit (to_hex n) c (to_hex_digits n) H).
Qed.

Lemma hex_numerals : forall n,
  parse_hex (to_hex n) = n /\ forallb hex_digit (to_hex n) = true /\ to_hex n <> [] /\
  (forall c, In c (to_hex n) -> c <> 13 /\ c <> 10 /\ c <> 59).
Proof.
  intro n. split; [apply parse_hex_to_hex|]. split; [apply to_hex_digits|].
  split; [apply to_hex_nonnil|apply to_hex_clean].
Qed.

(* ================================================================== 2a. the decoder on one chunk *)
Lemma find_crlf_aux_clean : forall l acc r, ~ In 13 l ->
  find_crlf_aux acc (l ++ 13 :: 10 :: r) = Some (rev acc ++ l, r).
Proof.
  induction l as [|c l IH]; intros acc r Hn.
  - cbn [app]. rewrite find_crlf_aux_cons2. cbn [N.eqb Pos.eqb andb]. rewrite app_nil_r. reflexivity.
  - cbn [app]. destruct (l ++ 13 :: 10 :: r) as [|d x] eqn:Ex; [destruct l; discriminate|].
    rewrite find_crlf_aux_cons2.
    assert (Hc : c <> 13) by (intro; apply Hn; left; auto).
    destruct (c =? 13) eqn:E; [lia|]. cbn [andb]. rewrite <- Ex.
    rewrite IH by (intro; apply Hn; right; assumption).
    cbn [rev]. rewrite <- app_assoc. reflexivity.
Qed.

Lemma takeN_exact : forall d y, takeN (lenN d) (d ++ y) = (d, y).
Proof.
  induction d as [|c d IH]; intro y.
  - cbn [app]. change (lenN (@nil N)) with 0. destruct y; reflexivity.
  - cbn [app takeN]. rewrite lenN_cons.
    destruct (1 + lenN d =? 0) eqn:E; [lia|].
    replace (1 + lenN d - 1) with (lenN d) by lia. rewrite IH. reflexivity.
Qed.

Lemma takeN_firstn : forall s n, takeN n s = (firstn (N.to_nat n) s, skipn (N.to_nat n) s).
Proof.
  induction s as [|c s IH]; intro n.
  - cbn [takeN]. destruct (N.to_nat n); reflexivity.
  - cbn [takeN]. destruct (n =? 0) eqn:E.
    + replace n with 0 by lia. reflexivity.
    + rewrite IH. replace (N.to_nat n) with (S (N.to_nat (n - 1))) by lia. reflexivity.
Qed.

Lemma cloop_S lim mt f s x :
  cloop lim mt (S f) s x =
  match step_c lim mt s x with inl (s', x') => cloop lim mt f s' x' | inr r => r end.
Proof. reflexivity. Qed.

Lemma step_c_size lim mt tl evs line rest :
  line <> [] -> ~ In 13 line -> ~ In 59 line -> forallb hex_digit line = true ->
  lenN line <= max_line lim ->
  step_c lim mt (CSize, tl, evs) (line ++ 13 :: 10 :: rest) =
  if parse_hex line =? 0 then inl ((CTrailers, tl, evs), rest)
  else inl ((CData (parse_hex line), tl, evs), rest).
Proof.
  intros Hne H13 H59 Hhex Hlen.
  assert (Hf : find_crlf (line ++ 13 :: 10 :: rest) = Some (line, rest))
    by exact (find_crlf_aux_clean line [] rest H13).
  destruct line as [|a r]; [congruence|].
  cbn [app] in *. cbn [step_c]. rewrite Hf.
  destruct (max_line lim <? lenN (a :: r)) eqn:E; [lia|].
  destruct (split_first 59 (a :: r)) as [[sz ext]|] eqn:Es.
  { apply split_first_spec in Es as [Es _]. exfalso. apply H59. rewrite Es.
    apply in_or_app. right. left. reflexivity. }
  cbn [negb]. rewrite Hhex. cbn [nonempty andb negb]. reflexivity.
Qed.

Lemma step_c_data_full lim mt tl evs d y : d <> [] ->
  step_c lim mt (CData (lenN d), tl, evs) (d ++ y) =
  inl ((CDataEnd, tl, ev_chunk_end (ev_data d evs)), y).
Proof.
  intro Hd. destruct d as [|a r]; [congruence|]. cbn [app].
  rewrite (step_c_data lim mt (lenN (a :: r)) tl evs a (r ++ y) (a :: r) y).
  - replace (lenN (a :: r) - lenN (a :: r)) with 0 by lia. reflexivity.
  - exact (takeN_exact (a :: r) y).
Qed.

Lemma step_c_dataend lim mt tl evs rest :
  step_c lim mt (CDataEnd, tl, evs) (13 :: 10 :: rest) = inl ((CSize, tl, evs), rest).
Proof. reflexivity. Qed.

(* a non-empty chunk is consumed in exactly three iterations of the parser's loop *)
Lemma cloop_chunk lim mt f tl evs d rest : d <> [] -> lenN (to_hex (lenN d)) <= max_line lim ->
  cloop lim mt (S (S (S f))) (CSize, tl, evs) (chunk_enc d ++ rest) =
  cloop lim mt f (CSize, tl, ev_chunk_end (ev_data d evs)) rest.
Proof.
  intros Hd Hl. unfold chunk_enc, CRLF. rewrite <- !app_assoc. cbn [app].
  rewrite cloop_S, step_c_size.
  - rewrite parse_hex_to_hex.
    destruct (lenN d =? 0) eqn:E; [destruct d; [congruence|rewrite lenN_cons in E; lia]|].
    rewrite cloop_S, step_c_data_full by exact Hd.
    rewrite cloop_S, step_c_dataend. reflexivity.
  - apply to_hex_nonnil.
  - intro Hi. apply to_hex_clean in Hi. tauto.
  - intro Hi. apply to_hex_clean in Hi. tauto.
  - apply to_hex_digits.
  - exact Hl.
Qed.

(* the events the decoder produces for a list of writes: empty writes leave no trace *)
Definition deliver1 (d : bytes) (a : acc) : acc :=
  match d with [] => a | _ :: _ => ev_chunk_end (ev_data d a) end.
Fixpoint deliver (ds : list bytes) (a : acc) : acc :=
  match ds with [] => a | d :: ds' => deliver ds' (deliver1 d a) end.

(* what a chunked writer emits for one write: nothing for an empty one *)
Definition enc1 (d : bytes) : bytes := match d with [] => [] | _ :: _ => chunk_enc d end.
Definition chunked_body (ds : list bytes) : bytes := concat (map enc1 ds) ++ last_chunk.

Lemma cloop_chunks lim mt tl : forall ds evs rest,
  (forall d, In d ds -> lenN (to_hex (lenN d)) <= max_line lim) ->
  exists k, forall f,
    cloop lim mt (k + f) (CSize, tl, evs) (concat (map enc1 ds) ++ rest) =
    cloop lim mt f (CSize, tl, deliver ds evs) rest.
Proof.
  induction ds as [|d ds IH]; intros evs rest Hl.
  - exists 0%nat. intro f. reflexivity.
  - destruct (IH (deliver1 d evs) rest) as [k Hk]. { intros; apply Hl; right; assumption. }
    destruct d as [|a r].
    + exists k. intro f. cbn [map enc1 concat app deliver deliver1]. apply Hk.
    + exists (S (S (S k))). intro f. cbn [map concat deliver enc1]. rewrite <- app_assoc.
      change (S (S (S k)) + f)%nat with (S (S (S (k + f)))).
      rewrite cloop_chunk; [apply Hk|discriminate|apply Hl; left; reflexivity].
Qed.

Lemma step_c_last_trailer lim mt evs : 1 <= mt ->
  step_c lim mt (CTrailers, [], evs) [13; 10] = inr (PRDone [] (ev_eof evs)).
Proof.
  intro H. cbn [step_c].
  change (find_crlf [13; 10]) with (Some (@nil N, @nil N)).
  cbv iota beta.
  destruct (max_field lim <? _) eqn:E1; [change (max_field lim <? 0 = true) in E1; lia|].
  destruct (mt <? _) eqn:E2; [change (mt <? 1 = true) in E2; lia|]. reflexivity.
Qed.

Lemma cloop_last lim mt f evs : 1 <= max_line lim -> 1 <= mt ->
  cloop lim mt (S (S f)) (CSize, [], evs) last_chunk = PRDone [] (ev_eof evs).
Proof.
  intros H1 H2. unfold last_chunk.
  change [48; 13; 10; 13; 10] with ([48] ++ 13 :: 10 :: [13; 10]).
  rewrite cloop_S, step_c_size.
  - change (parse_hex [48] =? 0) with true. cbv iota.
    rewrite cloop_S, step_c_last_trailer by exact H2. reflexivity.
  - discriminate.
  - intros [H|[]]; discriminate.
  - intros [H|[]]; discriminate.
  - reflexivity.
  - exact H1.
Qed.

Lemma chunked_body_decodes lim mt ds evs :
  (forall d, In d ds -> lenN (to_hex (lenN d)) <= max_line lim) -> 1 <= max_line lim -> 1 <= mt ->
  feed_payload lim (mkP (PChunked CSize) [] [] mt) (chunked_body ds) evs =
  PRDone [] (ev_eof (deliver ds evs)).
Proof.
  intros Hl H1 H2. rewrite (feed_payload_chunked _ _ CSize) by reflexivity.
  cbn [too_long pk ctail tlines max_trailers app].
  destruct (cloop_chunks lim mt [] ds evs last_chunk Hl) as [k Hk].
  set (x := chunked_body ds).
  rewrite (cloop_fuel lim mt _ (k + S (S (2 * length x + 2))) (CSize, [], evs) x).
  - unfold x, chunked_body. rewrite Hk. apply cloop_last; assumption.
  - exact I.
  - apply meas_c_fuel.
  - pose proof (meas_c_fuel CSize [] evs x). lia.
Qed.

(* chunk ends are reported at the cumulative offsets of the non-empty writes *)
Fixpoint offsets (base : N) (ds : list bytes) : list N :=
  match ds with
  | [] => []
  | d :: ds' => match d with
                | [] => offsets base ds'
                | _ :: _ => (base + lenN d) :: offsets (base + lenN d) ds'
                end
  end.

Definition delivered (ds : list bytes) (eof : bool) (m : mrec) : mrec :=
  mkR (r_msg m) (r_body m) (r_data m ++ concat ds) (r_splits m ++ offsets (lenN (r_data m)) ds)
      (eof || r_eof m) (r_exc m).

Lemma deliver_nil_acc ds : deliver ds [] = [].
Proof. induction ds as [|d ds IH]; [reflexivity|]. cbn [deliver]. destruct d; exact IH. Qed.

Lemma deliver_cons_acc : forall ds m r, deliver ds (m :: r) = delivered ds false m :: r.
Proof.
  induction ds as [|d ds IH]; intros m r.
  - destruct m. unfold delivered. cbn. rewrite !app_nil_r. reflexivity.
  - cbn [deliver]. destruct d as [|a d].
    + cbn [deliver1]. rewrite IH. reflexivity.
    + cbn [deliver1 ev_data ev_chunk_end upd_cur]. rewrite IH. unfold delivered.
      cbn [r_msg r_body r_data r_splits r_eof r_exc concat offsets orb].
      rewrite <- !app_assoc. rewrite lenN_app. reflexivity.
Qed.

Lemma deliver_spec ds a :
  ev_eof (deliver ds a) =
  upd_cur (fun m => mkR (r_msg m) (r_body m) (r_data m ++ concat ds)
                        (r_splits m ++ offsets (lenN (r_data m)) ds) true (r_exc m)) a.
Proof.
  destruct a as [|m r]; [rewrite deliver_nil_acc; reflexivity|].
  rewrite deliver_cons_acc. reflexivity.
Qed.

(* ================================================================== the writer *)
Definition body_op (op : wop) : bool :=
  match op with WWrite _ | WSendHeaders => true | _ => false end.
Definition term_op (op : wop) : bool :=
  match op with WEof _ | WSetEof => true | _ => false end.

(* head buffered / head already written *)
Definition sA (l : option N) (c : bool) (H : bytes) : wstate := mkW l c (Some H) false false.
Definition sB (l : option N) (c : bool) : wstate := mkW l c None true false.

Lemma wrun_app : forall a s b,
  wrun s (a ++ b) =
  let '(s1, o1) := wrun s a in let '(s2, o2) := wrun s1 b in (s2, o1 ++ o2).
Proof.
  induction a as [|op a IH]; intros s b.
  - cbn [app wrun]. destruct (wrun s b). reflexivity.
  - cbn [app wrun]. destruct (wstep s op) as [s1 o1]. rewrite IH.
    destruct (wrun s1 a) as [s2 o2]. destruct (wrun s2 b) as [s3 o3].
    rewrite app_assoc. reflexivity.
Qed.

Lemma wrun_silent s op s1 ops : wstep s op = (s1, []) -> wrun s (op :: ops) = wrun s1 ops.
Proof. intro E. cbn [wrun]. rewrite E. destruct (wrun s1 ops). reflexivity. Qed.

Lemma wrun_one s op : wrun s [op] = (fst (wstep s op), snd (wstep s op)).
Proof. cbn [wrun]. destruct (wstep s op). cbn [fst snd]. rewrite app_nil_r. reflexivity. Qed.

(* self.length after write(d), and the part of d that write() lets through *)
Definition wlen (l : option N) (d : bytes) : option N :=
  match l with None => None | Some l => Some (l - lenN d) end.
Definition wchunk (l : option N) (d : bytes) : bytes :=
  match l with None => d | Some l => firstn (N.to_nat l) d end.

Lemma firstn_short {A} (d : list A) (l : N) : lenN d <= l -> firstn (N.to_nat l) d = d.
Proof. intro H. apply firstn_all2. unfold lenN in H. lia. Qed.

Lemma firstn_nil_len {A} (d : list A) (l : N) : firstn (N.to_nat l) d = [] -> l < lenN d -> l = 0.
Proof.
  intros H Hl. assert (Hx : length (firstn (N.to_nat l) d) = N.to_nat l).
  { apply firstn_length_le. unfold lenN in Hl. lia. }
  rewrite H in Hx. cbn [length] in Hx. lia.
Qed.

Lemma wstep_B_write l c d :
  wstep (sB l c) (WWrite d) =
  (sB (wlen l d) c, if c then enc1 (wchunk l d) else wchunk l d).
Proof.
  unfold sB. destruct l as [l|]; cbn [wstep w_length w_chunked w_hbuf w_hwritten w_eof wlen wchunk].
  - destruct (lenN d <=? l) eqn:E.
    + rewrite firstn_short by lia. cbn [truthy andb]. destruct d, c; reflexivity.
    + rewrite takeN_firstn. cbn [fst].
      replace (l - lenN d) with 0 by lia.
      destruct (firstn (N.to_nat l) d) eqn:Ef; destruct c; reflexivity.
  - cbn [truthy andb]. destruct d, c; reflexivity.
Qed.

Lemma wstep_B_send l c : wstep (sB l c) WSendHeaders = (sB l c, []).
Proof. reflexivity. Qed.

(* a writer with a buffered head behaves like one whose head is out, with the head put in front
   of the first thing it emits *)
Lemma head_step H op l c : H <> [] -> body_op op = true ->
  (wstep (sA l c H) op = (fst (wstep (sB l c) op), H ++ snd (wstep (sB l c) op))) \/
  (exists l', wstep (sA l c H) op = (sA l' c H, []) /\ wstep (sB l c) op = (sB l' c, [])).
Proof.
  intros HH Hb. destruct H as [|h0 H]; [congruence|].
  destruct op; try discriminate.
  - (* send_headers *) left. rewrite wstep_B_send. cbn [fst snd]. rewrite app_nil_r. reflexivity.
  - (* write *)
    rewrite wstep_B_write. cbn [fst snd]. unfold sA, sB.
    destruct l as [l|]; cbn [wstep w_length w_chunked w_hbuf w_hwritten w_eof wlen wchunk].
    + destruct (lenN d <=? l) eqn:E.
      * left. rewrite firstn_short by lia. cbn [truthy andb negb].
        unfold send_headers_with_payload. cbn [w_length w_chunked w_hbuf w_hwritten w_eof hb].
        destruct c; cbn [negb]; [|reflexivity].
        destruct d; cbn [enc1]; [reflexivity|]. unfold chunk_enc. rewrite !app_nil_r. reflexivity.
      * rewrite takeN_firstn. cbn [fst].
        destruct (firstn (N.to_nat l) d) as [|x xs] eqn:Ef.
        -- right. exists (Some 0). apply firstn_nil_len in Ef; [|lia]. subst l.
           split; [reflexivity|]. destruct c; reflexivity.
        -- left. cbn [truthy andb negb].
           unfold send_headers_with_payload. cbn [w_length w_chunked w_hbuf w_hwritten w_eof hb].
           replace (l - lenN d) with 0 by lia.
           destruct c; cbn [negb enc1]; [|reflexivity].
           unfold chunk_enc. rewrite !app_nil_r. reflexivity.
    + left. cbn [truthy andb negb].
      unfold send_headers_with_payload. cbn [w_length w_chunked w_hbuf w_hwritten w_eof hb].
      destruct c; cbn [negb]; [|reflexivity].
      destruct d; cbn [enc1]; [reflexivity|]. unfold chunk_enc. rewrite !app_nil_r. reflexivity.
Qed.

Lemma term_step H t l c : H <> [] -> term_op t = true ->
  wstep (sA l c H) t = (fst (wstep (sB l c) t), H ++ snd (wstep (sB l c) t)).
Proof.
  intros HH Ht. destruct H as [|h0 H]; [congruence|].
  destruct t; try discriminate; unfold sA, sB.
  - (* write_eof *)
    cbn [wstep w_length w_chunked w_hbuf w_hwritten w_eof truthy andb negb].
    unfold send_headers_with_payload, set_eofb. cbn [w_length w_chunked w_hbuf w_hwritten w_eof hb].
    destruct c; cbn [negb fst snd]; [|reflexivity].
    destruct d; reflexivity.
  - (* set_eof *)
    cbn [wstep w_length w_chunked w_hbuf w_hwritten w_eof truthy andb negb hb].
    destruct c; reflexivity.
Qed.

Lemma head_run H : H <> [] -> forall ops l c, forallb body_op ops = true ->
  (wrun (sA l c H) ops = (fst (wrun (sB l c) ops), H ++ snd (wrun (sB l c) ops))) \/
  (exists l', wrun (sA l c H) ops = (sA l' c H, []) /\ wrun (sB l c) ops = (sB l' c, [])).
Proof.
  intro HH. induction ops as [|op ops IH]; intros l c Hb.
  - right. exists l. split; reflexivity.
  - cbn [forallb] in Hb. apply andb_true_iff in Hb as [Ho Hb]. cbn [wrun].
    destruct (head_step H op l c HH Ho) as [E | (l' & EA & EB)].
    + left. rewrite E. destruct (wstep (sB l c) op) as [s1 o1]. cbn [fst snd].
      destruct (wrun s1 ops) as [s2 o2]. cbn [fst snd]. rewrite app_assoc. reflexivity.
    + rewrite EA, EB. destruct (IH l' c Hb) as [E | (l2 & E1 & E2)].
      * left. rewrite E. destruct (wrun (sB l' c) ops) as [s2 o2]. reflexivity.
      * right. exists l2. rewrite E1, E2. split; reflexivity.
Qed.

Lemma wrun_B_hwritten c : forall ops l, forallb body_op ops = true ->
  w_hwritten (fst (wrun (sB l c) ops)) = true.
Proof.
  induction ops as [|op ops IH]; intros l Hb; [reflexivity|].
  cbn [forallb] in Hb. apply andb_true_iff in Hb as [Ho Hb]. cbn [wrun].
  destruct op; try discriminate.
  - rewrite wstep_B_send. specialize (IH l Hb). destruct (wrun (sB l c) ops). exact IH.
  - rewrite wstep_B_write. specialize (IH (wlen l d) Hb).
    destruct (wrun (sB (wlen l d) c) ops). exact IH.
Qed.

(* 4. the head goes out first, exactly once; everything after it does not depend on it *)
Lemma head_first_once : forall l c H ops, H <> [] -> forallb body_op ops = true ->
  (forall t, term_op t = true ->
     wrun (mkW l c (Some H) false false) (ops ++ [t]) =
     (fst (wrun (mkW l c None true false) (ops ++ [t])),
      H ++ snd (wrun (mkW l c None true false) (ops ++ [t])))) /\
  (exists sf, wrun (mkW l c (Some H) false false) ops =
              (sf, (if w_hwritten sf then H else []) ++ snd (wrun (mkW l c None true false) ops)) /\
              (w_hwritten sf = false -> snd (wrun (mkW l c None true false) ops) = [])).
Proof.
  intros l c H ops HH Hb.
  change (mkW l c (Some H) false false) with (sA l c H).
  change (mkW l c None true false) with (sB l c). split.
  - intros t Ht. rewrite !wrun_app.
    destruct (head_run H HH ops l c Hb) as [E | (l' & EA & EB)].
    + rewrite E. destruct (wrun (sB l c) ops) as [s1 o1]. cbn [fst snd].
      destruct (wrun s1 [t]) as [s2 o2]. cbn [fst snd]. rewrite app_assoc. reflexivity.
    + rewrite EA, EB. cbv iota beta. rewrite !wrun_one. rewrite (term_step H t l' c HH Ht).
      cbn [fst snd app]. reflexivity.
  - destruct (head_run H HH ops l c Hb) as [E | (l' & EA & EB)].
    + exists (fst (wrun (sB l c) ops)). rewrite E.
      rewrite (wrun_B_hwritten c ops l Hb). split; [reflexivity|discriminate].
    + exists (sA l' c H). rewrite EA, EB. split; reflexivity.
Qed.

Lemma setup_state (l : option N) (c : bool) (H : bytes) :
  wrun winit (WSetLength l :: (if c then [WEnableChunking] else []) ++ [WHeaders H]) =
  (mkW l c (Some H) false false, []).
Proof. destruct c; reflexivity. Qed.

Lemma set_eof_without_head_quirk l :
  wstep (mkW l true None false false) WSetEof = (mkW l true None false true, []).
Proof. reflexivity. Qed.

(* ================================================================== 2b. chunked writer *)
Lemma wrun_B_chunked : forall ops, forallb body_op ops = true ->
  wrun (sB None true) ops = (sB None true, concat (map enc1 (map op_data ops))).
Proof.
  induction ops as [|op ops IH]; intro Hb; [reflexivity|].
  cbn [forallb] in Hb. apply andb_true_iff in Hb as [Ho Hb]. cbn [wrun].
  destruct op; try discriminate.
  - rewrite wstep_B_send, IH by exact Hb. reflexivity.
  - rewrite wstep_B_write. cbn [wlen wchunk]. rewrite IH by exact Hb. reflexivity.
Qed.

Lemma wstep_B_chunked_term t : term_op t = true ->
  wstep (sB None true) t = (mkW None true None true true, enc1 (op_data t) ++ last_chunk).
Proof.
  intro Ht. destruct t; try discriminate; [|reflexivity].
  unfold sB. cbn [wstep w_length w_chunked w_hbuf w_hwritten w_eof truthy andb set_eofb op_data].
  destruct d; [reflexivity|]. cbn [enc1]. unfold chunk_enc. rewrite <- !app_assoc. reflexivity.
Qed.

Lemma chunked_decodes : forall H ops t lim mt a,
  H <> [] -> forallb body_op ops = true -> term_op t = true ->
  let ds := map op_data (ops ++ [t]) in
  (forall d, In d ds -> lenN (to_hex (lenN d)) <= max_line lim) -> 1 <= max_line lim -> 1 <= mt ->
  exists sf body,
    wrun winit (WEnableChunking :: WHeaders H :: ops ++ [t]) = (sf, H ++ body) /\
    w_eof sf = true /\
    body = concat (map enc1 ds) ++ last_chunk /\
    feed_payload lim (mkP (PChunked CSize) [] [] mt) body a =
      PRDone [] (upd_cur (fun m => mkR (r_msg m) (r_body m) (r_data m ++ concat ds)
                                       (r_splits m ++ offsets (lenN (r_data m)) ds) true (r_exc m)) a).
Proof.
  intros H ops t lim mt a HH Hb Ht ds Hl H1 H2.
  exists (mkW None true None true true), (chunked_body ds).
  split; [|split; [reflexivity|split; [reflexivity|]]].
  - rewrite (wrun_silent winit WEnableChunking (mkW None true None false false)) by reflexivity.
    rewrite (wrun_silent _ (WHeaders H) (mkW None true (Some H) false false)) by reflexivity.
    rewrite (proj1 (head_first_once None true H ops HH Hb) t Ht).
    change (mkW None true None true false) with (sB None true). rewrite wrun_app, wrun_B_chunked by exact Hb. cbv iota beta.
    rewrite wrun_one, wstep_B_chunked_term by exact Ht. cbn [fst snd].
    unfold ds, chunked_body. rewrite !map_app, concat_app. cbn [map concat].
    rewrite app_nil_r, <- app_assoc. reflexivity.
  - rewrite chunked_body_decodes by assumption. rewrite deliver_spec. reflexivity.
Qed.

(* ================================================================== 3. declared length *)
Lemma wrun_B_length : forall ops l, forallb body_op ops = true ->
  wrun (sB (Some l) false) ops =
  (sB (Some (l - lenN (concat (map op_data ops)))) false,
   firstn (N.to_nat l) (concat (map op_data ops))).
Proof.
  induction ops as [|op ops IH]; intros l Hb.
  - cbn [wrun map concat]. change (lenN (@nil N)) with 0. rewrite N.sub_0_r, firstn_nil. reflexivity.
  - cbn [forallb] in Hb. apply andb_true_iff in Hb as [Ho Hb]. cbn [wrun].
    destruct op; try discriminate.
    + rewrite wstep_B_send, IH by exact Hb. reflexivity.
    + rewrite wstep_B_write. cbn [wlen wchunk]. rewrite IH by exact Hb.
      cbn [map op_data concat]. rewrite lenN_app, firstn_app, N.sub_add_distr.
      replace (N.to_nat l - length d)%nat with (N.to_nat (l - lenN d)) by (unfold lenN; lia).
      reflexivity.
Qed.

Lemma wstep_B_plain_term l t : term_op t = true ->
  wstep (sB l false) t = (mkW l false None true true, op_data t).
Proof. intro Ht. destruct t; try discriminate; reflexivity. Qed.

Lemma length_truthful : forall H n ops t,
  H <> [] -> forallb body_op ops = true -> term_op t = true ->
  let written := concat (map op_data ops) in
  exists sf,
    wrun winit (WSetLength (Some n) :: WHeaders H :: ops ++ [t]) =
      (sf, H ++ firstn (N.to_nat n) written ++ op_data t) /\
    w_eof sf = true /\ w_length sf = Some (n - lenN written) /\
    (lenN written = n -> op_data t = [] ->
     wrun winit (WSetLength (Some n) :: WHeaders H :: ops ++ [t]) = (sf, H ++ written) /\
     w_length sf = Some 0).
Proof.
  intros H n ops t HH Hb Ht written.
  exists (mkW (Some (n - lenN written)) false None true true).
  assert (E : wrun winit (WSetLength (Some n) :: WHeaders H :: ops ++ [t]) =
              (mkW (Some (n - lenN written)) false None true true,
               H ++ firstn (N.to_nat n) written ++ op_data t)).
  { rewrite (wrun_silent winit (WSetLength (Some n)) (mkW (Some n) false None false false)) by reflexivity.
    rewrite (wrun_silent _ (WHeaders H) (mkW (Some n) false (Some H) false false)) by reflexivity.
    rewrite (proj1 (head_first_once (Some n) false H ops HH Hb) t Ht).
    change (mkW (Some n) false None true false) with (sB (Some n) false). rewrite wrun_app, wrun_B_length by exact Hb. cbv iota beta.
    rewrite wrun_one, wstep_B_plain_term by exact Ht. reflexivity. }
  split; [exact E|]. split; [reflexivity|]. split; [reflexivity|].
  intros Hn He. rewrite E, He, app_nil_r. rewrite firstn_short by lia.
  split; [reflexivity|]. cbn [w_length]. f_equal. lia.
Qed.

(* without a terminator: what write() has emitted after the head never exceeds the declared length *)
Lemma length_never_exceeded : forall H n ops,
  H <> [] -> forallb body_op ops = true ->
  let written := concat (map op_data ops) in
  exists sf,
    wrun winit (WSetLength (Some n) :: WHeaders H :: ops) =
      (sf, (if w_hwritten sf then H else []) ++ firstn (N.to_nat n) written) /\
    lenN (firstn (N.to_nat n) written) <= n.
Proof.
  intros H n ops HH Hb written.
  destruct (proj2 (head_first_once (Some n) false H ops HH Hb)) as (sf & E & _).
  exists sf. split.
  - rewrite (wrun_silent winit (WSetLength (Some n)) (mkW (Some n) false None false false)) by reflexivity.
    rewrite (wrun_silent _ (WHeaders H) (mkW (Some n) false (Some H) false false)) by reflexivity.
    rewrite E. change (mkW (Some n) false None true false) with (sB (Some n) false). rewrite wrun_B_length by exact Hb. reflexivity.
  - unfold lenN. rewrite firstn_length. lia.
Qed.
