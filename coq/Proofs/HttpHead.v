(* Inversion of parse_request / derive / start_message: what an ACCEPTED request head satisfies,
   hence which heads are rejected (C01).  For all byte strings. *)
From AV Require Import Lib.Base Lib.BytesX Generated.HttpGen Model.Http Proofs.HttpReject.
From Coq Require Import ZifyBool ZifyN.
Open Scope N_scope.

(* ---------- Transfer-Encoding / Content-Length ---------- *)

Lemma is_chunked_te_ok te b :
  is_chunked_te te = POk b ->
  b = true /\ is_tok t_chunked (last (comma_tokens te) []) = true /\
  (length (filter (is_tok t_chunked) (comma_tokens te)) < 2)%nat.
Proof.
  unfold is_chunked_te. destruct (2 <=? N.of_nat _) eqn:E; [discriminate|].
  destruct (is_tok t_chunked (last (comma_tokens te) [])) eqn:El; [|discriminate].
  intro H. inversion H. repeat split; auto. lia.
Qed.

Lemma derive_ok hs hi :
  derive hs = POk hi ->
  match get_header h_transfer_encoding hs with
  | None => hi_chunked hi = false
  | Some te => hi_chunked hi = true /\ is_chunked_te te = POk true /\ has_header h_content_length hs = false
  end.
Proof.
  unfold derive. destruct (get_header h_transfer_encoding hs) as [te|].
  - destruct (is_chunked_te te) as [b| |] eqn:E; try discriminate.
    destruct (has_header h_content_length hs) eqn:Ec; [discriminate|].
    intro H. inversion H. cbn. apply is_chunked_te_ok in E as E'. destruct E' as [-> _]. auto.
  - intro H. inversion H. reflexivity.
Qed.

(* Content-Length together with Transfer-Encoding is never accepted *)
Lemma derive_rejects_cl_and_te hs te hi :
  get_header h_transfer_encoding hs = Some te -> has_header h_content_length hs = true -> derive hs <> POk hi.
Proof.
  intros Ht Hc H. apply derive_ok in H. rewrite Ht in H. destruct H as (_ & _ & H). congruence.
Qed.

Lemma derive_no_ask hs c t : derive hs <> PAsk c t.
Proof.
  unfold derive. destruct (get_header h_transfer_encoding hs) as [te|]; [|discriminate].
  unfold is_chunked_te. repeat (match goal with |- context [if ?b then _ else _] => destruct b end); discriminate.
Qed.

(* ---------- the request line and the whole head ---------- *)

Lemma parse_version_ok v a b :
  parse_version v = Some (a, b) ->
  exists x y, v = [72; 84; 84; 80; 47; x; 46; y] /\ dec_digit x = true /\ dec_digit y = true /\ a = x - 48 /\ b = y - 48.
Proof.
  unfold parse_version.
  destruct v as [|c1 [|c2 [|c3 [|c4 [|c5 [|x [|c7 [|y [|? ?]]]]]]]]]; try discriminate.
  destruct (list_eqb [c1; c2; c3; c4; c5] [72; 84; 84; 80; 47] && (c7 =? 46) && dec_digit x && dec_digit y) eqn:E;
    [|discriminate].
  intro H. inversion H; subst.
  apply andb_true_iff in E as [E Hy]. apply andb_true_iff in E as [E Hx]. apply andb_true_iff in E as [E H7].
  apply list_eqb_eq in E. inversion E; subst. apply N.eqb_eq in H7. subst. exists x, y. auto.
Qed.

Lemma check_target_ok o m t : check_target o m t = POk tt -> existsb target_forbidden t = false.
Proof. unfold check_target. destruct (existsb target_forbidden t); [discriminate|reflexivity]. Qed.

Record accepted_head (o : oracle) (rl : bytes) (fls : list bytes) (m : msg) : Prop := {
  ah_line : exists meth v, rl = meth ++ 32 :: m_target m ++ 32 :: v /\ meth <> [] /\ forallb tchar meth = true /\
                           m_method m = map upper meth /\ parse_version v = Some (m_vmaj m, m_vmin m);
  ah_target : existsb target_forbidden (m_target m) = false /\ ~ In 32 (m_target m);
  ah_fields : parse_fields fls [] = POk (m_headers m);
  ah_derive : exists hi, derive (m_headers m) = POk hi /\ m_chunked m = hi_chunked hi /\
                         m_upgrade m = hi_upgrade hi /\ m_compression m = hi_enc hi;
  ah_host : m_vmaj m = 1 -> m_vmin m = 1 -> has_header h_host (m_headers m) = true }.

Lemma parse_request_ok o rl fls m : parse_request o (rl :: fls) = POk m -> accepted_head o rl fls m.
Proof.
  cbn [parse_request].
  destruct (split_first 32 rl) as [[meth r]|] eqn:E1; [|discriminate].
  destruct (split_first 32 r) as [[t v]|] eqn:E2; [|discriminate].
  destruct (nonempty meth && forallb tchar meth) eqn:Em; cbn [negb]; [|discriminate].
  destruct (parse_version v) as [[vmaj vmin]|] eqn:Ev; [|discriminate].
  destruct (check_target o (map upper meth) t) as [[]| |] eqn:Et; try discriminate.
  destruct (parse_fields fls []) as [hs| |] eqn:Ef; try discriminate.
  destruct (derive hs) as [hi| |] eqn:Ed; try discriminate.
  destruct ((vmaj =? 1) && (vmin =? 1) && negb (has_header h_host hs)) eqn:Eh; [discriminate|].
  intro H. inversion H; subst; clear H. cbn.
  apply split_first_spec in E1 as [-> _]. apply split_first_spec in E2 as [-> Hns].
  apply andb_true_iff in Em as [Hne Htc].
  constructor; cbn.
  - exists meth, v. repeat split; auto. intros ->. discriminate Hne.
  - split; [exact (check_target_ok _ _ _ Et)|exact Hns].
  - exact Ef.
  - exists hi. auto.
  - intros -> ->. rewrite !N.eqb_refl in Eh. cbn [andb] in Eh.
    change (has_header h_host hs = true). destruct (has_header h_host hs); [reflexivity|discriminate].
Qed.

(* the request line of an accepted head contains no control byte, and exactly two spaces *)
Lemma accepted_line_clean o rl fls m c :
  parse_request o (rl :: fls) = POk m -> In c rl -> target_forbidden c = true -> c = 32.
Proof.
  intros H Hin Hc. apply parse_request_ok in H as [(meth & v & -> & _ & Ht & _ & Hv) [Htg _] _ _ _].
  apply parse_version_ok in Hv as (x & y & -> & Hx & Hy & _).
  apply in_app_or in Hin as [Hin|[<-|Hin]]; [|reflexivity|].
  - pose proof (forallb_In _ _ _ Ht Hin) as E. exfalso.
    (* every tchar is a visible ASCII character; the forbidden class generated from the source only
       contains bytes <= 32 and 127 *)
    assert (Hf : target_forbidden c = false) by (unfold tchar in E; unfold target_forbidden; lia).
    congruence.
  - apply in_app_or in Hin as [Hin|[<-|Hin]]; [|reflexivity|].
    + exfalso. assert (E := existsb_In _ _ _ Hin Hc). congruence.
    + exfalso. assert (Hf : target_forbidden c = false).
      { unfold dec_digit in Hx, Hy. cbn [In] in Hin. unfold target_forbidden.
        destruct Hin as [<-|[<-|[<-|[<-|[<-|[<-|[<-|[<-|[]]]]]]]]]; lia. }
      congruence.
Qed.

(* every field line of an accepted head is a well-formed field: no control bytes, no whitespace in
   or before the name, no obs-fold *)
Lemma accepted_fields_clean o rl fls m l c :
  parse_request o (rl :: fls) = POk m -> In l fls -> In c l -> field_forbidden_ctl c = false.
Proof.
  intros H Hl Hc. apply parse_request_ok in H as [_ _ Hf _ _].
  destruct (field_forbidden_ctl c) eqn:E; [exfalso|reflexivity].
  apply parse_fields_ok in Hf as (fs & _ & HF).
  clear -HF Hl Hc E. induction HF as [|x y ls fs Hx _ IH]; [destruct Hl|].
  destruct Hl as [->|Hl]; [exact (parse_field_ctl _ _ _ Hc E Hx)|auto].
Qed.

(* no duplicated singleton field (Content-Length, Host, Transfer-Encoding, ...) in an accepted head *)
Lemma accepted_no_dup_singletons o rl fls m pre k v post :
  parse_request o (rl :: fls) = POk m -> m_headers m = pre ++ (k, v) :: post ->
  is_singleton k = true -> has_header k pre = false.
Proof.
  intros H Heq Hs. apply parse_request_ok in H as [_ _ Hf _ _].
  eapply (parse_fields_singletons _ _ _ Hf); [exact Heq|cbn; lia|exact Hs].
Qed.

Lemma accepted_not_cl_and_te o rl fls m :
  parse_request o (rl :: fls) = POk m ->
  has_header h_content_length (m_headers m) = true -> get_header h_transfer_encoding (m_headers m) = None.
Proof.
  intros H Hc. apply parse_request_ok in H as [_ _ _ (hi & Hd & _) _].
  destruct (get_header h_transfer_encoding (m_headers m)) as [te|] eqn:E; [exfalso|reflexivity].
  exact (derive_rejects_cl_and_te _ _ _ E Hc Hd).
Qed.

Lemma accepted_te_final_chunked o rl fls m te :
  parse_request o (rl :: fls) = POk m -> get_header h_transfer_encoding (m_headers m) = Some te ->
  m_chunked m = true /\ is_tok t_chunked (last (comma_tokens te) []) = true /\
  (length (filter (is_tok t_chunked) (comma_tokens te)) < 2)%nat.
Proof.
  intros H Ht. apply parse_request_ok in H as [_ _ _ (hi & Hd & Hc & _) _].
  apply derive_ok in Hd. rewrite Ht in Hd. destruct Hd as (Hch & Hte & _).
  apply is_chunked_te_ok in Hte as (_ & H1 & H2). rewrite Hc, Hch. auto.
Qed.

(* ---------- start_message: Content-Length must be 1*DIGIT ---------- *)

Lemma start_message_cl lim o s ls r :
  start_message lim o s ls = POk r ->
  exists m, parse_request o (removelast ls) = POk m /\
    match get_header h_content_length (m_headers m) with
    | Some v => v <> [] /\ forallb dec_digit v = true
    | None => True
    end /\ has_header h_sec_websocket_key1 (m_headers m) = false.
Proof.
  unfold start_message. destruct (parse_request o (removelast ls)) as [m| |] eqn:E; try discriminate.
  destruct (get_header h_content_length (m_headers m)) as [v|] eqn:Ec.
  - destruct (nonempty v && forallb dec_digit v && (lenN v <=? int_max_str_digits)) eqn:Ed; [|discriminate].
    destruct (has_header h_sec_websocket_key1 (m_headers m)) eqn:Ek; [discriminate|].
    intros _. exists m. apply andb_true_iff in Ed as [Ed _]. apply andb_true_iff in Ed as [Hn Hd]. split; [reflexivity|]. rewrite Ec. split; [|exact Ek].
    split; [|exact Hd]. intros ->. discriminate Hn.
  - destruct (has_header h_sec_websocket_key1 (m_headers m)) eqn:Ek; [discriminate|].
    intros _. exists m. rewrite Ec. auto.
Qed.
