(* C12 — memory retained by the reader between two calls is bounded by max_msg_size + 126 bytes
   (collected payload of the message + fragments of the frame being received + unparsed tail),
   for every stream and every segmentation; inflation is asked for at most max_msg_size + 1 bytes. *)
From AV Require Import Lib.Base Lib.Utf8Valid Generated.WsGen Model.Ws Model.WsSpec Proofs.WsSeg Proofs.WsRefine.
From Coq Require Import ZifyBool ZifyN.
Ltac Zify.zify_post_hook ::= Z.to_euclidean_division_equations.
Open Scope N_scope.

Lemma xor_mask_len p : forall a b c e, length (xor_mask a b c e p) = length p.
Proof. induction p as [|x p IH]; intros; cbn [xor_mask length]; [reflexivity|]. now rewrite IH. Qed.

Lemma takeN_len {A} (l : list A) k : (k <= length l)%nat -> length (takeN k l) = k.
Proof.
  revert k; induction l as [|x l IH]; intros [|k] H; cbn [takeN length] in *; try lia. rewrite IH; lia.
Qed.

Section Mem.
Variable Cx : Type.
Variable decomp : Cx -> bytes -> N -> dres Cx.
Variable c : cfg.
Hypothesis Hmx : max_msg_size c <> 0.

Notation rstate := (rstate Cx).
Notation mx := (max_msg_size c).

Definition frame_fits (s : rstate) : Prop :=
  if is_data (s_fop s) then lenN (s_frags s) + s_toread s + lenN (m_partial (s_m s)) <= mx
  else lenN (s_frags s) + s_toread s <= 125.

Definition bound_ok (s : rstate) : Prop :=
  lenN (m_partial (s_m s)) <= mx /\
  match s_phase s with
  | RH => s_frags s = [] /\ lenN (s_tail s) < 2
  | RL => s_frags s = [] /\ lenN (s_tail s) < 8 /\ (is_data (s_fop s) = false -> s_lflag s <= 125)
  | RM => s_frags s = [] /\ lenN (s_tail s) < 4 /\ frame_fits s
  | RP => s_tail s = [] /\ frame_fits s
  end.

Definition pre (s : rstate) : Prop := s_tail s = [] /\ bound_ok s.

Lemma bound_retained s : bound_ok s -> retained Cx s < mx + 126.
Proof.
  unfold bound_ok, retained, frame_fits. intros (Hp & H). destruct (s_phase s).
  - destruct H as (-> & Ht). cbn [lenN length N.of_nat]. lia.
  - destruct H as (-> & Ht & _). cbn [lenN length N.of_nat]. lia.
  - destruct H as (-> & Ht & _). cbn [lenN length N.of_nat]. lia.
  - destruct H as (-> & Hf). cbn [lenN length N.of_nat]. destruct (is_data (s_fop s)); lia.
Qed.

Ltac break_if := match goal with |- context[if ?b then _ else _] => destruct b eqn:? end.

Lemma ph_header_inv s d : pre s ->
  match ph_header Cx c s d with PNeed s1 => bound_ok s1 | PGo s1 _ => pre s1 | _ => True end.
Proof.
  intros (Ht & Hp & H). unfold ph_header. destruct (s_phase s) eqn:E; try (split; [exact Ht|split; [exact Hp|rewrite E; exact H]]).
  destruct H as (Hf & _).
  destruct d as [|b0 [|b1 r]].
  - unfold bound_ok; cbn. rewrite E. repeat split; try assumption; try (cbn; lia).
  - unfold bound_ok; cbn. rewrite E. repeat split; try assumption; try (cbn; lia).
  - unfold pfail. rewrite opcode_bad_known, is_control_gen.
    assert (G : known_opcode (N.land b0 15) = true -> hdr_ctl_too_long (N.land b0 15) (N.land b1 127) = false ->
                is_data (N.land b0 15) = false -> N.land b1 127 <= 125).
    { unfold known_opcode, hdr_ctl_too_long, is_data. lia. }
    repeat break_if; try exact I; unfold pre, bound_ok; cbn [s_tail s_phase s_m s_frags s_fop s_lflag];
      (split; [exact Ht|split; [exact Hp|split; [exact Hf|split; [rewrite Ht; cbn; lia|
         intro Hd; apply G; [destruct (known_opcode (N.land b0 15)); [reflexivity|discriminate]|first [assumption|reflexivity]|exact Hd]]]]]).
Qed.

Lemma after_length_inv s tr r :
  s_tail s = [] -> lenN (m_partial (s_m s)) <= mx -> s_frags s = [] ->
  (is_data (s_fop s) = false -> tr <= 125) ->
  match after_length Cx c s tr r with PGo s1 _ => pre s1 | PNeed _ => False | _ => True end.
Proof.
  intros Ht Hp Hf Hc. unfold after_length. rewrite size_applies_gen.
  replace (size_reject (Z.of_N tr) (Z.of_N mx) (Z.of_N (lenN (m_partial (s_m s))))) with (mx <? tr + lenN (m_partial (s_m s)))
    by (unfold size_reject; lia).
  destruct (negb (mx =? 0) && is_data (s_fop s) && (mx <? tr + lenN (m_partial (s_m s)))) eqn:E; [exact I|].
  unfold pre, bound_ok, frame_fits. cbn [s_tail s_phase s_m s_frags s_fop s_toread].
  split; [exact Ht|]. split; [exact Hp|]. rewrite Hf, Ht. cbn [lenN length N.of_nat].
  destruct (s_hmask s); repeat split; try lia; destruct (is_data (s_fop s)) eqn:Ed; try lia; apply Hc; reflexivity.
Qed.

Lemma ph_length_inv s d : pre s ->
  match ph_length Cx c s d with PNeed s1 => bound_ok s1 | PGo s1 _ => pre s1 | _ => True end.
Proof.
  intros (Ht & Hp & H). unfold ph_length. destruct (s_phase s) eqn:E; try (split; [exact Ht|split; [exact Hp|rewrite E; exact H]]).
  destruct H as (Hf & _ & Hc).
  assert (NB : forall d', (length d' < 8)%nat -> bound_ok (set_tail Cx s d')).
  { intros d' L. unfold bound_ok; cbn. rewrite E. repeat split; try assumption. unfold lenN. lia. }
  destruct (s_lflag s =? 126) eqn:E1.
  { destruct d as [|b0 [|b1 r]]; try (apply NB; cbn; lia).
    pose proof (after_length_inv s (be_num 0 [b0; b1]) r Ht Hp Hf) as A.
    destruct (is_data (s_fop s)) eqn:Ed.
    - specialize (A ltac:(discriminate)). destruct (after_length _ _ _ _ _); try exact I; try exact A. destruct A.
    - specialize (Hc eq_refl). lia. }
  destruct (126 <? s_lflag s) eqn:E2.
  { destruct d as [|b0 [|b1 [|b2 [|b3 [|b4 [|b5 [|b6 [|b7 r]]]]]]]]; try (apply NB; cbn; lia).
    destruct (len64_too_big _); [exact I|].
    pose proof (after_length_inv s (be_num 0 [b0; b1; b2; b3; b4; b5; b6; b7]) r Ht Hp Hf) as A.
    destruct (is_data (s_fop s)) eqn:Ed.
    - specialize (A ltac:(discriminate)). destruct (after_length _ _ _ _ _); try exact I; try exact A. destruct A.
    - specialize (Hc eq_refl). lia. }
  pose proof (after_length_inv s (s_lflag s) d Ht Hp Hf Hc) as A.
  destruct (after_length _ _ _ _ _); try exact I; try exact A. destruct A.
Qed.

Lemma ph_mask_inv s d : pre s ->
  match ph_mask Cx s d with PNeed s1 => bound_ok s1 | PGo s1 _ => pre s1 | _ => True end.
Proof.
  intros (Ht & Hp & H). unfold ph_mask. destruct (s_phase s) eqn:E; try (split; [exact Ht|split; [exact Hp|rewrite E; exact H]]).
  destruct H as (Hf & _ & Hfit).
  assert (NB : forall d', (length d' < 4)%nat -> bound_ok (set_tail Cx s d')).
  { intros d' L. unfold bound_ok; cbn. rewrite E. repeat split; try assumption. unfold lenN. lia. }
  destruct d as [|b0 [|b1 [|b2 [|b3 r]]]]; try (apply NB; cbn; lia).
  unfold pre, bound_ok. cbn [s_tail s_phase s_m s_frags s_fop s_toread]. repeat split; assumption.
Qed.

(* what _handle_frame leaves in _partial *)
Lemma handle_partial m fin op payload comp ev m' :
  handle_frame Cx decomp c m fin op payload comp = HOk ev m' ->
  m_partial m' = [] \/ (is_data op = true /\ m_partial m' = m_partial m ++ payload) \/ m_partial m' = m_partial m.
Proof.
  unfold handle_frame, complete, deliver. change OP_TEXT with 1. change OP_BINARY with 2. change OP_CONTINUATION with 0.
  change OP_CLOSE with 8. change OP_PING with 9. change OP_PONG with 10.
  destruct ((op =? 1) || (op =? 2) || (op =? 0)) eqn:Ed.
  - assert (is_data op = true) by (unfold is_data; lia).
    destruct (cont_not_started _ _); [discriminate|]. destruct (data_in_message _ _); [discriminate|]. destruct (negb fin).
    + intros [= <- <-]. right; left. split; [assumption|reflexivity].
    + destruct (negb (comp =? 0)).
      * destruct (decomp _ _ _); try discriminate. destruct (inflated_too_big _ _); [discriminate|].
        repeat break_if; intros [= <- <-]; left; reflexivity.
      * repeat break_if; intros [= <- <-]; left; reflexivity.
  - destruct (op =? 8).
    + destruct payload as [|b0 [|b1 reason]]; try discriminate; [intros [= <- <-]; auto|].
      repeat break_if; try discriminate. intros [= <- <-]; auto.
    + repeat break_if; try discriminate; intros [= <- <-]; auto.
Qed.

Lemma ph_payload_inv s d : pre s -> s_phase s = RP ->
  match ph_payload Cx decomp c s d with PNeed s1 => bound_ok s1 | PDone _ s1 _ => pre s1 | _ => True end.
Proof.
  intros (Ht & Hp & H) E. rewrite E in H. destruct H as (_ & Hfit). unfold ph_payload.
  destruct (lenN d <? s_toread s) eqn:E1.
  - unfold bound_ok, frame_fits in *. cbn [s_tail s_phase s_m s_frags s_fop s_toread]. rewrite lenN_app.
    repeat split; try assumption. destruct (is_data (s_fop s)); lia.
  - destruct (handle_frame _ _ _ _ _ _ _ _) as [ev m'|e] eqn:Eh; [|exact I].
    unfold pre, bound_ok. cbn [s_tail s_phase s_m s_frags]. repeat split; try reflexivity.
    apply handle_partial in Eh. destruct Eh as [-> | [(Hd & ->) | ->]]; [cbn; lia| |exact Hp].
    unfold frame_fits in Hfit. rewrite Hd in Hfit. rewrite lenN_app.
    assert (L : lenN (unmask Cx s (s_frags s ++ takeN (N.to_nat (s_toread s)) d)) = lenN (s_frags s) + s_toread s).
    { assert (L0 : length (s_frags s ++ takeN (N.to_nat (s_toread s)) d) = (length (s_frags s) + N.to_nat (s_toread s))%nat).
      { rewrite app_length, takeN_len; [reflexivity|]. unfold lenN in E1. lia. }
      unfold unmask. destruct (s_hmask s); [destruct (s_mask s) as [[[a b] c'] e]; unfold lenN; rewrite xor_mask_len, L0|unfold lenN; rewrite L0];
        unfold lenN; lia. }
    rewrite L. lia.
Qed.

Lemma iter_inv s d : pre s ->
  match iter Cx decomp c s d with PNeed s1 => bound_ok s1 | PDone _ s1 _ => pre s1 | _ => True end.
Proof.
  intro P0. unfold iter.
  pose proof (ph_header_inv s d P0) as I1. pose proof (ph_header_cases Cx c s d) as C1.
  destruct (ph_header Cx c s d) as [| |s1 d1|]; cbn [bind]; try exact I; try exact I1; try contradiction.
  pose proof (ph_length_inv s1 d1 I1) as I2. pose proof (ph_length_cases Cx decomp c s1 d1) as C2.
  destruct (ph_length Cx c s1 d1) as [| |s2 d2|]; cbn [bind]; try exact I; try exact I2; try contradiction.
  pose proof (ph_mask_inv s2 d2 I2) as I3. pose proof (ph_mask_cases Cx decomp s2 d2) as C3.
  destruct (ph_mask Cx s2 d2) as [| |s3 d3|]; cbn [bind]; try exact I; try exact I3; try contradiction.
  assert (E3 : s_phase s3 = RP).
  { destruct C3 as [(N3 & -> & _)|(_ & E & _)]; [|exact E].
    destruct C2 as [(N2 & -> & _)|(_ & [E|E] & _)]; [|congruence|exact E].
    destruct C1 as [(N1 & -> & _)|(_ & E & _)]; [|congruence].
    destruct (s_phase s); congruence. }
  exact (ph_payload_inv s3 d3 I3 E3).
Qed.

Lemma runs_inv s d acc res : runs Cx decomp c s d acc res -> pre s ->
  match snd res with Live s1 => bound_ok s1 | _ => True end.
Proof.
  induction 1 as [s d acc s1 E|s d acc e E|s d acc ev s1 d1 res E _ IH]; intro P0;
    pose proof (iter_inv s d P0) as II; rewrite E in II; cbn in II; [exact II|exact I|exact (IH II)].
Qed.

Lemma bound_pre s : bound_ok s -> pre (set_tail Cx s []).
Proof.
  intros (Hp & H). unfold pre, bound_ok. cbn [s_tail set_tail s_phase s_m s_frags s_fop s_lflag s_toread].
  split; [reflexivity|]. split; [exact Hp|]. unfold frame_fits in *. cbn [s_fop s_frags s_toread s_m set_tail].
  destruct (s_phase s); cbn [lenN length N.of_nat]; intuition lia.
Qed.

Lemma feed_inv s d : bound_ok s ->
  match snd (feed Cx decomp c (Live s) d) with Live s1 => bound_ok s1 | _ => True end.
Proof. intro B. exact (runs_inv _ _ _ _ (feed_runs Cx decomp c s d) (bound_pre s B)). Qed.

Lemma feed_all_inv segs : forall rd, (match rd with Live s => bound_ok s | _ => True end) ->
  match snd (feed_all Cx decomp c rd segs) with Live s1 => bound_ok s1 | _ => True end.
Proof.
  induction segs as [|d rest IH]; intros rd B; cbn [feed_all]; [exact B|].
  assert (B1 : match snd (feed Cx decomp c rd d) with Live s1 => bound_ok s1 | _ => True end).
  { destruct rd as [s|e|]; [apply feed_inv; exact B|exact I|exact I]. }
  destruct (feed Cx decomp c rd d) as [e1 rd1]. cbn [snd] in B1. specialize (IH rd1 B1).
  destruct (feed_all Cx decomp c rd1 rest). exact IH.
Qed.

Lemma init_bound cx0 : bound_ok (init_state Cx cx0).
Proof. unfold bound_ok, init_state; cbn. repeat split; try lia. Qed.

(* MAIN: whatever was fed, in whatever pieces, a live reader holds fewer than max_msg_size + 126 bytes *)
Theorem retained_bounded cx0 segs s :
  snd (feed_all Cx decomp c (Live (init_state Cx cx0)) segs) = Live s -> retained Cx s < mx + 126.
Proof.
  intro H. pose proof (feed_all_inv segs (Live (init_state Cx cx0)) (init_bound cx0)) as B. rewrite H in B.
  apply bound_retained. exact B.
Qed.

(* every delivered data message fits the limit (inflated size for compressed ones) *)
Hypothesis decomp_cap : forall cx d cap out cx', cap <> 0 -> decomp cx d cap = DOk out cx' -> lenN out <= cap.

Lemma inflate_request_bounded cx assembled :
  match decomp cx (assembled ++ WS_DEFLATE_TRAILING) (inflate_cap mx) with
  | DOk out _ => lenN out <= mx + 1
  | _ => True
  end.
Proof.
  destruct (decomp _ _ _) as [out cx'| |] eqn:E; try exact I.
  apply decomp_cap in E; unfold inflate_cap in *; destruct (mx =? 0) eqn:E0; lia.
Qed.

End Mem.

Section NoFrag.
Variable Cx : Type.
Variable decomp : Cx -> bytes -> N -> dres Cx.
Variable c : cfg.
Notation rstate := (rstate Cx).
Ltac break_if := match goal with |- context[if ?b then _ else _] => destruct b eqn:? end.

(* ---- no fragment entry outlives its frame (independent of max_msg_size) ------------------------- *)
Definition nofrag (s : rstate) : Prop :=
  match s_phase s with RP => True | _ => s_nfrags s = 0 end.

Lemma iter_nofrag s d : nofrag s ->
  match iter Cx decomp c s d with PNeed s1 => nofrag s1 | PDone _ s1 _ => nofrag s1 | _ => True end.
Proof.
  intro N0. unfold iter.
  assert (H1 : match ph_header Cx c s d with PNeed s1 => nofrag s1 | PGo s1 _ => nofrag s1 | PDone _ _ _ => False | _ => True end).
  { unfold ph_header, nofrag in *. destruct (s_phase s) eqn:E; try (rewrite E; exact N0).
    destruct d as [|b0 [|b1 r]]; cbn; try (rewrite E; exact N0). unfold pfail. repeat break_if; try exact I; exact N0. }
  destruct (ph_header Cx c s d) as [| |s1 d1|]; cbn [bind]; try exact I; try exact H1; try contradiction.
  assert (H2 : match ph_length Cx c s1 d1 with PNeed s2 => nofrag s2 | PGo s2 _ => nofrag s2 | PDone _ _ _ => False | _ => True end).
  { unfold ph_length, after_length, nofrag in *. destruct (s_phase s1) eqn:E; try (rewrite E; exact H1).
    repeat break_if; try exact I; cbn; try (rewrite E; exact H1); try exact H1; try exact I;
      destruct d1 as [|b0 [|b1 [|b2 [|b3 [|b4 [|b5 [|b6 [|b7 r]]]]]]]]; cbn; try (rewrite E; exact H1);
      repeat break_if; try exact I; cbn; try exact H1; exact I. }
  destruct (ph_length Cx c s1 d1) as [| |s2 d2|]; cbn [bind]; try exact I; try exact H2; try contradiction.
  assert (H3 : match ph_mask Cx s2 d2 with PNeed s3 => nofrag s3 | PGo s3 _ => True | PDone _ _ _ => False | _ => True end).
  { unfold ph_mask, nofrag in *. destruct (s_phase s2) eqn:E; try exact I.
    destruct d2 as [|b0 [|b1 [|b2 [|b3 r]]]]; cbn; try (rewrite E; exact H2); exact I. }
  destruct (ph_mask Cx s2 d2) as [| |s3 d3|]; cbn [bind]; try exact I; try exact H3; try contradiction.
  unfold ph_payload. destruct (lenN d3 <? s_toread s3); [exact I|].
  destruct (handle_frame _ _ _ _ _ _ _ _); [|exact I].
  unfold nofrag, had_fragments. cbn [s_phase s_nfrags]. destruct (s_nfrags s3 =? 0) eqn:E; cbn [negb]; [lia|reflexivity].
Qed.

Lemma runs_nofrag s d acc res : runs Cx decomp c s d acc res -> nofrag s ->
  match snd res with Live s1 => nofrag s1 | _ => True end.
Proof.
  induction 1 as [s d acc s1 E|s d acc e E|s d acc ev s1 d1 res E _ IH]; intro N0;
    pose proof (iter_nofrag s d N0) as II; rewrite E in II; cbn in II; [exact II|exact I|exact (IH II)].
Qed.

Lemma feed_all_nofrag segs : forall rd, (match rd with Live s => nofrag s | _ => True end) ->
  match snd (feed_all Cx decomp c rd segs) with Live s1 => nofrag s1 | _ => True end.
Proof.
  induction segs as [|d rest IH]; intros rd B; cbn [feed_all]; [exact B|].
  assert (B1 : match snd (feed Cx decomp c rd d) with Live s1 => nofrag s1 | _ => True end).
  { destruct rd as [s|e|]; [|exact I|exact I].
    apply (runs_nofrag _ _ _ _ (feed_runs Cx decomp c s d)). unfold nofrag in *. destruct s; exact B. }
  destruct (feed Cx decomp c rd d) as [e1 rd1]. cbn [snd] in B1. specialize (IH rd1 B1).
  destruct (feed_all Cx decomp c rd1 rest). exact IH.
Qed.

(* MAIN: outside a payload in progress _payload_fragments is empty, whatever was fed and however it was cut *)
Theorem no_stale_fragments cx0 segs s :
  snd (feed_all Cx decomp c (Live (init_state Cx cx0)) segs) = Live s -> s_phase s <> RP -> s_nfrags s = 0.
Proof.
  intros H NP. pose proof (feed_all_nofrag segs (Live (init_state Cx cx0)) eq_refl) as B. rewrite H in B.
  unfold nofrag in B. destruct (s_phase s); try exact B. congruence.
Qed.

End NoFrag.

(* the toy codec obeys the output-cap law (so the inflation theorem is not vacuous) *)
Lemma lenN_repeat (a : N) k : lenN (repeat a (N.to_nat k)) = k.
Proof. unfold lenN. rewrite repeat_length. lia. Qed.

Lemma toy_run_cap cap inp : cap <> 0 -> forall a pend out o cx',
  lenN out <= cap -> toy_run cap a pend inp out = DOk o cx' -> lenN o <= cap.
Proof.
  intro Hc. induction inp as [|b r IH]; intros a pend out o cx' Ho; cbn [toy_run].
  - intros [= <- _]. exact Ho.
  - destruct (negb (cap =? 0) && (cap <=? lenN out)) eqn:E; [intros [= <- _]; exact Ho|].
    destruct pend as [n|].
    + unfold fits, room. replace (cap =? 0) with false by lia.
      destruct (N.min n (cap - lenN out) <? n) eqn:E2.
      * intros [= <- _]. rewrite lenN_app, lenN_repeat. lia.
      * apply IH. rewrite lenN_app, lenN_repeat. lia.
    + destruct (b =? 255); [apply IH; exact Ho|]. destruct (b =? 254); [discriminate|].
      destruct (b =? 253); [discriminate|]. apply IH; exact Ho.
Qed.

Lemma toy_decomp_cap cx d cap out cx' : cap <> 0 -> toy_decomp cx d cap = DOk out cx' -> lenN out <= cap.
Proof.
  intro Hc. unfold toy_decomp, fits, room. replace (cap =? 0) with false by lia. rewrite N.sub_0_r.
  destruct (N.min (t_rem cx) cap <? t_rem cx).
  - intros [= <- _]. rewrite lenN_repeat. lia.
  - apply toy_run_cap; [exact Hc|]. rewrite lenN_repeat. lia.
Qed.
