(* C09: a server connection that is closing (graceful shutdown) keeps feeding the body of the request that is
   being handled, for EVERY data argument including the empty one that BaseProtocol.resume_reading() uses to
   push on input held by the paused parser / decompressor: the server-side entry points coincide with the
   ones the progress and bound theorems are proved about. *)
From AV Require Import Lib.Base Generated.DecodeGen Model.Decode Proofs.DecodeInst.
Open Scope N_scope.

Section Srv.
  Variable H : Type.
  Variable hnew : N -> H.
  Variable hstep : H -> bytes -> N -> option (option (H * bytes)).
  Variable havail : H -> bool.
  Variable heof : H -> bool.
  Variable hflush : H -> option bytes.

  Lemma srv_feed_is_feed : forall fuel closing_conn (s : st H) data,
    connected (pr s) = true -> parser_alive (pr s) = true -> reof (re s) = false ->
    srv_data_received H hnew hstep havail heof hflush fuel closing_conn true false false s data
    = parser_feed H hnew hstep havail heof hflush fuel s data.
  Proof.
    intros fuel closing_conn s data Hc Hp He. unfold srv_data_received, dg_srv_closing_feeds.
    rewrite Hc, Hp, He. destruct closing_conn; [|reflexivity]. destruct data; reflexivity.
  Qed.

  Lemma srv_resume_is_resume : forall fuel closing_conn (s : st H),
    connected (pr s) = true -> parser_alive (pr s) = true -> reof (re s) = false ->
    srv_resume_reading H hnew hstep havail heof hflush fuel closing_conn true false false s
    = resume_reading H hnew hstep havail heof hflush fuel s.
  Proof.
    intros fuel closing_conn s Hc Hp He. unfold srv_resume_reading, resume_reading. cbn [negb].
    rewrite srv_feed_is_feed; [reflexivity| | |]; destruct s as [c p a d r f]; destruct p; cbn in *; assumption.
  Qed.

  (* without a request being handled, or at end of body, a closing connection takes nothing more *)
  Lemma srv_closing_idle_ignores : forall fuel custom_pp upgraded (s : st H) data,
    srv_data_received H hnew hstep havail heof hflush fuel true false custom_pp upgraded s data = s.
  Proof.
    intros. unfold srv_data_received, dg_srv_closing_feeds.
    repeat (rewrite Bool.andb_false_r || rewrite Bool.andb_false_l). reflexivity.
  Qed.
End Srv.

(* non-vacuity: the 600-byte toy bomb after one readany(): connection alive, body not at EOF, and the paused
   parser still holds input that only data_received(b"") will push on *)
Lemma shutdown_witness :
  let s := core (fst (toy_run 1000 w_bomb_init [EvData w_bomb; EvOp OpReadAny])) in
  connected (pr s) = true /\ parser_alive (pr s) = true /\ reof (re s) = false /\ has_more (pr s) = true.
Proof. vm_compute. repeat split. Qed.
