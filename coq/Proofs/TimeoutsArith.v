(* C18 — arithmetic of the generated timeout formulas (Generated/TimeoutsGen.v). *)
From Coq Require Import ZArith Lia Bool ZifyBool.
From AV Require Import Lib.Base Generated.TimeoutsGen.
Open Scope Z_scope.

Lemma ceil_to_ge u x : 0 < u -> x <= ceil_to u x.
Proof.
  intro Hu. unfold ceil_to.
  pose proof (Z.div_mod (x + (u - 1)) u ltac:(lia)) as E.
  pose proof (Z.mod_pos_bound (x + (u - 1)) u Hu) as B.
  nia.
Qed.

Lemma ceil_to_lt u x : 0 < u -> ceil_to u x < x + u.
Proof.
  intro Hu. unfold ceil_to.
  pose proof (Z.div_mod (x + (u - 1)) u ltac:(lia)) as E.
  pose proof (Z.mod_pos_bound (x + (u - 1)) u Hu) as B.
  nia.
Qed.

Lemma ceil_to_multiple u x : 0 < u -> (ceil_to u x) mod u = 0.
Proof. intro Hu. unfold ceil_to. apply Z.mod_mul. lia. Qed.

Lemma ceil_to_fix u k : 0 < u -> ceil_to u (k * u) = k * u.
Proof.
  intro Hu. unfold ceil_to.
  replace (k * u + (u - 1)) with ((u - 1) + k * u) by lia.
  rewrite Z.div_add by lia. rewrite Z.div_small by lia. lia.
Qed.

(* the least multiple of u that is >= x *)
Lemma ceil_to_least u x m : 0 < u -> x <= m * u -> ceil_to u x <= m * u.
Proof.
  intros Hu H. unfold ceil_to.
  assert ((x + (u - 1)) / u < m + 1); [|nia].
  apply Z.div_lt_upper_bound; lia.
Qed.

Lemma ceil_to_mono u x y : 0 < u -> x <= y -> ceil_to u x <= ceil_to u y.
Proof.
  intros Hu H. unfold ceil_to.
  assert ((x + (u - 1)) / u <= (y + (u - 1)) / u) by (apply Z.div_le_mono; lia). nia.
Qed.

(* helpers.TimeoutHandle.start *)
Lemma total_when_ge u nw t thr : 0 < u -> nw + t <= total_when u nw t thr.
Proof.
  intro Hu. unfold total_when. cbv zeta. destruct (thr <=? t); [apply ceil_to_ge; assumption|lia].
Qed.

Lemma total_when_le u nw t thr : 0 < u -> total_when u nw t thr <= ceil_to u (nw + t).
Proof.
  intro Hu. unfold total_when. cbv zeta. destruct (thr <=? t); [lia|apply ceil_to_ge; assumption].
Qed.

Lemma total_when_exact u nw t thr : t < thr -> total_when u nw t thr = nw + t.
Proof. intro H. unfold total_when. cbv zeta. destruct (thr <=? t) eqn:E; [lia|reflexivity]. Qed.

Lemma total_when_ceiled u nw t thr : thr <= t -> total_when u nw t thr = ceil_to u (nw + t).
Proof. intro H. unfold total_when. cbv zeta. destruct (thr <=? t) eqn:E; [reflexivity|lia]. Qed.

(* helpers.ceil_timeout *)
Lemma ctx_when_ge u nw t thr : 0 < u -> nw + t <= ctx_when u nw t thr.
Proof.
  intro Hu. unfold ctx_when. cbv zeta. destruct (thr <? t); [apply ceil_to_ge; assumption|lia].
Qed.

Lemma ctx_when_le u nw t thr : 0 < u -> ctx_when u nw t thr <= ceil_to u (nw + t).
Proof.
  intro Hu. unfold ctx_when. cbv zeta. destruct (thr <? t); [lia|apply ceil_to_ge; assumption].
Qed.

Lemma ctx_when_exact u nw t thr : t <= thr -> ctx_when u nw t thr = nw + t.
Proof. intro H. unfold ctx_when. cbv zeta. destruct (thr <? t) eqn:E; [lia|reflexivity]. Qed.

Lemma read_when_eq nw t : read_when nw t = nw + t.
Proof. reflexivity. Qed.

(* which values arm a timer *)
Lemma total_enabled_iff o : total_enabled o = true <-> exists t, o = Some t /\ 0 < t.
Proof.
  unfold total_enabled. destruct o as [t|]; split.
  - intro H. exists t. split; [reflexivity|]. simpl in H. lia.
  - intros [t' [E H]]. injection E as ->. simpl. lia.
  - discriminate.
  - intros [t' [E _]]. discriminate.
Qed.

Lemma ctx_enabled_iff o : ctx_enabled o = true <-> exists t, o = Some t /\ 0 < t.
Proof.
  unfold ctx_enabled. destruct o as [t|]; split.
  - intro H. exists t. split; [reflexivity|]. simpl in H. lia.
  - intros [t' [E H]]. injection E as ->. simpl. lia.
  - discriminate.
  - intros [t' [E _]]. discriminate.
Qed.

Lemma read_enabled_iff o : read_enabled o = true <-> exists t, o = Some t /\ t <> 0.
Proof.
  unfold read_enabled. destruct o as [t|]; split.
  - intro H. exists t. split; [reflexivity|]. lia.
  - intros [t' [E H]]. injection E as ->. lia.
  - discriminate.
  - intros [t' [E _]]. discriminate.
Qed.

(* client_reqrep.ClientTimeout.__post_init__: the effective total is at least every specific timeout *)
Lemma effective_total_ge total connect sock_read sock_connect T :
  effective_total total connect sock_read sock_connect = Some T ->
  (forall t, total = Some t -> t <= T) /\ (forall t, connect = Some t -> t <= T) /\
  (forall t, sock_read = Some t -> t <= T) /\ (forall t, sock_connect = Some t -> t <= T).
Proof.
  unfold effective_total, orz. destruct total as [t0|]; [|discriminate].
  intro H. injection H as <-.
  repeat split; intros t E; try (injection E as ->); subst; lia.
Qed.

Lemma effective_total_none total connect sock_read sock_connect :
  effective_total total connect sock_read sock_connect = None <-> total = None.
Proof. unfold effective_total. destruct total; split; intro H; try discriminate; reflexivity. Qed.

(* the documented rounding, for the total timer and for the connect / sock_connect contexts *)
Lemma total_deadline_rounding u nw t thr : 0 < u ->
  nw + t <= total_when u nw t thr < nw + t + u /\
  (t < thr -> total_when u nw t thr = nw + t) /\
  (thr <= t -> total_when u nw t thr = ceil_to u (nw + t) /\ (total_when u nw t thr) mod u = 0).
Proof.
  intros Hu. repeat split.
  - apply total_when_ge; assumption.
  - pose proof (total_when_le u nw t thr Hu). pose proof (ceil_to_lt u (nw + t) Hu). lia.
  - apply total_when_exact.
  - apply total_when_ceiled; assumption.
  - rewrite total_when_ceiled by assumption. apply ceil_to_multiple; assumption.
Qed.

Lemma ctx_deadline_rounding u nw t thr : 0 < u ->
  nw + t <= ctx_when u nw t thr < nw + t + u /\
  (t <= thr -> ctx_when u nw t thr = nw + t) /\
  (thr < t -> ctx_when u nw t thr = ceil_to u (nw + t)).
Proof.
  intros Hu. repeat split.
  - apply ctx_when_ge; assumption.
  - pose proof (ctx_when_le u nw t thr Hu). pose proof (ceil_to_lt u (nw + t) Hu). lia.
  - apply ctx_when_exact.
  - intro H. unfold ctx_when. cbv zeta. destruct (thr <? t) eqn:E; [reflexivity|lia].
Qed.
