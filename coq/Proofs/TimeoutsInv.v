(* C18 — structural invariant of Model/Timeouts (who holds what) and the residue lemmas. *)
From Coq Require Import ZArith Lia Bool List.
From AV Require Import Lib.Base Generated.TimeoutsGen Model.Timeouts Proofs.TimeoutsEff.
Open Scope Z_scope.

Definition pc_of (s : state) (t : task) : pc := pcs (tasks s t).

(* per-request structural facts *)
Record linv (ts : tstate) : Prop := {
  l_conn : has_conn (pcs ts) = true -> exists c, conn_of ts = Some c;
  l_noconn : pcs ts = PIdle \/ connecting (pcs ts) = true -> conn_of ts = None;
  l_quiet : has_conn (pcs ts) = false -> writer ts = false /\ paused ts = false;
  l_recv : pcs ts = PRecv -> conn_of ts = None
}.

(* x: a request that has left the queue but whose program counter still says PWaitSlot (the
   intermediate state inside a wake-up) *)
Record Invx (x : option task) (s : state) : Prop := {
  i_acq_nodup : NoDup (acq s);
  i_acq : forall t, In t (acq s) <-> holds_slot (pc_of s t) = true;
  i_wait_nodup : NoDup (waiters s);
  i_wait : forall t, In t (waiters s) <-> (pc_of s t = PWaitSlot /\ Some t <> x);
  i_ids : forall t, In t (ids s) \/ tasks s t = idle_ts;
  i_local : forall t, linv (tasks s t);
  i_conn : forall t c, has_conn (pc_of s t) = true -> conn_of (tasks s t) = Some c ->
             (c < nconn s)%N /\ ~ In c (closedc s) /\ ~ In c (idle s);
  i_conn_uniq : forall t1 t2 c, has_conn (pc_of s t1) = true -> has_conn (pc_of s t2) = true ->
             conn_of (tasks s t1) = Some c -> conn_of (tasks s t2) = Some c -> t1 = t2;
  i_idle_nodup : NoDup (idle s);
  i_idle : forall c, In c (idle s) -> (c < nconn s)%N /\ ~ In c (closedc s);
  i_failed_conn : forall t f a c, pc_of s t = PFailed f a -> conn_of (tasks s t) = Some c -> In c (closedc s);
  i_closed_lt : forall c, In c (closedc s) -> (c < nconn s)%N
}.

Definition Inv := Invx None.

Lemma linv_idle : linv idle_ts.
Proof. split; simpl; intros; try discriminate; auto. Qed.

Lemma Inv_init : Inv init.
Proof.
  split; simpl; unfold pc_of; simpl; intros; try (now constructor); try tauto; try discriminate;
    try apply linv_idle.
Qed.

Lemma Inv_waiters_wait s : Inv s -> waiters_wait s.
Proof. intros I t H. apply (i_wait _ _ I) in H. apply H. Qed.

Ltac tcase t' t :=
  destruct (N.eq_dec t' t) as [->|?]; [rewrite ?upd_same in *|rewrite ?upd_other in * by assumption].

(* ---- local updates: the classes of every program counter are unchanged -------------------------- *)

Record same_class (old new : tstate) : Prop := {
  sc_dead : live (pcs old) = false -> new = old \/ (pcs old = PRecv /\ pcs new = PDone);
  sc_live : live (pcs old) = true -> live (pcs new) = true;
  sc_holds : holds_slot (pcs new) = holds_slot (pcs old);
  sc_wait : pcs new = PWaitSlot <-> pcs old = PWaitSlot;
  sc_has : has_conn (pcs new) = has_conn (pcs old);
  sc_conn : conn_of new = conn_of old;
  sc_linv : linv new
}.

Lemma same_class_refl ts : linv ts -> same_class ts ts.
Proof. intro L. split; auto; tauto. Qed.

Lemma live_not_failed ts f a : live (pcs ts) = true -> pcs ts = PFailed f a -> False.
Proof. intros L E. rewrite E in L. discriminate. Qed.

Lemma retask_inv x s f d :
  Invx x s -> (forall t, same_class (tasks s t) (f t)) ->
  Invx x (mkS (now s) f (ids s) (acq s) (waiters s) (idle s) (closedc s) (nconn s) d).
Proof.
  intros I C. split; simpl; unfold pc_of; simpl.
  - apply (i_acq_nodup _ _ I).
  - intro t. rewrite (sc_holds _ _ (C t)). apply (i_acq _ _ I).
  - apply (i_wait_nodup _ _ I).
  - intro t. rewrite (sc_wait _ _ (C t)). apply (i_wait _ _ I).
  - intro t. destruct (i_ids _ _ I t) as [H|H]; [left; assumption|].
    right. destruct (sc_dead _ _ (C t)) as [E|[E _]]; [rewrite H; reflexivity|rewrite E; assumption|].
    rewrite H in E. discriminate.
  - intro t. apply (sc_linv _ _ (C t)).
  - intros t c H1 H2. rewrite (sc_has _ _ (C t)) in H1. rewrite (sc_conn _ _ (C t)) in H2.
    apply (i_conn _ _ I t c H1 H2).
  - intros t1 t2 c A B E1 E2. rewrite (sc_has _ _ (C t1)) in A. rewrite (sc_has _ _ (C t2)) in B.
    rewrite (sc_conn _ _ (C t1)) in E1. rewrite (sc_conn _ _ (C t2)) in E2.
    apply (i_conn_uniq _ _ I t1 t2 c A B E1 E2).
  - apply (i_idle_nodup _ _ I).
  - apply (i_idle _ _ I).
  - intros t fl a c P E. destruct (live (pcs (tasks s t))) eqn:L.
    + exfalso. apply (live_not_failed (f t) fl a); [apply (sc_live _ _ (C t) L)|assumption].
    + destruct (sc_dead _ _ (C t) L) as [X|[_ X]]; [|rewrite X in P; discriminate].
      rewrite X in P, E. apply (i_failed_conn _ _ I t fl a c P E).
  - apply (i_closed_lt _ _ I).
Qed.

Lemma set_task_inv x s t v :
  Invx x s -> same_class (tasks s t) v -> Invx x (set_task s t v).
Proof.
  intros I C. unfold set_task, set_tasks. apply retask_inv; [assumption|].
  intro t'. unfold upd. destruct (t' =? t)%N eqn:E.
  - apply N.eqb_eq in E. subst. assumption.
  - apply same_class_refl. apply (i_local _ _ I).
Qed.

(* ---- acquire ------------------------------------------------------------------------------------ *)

Lemma to_headers_fields ts c nw :
  pcs (to_headers ts c nw) = PHeaders /\ conn_of (to_headers ts c nw) = Some c.
Proof. unfold to_headers. destruct (c_block _); simpl; auto. Qed.

Lemma linv_to_headers ts c nw : linv (to_headers ts c nw).
Proof.
  destruct (to_headers_fields ts c nw) as [P C]. split; rewrite P; simpl; intros; try discriminate.
  - eauto.
  - destruct H; discriminate.
Qed.

Lemma linv_to_connect g ts nw : linv ts -> conn_of ts = None -> writer ts = false -> paused ts = false ->
  linv (to_connect g ts nw).
Proof. intros L C W P. split; simpl; intros; try discriminate; auto. Qed.

Lemma linv_set_pc ts p : conn_of ts = None -> writer ts = false -> paused ts = false -> has_conn p = false ->
  linv (set_pc ts p).
Proof.
  intros C W P H. split; simpl; intros; auto. rewrite H in *. discriminate.
Qed.

(* the request that takes the slot is new (PIdle, just started) or was queued *)
Lemma acquire_inv g s t :
  Invx (Some t) s -> pc_of s t = PIdle \/ pc_of s t = PWaitSlot -> In t (ids s) ->
  Inv (acquire g s t).
Proof.
  intros I P Hid.
  assert (Hn : holds_slot (pc_of s t) = false) by (destruct P as [-> | ->]; reflexivity).
  assert (Hacq : ~ In t (acq s)). { intro H. apply (i_acq _ _ I) in H. congruence. }
  assert (Hw : ~ In t (waiters s)). { intro H. apply (i_wait _ _ I) in H. destruct H as [_ H]. congruence. }
  pose proof (i_local _ _ I t) as Lt.
  assert (Hc : conn_of (tasks s t) = None) by (apply (l_noconn _ Lt); unfold pc_of in P; destruct P as [-> | ->]; auto).
  assert (Hq : writer (tasks s t) = false /\ paused (tasks s t) = false).
  { apply (l_quiet _ Lt). unfold pc_of in P. destruct P as [-> | ->]; reflexivity. }
  destruct Hq as [Hwr Hpa].
  (* generic part: given the new task state v with a slot-holding, non-waiting pc *)
  assert (G : forall v idle' d, holds_slot (pcs v) = true -> linv v ->
      (has_conn (pcs v) = false -> conn_of v = None) ->
      (forall c, has_conn (pcs v) = true -> conn_of v = Some c -> In c (idle s) /\ ~ In c idle') ->
      NoDup idle' -> (forall c, In c idle' -> In c (idle s)) ->
      Inv (mkS (now s) (upd (tasks s) t v) (ids s) (t :: acq s) (waiters s) idle' (closedc s) (nconn s) d)).
  { intros v idle' d Hh Lv Hnc Hci Hnd Hsub. split; simpl; unfold pc_of; simpl.
    - constructor; [assumption|apply (i_acq_nodup _ _ I)].
    - intro t'. tcase t' t.
      + split; [intros _; assumption|intros _; left; reflexivity].
      + rewrite <- (i_acq _ _ I t'). split; [intros [H|H]; [congruence|assumption]|intro H; right; assumption].
    - apply (i_wait_nodup _ _ I).
    - intro t'. tcase t' t.
      + split; [intro H; contradiction|]. intros [H _]. rewrite H in Hh. discriminate.
      + rewrite (i_wait _ _ I t'). unfold pc_of. split; [intros [A _]; split; [assumption|discriminate]|].
        intros [A _]. split; [assumption|congruence].
    - intro t'. tcase t' t; [left; assumption|apply (i_ids _ _ I)].
    - intro t'. tcase t' t; [assumption|apply (i_local _ _ I)].
    - intros t' c. tcase t' t.
      + intros A B. destruct (Hci c A B) as [Hi Hni]. destruct (i_idle _ _ I c Hi) as [Hlt Hcl]. auto.
      + intros A B. destruct (i_conn _ _ I t' c A B) as [X [Y Z]]. repeat split; auto.
    - intros t1 t2 c. tcase t1 t; tcase t2 t; intros A B E1 E2; auto.
      + exfalso. destruct (Hci c A E1) as [Hi _]. destruct (i_conn _ _ I t2 c B E2) as [_ [_ Z]]. contradiction.
      + exfalso. destruct (Hci c B E2) as [Hi _]. destruct (i_conn _ _ I t1 c A E1) as [_ [_ Z]]. contradiction.
      + apply (i_conn_uniq _ _ I t1 t2 c A B E1 E2).
    - assumption.
    - intros c H. apply (i_idle _ _ I). auto.
    - intros t' fl a c. tcase t' t.
      + intros E _. rewrite E in Hh. discriminate.
      + apply (i_failed_conn _ _ I).
    - apply (i_closed_lt _ _ I). }
  unfold acquire. destruct (idle s) as [|c rest] eqn:Ei.
  - assert (Gi : forall v d, holds_slot (pcs v) = true -> linv v -> has_conn (pcs v) = false -> conn_of v = None ->
              Inv (mkS (now s) (upd (tasks s) t v) (ids s) (t :: acq s) (waiters s) [] (closedc s) (nconn s) d)).
    { intros v d A B C D. apply G; auto; try (now constructor).
      - intros c0 X. congruence. }
    destruct (dns s).
    + apply Gi; simpl; auto. apply linv_set_pc; auto.
    + apply Gi; simpl; auto. apply linv_set_pc; auto.
    + apply Gi; simpl; auto. apply linv_to_connect; auto.
  - pose proof (i_idle_nodup _ _ I) as ND. rewrite Ei in ND. inversion ND as [|? ? Hnin ND']; subst.
    destruct (to_headers_fields (tasks s t) c (now s)) as [Ph Ch].
    apply G; try assumption.
    + rewrite Ph. reflexivity.
    + apply linv_to_headers.
    + rewrite Ph. discriminate.
    + intros c0 _ E. rewrite Ch in E. injection E as <-. split; [left; reflexivity|assumption].
    + intros c0 H. right. assumption.
Qed.

Lemma wake_inv g s : Inv s -> Inv (wake g s).
Proof.
  intro I. unfold wake. destruct (waiters s) as [|w ws] eqn:W; [assumption|].
  destruct (release_skips_key _); [assumption|].
  pose proof (i_wait_nodup _ _ I) as ND. rewrite W in ND. inversion ND as [|? ? Hnin ND']; subst.
  assert (Pw : pc_of s w = PWaitSlot). { apply (i_wait _ _ I). rewrite W. left. reflexivity. }
  apply acquire_inv.
  - split; simpl; try apply I.
    + assumption.
    + intro t. unfold pc_of. simpl. pose proof (i_wait _ _ I t) as X. rewrite W in X. simpl in X.
      split.
      * intro H. split; [apply X; right; assumption|]. intro E. injection E as ->. contradiction.
      * intros [A B]. assert (N0 : Some t <> (None : option task)) by discriminate.
        destruct (proj2 X (conj A N0)) as [E|E]; [congruence|assumption].
  - right. exact Pw.
  - simpl. destruct (i_ids _ _ I w) as [H|H]; [assumption|]. unfold pc_of in Pw. rewrite H in Pw. discriminate.
Qed.

(* ---- a request ends ------------------------------------------------------------------------------- *)

Lemma In_acq_remove s t : forall t', In t' (remove_t t (acq s)) <-> In t' (acq s) /\ t' <> t.
Proof. intro. apply In_remove_t. Qed.

(* common part of "the request ends": its task state becomes v (dead pc, same connection record, quiet) *)
Lemma give_back_inv s t v idle' closed' :
  Inv s -> pc_of s t <> PIdle -> live (pcs v) = false -> pcs v <> PIdle ->
  (pcs v = PRecv -> conn_of v = None) -> writer v = false -> paused v = false ->
  (* the connection of t (if it has one) ends up closed or idle; nothing else changes in those lists *)
  NoDup idle' ->
  (forall c, In c idle' -> (In c (idle s) \/ (has_conn (pc_of s t) = true /\ conn_of (tasks s t) = Some c)) /\ ~ In c closed') ->
  (forall c, In c (idle s) -> In c idle') ->
  (forall c, In c closed' -> In c (closedc s) \/ (has_conn (pc_of s t) = true /\ conn_of (tasks s t) = Some c)) ->
  (forall c, In c (closedc s) -> In c closed') ->
  (forall f a c, pcs v = PFailed f a -> conn_of v = Some c -> In c closed') ->
  Inv (give_back s t v idle' closed').
Proof.
  intros I L Dv Nv Cv Wv Pv NDi Hi Hi2 Hc Hc2 Hf.
  assert (Hhv : holds_slot (pcs v) = false) by (destruct (pcs v) as [| | | | |[|]| | |]; simpl in *; congruence).
  assert (Hcv : has_conn (pcs v) = false) by (destruct (pcs v) as [| | | | |[|]| | |]; simpl in *; congruence).
  assert (Hwv : pcs v <> PWaitSlot) by (intro E; rewrite E in Dv; discriminate).
  split; simpl; unfold pc_of; simpl.
  - apply NoDup_remove_t. apply (i_acq_nodup _ _ I).
  - intro t'. rewrite In_remove_t. tcase t' t.
    + rewrite Hhv. split; [intros [_ H]; congruence|discriminate].
    + rewrite (i_acq _ _ I t'). unfold pc_of. tauto.
  - apply NoDup_remove_t. apply (i_wait_nodup _ _ I).
  - intro t'. rewrite In_remove_t. tcase t' t.
    + split; [intros [_ H]; congruence|]. intros [H _]. congruence.
    + rewrite (i_wait _ _ I t'). unfold pc_of. tauto.
  - intro t'. tcase t' t; [|apply (i_ids _ _ I)].
    left. destruct (i_ids _ _ I t) as [H|H]; [assumption|]. exfalso. apply L. unfold pc_of. rewrite H. reflexivity.
  - intro t'. tcase t' t; [|apply (i_local _ _ I)].
    split; rewrite ?Hcv; intros; try discriminate; auto.
    destruct H as [H|H]; [congruence|]. destruct (pcs v) as [| | | | |[|]| | |]; simpl in *; congruence.
  - intros t' c. tcase t' t; [rewrite Hcv; discriminate|].
    intros A B. destruct (i_conn _ _ I t' c A B) as [X [Y Z]]. repeat split; auto.
    + intro H. destruct (Hc c H) as [H'|[H1 H2]]; [contradiction|].
      apply n. apply (i_conn_uniq _ _ I t' t c A H1 B H2).
    + intro H. destruct (Hi c H) as [[H'|[H1 H2]] _]; [contradiction|].
      apply n. apply (i_conn_uniq _ _ I t' t c A H1 B H2).
  - intros t1 t2 c. tcase t1 t; [rewrite Hcv; discriminate|]. tcase t2 t; [rewrite Hcv; discriminate|].
    apply (i_conn_uniq _ _ I).
  - assumption.
  - intros c H. destruct (Hi c H) as [[H'|[H1 H2]] Hn].
    + split; [apply (i_idle _ _ I c H')|assumption].
    + split; [apply (i_conn _ _ I t c H1 H2)|assumption].
  - intros t' fl a c. tcase t' t.
    + apply Hf.
    + intros A B. apply Hc2. apply (i_failed_conn _ _ I t' fl a c A B).
  - intros c H. destruct (Hc c H) as [H'|[H1 H2]]; [apply (i_closed_lt _ _ I c H')|apply (i_conn _ _ I t c H1 H2)].
Qed.

Lemma pending_not_idle p : pending p = true -> p <> PIdle.
Proof. intros H E. rewrite E in H. discriminate. Qed.

Lemma no_conn_record ts : linv ts -> has_conn (pcs ts) = false -> pending (pcs ts) = true -> conn_of ts = None.
Proof.
  intros L H P. destruct (pcs ts) as [| | | | |[|]| | |] eqn:E; simpl in *; try discriminate.
  - apply (l_noconn _ L). rewrite E. auto.
  - apply (l_noconn _ L). rewrite E. auto.
  - apply (l_noconn _ L). rewrite E. auto.
  - apply (l_recv _ L). assumption.
Qed.

Lemma fail_give_back_inv s t f :
  Inv s -> pending (pc_of s t) = true ->
  Inv (give_back s t (failed (tasks s t) f (now s)) (idle s) (close_conn_of (tasks s t) (closedc s))).
Proof.
  intros I L. pose proof (i_local _ _ I t) as Lt.
  apply give_back_inv; simpl; auto; try discriminate.
  - now apply pending_not_idle.
  - apply (i_idle_nodup _ _ I).
  - intros c H. split; [left; assumption|]. unfold close_conn_of.
    destruct (conn_of (tasks s t)) as [c0|] eqn:E; [|apply (i_idle _ _ I c H)].
    rewrite In_add_closed. intros [->|H']; [|apply (i_idle _ _ I c H); assumption].
    destruct (has_conn (pc_of s t)) eqn:Hc.
    + destruct (i_conn _ _ I t c0 Hc E) as [_ [_ Z]]. contradiction.
    + pose proof (no_conn_record _ Lt Hc L). congruence.
  - intros c. unfold close_conn_of. destruct (conn_of (tasks s t)) as [c0|] eqn:E; [|auto].
    rewrite In_add_closed. intros [->|H]; [|auto]. right. split; [|reflexivity].
    destruct (has_conn (pc_of s t)) eqn:Hc; [reflexivity|].
    pose proof (no_conn_record _ Lt Hc L). congruence.
  - intros c H. unfold close_conn_of. destruct (conn_of (tasks s t)); [rewrite In_add_closed; auto|assumption].
  - intros fl a c _ E. unfold close_conn_of. rewrite E. rewrite In_add_closed. auto.
Qed.

Lemma fail_inv g s t f : Inv s -> pending (pc_of s t) = true -> Inv (fail g s t f).
Proof.
  intros I L. unfold fail. destruct (holds_slot _); [apply wake_inv|]; now apply fail_give_back_inv.
Qed.

Lemma live_pending p : live p = true -> pending p = true.
Proof. intro H. unfold pending. rewrite H. reflexivity. Qed.

Lemma NoDup_snoc {A} (l : list A) x : NoDup l -> ~ In x l -> NoDup (l ++ [x]).
Proof.
  intros ND H. induction l as [|y l IH]; simpl; [constructor; [tauto|constructor]|].
  inversion ND; subst. constructor.
  - rewrite in_app_iff. simpl. intros [X|[X|[]]]; [contradiction|]. subst. apply H. left. reflexivity.
  - apply IH; [assumption|]. intro X. apply H. right. assumption.
Qed.

Lemma done_give_back_inv s t c r :
  Inv s -> has_conn (pc_of s t) = true -> conn_of (tasks s t) = Some c ->
  Inv (if writer (tasks s t)
       then give_back s t (ended_ts (tasks s t) r) (idle s) (add_closed c (closedc s))
       else give_back s t (ended_ts (tasks s t) r) (idle s ++ [c]) (closedc s)).
Proof.
  intros I Hc E.
  assert (L : pc_of s t <> PIdle) by (intro X; rewrite X in Hc; discriminate).
  destruct (i_conn _ _ I t c Hc E) as [X [Y Z]].
  destruct (writer (tasks s t)); apply give_back_inv; auto; try (destruct r; simpl; auto; discriminate).
  - apply (i_idle_nodup _ _ I).
  - intros c0 H. split; [left; assumption|]. rewrite In_add_closed. intros [->|H']; [contradiction|].
    apply (i_idle _ _ I c0 H). assumption.
  - intros c0. rewrite In_add_closed. intros [->|H]; auto.
  - intros c0 H. rewrite In_add_closed. auto.
  - apply NoDup_snoc; [apply (i_idle_nodup _ _ I)|assumption].
  - intros c0. rewrite in_app_iff. simpl. intros [H|[<-|[]]].
    + split; [left; assumption|apply (i_idle _ _ I c0 H)].
    + split; [right; auto|assumption].
  - intros c0 H. rewrite in_app_iff. auto.
Qed.

(* ---- the step ------------------------------------------------------------------------------------- *)

Lemma has_conn_live p : has_conn p = true -> live p = true.
Proof. destruct p as [| | | | |[|]| | |]; simpl; congruence. Qed.

Lemma has_conn_holds p : has_conn p = true -> holds_slot p = true.
Proof. destruct p as [| | | | |[|]| | |]; simpl; congruence. Qed.

(* same program counter class, same connection record: rearm / written / pause / latch ... *)
Lemma same_class_keep old new :
  linv old -> has_conn (pcs old) = true -> has_conn (pcs new) = true -> conn_of new = conn_of old ->
  same_class old new.
Proof.
  intros L H H' C.
  pose proof (has_conn_live _ H). pose proof (has_conn_live _ H').
  pose proof (has_conn_holds _ H). pose proof (has_conn_holds _ H').
  split; try congruence.
  - split; intro E; [rewrite E in H'|rewrite E in H]; discriminate.
  - destruct (l_conn _ L H) as [c Ec]. split; intros; try congruence.
    + exists c. congruence.
    + destruct H4 as [E|E]; [rewrite E in H'; discriminate|].
      destruct (pcs new) as [| | | | |[|]| | |]; simpl in *; discriminate.
    + rewrite H4 in H'. discriminate.
Qed.

Lemma step_inv g s e s' : Inv s -> step g s e = Some s' -> Inv s'.
Proof.
  intros I H. destruct e; simpl in H.
  - (* EAdv *) break_match H. injection H as <-. destruct I. split; assumption.
  - (* EStart *)
    destruct (memN t (ids s)) eqn:M; [discriminate|].
    destruct (pcs (tasks s t)) eqn:P; try discriminate.
    assert (Hni : ~ In t (ids s)). { intro X. apply memN_In in X. congruence. }
    assert (Hacq : ~ In t (acq s)). { intro X. apply (i_acq _ _ I) in X. unfold pc_of in X. rewrite P in X. discriminate. }
    assert (Hw : ~ In t (waiters s)). { intro X. apply (i_wait _ _ I) in X. unfold pc_of in X. rewrite P in X. destruct X. discriminate. }
    (* the state in which t has been given a fresh PIdle-pc'd task state v *)
    assert (G : forall v, pcs v = PIdle -> conn_of v = None -> writer v = false -> paused v = false ->
                Invx (Some t) (mkS (now s) (upd (tasks s) t v) (ids s ++ [t]) (acq s) (waiters s) (idle s)
                                   (closedc s) (nconn s) (dns s))).
    { intros v Pv Cv Wv Pav. split; simpl; unfold pc_of; simpl; try apply I.
      - intro t'. tcase t' t; [rewrite Pv; split; [contradiction|discriminate]|apply (i_acq _ _ I)].
      - intro t'. tcase t' t.
        + split; [contradiction|]. intros [A _]. congruence.
        + rewrite (i_wait _ _ I t'). unfold pc_of. split; [intros [A _]; split; [assumption|congruence]|].
          intros [A _]. split; [assumption|discriminate].
      - intro t'. rewrite in_app_iff. tcase t' t; [left; right; left; reflexivity|].
        destruct (i_ids _ _ I t'); auto.
      - intro t'. tcase t' t; [|apply (i_local _ _ I)].
        split; rewrite Pv; simpl; intros; try discriminate; auto.
      - intros t' c0. tcase t' t; [rewrite Pv; discriminate|apply (i_conn _ _ I)].
      - intros t1 t2 c0. tcase t1 t; [rewrite Pv; discriminate|]. tcase t2 t; [rewrite Pv; discriminate|].
        apply (i_conn_uniq _ _ I).
      - intros t' fl a c0. tcase t' t; [rewrite Pv; discriminate|apply (i_failed_conn _ _ I)]. }
    destruct (idle s) eqn:Ei.
    + destruct (connect_must_wait _).
      * injection H as <-.
        pose proof (G (enter_connect g (start_ts g c (now s)) (now s)) eq_refl eq_refl eq_refl eq_refl) as I0.
        split; simpl; unfold pc_of; simpl; try apply I0.
        -- intro t'. tcase t' t; [simpl; split; [contradiction|discriminate]|apply (i_acq _ _ I)].
        -- apply NoDup_snoc; [apply (i_wait_nodup _ _ I)|assumption].
        -- intro t'. rewrite in_app_iff. tcase t' t.
           ++ simpl. split; [intros _; split; [reflexivity|discriminate]|auto].
           ++ rewrite (i_wait _ _ I t'). unfold pc_of. simpl. split.
              ** intros [[A _]|[A|[]]]; [split; [assumption|discriminate]|congruence].
              ** intros [A _]. left. split; [assumption|discriminate].
        -- intro t'. rewrite in_app_iff. tcase t' t; [left; right; left; reflexivity|].
           destruct (i_ids _ _ I t'); auto.
        -- intro t'. tcase t' t; [|apply (i_local _ _ I)]. split; simpl; intros; try discriminate; auto.
        -- intros t' c0. tcase t' t; [simpl; discriminate|]. intros A B.
           destruct (i_conn _ _ I t' c0 A B) as [X [Y Z]]. rewrite Ei in Z. auto.
        -- intros t1 t2 c0. tcase t1 t; [simpl; discriminate|]. tcase t2 t; [simpl; discriminate|].
           apply (i_conn_uniq _ _ I).
        -- intros t' fl a c0. tcase t' t; [simpl; discriminate|apply (i_failed_conn _ _ I)].
      * injection H as <-. apply acquire_inv.
        -- apply G; reflexivity.
        -- left. unfold pc_of. simpl. rewrite upd_same. reflexivity.
        -- simpl. rewrite in_app_iff. right. left. reflexivity.
    + injection H as <-. apply acquire_inv.
      * apply G; reflexivity.
      * left. unfold pc_of. simpl. rewrite upd_same. reflexivity.
      * simpl. rewrite in_app_iff. right. left. reflexivity.
  - (* EDns *)
    destruct (dns s); try discriminate. injection H as <-.
    apply retask_inv; [assumption|]. intro t.
    pose proof (i_local _ _ I t) as Lt.
    destruct (pcs (tasks s t)) eqn:P; try (apply same_class_refl; assumption).
    assert (Cn : conn_of (tasks s t) = None) by (apply (l_noconn _ Lt); rewrite P; auto).
    destruct (l_quiet _ Lt) as [Wq Pq]; [rewrite P; reflexivity|].
    split; simpl; rewrite ?P; auto; try discriminate.
    + split; discriminate.
    + apply linv_to_connect; assumption.
  - (* EConn *)
    destruct (pcs (tasks s t)) eqn:P; try discriminate. injection H as <-.
    destruct (to_headers_fields (tasks s t) (nconn s) (now s)) as [Ph Ch].
    split; simpl; unfold pc_of; simpl; try apply I.
    + intro t'. tcase t' t; [|apply (i_acq _ _ I)]. rewrite Ph. rewrite (i_acq _ _ I t). unfold pc_of. rewrite P. tauto.
    + intro t'. tcase t' t; [|apply (i_wait _ _ I)]. rewrite Ph. rewrite (i_wait _ _ I t). unfold pc_of. rewrite P.
      split; intros [A _]; discriminate.
    + intro t'. tcase t' t; [|apply (i_ids _ _ I)]. left. destruct (i_ids _ _ I t) as [X|X]; [assumption|].
      rewrite X in P. discriminate.
    + intro t'. tcase t' t; [apply linv_to_headers|apply (i_local _ _ I)].
    + intros t' c. tcase t' t.
      * intros _ E. rewrite Ch in E. injection E as <-. repeat split; [lia| |].
        -- intro X. pose proof (i_closed_lt _ _ I _ X). lia.
        -- intro X. destruct (i_idle _ _ I _ X). lia.
      * intros A B. destruct (i_conn _ _ I t' c A B) as [X [Y Z]]. repeat split; auto. lia.
    + intros t1 t2 c. tcase t1 t; tcase t2 t; auto.
      * intros _ B E1 E2. rewrite Ch in E1. injection E1 as <-. destruct (i_conn _ _ I t2 _ B E2). lia.
      * intros A _ E1 E2. rewrite Ch in E2. injection E2 as <-. destruct (i_conn _ _ I t1 _ A E1). lia.
      * apply (i_conn_uniq _ _ I).
    + intros c X. destruct (i_idle _ _ I c X). split; [lia|assumption].
    + intros t' fl a c. tcase t' t; [rewrite Ph; discriminate|apply (i_failed_conn _ _ I)].
    + intros c X. pose proof (i_closed_lt _ _ I c X). lia.
  - (* EWritten *)
    destruct (writer (tasks s t) && has_conn (pcs (tasks s t))) eqn:G; [|discriminate]. injection H as <-.
    apply andb_true_iff in G as [_ G].
    apply set_task_inv; [assumption|]. apply same_class_keep; auto. apply (i_local _ _ I).
  - (* EData *)
    pose proof (i_local _ _ I t) as Lt.
    destruct (paused (tasks s t)); [discriminate|].
    assert (K : forall v, has_conn (pcs (tasks s t)) = true -> has_conn (pcs v) = true ->
                conn_of v = conn_of (tasks s t) -> Inv (set_task s t v)).
    { intros v A B C. apply set_task_inv; [assumption|]. apply same_class_keep; auto. }
    destruct (latched (tasks s t)) as [[| | | |]|]; try discriminate;
      destruct k; destruct (pcs (tasks s t)) as [| | | | |[|]| | |] eqn:P; try discriminate;
      destruct (rp (tasks s t)) as [|[|]|]; try discriminate; simpl in H;
      try (injection H as <-; apply K; simpl; rewrite ?P; reflexivity);
      (destruct (conn_of (tasks s t)) as [c|] eqn:Ec; [|discriminate]; injection H as <-;
       apply wake_inv;
       first [apply (done_give_back_inv s t c true)|apply (done_give_back_inv s t c false)];
       [assumption|unfold pc_of; rewrite P; reflexivity|assumption]).
  - (* ERead *)
    pose proof (i_local _ _ I t) as Lt.
    destruct (pcs (tasks s t)) as [| | | | |[|]| | |] eqn:P; try discriminate.
    + destruct (latched (tasks s t)).
      * injection H as <-. apply fail_inv; [assumption|]. unfold pc_of. rewrite P. reflexivity.
      * injection H as <-. apply set_task_inv; [assumption|]. apply same_class_keep; auto.
        -- rewrite P. reflexivity.
        -- unfold read_ts. destruct (paused _); reflexivity.
        -- unfold read_ts. destruct (paused _); reflexivity.
    + (* the body was already there: the caller takes it *)
      destruct (latched (tasks s t)).
      * injection H as <-. apply fail_inv; [assumption|]. unfold pc_of. rewrite P. reflexivity.
      * injection H as <-. apply set_task_inv; [assumption|].
        pose proof (l_recv _ Lt P) as Cn.
        split; simpl; rewrite ?P; auto; try discriminate.
        all: try (split; discriminate).
        all: split; simpl; intros; try discriminate; auto.
        all: try (destruct H as [H|H]; discriminate).
  - (* ECancel *)
    destruct (pending (pcs (tasks s t))) eqn:L; [|discriminate]. injection H as <-. now apply fail_inv.
  - (* EFire *)
    pose proof (i_local _ _ I t) as Lt.
    destruct (deadline (tasks s t) w); [|discriminate]. destruct (z <=? now s); [|discriminate].
    assert (K : forall v, pcs (tasks s t) = PBody false -> pcs v = PBody false ->
                conn_of v = conn_of (tasks s t) -> Inv (set_task s t v)).
    { intros v A B C. apply set_task_inv; [assumption|]. apply same_class_keep; auto; rewrite ?A, ?B; reflexivity. }
    destruct w.
    + destruct (awaiting (pcs (tasks s t))) eqn:A.
      * injection H as <-. apply fail_inv; [assumption|]. apply live_pending. unfold pc_of.
        destruct (pcs (tasks s t)) as [| | | | |[|]| | |]; simpl in *; congruence.
      * destruct (live (pcs (tasks s t))) eqn:L; [|discriminate]. injection H as <-.
        apply K; [now apply not_awaiting_live| |reflexivity]. simpl. now apply not_awaiting_live.
    + destruct (connecting (pcs (tasks s t))) eqn:A; [|discriminate]. injection H as <-.
      apply fail_inv; [assumption|]. apply live_pending. unfold pc_of. destruct (pcs (tasks s t)) as [| | | | |[|]| | |]; simpl in *; congruence.
    + destruct (pcs (tasks s t)) eqn:P; try discriminate. injection H as <-.
      apply fail_inv; [assumption|]. apply live_pending. unfold pc_of. rewrite P. reflexivity.
    + destruct (awaiting (pcs (tasks s t))) eqn:A.
      * injection H as <-. apply fail_inv; [assumption|]. apply live_pending. unfold pc_of.
        destruct (pcs (tasks s t)) as [| | | | |[|]| | |]; simpl in *; congruence.
      * destruct (live (pcs (tasks s t))) eqn:L; [|discriminate]. injection H as <-.
        apply K; [now apply not_awaiting_live| |reflexivity]. simpl. now apply not_awaiting_live.
Qed.

Lemma run_inv g : forall tr s s', Inv s -> run g s tr = Some s' -> Inv s'.
Proof.
  induction tr as [|e tr IH]; simpl; intros s s' I H.
  - injection H as <-. assumption.
  - destruct (step g s e) as [s1|] eqn:E; [|discriminate]. apply (IH s1 s'); [|assumption].
    apply (step_inv g s e s1 I E).
Qed.

Lemma reach_inv g tr s : run g init tr = Some s -> Inv s.
Proof. apply run_inv. apply Inv_init. Qed.
