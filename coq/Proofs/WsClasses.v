(* C12 — each header-level violation class ends the stream with 1002 in EVERY reader state that is
   waiting for a header (any frame position, any message in progress), and a latched reader stays
   latched: direct statements about the model, independent of the refinement proof. *)
From AV Require Import Lib.Base Lib.Utf8Valid Generated.WsGen Model.Ws Model.WsSpec Proofs.WsSeg Proofs.WsRefine.
From Coq Require Import ZifyBool ZifyN.
Open Scope N_scope.

Section Classes.
Variable Cx : Type.
Variable decomp : Cx -> bytes -> N -> dres Cx.
Variable c : cfg.

Definition header_violation (b0 b1 : N) : bool :=
  let h := parse_header b0 b1 in
  h_rsv2 h || h_rsv3 h || (h_rsv1 h && negb (compress c)) || negb (known_opcode (h_op h))
  || (is_control (h_op h) && (negb (h_fin h) || (125 <? h_len7 h) || h_rsv1 h)).

Lemma header_violation_rejected (s : rstate Cx) b0 b1 r :
  s_phase s = RH -> header_violation b0 b1 = true ->
  iter Cx decomp c s (b0 :: b1 :: r) = PFail (WsErr 1002).
Proof.
  intros Hp Hv. unfold iter, ph_header. rewrite Hp.
  unfold header_violation, parse_header in Hv. cbn [h_fin h_rsv1 h_rsv2 h_rsv3 h_op h_masked h_len7] in Hv.
  rewrite opcode_bad_known, is_control_gen.
  unfold hdr_rsv_bad, hdr_ctl_fragmented, hdr_ctl_too_long, pfail. change CODE_PROTOCOL_ERROR with 1002.
  replace (7 <? N.land b0 15) with (is_control (N.land b0 15)) by (unfold is_control; lia).
  revert Hv.
  generalize (N.testbit b0 7) (N.testbit b0 6) (N.testbit b0 5) (N.testbit b0 4) (N.testbit b1 7).
  intros fin rsv1 rsv2 rsv3 msk.
  destruct rsv2, rsv3, rsv1, (compress c), (known_opcode (N.land b0 15)), (is_control (N.land b0 15)), fin,
    (125 <? N.land b1 127); cbn [orb andb negb bind]; intro Hv; try reflexivity; try discriminate.
Qed.

(* a message above the limit is refused as soon as its length is known, before any payload byte is kept *)
Lemma oversize_rejected (s : rstate Cx) d len :
  s_phase s = RL -> s_lflag s < 126 -> len = s_lflag s ->
  max_msg_size c <> 0 -> is_data (s_fop s) = true ->
  max_msg_size c < len + lenN (m_partial (s_m s)) ->
  iter Cx decomp c s d = PFail (WsErr 1009).
Proof.
  intros Hp Hl -> Hm Hd Hb. unfold iter.
  rewrite (ph_header_skip Cx c s d) by congruence. cbn [bind].
  unfold ph_length, after_length. rewrite Hp.
  replace (s_lflag s =? 126) with false by lia. replace (126 <? s_lflag s) with false by lia.
  rewrite size_applies_gen, Hd.
  replace (negb (max_msg_size c =? 0)) with true by lia.
  replace (size_reject _ _ _) with true by (unfold size_reject; lia). reflexivity.
Qed.

End Classes.
