(* C06 — the tag invariant is preserved by the events that run between data_received calls. *)
From AV Require Import Lib.Base Generated.ClientConnGen Model.ClientConn Proofs.ClientConnBase Proofs.ClientConnStruct
  Proofs.ClientConnTagsDef Proofs.ClientConnCore.
Open Scope N_scope.

Lemma linkok_head cn : c_pst cn = PSHead -> LinkOK cn.
Proof. intros H pid rem H1. congruence. Qed.

Lemma linkok_closed cn : c_phase cn = PClosed -> LinkOK cn.
Proof. intros H pid rem _ H1. congruence. Qed.

Lemma linkok_same cn cn' :
  c_pst cn' = c_pst cn -> c_pay cn' = c_pay cn -> (c_phase cn = PClosed -> c_phase cn' = PClosed) ->
  LinkOK cn -> LinkOK cn'.
Proof. intros H1 H2 H3 L pid rem Hp Hc. rewrite H1 in Hp. rewrite H2. apply (L pid rem Hp). intros E. now apply Hc, H3. Qed.

Lemma noseg_in_seg s c : s_seg s = None -> ~ in_seg s c.
Proof. intros H [g [Hg _]]. congruence. Qed.

Lemma tags_noseg s : Core s -> s_seg s = None -> (forall c, LinkOK (s_conn s c)) -> Tags s.
Proof. intros K H L. split; [exact K|intros g Hg; congruence|intros c _; apply L]. Qed.

Lemma linkok_release cf s c arg c' :
  LinkOK (s_conn s c') -> LinkOK (s_conn (release_conn cf s c arg) c').
Proof.
  intros L. destruct (release_conn_spec cf s c arg c') as [E|[(_ & E & _)|(_ & E1 & E2 & E3 & _ & [e0 E5])]].
  - now rewrite E.
  - now apply linkok_closed.
  - eapply linkok_same; [exact E2|exact E3| |exact L]. intros H. congruence.
Qed.

Lemma linkok_response_eof cf s e c' :
  LinkOK (s_conn s c') -> LinkOK (s_conn (response_eof cf s e) c').
Proof.
  intros L. unfold response_eof. destruct (response_eof_releases_gen _ _); [|exact L].
  destruct (x_held _); [now apply linkok_release|exact L].
Qed.

Lemma response_eof_seg cf s e : s_seg (response_eof cf s e) = s_seg s.
Proof.
  unfold response_eof. destruct (response_eof_releases_gen _ _); [|reflexivity].
  destruct (x_held _); [|reflexivity]. now destruct (release_conn_frame cf (set_exch s e (set_x_held (set_x_closed (s_x s e) true) false)) (x_conn (s_x s e)) false) as (_ & _ & _ & H & _).
Qed.

Lemma release_seg cf s c arg : s_seg (release_conn cf s c arg) = s_seg s.
Proof. now destruct (release_conn_frame cf s c arg) as (_ & _ & _ & H & _). Qed.

(* closing a pooled connection *)
Lemma core_close s c : Core s -> Core (set_conn s c (close_proto (s_conn s c))).
Proof.
  intros K. pose proof (tg_conn s K c) as [A B C D E].
  apply core_set_conn; [exact K|]. split; cbn; rewrite upd_same; cbn.
  - intros; discriminate.
  - intros; discriminate.
  - reflexivity.
  - exact D.
  - intros pid rem Hp. destruct (E pid rem Hp) as (E1 & E2 & E3 & _). repeat split; try assumption. intros; discriminate.
Qed.

Lemma core_pool_get cf key : forall pool s kept s1 got,
  Core s -> (forall c, LinkOK (s_conn s c)) -> pool_get cf s key pool kept = (s1, got) ->
  Core s1 /\ (forall c, LinkOK (s_conn s1 c)) /\ s_seg s1 = s_seg s.
Proof.
  induction pool as [|c rest IH]; intros s kept s1 got K L H; cbn [pool_get] in H.
  - inv_some. split; [now apply core_set_pool|]. split; [exact L|reflexivity].
  - destruct (list_eqb _ _); [|eapply IH; eauto].
    destruct (reusable _ _ _).
    + inv_some. split; [now apply core_set_pool|]. split; [exact L|reflexivity].
    + apply (IH (set_conn s c (close_proto (s_conn s c))) kept s1 got); [now apply core_close| |exact H].
      intros c'. cbn. destruct (upd_cases (s_conn s) c (close_proto (s_conn s c)) c') as [[-> E]|[_ E]]; rewrite E; [now apply linkok_closed|apply L].
Qed.

Lemma core_set_exch_nopay s e x' : Core s -> x_pay x' = None -> Core (set_exch s e x').
Proof.
  intros [A B C D] H. split; cbn; try assumption.
  - intros c. apply (conntags_transfer s); [reflexivity|now apply pay_stable_same|reflexivity|apply B].
  - intros e' pid. destruct (upd_cases (s_x s) e x' e') as [[-> E]|[_ E]]; rewrite E; [congruence|apply D].
Qed.

Lemma core_set_nconn s n : Core s -> Core (set_s_nconn s n).
Proof. intros K. now apply (core_frame s). Qed.

(* a payload changes only in its callback / exception fields *)
Lemma core_set_payl_soft s pid pl :
  Core s -> p_tag pl = p_tag (s_pay s pid) -> p_conn pl = p_conn (s_pay s pid) ->
  p_eof pl = p_eof (s_pay s pid) -> p_items pl = p_items (s_pay s pid) ->
  Core (set_payl s pid pl).
Proof.
  intros [A B C D] H1 H2 H3 H4. assert (Hs : pay_stable s (set_payl s pid pl)) by now apply pay_stable_upd.
  split; cbn; try assumption.
  - intros c. apply (conntags_transfer s); [reflexivity|exact Hs| |apply B].
    intros pid' rem _. cbn. destruct (upd_cases (s_pay s) pid pl pid') as [[-> E]|[_ E]]; rewrite E; [exact H3|reflexivity].
  - intros pid'. destruct (upd_cases (s_pay s) pid pl pid') as [[-> E]|[_ E]]; rewrite E; [rewrite H1, H4|]; apply C.
  - intros e pid' Hx. destruct (D e pid' Hx) as [D1 D2]. split; [exact D1|].
    destruct (upd_cases (s_pay s) pid pl pid') as [[-> E]|[_ E]]; rewrite E; [now rewrite H1|exact D2].
Qed.

Lemma log_items_tagged e t items :
  Forall (fun it : N * tag => snd it = t) items -> t = TFlight e -> Forall well_tagged (log_items e items).
Proof.
  intros H ->. induction items as [|[i t'] r IH]; cbn; [constructor|].
  inversion H; subst. constructor; [exact H2|now apply IH].
Qed.

Section NoSeg.
Variable cf : cfg.

Lemma tags_connect s e r s' :
  Struct s -> Tags s -> s_seg s = None -> do_connect cf s e r = Some s' -> Tags s'.
Proof.
  intros S T Hs H. unfold do_connect in H. destruct (x_st (s_x s e)); try discriminate.
  destruct (pool_get cf s (key_of_req r) (s_pool s) []) as [s1 got] eqn:Eg.
  assert (L : forall c, LinkOK (s_conn s c)) by (intros c; apply (tg_link s T); now apply noseg_in_seg).
  destruct (core_pool_get cf _ _ _ _ _ _ (tg_core s T) L Eg) as (K1 & L1 & Hs1).
  destruct S as [A B C D E].
  destruct (struct_pool_get cf (key_of_req r) (s_pool s) s [] s1 got A B C D E Eg) as (S1 & _ & _ & Hg).
  destruct got as [c|]; inv_some.
  - destruct (Hg c eq_refl) as (Hph & _ & _).
    destruct (ct_idle s1 c (tg_conn s1 K1 c) Hph) as (Hb & Ht & Hp).
    apply tags_noseg; [| cbn; congruence |].
    + apply core_set_exch_nopay; [|reflexivity]. apply core_set_conn; [exact K1|].
      split; cbn; rewrite upd_same; cbn; rewrite ?Hb, ?Ht, ?Hp; try (intros; discriminate).
      * intros; split; constructor.
      * constructor.
    + intros c'. cbn. destruct (upd_cases (s_conn s1) c (set_c_prog (set_c_phase (s_conn s1 c) (PFlight e)) GNone) c') as [[-> E']|[_ E']]; rewrite E'; [|apply L1].
      apply linkok_head. exact Hp.
  - apply tags_noseg; [| cbn; congruence |].
    + apply core_set_exch_nopay; [|reflexivity]. apply core_set_nconn. apply core_set_conn; [exact K1|].
      split; cbn; rewrite upd_same; cbn; try (intros; discriminate).
      * intros; split; constructor.
      * constructor.
    + intros c'. cbn. destruct (upd_cases (s_conn s1) (s_nconn s1) (new_conn r e) c') as [[-> E']|[_ E']]; rewrite E'; [|apply L1].
      now apply linkok_head.
Qed.


Lemma held_phase s e : Struct s -> (x_st (s_x s e) = XConn \/ x_st (s_x s e) = XWait) ->
  c_phase (s_conn s (x_conn (s_x s e))) = PFlight e.
Proof. intros S H. apply (st_held s S). now apply (st_xok s S e). Qed.

Lemma tags_params s e s' :
  Struct s -> Tags s -> s_seg s = None -> do_params s e = Some s' -> Tags s'.
Proof.
  intros S T Hs H. unfold do_params in H. destruct (x_st (s_x s e)) eqn:Est; try discriminate.
  assert (L : forall c, LinkOK (s_conn s c)) by (intros c; apply (tg_link s T); now apply noseg_in_seg).
  pose proof (held_phase s e S (or_introl Est)) as Hph.
  set (c := x_conn (s_x s e)) in *.
  pose proof (tg_conn s (tg_core s T) c) as [A B C D E]. destruct (A e Hph) as [Ab At].
  assert (K1 : forall cn', c_phase cn' = PFlight e -> c_buf cn' = c_buf (s_conn s c) ->
     Forall (fun p => snd p = TFlight e) (c_htail cn') -> c_pst cn' = PSHead ->
     Core (set_conn (set_exch s e (set_x_st (s_x s e) XWait)) c cn')).
  { intros cn' H1 H2 H3 H4. apply core_set_conn; [apply core_set_exch; [exact (tg_core s T)|reflexivity]|].
    split; cbn; rewrite upd_same; rewrite ?H1, ?H2, ?H4; try (intros; discriminate).
    - intros e' He'. injection He' as <-. now split.
    - exact D. }
  destruct (c_htail (s_conn s c)) as [|p q] eqn:Eh; inv_some.
  - apply tags_noseg; [|exact Hs|].
    + apply K1; cbn; try assumption; try reflexivity. rewrite Eh. constructor.
    + intros c'. cbn. destruct (upd_cases (s_conn s) c (set_c_pupg (set_c_psc (set_c_ptail (set_c_pst (set_c_parser (s_conn s c) true) PSHead) false) false) false) c') as [[-> E']|[_ E']]; rewrite E'; [now apply linkok_head|apply L].
  - split.
    + apply core_set_seg. apply K1; cbn; try assumption; try reflexivity. constructor.
    + intros g Hg. cbn in Hg. injection Hg as <-. split; cbn; rewrite ?upd_same; cbn; rewrite ?Hph;
        try solve [intros; discriminate]; try solve [constructor]; try solve [intros; reflexivity];
        try solve [intros H'; exfalso; now apply H'].
      * intros e' He'. now injection He' as <-.
      * exact At.
      * intros _. now exists e.
    + intros c' Hn. cbn. destruct (upd_cases (s_conn s) c (set_c_htail (set_c_pupg (set_c_psc (set_c_ptail (set_c_pst (set_c_parser (s_conn s c) true) PSHead) false) false) false) []) c') as [[-> E']|[_ E']]; rewrite E'; [now apply linkok_head|apply L].
Qed.

Lemma tags_after_release s0 c arg e :
  Core s0 -> s_seg s0 = None -> (forall c', LinkOK (s_conn s0 c')) ->
  c_phase (s_conn s0 c) = PFlight e ->
  Tags (release_conn cf s0 c arg).
Proof.
  intros K Hs L Hph. apply tags_noseg.
  - apply (core_release cf s0 c arg e K Hph). intros pid rem Hp. apply (L c pid rem Hp). congruence.
  - now rewrite release_seg.
  - intros c'. now apply linkok_release.
Qed.

Lemma tags_after_response_eof s0 e :
  Struct s0 -> Core s0 -> s_seg s0 = None -> (forall c', LinkOK (s_conn s0 c')) ->
  Tags (response_eof cf s0 e).
Proof.
  intros S K Hs L. apply tags_noseg.
  - apply core_response_eof; [exact S|exact K|apply L].
  - now rewrite response_eof_seg.
  - intros c'. now apply linkok_response_eof.
Qed.

Lemma tags_read s e s' :
  Struct s -> Tags s -> s_seg s = None -> do_read cf s e = Some s' -> Tags s'.
Proof.
  intros S T Hs H.
  unfold do_read in H. destruct (x_st (s_x s e)) eqn:Est; try discriminate.
  assert (L : forall c, LinkOK (s_conn s c)) by (intros c; apply (tg_link s T); now apply noseg_in_seg).
  pose proof (held_phase s e S (or_intror Est)) as Hph.
  destruct (st_xok s S e) as [X1 X2].
  set (c := x_conn (s_x s e)) in *.
  pose proof (tg_conn s (tg_core s T) c) as [A B C D E]. destruct (A e Hph) as [Ab At].
  destruct (c_buf (s_conn s c)) as [|m rest] eqn:Eb.
  - destruct (c_exc _ =? 0); [discriminate|]. inv_some.
    apply (tags_after_release _ c true e); try assumption.
    apply core_set_exch; [exact (tg_core s T)|reflexivity].
  - inversion Ab as [|? ? Hm Hrest]; subst. inversion D as [|? ? Dm Drest]; subst.
    set (cn1 := set_c_buf (s_conn s c) rest) in *.
    set (s1 := set_conn s c cn1) in *.
    set (s2 := set_s_log s1 (s_log s1 ++ [{| d_e := e; d_tag := m_tag m; d_id := m_id m; d_head := true |}])) in *.
    set (x3 := set_x_pay (set_x_closed (set_x_st (s_x s e) XHead) false) (m_pay m)) in *.
    set (s3 := set_exch s2 e x3) in *.
    assert (K1 : Core s1).
    { apply core_set_conn; [exact (tg_core s T)|]. split; cbn; rewrite upd_same; cbn; rewrite ?Hph; try (intros; discriminate).
      - intros e' He'. injection He' as <-. now split.
      - exact Drest.
      - intros pid rem Hp. destruct (E pid rem Hp) as (E1 & E2 & E3 & E4). repeat split; try assumption.
        intros e' He'. apply E4. congruence. }
    assert (K2 : Core s2) by (apply core_set_log; [exact K1|exact Hm]).
    assert (K3 : Core s3).
    { destruct K2 as [A2 B2 C2 D2]. split; cbn; try assumption.
      - intros c'. apply (conntags_transfer s2); [reflexivity|now apply pay_stable_same|reflexivity|apply B2].
      - intros e' pid. destruct (upd_cases (s_x s) e x3 e') as [[-> E']|[_ E']]; rewrite E'; [|apply D2].
        cbn. intros Hp. destruct (Dm pid Hp) as [P1 P2]. split; [exact P1|]. rewrite P2. exact Hm. }
    assert (S3 : Struct s3).
    { apply sf_exch; [apply sf_log; now apply sf_conn|reflexivity|reflexivity|].
      split; cbn; intros H'; [destruct H'; discriminate|now left]. }
    assert (L3 : forall c', LinkOK (s_conn s3 c')).
    { intros c'. cbn. destruct (upd_cases (s_conn s) c cn1 c') as [[-> E']|[_ E']]; rewrite E'; [|apply L].
      eapply linkok_same; [| | |apply (L c)]; try reflexivity. tauto. }
    assert (Hs3 : s_seg s3 = None) by exact Hs.
    destruct (m_pay m) as [pid|] eqn:Emp.
    + destruct (p_eof (s_pay s3 pid)) eqn:Eeof; [inv_some; now apply tags_after_response_eof|].
      destruct (p_exc (s_pay s3 pid)); inv_some; [now apply tags_noseg|].
      apply tags_noseg; [|exact Hs3|exact L3].
      apply core_set_payl_soft; [exact K3|reflexivity|reflexivity|reflexivity|reflexivity].
    + inv_some. now apply tags_after_response_eof.
Qed.

Lemma tags_body s e s' :
  Struct s -> Tags s -> s_seg s = None -> do_body cf s e = Some s' -> Tags s'.
Proof.
  intros S T Hs H. unfold do_body in H. destruct (x_st (s_x s e)) eqn:Est; try discriminate.
  assert (L : forall c, LinkOK (s_conn s c)) by (intros c; apply (tg_link s T); now apply noseg_in_seg).
  assert (Hfin : forall s0, Struct s0 -> Core s0 -> s_seg s0 = None -> (forall c, LinkOK (s_conn s0 c)) ->
      Tags (let x' := s_x s0 e in
            let upgraded := x_held x' && c_upg (s_conn s0 (x_conn x')) in
            let s'' := set_exch s0 e (set_x_held (set_x_st x' XDone) (x_held x' && upgraded)) in
            if x_held x' && negb upgraded then release_conn cf s'' (x_conn x') false else s'')).
  { intros s0 S0 K0 Hs0 L0. cbv zeta.
    assert (K1 : forall b, Core (set_exch s0 e (set_x_held (set_x_st (s_x s0 e) XDone) b)))
      by (intros b; now apply core_set_exch).
    destruct (x_held (s_x s0 e) && negb _) eqn:Eh.
    - apply andb_true_iff in Eh as [Hh _].
      apply (tags_after_release _ _ false e); [apply K1|exact Hs0|exact L0|]. cbn. now apply (st_held s0 S0).
    - now apply tags_noseg. }
  destruct (x_pay (s_x s e)) as [pid|] eqn:Exp.
  - destruct (tg_xpay s (tg_core s T) e pid Exp) as [P1 P2].
    destruct (p_exc (s_pay s pid) || _).
    + inv_some.
      assert (K1 : Core (set_exch s e (set_x_held (set_x_closed (set_x_st (s_x s e) XDone) true) false)))
        by (apply core_set_exch; [exact (tg_core s T)|reflexivity]).
      destruct (x_held (s_x s e)) eqn:Hh.
      * apply (tags_after_release _ _ true e); [exact K1|exact Hs|exact L|]. cbn. now apply (st_held s S).
      * now apply tags_noseg.
    + destruct (p_eof (s_pay s pid)); [|discriminate]. inv_some.
      apply (Hfin (set_s_log s (s_log s ++ log_items e (p_items (s_pay s pid))))); try assumption.
      * now apply sf_log.
      * destruct (tg_core s T) as [A B C D]. split; cbn; try assumption.
        -- apply Forall_app. split; [exact A|]. eapply log_items_tagged; [apply C|exact P2].
        -- intros c. apply (conntags_transfer s); [reflexivity|now apply pay_stable_same|reflexivity|apply B].
  - inv_some. exact (Hfin s S (tg_core s T) Hs L).
Qed.

Lemma tags_release s e arg s' :
  Struct s -> Tags s -> s_seg s = None -> do_release cf s e arg = Some s' -> Tags s'.
Proof.
  intros S T Hs H. unfold do_release in H.
  assert (L : forall c, LinkOK (s_conn s c)) by (intros c; apply (tg_link s T); now apply noseg_in_seg).
  assert (Hgo : Tags (let s0 := match x_pay (s_x s e) with
                                | Some pid => set_payl s pid (set_p_cb (set_p_exc (s_pay s pid) true) None)
                                | None => s end in
                      let s1 := set_exch s0 e (set_x_held (set_x_closed (set_x_st (s_x s e) XDone) true) false) in
                      if x_held (s_x s e) then release_conn cf s1 (x_conn (s_x s e)) arg else s1)).
  { cbv zeta.
    match goal with |- context[set_exch ?t e _] => set (s0 := t) end.
    assert (K0 : Core s0).
    { subst s0. destruct (x_pay (s_x s e)); [|exact (tg_core s T)].
      apply core_set_payl_soft; [exact (tg_core s T)|reflexivity|reflexivity|reflexivity|reflexivity]. }
    assert (E0 : s_conn s0 = s_conn s /\ s_x s0 = s_x s /\ s_seg s0 = s_seg s).
    { subst s0. destruct (x_pay (s_x s e)); now repeat split. }
    destruct E0 as (Ec & Ex & Eg).
    assert (K1 : Core (set_exch s0 e (set_x_held (set_x_closed (set_x_st (s_x s e) XDone) true) false))).
    { apply core_set_exch; [exact K0|]. now rewrite Ex. }
    destruct (x_held (s_x s e)) eqn:Hh.
    - apply (tags_after_release _ _ arg e); [exact K1|cbn; congruence| |].
      + intros c'. cbn. rewrite Ec. apply L.
      + cbn. rewrite Ec. now apply (st_held s S).
    - apply tags_noseg; [exact K1|cbn; congruence|]. intros c'. cbn. rewrite Ec. apply L. }
  destruct (x_st (s_x s e)); destruct arg; try discriminate; inv_some; exact Hgo.
Qed.

Lemma tags_segbegin s c s' :
  Struct s -> Tags s -> s_seg s = None -> do_segbegin s c = Some s' -> Tags s'.
Proof.
  intros S T Hs H. unfold do_segbegin in H. destruct ((c <? s_nconn s) && c_conn (s_conn s c)) eqn:Ec; inv_some.
  apply andb_true_iff in Ec as [_ Hc].
  assert (L : forall c, LinkOK (s_conn s c)) by (intros c'; apply (tg_link s T); now apply noseg_in_seg).
  pose proof (tg_conn s (tg_core s T) c) as [A B C D E].
  split.
  - apply core_set_seg. exact (tg_core s T).
  - intros g Hg. cbn in Hg. injection Hg as <-. split; cbn;
      try solve [intros; discriminate]; try solve [constructor]; try solve [intros; reflexivity];
      try solve [intros H'; exfalso; now apply H']; try solve [intros; repeat split; reflexivity].
    + intros e He. now rewrite He.
    + intros pid rem Hp. destruct (c_phase (s_conn s c)) eqn:Hph; cbn.
      * destruct (E pid rem Hp) as (_ & _ & _ & E4). now apply E4.
      * destruct (B eq_refl) as (_ & _ & B3). congruence.
      * rewrite (C eq_refl) in Hc. discriminate.
    + intros pid rem Hp Hcl. apply (L c pid rem Hp Hcl).
  - intros c' _. apply L.
Qed.

Lemma tags_peerclose s c o s' :
  Struct s -> Tags s -> s_seg s = None -> do_peerclose s c o = Some s' -> Tags s'.
Proof.
  intros S T Hs H. unfold do_peerclose in H. destruct ((c <? s_nconn s) && c_conn (s_conn s c)) eqn:Ec; inv_some.
  assert (L : forall c, LinkOK (s_conn s c)) by (intros c'; apply (tg_link s T); now apply noseg_in_seg).
  match goal with |- Tags (set_conn ?t _ ?cn) => set (s1 := t); set (cn2 := cn) end.
  assert (K1 : Core s1).
  { subst s1. destruct (c_parser _); [|exact (tg_core s T)]. destruct (c_pst _); [exact (tg_core s T)|].
    destruct (c_pay _) as [pid'|]; [|exact (tg_core s T)].
    apply core_set_payl_soft; [exact (tg_core s T)|reflexivity|reflexivity|reflexivity|reflexivity]. }
  assert (Ec1 : s_conn s1 = s_conn s).
  { subst s1. destruct (c_parser _); [|reflexivity]. destruct (c_pst _); [reflexivity|]. now destruct (c_pay _). }
  assert (Eg1 : s_seg s1 = s_seg s).
  { subst s1. destruct (c_parser _); [|reflexivity]. destruct (c_pst _); [reflexivity|]. now destruct (c_pay _). }
  pose proof (tg_conn s1 K1 c) as [A B C D E]. rewrite Ec1 in A, B, C, D, E.
  apply tags_noseg.
  - apply core_set_conn; [exact K1|]. subst cn2. split; cbn; rewrite upd_same; cbn;
      destruct (c_exc (s_conn s c) =? 0); cbn; try (intros; discriminate); try assumption; try reflexivity.
    all: try (intros Hi; destruct (B Hi) as (B1 & B2 & B3); repeat split; assumption).
    all: try (intros; reflexivity).
  - cbn. congruence.
  - intros c'. cbn. rewrite Ec1. destruct (upd_cases (s_conn s) c cn2 c') as [[-> E']|[_ E']]; rewrite E'; [|apply L].
    apply linkok_head. subst cn2. now destruct (c_exc (s_conn s c) =? 0).
Qed.
End NoSeg.
