(* C11 — concurrent senders: every trace the lock discipline accepts is sequentially consistent: the transport bytes
   are those of the SEQUENTIAL writer run on the operations in wire order, with the same compressor state. *)
From AV Require Import Lib.Base Lib.Utf8Valid Generated.WsGen Generated.WsCodecGen Model.Ws Model.WsCodec Model.WsSend
  Proofs.WsSeg Proofs.WsRefine Proofs.WsCodecBytes Proofs.WsCodecFrame Proofs.WsCodecRT.
Open Scope N_scope.

Section Inv.
Variable Cc : Type.
Variable cinit : N -> Cc.
Variable comp : bool -> Cc -> bytes -> bytes * Cc.
Variable wc : wcfg.

Notation wstate := (wstate Cc).
Notation do_op := (do_op Cc cinit comp wc).
Notation wrun := (wrun Cc cinit comp wc).
Notation cstate := (cstate Cc).
Notation cstep := (cstep Cc cinit comp wc).
Notation crun := (crun Cc cinit comp wc).

Lemma wout_eta (r : wout Cc) : mkwo (wo_wire r) (wo_sent r) (wo_tags r) (wo_state r) = r.
Proof. destruct r; reflexivity. Qed.

Lemma wrun_app : forall a (st : wstate) b,
  wrun st (a ++ b) =
  mkwo (wo_wire (wrun st a) ++ wo_wire (wrun (wo_state (wrun st a)) b))
       (wo_sent (wrun st a) ++ wo_sent (wrun (wo_state (wrun st a)) b))
       (wo_tags (wrun st a) ++ wo_tags (wrun (wo_state (wrun st a)) b))
       (wo_state (wrun (wo_state (wrun st a)) b)).
Proof.
  induction a as [|o a IH]; intros st b.
  - cbn [app WsCodec.wrun wo_wire wo_sent wo_tags wo_state]. symmetry. apply wout_eta.
  - cbn [app WsCodec.wrun]. destruct (do_op st o) as [st'|w n p st'|] eqn:DO.
    + rewrite IH. cbn [wo_wire wo_sent wo_tags wo_state app]. reflexivity.
    + rewrite IH. cbn [wo_wire wo_sent wo_tags wo_state app]. rewrite <- app_assoc. reflexivity.
    + exfalso. exact (do_op_no_layout Cc cinit comp wc _ _ DO).
Qed.

Lemma wrun_one (st : wstate) o w n p st' : do_op st o = SSent w n p st' ->
  wrun st [o] = mkwo (w ++ []) [(o, n)] [TSent p] st'.
Proof. intro H. cbn [WsCodec.wrun]. rewrite H. reflexivity. Qed.

(* a send_frame never changes _closing *)
Lemma send_keeps_closing (st st' : wstate) o w n p :
  is_send o = true -> do_op st o = SSent w n p st' -> ws_closing st' = ws_closing st.
Proof.
  destruct o as [opcode body override rbits|]; [|discriminate]. intros _. cbn [WsCodec.do_op]. unfold send_frame.
  destruct (ws_closing st && closing_refuses opcode); [discriminate|].
  destruct (send_plain override (w_compress wc) opcode).
  - destruct (write_frame _ _ _ _ _); [|discriminate]. intros [= _ _ _ <-]. reflexivity.
  - destruct (get_compressor Cc cinit wc st override) as [cc sh]. destruct (comp (w_notakeover wc) cc body) as [z cc'].
    destruct (write_frame _ _ _ _ _); [|discriminate]. intros [= _ _ _ <-]. destruct sh; reflexivity.
Qed.

(* an uncompressed send leaves the writer state alone and only looks at _closing *)
Lemma plain_send (st1 st1' st2 : wstate) o w n p :
  is_send o = true -> op_plainb wc o = true -> ws_closing st1 = ws_closing st2 ->
  do_op st1 o = SSent w n p st1' -> st1' = st1 /\ do_op st2 o = SSent w n p st2.
Proof.
  destruct o as [opcode body override rbits|]; [|discriminate]. intros _ PL CL. cbn [op_plainb] in PL.
  cbn [WsCodec.do_op]. unfold send_frame. rewrite PL, <- CL.
  destruct (ws_closing st1 && closing_refuses opcode); [discriminate|].
  destruct (write_frame _ _ _ _ _); [|discriminate]. intros [= <- <- <- <-]. split; reflexivity.
Qed.

Definition cinv (st : cstate) : Prop :=
  let r := wrun (wstate0 Cc) (map fst (c_order st)) in
  wo_sent r = c_order st /\ wo_wire r = c_wire st
  /\ ws_closing (c_w st) = false /\ ws_closing (wo_state r) = false
  /\ match c_lock st with
     | Some (_, HComp o w n) => is_send o = true /\ exists p, do_op (wo_state r) o = SSent w n p (c_w st)
     | _ => wo_state r = c_w st
     end.

Lemma cinv_init : cinv (cinit_state Cc).
Proof. repeat split. Qed.

(* appending one accepted operation to the sequential replay *)
Lemma replay_snoc (ops : list (sop * N)) o w n p st' :
  wo_sent (wrun (wstate0 Cc) (map fst ops)) = ops ->
  do_op (wo_state (wrun (wstate0 Cc) (map fst ops))) o = SSent w n p st' ->
  let r' := wrun (wstate0 Cc) (map fst (ops ++ [(o, n)])) in
  wo_sent r' = ops ++ [(o, n)]
  /\ wo_wire r' = wo_wire (wrun (wstate0 Cc) (map fst ops)) ++ w
  /\ wo_state r' = st'.
Proof.
  intros HS DO. cbv zeta. rewrite map_app. cbn [map fst]. rewrite wrun_app, (wrun_one _ _ _ _ _ _ DO).
  cbn [wo_sent wo_wire wo_state]. rewrite HS, app_nil_r. repeat split.
Qed.

Lemma cstep_inv (st st' : cstate) e : cinv st -> cstep st e = Some st' -> cinv st'.
Proof.
  intros (HS & HW & C1 & C2 & HL) ST. unfold cinv in *. cbv zeta in *.
  destruct e as [t|t o|t|t|o]; cbn [WsSend.cstep] in ST.
  - (* EAcq *)
    destruct (c_lock st) as [[t' h]|] eqn:L; [discriminate|]. injection ST as <-. cbn [c_lock c_w c_wire c_order].
    repeat split; assumption.
  - (* EComp *)
    destruct (c_lock st) as [[t' h]|] eqn:L; [|discriminate]. destruct h as [|o' w' n']; [|discriminate].
    destruct ((t' =? t) && is_send o && negb (op_plainb wc o)) eqn:G; [|discriminate].
    apply andb_true_iff in G as [G _]. apply andb_true_iff in G as [_ IS].
    destruct (do_op (c_w st) o) as [|w n p st2|] eqn:DO; try discriminate. injection ST as <-.
    cbn [c_lock c_w c_wire c_order]. repeat split; try assumption.
    + rewrite (send_keeps_closing _ _ _ _ _ _ IS DO). exact C1.
    + exists p. rewrite HL. exact DO.
  - (* EWrite *)
    destruct (c_lock st) as [[t' h]|] eqn:L; [|discriminate]. destruct h as [|o w n]; [discriminate|].
    destruct (t' =? t); [|discriminate]. injection ST as <-. cbn [c_lock c_w c_wire c_order].
    destruct HL as (IS & p & DO).
    destruct (replay_snoc (c_order st) o w n p (c_w st) HS DO) as (S' & W' & T'). cbv zeta in S', W', T'.
    rewrite S', W', T', HW. repeat split; assumption.
  - (* ERel *)
    destruct (c_lock st) as [[t' h]|] eqn:L; [|discriminate]. destruct h as [|o w n]; [|discriminate].
    destruct (t' =? t); [|discriminate]. injection ST as <-. cbn [c_lock c_w c_wire c_order].
    repeat split; assumption.
  - (* EPlain *)
    destruct (is_send o && op_plainb wc o) eqn:G; [|discriminate]. apply andb_true_iff in G as [IS PL].
    destruct (do_op (c_w st) o) as [|w n p st2|] eqn:DO; try discriminate. injection ST as <-.
    cbn [c_lock c_w c_wire c_order].
    destruct (plain_send (c_w st) st2 (wo_state (wrun (wstate0 Cc) (map fst (c_order st)))) o w n p IS PL
                ltac:(congruence) DO) as (-> & DO2).
    destruct (replay_snoc (c_order st) o w n p _ HS DO2) as (S' & W' & T'). cbv zeta in S', W', T'.
    rewrite S', W', T', HW. repeat split; try assumption.
Qed.

Lemma crun_inv evs : forall (st st' : cstate), cinv st -> crun st evs = Some st' -> cinv st'.
Proof.
  induction evs as [|e evs IH]; intros st st' I R; cbn [WsSend.crun] in R.
  - injection R as <-. exact I.
  - destruct (cstep st e) as [st1|] eqn:E; [|discriminate]. eapply IH; [|exact R]. eapply cstep_inv; eassumption.
Qed.

(* MAIN: whatever the interleaving of senders, executor completions and cancellations, as long as every compress
   happens under the lock and is followed by its write before the lock is released (the events the system accepts),
   the transport carries exactly what the sequential writer produces for the operations in wire order *)
Theorem sequentially_consistent evs (st : cstate) :
  crun (cinit_state Cc) evs = Some st ->
  (forall t o w n, c_lock st <> Some (t, HComp o w n)) ->
  let r := wrun (wstate0 Cc) (map fst (c_order st)) in
  wo_wire r = c_wire st /\ wo_sent r = c_order st /\ wo_state r = c_w st.
Proof.
  intros R NP. destruct (crun_inv evs _ _ cinv_init R) as (HS & HW & _ & _ & HL). cbv zeta in *.
  split; [exact HW|split; [exact HS|]].
  destruct (c_lock st) as [[t h]|]; [|exact HL]. destruct h as [|o w n]; [exact HL|].
  exfalso. exact (NP t o w n eq_refl).
Qed.

End Inv.

(* with the round trip: the peer reads the concurrent senders' messages back, in wire order *)
Theorem concurrent_roundtrip :
  forall (Cc : Type) (cinit : N -> Cc) (comp : bool -> Cc -> bytes -> bytes * Cc)
         (Cx : Type) (decomp : Cx -> bytes -> N -> dres Cx) (Rsync : Cc -> Cx -> Prop),
    (forall ff cc m z cc', comp ff cc m = (z, cc') -> exists z0, z = z0 ++ DEFLATE_TRAILING) ->
    (forall w d, Rsync (cinit w) d) ->
    (forall ff cc d m z cc' cap, Rsync cc d -> comp ff cc m = (z, cc') -> (cap = 0 \/ lenN m < cap) ->
       exists d', decomp d z cap = DOk m d' /\ Rsync cc' d') ->
    (forall cc m z cc' d, comp true cc m = (z, cc') -> Rsync cc' d) ->
    forall (wc : wcfg) (max_msg_size : N) (decode_text : bool) (evs : list cev) (st : cstate Cc)
           (segs : list bytes) (cx0 : Cx),
      let c := peer_cfg wc max_msg_size decode_text in
      crun Cc cinit comp wc (cinit_state Cc) evs = Some st ->
      (forall t o w n, c_lock st <> Some (t, HComp o w n)) ->
      forallb (op_wf c) (map fst (c_order st)) = true ->
      safe_overrides wc (map fst (c_order st)) = true ->
      all_fit c (c_order st) = true ->
      concat segs = c_wire st ->
      exists msgs, expect_all (c_order st) = Some msgs
        /\ fst (feed_all Cx decomp c (Live (init_state Cx cx0)) segs) = msgs
        /\ rd_status (snd (feed_all Cx decomp c (Live (init_state Cx cx0)) segs)) = SPending.
Proof.
  intros Cc cinit comp Cx decomp Rsync L1 L2 L3 L4 wc mx dt evs st segs cx0. cbv zeta. intros R NP WF SO AF CS.
  destruct (sequentially_consistent Cc cinit comp wc evs st R NP) as (HW & HS & _). cbv zeta in HW, HS.
  pose proof (roundtrip_laws Cc cinit comp Cx decomp Rsync L1 L2 L3 L4 wc mx dt (map fst (c_order st)) segs cx0) as RT.
  cbv zeta in RT. rewrite HS, HW in RT. exact (RT WF SO AF CS).
Qed.

(* ---- submission order ------------------------------------------------------------------------------------------ *)
Section Fifo.
Variable Cc : Type.
Variable cinit : N -> Cc.
Variable comp : bool -> Cc -> bytes -> bytes * Cc.
Variable wc : wcfg.

Notation fstate := (fstate Cc).
Notation fstep := (fstep Cc cinit comp wc).
Notation frun := (frun Cc cinit comp wc).
Notation cstep := (cstep Cc cinit comp wc).
Notation comp_ops := (comp_ops wc).
Notation is_comp_op := (is_comp_op wc).

Lemma list_eqb_refl l : list_eqb l l = true.
Proof. apply list_eqb_eq. reflexivity. Qed.

Lemma sop_eqb_eq a b : sop_eqb a b = true -> a = b.
Proof.
  destruct a as [o1 p1 v1 r1|c1 p1 r1], b as [o2 p2 v2 r2|c2 p2 r2]; cbn [sop_eqb]; try discriminate;
    rewrite !andb_true_iff, !N.eqb_eq, list_eqb_eq; intuition congruence.
Qed.

Definition cur_list (o : option sop) : list sop := match o with Some x => [x] | None => [] end.

Definition finv (st : fstate) : Prop :=
  comp_ops (c_order (f_c st)) ++ cur_list (f_cur st) ++ map snd (f_q st) = f_sub st
  /\ (forall t o w n, c_lock (f_c st) = Some (t, HComp o w n) -> f_cur st = Some o)
  /\ (forall o, f_cur st = Some o -> is_comp_op o = true).

Lemma comp_ops_snoc order o n : comp_ops (order ++ [(o, n)]) = comp_ops order ++ (if is_comp_op o then [o] else []).
Proof. unfold WsSend.comp_ops. rewrite map_app, filter_app. cbn [map fst filter]. reflexivity. Qed.

Lemma fstep_inv (st st' : fstate) e :
  finv st -> (forall t o, In (t, o) (f_q st) -> is_comp_op o = true) ->
  fstep st e = Some st' ->
  finv st' /\ (forall t o, In (t, o) (f_q st') -> is_comp_op o = true).
Proof.
  intros (J1 & J2 & J3) JQ ST. unfold finv. destruct e as [t o|e]; cbn [WsSend.fstep] in ST.
  - destruct (is_comp_op o) eqn:CO; [|discriminate]. injection ST as <-. cbn [f_c f_q f_cur f_sub]. split; [split; [|split]|].
    + rewrite map_app, !app_assoc. cbn [map snd]. rewrite <- J1, !app_assoc. reflexivity.
    + exact J2.
    + exact J3.
    + intros t' o' I. apply in_app_or in I as [I|I]; [eapply JQ; exact I|]. destruct I as [I|[]]. injection I as _ <-. exact CO.
  - destruct e as [t|t o|t|t|o].
    + (* EAcq *)
      destruct (f_q st) as [|[t' o] q'] eqn:Q; [discriminate|]. destruct (f_cur st) eqn:CU; [discriminate|].
      destruct (t' =? t); [|discriminate].
      destruct (cstep (f_c st) (EAcq t)) as [c'|] eqn:CS; [|discriminate]. injection ST as <-.
      cbn [WsSend.cstep] in CS. destruct (c_lock (f_c st)); [discriminate|]. injection CS as <-.
      cbn [f_c f_q f_cur f_sub c_order c_lock]. split; [split; [|split]|].
      * rewrite <- J1. cbn [cur_list map snd app]. reflexivity.
      * intros ? ? ? ? X. discriminate X.
      * intros o' [= <-]. eapply JQ. left. reflexivity.
      * intros t2 o2 I. eapply JQ. right. exact I.
    + (* EComp *)
      destruct (f_cur st) as [o'|] eqn:CU; [|discriminate]. destruct (sop_eqb o o') eqn:EQ; [|discriminate].
      apply sop_eqb_eq in EQ. subst o'.
      destruct (cstep (f_c st) (EComp t o)) as [c'|] eqn:CS; [|discriminate]. cbn [with_c] in ST. injection ST as <-.
      cbn [WsSend.cstep] in CS. destruct (c_lock (f_c st)) as [[t' h]|]; [|discriminate]. destruct h; [|discriminate].
      destruct ((t' =? t) && is_send o && negb (op_plainb wc o)); [|discriminate].
      destruct (do_op Cc cinit comp wc (c_w (f_c st)) o); try discriminate. injection CS as <-.
      cbn [f_c f_q f_cur f_sub c_order c_lock]. split; [split; [|split]|].
      * rewrite <- J1; rewrite ?CU; reflexivity.
      * intros ? ? ? ? [= _ <- _ _]. reflexivity.
      * intros o2 [= <-]. apply J3. reflexivity.
      * exact JQ.
    + (* EWrite *)
      destruct (cstep (f_c st) (EWrite t)) as [c'|] eqn:CS; [|discriminate]. cbn [with_c] in ST. injection ST as <-.
      cbn [WsSend.cstep] in CS. destruct (c_lock (f_c st)) as [[t' h]|] eqn:L; [|discriminate]. destruct h as [|o w n]; [discriminate|].
      destruct (t' =? t); [|discriminate]. injection CS as <-.
      pose proof (J2 _ _ _ _ eq_refl) as CU. pose proof (J3 _ CU) as CO.
      cbn [f_c f_q f_cur f_sub c_order c_lock]. split; [split; [|split]|].
      * rewrite comp_ops_snoc, CO, <- J1, CU, <- !app_assoc. reflexivity.
      * intros ? ? ? ? X. discriminate X.
      * intros ? X. discriminate X.
      * exact JQ.
    + (* ERel *)
      destruct (f_cur st) eqn:CU; [discriminate|].
      destruct (cstep (f_c st) (ERel t)) as [c'|] eqn:CS; [|discriminate]. cbn [with_c] in ST. injection ST as <-.
      cbn [WsSend.cstep] in CS. destruct (c_lock (f_c st)) as [[t' h]|]; [|discriminate]. destruct h; [|discriminate].
      destruct (t' =? t); [|discriminate]. injection CS as <-.
      cbn [f_c f_q f_cur f_sub c_order c_lock]. split; [split; [|split]|].
      * rewrite <- J1; rewrite ?CU; reflexivity.
      * intros ? ? ? ? X. discriminate X.
      * intros ? X. discriminate X.
      * exact JQ.
    + (* EPlain *)
      destruct (cstep (f_c st) (EPlain o)) as [c'|] eqn:CS; [|discriminate]. cbn [with_c] in ST. injection ST as <-.
      cbn [WsSend.cstep] in CS. destruct (is_send o && op_plainb wc o) eqn:G; [|discriminate].
      destruct (do_op Cc cinit comp wc (c_w (f_c st)) o); try discriminate. injection CS as <-.
      cbn [f_c f_q f_cur f_sub c_order c_lock].
      assert (NC : is_comp_op o = false).
      { unfold WsSend.is_comp_op. apply andb_true_iff in G as [-> ->]. reflexivity. }
      split; [split; [|split]|].
      * rewrite comp_ops_snoc, NC, app_nil_r. exact J1.
      * exact J2.
      * exact J3.
      * exact JQ.
Qed.

Lemma frun_inv evs : forall (st st' : fstate),
  finv st -> (forall t o, In (t, o) (f_q st) -> is_comp_op o = true) -> frun st evs = Some st' -> finv st'.
Proof.
  induction evs as [|e evs IH]; intros st st' I Q R; cbn [WsSend.frun] in R.
  - injection R as <-. exact I.
  - destruct (fstep st e) as [s1|] eqn:E; [|discriminate].
    destruct (fstep_inv _ _ _ I Q E) as (I1 & Q1). eapply IH; eassumption.
Qed.

(* MAIN: with a fair lock that is requested inside send_frame, the compressed messages reach the wire in the order
   in which send_frame was called *)
Theorem wire_order_is_submission_order evs (st : fstate) :
  frun (finit_state Cc) evs = Some st -> f_q st = [] -> f_cur st = None ->
  comp_ops (c_order (f_c st)) = f_sub st.
Proof.
  intros R Q CU.
  assert (I0 : finv (finit_state Cc)) by (repeat split; intros; discriminate).
  destruct (frun_inv evs _ _ I0 ltac:(intros ? ? []) R) as (J1 & _). rewrite Q, CU in J1. cbn in J1.
  rewrite app_nil_r in J1. exact J1.
Qed.

(* the lock events of an accepted FIFO trace form an accepted trace of the plain system (so sequential consistency applies) *)
Fixpoint proj_evs (evs : list fev) : list cev :=
  match evs with [] => [] | FEnq _ _ :: r => proj_evs r | FEv e :: r => e :: proj_evs r end.

Lemma fstep_cstep (st st' : fstate) e : fstep st (FEv e) = Some st' -> cstep (f_c st) e = Some (f_c st').
Proof.
  destruct e as [t|t o|t|t|o]; cbn [WsSend.fstep].
  - destruct (f_q st) as [|[t' o] q']; [discriminate|]. destruct (f_cur st); [discriminate|].
    destruct (t' =? t); [|discriminate]. destruct (cstep (f_c st) (EAcq t)); [|discriminate]. intros [= <-]. reflexivity.
  - destruct (f_cur st); [|discriminate]. destruct (sop_eqb o s); [|discriminate].
    destruct (cstep (f_c st) (EComp t o)); [|discriminate]. intros [= <-]. reflexivity.
  - destruct (cstep (f_c st) (EWrite t)); [|discriminate]. intros [= <-]. reflexivity.
  - destruct (f_cur st); [discriminate|]. destruct (cstep (f_c st) (ERel t)); [|discriminate]. intros [= <-]. reflexivity.
  - destruct (cstep (f_c st) (EPlain o)); [|discriminate]. intros [= <-]. reflexivity.
Qed.

Lemma frun_crun evs : forall (st st' : fstate),
  frun st evs = Some st' -> crun Cc cinit comp wc (f_c st) (proj_evs evs) = Some (f_c st').
Proof.
  induction evs as [|e evs IH]; intros st st' R; cbn [WsSend.frun] in R.
  - injection R as <-. reflexivity.
  - destruct (fstep st e) as [s1|] eqn:E; [|discriminate]. destruct e as [t o|e]; cbn [proj_evs].
    + cbn [WsSend.fstep] in E. destruct (is_comp_op o); [|discriminate]. injection E as <-. exact (IH _ _ R).
    + cbn [WsSend.crun]. rewrite (fstep_cstep _ _ _ E). exact (IH _ _ R).
Qed.

End Fifo.
