(* C11 — concurrent senders: every trace the lock discipline accepts is sequentially consistent: the transport bytes
   are those of the SEQUENTIAL writer run on the operations in wire order, with the same compressor state. *)
From AV Require Import Lib.Base Lib.Utf8Valid Generated.WsGen Generated.WsCodecGen Model.Ws Model.WsCodec Model.WsSend
  Proofs.WsSeg Proofs.WsRefine Proofs.WsCodecBytes Proofs.WsCodecFrame Proofs.WsCodecRT.
Open Scope N_scope.

Section Inv.
Variable Cc : Type.
Variable cinit : N -> Cc.
Variable comp : bool -> Cc -> bytes -> bytes * Cc.
Variable wc : wcfg.

Notation wstate := (wstate Cc).
Notation do_op := (do_op Cc cinit comp wc).
Notation wrun := (wrun Cc cinit comp wc).
Notation cstate := (cstate Cc).
Notation cstep := (cstep Cc cinit comp wc).
Notation crun := (crun Cc cinit comp wc).

Lemma wout_eta (r : wout Cc) : mkwo (wo_wire r) (wo_sent r) (wo_tags r) (wo_state r) = r.
Proof. destruct r; reflexivity. Qed.

Lemma wrun_app : forall a (st : wstate) b,
  wrun st (a ++ b) =
  mkwo (wo_wire (wrun st a) ++ wo_wire (wrun (wo_state (wrun st a)) b))
       (wo_sent (wrun st a) ++ wo_sent (wrun (wo_state (wrun st a)) b))
       (wo_tags (wrun st a) ++ wo_tags (wrun (wo_state (wrun st a)) b))
       (wo_state (wrun (wo_state (wrun st a)) b)).
Proof.
  induction a as [|o a IH]; intros st b.
  - cbn [app WsCodec.wrun wo_wire wo_sent wo_tags wo_state]. symmetry. apply wout_eta.
  - cbn [app WsCodec.wrun]. destruct (do_op st o) as [st'|w n p st'|] eqn:DO.
    + rewrite IH. cbn [wo_wire wo_sent wo_tags wo_state app]. reflexivity.
    + rewrite IH. cbn [wo_wire wo_sent wo_tags wo_state app]. rewrite <- app_assoc. reflexivity.
    + exfalso. exact (do_op_no_layout Cc cinit comp wc _ _ DO).
Qed.

Lemma wrun_one (st : wstate) o w n p st' : do_op st o = SSent w n p st' ->
  wrun st [o] = mkwo (w ++ []) [(o, n)] [TSent p] st'.
Proof. intro H. cbn [WsCodec.wrun]. rewrite H. reflexivity. Qed.

(* a send_frame never changes _closing *)
Lemma send_keeps_closing (st st' : wstate) o w n p :
  is_send o = true -> do_op st o = SSent w n p st' -> ws_closing st' = ws_closing st.
Proof.
  destruct o as [opcode body override rbits|]; [|discriminate]. intros _. cbn [WsCodec.do_op]. unfold send_frame.
  destruct (ws_closing st && closing_refuses opcode); [discriminate|].
  destruct (send_plain override (w_compress wc) opcode).
  - destruct (write_frame _ _ _ _ _); [|discriminate]. intros [= _ _ _ <-]. reflexivity.
  - destruct (get_compressor Cc cinit wc st override) as [cc sh]. destruct (comp (w_notakeover wc) cc body) as [z cc'].
    destruct (write_frame _ _ _ _ _); [|discriminate]. intros [= _ _ _ <-]. destruct sh; reflexivity.
Qed.

(* an uncompressed send leaves the writer state alone and only looks at _closing *)
Lemma plain_send (st1 st1' st2 : wstate) o w n p :
  is_send o = true -> op_plainb wc o = true -> ws_closing st1 = ws_closing st2 ->
  do_op st1 o = SSent w n p st1' -> st1' = st1 /\ do_op st2 o = SSent w n p st2.
Proof.
  destruct o as [opcode body override rbits|]; [|discriminate]. intros _ PL CL. cbn [op_plainb] in PL.
  cbn [WsCodec.do_op]. unfold send_frame. rewrite PL, <- CL.
  destruct (ws_closing st1 && closing_refuses opcode); [discriminate|].
  destruct (write_frame _ _ _ _ _); [|discriminate]. intros [= <- <- <- <-]. split; reflexivity.
Qed.

Definition cinv (st : cstate) : Prop :=
  let r := wrun (wstate0 Cc) (map fst (c_order st)) in
  wo_sent r = c_order st /\ wo_wire r = c_wire st
  /\ ws_closing (c_w st) = false /\ ws_closing (wo_state r) = false
  /\ match c_lock st with
     | Some (_, HComp o w n) => is_send o = true /\ exists p, do_op (wo_state r) o = SSent w n p (c_w st)
     | _ => wo_state r = c_w st
     end.

Lemma cinv_init : cinv (cinit_state Cc).
Proof. repeat split. Qed.

(* appending one accepted operation to the sequential replay *)
Lemma replay_snoc (ops : list (sop * N)) o w n p st' :
  wo_sent (wrun (wstate0 Cc) (map fst ops)) = ops ->
  do_op (wo_state (wrun (wstate0 Cc) (map fst ops))) o = SSent w n p st' ->
  let r' := wrun (wstate0 Cc) (map fst (ops ++ [(o, n)])) in
  wo_sent r' = ops ++ [(o, n)]
  /\ wo_wire r' = wo_wire (wrun (wstate0 Cc) (map fst ops)) ++ w
  /\ wo_state r' = st'.
Proof.
  intros HS DO. cbv zeta. rewrite map_app. cbn [map fst]. rewrite wrun_app, (wrun_one _ _ _ _ _ _ DO).
  cbn [wo_sent wo_wire wo_state]. rewrite HS, app_nil_r. repeat split.
Qed.

Lemma cstep_inv (st st' : cstate) e : cinv st -> cstep st e = Some st' -> cinv st'.
Proof.
  intros (HS & HW & C1 & C2 & HL) ST. unfold cinv in *. cbv zeta in *.
  destruct e as [t|t o|t|t|o]; cbn [WsSend.cstep] in ST.
  - (* EAcq *)
    destruct (c_lock st) as [[t' h]|] eqn:L; [discriminate|]. injection ST as <-. cbn [c_lock c_w c_wire c_order].
    repeat split; assumption.
  - (* EComp *)
    destruct (c_lock st) as [[t' h]|] eqn:L; [|discriminate]. destruct h as [|o' w' n']; [|discriminate].
    destruct ((t' =? t) && is_send o && negb (op_plainb wc o)) eqn:G; [|discriminate].
    apply andb_true_iff in G as [G _]. apply andb_true_iff in G as [_ IS].
    destruct (do_op (c_w st) o) as [|w n p st2|] eqn:DO; try discriminate. injection ST as <-.
    cbn [c_lock c_w c_wire c_order]. repeat split; try assumption.
    + rewrite (send_keeps_closing _ _ _ _ _ _ IS DO). exact C1.
    + exists p. rewrite HL. exact DO.
  - (* EWrite *)
    destruct (c_lock st) as [[t' h]|] eqn:L; [|discriminate]. destruct h as [|o w n]; [discriminate|].
    destruct (t' =? t); [|discriminate]. injection ST as <-. cbn [c_lock c_w c_wire c_order].
    destruct HL as (IS & p & DO).
    destruct (replay_snoc (c_order st) o w n p (c_w st) HS DO) as (S' & W' & T'). cbv zeta in S', W', T'.
    rewrite S', W', T', HW. repeat split; assumption.
  - (* ERel *)
    destruct (c_lock st) as [[t' h]|] eqn:L; [|discriminate]. destruct h as [|o w n]; [|discriminate].
    destruct (t' =? t); [|discriminate]. injection ST as <-. cbn [c_lock c_w c_wire c_order].
    repeat split; assumption.
  - (* EPlain *)
    destruct (is_send o && op_plainb wc o) eqn:G; [|discriminate]. apply andb_true_iff in G as [IS PL].
    destruct (do_op (c_w st) o) as [|w n p st2|] eqn:DO; try discriminate. injection ST as <-.
    cbn [c_lock c_w c_wire c_order].
    destruct (plain_send (c_w st) st2 (wo_state (wrun (wstate0 Cc) (map fst (c_order st)))) o w n p IS PL
                ltac:(congruence) DO) as (-> & DO2).
    destruct (replay_snoc (c_order st) o w n p _ HS DO2) as (S' & W' & T'). cbv zeta in S', W', T'.
    rewrite S', W', T', HW. repeat split; try assumption.
Qed.

Lemma crun_inv evs : forall (st st' : cstate), cinv st -> crun st evs = Some st' -> cinv st'.
Proof.
  induction evs as [|e evs IH]; intros st st' I R; cbn [WsSend.crun] in R.
  - injection R as <-. exact I.
  - destruct (cstep st e) as [st1|] eqn:E; [|discriminate]. eapply IH; [|exact R]. eapply cstep_inv; eassumption.
Qed.

(* MAIN: whatever the interleaving of senders, executor completions and cancellations, as long as every compress
   happens under the lock and is followed by its write before the lock is released (the events the system accepts),
   the transport carries exactly what the sequential writer produces for the operations in wire order *)
Theorem sequentially_consistent evs (st : cstate) :
  crun (cinit_state Cc) evs = Some st ->
  (forall t o w n, c_lock st <> Some (t, HComp o w n)) ->
  let r := wrun (wstate0 Cc) (map fst (c_order st)) in
  wo_wire r = c_wire st /\ wo_sent r = c_order st /\ wo_state r = c_w st.
Proof.
  intros R NP. destruct (crun_inv evs _ _ cinv_init R) as (HS & HW & _ & _ & HL). cbv zeta in *.
  split; [exact HW|split; [exact HS|]].
  destruct (c_lock st) as [[t h]|]; [|exact HL]. destruct h as [|o w n]; [exact HL|].
  exfalso. exact (NP t o w n eq_refl).
Qed.

End Inv.

(* with the round trip: the peer reads the concurrent senders' messages back, in wire order *)
Theorem concurrent_roundtrip :
  forall (Cc : Type) (cinit : N -> Cc) (comp : bool -> Cc -> bytes -> bytes * Cc)
         (Cx : Type) (decomp : Cx -> bytes -> N -> dres Cx) (Rsync : Cc -> Cx -> Prop),
    (forall ff cc m z cc', comp ff cc m = (z, cc') -> exists z0, z = z0 ++ DEFLATE_TRAILING) ->
    (forall w d, Rsync (cinit w) d) ->
    (forall ff cc d m z cc' cap, Rsync cc d -> comp ff cc m = (z, cc') -> (cap = 0 \/ lenN m < cap) ->
       exists d', decomp d z cap = DOk m d' /\ Rsync cc' d') ->
    (forall cc m z cc' d, comp true cc m = (z, cc') -> Rsync cc' d) ->
    forall (wc : wcfg) (max_msg_size : N) (decode_text : bool) (evs : list cev) (st : cstate Cc)
           (segs : list bytes) (cx0 : Cx),
      let c := peer_cfg wc max_msg_size decode_text in
      crun Cc cinit comp wc (cinit_state Cc) evs = Some st ->
      (forall t o w n, c_lock st <> Some (t, HComp o w n)) ->
      forallb (op_wf c) (map fst (c_order st)) = true ->
      safe_overrides wc (map fst (c_order st)) = true ->
      all_fit c (c_order st) = true ->
      concat segs = c_wire st ->
      exists msgs, expect_all (c_order st) = Some msgs
        /\ fst (feed_all Cx decomp c (Live (init_state Cx cx0)) segs) = msgs
        /\ rd_status (snd (feed_all Cx decomp c (Live (init_state Cx cx0)) segs)) = SPending.
Proof.
  intros Cc cinit comp Cx decomp Rsync L1 L2 L3 L4 wc mx dt evs st segs cx0. cbv zeta. intros R NP WF SO AF CS.
  destruct (sequentially_consistent Cc cinit comp wc evs st R NP) as (HW & HS & _). cbv zeta in HW, HS.
  pose proof (roundtrip_laws Cc cinit comp Cx decomp Rsync L1 L2 L3 L4 wc mx dt (map fst (c_order st)) segs cx0) as RT.
  cbv zeta in RT. rewrite HS, HW in RT. exact (RT WF SO AF CS).
Qed.
