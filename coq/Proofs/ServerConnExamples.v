(* Witnesses by computation: examples (non-vacuity) and the refutations of the full statements. *)
From Coq Require Import List NArith Bool Sorted.
From AV Require Import Lib.Base Generated.ServerGen Model.ServerConn Proofs.ServerConnInv Proofs.ServerConnOrder.
Import ListNotations.
Open Scope N_scope.

Definition cfg0 : cfg := {| c_keepalive := 75; c_linger := 10 |}.
Definition heads (n : nat) : list item := repeat (IHead false false) n.

(* the handler starts a streamed response and then RETURNS a different, fresh response *)
Definition refute_es1 : list ev := [EData [IHead false false]; EStart; EDone (ORet true 200)].
Definition refute_es2 : list ev := [EData [IHead false false]; EStart].

Lemma order_once_refuted :
  exists c s, Reach c s /\ closed s = false /\ pc s = PWait /\
              all_done (removelast (wire s)) = false /\ rids (wire s) = [0; 0].
Proof.
  destruct (run cfg0 init refute_es1) as [s|] eqn:E; [|vm_compute in E; discriminate].
  exists cfg0, s. split; [eapply run_reach; [apply reach_init|exact E]|].
  vm_compute in E. inversion E; subst; clear E. vm_compute. repeat split; reflexivity.
Qed.

Lemma answered_or_closed_refuted :
  exists c s s', Reach c s /\ pc s = PHandler (QMsg {| m_id := 0; m_close := false; m_body := false |}) true /\
                 step c s (EDone (ORet true 200)) = Some s' /\ closed s' = false /\
                 out s' = out s ++ [{| r_id := Some 0; r_status := 200; r_done := false |};
                                    {| r_id := Some 0; r_status := 200; r_done := true |}].
Proof.
  destruct (run cfg0 init refute_es2) as [s|] eqn:E; [|vm_compute in E; discriminate].
  destruct (step cfg0 s (EDone (ORet true 200))) as [s'|] eqn:E2;
    [|vm_compute in E; inversion E; subst; vm_compute in E2; discriminate].
  exists cfg0, s, s'. split; [eapply run_reach; [apply reach_init|exact E]|].
  vm_compute in E. inversion E; subst; clear E. split; [reflexivity|]. split; [exact E2|].
  vm_compute in E2. inversion E2; subst; clear E2. vm_compute. repeat split; reflexivity.
Qed.

(* the two repaired endings now close the connection instead: HTTPException after the response was started, and a
   returned response whose prepare() had failed *)
Lemma example_repaired :
  exists s1 s2,
    run cfg0 init [EData [IHead false false]; EStart; EDone (OHttp 404)] = Some s1 /\
    run cfg0 init [EData [IHead false false]; EDone OSwallow] = Some s2 /\
    closed s1 = true /\ List.map r_done (out s1) = [false] /\ closed s2 = true /\ out s2 = [].
Proof. eexists. eexists. split; [vm_compute; reflexivity|]. split; [vm_compute; reflexivity|]. vm_compute. repeat split; reflexivity. Qed.

Lemma example_pipeline :
  exists s, run cfg0 init [EData (heads 40)] = Some s /\
            nmsgs (q s) = 31 /\ p_infl (ps s) = 31 /\ paused s = true /\ lenN (p_tail (ps s)) = 8 /\ pc s <> PWait.
Proof. eexists. split; [vm_compute; reflexivity|]. vm_compute. repeat split; try reflexivity; discriminate. Qed.

Lemma example_bound_attained :
  exists s, run cfg0 init [EData (heads 1); EData [IBad false]; EData (heads 15); EDone (ORet true 200); EData (heads 40)] = Some s /\
            nmsgs (q s) = 33 /\ pc s = PHandler QErr false.
Proof. eexists. split; [vm_compute; reflexivity|]. vm_compute. split; reflexivity. Qed.

Lemma example_400 :
  exists s, run cfg0 init [EData (heads 2); EDone (ORet true 200); EData [IBad false]; EDone (ORet true 200);
                           EDone (OHttp 400)] = Some s /\
            closed s = true /\ List.map r_status (out s) = [200; 200; 400].
Proof. eexists. split; [vm_compute; reflexivity|]. vm_compute. split; reflexivity. Qed.

Definition benign_es : list ev := [EData (heads 4); EDone (ORet true 200); EStart; EDone OStreamed; EDone (OHttp 404); EStart; EDone (OHttp 403)].

Lemma example_benign :
  exists s, runb cfg0 init [EData (heads 4); EDone (ORet true 200); EStart; EDone OStreamed; EDone (OHttp 404); EStart; EDone (OHttp 403)] = Some s /\
            ReachB cfg0 s /\ closed s = true /\
            List.map (fun r => (r_id r, r_status r, r_done r)) (wire s) = [(Some 0, 200, true); (Some 1, 200, true); (Some 2, 404, true); (Some 3, 200, false)].
Proof.
  change [EData (heads 4); EDone (ORet true 200); EStart; EDone OStreamed; EDone (OHttp 404); EStart; EDone (OHttp 403)] with benign_es.
  destruct (runb cfg0 init benign_es) as [s|] eqn:E; [|vm_compute in E; discriminate].
  exists s. split; [reflexivity|]. split; [eapply runb_reachb; [apply reachb_init|exact E]|].
  vm_compute in E. inversion E; subst; clear E. vm_compute. split; reflexivity.
Qed.
