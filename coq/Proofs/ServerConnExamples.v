(* Witnesses by computation: examples (non-vacuity) and the refutations of the full statements. *)
From Coq Require Import List NArith Bool Sorted.
From AV Require Import Lib.Base Generated.ServerGen Model.ServerConn Proofs.ServerConnInv Proofs.ServerConnOrder.
Import ListNotations.
Open Scope N_scope.

Definition cfg0 : cfg := {| c_keepalive := 75; c_linger := 10 |}.
Definition heads (n : nat) : list item := repeat (IHead false false) n.

(* the three repaired endings close the connection: HTTPException after the response was started (ff054f9), a returned
   response whose prepare() had failed (ba690df), a fresh response returned after another one was started (2a9b996) *)
Lemma example_repaired :
  exists s1 s2 s3,
    run cfg0 init [EData [IHead false false]; EStart; EDone (OHttp 404)] = Some s1 /\
    run cfg0 init [EData [IHead false false]; EDone OSwallow] = Some s2 /\
    run cfg0 init [EData [IHead false false]; EStart; EDone (ORet true 200)] = Some s3 /\
    closed s1 = true /\ List.map r_done (out s1) = [false] /\ closed s2 = true /\ out s2 = [] /\
    closed s3 = true /\ List.map r_done (out s3) = [false].
Proof.
  eexists. eexists. eexists. split; [vm_compute; reflexivity|]. split; [vm_compute; reflexivity|]. split; [vm_compute; reflexivity|].
  vm_compute. repeat split; reflexivity.
Qed.

Lemma example_pipeline :
  exists s, run cfg0 init [EData (heads 40)] = Some s /\
            nmsgs (q s) = 31 /\ p_infl (ps s) = 31 /\ paused s = true /\ lenN (p_tail (ps s)) = 8 /\ pc s <> PWait.
Proof. eexists. split; [vm_compute; reflexivity|]. vm_compute. repeat split; try reflexivity; discriminate. Qed.

Lemma example_bound_attained :
  exists s, run cfg0 init [EData (heads 1); EData [IBad false]; EData (heads 15); EDone (ORet true 200); EData (heads 40)] = Some s /\
            nmsgs (q s) = 33 /\ pc s = PHandler QErr false.
Proof. eexists. split; [vm_compute; reflexivity|]. vm_compute. split; reflexivity. Qed.

Lemma example_400 :
  exists s, run cfg0 init [EData (heads 2); EDone (ORet true 200); EData [IBad false]; EDone (ORet true 200);
                           EDone (OHttp 400)] = Some s /\
            closed s = true /\ List.map r_status (out s) = [200; 200; 400].
Proof. eexists. split; [vm_compute; reflexivity|]. vm_compute. split; reflexivity. Qed.

Definition mixed_es : list ev := [EData (heads 4); EDone (ORet true 200); EStart; EDone OStreamed; EDone (OHttp 404); EStart; EDone (OHttp 403)].

Lemma example_mixed :
  exists s, run cfg0 init mixed_es = Some s /\
            Reach cfg0 s /\ closed s = true /\
            List.map (fun r => (r_id r, r_status r, r_done r)) (wire s) = [(Some 0, 200, true); (Some 1, 200, true); (Some 2, 404, true); (Some 3, 200, false)].
Proof.
  destruct (run cfg0 init mixed_es) as [s|] eqn:E; [|vm_compute in E; discriminate].
  exists s. split; [reflexivity|]. split; [eapply run_reach; [apply reach_init|exact E]|].
  vm_compute in E. inversion E; subst; clear E. vm_compute. split; reflexivity.
Qed.
