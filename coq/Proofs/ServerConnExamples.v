(* Witnesses by computation: examples (non-vacuity) and the refutations of the full statements. *)
From Coq Require Import List NArith Bool Sorted.
From AV Require Import Lib.Base Generated.ServerGen Model.ServerConn Proofs.ServerConnInv Proofs.ServerConnOrder.
Import ListNotations.
Open Scope N_scope.

Definition cfg0 : cfg := {| c_keepalive := 75; c_linger := 10 |}.
Definition heads (n : nat) : list item := repeat (IHead false false) n.

Lemma order_once_refuted :
  exists c s, Reach c s /\ closed s = false /\ pc s = PWait /\
              all_done (removelast (wire s)) = false /\ rids (wire s) = [0; 0].
Proof.
  exists cfg0. eexists. split; [eapply run_reach; [apply reach_init|]|].
  - instantiate (1 := ltac:(let r := eval vm_compute in (run cfg0 init [EData [IHead false false]; EStart; EDone (OHttp 404)]) in
                            match r with Some ?x => exact x end)). vm_compute. reflexivity.
  - vm_compute. repeat split; reflexivity.
Qed.

Lemma answered_or_closed_refuted :
  exists c s s', Reach c s /\ pc s = PHandler (QMsg {| m_id := 0; m_close := false; m_body := false |}) false /\
                 step c s (EDone OSwallow) = Some s' /\ closed s' = false /\ out s' = [] /\ pc s' = PWait.
Proof.
  exists cfg0. eexists. eexists. split; [eapply run_reach; [apply reach_init|]|].
  - instantiate (1 := ltac:(let r := eval vm_compute in (run cfg0 init [EData [IHead false false]]) in
                            match r with Some ?x => exact x end)). vm_compute. reflexivity.
  - split; [vm_compute; reflexivity|]. split; [vm_compute; reflexivity|]. vm_compute. repeat split; reflexivity.
Qed.

Lemma example_pipeline :
  exists s, run cfg0 init [EData (heads 40)] = Some s /\
            nmsgs (q s) = 31 /\ p_infl (ps s) = 31 /\ paused s = true /\ lenN (p_tail (ps s)) = 8 /\ pc s <> PWait.
Proof. eexists. split; [vm_compute; reflexivity|]. vm_compute. repeat split; try reflexivity; discriminate. Qed.

Lemma example_bound_attained :
  exists s, run cfg0 init [EData (heads 1); EData [IBad false]; EData (heads 15); EDone (ORet true 200); EData (heads 40)] = Some s /\
            nmsgs (q s) = 33 /\ pc s = PHandler QErr false.
Proof. eexists. split; [vm_compute; reflexivity|]. vm_compute. split; reflexivity. Qed.

Lemma example_400 :
  exists s, run cfg0 init [EData (heads 2); EDone (ORet true 200); EData [IBad false]; EDone (ORet true 200);
                           EDone (OHttp 400)] = Some s /\
            closed s = true /\ List.map r_status (out s) = [200; 200; 400].
Proof. eexists. split; [vm_compute; reflexivity|]. vm_compute. split; reflexivity. Qed.

Lemma example_benign :
  exists s, runb cfg0 init [EData (heads 4); EDone (ORet true 200); EStart; EDone OStreamed; EDone (OHttp 404); EStart; EDone OExc] = Some s /\
            ReachB cfg0 s /\ closed s = true /\
            List.map (fun r => (r_id r, r_status r, r_done r)) (wire s) = [(Some 0, 200, true); (Some 1, 200, true); (Some 2, 404, true); (Some 3, 200, false)].
Proof.
  eexists. split; [vm_compute; reflexivity|]. split; [|vm_compute; split; reflexivity].
  eapply runb_reachb; [apply reachb_init|vm_compute; reflexivity].
Qed.

