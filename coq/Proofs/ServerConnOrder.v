(* Order / at-most-once / no-interleaving for the server-connection model, and the two refutations. *)
From Coq Require Import List NArith Bool Lia ZifyBool ZifyN Sorted.
From AV Require Import Lib.Base Generated.ServerGen Model.ServerConn Proofs.ServerConnInv.
Import ListNotations.
Open Scope N_scope.
Ltac Zify.zify_post_hook ::= Z.to_euclidean_division_equations.

(* ---- strictly increasing lists within [lo, hi) ------------------------------------------------ *)
Fixpoint inc (lo : N) (l : list N) (hi : N) : Prop :=
  match l with [] => lo <= hi | x :: r => lo <= x /\ inc (x + 1) r hi end.

Lemma inc_bounds l : forall lo hi, inc lo l hi -> lo <= hi.
Proof. induction l as [|x l IH]; cbn [inc]; intros lo hi H; [exact H|]. destruct H as [H1 H2]. apply IH in H2. lia. Qed.

Lemma inc_weaken l : forall lo lo' hi hi', lo' <= lo -> hi <= hi' -> inc lo l hi -> inc lo' l hi'.
Proof.
  induction l as [|x l IH]; cbn [inc]; intros lo lo' hi hi' H1 H2 H; [lia|].
  destruct H as [Ha Hb]. split; [lia|]. eapply IH; [| |exact Hb]; lia.
Qed.

Lemma inc_app a : forall lo b hi, inc lo (a ++ b) hi <-> exists mid, inc lo a mid /\ inc mid b hi.
Proof.
  induction a as [|x a IH]; intros lo b hi; cbn [app inc].
  - split.
    + intro H. exists lo. split; [lia|exact H].
    + intros (mid & H1 & H2). eapply inc_weaken; [| |exact H2]; lia.
  - rewrite IH. split.
    + intros (H1 & mid & H2 & H3). exists mid. auto.
    + intros (mid & (H1 & H2) & H3). split; [exact H1|]. exists mid. auto.
Qed.

Inductive subseq : list N -> list N -> Prop :=
  | sub_nil : subseq [] []
  | sub_skip x a b : subseq a b -> subseq a (x :: b)
  | sub_keep x a b : subseq a b -> subseq (x :: a) (x :: b).

Lemma subseq_refl l : subseq l l.
Proof. induction l; [apply sub_nil|apply sub_keep; assumption]. Qed.
Lemma subseq_nil l : subseq [] l.
Proof. induction l; [apply sub_nil|apply sub_skip; assumption]. Qed.
Lemma subseq_app a a' b b' : subseq a a' -> subseq b b' -> subseq (a ++ b) (a' ++ b').
Proof.
  induction 1; intros Hb; cbn [app].
  - exact Hb.
  - apply sub_skip. auto.
  - apply sub_keep. auto.
Qed.
Lemma subseq_trans a b : subseq a b -> forall c, subseq b c -> subseq a c.
Proof.
  intros H c Hc. revert a H. induction Hc; intros a0 H.
  - exact H.
  - apply sub_skip. auto.
  - inversion H; subst; [apply sub_skip|apply sub_keep]; auto.
Qed.
Lemma subseq_app_l a b : subseq b (a ++ b).
Proof. induction a; cbn [app]; [apply subseq_refl|apply sub_skip; exact IHa]. Qed.
Lemma subseq_app_r a b : subseq a (a ++ b).
Proof. rewrite <- (app_nil_r a) at 1. apply subseq_app; [apply subseq_refl|apply subseq_nil]. Qed.

Lemma inc_subseq a b : subseq a b -> forall lo hi, inc lo b hi -> inc lo a hi.
Proof.
  induction 1 as [|x a b Hs IH|x a b Hs IH]; intros lo hi Hi; cbn [inc] in *.
  - exact Hi.
  - destruct Hi as [H1 H2]. apply IH in H2. eapply inc_weaken; [| |exact H2]; lia.
  - destruct Hi as [H1 H2]. split; auto.
Qed.

Lemma inc_sorted l : forall lo hi, inc lo l hi -> StronglySorted N.lt l /\ Forall (fun x => lo <= x /\ x < hi) l.
Proof.
  induction l as [|x l IH]; intros lo hi H; cbn [inc] in H.
  - split; constructor.
  - destruct H as [H1 H2]. destruct (IH _ _ H2) as [S F]. pose proof (inc_bounds _ _ _ H2) as Hb. split.
    + constructor; [exact S|]. eapply Forall_impl; [|exact F]. intros y [Hy _]. lia.
    + constructor; [lia|]. eapply Forall_impl; [|exact F]. intros y [Hy Hy']. lia.
Qed.

(* ---- identifiers in a state ------------------------------------------------------------------- *)
Definition rid (r : resp) : list N := match r_id r with Some i => [i] | None => [] end.
Definition qid (c : qitem) : list N := match c with QMsg m => [m_id m] | QErr => [] end.
Definition tid (t : titem) : list N := match t with THead m => [m_id m] | _ => [] end.
Definition rids (l : list resp) : list N := flat_map rid l.
Definition qids (l : list qitem) : list N := flat_map qid l.
Definition tids (l : list titem) : list N := flat_map tid l.
Definition cur_ids (p : pcs) : list N := match p with PHandler c _ => qid c | _ => [] end.

Definition rest_ids (s : st) : list N := qids (q s) ++ tids (p_tail (ps s)).
Definition allids (s : st) : list N := rids (out s) ++ cur_ids (pc s) ++ rest_ids s.

Lemma rids_app a b : rids (a ++ b) = rids a ++ rids b. Proof. apply flat_map_app. Qed.
Lemma qids_app a b : qids (a ++ b) = qids a ++ qids b. Proof. apply flat_map_app. Qed.
Lemma tids_app a b : tids (a ++ b) = tids a ++ tids b. Proof. apply flat_map_app. Qed.

Lemma qids_rev_cons m acc : qids (rev (QMsg m :: acc)) = qids (rev acc) ++ [m_id m].
Proof. cbn [rev]. rewrite qids_app. cbn. reflexivity. Qed.

(* tagging numbers the new heads upwards from nseen *)
Lemma tag_inc its : forall n tits n', tag n its = (tits, n') -> inc n (tids tits) n'.
Proof.
  induction its as [|[c b| |k] its IH]; intros n tits n' H; cbn [tag] in H.
  - inversion H; subst. cbn. lia.
  - destruct (tag (n + 1) its) as [l n1] eqn:E. inversion H; subst; clear H.
    cbn. split; [lia|]. apply IH. exact E.
  - destruct (tag n its) as [l n1] eqn:E. inversion H; subst; clear H. cbn. apply IH. exact E.
  - destruct (tag n its) as [l n1] eqn:E. inversion H; subst; clear H. cbn. apply IH. exact E.
Qed.

(* one feed_data call only moves heads from the front of the tail to the queue, or drops them *)
Lemma ploop_ids : forall its infl b acc r p',
  ploop its infl b acc = (r, p') ->
  match r with
  | POk l => subseq (qids l ++ tids (p_tail p')) (qids (rev acc) ++ tids its)
  | PErr => subseq (tids (p_tail p')) (tids its)
  end.
Proof.
  induction its as [|it its IH]; intros infl b acc r p' H; cbn [ploop] in H.
  - inversion H; subst. cbn. apply subseq_refl.
  - destruct b as [|bid|bid].
    + destruct (parser_queue_full infl maxq).
      * inversion H; subst. cbn [p_tail]. apply subseq_refl.
      * destruct it as [m| |k].
        -- apply IH in H. destruct r.
           ++ rewrite qids_rev_cons, <- app_assoc in H. exact H.
           ++ cbn. constructor. exact H.
        -- apply IH in H. exact H.
        -- inversion H; subst. cbn [p_tail]. destruct k; [apply subseq_refl|apply subseq_nil].
    + destruct it as [m| |k].
      * apply IH in H. destruct r; cbn [tids flat_map tid app]; [|constructor; exact H].
        eapply subseq_trans; [exact H|]. apply subseq_app; [apply subseq_refl|]. constructor. apply subseq_refl.
      * apply IH in H. exact H.
      * inversion H; subst. cbn [p_tail]. apply subseq_nil.
    + destruct it as [m| |k].
      * apply IH in H. destruct r; cbn [tids flat_map tid app]; [|constructor; exact H].
        eapply subseq_trans; [exact H|]. apply subseq_app; [apply subseq_refl|]. constructor. apply subseq_refl.
      * apply IH in H. exact H.
      * inversion H; subst. cbn [p_tail]. apply subseq_nil.
Qed.

(* ---- frame facts of the helper functions ------------------------------------------------------- *)
Record Same (s s' : st) : Prop := {   (* fields no helper of the start() loop touches *)
  same_out : out s' = out s;
  same_nseen : nseen s' = nseen s
}.
Lemma Same_refl s : Same s s. Proof. split; reflexivity. Qed.
Lemma Same_trans a b c : Same a b -> Same b c -> Same a c.
Proof. intros [H1 H2] [H3 H4]. split; congruence. Qed.

Lemma feed_ids s new s' w : feed s new = (s', w) ->
  Same s s' /\ pc s' = pc s /\ subseq (rest_ids s') (qids (q s) ++ tids (p_tail (ps s) ++ new)).
Proof.
  unfold feed. destruct (ploop (p_tail (ps s) ++ new) (p_infl (ps s)) (p_body (ps s)) []) as [r p'] eqn:E.
  intro H. inversion H; subst; clear H. apply ploop_ids in E.
  split; [split; reflexivity|]. split; [reflexivity|].
  unfold rest_ids. cbn [q ps set_paused set_ps set_q]. destruct r as [l|].
  - cbn [rev qids flat_map app] in E. rewrite qids_app, <- app_assoc. apply subseq_app; [apply subseq_refl|exact E].
  - rewrite qids_app. cbn [qids flat_map qid app]. rewrite app_nil_r. apply subseq_app; [apply subseq_refl|exact E].
Qed.

Lemma resume_q_ids s : Same s (resume_q s) /\ pc (resume_q s) = pc s /\ subseq (rest_ids (resume_q s)) (rest_ids s).
Proof.
  unfold resume_q.
  assert (H : exists s1, (if forcef s then s else fst (feed s [])) = s1 /\ Same s s1 /\ pc s1 = pc s /\ subseq (rest_ids s1) (rest_ids s)).
  { destruct (forcef s).
    - exists s. repeat split; try reflexivity. apply subseq_refl.
    - destruct (feed s []) as [s1 w] eqn:E. exists s1. cbn [fst]. apply feed_ids in E. rewrite app_nil_r in E.
      destruct E as (E1 & E2 & E3). repeat split; try apply E1; assumption. }
  destruct H as (s1 & -> & H1 & H2 & H3).
  destruct (proto_stays_paused (lenN (q s1)) maxq).
  - auto.
  - split; [destruct H1; split; assumption|]. split; [exact H2|exact H3].
Qed.

Lemma exit_loop_ids s : Same s (exit_loop s) /\ cur_ids (pc (exit_loop s)) = [] /\ rest_ids (exit_loop s) = rest_ids s.
Proof. unfold exit_loop. destruct (forcef s); repeat split; reflexivity. Qed.

Lemma loop_top_ids s : Same s (loop_top s) /\ subseq (cur_ids (pc (loop_top s)) ++ rest_ids (loop_top s)) (rest_ids s).
Proof.
  unfold loop_top. destruct (forcef s).
  - destruct (exit_loop_ids s) as (H1 & H2 & H3). split; [exact H1|]. rewrite H2, H3. apply subseq_refl.
  - destruct (q s) as [|it q'] eqn:Q.
    + split; [split; reflexivity|]. unfold rest_ids. cbn. rewrite Q. apply subseq_refl.
    + set (s1 := set_ps (set_q s q') _).
      assert (H : exists s2, (if paused s1 && proto_resume_mark (lenN q') resume_mark then resume_q s1 else s1) = s2 /\
                             Same s1 s2 /\ subseq (rest_ids s2) (rest_ids s1)).
      { destruct (paused s1 && proto_resume_mark (lenN q') resume_mark).
        - exists (resume_q s1). destruct (resume_q_ids s1) as (H1 & H2 & H3). auto.
        - exists s1. split; [reflexivity|]. split; [apply Same_refl|apply subseq_refl]. }
      destruct H as (s2 & -> & [H1 H1'] & H2).
      split; [split; cbn; assumption|].
      cbn [pc set_pc cur_ids]. unfold rest_ids at 1. cbn [q ps set_pc].
      change (qids (q s2) ++ tids (p_tail (ps s2))) with (rest_ids s2).
      unfold rest_ids at 2. rewrite Q. cbn [qids flat_map]. rewrite <- app_assoc.
      apply subseq_app; [apply subseq_refl|]. exact H2.
Qed.

Lemma after_req_ids c s f : Same s (after_req c s f) /\
  subseq (cur_ids (pc (after_req c s f)) ++ rest_ids (after_req c s f)) (rest_ids s).
Proof.
  unfold after_req. destruct (ka s && negb f && negb (forcef s)).
  - destruct (loop_top_ids (arm_ka c s)) as ([H1 H1'] & H2). split; [split; [rewrite H1|rewrite H1']; reflexivity|exact H2].
  - destruct (exit_loop_ids s) as (H1 & H2 & H3). split; [exact H1|]. rewrite H2, H3. apply subseq_refl.
Qed.

Lemma payload_check_ids c s cur : Same s (payload_check c s cur) /\
  subseq (cur_ids (pc (payload_check c s cur)) ++ rest_ids (payload_check c s cur)) (rest_ids s).
Proof.
  unfold payload_check. destruct cur as [m|]; [|apply after_req_ids].
  destruct (incomplete s m); [|apply after_req_ids].
  destruct (forcef s); [apply after_req_ids|].
  destruct (failed s m).
  - destruct (exit_loop_ids (do_close s)) as ([H1 H1'] & H2 & H3). split; [split; assumption|]. rewrite H2, H3. apply subseq_refl.
  - destruct (0 <? c_linger c); [|apply after_req_ids].
    split; [split; reflexivity|]. apply subseq_refl.
Qed.

(* ---- the order invariant --------------------------------------------------------------------------- *)
Definition WInv (s : st) : Prop := inc 0 (allids s) (nseen s).

Lemma allids_of s : allids s = rids (out s) ++ cur_ids (pc s) ++ rest_ids s. Proof. reflexivity. Qed.

(* a response for cur is pushed, then a helper h runs *)
Lemma push_then s cur sd r t :
  pc s = PHandler cur sd -> rid r = qid cur ->
  Same (push s r) t -> subseq (cur_ids (pc t) ++ rest_ids t) (rest_ids s) ->
  subseq (allids t) (allids s) /\ nseen t = nseen s.
Proof.
  intros P Hr [So Sn] Hs. split; [|exact Sn].
  rewrite !allids_of, So, P. cbn [out push set_out cur_ids]. rewrite rids_app. cbn [rids flat_map]. rewrite app_nil_r, Hr, <- app_assoc.
  apply subseq_app; [apply subseq_refl|]. apply subseq_app; [apply subseq_refl|exact Hs].
Qed.

Lemma nopush_then s cur sd t :
  pc s = PHandler cur sd -> Same s t -> subseq (cur_ids (pc t) ++ rest_ids t) (rest_ids s) ->
  subseq (allids t) (allids s) /\ nseen t = nseen s.
Proof.
  intros P [So Sn] Hs. split; [|exact Sn]. rewrite !allids_of, So, P.
  apply subseq_app; [apply subseq_refl|]. eapply subseq_trans; [exact Hs|]. apply subseq_app_l.
Qed.

Lemma rid_partial cur : rid (partial_of cur) = qid cur.
Proof. destruct cur; reflexivity. Qed.
Lemma rid_mk cur st d : rid {| r_id := id_of cur; r_status := st; r_done := d |} = qid cur.
Proof. destruct cur; reflexivity. Qed.

Lemma exit_loop_sub t : Same t (exit_loop t) /\ subseq (cur_ids (pc (exit_loop t)) ++ rest_ids (exit_loop t)) (rest_ids t).
Proof. destruct (exit_loop_ids t) as (H1 & H2 & H3). split; [exact H1|]. rewrite H2, H3. apply subseq_refl. Qed.

Lemma Same_rest_frame s t : out t = out s -> nseen t = nseen s -> Same s t.
Proof. intros; split; assumption. Qed.

Lemma finish_fresh_ids c s cur sd status k :
  pc s = PHandler cur sd -> sd = false ->
  subseq (allids (finish_fresh c s cur sd status k)) (allids s) /\ nseen (finish_fresh c s cur sd status k) = nseen s.
Proof.
  intros P ->. unfold finish_fresh. destruct (closed s).
  - destruct (exit_loop_sub s) as [H1 H2]. eapply nopush_then; eassumption.
  - set (r := {| r_id := id_of cur; r_status := status; r_done := true |}).
    set (t0 := set_ka (push s r) _).
    destruct (payload_check_ids c t0 cur) as [H1 H2].
    eapply (push_then s cur false r); [exact P|apply rid_mk| |].
    + destruct H1 as [Ho Hn]. split; [rewrite Ho|rewrite Hn]; reflexivity.
    + exact H2.
Qed.

Lemma on_done_ids c s cur sd o :
  pc s = PHandler cur sd ->
  subseq (allids (on_done c s cur sd o)) (allids s) /\ nseen (on_done c s cur sd o) = nseen s.
Proof.
  intros P.
  assert (EP : sd = true -> subseq (allids (exit_loop (push s (partial_of cur)))) (allids s) /\
                            nseen (exit_loop (push s (partial_of cur))) = nseen s).
  { intros ->. destruct (exit_loop_sub (push s (partial_of cur))) as [H1 H2].
    eapply (push_then s cur true (partial_of cur)); [exact P|apply rid_partial|exact H1|exact H2]. }
  assert (EC : subseq (allids (exit_loop (do_close (if sd then push s (partial_of cur) else s)))) (allids s) /\
               nseen (exit_loop (do_close (if sd then push s (partial_of cur) else s))) = nseen s).
  { destruct sd.
    - destruct (exit_loop_sub (do_close (push s (partial_of cur)))) as [[Ho Hn] H2].
      eapply (push_then s cur true (partial_of cur)); [exact P|apply rid_partial| |exact H2].
      split; [rewrite Ho|rewrite Hn]; reflexivity.
    - destruct (exit_loop_sub (do_close s)) as [[Ho Hn] H2].
      eapply nopush_then; [exact P| |exact H2]. split; [rewrite Ho|rewrite Hn]; reflexivity. }
  unfold on_done. destruct o as [keep status| |status| | | | ].
  - destruct sd; [apply EP; reflexivity|apply finish_fresh_ids; [exact P|reflexivity]].
  - destruct sd.
    + destruct (closed s); [apply EP; reflexivity|].
      set (r := {| r_id := id_of cur; r_status := 200; r_done := true |}).
      destruct (payload_check_ids c (set_ka (push s r) (negb (close_of cur))) cur) as [[Ho Hn] H2].
      eapply (push_then s cur true r); [exact P|apply rid_mk| |exact H2].
      split; [rewrite Ho|rewrite Hn]; reflexivity.
    + apply finish_fresh_ids; [exact P|reflexivity].
  - destruct sd; [apply EP; reflexivity|apply finish_fresh_ids; [exact P|reflexivity]].
  - destruct sd; [apply EP; reflexivity|apply finish_fresh_ids; [exact P|reflexivity]].
  - destruct sd; [apply EP; reflexivity|apply finish_fresh_ids; [exact P|reflexivity]].
  - exact EC.
  - exact EC.
Qed.

Lemma deliver_ids s tits : Same s (deliver s tits) /\
  subseq (allids (deliver s tits)) (allids s ++ tids tits).
Proof.
  unfold deliver. destruct (feed s tits) as [s1 w] eqn:E. apply feed_ids in E. destruct E as ([Ho Hn] & P & Hs).
  assert (B : subseq (allids s1) (allids s ++ tids tits)).
  { rewrite !allids_of, Ho, P, <- !app_assoc. apply subseq_app; [apply subseq_refl|]. apply subseq_app; [apply subseq_refl|].
    unfold rest_ids at 2. rewrite <- app_assoc, <- tids_app. exact Hs. }
  destruct (pc s1) eqn:P1; try (split; [split; assumption|exact B]).
  destruct w; [|split; [split; assumption|exact B]].
  destruct (loop_top_ids s1) as ([Ho' Hn'] & H2). split; [split; congruence|].
  eapply subseq_trans; [|exact B]. rewrite !allids_of, Ho', P1. cbn [cur_ids app].
  apply subseq_app; [apply subseq_refl|exact H2].
Qed.

Lemma drop_cur s t : Same s t -> rest_ids t = rest_ids s -> cur_ids (pc t) = [] -> subseq (allids t) (allids s).
Proof.
  intros [Ho Hn] Hr Hc. rewrite !allids_of, Ho, Hr, Hc. apply subseq_app; [apply subseq_refl|]. apply subseq_app_l.
Qed.

Theorem step_W c s e s' : WInv s -> step c s e = Some s' -> WInv s'.
Proof.
  unfold WInv. intros W H. destruct e as [its| |o| | |dt|]; cbn [step] in H.
  - destruct (closed s || paused s); [discriminate|].
    destruct (tag (nseen s) its) as [tits n'] eqn:T. inversion H; subst; clear H.
    apply tag_inc in T.
    destruct (deliver_ids (set_nseen s n') tits) as ([Ho Hn] & Hs). rewrite Hn. cbn [nseen set_nseen].
    eapply inc_subseq; [exact Hs|]. apply inc_app. exists (nseen s). split; [exact W|exact T].
  - destruct (pc s) as [|cur [|]| |] eqn:P; try discriminate.
    destruct (closed s); [discriminate|]. inversion H; subst; clear H.
    rewrite allids_of in *. cbn [out pc set_pc nseen cur_ids]. rewrite P in W. exact W.
  - destruct (pc s) as [|cur sd| |] eqn:P; try discriminate. inversion H; subst; clear H.
    destruct (on_done_ids c s cur sd o P) as [H1 H2]. rewrite H2. eapply inc_subseq; eassumption.
  - inversion H; subst; clear H. destruct (closed s); [exact W|].
    destruct (deliver_ids s []) as ([Ho Hn] & Hs). rewrite Hn. cbn [tids flat_map] in Hs. rewrite app_nil_r in Hs.
    eapply inc_subseq; eassumption.
  - inversion H; subst; clear H. destruct (pc s) as [| |m until|] eqn:P; try exact W.
    assert (A : inc 0 (allids (after_req c s false)) (nseen (after_req c s false))).
    { destruct (after_req_ids c s false) as ([Ho Hn] & Hs). rewrite Hn. eapply inc_subseq; [|exact W].
      rewrite !allids_of, Ho, P. cbn [cur_ids app]. apply subseq_app; [apply subseq_refl|exact Hs]. }
    destruct (incomplete s m); [|exact A]. destruct (forcef s); [exact W|]. destruct (failed s m); [|exact W].
    destruct (exit_loop_ids (do_close s)) as ([Ho Hn] & Hc & Hr). rewrite Hn. cbn [nseen do_close].
    eapply inc_subseq; [|exact W]. apply drop_cur; [split; assumption|exact Hr|exact Hc].
  - inversion H; subst; clear H.
    assert (K : forall t, inc 0 (allids t) (nseen t) -> inc 0 (allids (fire_ka t)) (nseen (fire_ka t))).
    { intros t Wt. unfold fire_ka. destruct (ka_h t); [|exact Wt]. destruct (n <=? now t); [|exact Wt].
      set (t1 := set_timer t (ka_close t) None). change (inc 0 (allids t1) (nseen t1)) in Wt.
      destruct (forcef t1 || negb (ka t1)); [exact Wt|]. destruct (now t1 <? ka_close t1); [exact Wt|].
      destruct (pc t1) eqn:P1; try exact Wt.
      eapply inc_subseq; [|exact Wt]. apply drop_cur; [split; reflexivity|reflexivity|reflexivity]. }
    assert (L : forall t, inc 0 (allids t) (nseen t) -> inc 0 (allids (fire_linger c t)) (nseen (fire_linger c t))).
    { intros t Wt. unfold fire_linger. destruct (pc t) eqn:P1; try exact Wt. destruct (until <=? now t); [|exact Wt].
      destruct (after_req_ids c t (incomplete t cur && negb (forcef t))) as ([Ho Hn] & Hs). rewrite Hn.
      eapply inc_subseq; [|exact Wt]. rewrite !allids_of, Ho, P1. cbn [cur_ids app].
      apply subseq_app; [apply subseq_refl|exact Hs]. }
    apply L, K. exact W.
  - destruct (closed s); [discriminate|]. inversion H; subst; clear H. cbn [pc do_close].
    destruct (pc s) eqn:P.
    + eapply inc_subseq; [|exact W]. apply drop_cur; [split; reflexivity|reflexivity|reflexivity].
    + rewrite allids_of in *. cbn [out pc do_close nseen]. rewrite P in *. exact W.
    + rewrite allids_of in *. cbn [out pc do_close nseen]. rewrite P in *. exact W.
    + rewrite allids_of in *. cbn [out pc do_close nseen]. rewrite P in *. exact W.
Qed.

Lemma init_W : WInv init. Proof. unfold WInv. cbn. lia. Qed.

Theorem reach_W c s : Reach c s -> WInv s.
Proof. induction 1; [apply init_W|eapply step_W; eassumption]. Qed.

(* ---- completeness flags: only the last response may be cut short, and only when the loop has ended ---------- *)
Definition all_done (l : list resp) : bool := forallb r_done l.

Definition DInv (s : st) : Prop := all_done (removelast (out s)) = true /\ (pc s = PExit \/ all_done (out s) = true).

Lemma all_done_app a b : all_done (a ++ b) = all_done a && all_done b.
Proof. apply forallb_app. Qed.
Lemma removelast_snoc {A} (l : list A) x : removelast (l ++ [x]) = l.
Proof. apply removelast_last. Qed.

Lemma exit_loop_out s : out (exit_loop s) = out s /\ pc (exit_loop s) = PExit.
Proof. unfold exit_loop. destruct (forcef s); split; reflexivity. Qed.

Lemma DInv_exit_push s r : all_done (out s) = true -> forall t, out t = out s ++ [r] -> pc t = PExit -> DInv t.
Proof. intros H t Ho Hp. split; [rewrite Ho, removelast_snoc; exact H|left; exact Hp]. Qed.

Lemma DInv_same s t : Same s t -> all_done (out s) = true -> DInv t.
Proof.
  intros [Ho _] H. split; [|right; rewrite Ho; exact H]. rewrite Ho.
  destruct (out s) as [|x l] using rev_ind; [reflexivity|]. rewrite removelast_snoc. rewrite all_done_app in H.
  apply andb_true_iff in H. apply H.
Qed.

Lemma DInv_push_done s r t : all_done (out s) = true -> r_done r = true -> Same (push s r) t -> DInv t.
Proof.
  intros H Hr St. eapply DInv_same; [exact St|]. cbn [out push set_out]. rewrite all_done_app, H. cbn. rewrite Hr. reflexivity.
Qed.

Lemma DInv_frame s t : out t = out s -> (pc s = PExit -> pc t = PExit) -> DInv s -> DInv t.
Proof. intros Ho Hp [D1 D2]. split; rewrite Ho; [exact D1|]. destruct D2; [left; auto|right; assumption]. Qed.

Lemma on_done_D c s cur sd o : pc s = PHandler cur sd -> DInv s -> DInv (on_done c s cur sd o).
Proof.
  intros P [D1 D2]. assert (A : all_done (out s) = true) by (destruct D2 as [D2|D2]; [congruence|exact D2]).
  assert (FF : forall status k, sd = false -> DInv (finish_fresh c s cur sd status k)).
  { intros status k ->. unfold finish_fresh. destruct (closed s).
    - eapply DInv_same; [apply exit_loop_ids|exact A].
    - set (r := {| r_id := id_of cur; r_status := status; r_done := true |}).
      destruct (payload_check_ids c (set_ka (push s r) (k && negb (close_of cur))) cur) as [[Ho Hn] _].
      eapply (DInv_push_done s r); [exact A|reflexivity|]. split; [rewrite Ho|rewrite Hn]; reflexivity. }
  assert (EP : forall t, out t = out s ++ [partial_of cur] -> DInv (exit_loop t)).
  { intros t Ht. destruct (exit_loop_out t) as [E1 E2]. eapply DInv_exit_push; [exact A|rewrite E1; exact Ht|exact E2]. }
  assert (EC : DInv (exit_loop (do_close (if sd then push s (partial_of cur) else s)))).
  { destruct sd; [apply EP; reflexivity|].
    eapply DInv_same; [|exact A]. destruct (exit_loop_ids (do_close s)) as ([Ho Hn] & _). split; assumption. }
  unfold on_done. destruct o as [keep status| |status| | | | ].
  - destruct sd; [apply EP; reflexivity|apply FF; reflexivity].
  - destruct sd; [|apply FF; reflexivity]. destruct (closed s); [apply EP; reflexivity|].
    set (r := {| r_id := id_of cur; r_status := 200; r_done := true |}).
    destruct (payload_check_ids c (set_ka (push s r) (negb (close_of cur))) cur) as [[Ho Hn] _].
    eapply (DInv_push_done s r); [exact A|reflexivity|]. split; [rewrite Ho|rewrite Hn]; reflexivity.
  - destruct sd; [apply EP; reflexivity|apply FF; reflexivity].
  - destruct sd; [apply EP; reflexivity|apply FF; reflexivity].
  - destruct sd; [apply EP; reflexivity|apply FF; reflexivity].
  - exact EC.
  - exact EC.
Qed.

Lemma deliver_pc_exit s tits : pc s = PExit -> pc (deliver s tits) = PExit.
Proof.
  intro P. unfold deliver. destruct (feed s tits) as [s1 w] eqn:E. apply feed_ids in E. destruct E as (_ & P1 & _).
  rewrite P in P1. rewrite P1. exact P1.
Qed.

Theorem step_D c s e s' : DInv s -> step c s e = Some s' -> DInv s'.
Proof.
  intros D H. destruct e as [its| |o| | |dt|]; cbn [step] in H.
  - destruct (closed s || paused s); [discriminate|].
    destruct (tag (nseen s) its) as [tits n'] eqn:T. inversion H; subst; clear H.
    destruct (deliver_ids (set_nseen s n') tits) as ([Ho Hn] & _).
    eapply DInv_frame; [exact Ho| |exact D]. intro Px. apply deliver_pc_exit. exact Px.
  - destruct (pc s) as [|cur [|]| |] eqn:P; try discriminate.
    destruct (closed s); [discriminate|]. inversion H; subst; clear H.
    eapply (DInv_frame s); [reflexivity| |exact D]. congruence.
  - destruct (pc s) as [|cur sd| |] eqn:P; try discriminate. inversion H; subst; clear H. apply on_done_D; assumption.
  - inversion H; subst; clear H. destruct (closed s); [exact D|].
    destruct (deliver_ids s []) as ([Ho Hn] & _).
    eapply DInv_frame; [exact Ho| |exact D]. intro Px. apply deliver_pc_exit. exact Px.
  - inversion H; subst; clear H. destruct (pc s) as [| |m until|] eqn:P; try exact D.
    assert (A : all_done (out s) = true) by (destruct D as [_ [D2|D2]]; [congruence|exact D2]).
    assert (AR : DInv (after_req c s false)) by (eapply DInv_same; [apply after_req_ids|exact A]).
    destruct (incomplete s m); [|exact AR]. destruct (forcef s); [exact D|]. destruct (failed s m); [|exact D].
    eapply DInv_same; [|exact A]. destruct (exit_loop_ids (do_close s)) as ([Ho Hn] & _). split; assumption.
  - inversion H; subst; clear H.
    assert (K : forall t, DInv t -> DInv (fire_ka t)).
    { intros t Dt. unfold fire_ka. destruct (ka_h t); [|exact Dt]. destruct (n <=? now t); [|exact Dt].
      set (t1 := set_timer t (ka_close t) None).
      assert (D1 : DInv t1) by (eapply (DInv_frame t); [| |exact Dt]; [reflexivity|auto]).
      destruct (forcef t1 || negb (ka t1)); [exact D1|]. destruct (now t1 <? ka_close t1).
      - eapply (DInv_frame t1); [| |exact D1]; [reflexivity|auto].
      - destruct (pc t1) eqn:P1; try exact D1. eapply (DInv_frame t1); [| |exact D1]; [reflexivity|reflexivity]. }
    assert (L : forall t, DInv t -> DInv (fire_linger c t)).
    { intros t Dt. unfold fire_linger. destruct (pc t) eqn:P1; try exact Dt. destruct (until <=? now t); [|exact Dt].
      assert (A : all_done (out t) = true) by (destruct Dt as [_ [D2|D2]]; [congruence|exact D2]).
      eapply DInv_same; [apply after_req_ids|exact A]. }
    apply L, K. eapply (DInv_frame s); [| |exact D]; [reflexivity|auto].
  - destruct (closed s); [discriminate|]. inversion H; subst; clear H. cbn [pc do_close].
    destruct (pc s) eqn:P; (eapply (DInv_frame s); [| |exact D]; [reflexivity|cbn; congruence]).
Qed.

Lemma init_D : DInv init. Proof. split; [reflexivity|right; reflexivity]. Qed.
Theorem reach_D c s : Reach c s -> DInv s.
Proof. induction 1; [apply init_D|eapply step_D; eassumption]. Qed.

(* ---- the property-level statement over what is on the wire ------------------------------------------- *)
Theorem order_once c s : Reach c s ->
  StronglySorted N.lt (rids (wire s)) /\
  all_done (removelast (wire s)) = true /\
  (all_done (wire s) = false -> closed s = true \/ exists cur, pc s = PHandler cur true).
Proof.
  intro R. pose proof (reach_W _ _ R) as W. destruct (reach_D _ _ R) as [D1 D2].
  destruct (reach_inv _ _ R) as [_ _ _ X].
  unfold WInv in W. rewrite allids_of in W. unfold wire.
  destruct (pc s) as [|cur [|]| |] eqn:P.
  - rewrite app_nil_r. split; [|split; [exact D1|]].
    + apply inc_app in W. destruct W as (mid & W1 & _). apply (inc_sorted _ _ _ W1).
    + intro F. destruct D2 as [D2|D2]; congruence.
  - assert (A : all_done (out s) = true) by (destruct D2 as [D2|D2]; [congruence|exact D2]).
    split; [|split].
    + rewrite rids_app. cbn [rids flat_map]. rewrite app_nil_r, rid_partial.
      cbn [cur_ids] in W. rewrite app_assoc in W. apply inc_app in W. destruct W as (mid & W1 & _). apply (inc_sorted _ _ _ W1).
    + rewrite removelast_snoc. exact A.
    + intros _. right. exists cur. reflexivity.
  - rewrite app_nil_r. split; [|split; [exact D1|]].
    + apply inc_app in W. destruct W as (mid & W1 & _). apply (inc_sorted _ _ _ W1).
    + intro F. destruct D2 as [D2|D2]; congruence.
  - rewrite app_nil_r. split; [|split; [exact D1|]].
    + apply inc_app in W. destruct W as (mid & W1 & _). apply (inc_sorted _ _ _ W1).
    + intro F. destruct D2 as [D2|D2]; congruence.
  - rewrite app_nil_r. split; [|split; [exact D1|]].
    + apply inc_app in W. destruct W as (mid & W1 & _). apply (inc_sorted _ _ _ W1).
    + intro F. left. apply X. reflexivity.
Qed.

(* every handler ending either closes the connection or appends exactly one complete response for that request *)
Theorem answered_or_closed c s cur sd o s' :
  pc s = PHandler cur sd -> step c s (EDone o) = Some s' -> forcef s = closed s ->
  closed s' = true \/ exists status, out s' = out s ++ [{| r_id := id_of cur; r_status := status; r_done := true |}].
Proof.
  intros P H Fl. cbn [step] in H. rewrite P in H. inversion H; subst; clear H.
  assert (EX : forall t, forcef t = closed t -> closed (exit_loop t) = true).
  { intros t Ht. unfold exit_loop. destruct (forcef t) eqn:F; cbn; congruence. }
  assert (FF : forall status k, sd = false ->
     closed (finish_fresh c s cur sd status k) = true \/
     exists st0, out (finish_fresh c s cur sd status k) = out s ++ [{| r_id := id_of cur; r_status := st0; r_done := true |}]).
  { intros status k ->. unfold finish_fresh. destruct (closed s) eqn:Cs; [left; apply EX; congruence|].
    right. exists status. destruct (payload_check_ids c (set_ka (push s {| r_id := id_of cur; r_status := status; r_done := true |}) (k && negb (close_of cur))) cur) as [[Ho _] _].
    rewrite Ho. reflexivity. }
  unfold on_done. destruct o as [keep status| |status| | | | ].
  - destruct sd; [left; apply EX; cbn; congruence|apply FF; reflexivity].
  - destruct sd; [|apply FF; reflexivity]. destruct (closed s) eqn:Cs; [left; apply EX; cbn; congruence|].
    right. exists 200. destruct (payload_check_ids c (set_ka (push s {| r_id := id_of cur; r_status := 200; r_done := true |}) (negb (close_of cur))) cur) as [[Ho _] _].
    rewrite Ho. reflexivity.
  - destruct sd; [left; apply EX; cbn; congruence|apply FF; reflexivity].
  - destruct sd; [left; apply EX; cbn; congruence|apply FF; reflexivity].
  - destruct sd; [left; apply EX; cbn; congruence|apply FF; reflexivity].
  - left. apply EX. destruct sd; reflexivity.
  - left. apply EX. destruct sd; reflexivity.
Qed.

Theorem answered_or_closed_reach c s cur sd o s' :
  Reach c s -> pc s = PHandler cur sd -> step c s (EDone o) = Some s' ->
  closed s' = true \/ exists status, out s' = out s ++ [{| r_id := id_of cur; r_status := status; r_done := true |}].
Proof.
  intros R P H. destruct (never_orphaned _ _ R) as (_ & _ & F). eapply answered_or_closed; eassumption.
Qed.

