(* C11 — the toy paired codec satisfies the pairing laws assumed of deflate (so the round-trip theorem is not
   vacuous and holds of the runnable model), and the two refutation witnesses for per-message overrides. *)
From AV Require Import Lib.Base Lib.Utf8Valid Generated.WsGen Generated.WsCodecGen Model.Ws Model.WsCodec
  Proofs.WsSeg Proofs.WsRefine Proofs.WsCodecBytes Proofs.WsCodecFrame Proofs.WsCodecRT.
Open Scope N_scope.

Definition toy_sync (cc : toyc) (d : toyd) : Prop := tc_key cc = None \/ tc_key cc = Some d.

Lemma toy_trailer ff cc m z cc' : toy_comp ff cc m = (z, cc') -> exists z0, z = z0 ++ DEFLATE_TRAILING.
Proof. unfold toy_comp. intros [= <- _]. eexists; reflexivity. Qed.

Lemma toy_fresh w d : toy_sync (toy_cinit w) d.
Proof. left. reflexivity. Qed.

Lemma map_lxor_twice k m : map (N.lxor k) (map (N.lxor k) m) = m.
Proof.
  induction m as [|x m IH]; cbn [map]; [reflexivity|]. rewrite IH. f_equal.
  rewrite <- N.lxor_assoc, N.lxor_nilpotent, N.lxor_0_l. reflexivity.
Qed.

Lemma toy_step ff cc d m z cc' cap :
  toy_sync cc d -> toy_comp ff cc m = (z, cc') -> (cap = 0 \/ lenN m < cap) ->
  exists d', toy_decomp2 d z cap = DOk m d' /\ toy_sync cc' d'.
Proof.
  intros S C _. unfold toy_comp in C. destruct cc as [key w]. cbn [tc_key tc_wbits] in *.
  destruct key as [k|].
  - destruct S as [S|S]; [discriminate S|]. cbn [tc_key] in S. injection S as ->.
    injection C as <- <-. exists (mix d m). cbn [app]. unfold toy_decomp2.
    rewrite strip_suffix_app, map_lxor_twice. split; [reflexivity|].
    unfold toy_sync. cbn [tc_key]. destruct ff; [left; reflexivity|].
    destruct (lenN m <=? 2 ^ w); [right|left]; reflexivity.
  - injection C as <- <-. exists (mix 0 m). cbn [app]. unfold toy_decomp2.
    rewrite strip_suffix_app. split; [reflexivity|].
    unfold toy_sync. cbn [tc_key]. destruct ff; [left; reflexivity|].
    destruct (lenN m <=? 2 ^ w); [right|left]; reflexivity.
Qed.

Lemma toy_full cc m z cc' d : toy_comp true cc m = (z, cc') -> toy_sync cc' d.
Proof. unfold toy_comp. intros [= _ <-]. left. reflexivity. Qed.

(* the theorem, instantiated: holds of the model that is extracted and run against the implementation *)
Theorem roundtrip_toy wc mx dt ops segs :
  let c := peer_cfg wc mx dt in
  let r := toy_wrun wc (wstate0 toyc) ops in
  forallb (op_wf c) ops = true ->
  safe_overrides wc ops = true ->
  all_fit c (wo_sent r) = true ->
  concat segs = wo_wire r ->
  exists msgs, expect_all (wo_sent r) = Some msgs
    /\ fst (toy_feed_all c toy_reader0 segs) = msgs
    /\ rd_status (snd (toy_feed_all c toy_reader0 segs)) = SPending.
Proof.
  cbv zeta. intros WF SO AF CS.
  exact (roundtrip_laws toyc toy_cinit toy_comp toyd toy_decomp2 toy_sync toy_trailer toy_fresh toy_step toy_full
           wc mx dt ops segs toyd0 WF SO AF CS).
Qed.

(* ---- per-message override ------------------------------------------------------------------------------------ *)
(* negotiated window 15 with context takeover; "aa" shared, "bb" with compress=12, "cc" shared: regression for the
   repaired defect (the shared compressor used to keep its history across the override and "cc" arrived as 05 05) *)
Definition desync_cfg : wcfg := mkw false 15 false.
Definition desync_ops : list sop := [Send OP_BINARY [97; 97] 0 0; Send OP_BINARY [98; 98] 12 0; Send OP_BINARY [99; 99] 0 0].

Lemma desync_regression :
  let c := peer_cfg desync_cfg 0 false in
  let r := toy_wrun desync_cfg (wstate0 toyc) desync_ops in
  forallb (op_wf c) desync_ops = true /\ safe_overrides desync_cfg desync_ops = true /\ all_fit c (wo_sent r) = true
  /\ toy_feed_all c toy_reader0 [wo_wire r] = ([MBinary [97; 97]; MBinary [98; 98]; MBinary [99; 99]], snd (toy_feed_all c toy_reader0 [wo_wire r]))
  /\ rd_status (snd (toy_feed_all c toy_reader0 [wo_wire r])) = SPending.
Proof. vm_compute. repeat split. Qed.

(* nothing negotiated; one text message sent with compress=15 *)
Definition unneg_cfg : wcfg := mkw true 0 false.
Definition unneg_ops : list sop := [Send OP_TEXT [104; 105] 15 7].

Lemma unneg_witness :
  let c := peer_cfg unneg_cfg 0 true in
  let r := toy_wrun unneg_cfg (wstate0 toyc) unneg_ops in
  forallb (op_wf c) unneg_ops = true /\ all_fit c (wo_sent r) = true
  /\ expect_all (wo_sent r) = Some [MText [104; 105]]
  /\ toy_feed_all c toy_reader0 [wo_wire r] = ([], Latched (WsErr 1002)).
Proof. vm_compute. repeat split. Qed.
