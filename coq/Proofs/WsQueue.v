(* C12 — the data queue hands the application every message decoded before the first violation, in order, and
   only then the error — whatever the interleaving of network reads and application reads. *)
From AV Require Import Lib.Base Lib.Utf8Valid Generated.WsGen Model.Ws Model.WsSpec Proofs.WsSeg Proofs.WsRefine.
Open Scope N_scope.

Definition exc_of {Cx} (rd : reader Cx) : option werr := match rd with Latched e => Some e | _ => None end.

Lemma exc_of_status {Cx} (a b : reader Cx) : rd_status a = rd_status b -> exc_of a = exc_of b.
Proof. destruct a, b; cbn; congruence. Qed.

(* the error is only ever handed out by an empty queue *)
Lemma q_read_err q e : q_read q = QErr e -> q_buf q = [] /\ q_exc q = Some e.
Proof. unfold q_read. destruct (q_buf q); [|discriminate]. destruct (q_exc q); [|discriminate]. intros [= ->]. auto. Qed.

Lemma q_read_msg q m q' : q_read q = QMsg m q' -> q_buf q = m :: q_buf q' /\ q_exc q' = q_exc q.
Proof. unfold q_read. destruct (q_buf q); [destruct (q_exc q); discriminate|]. intros [= -> <-]. auto. Qed.

Section Queue.
Variable Cx : Type.
Variable decomp : Cx -> bytes -> N -> dres Cx.
Variable c : cfg.

Notation feed_all := (feed_all Cx decomp c).
Notation feed := (feed Cx decomp c).
Notation app_run := (app_run Cx decomp c).
Notation app_step := (app_step Cx decomp c).

(* invariant of any schedule: read ++ still buffered = everything the reader delivered; stored error = the reader's *)
Definition consistent (a : appstate Cx) : Prop := forall e, a_rd a = Latched e -> q_exc (a_q a) = Some e.

Lemma app_run_observe ops : forall a, consistent a ->
  let a' := app_run a ops in
  let r := feed_all (a_rd a) (feeds_of ops) in
  a_got a' ++ q_buf (a_q a') = a_got a ++ q_buf (a_q a) ++ fst r
  /\ q_exc (a_q a') = match snd r with Latched e => Some e | _ => q_exc (a_q a) end
  /\ a_rd a' = snd r.
Proof.
  induction ops as [|o ops IH]; intros a Hc; cbn zeta.
  - cbn [Ws.app_run fold_left feeds_of Ws.feed_all fst snd]. rewrite !app_nil_r.
    repeat split. destruct (a_rd a) eqn:E; try reflexivity. apply Hc. exact E.
  - cbn [Ws.app_run fold_left]. destruct o as [d|]; cbn [feeds_of Ws.feed_all].
    + assert (Hc1 : consistent (app_step a (OFeed d))).
      { unfold consistent. cbn [Ws.app_step]. destruct (feed (a_rd a) d) as [evs rd1].
        cbn [a_rd a_q q_after_feed q_exc]. intros e ->. reflexivity. }
      specialize (IH (app_step a (OFeed d)) Hc1). cbn zeta in IH. unfold Ws.app_run in IH.
      cbn [Ws.app_step] in *. destruct (feed (a_rd a) d) as [evs rd1] eqn:F.
      cbn [a_rd a_q a_got q_after_feed q_buf q_exc] in IH.
      destruct (feed_all rd1 (feeds_of ops)) as [e2 rd2] eqn:FA. cbn [fst snd] in *.
      destruct IH as (I1 & I2 & I3). repeat split; [rewrite I1, <- !app_assoc; reflexivity| |exact I3].
      rewrite I2. destruct rd2; try reflexivity.
      * destruct rd1 as [s1|e1|]; try reflexivity.
        rewrite (feed_all_latched Cx decomp c e1) in FA. discriminate.
      * destruct rd1 as [s1|e1|]; try reflexivity.
        rewrite (feed_all_latched Cx decomp c e1) in FA. discriminate.
    + assert (Hc1 : consistent (app_step a ORead)).
      { unfold consistent in *. cbn [Ws.app_step]. destruct (q_read (a_q a)) as [m q'|e|] eqn:R; cbn [a_rd a_q]; try exact Hc.
        apply q_read_msg in R as (_ & Re). rewrite Re. exact Hc. }
      specialize (IH (app_step a ORead) Hc1). cbn zeta in IH. unfold Ws.app_run in IH.
      cbn [Ws.app_step] in *. destruct (q_read (a_q a)) as [m q'|e|] eqn:R; cbn [a_rd a_q a_got] in IH.
      * apply q_read_msg in R as (Rb & Re). rewrite Rb, <- Re.
        destruct IH as (I1 & I2 & I3). repeat split; try assumption. rewrite I1, <- !app_assoc. reflexivity.
      * exact IH.
      * exact IH.
Qed.

End Queue.

Section QueueMain.
Variable Cx : Type.
Variable decomp : Cx -> bytes -> N -> dres Cx.

Definition app0 (cx0 : Cx) : appstate Cx := mka (Live (init_state Cx cx0)) q0 [] None.

(* MAIN: what the application ends up with (already read ++ readable without waiting, then the error) is what one
   feed of the whole stream delivers — independent of the cuts AND of when the application reads *)
Theorem consumer_independent c cx0 ops :
  app_observe Cx (app_run Cx decomp c (app0 cx0) ops) =
  (fst (feed Cx decomp c (Live (init_state Cx cx0)) (concat (feeds_of ops))),
   exc_of (snd (feed Cx decomp c (Live (init_state Cx cx0)) (concat (feeds_of ops))))).
Proof.
  destruct (app_run_observe Cx decomp c ops (app0 cx0)) as (H1 & H2 & _); [intros e; discriminate|]. cbn zeta in *.
  destruct (seg_independent Cx decomp c cx0 (feeds_of ops)) as (E1 & _ & E3). cbn zeta in *.
  unfold app_observe. cbn [app0 a_got a_q a_rd q_buf q_exc q0 app] in *.
  rewrite H1, H2, E1. f_equal. rewrite <- (exc_of_status _ _ E3).
  destruct (snd (feed_all Cx decomp c (Live (init_state Cx cx0)) (feeds_of ops))); reflexivity.
Qed.

(* ... and with the reference decoder: the application reads exactly the reference's messages, then its error *)
Theorem consumer_refines_rfc c cx0 ops :
  let d := decode Cx decomp rfc_profile c cx0 (concat (feeds_of ops)) in
  fst (app_observe Cx (app_run Cx decomp c (app0 cx0) ops)) = fst d /\
  match snd (app_observe Cx (app_run Cx decomp c (app0 cx0) ops)) with
  | Some e => out_status (snd d) = SFailed e
  | None => out_status (snd d) = SPending
  end.
Proof.
  cbn zeta. rewrite consumer_independent. cbn [fst snd].
  destruct (refines_rfc Cx decomp c cx0 [concat (feeds_of ops)]) as (R1 & R2).
  cbn [feed_all concat] in R1, R2. rewrite app_nil_r in *.
  destruct (feed Cx decomp c (Live (init_state Cx cx0)) (concat (feeds_of ops))) as [ev rd] eqn:F.
  cbn [fst snd] in *. rewrite app_nil_r in R1. split; [exact R1|].
  pose proof (feed_no_fuel Cx decomp c (Live (init_state Cx cx0)) (concat (feeds_of ops)) ltac:(congruence)) as NF.
  rewrite F in NF. cbn [snd] in NF.
  destruct rd; cbn [exc_of rd_status] in *; congruence.
Qed.

End QueueMain.
