(* C02, request side of the keep-alive decision: what the request parser concludes (RawRequestMessage.
   should_close) equals what the client was configured to ask for (connector.force_close), for every
   request `build` produces when the caller supplies no Connection header of his own. *)
From Coq Require Import ZifyBool ZifyN.
From AV Require Import Lib.Base Lib.Utf8 Lib.BytesX Generated.WriterGen Generated.HttpGen Generated.WireGen
  Model.Writer Model.Http Model.Wire Proofs.WireHead.
Ltac Zify.zify_post_hook ::= Z.to_euclidean_division_equations.
Open Scope N_scope.

(* ------------------------------------------------------------------ ieqb is an equivalence *)
Lemma ieqb_true a b : ieqb a b = true <-> map lower a = map lower b.
Proof. unfold ieqb. apply list_eqb_eq. Qed.

Lemma ieqb_trans_false a b c : ieqb a b = true -> ieqb b c = false -> ieqb a c = false.
Proof.
  intros H1 H2. destruct (ieqb a c) eqn:E; [|reflexivity].
  apply ieqb_true in H1, E. assert (ieqb b c = true) by (apply ieqb_true; congruence). congruence.
Qed.

(* ------------------------------------------------------------------ md_has through the updates *)
Lemma md_has_cons k kv hs : md_has k (kv :: hs) = ieqb (fst kv) k || md_has k hs.
Proof. reflexivity. Qed.

Lemma md_has_del_other k k' hs : ieqb k' k = false -> md_has k (md_del k' hs) = md_has k hs.
Proof.
  intro Hne. unfold md_del. induction hs as [|[a v] hs IH]; [reflexivity|]. cbn [filter fst].
  destruct (ieqb a k') eqn:E; cbn [negb].
  - rewrite IH, md_has_cons. cbn [fst]. rewrite (ieqb_trans_false a k' k E Hne). reflexivity.
  - rewrite !md_has_cons, IH. reflexivity.
Qed.

Lemma md_has_set_other k k' v hs : ieqb k' k = false -> md_has k (md_set k' v hs) = md_has k hs.
Proof.
  intro Hne. induction hs as [|[a w] hs IH].
  - cbn [md_set]. rewrite md_has_cons. cbn [fst]. rewrite Hne. reflexivity.
  - cbn [md_set]. destruct (ieqb a k') eqn:E.
    + rewrite !md_has_cons. cbn [fst]. rewrite Hne, (ieqb_trans_false a k' k E Hne), md_has_del_other by exact Hne. reflexivity.
    + rewrite !md_has_cons, IH. reflexivity.
Qed.

Lemma md_has_setdefault_other k k' v hs : ieqb k' k = false -> md_has k (md_setdefault k' v hs) = md_has k hs.
Proof. intro Hne. unfold md_setdefault. destruct (md_has k' hs); [reflexivity|apply md_has_set_other; exact Hne]. Qed.

Lemma md_has_pop_other k k' hs : ieqb k' k = false -> md_has k (snd (md_pop k' hs)) = md_has k hs.
Proof.
  intro Hne. induction hs as [|[a w] hs IH]; [reflexivity|]. cbn [md_pop].
  destruct (ieqb a k') eqn:E.
  - cbn [snd]. rewrite md_has_cons. cbn [fst]. rewrite (ieqb_trans_false a k' k E Hne). reflexivity.
  - destruct (md_pop k' hs) as [r t'] eqn:Ep. cbn [snd] in *. rewrite !md_has_cons, IH. reflexivity.
Qed.

Lemma md_set_absent k v hs : md_has k hs = false -> md_set k v hs = hs ++ [(k, v)].
Proof.
  induction hs as [|[a w] hs IH]; [reflexivity|]. rewrite md_has_cons. cbn [fst]. intro H.
  apply orb_false_iff in H as [H1 H2]. cbn [md_set]. rewrite H1, IH by exact H2. reflexivity.
Qed.

(* ------------------------------------------------------------------ the Connection header the parser sees *)
Lemma ieqb_conn k : ieqb k h_connection = ieqb k n_connection.
Proof. reflexivity. Qed.

Lemma header_values_wh k hs :
  header_values k (map wh hs) = map (fun v => strip_ows (u8 v)) (map snd (filter (fun kv => ieqb (fst kv) k) hs)).
Proof.
  induction hs as [|[a v] hs IH]; [reflexivity|]. cbn [map wh header_values filter fst snd].
  destruct (ieqb a k); [cbn [map snd]; rewrite IH; reflexivity|exact IH].
Qed.

Lemma filter_none k (hs : md) : md_has k hs = false -> filter (fun kv => ieqb (fst kv) k) hs = [].
Proof.
  induction hs as [|[a w] hs IH]; [reflexivity|]. rewrite md_has_cons. cbn [fst]. intro H.
  apply orb_false_iff in H as [H1 H2]. cbn [filter fst]. rewrite H1. apply IH. exact H2.
Qed.

Definition close_of (r : creq) : bool := m_close (expected_msg r).

Definition close_tokens (v : bytes) : option bool :=
  let toks := conn_tokens v in
  if mem_bytes t_close toks then Some true else if mem_bytes t_keep_alive toks then Some false else None.

Lemma derive_close hs hi : derive hs = POk hi ->
  hi_close hi = close_tokens (match get_header h_connection hs with Some v => v | None => [] end).
Proof.
  unfold derive, close_tokens. intro H.
  destruct (get_header h_transfer_encoding hs) as [te|].
  - destruct (is_chunked_te te) as [ch|e|c t]; try discriminate.
    destruct (has_header h_content_length hs); [discriminate|]. inversion H. reflexivity.
  - inversion H. reflexivity.
Qed.

Lemma close_of_derived r hi : derive (wire_headers r) = POk hi ->
  close_of r = match hi_close hi with Some c => c | None => negb (c_v11 r) end.
Proof. intro H. unfold close_of, expected_msg, hinfo_of. rewrite H. reflexivity. Qed.

Lemma close_no_connection r hi :
  forallb (fun kv => ascii_tok (fst kv)) (c_headers r) = true -> derive (wire_headers r) = POk hi ->
  md_has n_connection (c_headers r) = false -> close_of r = negb (c_v11 r).
Proof.
  intros Hn Hd Hc. rewrite (close_of_derived r hi Hd), (derive_close _ _ Hd). rewrite (wire_headers_map r Hn).
  assert (Hv : header_values h_connection (map wh (c_headers r)) = []).
  { rewrite header_values_wh. rewrite (filter_none h_connection _ Hc). reflexivity. }
  unfold get_header. rewrite Hv. reflexivity.
Qed.

Lemma close_with_connection r hi hs v c :
  forallb (fun kv => ascii_tok (fst kv)) (c_headers r) = true -> derive (wire_headers r) = POk hi ->
  c_headers r = hs ++ [(n_connection, v)] -> md_has n_connection hs = false ->
  close_tokens (strip_ows (u8 v)) = Some c ->
  close_of r = c.
Proof.
  intros Hn Hd Eh Hc Htok. rewrite (close_of_derived r hi Hd), (derive_close _ _ Hd). rewrite (wire_headers_map r Hn).
  assert (Hv : header_values h_connection (map wh (c_headers r)) = [strip_ows (u8 v)]).
  { rewrite header_values_wh, Eh, filter_app. pose proof (filter_none h_connection hs Hc) as Hf.
    unfold md, str, bytes in *. rewrite Hf. reflexivity. }
  unfold get_header. rewrite Hv. cbn [join_cs]. rewrite Htok. reflexivity.
Qed.

(* ------------------------------------------------------------------ build: no Connection header before _send *)
Ltac push_has :=
  repeat first
    [ rewrite md_has_set_other by reflexivity
    | rewrite md_has_setdefault_other by reflexivity ].

Theorem keepalive_request_side lim i r :
  build i = BOk r -> valid lim r = true ->
  md_has n_connection (i_headers i) = false ->
  close_of r = i_force_close i.
Proof.
  intros Hb Hval Hu.
  assert (Hn : forallb (fun kv => ascii_tok (fst kv)) (c_headers r) = true).
  { unfold valid in Hval. repeat (apply andb_true_iff in Hval as [Hval ?]). assumption. }
  assert (Hd : exists hi, derive (wire_headers r) = POk hi).
  { unfold valid in Hval. repeat (apply andb_true_iff in Hval as [Hval ?]).
    match goal with Hf : framing_ok r = true, Hu' : negb (has_header h_upgrade _) = true |- _ =>
      apply negb_true_iff in Hu'; destruct (derive_framed r Hf Hu') as (hi & Hd & _); exists hi; exact Hd end. }
  destruct Hd as [hi Hd]. revert Hd Hn. clear Hval. unfold build in Hb. intros Hd Hn.
  destruct (md_has n_content_length (i_headers i) || md_has n_transfer_encoding (i_headers i)
            || md_has n_expect (i_headers i) || md_has n_content_encoding (i_headers i)
            || md_has n_cookie (i_headers i)); [discriminate|].
  destruct (md_pop n_host (i_headers i)) as [uh rest] eqn:Ep.
  assert (Hrest : md_has n_connection rest = false).
  { pose proof (md_has_pop_other n_connection n_host (i_headers i) eq_refl) as Hx. rewrite Ep in Hx. cbn [snd] in Hx. congruence. }
  set (h0 := (n_host, match uh with Some v => v | None => i_host i end) :: rest) in *.
  assert (H0 : md_has n_connection h0 = false) by (unfold h0; rewrite md_has_cons; cbn [fst]; exact Hrest).
  set (h3 := md_setdefault n_user_agent (i_user_agent i)
               (md_setdefault n_accept_encoding (i_accept_encoding i) (md_setdefault n_accept default_accept h0))) in *.
  assert (H3 : md_has n_connection h3 = false) by (unfold h3; push_has; exact H0).
  (* the body / transfer-encoding / content-type steps only touch other names *)
  match type of Hb with context [let '(h4, ch) := ?X in _] => destruct X as [h4 ch] eqn:E4 end.
  assert (H4 : md_has n_connection h4 = false).
  { destruct (i_body i) as [|d|ps].
    - inversion E4; subst. destruct (negb _ && negb _); push_has; exact H3.
    - destruct (negb (truthy_ob (i_chunked i))); inversion E4; subst; push_has; exact H3.
    - inversion E4; subst. push_has. exact H3. }
  match type of Hb with context [match ?X with Some _ => _ | None => BValueError end] => destruct X as [h5|] eqn:E5 end; [|discriminate].
  assert (H5 : md_has n_connection h5 = false).
  { destruct ((match i_body i with BNone => _ | _ => true end) && truthy_ob ch).
    - destruct (md_has n_content_length h4); [discriminate|]. inversion E5; subst. push_has. exact H4.
    - inversion E5; subst. exact H4. }
  set (h6 := if mem_bytes (map upper (i_method i)) client_post_methods
             then md_setdefault n_content_type default_content_type h5 else h5) in *.
  assert (H6 : md_has n_connection h6 = false).
  { unfold h6. destruct (mem_bytes _ client_post_methods); push_has; exact H5. }
  rewrite H6 in Hb. inversion Hb; subst r. clear Hb. cbn [c_headers c_v11] in *.
  destruct (i_force_close i) eqn:Efc; destruct (i_v11 i) eqn:Ev.
  - eapply close_with_connection; [exact Hn|exact Hd|cbn [c_headers]; apply md_set_absent; exact H6|exact H6|reflexivity].
  - rewrite (close_no_connection _ hi); [cbn [c_v11]; reflexivity|exact Hn|exact Hd|exact H6].
  - rewrite (close_no_connection _ hi); [cbn [c_v11]; reflexivity|exact Hn|exact Hd|exact H6].
  - eapply close_with_connection; [exact Hn|exact Hd|cbn [c_headers]; apply md_set_absent; exact H6|exact H6|reflexivity].
Qed.
