(* Response-parser proofs, part 5: concrete examples (vm_compute): the former refutation witnesses
   (CR CR LF after chunk data, CR after the last-chunk line, CR/LF boundary at a line limit - all three
   repaired in the code) now behave identically in one read and split, and non-vacuity examples. *)
From AV Require Import Lib.Base Lib.BytesX Lib.Utf8Decode Generated.HttpGen Generated.HttpRespGen Model.Http Model.HttpResp
  Proofs.HttpSegBase Proofs.HttpRespBase Proofs.HttpRespChunk Proofs.HttpRespSeg Proofs.HttpRespLimits.
Open Scope N_scope.

Definition rcfg0 : rcfg := mkCfg (mkLimits 8190 8190 128 0) true true.
Definition rcfg10 : rcfg := mkCfg (mkLimits 40 10 8 0) true true.

(* what a caller sees of a result: outcome, and per message (code, body bytes, chunk ends, eof, exception) *)
Definition rdigest (x : rfres) : routcome * list (N * bytes * list N * bool * option herr) :=
  let '(s, a, r) := x in
  (r, map (fun m => (rm_code (rr_msg m), rr_data m, rr_splits m, rr_eof m, rr_exc m)) (rev a)).

Definition pkind_of (s : rst) : option (rpkind * bytes * list bytes) :=
  match rpayload s with Some p => Some (rpk p, rctail p, rtlines p) | None => None end.

(* HTTP/1.1 200 OK / Transfer-Encoding: chunked, then "3 CRLF abc CR" | "CR LF 0 CRLF CRLF" *)
Definition w_a : bytes := [72; 84; 84; 80; 47; 49; 46; 49; 32; 50; 48; 48; 32; 79; 75; 13; 10; 84; 114; 97; 110; 115; 102; 101; 114; 45; 69; 110; 99; 111; 100; 105; 110; 103; 58; 32; 99; 104; 117; 110; 107; 101; 100; 13; 10; 13; 10; 51; 13; 10; 97; 98; 99; 13].
Definition w_b : bytes := [13; 10; 48; 13; 10; 13; 10].
(* the same head, then "3 CRLF abc CRLF 0 CRLF" | "CR X: y CRLF" (trailer section still open) *)
Definition w_c : bytes := [72; 84; 84; 80; 47; 49; 46; 49; 32; 50; 48; 48; 32; 79; 75; 13; 10; 84; 114; 97; 110; 115; 102; 101; 114; 45; 69; 110; 99; 111; 100; 105; 110; 103; 58; 32; 99; 104; 117; 110; 107; 101; 100; 13; 10; 13; 10; 51; 13; 10; 97; 98; 99; 13; 10; 48; 13; 10].
Definition w_d : bytes := [13; 88; 58; 32; 121; 13; 10].
Definition w_d2 : bytes := [13; 88; 58; 32; 121; 13; 10; 13; 10].
(* max_field_size = 10: field line "a:34567890" (10 bytes) with the read boundary between its CR and LF *)
Definition w_e : bytes := [72; 84; 84; 80; 47; 49; 46; 49; 32; 50; 48; 48; 32; 79; 75; 13; 10; 97; 58; 51; 52; 53; 54; 55; 56; 57; 48; 13].
Definition w_f : bytes := [10; 13; 10].
(* LF-only head with a folded field, lax chunk-size line " 1a ;x=y" cut inside, 26 data bytes, a second response *)
Definition x_a : bytes := [72; 84; 84; 80; 47; 49; 46; 49; 32; 50; 48; 48; 32; 79; 75; 10; 88; 45; 70; 58; 32; 97; 10; 32; 98; 10; 84; 114; 97; 110; 115; 102; 101; 114; 45; 69; 110; 99; 111; 100; 105; 110; 103; 58; 32; 99; 104; 117; 110; 107; 101; 100; 10; 10; 32; 49; 97].
Definition x_b : bytes := [32; 59; 120; 61; 121; 13; 10; 97; 98; 99; 100; 101; 102; 103; 104; 105; 106; 107; 108; 109; 110; 111; 112; 113; 114; 115; 116; 117; 118; 119; 120; 121; 122].
Definition x_c : bytes := [13; 10; 48; 13; 10; 13; 10; 72; 84; 84; 80; 47; 49; 46; 49; 32; 50; 48; 52; 32; 78; 111; 32; 67; 111; 110; 116; 101; 110; 116; 13; 10; 13; 10].
Definition x_kelvin : bytes := [72; 84; 84; 80; 47; 49; 46; 49; 32; 50; 48; 48; 32; 79; 75; 13; 10; 84; 114; 97; 110; 115; 102; 101; 114; 45; 69; 110; 99; 111; 100; 105; 110; 103; 58; 32; 99; 104; 117; 110; 226; 132; 170; 101; 100; 13; 10; 13; 10; 49; 13; 10; 120; 13; 10; 48; 13; 10; 13; 10].
Definition x_status : bytes := [72; 84; 84; 80; 47; 49; 46; 49; 194; 160; 50; 48; 48; 226; 128; 168; 79; 75; 32; 116; 104; 101; 110; 32; 13; 10; 67; 111; 110; 116; 101; 110; 116; 45; 76; 101; 110; 103; 116; 104; 58; 32; 48; 13; 10; 13; 10].
Definition x_fold : bytes := [72; 84; 84; 80; 47; 49; 46; 49; 32; 50; 48; 48; 32; 79; 75; 13; 10; 88; 58; 32; 49; 50; 51; 52; 53; 13; 10; 32; 49; 50; 51; 52; 53; 54; 13; 10; 13; 10].

Definition r1_cd := Eval vm_compute in rfeed rcfg0 rinit w_c [].
Definition r2_cd := Eval vm_compute in rfeed rcfg0 (fst (fst r1_cd)) w_d (snd (fst r1_cd)).

(* CR CR LF after chunk data (former witness of C03-lax-double-cr): a CR that ends a read stays buffered, so
   "... abc CR" | "CR LF 0 CRLF CRLF" raises the same TransferEncodingError as one read of the same bytes *)
Lemma ex_double_cr_fixed :
  pkind_of (fst (fst (rfeed rcfg0 rinit w_a []))) = Some (RChunked RDataEnd, [13], []) /\
  rboundaries_ok rcfg0 rinit [w_a; w_b] [] = true /\
  rdigest (rrun_segs rcfg0 rinit [w_a; w_b] [] []) = (OErr ETransferEncoding, [(200, [97; 98; 99], [3], false, Some ETransferEncoding)]) /\
  rdigest (rrun_segs rcfg0 rinit [concat [w_a; w_b]] [] []) = (OErr ETransferEncoding, [(200, [97; 98; 99], [3], false, Some ETransferEncoding)]).
Proof. vm_compute. repeat split. Qed.

(* a CR right after the last-chunk line (former witness of C03-lax-cr-after-last-chunk, repaired in
   eb945bb): split and one read now collect the same trailer line "CR X: y" and end in the same state *)
Lemma cd_split_eq_one :
  pkind_of (fst (fst r2_cd)) = Some (RChunked RTrailers, [], [[13; 88; 58; 32; 121]]) /\
  rfeed rcfg0 rinit (w_c ++ w_d) [] = (fst (fst r2_cd), snd (fst r2_cd), OOk []).
Proof. vm_compute. split; reflexivity. Qed.

(* "0 CRLF" | "CR X: y CRLF CRLF": rejected identically in one read and when split (it used to be accepted
   in one read); the boundary is inside the theorems *)
Lemma ex_cr_after_last_chunk_fixed :
  rboundaries_ok rcfg0 rinit [w_c; w_d2] [] = true /\
  rdigest (rrun_segs rcfg0 rinit [w_c; w_d2] [] []) = (OErr EInvalidHeader, [(200, [97; 98; 99], [3], false, Some EInvalidHeader)]) /\
  rdigest (rrun_segs rcfg0 rinit [concat [w_c; w_d2]] [] []) = (OErr EInvalidHeader, [(200, [97; 98; 99], [3], false, Some EInvalidHeader)]).
Proof. vm_compute. repeat split. Qed.

(* max_field_size = 10, field line "a:34567890" (10 bytes) cut between its CR and LF (former witness of
   C03-cr-boundary-line-limit): the buffered "a:34567890 CR" is measured without its CR, split = one read *)
Lemma ex_cr_boundary_limit_fixed :
  rboundaries_ok rcfg10 rinit [w_e; w_f] [] = true /\
  lenN (rtail (fst (fst (rfeed rcfg10 rinit w_e [])))) = 11 /\
  rdigest (rrun_segs rcfg10 rinit [w_e; w_f] [] []) = (OOk [], [(200, [], [], false, None)]) /\
  rrun_segs rcfg10 rinit [concat [w_e; w_f]] [] [] = rrun_segs rcfg10 rinit [w_e; w_f] [] [].
Proof. vm_compute. repeat split. Qed.

(* a trailer line that is too long and still buffered (33 bytes under max_field_size 30), completed by
   the next read: the re-check at the start of the next read and the complete-line check of one read
   raise the same LineTooLong (rrecheck_ok holds although rtail_ok does not) *)
Definition rcfg30 : rcfg := mkCfg (mkLimits 40 30 8 0) true true.
Definition z_a : bytes := [72; 84; 84; 80; 47; 49; 46; 49; 32; 50; 48; 48; 32; 79; 75; 13; 10; 84; 114; 97; 110; 115; 102; 101; 114; 45; 69; 110; 99; 111; 100; 105; 110; 103; 58; 32; 99; 104; 117; 110; 107; 101; 100; 13; 10; 13; 10; 48; 13; 10; 88; 58; 32; 48; 49; 50; 51; 52; 53; 54; 55; 56; 57; 48; 49; 50; 51; 52; 53; 54; 55; 56; 57; 48; 49; 50; 51; 52; 53; 54; 55].
Definition z_b : bytes := [97; 98; 13; 10; 13; 10].
Lemma ex_recheck_monotone :
  rtail_ok (c_lim rcfg30) (fst (fst (rfeed rcfg30 rinit z_a []))) = false /\
  rboundaries_ok rcfg30 rinit [z_a; z_b] [] = true /\
  rdigest (rrun_segs rcfg30 rinit [z_a; z_b] [] []) = (OErr ELineTooLong, [(200, [], [], false, Some ELineTooLong)]) /\
  rdigest (rrun_segs rcfg30 rinit [z_a ++ z_b] [] []) = (OErr ELineTooLong, [(200, [], [], false, Some ELineTooLong)]).
Proof. vm_compute. repeat split. Qed.

(* non-vacuity of the splitting theorems: three reads, both boundaries clean and within the limits *)
Lemma ex_clean_three_reads :
  rboundaries_ok rcfg0 rinit [x_a; x_b; x_c] [] = true /\
  pkind_of (fst (fst (rfeed rcfg0 rinit x_a []))) = Some (RChunked RSize, [32; 49; 97], []) /\
  rdigest (rrun_segs rcfg0 rinit [x_a; x_b; x_c] [] []) =
    (OOk [], [(200, [97; 98; 99; 100; 101; 102; 103; 104; 105; 106; 107; 108; 109; 110; 111; 112; 113; 114; 115; 116; 117; 118; 119; 120; 121; 122], [26], true, None);
              (204, [], [], true, None)]) /\
  rrun_segs rcfg0 rinit [concat [x_a; x_b; x_c]] [] [] = rrun_segs rcfg0 rinit [x_a; x_b; x_c] [] [] /\
  map (fun m => rm_headers (rr_msg m)) (snd (fst (rrun_segs rcfg0 rinit [x_a; x_b; x_c] [] []))) =
    [[]; [([88; 45; 70], [97; 32; 98]); ([84; 114; 97; 110; 115; 102; 101; 114; 45; 69; 110; 99; 111; 100; 105; 110; 103], [99; 104; 117; 110; 107; 101; 100])]].
Proof. vm_compute. repeat split. Qed.

(* "Transfer-Encoding: chun<KELVIN SIGN>ed" is read as chunked (str.lower() without isascii()) *)
Lemma ex_kelvin_chunked :
  rdigest (rfeed rcfg0 rinit x_kelvin []) = (OOk [], [(200, [120], [1], true, None)]) /\
  map (fun m => rm_chunked (rr_msg m)) (snd (fst (rfeed rcfg0 rinit x_kelvin []))) = [true].
Proof. vm_compute. split; reflexivity. Qed.

(* "HTTP/1.1<NBSP>200<U+2028>OK then " : Unicode white space separates the parts of the status line *)
Lemma ex_unicode_status_line :
  map (fun m => (rm_code (rr_msg m), rm_reason (rr_msg m))) (snd (fst (rfeed rcfg0 rinit x_status []))) =
    [(200, [79; 75; 32; 116; 104; 101; 110])].
Proof. vm_compute. reflexivity. Qed.

(* max_field_size = 10: "X: 12345" + " 123456": every physical line within the limit, the folded value not *)
Lemma ex_fold_limit : snd (rfeed rcfg10 rinit x_fold []) = OErr ELineTooLong.
Proof. vm_compute. reflexivity. Qed.

Lemma ex_limit :
  snd (rfeed (mkCfg (mkLimits 16 8 4 0) true true) rinit [72;84;84;80;47;49;46;49;32;50;48;48;32;79;75;33;33;13;10] []) = OErr ELineTooLong /\
  snd (rfeed (mkCfg (mkLimits 17 8 4 0) true true) rinit [72;84;84;80;47;49;46;49;32;50;48;48;32;79;75;33;33;13;10] []) = OOk [].
Proof. split; vm_compute; reflexivity. Qed.

Lemma ex_bounded_hyps : rwf rinit /\ rbounded (mkLimits 16 8 4 0) 0 rinit.
Proof. split; [exact rwf_init|apply rbounded_init]. Qed.

(* a read boundary between the CR and the LF after chunk data, and one after the last-chunk line: "... abc CR" | "LF 0 CRLF" | "CRLF" *)
Definition y_a : bytes := [72; 84; 84; 80; 47; 49; 46; 49; 32; 50; 48; 48; 32; 79; 75; 13; 10; 84; 114; 97; 110; 115; 102; 101; 114; 45; 69; 110; 99; 111; 100; 105; 110; 103; 58; 32; 99; 104; 117; 110; 107; 101; 100; 13; 10; 13; 10; 51; 13; 10; 97; 98; 99; 13].
Definition y_b : bytes := [10; 48; 13; 10].
Definition y_c : bytes := [13; 10].

Lemma ex_cr_kept_reads :
  pkind_of (fst (fst (rfeed rcfg0 rinit y_a []))) = Some (RChunked RDataEnd, [13], []) /\
  rdigest (rrun_segs rcfg0 rinit [y_a; y_b; y_c] [] []) = (OOk [], [(200, [97; 98; 99], [3], true, None)]) /\
  rrun_segs rcfg0 rinit [concat [y_a; y_b; y_c]] [] [] = rrun_segs rcfg0 rinit [y_a; y_b; y_c] [] [].
Proof. vm_compute. repeat split. Qed.

(* a rejected segmentation: "... abc CR" | "LF zz CRLF" | "never read": same exception and messages as one read
   of the two reads it consumed *)
Definition y_bad : bytes := [10; 122; 122; 13; 10].

Lemma ex_rejected_consumed :
  rboundaries_ok rcfg0 rinit [y_a; y_bad; y_c] [] = true /\
  rconsumed rcfg0 rinit [y_a; y_bad; y_c] [] = [y_a; y_bad] /\
  rdigest (rrun_segs rcfg0 rinit [y_a; y_bad; y_c] [] []) =
    (OErr ETransferEncoding, [(200, [97; 98; 99], [3], false, Some ETransferEncoding)]) /\
  rdigest (rrun_segs rcfg0 rinit [y_a ++ y_bad] [] []) =
    (OErr ETransferEncoding, [(200, [97; 98; 99], [3], false, Some ETransferEncoding)]).
Proof. vm_compute. repeat split. Qed.
