(* Limits and retained bytes of the request parser model (C10). *)
From AV Require Import Lib.Base Lib.BytesX Generated.HttpGen Model.Http.
From Coq Require Import ZifyBool ZifyN.
Open Scope N_scope.

Definition big (lim : limits) : N := N.max (max_line lim) (max_field lim).

(* the buffered partial line may exceed its limit by one byte: a CR that ends the buffered part is
   not counted by the length check (it may be the first half of the line terminator) *)
Definition bounded (lim : limits) (s : pst) : Prop :=
  lenN (tail s) <= big lim + 1 /\ lenN (lines s) <= max_headers lim /\
  Forall (fun l => lenN l <= big lim) (lines s).

Lemma start_message_state lim o s ls s' f :
  start_message lim o s ls = POk (s', f) -> lines s' = [] /\ tail s' = [].
Proof.
  unfold start_message.
  destruct (parse_request o (removelast ls)) as [m| |]; try discriminate.
  destruct (get_header h_content_length (m_headers m)) as [v|].
  - destruct (nonempty v && forallb dec_digit v && (lenN v <=? int_max_str_digits)); [|discriminate].
    destruct (has_header h_sec_websocket_key1 (m_headers m)); [discriminate|].
    repeat (match goal with |- context [if ?b then _ else _] => destruct b end);
      intro H; inversion H; subst; cbn; auto.
  - destruct (has_header h_sec_websocket_key1 (m_headers m)); [discriminate|].
    repeat (match goal with |- context [if ?b then _ else _] => destruct b end);
      intro H; inversion H; subst; cbn; auto.
Qed.

Lemma tail_len_bound d (t : bytes) : lenN t <= tail_len d t + 1.
Proof. unfold tail_len. destruct (d && (last t 0 =? 13)); lia. Qed.

Lemma limit_le_big lim (ls : list bytes) :
  match ls with [] => max_line lim | _ => max_field lim end <= big lim.
Proof. unfold big. destruct ls; lia. Qed.

(* Whatever is fed, after a call that returns normally the parser retains at most one partial line
   within the limits and at most max_headers complete lines, each within the limits.
   (With a message-queue bound the unread remainder of the read is retained as well; excluded.) *)
Ltac split_if H :=
  match type of H with
  | context [if ?b then _ else _] => destruct b eqn:?; try discriminate H
  end.

Lemma feed_loop_bounded lim o : max_queue lim = 0 ->
  forall fuel s buf a s' a' lo,
    bounded lim s -> feed_loop fuel lim o s buf a = (s', a', ROk lo) -> bounded lim s'.
Proof.
  intros Hq. induction fuel as [|f IH]; intros s buf a s' a' lo Hb H; cbn [feed_loop] in H; [discriminate|].
  destruct buf as [|b0 buf0]; [inversion H; subst; exact Hb|].
  remember (b0 :: buf0) as buf eqn:Ebuf.
  destruct (payload s) as [p|] eqn:Ep.
  - destruct (feed_payload lim p buf a) as [p' e1|rest e1|e e1].
    + inversion H; subst. exact Hb.
    + eapply IH; [|exact H]. exact Hb.
    + split_if H. inversion H; subst. exact Hb.
  - split_if H; [inversion H; subst; exact Hb|].
    rewrite Hq in H. change ((0 <? 0) && (0 <=? in_flight s)) with false in H. cbv iota in H.
    destruct (find_crlf buf) as [[line rest]|] eqn:Ef.
    + destruct line as [|l0 line0].
      * destruct (lines s) as [|x xs] eqn:El.
        -- eapply IH; [|exact H]. exact Hb.
        -- (* empty line closing a block *)
           split_if H. split_if H. split_if H.
           match type of H with
           | context [match ?t with POk _ => _ | PErr _ => _ | PAsk _ _ => _ end] =>
             destruct t as [[s1 e1]| |] eqn:Es
           end; try discriminate H.
           eapply IH; [|exact H]. apply start_message_state in Es as [E1 E2].
           unfold bounded. rewrite E1, E2. cbn. repeat split; [lia|lia|constructor].
      * cbv iota in H. remember (l0 :: line0) as line eqn:Eline.
        split_if H. split_if H. split_if H.
        eapply IH; [|exact H]. destruct Hb as (Hb1 & Hb2 & Hb3). unfold bounded. cbn [tail lines].
        pose proof (limit_le_big lim (lines s)). repeat split; [exact Hb1|lia|].
        apply Forall_app. split; [exact Hb3|]. constructor; [lia|constructor].
    + split_if H. split_if H.
      inversion H; subst s' a' lo. destruct Hb as (Hb1 & Hb2 & Hb3). unfold bounded. cbn [tail lines].
      pose proof (limit_le_big lim (lines s)). pose proof (tail_len_bound tail_check_discounts_cr buf).
      repeat split; [lia|exact Hb2|exact Hb3].
Qed.

Lemma feed_bounded lim o s data a s' a' lo :
  max_queue lim = 0 -> bounded lim s -> feed lim o s data a = (s', a', ROk lo) -> bounded lim s'.
Proof.
  intros Hq Hb H. unfold feed in H. eapply (feed_loop_bounded lim o Hq); [|exact H].
  destruct Hb as (_ & Hb2 & Hb3). unfold bounded. cbn [tail lines]. repeat split; [cbn; lia|exact Hb2|exact Hb3].
Qed.

Lemma bounded_init lim : bounded lim init.
Proof. unfold bounded, init. cbn. repeat split; [lia|lia|constructor]. Qed.

(* over any sequence of reads *)
Lemma run_segs_bounded lim o : max_queue lim = 0 ->
  forall segs s a lo0 s' a' lo,
    bounded lim s -> run_segs lim o s segs a lo0 = (s', a', ROk lo) -> bounded lim s'.
Proof.
  intros Hq. induction segs as [|d segs IH]; intros s a lo0 s' a' lo Hb H; cbn [run_segs] in H.
  - inversion H; subst. exact Hb.
  - destruct (feed lim o s d a) as [[s1 a1] r] eqn:Ef. destruct r as [l|e|c t]; try discriminate.
    eapply IH; [|exact H]. eapply feed_bounded; eauto.
Qed.

(* ---- the limits are enforced: one complete line too long, in the header phase ---- *)
Lemma header_line_too_long lim o f s buf a line rest :
  payload s = None -> upgraded s = false -> max_queue lim = 0 -> should_close s = false ->
  find_crlf buf = Some (line, rest) -> buf <> [] ->
  match lines s with [] => max_line lim | _ => max_field lim end < lenN line ->
  feed_loop (S f) lim o s buf a = (s, a, RErr ELineTooLong).
Proof.
  intros Hp Hu Hq Hc Hf Hne Hlim. cbn [feed_loop]. destruct buf as [|b0 buf0]; [congruence|].
  rewrite Hp, Hu, Hq. change ((0 <? 0) && (0 <=? in_flight s)) with false. cbv iota. rewrite Hf.
  destruct line as [|l0 line0].
  - exfalso. unfold lenN in Hlim. cbn in Hlim. destruct (lines s); lia.
  - rewrite Hc. destruct (match lines s with [] => max_line lim | _ => max_field lim end <? lenN (l0 :: line0)) eqn:E;
      [reflexivity|lia].
Qed.

(* more field lines than max_headers: rejected when the line that exceeds the count arrives *)
Lemma too_many_headers lim o f s buf a line rest :
  payload s = None -> upgraded s = false -> max_queue lim = 0 -> should_close s = false ->
  find_crlf buf = Some (line, rest) -> buf <> [] -> lines s <> [] ->
  lenN line <= max_field lim -> max_headers lim < lenN (lines s) + 1 ->
  feed_loop (S f) lim o s buf a = (s, a, RErr EBadMessage).
Proof.
  intros Hp Hu Hq Hc Hf Hne Hl Hlen Hcnt. cbn [feed_loop]. destruct buf as [|b0 buf0]; [congruence|].
  rewrite Hp, Hu, Hq. change ((0 <? 0) && (0 <=? in_flight s)) with false. cbv iota. rewrite Hf.
  destruct (lines s) as [|x xs] eqn:El; [congruence|].
  assert (Hc2 : max_headers lim <? lenN ((x :: xs) ++ [line]) = true).
  { rewrite lenN_app. unfold lenN at 2. cbn [length]. lia. }
  destruct line as [|l0 line0]; rewrite Hc.
  - destruct (max_field lim <? lenN (@nil N)) eqn:E; [unfold lenN in E; cbn in E; lia|].
    rewrite Hc2. reflexivity.
  - destruct (max_field lim <? lenN (l0 :: line0)) eqn:E; [lia|]. rewrite Hc2. reflexivity.
Qed.
