(* C11 — the round trip of a whole writer run: the accepted operations are read back as the expected messages,
   the deflate contexts stay paired (under the stated discipline for per-message overrides), for every
   segmentation (C12's segmentation theorem). *)
From AV Require Import Lib.Base Lib.Utf8Valid Generated.WsGen Generated.WsCodecGen Model.Ws Model.WsCodec
  Proofs.WsSeg Proofs.WsRefine Proofs.WsCodecBytes Proofs.WsCodecFrame.
From Coq Require Import ZifyBool ZifyN.
Open Scope N_scope.
Ltac Zify.zify_post_hook ::= Z.to_euclidean_division_equations.

(* ================================================================================================== *)
(* The whole run: writer and reader side by side                                                       *)
Section Run.
Variable Cc : Type.
Variable cinit : N -> Cc.
Variable comp : bool -> Cc -> bytes -> bytes * Cc.
Variable Cx : Type.
Variable decomp : Cx -> bytes -> N -> dres Cx.

Variable wc : wcfg.
Variable mx : N.
Variable dt : bool.
Let c : cfg := peer_cfg wc mx dt.

Notation rstate := (rstate Cx).
Notation wstate := (wstate Cc).
Notation runs := (runs Cx decomp c).
Notation do_op := (do_op Cc cinit comp wc).
Notation wrun := (wrun Cc cinit comp wc).

Definition rd_inv (s : rstate) : Prop :=
  s_phase s = RH /\ s_tail s = [] /\ s_frags s = [] /\ m_partial (s_m s) = [] /\ m_opcode (s_m s) = NOT_SET_OP
  /\ hdr_first_fragment (s_ffin s) (s_comp s) = true.

Lemma rd_inv_hdr (s : rstate) : rd_inv s -> hdr_first_fragment (s_ffin s) (s_comp s) = true.
Proof. intros (_ & _ & _ & _ & _ & H). exact H. Qed.

Lemma first_fragment_after (ff : bool) (cp : N) opcode (rsv1 : bool) :
  hdr_first_fragment ff cp = true ->
  hdr_first_fragment (if hdr_is_control opcode then ff else true)
                     (if hdr_is_control opcode then cp else if rsv1 then 1 else 0) = true.
Proof. intro H. destruct (hdr_is_control opcode); [exact H|reflexivity]. Qed.

(* size tests of the reader, from `fits` *)
Lemma size_ok_data opcode wlen :
  size_check_applies (max_msg_size c) opcode && size_reject (Z.of_N wlen) (Z.of_N (max_msg_size c)) 0 = false ->
  size_check_applies (max_msg_size c) opcode && size_reject (Z.of_N wlen) (Z.of_N (max_msg_size c)) (Z.of_N (lenN (@nil N))) = false.
Proof. intro H. exact H. Qed.

Lemma size_ok_ctl opcode wlen : hdr_is_control opcode = true -> opcode_ok opcode = true ->
  size_check_applies (max_msg_size c) opcode && size_reject (Z.of_N wlen) (Z.of_N (max_msg_size c)) (Z.of_N (lenN (@nil N))) = false.
Proof.
  intros C OK. apply opcode_ok_cases in OK. unfold size_check_applies.
  destruct OK as [-> | [-> | [-> | [-> | ->]]]]; try discriminate C;
    (change (ws_mem _ [1; 2; 0]) with false; rewrite andb_false_r; reflexivity).
Qed.

Lemma rd_inv_intro (s' : rstate) m' ff' cp' :
  s_phase s' = RH -> s_tail s' = [] -> s_frags s' = [] -> s_m s' = m' -> s_ffin s' = ff' -> s_comp s' = cp' ->
  m_partial m' = [] -> m_opcode m' = NOT_SET_OP -> hdr_first_fragment ff' cp' = true -> rd_inv s'.
Proof. intros P T F M FF CP PA MO H. subst m' ff' cp'. repeat split; assumption. Qed.

Lemma send_plain_ctl override shared opcode : hdr_is_control opcode = true -> send_plain override shared opcode = true.
Proof.
  unfold hdr_is_control, send_plain. intro H. apply orb_true_iff. right. lia.
Qed.

(* ---- one accepted operation, seen from the reader ----------------------------------------------------- *)
(* operations that never touch a compressor: control frames, close(), data frames when neither the connection
   nor the call asks for compression *)
Definition op_plain (o : sop) : bool :=
  match o with Send opcode _ override _ => send_plain override (w_compress wc) opcode | Close _ _ _ => true end.

Lemma op_roundtrip_plain (st : wstate) (s : rstate) (o : sop) w wlen p st' rest :
  rd_inv s -> op_wf c o = true -> op_plain o = true ->
  do_op st o = SSent w wlen p st' -> fits c o wlen = true ->
  exists m s', expect o = Some m
    /\ Ws.iter Cx decomp c s (w ++ rest) = PDone [m] s' rest
    /\ rd_inv s' /\ m_cx (s_m s') = m_cx (s_m s) /\ ws_shared st' = ws_shared st.
Proof.
  intros (P & T & FR & PA & MO & FF) WF PL DO FIT.
  unfold fits in FIT. apply andb_true_iff in FIT as [MZ FIT]. apply N.leb_le in MZ.
  destruct o as [opcode body override rbits|code reason rbits].
  - (* send_frame, plain *)
    cbn [WsCodec.do_op] in DO. unfold send_frame in DO. cbn [op_plain] in PL.
    destruct (ws_closing st && closing_refuses opcode); [discriminate|].
    cbn [op_wf] in WF. rewrite PL in DO.
    destruct (write_frame (w_mask wc) 0 opcode body rbits) as [w0|] eqn:W; [|discriminate].
    injection DO as <- <- <- <-.
    apply orb_true_iff in WF as [WF|WF].
    + (* text / binary *)
      apply andb_true_iff in WF as [WF UT]. apply andb_true_iff in WF as [DOP _].
      unfold is_data_op in DOP. apply orb_true_iff in DOP. rewrite !N.eqb_eq in DOP.
      assert (OK : opcode_ok opcode = true) by (destruct DOP as [-> | ->]; reflexivity).
      assert (NC : hdr_is_control opcode = false) by (destruct DOP as [-> | ->]; reflexivity).
      assert (FITS : size_check_applies (max_msg_size c) opcode
                     && size_reject (Z.of_N (lenN body)) (Z.of_N (max_msg_size c)) 0 = false).
      { unfold is_data_op in FIT.
        assert (X : (opcode =? OP_TEXT) || (opcode =? OP_BINARY) = true) by (destruct DOP as [-> | ->]; reflexivity).
        rewrite X in FIT. apply andb_true_iff in FIT as [F _]. apply negb_true_iff in F. exact F. }
      pose proof (iter_frame Cx decomp c s (w_mask wc) false opcode body rbits w0 rest P FR OK
                    ltac:(discriminate) ltac:(congruence) MZ FF
                    ltac:(rewrite PA; apply size_ok_data; exact FITS) W) as IT.
      cbv zeta in IT. rewrite NC in IT.
      rewrite (handle_data Cx decomp c (s_m s) opcode body 0 DOP PA MO) in IT.
      change (complete Cx decomp c (m_cx (s_m s)) opcode NOT_SET_OP body 0)
        with (deliver Cx c opcode body (mkm [] NOT_SET_OP (m_cx (s_m s)))) in IT.
      rewrite deliver_ok in IT; [|exact DOP|].
      2:{ intros -> D. apply orb_true_iff in UT as [UT|UT]; [apply orb_true_iff in UT as [UT|UT]|exact UT].
          - discriminate UT.
          - rewrite D in UT. discriminate UT. }
      destruct IT as (s' & IT & P' & T' & FR' & M' & FF' & CP').
      exists (if opcode =? OP_TEXT then MText body else MBinary body), s'. split; [|split; [exact IT|split; [|split]]].
      * cbn [expect]. destruct DOP as [-> | ->]; reflexivity.
      * eapply rd_inv_intro; try eassumption; reflexivity.
      * rewrite M'. reflexivity.
      * reflexivity.
    + (* ping / pong *)
      apply andb_true_iff in WF as [COP L125]. apply N.leb_le in L125.
      unfold is_ctl_op in COP. apply orb_true_iff in COP. rewrite !N.eqb_eq in COP.
      assert (OK : opcode_ok opcode = true) by (destruct COP as [-> | ->]; reflexivity).
      assert (IC : hdr_is_control opcode = true) by (destruct COP as [-> | ->]; reflexivity).
      pose proof (iter_frame Cx decomp c s (w_mask wc) false opcode body rbits w0 rest P FR OK
                    ltac:(discriminate) ltac:(intros _; exact L125) MZ FF
                    ltac:(rewrite PA; apply size_ok_ctl; assumption) W) as IT.
      cbv zeta in IT. rewrite IC in IT.
      assert (HF : Ws.handle_frame Cx decomp c (s_m s) (s_ffin s) opcode body (s_comp s)
                   = HOk [if opcode =? OP_PING then MPing body else MPong body] (s_m s)).
      { destruct COP as [-> | ->]; reflexivity. }
      rewrite HF in IT. destruct IT as (s' & IT & P' & T' & FR' & M' & FF' & CP').
      exists (if opcode =? OP_PING then MPing body else MPong body), s'. split; [|split; [exact IT|split; [|split]]].
      * cbn [expect]. destruct COP as [-> | ->]; reflexivity.
      * eapply rd_inv_intro; try eassumption.
      * rewrite M'. reflexivity.
      * reflexivity.
  - (* close() *)
    cbn [WsCodec.do_op] in DO. unfold close_frame in DO.
    cbn [op_wf] in WF. apply andb_true_iff in WF as [WF L123]. apply andb_true_iff in WF as [WF UR].
    apply andb_true_iff in WF as [CB CC]. apply N.ltb_lt in CB. apply negb_true_iff in CC. apply N.leb_le in L123.
    destruct (256 ^ N.of_nat CLOSE_CODE_BYTES <=? code) eqn:E; [discriminate|].
    unfold send_frame in DO. change (closing_refuses OP_CLOSE) with false in DO. rewrite andb_false_r in DO.
    rewrite send_plain_ctl in DO by reflexivity.
    destruct (write_frame (w_mask wc) 0 OP_CLOSE (be_bytes CLOSE_CODE_BYTES code ++ reason) rbits) as [w0|] eqn:W; [|discriminate].
    injection DO as <- <- <- <-.
    assert (LB : lenN (be_bytes CLOSE_CODE_BYTES code ++ reason) = 2 + lenN reason).
    { rewrite lenN_app. unfold lenN at 1. rewrite be_bytes_length. reflexivity. }
    pose proof (iter_frame Cx decomp c s (w_mask wc) false OP_CLOSE _ rbits w0 rest P FR eq_refl
                  ltac:(discriminate) ltac:(intros _; rewrite LB; lia) MZ FF
                  ltac:(rewrite PA; apply size_ok_ctl; reflexivity) W) as IT.
    cbv zeta in IT. change (hdr_is_control OP_CLOSE) with true in IT. cbv iota in IT.
    rewrite (handle_close Cx decomp c (s_m s) (s_ffin s) code reason (s_comp s) CB CC UR) in IT.
    destruct IT as (s' & IT & P' & T' & FR' & M' & FF' & CP').
    exists (MClose code reason), s'. split; [reflexivity|split; [exact IT|split; [|split]]].
    + eapply rd_inv_intro; try eassumption.
    + rewrite M'. reflexivity.
    + reflexivity.
Qed.

Lemma do_op_no_layout (st : wstate) o : do_op st o <> SLayout.
Proof.
  destruct o as [opcode body override rbits|code reason rbits]; cbn [WsCodec.do_op].
  - unfold send_frame. destruct (ws_closing st && closing_refuses opcode); [discriminate|].
    destruct (send_plain override (w_compress wc) opcode).
    + destruct (write_frame_ok (w_mask wc) 0 opcode body rbits) as (w & ->). discriminate.
    + destruct (get_compressor Cc cinit wc st override) as [cc sh]. destruct (comp (w_notakeover wc) cc body) as [z cc'].
      destruct (write_frame_ok (w_mask wc) RSV1_COMPRESSED opcode (removesuffix DEFLATE_TRAILING z) rbits) as (w & ->). discriminate.
  - unfold close_frame. destruct (256 ^ N.of_nat CLOSE_CODE_BYTES <=? code); [discriminate|].
    unfold send_frame. destruct (ws_closing st && closing_refuses OP_CLOSE); [discriminate|].
    destruct (send_plain 0 (w_compress wc) OP_CLOSE).
    + destruct (write_frame_ok (w_mask wc) 0 OP_CLOSE (be_bytes CLOSE_CODE_BYTES code ++ reason) rbits) as (w & ->). discriminate.
    + destruct (get_compressor Cc cinit wc st 0) as [cc sh].
      destruct (comp (w_notakeover wc) cc (be_bytes CLOSE_CODE_BYTES code ++ reason)) as [z cc'].
      destruct (write_frame_ok (w_mask wc) RSV1_COMPRESSED OP_CLOSE (removesuffix DEFLATE_TRAILING z) rbits) as (w & ->). discriminate.
Qed.

(* a refused operation leaves the compressor alone *)
Lemma do_op_refused_shared (st st' : wstate) o : do_op st o = SRefused st' -> ws_shared st' = ws_shared st.
Proof.
  destruct o as [opcode body override rbits|code reason rbits]; cbn [WsCodec.do_op].
  - unfold send_frame. destruct (ws_closing st && closing_refuses opcode); [intros [= <-]; reflexivity|].
    destruct (send_plain override (w_compress wc) opcode).
    + destruct (write_frame _ _ _ _ _); discriminate.
    + destruct (get_compressor Cc cinit wc st override) as [cc sh]. destruct (comp (w_notakeover wc) cc body) as [z cc'].
      destruct (write_frame _ _ _ _ _); discriminate.
  - unfold close_frame. destruct (256 ^ N.of_nat CLOSE_CODE_BYTES <=? code); [intros [= <-]; reflexivity|].
    unfold send_frame. destruct (ws_closing st && closing_refuses OP_CLOSE); [intros [= <-]; reflexivity|].
    destruct (send_plain 0 (w_compress wc) OP_CLOSE).
    + destruct (write_frame _ _ _ _ _); discriminate.
    + destruct (get_compressor Cc cinit wc st 0) as [cc sh].
      destruct (comp (w_notakeover wc) cc (be_bytes CLOSE_CODE_BYTES code ++ reason)) as [z cc'].
      destruct (write_frame _ _ _ _ _); discriminate.
Qed.

(* the same induction for runs that never compress: no codec law is needed *)
Lemma run_roundtrip_plain : forall ops (st : wstate) (s : rstate) acc,
  rd_inv s ->
  forallb (op_wf c) ops = true -> forallb op_plain ops = true ->
  all_fit c (wo_sent (wrun st ops)) = true ->
  exists msgs s', expect_all (wo_sent (wrun st ops)) = Some msgs
    /\ runs s (wo_wire (wrun st ops)) acc (acc ++ msgs, Live s') /\ rd_inv s'.
Proof.
  induction ops as [|o ops IH]; intros st s acc RI WF PL AF.
  - exists [], s. cbn [WsCodec.wrun wo_sent wo_wire expect_all]. split; [reflexivity|split; [|exact RI]].
    rewrite app_nil_r. destruct RI as (P & T & _).
    assert (E : Ws.iter Cx decomp c s [] = PNeed s).
    { unfold Ws.iter, Ws.ph_header. rewrite P. cbn [Ws.bind]. f_equal. apply set_tail_nil. exact T. }
    apply RNeed. exact E.
  - cbn [forallb] in WF, PL. apply andb_true_iff in WF as [WF1 WF]. apply andb_true_iff in PL as [PL1 PL].
    cbn [WsCodec.wrun] in *. destruct (do_op st o) as [st'|w n p st'|] eqn:DO.
    + cbn [wo_sent wo_wire] in *. apply (IH st' s acc RI); assumption.
    + cbn [wo_sent wo_wire] in *. cbn [all_fit forallb fst snd] in AF. apply andb_true_iff in AF as [F1 AF].
      destruct (op_roundtrip_plain st s o w n p st' (wo_wire (wrun st' ops)) RI WF1 PL1 DO F1)
        as (m & s1 & EX & IT & RI1 & _ & _).
      destruct (IH st' s1 (acc ++ [m]) RI1 WF PL AF) as (msgs & s2 & EA & RU & RI2).
      exists (m :: msgs), s2. split; [|split; [|exact RI2]].
      * cbn [expect_all]. rewrite EX, EA. reflexivity.
      * eapply RDone; [exact IT|]. rewrite <- app_assoc in RU. exact RU.
    + exfalso. exact (do_op_no_layout _ _ DO).
Qed.

Lemma rd_inv_init cx0 : rd_inv (init_state Cx cx0).
Proof. repeat split. Qed.

(* uncompressed traffic: no assumption on the codec at all *)
Theorem roundtrip_plain ops segs cx0 :
  forallb (op_wf c) ops = true ->
  forallb op_plain ops = true ->
  all_fit c (wo_sent (wrun (wstate0 Cc) ops)) = true ->
  concat segs = wo_wire (wrun (wstate0 Cc) ops) ->
  exists msgs, expect_all (wo_sent (wrun (wstate0 Cc) ops)) = Some msgs
    /\ fst (feed_all Cx decomp c (Live (init_state Cx cx0)) segs) = msgs
    /\ rd_status (snd (feed_all Cx decomp c (Live (init_state Cx cx0)) segs)) = SPending.
Proof.
  intros WF PL AF CS.
  destruct (run_roundtrip_plain ops (wstate0 Cc) (init_state Cx cx0) [] (rd_inv_init cx0) WF PL AF)
    as (msgs & s' & EA & RU & _).
  exists msgs. split; [exact EA|].
  destruct (seg_independent Cx decomp c cx0 segs) as (E1 & _ & E3). cbv zeta in E1, E3. rewrite E1, E3, CS.
  pose proof (feed_runs Cx decomp c (init_state Cx cx0) (wo_wire (wrun (wstate0 Cc) ops))) as FR.
  change (Ws.set_tail Cx (init_state Cx cx0) []) with (init_state Cx cx0) in FR. cbn [s_tail init_state app] in FR.
  rewrite (runs_det _ _ _ _ _ _ _ FR _ RU). split; reflexivity.
Qed.

(* ==== with compression: the codec laws ============================================================== *)
(* the pairing laws of the deflate codec (RFC 7692 §7.2): *)
Variable Rsync : Cc -> Cx -> Prop.
(* compress + flush ends with the 00 00 ff ff marker that the writer strips and the reader re-appends *)
Hypothesis comp_trailer : forall ff cc m z cc', comp ff cc m = (z, cc') -> exists z0, z = z0 ++ DEFLATE_TRAILING.
(* a new compressor emits nothing that refers to history: any decompressor state can take its output *)
Hypothesis fresh_paired : forall w d, Rsync (cinit w) d.
(* paired contexts: the message comes back (when the output cap allows it) and the contexts stay paired *)
Hypothesis step_paired : forall ff cc d m z cc' cap,
  Rsync cc d -> comp ff cc m = (z, cc') -> (cap = 0 \/ lenN m < cap) ->
  exists d', decomp d z cap = DOk m d' /\ Rsync cc' d'.
(* Z_FULL_FLUSH leaves the compressor history-free *)
Hypothesis full_flush_fresh : forall cc m z cc' d, comp true cc m = (z, cc') -> Rsync cc' d.


(* the writer's shared compressor, if it exists, is paired with the reader's decompressor (and with every decompressor
   state when each message ends with a full flush) *)
Definition ctx_inv (st : wstate) (cx : Cx) : Prop :=
  (w_notakeover wc = true -> forall cc, ws_shared st = Some cc -> forall d, Rsync cc d)
  /\ (forall cc, ws_shared st = Some cc -> Rsync cc cx).

Lemma op_roundtrip (st : wstate) (s : rstate) (o : sop) w wlen p st' rest :
  rd_inv s -> ctx_inv st (m_cx (s_m s)) ->
  op_wf c o = true -> op_safe wc o = true ->
  do_op st o = SSent w wlen p st' -> fits c o wlen = true ->
  exists m s', expect o = Some m
    /\ Ws.iter Cx decomp c s (w ++ rest) = PDone [m] s' rest
    /\ rd_inv s'
    /\ ctx_inv st' (m_cx (s_m s')).
Proof.
  intros RI CI WF SAFE DO FIT.
  destruct (op_plain o) eqn:OP.
  { destruct (op_roundtrip_plain st s o w wlen p st' rest RI WF OP DO FIT) as (m & s' & EX & IT & RI' & CX & SH).
    exists m, s'. split; [exact EX|split; [exact IT|split; [exact RI'|]]].
    rewrite CX. destruct CI as (C2 & C3). unfold ctx_inv. rewrite SH. split; assumption. }
  destruct RI as (P & T & FR & PA & MO & FF).
  unfold fits in FIT. apply andb_true_iff in FIT as [MZ FIT]. apply N.leb_le in MZ.
  destruct o as [opcode body override rbits|code reason rbits]; [|discriminate OP].
  cbn [op_plain] in OP. rename OP into PL.
  cbn [WsCodec.do_op] in DO. unfold send_frame in DO.
  destruct (ws_closing st && closing_refuses opcode); [discriminate|].
  cbn [op_wf] in WF. cbn [op_safe] in SAFE. unfold is_compressed_send in *.
  rewrite PL in *. cbn [negb andb] in SAFE.
  assert (DOP : opcode = OP_TEXT \/ opcode = OP_BINARY).
  { apply orb_true_iff in WF as [WF|WF].
    - apply andb_true_iff in WF as [WF _]. apply andb_true_iff in WF as [DOP _].
      unfold is_data_op in DOP. apply orb_true_iff in DOP. rewrite !N.eqb_eq in DOP. exact DOP.
    - apply andb_true_iff in WF as [COP _]. unfold is_ctl_op in COP. apply orb_true_iff in COP. rewrite !N.eqb_eq in COP.
      rewrite send_plain_ctl in PL; [discriminate PL|]. destruct COP as [-> | ->]; reflexivity. }
  assert (UT : opcode = OP_TEXT -> decode_text c = true -> utf8_valid body = true).
  { intros -> D. apply orb_true_iff in WF as [WF|WF].
    - apply andb_true_iff in WF as [_ UT]. apply orb_true_iff in UT as [UT|UT]; [apply orb_true_iff in UT as [UT|UT]|exact UT].
      + discriminate UT.
      + rewrite D in UT. discriminate UT.
    - apply andb_true_iff in WF as [COP _]. discriminate COP. }
  assert (OK : opcode_ok opcode = true) by (destruct DOP as [-> | ->]; reflexivity).
  assert (NC : hdr_is_control opcode = false) by (destruct DOP as [-> | ->]; reflexivity).
  assert (CMP : compress c = true).
  { unfold c, peer_cfg. cbn [compress]. unfold send_plain in PL.
    destruct (override =? 0) eqn:OV; cbn [negb] in SAFE.
    - destruct (w_compress wc =? 0); [|reflexivity]. cbn in PL. destruct (8 <=? opcode); discriminate PL.
    - exact SAFE. }
  destruct (get_compressor Cc cinit wc st override) as [cc shared] eqn:GC.
  destruct (comp (w_notakeover wc) cc body) as [z cc'] eqn:CO.
  destruct (comp_trailer _ _ _ _ _ CO) as (z0 & ->).
  rewrite removesuffix_app in DO.
  destruct (write_frame (w_mask wc) RSV1_COMPRESSED opcode z0 rbits) as [w0|] eqn:W; [|discriminate].
  injection DO as <- <- <- <-.
  assert (FITS : (size_check_applies (max_msg_size c) opcode
                  && size_reject (Z.of_N (lenN z0)) (Z.of_N (max_msg_size c)) 0 = false)
                 /\ inflated_too_big (max_msg_size c) (lenN body) = false).
  { unfold is_data_op in FIT.
    assert (X : (opcode =? OP_TEXT) || (opcode =? OP_BINARY) = true) by (destruct DOP as [-> | ->]; reflexivity).
    rewrite X in FIT. apply andb_true_iff in FIT as [F1 F2]. apply negb_true_iff in F1, F2. split; assumption. }
  destruct FITS as [FW ITB].
  (* the compressor the writer used is paired with the reader's decompressor *)
  destruct CI as (CI2 & CI3).
  assert (PAIR : Rsync cc (m_cx (s_m s))).
  { unfold get_compressor in GC. destruct (override =? 0) eqn:OV; cbn [negb] in GC.
    - destruct (ws_shared st) as [cs|] eqn:SH; injection GC as <- <-.
      + apply CI3. reflexivity.
      + apply fresh_paired.
    - injection GC as <- <-. apply fresh_paired. }
  destruct (step_paired _ _ _ _ _ _ (inflate_cap (max_msg_size c)) PAIR CO) as (d' & DEC & PAIR').
  { unfold inflate_cap. unfold inflated_too_big in ITB. destruct (max_msg_size c =? 0) eqn:E0; [left; lia|right].
    cbn [negb andb] in ITB. lia. }
  pose proof (iter_frame Cx decomp c s (w_mask wc) true opcode z0 rbits w0 rest P FR OK
                ltac:(intros _; split; assumption) ltac:(congruence) MZ FF
                ltac:(rewrite PA; apply size_ok_data; exact FW) W) as IT.
  cbv zeta in IT. rewrite NC in IT.
  rewrite (handle_data Cx decomp c (s_m s) opcode z0 1 DOP PA MO) in IT.
  unfold complete in IT. change (negb (1 =? 0)) with true in IT. cbv iota in IT.
  change WS_DEFLATE_TRAILING with DEFLATE_TRAILING in IT. rewrite DEC in IT.
  rewrite ITB in IT. rewrite deliver_ok in IT; [|exact DOP|exact UT].
  destruct IT as (s' & IT & P' & T' & FR' & M' & FF' & CP').
  exists (if opcode =? OP_TEXT then MText body else MBinary body), s'. split; [|split; [exact IT|split]].
  - cbn [expect]. destruct DOP as [-> | ->]; reflexivity.
  - eapply rd_inv_intro; try eassumption; reflexivity.
  - rewrite M'. cbn [m_cx]. unfold get_compressor in GC.
    destruct (override =? 0) eqn:OV; cbn [negb] in *.
    + (* shared context *)
      assert (SH : shared = true) by (destruct (ws_shared st); injection GC as _ <-; reflexivity).
      subst shared. split.
      * intros NT cc2 E d. cbn [ws_shared] in E. injection E as <-. rewrite NT in CO. eapply full_flush_fresh; exact CO.
      * intros cc2 E. cbn [ws_shared] in E. injection E as <-. exact PAIR'.
    + (* per-message override: the shared compressor is dropped *)
      injection GC as _ <-. split; intros; cbn [ws_shared] in *; discriminate.
Qed.

(* ---- the whole run --------------------------------------------------------------------------------- *)
Lemma run_roundtrip : forall ops (st : wstate) (s : rstate) acc,
  rd_inv s -> ctx_inv st (m_cx (s_m s)) ->
  forallb (op_wf c) ops = true ->
  safe_overrides wc ops = true ->
  all_fit c (wo_sent (wrun st ops)) = true ->
  exists msgs s', expect_all (wo_sent (wrun st ops)) = Some msgs
    /\ runs s (wo_wire (wrun st ops)) acc (acc ++ msgs, Live s') /\ rd_inv s'.
Proof.
  induction ops as [|o ops IH]; intros st s acc RI CI WF SO AF.
  - exists [], s. cbn [WsCodec.wrun wo_sent wo_wire expect_all]. split; [reflexivity|split; [|exact RI]].
    rewrite app_nil_r. destruct RI as (P & T & _).
    assert (E : Ws.iter Cx decomp c s [] = PNeed s).
    { unfold Ws.iter, Ws.ph_header. rewrite P. cbn [Ws.bind]. f_equal. apply set_tail_nil. exact T. }
    apply RNeed. exact E.
  - cbn [forallb] in WF. apply andb_true_iff in WF as [WF1 WF].
    unfold safe_overrides in SO. cbn [forallb] in SO. apply andb_true_iff in SO as [SO1 SO].
    cbn [WsCodec.wrun] in *. destruct (do_op st o) as [st'|w n p st'|] eqn:DO.
    + (* refused: nothing on the wire *)
      cbn [wo_sent wo_wire] in *.
      apply (IH st' s acc RI); try assumption.
      destruct CI as (C2 & C3). pose proof (do_op_refused_shared _ _ _ DO) as SH.
      split; rewrite SH; assumption.
    + (* sent *)
      cbn [wo_sent wo_wire] in *. cbn [all_fit forallb fst snd] in AF. apply andb_true_iff in AF as [F1 AF].
      destruct (op_roundtrip st s o w n p st' (wo_wire (wrun st' ops)) RI CI WF1 SO1 DO F1)
        as (m & s1 & EX & IT & RI1 & CI1).
      destruct (IH st' s1 (acc ++ [m]) RI1 CI1 WF SO AF) as (msgs & s2 & EA & RU & RI2).
      exists (m :: msgs), s2. split; [|split; [|exact RI2]].
      * cbn [expect_all]. rewrite EX, EA. reflexivity.
      * eapply RDone; [exact IT|]. rewrite <- app_assoc in RU. exact RU.
    + exfalso. exact (do_op_no_layout _ _ DO).
Qed.

Lemma ctx_inv_init cx0 : ctx_inv (wstate0 Cc) cx0.
Proof. split; intros; discriminate. Qed.

(* MAIN: every accepted operation is delivered, in order, with its payload, and the reader is still alive — for
   every segmentation of the wire *)
Theorem roundtrip ops segs cx0 :
  forallb (op_wf c) ops = true ->
  safe_overrides wc ops = true ->
  all_fit c (wo_sent (wrun (wstate0 Cc) ops)) = true ->
  concat segs = wo_wire (wrun (wstate0 Cc) ops) ->
  exists msgs, expect_all (wo_sent (wrun (wstate0 Cc) ops)) = Some msgs
    /\ fst (feed_all Cx decomp c (Live (init_state Cx cx0)) segs) = msgs
    /\ rd_status (snd (feed_all Cx decomp c (Live (init_state Cx cx0)) segs)) = SPending.
Proof.
  intros WF SO AF CS.
  destruct (run_roundtrip ops (wstate0 Cc) (init_state Cx cx0) [] (rd_inv_init cx0) (ctx_inv_init cx0) WF SO AF)
    as (msgs & s' & EA & RU & _).
  exists msgs. split; [exact EA|].
  destruct (seg_independent Cx decomp c cx0 segs) as (E1 & _ & E3). cbv zeta in E1, E3. rewrite E1, E3, CS.
  pose proof (feed_runs Cx decomp c (init_state Cx cx0) (wo_wire (wrun (wstate0 Cc) ops))) as FR.
  change (Ws.set_tail Cx (init_state Cx cx0) []) with (init_state Cx cx0) in FR. cbn [s_tail init_state app] in FR.
  rewrite (runs_det _ _ _ _ _ _ _ FR _ RU). split; reflexivity.
Qed.

End Run.

(* the same statement with the codec and its laws first (the form used in Props/C11.v) *)
Theorem roundtrip_laws :
  forall (Cc : Type) (cinit : N -> Cc) (comp : bool -> Cc -> bytes -> bytes * Cc)
         (Cx : Type) (decomp : Cx -> bytes -> N -> dres Cx) (Rsync : Cc -> Cx -> Prop),
    (forall ff cc m z cc', comp ff cc m = (z, cc') -> exists z0, z = z0 ++ DEFLATE_TRAILING) ->
    (forall w d, Rsync (cinit w) d) ->
    (forall ff cc d m z cc' cap, Rsync cc d -> comp ff cc m = (z, cc') -> (cap = 0 \/ lenN m < cap) ->
       exists d', decomp d z cap = DOk m d' /\ Rsync cc' d') ->
    (forall cc m z cc' d, comp true cc m = (z, cc') -> Rsync cc' d) ->
    forall (wc : wcfg) (max_msg_size : N) (decode_text : bool) (ops : list sop) (segs : list bytes) (cx0 : Cx),
      let c := peer_cfg wc max_msg_size decode_text in
      let r := wrun Cc cinit comp wc (wstate0 Cc) ops in
      forallb (op_wf c) ops = true ->
      safe_overrides wc ops = true ->
      all_fit c (wo_sent r) = true ->
      concat segs = wo_wire r ->
      exists msgs, expect_all (wo_sent r) = Some msgs
        /\ fst (feed_all Cx decomp c (Live (init_state Cx cx0)) segs) = msgs
        /\ rd_status (snd (feed_all Cx decomp c (Live (init_state Cx cx0)) segs)) = SPending.
Proof.
  intros Cc cinit comp Cx decomp Rsync L1 L2 L3 L4 wc mx dt ops segs cx0. cbv zeta. intros WF SO AF CS.
  exact (roundtrip Cc cinit comp Cx decomp wc mx dt Rsync L1 L2 L3 L4 ops segs cx0 WF SO AF CS).
Qed.
