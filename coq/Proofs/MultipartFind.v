(* Facts about substring search (Model/Multipart.v: find_at / find_from, i.e. bytes.find) and about where the
   first occurrence of the delimiter can be found when only a window of the byte sequence is searched. *)
From AV Require Import Lib.Base Generated.MultipartGen Model.Multipart Proofs.MultipartStream.
From Coq Require Import ZifyBool ZifyN ZifyNat.
Open Scope N_scope.

Lemma sw_prefix sub : forall u v, (length sub <= length u)%nat -> starts_with sub (u ++ v) = starts_with sub u.
Proof.
  induction sub as [|c sub IH]; intros u v H; [reflexivity|].
  destruct u as [|x u]; [cbn in H; lia|]. cbn [starts_with app]. rewrite IH; [reflexivity|cbn in H; lia].
Qed.

Lemma sw_length sub : forall w, starts_with sub w = true -> (length sub <= length w)%nat.
Proof.
  induction sub as [|c sub IH]; intros w H; [cbn; lia|].
  destruct w as [|x w]; [discriminate|]. cbn [starts_with] in H. apply andb_true_iff in H as [_ H].
  apply IH in H. cbn. lia.
Qed.

(* find_at: the least occurrence, counted from the base *)
Lemma find_at_some sub : forall w base r,
  find_at sub w base = Some r ->
  exists k : nat, r = base + N.of_nat k /\ starts_with sub (skipn k w) = true /\
                  forall k', (k' < k)%nat -> starts_with sub (skipn k' w) = false.
Proof.
  induction w as [|c w IH]; intros base r H; cbn [find_at] in H.
  - destruct (starts_with sub []) eqn:SW; [|discriminate]. inversion H; subst.
    exists 0%nat. cbn [skipn]. repeat split; [lia|exact SW|intros; lia].
  - destruct (starts_with sub (c :: w)) eqn:SW.
    + inversion H; subst. exists 0%nat. cbn [skipn]. repeat split; [lia|exact SW|intros; lia].
    + destruct (IH _ _ H) as (k & -> & K1 & K2). exists (S k). cbn [skipn]. repeat split; [lia|exact K1|].
      intros [|k'] Hk; [exact SW|]. cbn [skipn]. apply K2. lia.
Qed.

Lemma find_at_none sub : forall w base, find_at sub w base = None -> forall k, starts_with sub (skipn k w) = false.
Proof.
  induction w as [|c w IH]; intros base H k; cbn [find_at] in H.
  - destruct (starts_with sub []) eqn:SW; [discriminate|]. destruct k; exact SW.
  - destruct (starts_with sub (c :: w)) eqn:SW; [discriminate|].
    destruct k as [|k]; [exact SW|]. cbn [skipn]. eapply IH; exact H.
Qed.

Lemma skipn_skipn {A} (a b : nat) (l : list A) : skipn a (skipn b l) = skipn (b + a) l.
Proof. revert l; induction b as [|b IH]; intro l; [reflexivity|]. destruct l; [destruct a; reflexivity|]. cbn. apply IH. Qed.

Lemma find_from_some sub w start idx :
  find_from sub w start = Some idx ->
  exists k : nat, idx = N.of_nat k /\ (N.to_nat start <= k)%nat /\ starts_with sub (skipn k w) = true /\
                  forall k', (N.to_nat start <= k' < k)%nat -> starts_with sub (skipn k' w) = false.
Proof.
  unfold find_from, dropb. intro H. apply find_at_some in H as (j & -> & J1 & J2).
  exists (N.to_nat start + j)%nat. rewrite skipn_skipn in J1. repeat split; [lia|lia|exact J1|].
  intros k' Hk. specialize (J2 (k' - N.to_nat start)%nat). rewrite skipn_skipn in J2.
  replace (N.to_nat start + (k' - N.to_nat start))%nat with k' in J2 by lia. apply J2. lia.
Qed.

Lemma find_from_none sub w start :
  find_from sub w start = None -> forall k, (N.to_nat start <= k)%nat -> starts_with sub (skipn k w) = false.
Proof.
  unfold find_from, dropb. intros H k Hk. pose proof (find_at_none _ _ _ H (k - N.to_nat start)%nat) as J.
  rewrite skipn_skipn in J. replace (N.to_nat start + (k - N.to_nat start))%nat with k in J by lia. exact J.
Qed.

(* an occurrence that fits inside the window W of  pre ++ W ++ rest  is an occurrence of the whole sequence *)
Lemma occ_window sub (pre W rest : bytes) k :
  (k + length sub <= length W)%nat ->
  starts_with sub (skipn k W) = starts_with sub (skipn (length pre + k) (pre ++ W ++ rest)).
Proof.
  intro H. rewrite skipn_app. rewrite (skipn_all2 pre) by lia. cbn [app].
  replace (length pre + k - length pre)%nat with k by lia.
  rewrite skipn_app. replace (k - length W)%nat with 0%nat by lia. cbn [skipn].
  symmetry. apply sw_prefix. rewrite skipn_length. lia.
Qed.

Section Window.
  Variable sub V : bytes.
  Variable i0 : nat.            (* first occurrence of sub in V *)
  Hypothesis Hsub : sub <> [].
  Hypothesis Hocc : starts_with sub (skipn i0 V) = true.
  Hypothesis Hfirst : forall i, (i < i0)%nat -> starts_with sub (skipn i V) = false.

  Variables pre W rest : bytes.
  Hypothesis HV : V = pre ++ W ++ rest.
  Variable start : nat.
  Hypothesis Hpre : (length pre <= i0)%nat.
  Hypothesis Hstart : (length pre + start <= i0)%nat.

  Lemma window_found idx :
    (start <= idx)%nat -> starts_with sub (skipn idx W) = true ->
    (forall k', (start <= k' < idx)%nat -> starts_with sub (skipn k' W) = false) ->
    (length pre + idx = i0)%nat.
  Proof.
    intros Hs Ho Hn. pose proof (sw_length _ _ Ho) as Hl. rewrite skipn_length in Hl.
    assert (Hsl : (0 < length sub)%nat) by (destruct sub; [congruence|cbn; lia]).
    assert (Fit : (idx + length sub <= length W)%nat) by lia.
    rewrite (occ_window sub pre W rest idx Fit), <- HV in Ho.
    destruct (Nat.lt_ge_cases (length pre + idx) i0) as [Lt|Ge].
    - rewrite (Hfirst _ Lt) in Ho. discriminate.
    - destruct (Nat.eq_dec (length pre + idx) i0) as [E|NE]; [exact E|]. exfalso.
      assert (K : (start <= i0 - length pre < idx)%nat) by lia.
      specialize (Hn _ K).
      assert (Fit0 : (i0 - length pre + length sub <= length W)%nat) by lia.
      rewrite (occ_window sub pre W rest _ Fit0), <- HV in Hn.
      replace (length pre + (i0 - length pre))%nat with i0 in Hn by lia. congruence.
  Qed.

  Lemma window_not_found :
    (forall k, (start <= k)%nat -> starts_with sub (skipn k W) = false) ->
    (length pre + length W < i0 + length sub)%nat.
  Proof.
    intro Hn. destruct (Nat.lt_ge_cases (length pre + length W) (i0 + length sub)) as [Lt|Ge]; [exact Lt|]. exfalso.
    assert (Fit0 : (i0 - length pre + length sub <= length W)%nat) by lia.
    assert (K : (start <= i0 - length pre)%nat) by lia.
    specialize (Hn _ K). rewrite (occ_window sub pre W rest _ Fit0), <- HV in Hn.
    replace (length pre + (i0 - length pre))%nat with i0 in Hn by lia. congruence.
  Qed.
End Window.
