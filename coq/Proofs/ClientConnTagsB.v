(* C06 — the tag invariant is preserved by the steps of an open data_received call. *)
From AV Require Import Lib.Base Generated.ClientConnGen Model.ClientConn Proofs.ClientConnBase Proofs.ClientConnStruct
  Proofs.ClientConnTagsDef Proofs.ClientConnCore Proofs.ClientConnTagsA.
Open Scope N_scope.

Lemma conntags_fields s c cn' :
  ConnTags s c ->
  c_phase cn' = c_phase (s_conn s c) -> c_buf cn' = c_buf (s_conn s c) -> c_htail cn' = c_htail (s_conn s c) ->
  c_pst cn' = c_pst (s_conn s c) -> (c_phase cn' = PClosed -> c_conn cn' = false) ->
  ConnTags (set_conn s c cn') c.
Proof.
  intros [A B C D E] H1 H2 H3 H4 H5. split; cbn; rewrite upd_same; rewrite ?H1, ?H2, ?H3, ?H4; try assumption.
  now rewrite <- H1.
Qed.

Lemma segtags_frame s s' g :
  s_conn s' (g_c g) = s_conn s (g_c g) -> s_pay s' = s_pay s -> s_npay s' = s_npay s ->
  SegTags s g -> SegTags s' g.
Proof.
  intros Hc Hp Hn [G1 G2 G3 G4 G5 G6 G7 G8 G9 G10 G11 G12 G13].
  split; rewrite ?Hc, ?Hp; try assumption.
  eapply Forall_impl; [|exact G5]. intros m. apply msg_ok_transfer. now apply pay_stable_same.
Qed.

Lemma segtags_pop s g p q :
  SegTags s g -> g_queue g = p :: q -> SegTags s (set_g_queue g q).
Proof.
  intros [G1 G2 G3 G4 G5 G6 G7 G8 G9 G10 G11 G12 G13] Hq. split; cbn; try assumption.
  - rewrite Hq in G2. now inversion G2.
  - intros Hi. destruct (G6 Hi) as (_ & _ & H). congruence.
  - intros pid rem Hp Hcb. destruct (G7 pid rem Hp Hcb) as (_ & H). congruence.
  - intros _. apply G12. congruence.
Qed.

Section Tok.
Variable cf : cfg.

(* the connection of the open segment changes, payloads do not *)
Lemma tags_tok_simple s g0 g' cn' :
  Tags s -> s_seg s = Some g0 -> g_c g' = g_c g0 ->
  ConnTags (set_conn s (g_c g0) cn') (g_c g0) ->
  SegTags (set_conn s (g_c g0) cn') g' ->
  Tags (set_s_seg (set_conn s (g_c g0) cn') (Some g')).
Proof.
  intros T Hs Hc HC HS. split.
  - apply core_set_seg. apply core_set_conn; [exact (tg_core s T)|exact HC].
  - intros g Hg. cbn in Hg. injection Hg as <-. eapply segtags_frame; [| | |exact HS]; reflexivity.
  - intros c' Hn. cbn. assert (Hne : c' <> g_c g0).
    { intros ->. apply Hn. exists g'. split; [reflexivity|exact Hc]. }
    rewrite upd_other by assumption. apply (tg_link s T). intros [g1 [H1 H2]]. rewrite Hs in H1. injection H1 as <-. congruence.
Qed.

(* nothing changes but the segment record *)
Lemma tags_tok_seg_only s g0 g' :
  Tags s -> s_seg s = Some g0 -> g_c g' = g_c g0 -> SegTags s g' -> Tags (set_s_seg s (Some g')).
Proof.
  intros T Hs Hc HS. split.
  - apply core_set_seg. exact (tg_core s T).
  - intros g Hg. cbn in Hg. injection Hg as <-. eapply segtags_frame; [| | |exact HS]; reflexivity.
  - intros c' Hn. cbn. apply (tg_link s T). intros [g1 [H1 H2]]. rewrite Hs in H1. injection H1 as <-.
    apply Hn. exists g'. split; [reflexivity|congruence].
Qed.


(* parse error: transport closed, exception set, the messages of this read are dropped *)
Lemma tags_parse_error s g0 g e0 :
  Tags s -> s_seg s = Some g0 -> g_c g = g_c g0 -> SegTags s g ->
  c_phase (s_conn s (g_c g0)) = PFlight e0 -> c_pst (s_conn s (g_c g0)) = PSHead ->
  Tags (set_s_seg (fst (parse_error s g)) (Some (snd (parse_error s g)))).
Proof.
  intros T Hs Hc SG Hph Hp. unfold parse_error. cbn [fst snd]. rewrite Hc.
  destruct SG as [G1 G2 G3 G4 G5 G6 G7 G8 G9 G10 G11 G12 G13]. rewrite Hc in *.
  apply tags_tok_simple; try assumption.
  - apply conntags_fields; [apply (tg_conn s (tg_core s T))|reflexivity|reflexivity|reflexivity|reflexivity|intros; reflexivity].
  - split; cbn; rewrite ?Hc, ?upd_same; cbn; rewrite ?Hph, ?Hp; try assumption;
      try solve [intros; discriminate]; try solve [constructor]; try solve [intros; now split];
      try solve [intros e He; injection He as <-; now apply G1]; try solve [intros _; now exists e0].
Qed.


(* a head that brings no payload (Content-Length: 0, or a 101 upgrade) *)
Lemma tags_head_nopay s g0 g e0 cn' m :
  Tags s -> s_seg s = Some g0 -> g_c g = g_c g0 -> SegTags s g ->
  c_phase (s_conn s (g_c g0)) = PFlight e0 -> c_pst (s_conn s (g_c g0)) = PSHead ->
  g_err g = false -> g_stash g = false -> g_rest g = [] ->
  c_phase cn' = PFlight e0 -> c_buf cn' = c_buf (s_conn s (g_c g0)) -> c_htail cn' = c_htail (s_conn s (g_c g0)) ->
  c_pst cn' = PSHead -> m_tag m = g_tag g -> m_pay m = None ->
  Tags (set_s_seg (set_conn s (g_c g0) cn') (Some (set_g_msgs g (g_msgs g ++ [m])))).
Proof.
  intros T Hs Hc SG Hph Hp He Hst Hr C1 C2 C3 C4 M1 M2.
  destruct SG as [G1 G2 G3 G4 G5 G6 G7 G8 G9 G10 G11 G12 G13]. rewrite Hc in *.
  apply tags_tok_simple; try assumption.
  - apply conntags_fields; [apply (tg_conn s (tg_core s T))|congruence|assumption|assumption|congruence|intros; congruence].
  - split; cbn; rewrite ?Hc, ?upd_same; cbn; rewrite ?C1, ?C4, ?He, ?Hst, ?Hr; try assumption;
      try solve [intros; discriminate]; try solve [constructor];
      try solve [intros e He'; injection He' as <-; now apply G1]; try solve [intros _; now exists e0];
      try solve [intros H'; exfalso; now apply H'].
    + apply Forall_app. split; [exact G3|now constructor].
    + apply Forall_app. split.
      * eapply Forall_impl; [|exact G5]. intros m'. apply msg_ok_transfer. now apply pay_stable_same.
      * constructor; [|constructor]. intros pid Hm. congruence.
Qed.


Lemma tags_tok_general s g0 s' g' :
  Tags s -> s_seg s = Some g0 -> g_c g' = g_c g0 -> Core s' ->
  (forall c', c' <> g_c g0 -> s_conn s' c' = s_conn s c') ->
  SegTags s' g' ->
  Tags (set_s_seg s' (Some g')).
Proof.
  intros T Hs Hc K Hoth HS. split.
  - now apply core_set_seg.
  - intros g Hg. cbn in Hg. injection Hg as <-. eapply segtags_frame; [| | |exact HS]; reflexivity.
  - intros c' Hn. cbn. assert (Hne : c' <> g_c g0).
    { intros ->. apply Hn. exists g'. split; [reflexivity|exact Hc]. }
    rewrite (Hoth c' Hne). apply (tg_link s T). intros [g1 [H1 H2]]. rewrite Hs in H1. injection H1 as <-. congruence.
Qed.

(* a head announcing a body: a fresh payload is allocated and the parser enters the body state *)
Lemma tags_head_pay s g0 g e0 cn' m blen :
  Tags s -> s_seg s = Some g0 -> g_c g = g_c g0 -> SegTags s g ->
  c_phase (s_conn s (g_c g0)) = PFlight e0 -> c_pst (s_conn s (g_c g0)) = PSHead ->
  g_err g = false -> g_stash g = false -> g_rest g = [] ->
  c_phase cn' = PFlight e0 -> c_buf cn' = c_buf (s_conn s (g_c g0)) -> c_htail cn' = c_htail (s_conn s (g_c g0)) ->
  c_pst cn' = PSBody (s_npay s) blen -> m_tag m = g_tag g -> m_pay m = Some (s_npay s) ->
  let pl := {| p_tag := g_tag g; p_conn := g_c g0; p_items := []; p_eof := false; p_exc := false; p_cb := None |} in
  Tags (set_s_seg (set_conn (set_s_npay (set_payl s (s_npay s) pl) (s_npay s + 1)) (g_c g0) cn')
                  (Some (set_g_msgs g (g_msgs g ++ [m])))).
Proof.
  intros T Hs Hc SG Hph Hp He Hst Hr C1 C2 C3 C4 M1 M2 pl.
  destruct SG as [G1 G2 G3 G4 G5 G6 G7 G8 G9 G10 G11 G12 G13]. rewrite Hc in *.
  set (c := g_c g0) in *. set (pid := s_npay s) in *.
  set (s' := set_conn (set_s_npay (set_payl s pid pl) (pid + 1)) c cn').
  assert (Htg : g_tag g = TFlight e0) by now apply G1.
  assert (Ps : pay_stable s s').
  { split; [cbn; fold pid; lia|]. intros pid' Hlt. cbn. rewrite upd_other; [now split|fold pid in Hlt; lia]. }
  destruct (tg_core s T) as [A B C D].
  assert (K : Core s').
  { split.
    - exact A.
    - intros c'. destruct (N.eq_dec c' c) as [->|Hne].
      + pose proof (B c) as [B1 B2 B3 B4 B5]. split; cbn; rewrite upd_same; rewrite ?C1, ?C2, ?C3, ?C4; try (intros; discriminate).
        * intros e' He'. injection He' as <-. now apply B1.
        * eapply Forall_impl; [|exact B4]. intros m'. now apply msg_ok_transfer.
        * intros pid' rem' Hp'. injection Hp' as <- <-. rewrite upd_same. cbn. repeat split; [fold pid; lia|].
          intros e' He'. injection He' as <-. exact Htg.
      + apply (conntags_transfer s); [cbn; now apply upd_other|exact Ps| |apply B].
        intros pid' rem' Hp'. cbn. destruct (ct_pst s c' (B c') pid' rem' Hp') as (Hlt & _).
        rewrite upd_other; [reflexivity|fold pid in Hlt; lia].
    - intros pid'. cbn. destruct (upd_cases (s_pay s) pid pl pid') as [[-> E']|[_ E']]; rewrite E'; [constructor|apply C].
    - intros e' pid' Hx. cbn in Hx. destruct (D e' pid' Hx) as [D1 D2]. cbn. split; [fold pid; lia|].
      rewrite upd_other; [exact D2|fold pid in D1; lia]. }
  apply (tags_tok_general s g0); try assumption.
  - intros c' Hne. cbn. now apply upd_other.
  - split; cbn; rewrite ?Hc, ?upd_same; cbn; rewrite ?C1, ?C4, ?He, ?Hst, ?Hr; try assumption;
      try solve [intros; discriminate]; try solve [constructor];
      try solve [intros e He'; injection He' as <-; now apply G1]; try solve [intros _; now exists e0];
      try solve [intros H'; exfalso; now apply H'].
    + apply Forall_app. split; [exact G3|now constructor].
    + apply Forall_app. split.
      * eapply Forall_impl; [|exact G5]. intros m'. now apply msg_ok_transfer.
      * constructor; [|constructor]. intros pid' Hm. rewrite M2 in Hm. injection Hm as <-. cbn.
        rewrite upd_same. cbn. split; [fold pid; lia|now rewrite M1].
    + intros pid' rem' Hp'. injection Hp' as <- <-. rewrite upd_same. cbn. intros H'. now exfalso.
    + intros pid' rem' Hp'. injection Hp' as <- <-. rewrite upd_same. reflexivity.
    + intros pid' rem' Hp' _. injection Hp' as <- <-. now rewrite last_pay_snoc.
Qed.


Lemma tags_frame s s' :
  s_conn s' = s_conn s -> s_pay s' = s_pay s -> s_npay s' = s_npay s -> s_log s' = s_log s ->
  s_x s' = s_x s -> s_seg s' = s_seg s -> Tags s -> Tags s'.
Proof.
  intros H1 H2 H3 H4 H5 H6 [K G L]. split.
  - apply (core_frame s); try assumption; [intros c; now rewrite H1|intros e; now rewrite H5].
  - intros g Hg. rewrite H6 in Hg. eapply segtags_frame; [| | |exact (G g Hg)]; [now rewrite H1|assumption|assumption].
  - intros c Hn. rewrite H1. apply L. intros [g [Hg Hc]]. apply Hn. exists g. split; [now rewrite H6|exact Hc].
Qed.

Lemma tags_surplus_tail s1 cn g :
  Tags (set_s_seg s1 (Some g)) -> Tags (set_s_seg (surplus_tail s1 cn) (Some g)).
Proof.
  intros T. unfold surplus_tail. destruct (prog_done _); [|exact T].
  eapply tags_frame; [| | | | | |exact T]; reflexivity.
Qed.

(* bytes that only extend the parser's line buffer *)
Lemma tags_ptail s g0 g e0 :
  Tags s -> s_seg s = Some g0 -> g_c g = g_c g0 -> SegTags s g ->
  c_phase (s_conn s (g_c g0)) = PFlight e0 ->
  Tags (set_s_seg (set_conn s (g_c g0) (set_c_ptail (s_conn s (g_c g0)) true)) (Some g)).
Proof.
  intros T Hs Hc SG Hph.
  destruct SG as [G1 G2 G3 G4 G5 G6 G7 G8 G9 G10 G11 G12 G13]. rewrite Hc in *.
  apply tags_tok_simple; try assumption.
  - apply conntags_fields; [apply (tg_conn s (tg_core s T))|reflexivity|reflexivity|reflexivity|reflexivity|].
    cbn. intros H'. congruence.
  - split; cbn; rewrite ?Hc, ?upd_same; cbn; assumption.
Qed.

(* body bytes that do not complete the body *)
Lemma tags_body_part s g0 g e0 pid rem id n :
  Tags s -> s_seg s = Some g0 -> g_c g = g_c g0 -> SegTags s g ->
  c_phase (s_conn s (g_c g0)) = PFlight e0 -> c_pst (s_conn s (g_c g0)) = PSBody pid rem ->
  let pl := set_p_items (s_pay s pid) (p_items (s_pay s pid) ++ [(id, g_tag g)]) in
  Tags (set_s_seg (set_conn (set_payl s pid pl) (g_c g0) (set_c_pst (s_conn s (g_c g0)) (PSBody pid (rem - n)))) (Some g)).
Proof.
  intros T Hs Hc SG Hph Hp pl.
  destruct SG as [G1 G2 G3 G4 G5 G6 G7 G8 G9 G10 G11 G12 G13]. rewrite Hc in *.
  set (c := g_c g0) in *.
  destruct (tg_core s T) as [A B C D].
  destruct (ct_pst s c (B c) pid rem Hp) as (P1 & P2 & P3 & P4).
  assert (Ps : pay_stable s (set_payl s pid pl)) by (apply pay_stable_upd; reflexivity).
  set (s' := set_conn (set_payl s pid pl) c (set_c_pst (s_conn s c) (PSBody pid (rem - n)))).
  assert (K : Core s').
  { split.
    - exact A.
    - intros c'. destruct (N.eq_dec c' c) as [->|Hne].
      + pose proof (B c) as [B1 B2 B3 B4 B5]. split; cbn; rewrite upd_same; cbn; rewrite ?Hph; try (intros; discriminate).
        * intros e' He'. injection He' as <-. now apply B1.
        * eapply Forall_impl; [|exact B4]. intros m'. now apply msg_ok_transfer.
        * intros pid' rem' Hp'. injection Hp' as <- <-. rewrite upd_same. cbn. repeat split; try assumption.
          intros e' He'. injection He' as <-. now apply P4.
      + apply (conntags_transfer s); [cbn; now apply upd_other|exact Ps| |apply B].
        intros pid' rem' Hp'. cbn. destruct (upd_cases (s_pay s) pid pl pid') as [[-> E']|[_ E']]; rewrite E'; reflexivity.
    - intros pid'. cbn. destruct (upd_cases (s_pay s) pid pl pid') as [[-> E']|[_ E']]; rewrite E'; [|apply C].
      cbn. apply Forall_app. split; [apply C|]. constructor; [|constructor]. cbn. symmetry. now apply (G9 pid rem).
    - intros e' pid' Hx. cbn in Hx. destruct (D e' pid' Hx) as [D1 D2]. cbn. split; [exact D1|].
      destruct (upd_cases (s_pay s) pid pl pid') as [[-> E']|[_ E']]; rewrite E'; exact D2. }
  apply (tags_tok_general s g0); try assumption.
  - intros c' Hne. cbn. now apply upd_other.
  - split; cbn; rewrite ?Hc, ?upd_same; cbn; rewrite ?Hph; try assumption;
      try solve [intros; discriminate];
      try solve [intros e He'; injection He' as <-; now apply G1]; try solve [intros _; now exists e0].
    + eapply Forall_impl; [|exact G5]. intros m'. now apply msg_ok_transfer.
    + intros pid' rem' Hp'. injection Hp' as <- <-. rewrite upd_same. cbn. now apply (G7 pid rem).
    + intros pid' rem' Hp'. injection Hp' as <- <-. rewrite upd_same. cbn. now apply (G9 pid rem).
    + intros H'. destruct (G10 H') as [H1 _]. congruence.
    + intros pid' rem' Hp' Hcl. injection Hp' as <- <-. apply (G13 pid rem Hp). congruence.
Qed.


Lemma release_conn_set_seg s c arg v :
  release_conn cf (set_s_seg s v) c arg = set_s_seg (release_conn cf s c arg) v.
Proof.
  unfold release_conn. cbn [s_conn set_s_seg]. destruct (c_phase (s_conn s c)); try reflexivity.
  unfold proto_should_close, pay_open. cbn [s_pay set_s_seg].
  destruct (release_closes_gen _ _ _); reflexivity.
Qed.

Lemma response_eof_set_seg s e v :
  response_eof cf (set_s_seg s v) e = set_s_seg (response_eof cf s e) v.
Proof.
  unfold response_eof. cbn [s_x s_conn set_s_seg]. destruct (response_eof_releases_gen _ _); [|reflexivity].
  destruct (x_held (s_x s e)); [|reflexivity].
  change (set_exch (set_s_seg s v) e (set_x_held (set_x_closed (s_x s e) true) false))
    with (set_s_seg (set_exch s e (set_x_held (set_x_closed (s_x s e) true) false)) v).
  apply release_conn_set_seg.
Qed.

Lemma response_eof_spec s e c' :
  let s' := response_eof cf s e in
  s_conn s' c' = s_conn s c' \/
  (c_phase (s_conn s' c') = PClosed /\ c_pst (s_conn s' c') = c_pst (s_conn s c') /\
   c_pupg (s_conn s' c') = c_pupg (s_conn s c') /\ exists e0, c_phase (s_conn s c') = PFlight e0) \/
  (c_phase (s_conn s' c') = PIdle /\ c_pst (s_conn s' c') = c_pst (s_conn s c') /\
   c_pupg (s_conn s' c') = c_pupg (s_conn s c') /\ exists e0, c_phase (s_conn s c') = PFlight e0).
Proof.
  cbv zeta. unfold response_eof. destruct (response_eof_releases_gen _ _); [|now left].
  destruct (x_held (s_x s e)); [|now left].
  destruct (release_conn_spec cf (set_exch s e (set_x_held (set_x_closed (s_x s e) true) false)) (x_conn (s_x s e)) false c')
    as [E|[(_ & E1 & E2 & E3 & E4)|(_ & E1 & E2 & _ & E3 & E4)]].
  - left. exact E.
  - right; left. repeat split; assumption.
  - right; right. repeat split; assumption.
Qed.

Lemma response_eof_frame s e :
  let s' := response_eof cf s e in
  s_pay s' = s_pay s /\ s_npay s' = s_npay s /\ s_seg s' = s_seg s /\ s_log s' = s_log s.
Proof.
  cbv zeta. unfold response_eof. destruct (response_eof_releases_gen _ _); [|now repeat split].
  destruct (x_held (s_x s e)); [|now repeat split].
  destruct (release_conn_frame cf (set_exch s e (set_x_held (set_x_closed (s_x s e) true) false)) (x_conn (s_x s e)) false)
    as (H1 & H2 & _ & H4 & H5). now repeat split.
Qed.

(* the end-of-body callback fires in the middle of a read: nothing of this read is pending *)
Lemma tags_response_eof_seg s g e1 :
  Struct s -> Tags s -> s_seg s = Some g ->
  c_pst (s_conn s (g_c g)) = PSHead -> g_msgs g = [] -> g_rest g = [] -> g_queue g = [] ->
  Tags (response_eof cf s e1).
Proof.
  intros S T Hs Hp Hm Hr Hq.
  assert (L : forall c', LinkOK (s_conn s c')).
  { intros c'. destruct (N.eq_dec c' (g_c g)) as [->|Hne]; [now apply linkok_head|].
    apply (tg_link s T). intros [g1 [H1 H2]]. rewrite Hs in H1. injection H1 as <-. congruence. }
  destruct (response_eof_frame s e1) as (Fp & Fn & Fs & Fl).
  split.
  - apply core_response_eof; [exact S|exact (tg_core s T)|apply L].
  - intros g' Hg'. rewrite Fs, Hs in Hg'. injection Hg' as <-.
    destruct (tg_seg s T g Hs) as [G1 G2 G3 G4 G5 G6 G7 G8 G9 G10 G11 G12 G13].
    destruct (response_eof_spec s e1 (g_c g)) as [E|[(E1 & E2 & E3 & E4)|(E1 & E2 & E3 & E4)]].
    + eapply segtags_frame; [exact E|exact Fp|exact Fn|]. now split.
    + split; rewrite ?E1, ?E2, ?E3, ?Fp, ?Hm, ?Hr, ?Hq, ?Hp; try solve [intros; discriminate]; try solve [constructor];
        try solve [intros; now repeat split]; try solve [intros H'; exfalso; now apply H'].
    + split; rewrite ?E1, ?E2, ?E3, ?Fp, ?Hm, ?Hr, ?Hq, ?Hp; try solve [intros; discriminate]; try solve [constructor];
        try solve [intros; now repeat split]; try solve [intros H'; exfalso; now apply H'].
  - intros c' _. now apply linkok_response_eof.
Qed.


(* a change of fields the invariant does not read (ghost progress, dirtiness, flags of the handler) *)
Lemma tags_conn_irrelevant s c cn' :
  Tags s ->
  c_phase cn' = c_phase (s_conn s c) -> c_buf cn' = c_buf (s_conn s c) -> c_htail cn' = c_htail (s_conn s c) ->
  c_pst cn' = c_pst (s_conn s c) -> c_pay cn' = c_pay (s_conn s c) -> c_conn cn' = c_conn (s_conn s c) ->
  c_pupg cn' = c_pupg (s_conn s c) ->
  Tags (set_conn s c cn').
Proof.
  intros [K G L] H1 H2 H3 H4 H5 H6 H7. split.
  - apply core_set_conn; [exact K|]. apply conntags_fields; try assumption; [apply (tg_conn s K)|].
    intros Hc. rewrite H6. apply (ct_closed s c (tg_conn s K c)). congruence.
  - intros g Hg. cbn in Hg. specialize (G g Hg). destruct (N.eq_dec (g_c g) c) as [E|Hne].
    + destruct G as [G1 G2 G3 G4 G5 G6 G7 G8 G9 G10 G11 G12 G13].
      split; cbn; rewrite E in *; rewrite ?upd_same; rewrite ?H1, ?H4, ?H5, ?H7; assumption.
    + eapply segtags_frame; [| | |exact G]; try reflexivity. cbn. now apply upd_other.
  - intros c' Hn. cbn. destruct (upd_cases (s_conn s) c cn' c') as [[-> E]|[_ E]]; rewrite E; [|now apply L].
    intros pid rem Hp Hcl. rewrite H4 in Hp. rewrite H5. apply (L c Hn pid rem Hp). congruence.
Qed.

(* body bytes that complete the body: payload eof, callbacks fire; excess bytes reach the line buffer afterwards *)
Lemma tags_body_done s g0 g e0 pid rem id (b : bool) :
  Struct s -> Tags s -> s_seg s = Some g0 -> g_c g = g_c g0 -> SegTags s g ->
  c_phase (s_conn s (g_c g0)) = PFlight e0 -> c_pst (s_conn s (g_c g0)) = PSBody pid rem ->
  c_pupg (s_conn s (g_c g0)) = false ->
  let cn := s_conn s (g_c g0) in
  let pl := set_p_items (s_pay s pid) (p_items (s_pay s pid) ++ [(id, g_tag g)]) in
  let s1 := set_payl s pid (set_p_cb (set_p_eof pl true) None) in
  let s2 := set_conn s1 (g_c g0) (set_c_pst cn PSHead) in
  let s3 := match p_cb pl with Some e1 => response_eof cf s2 e1 | None => s2 end in
  Tags (set_s_seg (if b then surplus_tail (set_conn s3 (g_c g0) (set_c_ptail (s_conn s3 (g_c g0)) true)) cn else s3) (Some g)).
Proof.
  intros S T Hs Hc SG Hph Hp Hu cn pl s1 s2 s3. subst cn.
  pose proof SG as [G1 G2 G3 G4 G5 G6 G7 G8 G9 G10 G11 G12 G13]. rewrite Hc in *.
  set (c := g_c g0) in *.
  destruct (tg_core s T) as [A B C D].
  destruct (ct_pst s c (B c) pid rem Hp) as (P1 & P2 & P3 & P4).
  assert (Ps : pay_stable s s1) by (apply pay_stable_upd; reflexivity).
  assert (K : Core s2).
  { split.
    - exact A.
    - intros c'. destruct (N.eq_dec c' c) as [->|Hne].
      + pose proof (B c) as [B1 B2 B3 B4 B5]. split; cbn; rewrite upd_same; cbn; rewrite ?Hph; try (intros; discriminate).
        * intros e' He'. injection He' as <-. now apply B1.
        * eapply Forall_impl; [|exact B4]. intros m'. now apply msg_ok_transfer.
      + apply (conntags_transfer s); [cbn; now apply upd_other|exact Ps| |apply B].
        intros pid' rem' Hp'. cbn. destruct (upd_cases (s_pay s) pid (set_p_cb (set_p_eof pl true) None) pid') as [[-> E']|[_ E']]; rewrite E'; [|reflexivity].
        exfalso. destruct (ct_pst s c' (B c') pid rem' Hp') as (_ & Q2 & _). congruence.
    - intros pid'. cbn. destruct (upd_cases (s_pay s) pid (set_p_cb (set_p_eof pl true) None) pid') as [[-> E']|[_ E']]; rewrite E'; [|apply C].
      cbn. apply Forall_app. split; [apply C|]. constructor; [|constructor]. cbn. symmetry. now apply (G9 pid rem).
    - intros e' pid' Hx. cbn in Hx. destruct (D e' pid' Hx) as [D1 D2]. cbn. split; [exact D1|].
      destruct (upd_cases (s_pay s) pid (set_p_cb (set_p_eof pl true) None) pid') as [[-> E']|[_ E']]; rewrite E'; exact D2. }
  assert (T2 : Tags (set_s_seg s2 (Some g))).
  { apply (tags_tok_general s g0); try assumption.
    - intros c' Hne. cbn. now apply upd_other.
    - split; cbn; rewrite ?Hc, ?upd_same; cbn; rewrite ?Hph; try assumption;
        try solve [intros; discriminate];
        try solve [intros e He'; injection He' as <-; now apply G1]; try solve [intros _; now exists e0].
      + eapply Forall_impl; [|exact G5]. intros m'. now apply msg_ok_transfer.
      + intros H'. destruct (G10 H') as [H1 _]. congruence. }
  assert (S2 : Struct s2).
  { subst s2 s1. apply sf_conn; [now apply sf_payl|reflexivity]. }
  assert (T3 : Tags (set_s_seg s3 (Some g))).
  { subst s3. cbn [p_cb pl set_p_items]. destruct (p_cb (s_pay s pid)) as [e1|] eqn:Ecb; [|exact T2].
    destruct (G7 pid rem Hp) as [Hm Hq]; [congruence|].
    assert (Hr : g_rest g = []).
    { destruct (g_rest g) eqn:Er; [reflexivity|]. assert (c_pupg (s_conn s c) = true) by (apply G8; discriminate). congruence. }
    rewrite <- response_eof_set_seg.
    apply (tags_response_eof_seg (set_s_seg s2 (Some g)) g e1); try assumption; [now apply sf_seg|reflexivity|].
    cbn [s_conn set_s_seg]. rewrite Hc. subst s2. cbn. now rewrite upd_same. }
  destruct b; [|exact T3].
  apply tags_surplus_tail.
  exact (tags_conn_irrelevant (set_s_seg s3 (Some g)) c (set_c_ptail (s_conn s3 c) true) T3
           eq_refl eq_refl eq_refl eq_refl eq_refl eq_refl eq_refl).
Qed.

Lemma tags_proc_tok s g0 g tk tg s1 g1 e0 :
  Struct s -> Tags s -> s_seg s = Some g0 -> g_c g = g_c g0 -> SegTags s g ->
  c_phase (s_conn s (g_c g0)) = PFlight e0 -> tg = g_tag g ->
  proc_tok cf s g tk tg = Some (s1, g1) ->
  Tags (set_s_seg s1 (Some g1)).
Proof.
  intros S T Hs Hc SG Hph Htg H. subst tg. unfold proc_tok in H. rewrite Hc in H.
  pose proof SG as [G1 G2 G3 G4 G5 G6 G7 G8 G9 G10 G11 G12 G13]. rewrite Hc in *.
  set (c := g_c g0) in *.
  assert (Hgt : g_tag g = TFlight e0) by now apply G1.
  destruct (g_err g) eqn:Ee; [inv_some; now apply (tags_tok_seg_only s g0)|].
  destruct (g_stash g) eqn:Est.
  { inv_some. apply tags_tok_simple; try assumption.
    - pose proof (tg_conn s (tg_core s T) c) as [B1 B2 B3 B4 B5].
      split; cbn; rewrite upd_same; cbn; rewrite ?Hph; try assumption; try (intros; discriminate).
      + intros e' He'. injection He' as <-. destruct (B1 e0 Hph) as [X1 X2]. split; [exact X1|].
        apply Forall_app. split; [exact X2|]. constructor; [exact Hgt|constructor].
      + intros pid rem Hp'. destruct (B5 pid rem Hp') as (Q1 & Q2 & Q3 & Q4). repeat split; try assumption.
        intros e' He'. injection He' as <-. now apply Q4.
    - split; cbn; rewrite ?Hc, ?upd_same; cbn; try assumption;
        try solve [intros H'; congruence]; try solve [intros _; now apply G11]. }
  destruct (c_pupg (s_conn s c)) eqn:Eu.
  { inv_some. apply (tags_tok_seg_only s g0); try assumption.
    split; cbn; rewrite ?Hc; try assumption;
      try solve [intros H'; congruence]; try solve [intros _; now apply G11].
    apply Forall_app. split; [exact G4|]. constructor; [reflexivity|constructor]. }
  assert (Hr : g_rest g = []).
  { destruct (g_rest g) eqn:Er; [reflexivity|]. exfalso. assert (false = true) by (apply G8; discriminate). discriminate. }
  unfold parse_tok in H. rewrite Hc in H. fold c in H.
  destruct (c_pst (s_conn s c)) as [|pid rem] eqn:Ep; destruct tk as [id blen cl up|id n|id|id]; try discriminate.
  - (* head *)
    destruct (c_ptail _ || c_psc _).
    { assert (E' : parse_error s g = (s1, g1)) by congruence.
      pose proof (tags_parse_error s g0 g e0 T Hs Hc SG Hph Ep) as X. rewrite E' in X. exact X. }
    destruct up.
    { inv_some. apply (tags_head_nopay s g0 g e0); try assumption; try reflexivity; try (cbn; exact Hph). }
    destruct (blen =? 0).
    { inv_some. apply (tags_head_nopay s g0 g e0); try assumption; try reflexivity; try (cbn; exact Hph). }
    inv_some. apply (tags_head_pay s g0 g e0 _ _ blen); try assumption; try reflexivity; try (cbn; exact Hph).
  - inv_some. apply tags_surplus_tail. now apply (tags_ptail s g0 g e0).
  - assert (E' : parse_error s g = (s1, g1)) by congruence.
    pose proof (tags_parse_error s g0 g e0 T Hs Hc SG Hph Ep) as X. rewrite E' in X. exact X.
  - inv_some. apply tags_surplus_tail. now apply (tags_ptail s g0 g e0).
  - destruct (n <? rem).
    + inv_some. now apply (tags_body_part s g0 g e0 pid rem id n).
    + inv_some. now apply (tags_body_done s g0 g e0 pid rem id (rem <? n)).
Qed.


Lemma tags_ghost_tok s c tk e0 :
  Tags s -> c_phase (s_conn s c) = PFlight e0 -> Tags (ghost_tok s c tk).
Proof.
  intros T Hph. unfold ghost_tok. rewrite Hph. destruct (ghost_prog _ _). now apply tags_conn_irrelevant.
Qed.

Lemma ghost_tok_noflight_flag s c tk :
  (forall e, c_phase (s_conn s c) <> PFlight e) -> s_idle_parsed (ghost_tok s c tk) = true.
Proof. intros H. unfold ghost_tok. destruct (c_phase (s_conn s c)) eqn:E; [now destruct (H e)|reflexivity|reflexivity]. Qed.

Lemma ghost_tok_fields s c tk c' :
  s_seg (ghost_tok s c tk) = s_seg s /\ c_phase (s_conn (ghost_tok s c tk) c') = c_phase (s_conn s c').
Proof.
  unfold ghost_tok. destruct (c_phase (s_conn s c)) eqn:E; [destruct (ghost_prog _ _)| |]; cbn; (split; [reflexivity|]);
    unfold upd; destruct (c' =? c) eqn:Ec; try reflexivity; apply N.eqb_eq in Ec; subst; cbn; congruence.
Qed.

Lemma tags_tok s tk s' :
  Struct s -> Tags s -> do_tok cf s tk = Some s' -> s_idle_parsed s' = false -> Tags s'.
Proof.
  intros S T H F. unfold do_tok in H. destruct (s_seg s) as [g|] eqn:Hs; [|discriminate].
  destruct (g_queue g) eqn:Hq; [|discriminate].
  destruct (proc_tok cf (ghost_tok s (g_c g) tk) g tk (g_tag g)) as [[s1 g1]|] eqn:Ep; [|discriminate]. inv_some.
  cbn in F. rewrite (proc_tok_idle_flag _ _ _ _ _ _ _ Ep) in F.
  destruct (c_phase (s_conn s (g_c g))) as [e0| |] eqn:Hph.
  - destruct (ghost_tok_fields s (g_c g) tk (g_c g)) as [Fs Fp].
    eapply (tags_proc_tok (ghost_tok s (g_c g) tk) g g tk (g_tag g) s1 g1 e0); try reflexivity; try exact Ep.
    + now apply struct_ghost_tok.
    + now apply (tags_ghost_tok s (g_c g) tk e0).
    + now rewrite Fs.
    + apply (tg_seg _ (tags_ghost_tok s (g_c g) tk e0 T Hph)). now rewrite Fs.
    + now rewrite Fp.
  - rewrite ghost_tok_noflight_flag in F; [discriminate|]. intros e. congruence.
  - rewrite ghost_tok_noflight_flag in F; [discriminate|]. intros e. congruence.
Qed.

Lemma tags_replay s s' :
  Struct s -> Tags s -> do_replay cf s = Some s' -> Tags s'.
Proof.
  intros S T H. unfold do_replay in H. destruct (s_seg s) as [g|] eqn:Hs; [|discriminate].
  destruct (g_queue g) as [|[tk tg] q] eqn:Hq; [discriminate|].
  destruct (proc_tok cf s (set_g_queue g q) tk tg) as [[s1 g1]|] eqn:Ep; [|discriminate]. inv_some.
  pose proof (tg_seg s T g Hs) as SG.
  destruct (sg_replay s g SG) as [e0 Hph]; [congruence|].
  pose proof (sg_queue s g SG) as Q. rewrite Hq in Q. inversion Q; subst. cbn in H1.
  eapply (tags_proc_tok s g (set_g_queue g q) tk tg s1 g1 e0); try exact Ep; try assumption; try reflexivity;
    try (eapply segtags_pop; eauto).
Qed.

Lemma tags_segend s s' :
  Struct s -> Tags s -> do_segend s = Some s' -> Tags s'.
Proof.
  intros S T H. unfold do_segend in H. destruct (s_seg s) as [g|] eqn:Hs; [|discriminate].
  destruct (g_queue g) eqn:Hq; [|discriminate]. inv_some.
  pose proof (tg_seg s T g Hs) as [G1 G2 G3 G4 G5 G6 G7 G8 G9 G10 G11 G12 G13].
  set (c := g_c g) in *. set (cn := s_conn s c) in *.
  pose proof (tg_conn s (tg_core s T) c) as [B1 B2 B3 B4 B5]. fold cn in B1, B2, B3, B4, B5.
  match goal with |- Tags (set_s_seg (set_conn s c ?x) None) => set (cn1 := x) end.
  assert (Hf : c_phase cn1 = c_phase cn /\ c_pst cn1 = c_pst cn /\ c_conn cn1 = c_conn cn /\
               c_buf cn1 = c_buf cn ++ (if g_err g || g_stash g then [] else g_msgs g) /\
               c_htail cn1 = c_htail cn ++ (if g_err g || g_stash g then [] else g_rest g) /\
               c_pay cn1 = (if g_err g || g_stash g then c_pay cn else last_pay (g_msgs g) (c_pay cn))).
  { subst cn1. destruct (g_err g || g_stash g); [rewrite !app_nil_r; now repeat split|].
    cbn. destruct (push_msgs_fields (g_msgs g) cn) as (P1 & P2 & P3 & P4 & P5 & P6 & P7).
    rewrite P1, P2, P3, P4, P6, P7. now repeat split. }
  destruct Hf as (F1 & F2 & F3 & F4 & F5 & F6).
  assert (Hempty : g_err g || g_stash g = true -> g_msgs g = []).
  { intros H'. apply orb_true_iff in H' as [H'|H']; [now apply G10|now apply G11]. }
  apply tags_noseg.
  - apply core_set_seg. apply core_set_conn; [exact (tg_core s T)|].
    split; cbn; rewrite upd_same; rewrite ?F1, ?F2, ?F3, ?F4, ?F5; try assumption.
    + intros e He. destruct (B1 e He) as [X1 X2]. specialize (G1 e He). split; apply Forall_app; (split; [assumption|]);
        destruct (g_err g || g_stash g); try constructor.
      * eapply Forall_impl; [|exact G3]. intros m Hm. congruence.
      * eapply Forall_impl; [|exact G4]. intros m Hm. congruence.
    + intros Hi. destruct (B2 Hi) as (X1 & X2 & X3). destruct (G6 Hi) as (Y1 & Y2 & _).
      rewrite X1, X2, Y1, Y2. now destruct (g_err g || g_stash g).
    + apply Forall_app. split; [exact B4|]. destruct (g_err g || g_stash g); [constructor|exact G5].
  - reflexivity.
  - intros c'. cbn. destruct (upd_cases (s_conn s) c cn1 c') as [[-> E']|[Hne E']]; rewrite E'.
    + intros pid rem Hp Hcl. rewrite F2 in Hp. rewrite F1 in Hcl. rewrite F6.
      specialize (G13 pid rem Hp Hcl). destruct (g_err g || g_stash g) eqn:Ees; [|exact G13].
      rewrite (Hempty eq_refl) in G13. exact G13.
    + apply (tg_link s T). intros [g1 [X1 X2]]. rewrite Hs in X1. injection X1 as <-. now apply Hne.
Qed.

(* ---- the invariant along every run ---- *)
Theorem tags_step s ev s' :
  Struct s -> Tags s -> step cf s ev = Some s' -> s_idle_parsed s' = false -> Tags s'.
Proof.
  intros S T H F. destruct ev; cbn [step] in H;
    try (destruct (no_seg s) eqn:Hn; [|discriminate];
         assert (Hs : s_seg s = None) by (unfold no_seg in Hn; destruct (s_seg s); [discriminate|reflexivity])).
  - eapply tags_connect; eauto.
  - eapply tags_params; eauto.
  - eapply tags_read; eauto.
  - eapply tags_body; eauto.
  - eapply tags_release; eauto.
  - eapply tags_release; eauto.
  - eapply tags_segbegin; eauto.
  - eapply tags_tok; eauto.
  - eapply tags_replay; eauto.
  - eapply tags_segend; eauto.
  - eapply tags_peerclose; eauto.
Qed.

End Tok.

Lemma good_run cf : forall tr s0 s,
  Struct s0 -> Tags s0 -> run cf s0 tr = Some s -> s_idle_parsed s = false -> Struct s /\ Tags s.
Proof.
  induction tr as [|ev tr IH]; intros s0 s S0 T0 Hr F; cbn [run] in Hr.
  - inversion Hr; subst. now split.
  - destruct (step cf s0 ev) as [s1|] eqn:E; [|discriminate].
    assert (F1 : s_idle_parsed s1 = false).
    { destruct (s_idle_parsed s1) eqn:F1; [|reflexivity].
      assert (X : forall tr' sa sb, run cf sa tr' = Some sb -> s_idle_parsed sa = true -> s_idle_parsed sb = true).
      { induction tr' as [|ev' tr' IH']; intros sa sb Hr' Fa; cbn [run] in Hr'; [inversion Hr'; now subst|].
        destruct (step cf sa ev') as [sc|] eqn:E'; [|discriminate]. eapply IH'; [exact Hr'|]. eapply idle_flag_mono; eauto. }
      rewrite (X tr s1 s Hr F1) in F. discriminate. }
    eapply IH; [| |exact Hr|exact F]; [eapply struct_step; eauto|eapply tags_step; eauto].
Qed.

(* C06_no_mix_partial: as long as no token was ever handled on a connection that no exchange was holding
   (nothing arrives while a connection idles in the pool, nothing follows the end of a response in the read
   that completes it), everything a caller was given arrived while that caller's exchange held the connection *)
Theorem no_mix_quiet cf tr s :
  run cf init tr = Some s -> s_idle_parsed s = false -> no_mix s.
Proof.
  intros Hr F. destruct (good_run cf tr init s struct_init tags_init Hr F) as [_ T].
  intros d Hd. pose proof (tg_log s (tg_core s T)) as L. rewrite Forall_forall in L. now apply L.
Qed.
