(* C02: what a valid client request serialises to is delivered by the request parser as exactly one
   message with the same method, target, field list and body bytes - in one read, for every prefix
   (no read of a partial stream is ever rejected), hence under EVERY segmentation. *)
From Coq Require Import ZifyBool ZifyN.
From AV Require Import Lib.Base Lib.Utf8 Lib.BytesX Generated.WriterGen Generated.HttpGen Generated.WireGen
  Model.Writer Model.Http Model.Wire
  Proofs.HttpSegBase Proofs.HttpSegChunk Proofs.HttpSeg Proofs.WriterHeaders Proofs.WriterBody
  Proofs.WireLines Proofs.WireBody Proofs.WireHead.
Ltac Zify.zify_post_hook ::= Z.to_euclidean_division_equations.
Open Scope N_scope.

(* ------------------------------------------------------------------ generic: prefixes => segmentations *)
Lemma feed_as_loop lim o x a :
  feed lim o init x a = feed_loop (2 * length x + 2) lim o init x a.
Proof. reflexivity. Qed.

Definition prefix_accepting (lim : limits) (o : oracle) (w : bytes) : Prop :=
  forall x y, w = x ++ y -> accepts lim o init x [].

Lemma accepts_feed lim o x : accepts lim o init x [] ->
  exists s a, feed lim o init x [] = (s, a, ROk []) /\ tail_ok lim s = true.
Proof.
  intros (s & a & Hok & Hrun). exists s, a. split; [|exact Hok].
  rewrite feed_as_loop. apply Hrun. lia.
Qed.

Lemma segs_from_prefixes lim o w : prefix_accepting lim o w ->
  forall segs p s a, p ++ concat segs = w ->
    feed lim o init p [] = (s, a, ROk []) -> tail_ok lim s = true ->
    exists s' a', run_segs lim o s segs a [] = (s', a', ROk []) /\ feed lim o init w [] = (s', a', ROk []).
Proof.
  intros Hpre. induction segs as [|d segs IH]; intros p s a E Hp Hok.
  - cbn [concat] in E. rewrite app_nil_r in E. subst p. exists s, a. split; [reflexivity|exact Hp].
  - cbn [concat] in E. rewrite app_assoc in E.
    destruct (accepts_feed lim o (p ++ d) (Hpre (p ++ d) (concat segs) (eq_sym E))) as (s1 & a1 & H1 & Hok1).
    pose proof (feed_split lim o init p d [] s a [] wf_init Hp Hok) as Hsplit.
    rewrite H1 in Hsplit. destruct (feed lim o s d a) as [[s2 a2] r2] eqn:E2.
    cbn [obs] in Hsplit.
    assert (r2 = ROk [] /\ s2 = s1 /\ a2 = a1) as (-> & -> & ->).
    { destruct r2 as [l| |]; cbn [prepend] in Hsplit; inversion Hsplit; subst; auto. }
    destruct (IH (p ++ d) s1 a1 E H1 Hok1) as (s' & a' & Hrun & Hw).
    exists s', a'. split; [|exact Hw]. rewrite run_segs_cons, E2. exact Hrun.
Qed.

Theorem all_segmentations lim o w s a :
  prefix_accepting lim o w -> feed lim o init w [] = (s, a, ROk []) ->
  forall segs, concat segs = w -> run_segs lim o init segs [] [] = (s, a, ROk []).
Proof.
  intros Hpre Hw segs E.
  destruct (accepts_feed lim o [] (Hpre [] w eq_refl)) as (s0 & a0 & H0 & Hok0).
  assert (H00 : feed lim o init [] [] = (init, [], ROk [])) by reflexivity.
  rewrite H00 in H0. inversion H0; subst s0 a0.
  destruct (segs_from_prefixes lim o w Hpre segs [] init [] E H00 Hok0) as (s' & a' & Hrun & Hw').
  rewrite Hw in Hw'. inversion Hw'; subst. exact Hrun.
Qed.

(* ------------------------------------------------------------------ the emitted bytes *)
Definition chunk_pieces (b : cbody) : list bytes :=
  match b with BNone => [] | BBytes d => [d] | BPieces ps => ps end.

Definition body_wire (r : creq) : bytes :=
  if req_chunking r then chunked_body (chunk_pieces (c_body r))
  else body_bytes (c_body r).

Lemma concat_enc1_snoc ds : concat (map enc1 (ds ++ [[]])) = concat (map enc1 ds).
Proof. rewrite map_app, concat_app. cbn [map enc1 concat]. rewrite !app_nil_r. reflexivity. Qed.

Lemma op_data_writes ps : map op_data (map WWrite ps) = ps.
Proof. rewrite map_map. cbn [op_data]. apply map_id. Qed.

Lemma body_op_writes ps : forallb body_op (map WWrite ps) = true.
Proof. induction ps as [|p ps IH]; [reflexivity|exact IH]. Qed.

Lemma wrun_B_plain : forall ops, forallb body_op ops = true ->
  wrun (sB None false) ops = (sB None false, concat (map op_data ops)).
Proof.
  induction ops as [|op ops IH]; intro Hb; [reflexivity|].
  cbn [forallb] in Hb. apply andb_true_iff in Hb as [Ho Hb]. cbn [wrun].
  destruct op; try discriminate.
  - rewrite wstep_B_send, IH by exact Hb. reflexivity.
  - rewrite wstep_B_write. cbn [wlen wchunk]. rewrite IH by exact Hb. reflexivity.
Qed.

Lemma wrun_head_chunked H ops t :
  H <> [] -> forallb body_op ops = true -> term_op t = true ->
  snd (wrun winit (WEnableChunking :: WHeaders H :: ops ++ [t])) =
  H ++ concat (map enc1 (map op_data (ops ++ [t]))) ++ last_chunk.
Proof.
  intros HH Hb Ht.
  rewrite (wrun_silent winit WEnableChunking (mkW None true None false false)) by reflexivity.
  rewrite (wrun_silent _ (WHeaders H) (mkW None true (Some H) false false)) by reflexivity.
  rewrite (proj1 (head_first_once None true H ops HH Hb) t Ht). cbn [snd].
  change (mkW None true None true false) with (sB None true).
  rewrite wrun_app, wrun_B_chunked by exact Hb. cbv iota beta.
  rewrite wrun_one, wstep_B_chunked_term by exact Ht. cbn [fst snd].
  rewrite !map_app, concat_app. cbn [map concat]. rewrite app_nil_r, <- app_assoc. reflexivity.
Qed.

Lemma wrun_head_plain H ops t :
  H <> [] -> forallb body_op ops = true -> term_op t = true ->
  snd (wrun winit (WHeaders H :: ops ++ [t])) = H ++ concat (map op_data (ops ++ [t])).
Proof.
  intros HH Hb Ht.
  rewrite (wrun_silent winit (WHeaders H) (mkW None false (Some H) false false)) by reflexivity.
  rewrite (proj1 (head_first_once None false H ops HH Hb) t Ht). cbn [snd].
  change (mkW None false None true false) with (sB None false).
  rewrite wrun_app, wrun_B_plain by exact Hb. cbv iota beta.
  rewrite wrun_one, wstep_B_plain_term by exact Ht. cbn [fst snd].
  rewrite !map_app, concat_app. cbn [map concat]. rewrite app_nil_r. reflexivity.
Qed.

Lemma wrun_head_chunked_len H ops t :
  H <> [] -> forallb body_op ops = true -> term_op t = true ->
  snd (wrun winit (WEnableChunking :: WHeaders H :: WSetLength None :: ops ++ [t])) =
  H ++ concat (map enc1 (map op_data (ops ++ [t]))) ++ last_chunk.
Proof.
  intros HH Hb Ht.
  rewrite (wrun_silent winit WEnableChunking (mkW None true None false false)) by reflexivity.
  rewrite (wrun_silent _ (WHeaders H) (mkW None true (Some H) false false)) by reflexivity.
  rewrite (wrun_silent _ (WSetLength None) (mkW None true (Some H) false false)) by reflexivity.
  rewrite (proj1 (head_first_once None true H ops HH Hb) t Ht). cbn [snd].
  change (mkW None true None true false) with (sB None true).
  rewrite wrun_app, wrun_B_chunked by exact Hb. cbv iota beta.
  rewrite wrun_one, wstep_B_chunked_term by exact Ht. cbn [fst snd].
  rewrite !map_app, concat_app. cbn [map concat]. rewrite app_nil_r, <- app_assoc. reflexivity.
Qed.

Lemma wrun_head_plain_len H n ops t :
  H <> [] -> forallb body_op ops = true -> term_op t = true -> op_data t = [] ->
  lenN (concat (map op_data ops)) = n ->
  snd (wrun winit (WHeaders H :: WSetLength (Some n) :: ops ++ [t])) = H ++ concat (map op_data ops).
Proof.
  intros HH Hb Ht Hd Hn.
  rewrite (wrun_silent winit (WHeaders H) (mkW None false (Some H) false false)) by reflexivity.
  rewrite (wrun_silent _ (WSetLength (Some n)) (mkW (Some n) false (Some H) false false)) by reflexivity.
  rewrite (proj1 (head_first_once (Some n) false H ops HH Hb) t Ht). cbn [snd].
  change (mkW (Some n) false None true false) with (sB (Some n) false).
  rewrite wrun_app, wrun_B_length by exact Hb. cbv iota beta.
  rewrite wrun_one, wstep_B_plain_term by exact Ht. cbn [fst snd].
  rewrite Hd, app_nil_r, firstn_short by lia. reflexivity.
Qed.

Lemma body_ops_shape sw b : (sw = false -> should_write_body b = false) -> exists ops t,
  body_ops sw b = ops ++ [t] /\ forallb body_op ops = true /\ term_op t = true /\
  concat (map op_data (ops ++ [t])) = body_bytes b /\
  concat (map enc1 (map op_data (ops ++ [t]))) = concat (map enc1 (chunk_pieces b)) /\
  (sw = true -> op_data t = []) /\ (sw = false -> ops = []).
Proof.
  intro Hsw. destruct sw.
  - exists (body_writes b), (WEof []). unfold body_ops.
    split; [reflexivity|]. split; [destruct b; [reflexivity|reflexivity|apply body_op_writes]|]. split; [reflexivity|].
    assert (A : map op_data (body_writes b) = match b with BNone => [[]] | BBytes d => [d] | BPieces ps => ps end)
      by (destruct b; [reflexivity|reflexivity|apply op_data_writes]).
    rewrite !map_app, A. cbn [map op_data].
    split; [|split; [|split; [intros _; reflexivity|discriminate]]].
    + rewrite concat_app. cbn [concat]. rewrite !app_nil_r. destruct b; cbn [body_bytes concat]; rewrite ?app_nil_r; reflexivity.
    + rewrite concat_app. cbn [enc1 concat]. rewrite !app_nil_r. destruct b; cbn [chunk_pieces map enc1 concat]; rewrite ?app_nil_r; reflexivity.
  - specialize (Hsw eq_refl). exists [], WSetEof. unfold body_ops.
    destruct b as [|[|a d]|ps]; try discriminate; repeat split; try reflexivity; discriminate.
Qed.

Lemma concat_snoc_nil (ds : list bytes) t : t = [] -> concat (ds ++ [t]) = concat ds.
Proof. intros ->. rewrite concat_app. cbn [concat]. rewrite !app_nil_r. reflexivity. Qed.

Lemma wire_shape r head :
  head <> [] -> length_ok r = true ->
  snd (wrun winit (client_ops r head)) = head ++ body_wire r.
Proof.
  intros HH Hlen. unfold client_ops, client_ops_len, body_wire, client_counts_declared_length. rewrite andb_true_r.
  unfold length_ok in Hlen.
  assert (Hsw : should_write r = false -> should_write_body (c_body r) = false).
  { unfold should_write. intro H. apply orb_false_iff in H as [H _]. exact H. }
  destruct (body_ops_shape (should_write r) (c_body r) Hsw) as (ops & t & -> & Hb & Ht & E1 & E2 & Hw1 & Hw0).
  destruct (should_write r) eqn:Esw.
  - specialize (Hw1 eq_refl).
    destruct (header_content_length r) as [[n|]|]; [| |discriminate].
    + apply andb_true_iff in Hlen as [Hc Hn]. apply negb_true_iff in Hc. rewrite Hc. cbn [app].
      rewrite map_app, (concat_snoc_nil _ _ Hw1) in E1.
      rewrite wrun_head_plain_len; [rewrite E1; reflexivity|assumption|assumption|assumption|assumption|].
      rewrite E1. apply N.eqb_eq in Hn. symmetry. exact Hn.
    + cbn [orb negb] in Hlen. rewrite orb_false_r in Hlen. rewrite Hlen. cbn [app].
      rewrite wrun_head_chunked_len by assumption. rewrite E2. reflexivity.
  - rewrite (Hw0 eq_refl) in *. cbn [app].
    destruct (req_chunking r).
    + cbn [app]. pose proof (wrun_head_chunked head [] t HH eq_refl Ht) as X. cbn [app] in X, E2. rewrite X, E2. reflexivity.
    + cbn [app]. pose proof (wrun_head_plain head [] t HH eq_refl Ht) as X. cbn [app] in X, E1. rewrite X, E1. reflexivity.
Qed.

(* ------------------------------------------------------------------ validity, unpacked *)
Record valid_facts (lim : limits) (r : creq) : Prop := {
  vf_mtok : forallb tchar (c_method r) = true;
  vf_mne : c_method r <> [];
  vf_asc : is_ascii (c_target r) = true;
  vf_hne : c_headers r <> [];
  vf_names : forallb (fun kv => ascii_tok (fst kv)) (c_headers r) = true;
  vf_upg : has_header h_upgrade (wire_headers r) = false;
  vf_ws : has_header h_sec_websocket_key1 (wire_headers r) = false;
  vf_conn : list_eqb (map upper (c_method r)) m_CONNECT = false;
  vf_frame : framing_ok r = true;
  vf_len : length_ok r = true;
  vf_l0 : lenN (u8 (status_line r)) + 1 <= max_line lim;
  vf_lf : forallb (fun kv => lenN (hline kv) + 1 <=? max_field lim) (c_headers r) = true;
  vf_cnt : lenN (c_headers r) + 3 <= max_headers lim;
  vf_ml : 2 <= max_line lim;
  vf_mf : 1 <= max_field lim;
  vf_hex : forallb (fun p => lenN (to_hex (lenN p)) + 1 <=? max_line lim) (nonempty_pieces (c_body r)) = true }.

Lemma valid_unpack lim r : valid lim r = true -> valid_facts lim r.
Proof.
  unfold valid. intro Hv. repeat (apply andb_true_iff in Hv as [Hv ?]).
  unfold limits_ok in H. repeat (apply andb_true_iff in H as [H ?]).
  constructor; try assumption; try (apply negb_true_iff; assumption); try lia.
  - intro E. rewrite E in Hv. discriminate.
  - intro E. match goal with Hx : negb (lenN (c_headers r) =? 0) = true |- _ => rewrite E in Hx; discriminate end.
Qed.

(* ------------------------------------------------------------------ the blank line: start_message *)
Definition head_lines (r : creq) : list bytes := u8 (status_line r) :: map hline (c_headers r).
Definition mt_of (lim : limits) (r : creq) : N := max_headers lim - lenN (head_lines r ++ [[]]).
Definition inflight1 (lim : limits) : N := if 0 <? max_queue lim then 1 else 0.

Definition payload_for (lim : limits) (r : creq) : option pstate :=
  if req_chunking r then Some (mkP (PChunked CSize) [] [] (mt_of lim r))
  else if nonempty (body_bytes (c_body r)) then Some (mkP (PLength (lenN (body_bytes (c_body r)))) [] [] (mt_of lim r))
  else None.

Definition has_payload (r : creq) : bool :=
  req_chunking r || nonempty (body_bytes (c_body r)).

Lemma expected_msg_derived lim r : valid lim r = true ->
  m_headers (expected_msg r) = wire_headers r /\ m_upgrade (expected_msg r) = false /\ m_chunked (expected_msg r) = req_chunking r /\ m_method (expected_msg r) = map upper (c_method r).
Proof.
  intro Hv. destruct (valid_unpack lim r Hv).
  destruct (derive_framed r vf_frame0 vf_upg0) as (hi & Hd & Hu & Hc).
  unfold expected_msg, hinfo_of. rewrite Hd. cbn [m_headers m_upgrade m_chunked m_method]. auto.
Qed.

Lemma nonempty_len (d : bytes) : nonempty d = (0 <? lenN d).
Proof. destruct d; [reflexivity|]. rewrite lenN_cons. cbn [nonempty]. symmetry. apply N.ltb_lt. lia. Qed.

Lemma start_message_valid lim o r :
  valid lim r = true -> headers_safe (c_headers r) = true ->
  start_message lim o (hst (head_lines r) []) (head_lines r ++ [[]]) =
  POk (bst (payload_for lim r) (m_close (expected_msg r)) (inflight1 lim),
       ev_msg (expected_msg r) (has_payload r)).
Proof.
  intros Hv Hsafe. destruct (expected_msg_derived lim r Hv) as (Hh & Hu & Hc & Hm).
  destruct (valid_unpack lim r Hv).
  unfold start_message. rewrite removelast_last. unfold head_lines at 1.
  rewrite (parse_request_head o r lim Hv Hsafe). cbv zeta. rewrite Hh, Hu, Hc, Hm.
  rewrite vf_ws0, vf_conn0. unfold request_head_has_no_body. cbn [andb negb].
  fold (mt_of lim r). unfold payload_for, has_payload, inflight1, hst, bst.
  cbn [in_flight upgraded pending_upgrade].
  unfold framing_ok in vf_frame0.
  destruct (req_chunking r) eqn:Ech.
  - destruct (get_header h_transfer_encoding (wire_headers r)); [|discriminate].
    apply andb_true_iff in vf_frame0 as [_ Hcl]. apply negb_true_iff in Hcl.
    rewrite (get_header_none _ _ Hcl). rewrite orb_true_r. cbn [orb].
    destruct (0 <? max_queue lim); reflexivity.
  - apply andb_true_iff in vf_frame0 as [_ Hb].
    destruct (get_header h_content_length (wire_headers r)) as [v|] eqn:Ecl.
    + assert (Hd : dec_numeral v (lenN (body_bytes (c_body r))) = true) by (destruct (c_body r); [exact Hb|exact Hb|discriminate]).
      unfold dec_numeral in Hd. apply andb_true_iff in Hd as [Hd Hval]. rewrite Hd. apply N.eqb_eq in Hval. rewrite Hval.
      rewrite orb_false_r, <- nonempty_len. cbn [orb].
      destruct (nonempty (body_bytes (c_body r))); destruct (0 <? max_queue lim); reflexivity.
    + assert (Hd : nonempty (body_bytes (c_body r)) = false) by (destruct (c_body r); [apply negb_true_iff; exact Hb|apply negb_true_iff; exact Hb|discriminate]).
      rewrite Hd. cbn [orb]. destruct (0 <? max_queue lim); reflexivity.
Qed.

Lemma step_f_blank lim o pre rest evs s' e1 :
  pre <> [] -> lenN (pre ++ [[]]) <= max_headers lim ->
  start_message lim o (hst pre []) (pre ++ [[]]) = POk (s', e1) ->
  step_f lim o (hst pre [], evs) (13 :: 10 :: rest) = inl ((s', e1 evs), rest).
Proof.
  intros Hpre Hcnt Hs. unfold step_f.
  cbn [hst payload upgraded in_flight lines should_close tail pending_upgrade].
  rewrite queue_open. change (find_crlf (13 :: 10 :: rest)) with (Some (@nil N, rest)).
  destruct pre as [|l0 pre']; [congruence|].
  assert (E1 : (max_field lim <? lenN (@nil N)) = false) by (change (lenN (@nil N)) with 0; lia).
  assert (E2 : (max_headers lim <? lenN ((l0 :: pre') ++ [[]])) = false) by lia.
  cbn [app] in Hs, E2 |- *. unfold bytes in *. rewrite E1, E2, Hs. reflexivity.
Qed.

(* ------------------------------------------------------------------ the body after the blank line *)
Lemma deliver_offsets ds base : offsets base ds = offsets_from base ds.
Proof. revert base. induction ds as [|d ds IH]; intro base; [reflexivity|]. cbn [offsets offsets_from]. destruct d; rewrite IH; reflexivity. Qed.

Lemma offsets_drop_nil : forall ds base, offsets_from base (ds ++ [[]]) = offsets_from base ds.
Proof. induction ds as [|d ds IH]; intro base; [reflexivity|]. cbn [app offsets_from]. destruct d; rewrite IH; reflexivity. Qed.

Lemma pieces_hex_ok lim r : valid lim r = true ->
  forall d, In d (chunk_pieces (c_body r)) -> d <> [] -> lenN (to_hex (lenN d)) + 1 <= max_line lim.
Proof.
  intros Hv d Hd Hne. destruct (valid_unpack lim r Hv).
  assert (Hin : In d (nonempty_pieces (c_body r))) by (destruct (c_body r); exact Hd).
  pose proof (forallb_In _ _ vf_hex0 d Hin) as Hx. cbv beta in Hx. lia.
Qed.

Lemma mt_pos lim r : valid lim r = true -> 1 <= mt_of lim r.
Proof.
  intro Hv. destruct (valid_unpack lim r Hv). unfold mt_of, head_lines.
  rewrite lenN_app, lenN_cons. change (lenN [[]]) with 1. unfold lenN in *. rewrite map_length. lia.
Qed.

Lemma deliver_msg ds m :
  ev_eof (deliver ds (ev_msg m true [])) = [mkR m true (concat ds) (offsets_from 0 ds) true None].
Proof.
  rewrite deliver_spec. unfold ev_msg. cbn [upd_cur r_msg r_body r_data r_splits r_exc app negb].
  change (lenN (@nil N)) with 0. rewrite deliver_offsets. reflexivity.
Qed.

Lemma chunk_pieces_view b :
  concat (chunk_pieces b) = body_bytes b /\ offsets_from 0 (chunk_pieces b) = offsets_from 0 (nonempty_pieces b).
Proof. destruct b as [|d|ps]; cbn [chunk_pieces body_bytes nonempty_pieces concat]; rewrite ?app_nil_r; split; reflexivity. Qed.

Definition final_state (lim : limits) (r : creq) : pst := bst None (m_close (expected_msg r)) (inflight1 lim).

Lemma body_prefixes lim o r : valid lim r = true ->
  forall x y, body_wire r = x ++ y ->
  accepts lim o (bst (payload_for lim r) (m_close (expected_msg r)) (inflight1 lim)) x
          (ev_msg (expected_msg r) (has_payload r) []).
Proof.
  intros Hv x y E. destruct (valid_unpack lim r Hv).
  unfold body_wire, payload_for in *. destruct (req_chunking r).
  - eapply chunked_body_prefixes; [apply pieces_hex_ok; exact Hv|assumption|assumption|apply mt_pos; exact Hv|exact E].
  - destruct (body_bytes (c_body r)) as [|a d'] eqn:Eb.
    + cbn [nonempty]. destruct x; [|discriminate].
      eexists _, _. split; [|intros f Hf; destruct f as [|f]; [cbn in Hf; lia|apply feed_loop_nil]]. reflexivity.
    + cbn [nonempty]. eapply length_body_prefixes; [discriminate|exact E].
Qed.

Lemma body_run lim o r f : valid lim r = true ->
  (2 * length (body_wire r) + 2 <= f)%nat ->
  feed_loop f lim o (bst (payload_for lim r) (m_close (expected_msg r)) (inflight1 lim)) (body_wire r)
            (ev_msg (expected_msg r) (has_payload r) []) =
  (final_state lim r, [expected_rec r], ROk []).
Proof.
  intros Hv Hf. destruct (valid_unpack lim r Hv).
  unfold body_wire, payload_for, has_payload, expected_rec, final_state in *.
  destruct (req_chunking r) eqn:Ech.
  - rewrite chunked_body_run; [|apply pieces_hex_ok; exact Hv|assumption|apply mt_pos; exact Hv|exact Hf].
    cbn [orb]. rewrite deliver_msg. destruct (chunk_pieces_view (c_body r)) as [-> ->]. reflexivity.
  - cbn [orb]. destruct (body_bytes (c_body r)) as [|a d'] eqn:Eb.
    + cbn [nonempty]. destruct f as [|f]; [cbn in Hf; lia|]. rewrite feed_loop_nil. reflexivity.
    + cbn [nonempty]. rewrite length_body_run; [|discriminate|exact Hf]. reflexivity.
Qed.

(* ------------------------------------------------------------------ the whole message *)
Lemma good_hlines lim r head :
  valid lim r = true -> serialize_headers (status_line r) (c_headers r) = Some head ->
  Forall (good_line lim) (map hline (c_headers r)) /\ ~ In 13 (u8 (status_line r)) /\ ~ In 10 (u8 (status_line r)) /\ u8 (status_line r) <> [].
Proof.
  intros Hv Hs. destruct (valid_unpack lim r Hv).
  pose proof Hs as Hs0. apply no_injection in Hs0 as (esl & els & Hesl & HF & _ & [Hc1 Hc2] & Hall).
  apply Forall2_hlines in HF; [|exact vf_names0]. subst els.
  split; [|split; [|split]].
  - apply Forall_forall. intros l Hl. pose proof (proj1 (Forall_forall _ _) Hall l Hl) as [H13 H10].
    apply in_map_iff in Hl as (kv & <- & Hkv).
    pose proof (forallb_In _ _ vf_lf0 kv Hkv) as Hlen. cbv beta in Hlen.
    split; [|split; [exact H13|split; [exact H10|lia]]].
    unfold hline. intro E. apply app_eq_nil in E as [_ E]. discriminate.
  - unfold u8. rewrite Hesl. exact Hc1.
  - unfold u8. rewrite Hesl. exact Hc2.
  - rewrite (u8_status_line r vf_mtok0 vf_asc0). intro E. apply app_eq_nil in E as [_ E]. discriminate.
Qed.

Lemma lenN_map {A B} (f : A -> B) l : lenN (map f l) = lenN l.
Proof. unfold lenN. rewrite map_length. reflexivity. Qed.

Lemma wire_is lim r w :
  client_serialize r = Some w -> valid lim r = true ->
  exists head, serialize_headers (status_line r) (c_headers r) = Some head /\ headers_safe (c_headers r) = true /\ w = (u8 (status_line r) ++ 13 :: 10 :: lines_bytes (map hline (c_headers r)) ++ 13 :: 10 :: body_wire r).
Proof.
  intros Hs Hv. destruct (valid_unpack lim r Hv).
  unfold client_serialize in Hs. destruct (method_ok (c_method r)); [|discriminate].
  destruct (serialize_headers (status_line r) (c_headers r)) as [head|] eqn:Eh; [|discriminate].
  destruct (header_content_length r) as [cl|] eqn:Ecl; [|discriminate].
  apply Some_inj in Hs. exists head. split; [reflexivity|].
  destruct (head_shape r head vf_hne0 vf_names0 Eh) as (Hhead & Hsafe & _ & _).
  split; [exact Hsafe|].
  rewrite <- Hs, wire_shape.
  - rewrite Hhead, lines_bytes_cons. repeat (rewrite <- app_assoc; cbn [app]). reflexivity.
  - rewrite Hhead, lines_bytes_cons. intro E. apply app_eq_nil in E as [E _]. apply app_eq_nil in E as [_ E]. discriminate.
  - exact vf_len0.
Qed.

Theorem wire_prefixes lim o r w :
  client_serialize r = Some w -> valid lim r = true -> prefix_accepting lim o w.
Proof.
  intros Hs Hv. destruct (wire_is lim r w Hs Hv) as (head & Hh & Hsafe & ->).
  destruct (valid_unpack lim r Hv).
  destruct (good_hlines lim r head Hv Hh) as (Hg & H13 & H10 & Hne0).
  set (L0 := u8 (status_line r)) in *. set (fls := map hline (c_headers r)) in *.
  intros x y E. change init with (hst [] []).
  assert (Hcnt : lenN ([L0] ++ fls) <= max_headers lim).
  { rewrite lenN_app. change (lenN [L0]) with 1. unfold fls. rewrite lenN_map. lia. }
  destruct (Nat.ltb (length x) (length L0 + 2)) eqn:Ec.
  - apply Nat.ltb_lt in Ec. symmetry in E. destruct x as [|a x0]; [apply accepts_nil|].
    destruct (partial_facts (a :: x0) L0 H13 H10 (strict_prefix_cases _ _ _ _ E Ec)) as (F1 & F2 & F3).
    apply accepts_partial; [discriminate|assumption|assumption|cbn [limit_for]; lia].
  - apply Nat.ltb_ge in Ec. symmetry in E.
    change (L0 ++ 13 :: 10 :: lines_bytes fls ++ 13 :: 10 :: body_wire r)
      with (L0 ++ [13; 10] ++ lines_bytes fls ++ 13 :: 10 :: body_wire r) in E. rewrite app_assoc in E.
    destruct (long_prefix_cases x y (L0 ++ [13; 10]) _ E) as (x' & -> & E').
    { rewrite app_length. cbn [length]. lia. }
    rewrite <- app_assoc. cbn [app].
    apply accepts_after_line; [exact Hne0|exact H13|cbn [limit_for]; lia| |].
    { cbn [app]. change (lenN [L0]) with 1. lia. }
    cbn [app].
    apply (fields_all_prefixes lim o fls [L0] (13 :: 10 :: body_wire r) []) with (y := y);
      [discriminate|exact Hg|exact Hcnt| |exact E'].
    (* after the field lines: blank line, then the body *)
    intros x1 y1 E1. cbn [app].
    assert (Hcnt2 : lenN ((L0 :: fls) ++ [[]]) <= max_headers lim).
    { rewrite lenN_app, lenN_cons. change (lenN [[]]) with 1. unfold fls. rewrite lenN_map. lia. }
    destruct x1 as [|c1 x1]; [apply accepts_nil|].
    cbn [app] in E1. inversion E1; subst c1. destruct x1 as [|c2 x1].
    { apply accepts_partial; [discriminate|reflexivity|reflexivity|]. cbn [limit_for]. change (lenN [13]) with 1. lia. }
    cbn [app] in H1. inversion H1; subst c2.
    destruct (body_prefixes lim o r Hv x1 y1 H2) as (s' & a' & Hok & Hrun).
    exists s', a'. split; [exact Hok|]. intros f Hf. destruct f as [|f]; [lia|].
    rewrite feed_loop_S.
    rewrite (step_f_blank lim o (L0 :: fls) x1 [] _ _ ltac:(discriminate) Hcnt2 (start_message_valid lim o r Hv Hsafe)).
    apply Hrun. cbn [length] in Hf. lia.
Qed.

Theorem wire_one_read lim o r w :
  client_serialize r = Some w -> valid lim r = true ->
  feed lim o init w [] = (final_state lim r, [expected_rec r], ROk []).
Proof.
  intros Hs Hv. destruct (wire_is lim r w Hs Hv) as (head & Hh & Hsafe & ->).
  destruct (valid_unpack lim r Hv).
  destruct (good_hlines lim r head Hv Hh) as (Hg & H13 & H10 & Hne0).
  set (L0 := u8 (status_line r)) in *. set (fls := map hline (c_headers r)) in *.
  rewrite feed_as_loop. change init with (hst [] []).
  set (R := lines_bytes fls ++ 13 :: 10 :: body_wire r).
  set (W := L0 ++ 13 :: 10 :: R).
  assert (HlenW : length W = (length L0 + 2 + length R)%nat).
  { unfold W. rewrite app_length. cbn [length]. lia. }
  assert (Hcnt : lenN ([L0] ++ fls) <= max_headers lim).
  { rewrite lenN_app. change (lenN [L0]) with 1. unfold fls. rewrite lenN_map. lia. }
  assert (Hcnt2 : lenN ((L0 :: fls) ++ [[]]) <= max_headers lim).
  { rewrite lenN_app, lenN_cons. change (lenN [[]]) with 1. unfold fls. rewrite lenN_map. lia. }
  replace (2 * length W + 2)%nat with (S (2 * length W + 1))%nat by lia.
  unfold W at 2. rewrite feed_loop_S, step_f_line; [|exact Hne0|exact H13|cbn [limit_for]; lia|cbn [app]; change (lenN [L0]) with 1; lia].
  cbn [app].
  destruct (fields_run lim o fls [L0] (13 :: 10 :: body_wire r) [] (2 * length W + 1)) as (f' & Hf' & Hrun);
    [discriminate|exact Hg|exact Hcnt|fold R; lia|].
  transitivity (feed_loop f' lim o (hst ([L0] ++ fls) []) (13 :: 10 :: body_wire r) []); [exact Hrun|].
  cbn [app]. cbn [length] in Hf'.
  destruct f' as [|f']; [lia|]. rewrite feed_loop_S.
  rewrite (step_f_blank lim o (L0 :: fls) (body_wire r) [] _ _ ltac:(discriminate) Hcnt2 (start_message_valid lim o r Hv Hsafe)).
  apply body_run; [exact Hv|lia].
Qed.

(* ------------------------------------------------------------------ the theorems *)
Theorem request_roundtrip lim o r w :
  client_serialize r = Some w -> valid lim r = true ->
  forall segs, concat segs = w ->
  run_segs lim o init segs [] [] = (final_state lim r, [expected_rec r], ROk []).
Proof.
  intros Hs Hv segs E.
  apply (all_segmentations lim o w); [eapply wire_prefixes; eassumption|eapply wire_one_read; eassumption|exact E].
Qed.

(* ------------------------------------------------------------------ a body source that fails part of the way *)
(* the head and the blank line consumed, whatever follows *)
Lemma wire_head_run lim o r head B :
  valid lim r = true -> serialize_headers (status_line r) (c_headers r) = Some head ->
  headers_safe (c_headers r) = true ->
  exists f', (2 * length B + 2 <= f')%nat /\
    feed lim o init (u8 (status_line r) ++ 13 :: 10 :: lines_bytes (map hline (c_headers r)) ++ 13 :: 10 :: B) [] =
    feed_loop f' lim o (bst (payload_for lim r) (m_close (expected_msg r)) (inflight1 lim)) B
              (ev_msg (expected_msg r) (has_payload r) []).
Proof.
  intros Hv Hh Hsafe. destruct (valid_unpack lim r Hv).
  destruct (good_hlines lim r head Hv Hh) as (Hg & H13 & H10 & Hne0).
  set (L0 := u8 (status_line r)) in *. set (fls := map hline (c_headers r)) in *.
  rewrite feed_as_loop. change init with (hst [] []).
  set (R := lines_bytes fls ++ 13 :: 10 :: B).
  set (W := L0 ++ 13 :: 10 :: R).
  assert (HlenW : length W = (length L0 + 2 + length R)%nat).
  { unfold W. rewrite app_length. cbn [length]. lia. }
  assert (Hcnt : lenN ([L0] ++ fls) <= max_headers lim).
  { rewrite lenN_app. change (lenN [L0]) with 1. unfold fls. rewrite lenN_map. lia. }
  assert (Hcnt2 : lenN ((L0 :: fls) ++ [[]]) <= max_headers lim).
  { rewrite lenN_app, lenN_cons. change (lenN [[]]) with 1. unfold fls. rewrite lenN_map. lia. }
  replace (2 * length W + 2)%nat with (S (2 * length W + 1))%nat by lia.
  unfold W at 2. rewrite feed_loop_S, step_f_line; [|exact Hne0|exact H13|cbn [limit_for]; lia|cbn [app]; change (lenN [L0]) with 1; lia].
  cbn [app].
  destruct (fields_run lim o fls [L0] (13 :: 10 :: B) [] (2 * length W + 1)) as (f' & Hf' & Hrun);
    [discriminate|exact Hg|exact Hcnt|fold R; lia|].
  cbn [length] in Hf'. destruct f' as [|f']; [lia|].
  exists f'. split; [lia|].
  transitivity (feed_loop (S f') lim o (hst ([L0] ++ fls) []) (13 :: 10 :: B) []); [exact Hrun|].
  cbn [app]. rewrite feed_loop_S.
  rewrite (step_f_blank lim o (L0 :: fls) B [] _ _ ltac:(discriminate) Hcnt2 (start_message_valid lim o r Hv Hsafe)).
  reflexivity.
Qed.

Lemma wrun_head_open H ops :
  H <> [] -> forallb body_op ops = true ->
  let w := snd (wrun winit (WEnableChunking :: WHeaders H :: WSetLength None :: ops)) in
  w = [] \/ w = H ++ concat (map enc1 (map op_data ops)).
Proof.
  intros HH Hb.
  rewrite (wrun_silent winit WEnableChunking (mkW None true None false false)) by reflexivity.
  rewrite (wrun_silent _ (WHeaders H) (mkW None true (Some H) false false)) by reflexivity.
  rewrite (wrun_silent _ (WSetLength None) (mkW None true (Some H) false false)) by reflexivity.
  destruct (proj2 (head_first_once None true H ops HH Hb)) as (sf & E & Hnil).
  rewrite E. cbn [snd]. change (mkW None true None true false) with (sB None true) in *.
  rewrite wrun_B_chunked in * by exact Hb. cbn [snd] in *.
  destruct (w_hwritten sf); [right; reflexivity|left]. rewrite Hnil by reflexivity. reflexivity.
Qed.

Lemma body_pieces_chunk b : body_pieces b = chunk_pieces b.
Proof. destruct b; reflexivity. Qed.

(* what the parser has after reading the bytes of an aborted chunked request: nothing at all, or it is still
   inside the body (HttpPayloadParser has not reported PAYLOAD_COMPLETE, the StreamReader got no feed_eof) *)
Definition not_completed (s : pst) (a : acc) : Prop := (s = init /\ a = []) \/ payload s <> None.

Theorem aborted_body_not_completed lim o r k w' :
  req_chunking r = true ->
  client_serialize r <> None -> valid lim r = true ->
  client_serialize_aborted r k = Some w' ->
  forall segs, concat segs = w' ->
  exists s a, run_segs lim o init segs [] [] = (s, a, ROk []) /\ not_completed s a.
Proof.
  intros Hch Hser Hv Hab segs Eseg.
  destruct (client_serialize r) as [w|] eqn:Es; [|congruence]. clear Hser.
  destruct (wire_is lim r w Es Hv) as (head & Hh & Hsafe & Ew).
  destruct (valid_unpack lim r Hv).
  unfold client_serialize_aborted in Hab. destruct (method_ok (c_method r)); [|discriminate].
  rewrite Hh in Hab. apply Some_inj in Hab.
  destruct (head_shape r head vf_hne0 vf_names0 Hh) as (Hhead & _ & _ & _).
  assert (HH : head <> []).
  { rewrite Hhead, lines_bytes_cons. intro E. apply app_eq_nil in E as [E _]. apply app_eq_nil in E as [_ E]. discriminate. }
  unfold aborted_ops, write_eof_only_after_success, client_counts_declared_length in Hab. rewrite Hch, app_nil_r in Hab. cbn [app] in Hab.
  set (ps := body_pieces (c_body r)) in *.
  pose proof (wrun_head_open head (map WWrite (firstn k ps)) HH (body_op_writes _)) as Hw. cbv zeta in Hw.
  rewrite Hab, op_data_writes in Hw.
  (* the whole message, as a continuation of w' *)
  assert (Hfull : w = head ++ concat (map enc1 (firstn k ps)) ++ (concat (map enc1 (skipn k ps)) ++ last_chunk)).
  { rewrite Ew. unfold body_wire. rewrite Hch. unfold chunked_body. rewrite <- body_pieces_chunk. fold ps.
    rewrite <- (firstn_skipn k ps) at 1. rewrite map_app, concat_app.
    rewrite Hhead, lines_bytes_cons. repeat (rewrite <- app_assoc; cbn [app]). reflexivity. }
  assert (Hpre : prefix_accepting lim o w').
  { intros x y Exy. destruct Hw as [Hw|Hw].
    - apply (wire_prefixes lim o r w Es Hv x (y ++ w)). rewrite Hw in Exy. symmetry in Exy. apply app_eq_nil in Exy as [-> ->]. reflexivity.
    - apply (wire_prefixes lim o r w Es Hv x (y ++ concat (map enc1 (skipn k ps)) ++ last_chunk)).
      rewrite Hfull, app_assoc, <- Hw, Exy, <- app_assoc. reflexivity. }
  assert (Hone : exists s a, feed lim o init w' [] = (s, a, ROk []) /\ not_completed s a).
  { destruct Hw as [Hw|Hw].
    - rewrite Hw. exists init, []. split; [reflexivity|left; split; reflexivity].
    - set (X := concat (map enc1 (firstn k ps))) in *.
      rewrite Hw, Hhead, lines_bytes_cons. repeat (rewrite <- app_assoc; cbn [app]).
      destruct (wire_head_run lim o r head X Hv Hh Hsafe) as (f' & Hf' & Hrun). rewrite Hrun.
      unfold payload_for. rewrite Hch.
      destruct (chunked_strict_prefix_open lim o (mt_of lim r) (m_close (expected_msg r)) (inflight1 lim) ps
                  (ev_msg (expected_msg r) (has_payload r) [])
                  ltac:(unfold ps; rewrite body_pieces_chunk; apply pieces_hex_ok; exact Hv) vf_ml0 vf_mf0
                  X (concat (map enc1 (skipn k ps)) ++ last_chunk)) as (p' & a' & Hopen).
      + unfold chunked_body, X. rewrite <- (firstn_skipn k ps) at 1. rewrite map_app, concat_app, <- app_assoc. reflexivity.
      + unfold last_chunk. intro E. apply app_eq_nil in E as [_ E]. discriminate.
      + rewrite (Hopen f' Hf'). eexists _, _. split; [reflexivity|]. right. discriminate. }
  destruct Hone as (s & a & Hfeed & Hnc). exists s, a. split; [|exact Hnc].
  apply (all_segmentations lim o w'); assumption.
Qed.

(* ------------------------------------------------------------------ declared length vs body (fix ef4bcfa) *)
(* _write_bytes raises ClientPayloadError when the body source ends short of the declared Content-Length; a valid
   request never takes that path: nothing is missing when the body is exhausted *)
Lemma valid_no_shortfall lim r : valid lim r = true -> body_shortfall r = 0.
Proof.
  intro Hv. destruct (valid_unpack lim r Hv). unfold length_ok in vf_len0. unfold body_shortfall.
  destruct (header_content_length r) as [[n|]|]; try reflexivity.
  apply andb_true_iff in vf_len0 as [_ Hn]. apply N.eqb_eq in Hn.
  destruct (client_counts_declared_length && should_write r); [|reflexivity].
  change (body_bytes_of (c_body r)) with (body_bytes (c_body r)). lia.
Qed.
