(* MultipartWriter.size is the number of bytes MultipartWriter.write produces (for every boundary and part list).
   The per-part formula and the framing byte strings both come from Generated/MultipartGen.v, i.e. from the
   source text of aiohttp/multipart.py: changing either one without the other breaks this file. *)
From AV Require Import Lib.Base Generated.MultipartGen Model.Multipart.
From Coq Require Import ZifyBool ZifyN.
Open Scope N_scope.

Lemma lenN_nil {A} : lenN (@nil A) = 0.
Proof. reflexivity. Qed.

Lemma encode_part_len b p :
  lenN (encode_part b p) = part_size_formula (lenN b) (lenN (wp_body p)) (lenN (wp_headers p)).
Proof.
  unfold encode_part, part_size_formula, frame_open, frame_open_end, frame_part_end.
  unfold lenN. rewrite !app_length. cbn [length]. lia.
Qed.

Lemma close_delim_len b : lenN (close_delim b) = closing_size_formula (lenN b).
Proof.
  unfold close_delim, closing_size_formula, frame_close, frame_close_end.
  unfold lenN. rewrite !app_length. cbn [length]. lia.
Qed.

Lemma size_parts_truthful b ps n : size_parts b ps = Some n -> lenN (encode_parts b ps) = n.
Proof.
  revert n; induction ps as [|p r IH]; intros n H; cbn [size_parts encode_parts] in *.
  - inversion H; reflexivity.
  - destruct (wp_identity p); [|discriminate].
    destruct (size_parts b r) as [t|]; [|discriminate].
    inversion H; subst. rewrite lenN_app, encode_part_len, (IH t eq_refl). reflexivity.
Qed.

Theorem size_truthful b ps n : size b ps = Some n -> lenN (encode b ps) = n.
Proof.
  unfold size, encode. destruct (size_parts b ps) as [t|] eqn:E; [|discriminate].
  intro H; inversion H; subst. rewrite lenN_app, close_delim_len, (size_parts_truthful _ _ _ E). reflexivity.
Qed.

(* size is present exactly when no part is encoded *)
Theorem size_some_iff b ps : (exists n, size b ps = Some n) <-> forallb wp_identity ps = true.
Proof.
  unfold size. split.
  - intros [n H]. destruct (size_parts b ps) as [t|] eqn:E; [|discriminate]. clear H n.
    revert t E; induction ps as [|p r IH]; intros t E; cbn [size_parts forallb] in *; [reflexivity|].
    destruct (wp_identity p); [|discriminate]. destruct (size_parts b r) as [t'|]; [|discriminate].
    cbn. eapply IH; reflexivity.
  - intro H. assert (exists t, size_parts b ps = Some t) as [t E].
    { induction ps as [|p r IH]; cbn [size_parts forallb] in *; [eauto|].
      apply andb_true_iff in H as [H1 H2]. rewrite H1. destruct (IH H2) as [t E]. rewrite E. eauto. }
    rewrite E. eauto.
Qed.
