(* Stream reader: the structural invariant (buffer accounting, conservation of the buffered
   bytes, chunk-split bookkeeping) holds in every reachable state. *)
From AV Require Import Lib.Base Generated.StreamGen Model.Stream Proofs.StreamBase.
From Coq Require Import ZifyBool Sorted.
Open Scope Z_scope.

Definition sorted_in (c t : Z) (l : list Z) : Prop :=
  StronglySorted Z.lt l /\ Forall (fun p => c <= p <= t) l.

Record Inv (s : st) : Prop := mkInv {
  I_ne : Forall (fun b => b <> []) (buf s);              (* no empty block is ever buffered *)
  I_size : size s = len (concat (buf s));                (* _size is the number of buffered bytes *)
  I_cons : conslog s ++ concat (buf s) = fedlog s;       (* consumed ++ buffered = received *)
  I_pos : cursor s + size s = total s;                   (* _cursor + _size = total_bytes *)
  I_spl : forall l, splits s = Some l -> sorted_in (cursor s) (total s) l;
  I_end : match splits s with
          | Some l => exists pre, endlog s = pre ++ l   (* pending splits are the tail of the sender's ends *)
          | None => endlog s = []
          end
}.

Lemma Inv_same s s' :
  buf s' = buf s -> size s' = size s -> cursor s' = cursor s -> splits s' = splits s ->
  total s' = total s -> fedlog s' = fedlog s -> conslog s' = conslog s -> endlog s' = endlog s ->
  Inv s -> Inv s'.
Proof.
  intros E1 E2 E3 E4 E5 E6 E7 E8 [H1 H2 H3 H4 H5 H6].
  constructor; rewrite ?E1, ?E2, ?E3, ?E4, ?E5, ?E6, ?E7, ?E8; assumption.
Qed.

Ltac same s := apply (Inv_same s); try reflexivity.
Ltac proj := cbn [buf size cursor splits eof exc total low high lowc highc paused pend wt fedlog conslog endlog]; unfold bytes in *.

Lemma Inv_wake_ok s : Inv s -> Inv (wake_ok s).
Proof. intros H. unfold wake_ok. destruct (wt s); try exact H. same s. exact H. Qed.

Lemma Inv_init limit : Inv (init limit).
Proof.
  constructor; cbn; try reflexivity; try constructor; intros; discriminate.
Qed.

Lemma concat_snoc {A} (l : list (list A)) d : concat (l ++ [d]) = concat l ++ d.
Proof. rewrite concat_app. cbn. rewrite app_nil_r. reflexivity. Qed.

Lemma sorted_in_weaken c t c' t' l : c' <= c -> t <= t' -> sorted_in c t l -> sorted_in c' t' l.
Proof.
  intros Hc Ht [H1 H2]. split; [exact H1|]. eapply Forall_impl; [|exact H2]. cbn. intros; lia.
Qed.

Lemma Inv_size_nonneg s : Inv s -> 0 <= size s.
Proof. intros H. rewrite (I_size s H). apply len_nonneg. Qed.

Lemma Inv_feed d s : Inv s -> Inv (fst (feed_data d s)).
Proof.
  intros H. unfold feed_data. destruct (eof s); [exact H|]. destruct d as [|x d]; [exact H|].
  cbn [fst]. set (dd := x :: d).
  match goal with |- Inv (if ?c then do_pause ?a else ?a) =>
    assert (Ha : Inv a); [|destruct c; [same a|]; exact Ha] end.
  apply Inv_wake_ok. destruct H as [H1 H2 H3 H4 H5 H6]. constructor; proj.
  - apply Forall_app. split; [exact H1|]. constructor; [discriminate|constructor].
  - rewrite concat_snoc, len_app. lia.
  - rewrite concat_snoc, app_assoc, H3. reflexivity.
  - lia.
  - intros l E. eapply sorted_in_weaken; [| |apply H5; exact E]; [lia|]. pose proof (len_nonneg dd). lia.
  - exact H6.
Qed.

Lemma Inv_begin s : Inv s -> Inv (fst (begin_chunk s)).
Proof.
  intros H. unfold begin_chunk. destruct (splits s) eqn:E; [exact H|].
  destruct (total s =? 0); [|exact H]. cbn [fst].
  destruct H as [H1 H2 H3 H4 H5 H6]. rewrite E in H6. constructor; proj; try assumption.
  - intros l El. inversion El; subst. split; constructor.
  - exists []. exact H6.
Qed.

Lemma last_In (l : list Z) d : l <> [] -> In (last l d) l.
Proof.
  induction l as [|x l IH]; [congruence|]. intros _. destruct l as [|y l]; [left; reflexivity|].
  right. apply IH. discriminate.
Qed.

Lemma sorted_snoc l t : StronglySorted Z.lt l -> Forall (fun p => p < t) l -> StronglySorted Z.lt (l ++ [t]).
Proof.
  induction l as [|x l IH]; intros Hs Hf; cbn; [repeat constructor|].
  inversion Hs; subst. inversion Hf; subst. constructor; [apply IH; assumption|].
  apply Forall_app. split; [assumption|]. constructor; [assumption|constructor].
Qed.

Lemma sorted_all_le_last l : StronglySorted Z.lt l -> Forall (fun p => p <= last l 0) l.
Proof.
  induction l as [|x l IH]; intros Hs; [constructor|]. inversion Hs; subst.
  destruct l as [|y l]; [constructor; [cbn; lia|constructor]|].
  specialize (IH H1). constructor.
  - change (last (x :: y :: l) 0) with (last (y :: l) 0).
    inversion H2; subst. inversion IH; subst. lia.
  - exact IH.
Qed.

Lemma Inv_end s : Inv s -> Inv (fst (end_chunk s)).
Proof.
  intros H. unfold end_chunk. destruct (splits s) as [l|] eqn:E; [|exact H].
  destruct (empty_chunk (total s) (last l 0)) eqn:Ee; [exact H|]. cbn [fst].
  apply Inv_wake_ok.
  match goal with |- Inv (if ?c then do_pause ?a else ?a) =>
    assert (Ha : Inv a); [|destruct c; [same a|]; exact Ha] end.
  pose proof (Inv_size_nonneg s H) as Hsz.
  destruct H as [H1 H2 H3 H4 H5 H6]. rewrite E in H6. destruct (H5 l E) as [Hs Hb].
  unfold empty_chunk in Ee. apply Z.eqb_neq in Ee.
  constructor; proj; try assumption.
  - intros l' El. inversion El; subst l'. split.
    + apply sorted_snoc; [exact Hs|].
      pose proof (sorted_all_le_last l Hs) as Hl.
      destruct l as [|x l0]; [constructor|].
      assert (Hin : In (last (x :: l0) 0) (x :: l0)) by (apply last_In; discriminate).
      rewrite Forall_forall in Hb. specialize (Hb _ Hin). cbn beta in Hb.
      eapply Forall_impl; [|exact Hl]. cbn beta. intros a Ha. lia.
    + apply Forall_app. split; [exact Hb|]. constructor; [lia|constructor].
  - destruct H6 as [pre H6]. exists pre. rewrite H6, app_assoc. reflexivity.
Qed.

Lemma Inv_eof s : Inv s -> Inv (feed_eof s).
Proof.
  intros H. unfold feed_eof. same (wake_ok (set_eof s true)). apply Inv_wake_ok. same s. exact H.
Qed.

Lemma Inv_exc e s : Inv s -> Inv (set_exception e s).
Proof.
  intros H. unfold set_exception, wake_exc. cbn [wt set_exc].
  destruct (wt s); same s; exact H.
Qed.

Lemma Inv_pend s v : Inv s -> Inv (set_pend s v).
Proof. intros H. same s. exact H. Qed.

Lemma Inv_marks n s : Inv s -> Inv (set_chunk_size n s).
Proof. intros H. unfold set_chunk_size. destruct (chunk_size_raises _ _); [same s|]; exact H. Qed.

Lemma Inv_wt s w : Inv s -> Inv (set_wt s w).
Proof. intros H. same s. exact H. Qed.

(* take_chunk splits the head block *)
Lemma take_chunk_spec n f r d b' :
  take_chunk n f r = (d, b') -> f <> [] ->
  d ++ concat b' = concat (f :: r) /\ (Forall (fun b => b <> []) r -> Forall (fun b => b <> []) b').
Proof.
  unfold take_chunk. destruct (take_partial (len f) n) eqn:Et; intros E Hf; inversion E; subst; clear E.
  - split.
    + cbn [concat]. rewrite app_assoc, firstn_skipn. reflexivity.
    + intros Hr. constructor; [|exact Hr].
      unfold take_partial in Et. apply andb_true_iff in Et as [_ Et]. apply Z.ltb_lt in Et.
      intros E0. assert (Hl : (length (skipn (Z.to_nat n) f) = 0)%nat) by (rewrite E0; reflexivity).
      rewrite skipn_length in Hl. unfold len in Et. destruct f; [congruence|]. cbn [length] in *. lia.
  - split; [reflexivity|auto].
Qed.

Lemma drop_stale_split c l : exists l1, l = l1 ++ drop_stale c l.
Proof.
  induction l as [|p l IH]; [exists []; reflexivity|]. cbn [drop_stale].
  destruct (split_stale p c); [|exists []; reflexivity].
  destruct IH as [l1 IH]. exists (p :: l1). cbn. f_equal. exact IH.
Qed.

Lemma sorted_app_r l1 l2 : StronglySorted Z.lt (l1 ++ l2) -> StronglySorted Z.lt l2.
Proof. induction l1 as [|x l1 IH]; cbn; intros H; [exact H|]. inversion H; subst. auto. Qed.

Lemma drop_stale_sorted_in c c' t l :
  sorted_in c t l -> sorted_in c' t (drop_stale c' l).
Proof.
  intros [Hs Hb]. induction l as [|p l IH]; [split; constructor|]. cbn [drop_stale].
  inversion Hs; subst. inversion Hb; subst.
  destruct (split_stale p c') eqn:E; [apply IH; assumption|].
  unfold split_stale in E. apply Z.ltb_ge in E. split; [exact Hs|].
  constructor; [lia|]. rewrite Forall_forall in *. intros q Hq. specialize (H2 q Hq). specialize (H4 q Hq).
  cbn beta in *. lia.
Qed.

Lemma Inv_consume n f r s :
  Inv s -> buf s = f :: r -> Inv (fst (consume n f r s)).
Proof.
  intros [H1 H2 H3 H4 H5 H6] Hb. unfold consume.
  destruct (take_chunk n f r) as [d b'] eqn:Et. cbn [fst].
  rewrite Hb in *. inversion H1; subst.
  destruct (take_chunk_spec _ _ _ _ _ Et H7) as [Hc Hne]. specialize (Hne H8).
  assert (Hlen : len d + len (concat b') = len (concat (f :: r))) by (rewrite <- Hc, len_app; reflexivity).
  constructor; proj.
  - exact Hne.
  - lia.
  - rewrite <- app_assoc, Hc. exact H3.
  - lia.
  - intros l El. destruct (splits s) as [l0|]; cbn in El; [|discriminate]. inversion El; subst l.
    eapply drop_stale_sorted_in. apply H5. reflexivity.
  - destruct (splits s) as [l0|]; cbn; [|exact H6]. destruct H6 as [pre H6].
    destruct (drop_stale_split (cursor s + len d) l0) as [l1 Hl]. exists (pre ++ l1).
    rewrite <- app_assoc, <- Hl. exact H6.
Qed.

Lemma Inv_consume_resume n f r s :
  Inv s -> wt s = NoTask -> buf s = f :: r ->
  let s1 := fst (consume n f r s) in Inv (if resume_cond s1 then set_paused s1 false else s1).
Proof.
  intros H _ Hb. cbv zeta. pose proof (Inv_consume n f r s H Hb) as H1.
  destruct (resume_cond _); [same (fst (consume n f r s))|]; exact H1.
Qed.

Lemma Forall_app_r {A} (Q : A -> Prop) l1 l2 : Forall Q (l1 ++ l2) -> Forall Q l2.
Proof. intros H. apply Forall_app in H. tauto. Qed.

Lemma Inv_pop s l1 l2 : Inv s -> wt s = NoTask -> splits s = Some (l1 ++ l2) -> Inv (set_splits s (Some l2)).
Proof.
  intros [H1 H2 H3 H4 H5 H6] _ E. rewrite E in H6. destruct (H5 _ E) as [Hs Hb].
  constructor; proj; try assumption.
  - intros l El. inversion El; subst. split; [eapply sorted_app_r; exact Hs|eapply Forall_app_r; exact Hb].
  - destruct H6 as [pre H6]. exists (pre ++ l1). rewrite <- app_assoc. exact H6.
Qed.

Lemma skipn_length_app {A} (a b : list A) : skipn (length a) (a ++ b) = b.
Proof. induction a; cbn; auto. Qed.

Lemma Inv_unread d s : Inv s -> wt s = NoTask -> Inv (unread d s).
Proof.
  intros H _. unfold unread. destruct d as [|x d]; [exact H|]. set (dd := x :: d).
  destruct H as [H1 H2 H3 H4 H5 H6]. constructor; proj.
  - constructor; [discriminate|exact H1].
  - cbn [concat]. rewrite len_app. lia.
  - cbn [concat]. rewrite <- H3, skipn_length_app. reflexivity.
  - lia.
  - intros l El. eapply sorted_in_weaken; [| |apply H5; exact El]; [|lia]. pose proof (len_nonneg dd). lia.
  - exact H6.
Qed.

Theorem Inv_run limit ops : Inv (sst (fst (run ops (init_sys limit)))).
Proof.
  apply (run_SysP Inv Inv_feed Inv_begin Inv_end Inv_eof Inv_exc Inv_pend Inv_consume_resume Inv_marks
                  (fun s H _ _ _ _ => Inv_wt s Waiting H) (fun s H => Inv_wt s NoTask H) Inv_pop Inv_unread).
  split; [apply Inv_init|reflexivity].
Qed.
