(* Round trip at the specification level: splitting what the writer produced at the delimiter
   CRLF "--" boundary returns exactly the written blocks (header block ++ content), for every boundary and
   every part list whose blocks do not contain the delimiter. *)
From AV Require Import Lib.Base Generated.MultipartGen Model.Multipart Model.MultipartSpec Proofs.MultipartStream.
From Coq Require Import ZifyBool ZifyN ZifyNat.
Open Scope N_scope.

Lemma starts_with_app sub u : starts_with sub (sub ++ u) = true.
Proof. induction sub as [|c sub IH]; cbn; [reflexivity|]. rewrite N.eqb_refl, IH. reflexivity. Qed.

(* starts_with looks at the first |sub| bytes only *)
Lemma starts_with_prefix sub : forall u v, (length sub <= length u)%nat -> starts_with sub (u ++ v) = starts_with sub u.
Proof.
  induction sub as [|c sub IH]; intros u v H; [reflexivity|].
  destruct u as [|x u]; [cbn in H; lia|]. cbn [starts_with app]. rewrite IH; [reflexivity|cbn in H; lia].
Qed.

Lemma dropb_app_exact (a r : bytes) : dropb (lenN a) (a ++ r) = r.
Proof. unfold dropb, lenN. rewrite Nat2N.id. rewrite skipn_app, skipn_all, Nat.sub_diag. reflexivity. Qed.

Lemma contains_cons sub c w : contains sub (c :: w) = false -> starts_with sub (c :: w) = false /\ contains sub w = false.
Proof. cbn [contains]. intro H. apply orb_false_iff in H. exact H. Qed.

Lemma removelast_length {A} (l : list A) : l <> [] -> length (removelast l) = (length l - 1)%nat.
Proof.
  intro H. destruct (exists_last H) as (l' & a & ->). rewrite removelast_last, app_length. cbn. lia.
Qed.

Lemma split_at_first d : d <> [] -> forall blk rest,
  contains d (blk ++ removelast d) = false -> split_at d (blk ++ d ++ rest) = Some (blk, rest).
Proof.
  intros Hd. induction blk as [|c blk IH]; intros rest H.
  - cbn [app]. destruct d as [|x d']; [congruence|].
    change (split_at (x :: d') ((x :: d') ++ rest)) with
      (if starts_with (x :: d') ((x :: d') ++ rest) then Some ([], dropb (lenN (x :: d')) ((x :: d') ++ rest))
       else match split_at (x :: d') (d' ++ rest) with Some (a, r) => Some (x :: a, r) | None => None end).
    rewrite starts_with_app, dropb_app_exact. reflexivity.
  - cbn [app] in *. apply contains_cons in H as [H1 H2].
    assert (S : starts_with d (c :: blk ++ d ++ rest) = false).
    { destruct (exists_last Hd) as (d0 & z & E).
      replace (c :: blk ++ d ++ rest) with ((c :: blk ++ removelast d) ++ (z :: rest)).
      - rewrite starts_with_prefix; [exact H1|]. cbn [length]. rewrite app_length, removelast_length by exact Hd. lia.
      - rewrite E, removelast_last. cbn [app]. rewrite <- !app_assoc. reflexivity. }
    destruct d as [|x d']; [congruence|].
    change (split_at (x :: d') (c :: blk ++ (x :: d') ++ rest)) with
      (if starts_with (x :: d') (c :: blk ++ (x :: d') ++ rest) then Some ([], dropb (lenN (x :: d')) (c :: blk ++ (x :: d') ++ rest))
       else match split_at (x :: d') (blk ++ (x :: d') ++ rest) with Some (a, r) => Some (c :: a, r) | None => None end).
    rewrite S, (IH rest H2). reflexivity.
Qed.

Lemma spec_delim_nonempty b : spec_delim b <> [].
Proof. unfold spec_delim, frame_part_end. discriminate. Qed.

(* what follows the first dash-boundary *)
Fixpoint after_first (b : bytes) (ps : list wpart) : bytes :=
  match ps with
  | [] => frame_close_end
  | p :: r => frame_open_end ++ block p ++ spec_delim b ++ after_first b r
  end.

Lemma encode_shape b ps : encode b ps = dash_boundary b ++ after_first b ps.
Proof.
  unfold encode. induction ps as [|p r IH].
  - cbn [encode_parts after_first app]. unfold close_delim, dash_boundary, frame_close, frame_open.
    rewrite <- app_assoc. reflexivity.
  - cbn [encode_parts after_first]. rewrite <- app_assoc, IH.
    unfold encode_part, block, spec_delim, dash_boundary. rewrite <- !app_assoc. reflexivity.
Qed.

Lemma frame_close_end_not_crlf r : list_eqb (frame_open_end ++ r) frame_close_end = false.
Proof. reflexivity. Qed.

Lemma spec_blocks_after b : forall ps n,
  forallb (block_clean b) ps = true -> (length ps < n)%nat ->
  spec_blocks n (spec_delim b) (after_first b ps) = Some (map block ps).
Proof.
  induction ps as [|p r IH]; intros n H Hn; (destruct n as [|n]; [lia|]).
  - reflexivity.
  - cbn [forallb] in H. apply andb_true_iff in H as [H1 H2]. unfold block_clean in H1. apply negb_true_iff in H1.
    cbn [after_first spec_blocks map].
    rewrite frame_close_end_not_crlf, starts_with_app, dropb_app_exact.
    rewrite (split_at_first _ (spec_delim_nonempty b) _ _ H1).
    rewrite (IH n H2); [reflexivity|cbn in Hn; lia].
Qed.

Lemma after_first_length b ps : (length ps < S (length (after_first b ps)))%nat.
Proof.
  induction ps as [|p r IH]; cbn [after_first length]; [lia|].
  rewrite !app_length. unfold frame_open_end. cbn [length]. lia.
Qed.

Theorem roundtrip_spec b ps :
  forallb (block_clean b) ps = true -> spec_decode b (encode b ps) = Some (map block ps).
Proof.
  intro H. unfold spec_decode. rewrite encode_shape, starts_with_app, dropb_app_exact.
  apply spec_blocks_after; [exact H|].
  rewrite app_length. pose proof (after_first_length b ps). lia.
Qed.

(* consequence: the framing is injective on clean part lists *)
Corollary encode_injective b ps qs :
  forallb (block_clean b) ps = true -> forallb (block_clean b) qs = true ->
  encode b ps = encode b qs -> map block ps = map block qs.
Proof.
  intros Hp Hq E. pose proof (roundtrip_spec b ps Hp) as R1. rewrite E, (roundtrip_spec b qs Hq) in R1.
  inversion R1. reflexivity.
Qed.
