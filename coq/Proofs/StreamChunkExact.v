(* Stream reader: a consumer that only uses readchunk is told every sender chunk end, in order,
   exactly once: (positions reported so far) ++ (pending splits) = (positions recorded by
   end_http_chunk_receiving), at every point of every run. *)
From AV Require Import Lib.Base Generated.StreamGen Model.Stream Proofs.StreamBase Proofs.StreamInv
  Proofs.StreamDeliver Proofs.StreamEof Proofs.StreamChunk Proofs.StreamFuel.
From Coq Require Import ZifyBool Sorted.
Open Scope Z_scope.

Definition rem (s : st) : list Z := match splits s with Some l => l | None => [] end.

Definition grow (s s' : st) : Prop :=
  total s <= total s' /\
  exists suf, rem s' = rem s ++ suf /\ endlog s' = endlog s ++ suf /\ Forall (fun q => total s <= q) suf.

Lemma grow_refl s : grow s s.
Proof. split; [lia|]. exists []. rewrite !app_nil_r. auto. Qed.

Lemma grow_same s s' : total s' = total s -> splits s' = splits s -> endlog s' = endlog s -> grow s s'.
Proof.
  intros A B C. split; [lia|]. exists []. unfold rem. rewrite B, C, !app_nil_r. auto.
Qed.

Lemma grow_trans s s1 s2 : grow s s1 -> grow s1 s2 -> grow s s2.
Proof.
  intros [A [x [A1 [A2 A3]]]] [B [z [B1 [B2 B3]]]]. split; [lia|]. exists (x ++ z).
  rewrite B1, A1, B2, A2, !app_assoc. repeat split; auto. apply Forall_app. split; [exact A3|].
  eapply Forall_impl; [|exact B3]. cbn. intros; lia.
Qed.

Lemma grow_wake_ok s : grow s (wake_ok s).
Proof. unfold wake_ok. destruct (wt s); try apply grow_refl. apply grow_same; reflexivity. Qed.

Lemma grow_feed d s : grow s (fst (feed_data d s)).
Proof.
  unfold feed_data. destruct (eof s); [apply grow_refl|]. destruct d as [|x d]; [apply grow_refl|]. cbn [fst].
  pose proof (len_nonneg (x :: d)) as Hl. unfold wake_ok. cbn [wt].
  destruct (wt s); cbn [size high set_wt];
    match goal with |- grow _ (if ?c then _ else _) => destruct c end;
    (split; [cbn; lia|]); exists []; unfold rem; cbn; rewrite !app_nil_r; auto.
Qed.

Lemma grow_end s : grow s (fst (end_chunk s)).
Proof.
  unfold end_chunk. destruct (splits s) as [l|] eqn:El; [|apply grow_refl].
  destruct (empty_chunk _ _); [apply grow_refl|]. cbn [fst highc].
  eapply grow_trans; [|apply grow_wake_ok].
  match goal with |- grow _ (if ?c then _ else _) => destruct c end;
    (split; [cbn; lia|]); exists [total s]; unfold rem; rewrite El; cbn;
    (split; [reflexivity|split; [reflexivity|constructor; [lia|constructor]]]).
Qed.

Lemma grow_apply_pitem it s : grow s (apply_pitem it s).
Proof. destruct it; cbn [apply_pitem]; [apply grow_feed|]. destruct (splits s); [apply grow_end|apply grow_refl]. Qed.

Lemma grow_deliver items : forall s, grow s (deliver items s).
Proof.
  induction items as [|it rest IH]; intros s; cbn [deliver]; [apply grow_same; reflexivity|].
  destruct (paused s || eof s); [apply grow_same; reflexivity|].
  eapply grow_trans; [apply grow_apply_pitem|apply IH].
Qed.

Lemma drop_stale_id c l : Forall (fun q => c <= q) l -> drop_stale c l = l.
Proof.
  destruct l as [|q l]; [reflexivity|]. intros H. inversion H; subst. cbn [drop_stale].
  unfold split_stale. destruct (q <? c) eqn:E; [lia|reflexivity].
Qed.

Lemma grow_rnc n f r s :
  Forall (fun q => cursor s + len (snd (consume n f r s)) <= q) (rem s) -> grow s (fst (rnc n f r s)).
Proof.
  intros H. unfold rnc. unfold consume in *. destruct (take_chunk n f r) as [d b']. cbn [fst snd] in *.
  match goal with |- grow _ (if ?c then do_resume ?a else ?a) => assert (Ha : grow s a) end.
  { split; [cbn; lia|]. exists []. unfold rem in *. cbn [splits endlog total]. rewrite !app_nil_r.
    destruct (splits s) as [l|]; cbn [option_map]; [rewrite drop_stale_id by exact H|]; auto. }
  match goal with |- grow _ (if ?c then _ else _) => destruct c end; [|exact Ha].
  eapply grow_trans; [exact Ha|]. unfold do_resume. cbv zeta.
  eapply grow_trans; [|apply grow_deliver]. apply grow_same; reflexivity.
Qed.

Lemma grow_take_n fuel : forall n s p,
  0 <= n -> n = p - cursor s -> Forall (fun q => p <= q) (rem s) -> p <= total s ->
  grow s (fst (fst (take_n fuel n s))).
Proof.
  induction fuel as [|fuel IH]; intros n s p Hn Hp Hr Ht; rewrite take_n_eq;
    destruct (buf s) as [|f r] eqn:Eb; try apply grow_refl.
  pose proof (consume_len n f r s Hn) as Hl.
  assert (Hg : grow s (fst (rnc n f r s))).
  { apply grow_rnc. eapply Forall_impl; [|exact Hr]. cbn. intros; lia. }
  pose proof (ext_rnc n f r s) as [_ [Hc _]]. rewrite <- rnc_snd in Hl.
  destruct (rnc n f r s) as [s1 d]. cbn [fst snd] in *. cbv zeta.
  destruct (n - len d =? 0) eqn:E0; [exact Hg|].
  destruct Hg as [Gt [suf [G1 [G2 G3]]]].
  assert (Hg1 : grow s1 (fst (fst (take_n fuel (n - len d) s1)))).
  { apply (IH _ _ p); [lia|lia| |lia]. rewrite G1. apply Forall_app. split; [exact Hr|].
    eapply Forall_impl; [|exact G3]. cbn. intros; lia. }
  destruct (take_n fuel (n - len d) s1) as [[s2 d2] e]. cbn [fst] in *.
  eapply grow_trans; [|exact Hg1]. split; [exact Gt|]. exists suf. auto.
Qed.

Lemma pop_splits_head c l : Forall (fun q => c <= q) l ->
  pop_splits c l = match l with [] => (None, []) | q :: l' => (Some q, l') end.
Proof.
  destruct l as [|q l]; [reflexivity|]. intros H. inversion H; subst. cbn [pop_splits].
  unfold readchunk_at, readchunk_ahead. destruct (q =? c) eqn:E1; [reflexivity|].
  destruct (c <? q) eqn:E2; [reflexivity|lia].
Qed.

Definition report (o : outcome) (s' : st) : list Z :=
  match o with Done (RChunk _ true) => [cursor s'] | _ => [] end.

Lemma readchunk_exact s s' o rep :
  ICP s -> k_readchunk s = (s', o) -> endlog s = rep ++ rem s -> endlog s' = (rep ++ report o s') ++ rem s'.
Proof.
  intros H E He. pose proof (proj1 H) as HI. unfold k_readchunk in E.
  destruct (exc s). { inversion E; subst. cbn. rewrite app_nil_r. exact He. }
  assert (Hnone : forall s0, ICP s0 -> rem s0 = [] -> endlog s0 = rep ->
            match buf s0 with
            | f :: r => let '(s1, d) := rnc (-1) f r s0 in (s1, Done (RChunk d false))
            | [] => if eof s0 then (s0, Done (RChunk [] false)) else block KReadChunk s0
            end = (s', o) -> endlog s' = (rep ++ report o s') ++ rem s').
  { intros s0 H0 Hr0 He0 E0. destruct (buf s0) as [|f r] eqn:Eb.
    - destruct (eof s0); [|unfold block in E0; destruct (wait_exc s0)]; inversion E0; subst; cbn [report]; rewrite app_nil_r;
        unfold rem in *; cbn [splits endlog set_wt] in *; rewrite Hr0, app_nil_r; reflexivity.
    - assert (Hg : grow s0 (fst (rnc (-1) f r s0))) by (apply grow_rnc; rewrite Hr0; constructor).
      destruct (rnc (-1) f r s0) as [s1 d]. inversion E0; subst. cbn [fst report] in *.
      destruct Hg as [_ [suf [G1 [G2 _]]]]. rewrite G1, G2, Hr0, app_nil_r. reflexivity. }
  destruct (splits s) as [l|] eqn:El.
  2: { apply (Hnone s H); [unfold rem; rewrite El; reflexivity| |exact E].
       unfold rem in He. rewrite El, app_nil_r in He. exact He. }
  destruct (I_spl s HI l El) as [Hs Hb].
  assert (Hge : Forall (fun q => cursor s <= q) l) by (eapply Forall_impl; [|exact Hb]; cbn; intros; lia).
  rewrite (pop_splits_head _ _ Hge) in E. unfold rem in He. rewrite El in He.
  destruct l as [|p l'].
  - apply (Hnone (set_splits s (Some []))); [| | |exact E].
    + destruct H as [H1 H2]. split; [|exact H2]. apply (Inv_same s); try reflexivity; [cbn [splits set_splits]; congruence|exact H1].
    + reflexivity.
    + cbn. rewrite app_nil_r in He. exact He.
  - inversion Hs; subst. inversion Hb; subst.
    assert (H0 : ICP (set_splits s (Some l'))).
    { destruct H as [H1' H2']. split; [|exact H2']. apply (Inv_pop s [p] l' H1' H2'). exact El. }
    destruct (readchunk_at p (cursor s)) eqn:Ea.
    + inversion E; subst. unfold readchunk_at in Ea. cbn [report cursor endlog set_splits rem splits].
      unfold rem. cbn [splits]. rewrite He. replace (cursor s) with p by lia. rewrite <- app_assoc. reflexivity.
    + unfold readchunk_at in Ea. assert (Hc : cursor s < p) by lia.
      assert (Hn0 : 0 <= p - cursor s) by lia.
      pose proof (read_nowait_ok (p - cursor s) (set_splits s (Some l')) (or_intror Hn0)) as [Hok _].
      pose proof (ext_read_nowait (p - cursor s) (set_splits s (Some l'))) as Hx.
      pose proof (ICP_read_nowait (p - cursor s) _ H0) as H1.
      assert (Hg : grow (set_splits s (Some l')) (fst (fst (read_nowait (p - cursor s) (set_splits s (Some l')))))).
      { unfold read_nowait. destruct (p - cursor s =? -1) eqn:Em; [lia|].
        apply (grow_take_n _ _ _ p); [lia|reflexivity| |cbn; lia].
        unfold rem. cbn [splits set_splits]. rewrite Forall_forall in *. intros q Hq. specialize (H3 q Hq). lia. }
      destruct (read_nowait (p - cursor s) (set_splits s (Some l'))) as [[s1 d1] e] eqn:Er. cbn [fst snd] in *. subst e.
      inversion E; subst s1 o. cbn [finish report].
      destruct Hx as [_ [Hcur [Htot _]]]. cbn [cursor total set_splits] in *.
      unfold read_nowait in Er. destruct (p - cursor s =? -1) eqn:Em; [lia|].
      destruct (take_n_exact _ _ _ _ _ Hn0 Er) as [A B].
      assert (Hlen : len d1 = p - cursor s).
      { destruct (Z.eq_dec (len d1) (p - cursor s)) as [|Hne]; [assumption|]. exfalso.
        assert (Hb' : buf s' = []) by (apply B; lia).
        pose proof (I_size s' (proj1 H1)) as Hsz. pose proof (I_pos s' (proj1 H1)) as Hp.
        rewrite Hb' in Hsz. cbn [concat] in Hsz. rewrite len_nil in Hsz. lia. }
      destruct Hg as [_ [suf [G1 [G2 _]]]]. unfold rem in G1 at 2. cbn [splits set_splits endlog] in G1, G2.
      rewrite G1, G2, He. replace (cursor s') with p by lia. rewrite <- !app_assoc. reflexivity.
Qed.

Definition chunk_only_op (o : op) : Prop := match o with OStart c => c = CReadChunk | _ => True end.

Fixpoint reports (ops : list op) (y : sys) : list Z :=
  match ops with
  | [] => []
  | o :: ops' =>
    let '(y1, b) := step o y in
    match b with ObDone (RChunk _ true) => [cursor (sst y1)] | _ => [] end ++ reports ops' y1
  end.

Definition J (y : sys) (rep : list Z) : Prop :=
  SysP Inv y /\ endlog (sst y) = rep ++ rem (sst y) /\ (forall k, task y = Some k -> k = KReadChunk).

Lemma J_step o y rep : chunk_only_op o -> J y rep ->
  J (fst (step o y)) (rep ++ match snd (step o y) with ObDone (RChunk _ true) => [cursor (sst (fst (step o y)))] | _ => [] end).
Proof.
  intros Ho [HS [He Hk]].
  pose proof (step_SysP Inv Inv_feed Inv_begin Inv_end Inv_eof Inv_exc Inv_pend Inv_consume_resume Inv_marks
                (fun s H _ _ _ _ => Inv_wt s Waiting H) (fun s H => Inv_wt s NoTask H) Inv_pop Inv_unread o y HS) as HS1.
  split; [exact HS1|]. clear HS1. destruct HS as [HI Ht].
  assert (Hgrow : forall s', grow (sst y) s' -> endlog s' = (rep ++ []) ++ rem s').
  { intros s' [_ [suf [G1 [G2 _]]]]. rewrite G1, G2, He, app_nil_r, app_assoc. reflexivity. }
  assert (Hfin : forall so, (endlog (fst so) = (rep ++ report (snd so) (fst so)) ++ rem (fst so)) ->
     (forall k, snd so = Block k -> k = KReadChunk) ->
     endlog (sst (fst (finish_task so))) =
       (rep ++ match snd (finish_task so) with ObDone (RChunk _ true) => [cursor (sst (fst (finish_task so)))] | _ => [] end)
        ++ rem (sst (fst (finish_task so))) /\ (forall k, task (fst (finish_task so)) = Some k -> k = KReadChunk)).
  { intros [s1 o1] Hx Hb. unfold finish_task. cbn [fst snd] in *. destruct o1; cbn [fst snd sst task].
    - split; [|intros k X; inversion X]. unfold rem. cbn [endlog splits cursor set_wt]. exact Hx.
    - split; [|intros k' X; inversion X; subst; apply Hb; reflexivity]. cbn [report] in Hx. exact Hx. }
  assert (Hblock : forall s s' k, k_readchunk s = (s', Block k) -> k = KReadChunk).
  { intros s s' k. unfold k_readchunk. destruct (exc s); [intros X; inversion X|].
    destruct (match splits s with None => (None, s) | Some l => let '(p, l') := pop_splits (cursor s) l in (p, set_splits s (Some l')) end) as [found s0].
    destruct found as [p|].
    - destruct (readchunk_at p (cursor s)); [intros X; inversion X|].
      destruct (read_nowait (p - cursor s) s0) as [[s1 d] e]. intros X; inversion X.
    - destruct (buf s0) as [|f r]; [destruct (eof s0); [intros X; inversion X|unfold block; destruct (wait_exc _); intros X; inversion X; reflexivity]|].
      destruct (rnc (-1) f r s0). intros X; inversion X. }
  destruct o; cbn [step]; unfold prod; cbn [fst snd sst task].
  - split; [|exact Hk]. destruct (snd (feed_data d (sst y))); apply Hgrow, grow_feed.
  - split; [|exact Hk]. assert (G : grow (sst y) (fst (begin_chunk (sst y)))).
    { unfold begin_chunk. destruct (splits (sst y)) eqn:El; [apply grow_refl|]. destruct (total (sst y) =? 0); [|apply grow_refl].
      split; [cbn; lia|]. exists []. unfold rem. rewrite El. cbn. rewrite app_nil_r. auto. }
    destruct (snd (begin_chunk (sst y))); apply Hgrow, G.
  - split; [|exact Hk]. destruct (snd (end_chunk (sst y))); apply Hgrow, grow_end.
  - split; [|exact Hk]. apply Hgrow. unfold feed_eof. eapply grow_trans; [|apply grow_same; reflexivity].
    eapply grow_trans; [|apply grow_wake_ok]. apply grow_same; reflexivity.
  - split; [|exact Hk]. apply Hgrow. unfold set_exception, wake_exc. cbn [wt set_exc].
    destruct (wt (sst y)); apply grow_same; reflexivity.
  - split; [|exact Hk]. apply Hgrow. apply grow_same; reflexivity.
  - cbn in Ho. subst c. destruct (task y) as [k|] eqn:Et.
    + cbn [fst snd]. split; [rewrite app_nil_r; exact He|]. intros k' X. apply Hk. congruence.
    + apply Hfin.
      * cbn [start]. destruct (k_readchunk (sst y)) as [s' o'] eqn:Ek. cbn [fst snd].
        eapply readchunk_exact; [|exact Ek|exact He]. split; auto.
      * cbn [start]. intros k X. destruct (k_readchunk (sst y)) as [s' o'] eqn:Ek. cbn [snd] in X. subst o'.
        eapply Hblock. exact Ek.
  - destruct (task y) as [k|] eqn:Et.
    + specialize (Hk k eq_refl). subst k. destruct (wt (sst y)) eqn:Ew; cbn [fst snd];
        try (split; [rewrite app_nil_r; exact He|intros k' X; rewrite Et in X; inversion X; reflexivity]).
      * apply Hfin.
        -- cbn [resume_k]. destruct (k_readchunk (set_wt (sst y) NoTask)) as [s' o'] eqn:Ek. cbn [fst snd].
           eapply readchunk_exact; [|exact Ek|exact He]. split; [apply Inv_wt; exact HI|reflexivity].
        -- cbn [resume_k]. intros k X. destruct (k_readchunk (set_wt (sst y) NoTask)) as [s' o'] eqn:Ek. cbn [snd] in X. subst o'.
           eapply Hblock. exact Ek.
      * split; [|intros k' X; inversion X]. cbn [sst]. unfold rem. cbn [endlog splits set_wt]. rewrite app_nil_r. exact He.
    + cbn [fst snd]. split; [rewrite app_nil_r; exact He|]. intros k X. rewrite Et in X. inversion X.
Qed.

Lemma J_run ops : forall y rep, Forall chunk_only_op ops -> J y rep -> J (fst (run ops y)) (rep ++ reports ops y).
Proof.
  induction ops as [|o ops IH]; intros y rep Ho HJ; cbn [run reports]; [rewrite app_nil_r; exact HJ|].
  inversion Ho; subst. pose proof (J_step o y rep H1 HJ) as H.
  destruct (step o y) as [y1 b]. cbn [fst snd] in H. specialize (IH y1 _ H2 H).
  destruct (run ops y1) as [y2 bs]. cbn [fst] in *. rewrite <- app_assoc in IH. exact IH.
Qed.

(* C08 chunk boundaries (exactness) *)
Theorem chunk_exact limit ops :
  Forall chunk_only_op ops ->
  endlog (sst (fst (run ops (init_sys limit)))) = reports ops (init_sys limit) ++ rem (sst (fst (run ops (init_sys limit)))).
Proof.
  intros Ho. destruct (J_run ops (init_sys limit) [] Ho) as [_ [H _]]; [|exact H].
  split; [split; [apply Inv_init|reflexivity]|]. split; [reflexivity|]. intros k X. inversion X.
Qed.
