(* Conservation and progress facts about the stream model (Model/Multipart.v: s_tick, s_wait, s_read,
   s_unread, s_readline): bytes are neither created nor lost, and a read of n > 0 bytes that returns
   nothing leaves the stream at EOF. *)
From AV Require Import Lib.Base Generated.MultipartGen Model.Multipart.
From Coq Require Import ZifyBool ZifyN.
Open Scope N_scope.
Ltac Zify.zify_post_hook ::= Z.to_euclidean_division_equations.

Lemma lenN_nil0 {A} : lenN (@nil A) = 0.
Proof. reflexivity. Qed.

Lemma lenN_zero_nil {A} (l : list A) : lenN l = 0 -> l = [].
Proof. destruct l; [reflexivity|]. rewrite lenN_cons. lia. Qed.

Lemma lenN_pos_cons {A} (l : list A) : l <> [] -> 0 < lenN l.
Proof. destruct l; [congruence|]. rewrite lenN_cons. lia. Qed.

Lemma is_nil_true {A} (l : list A) : is_nil l = true <-> l = [].
Proof. destruct l; cbn; split; congruence. Qed.

Lemma is_nil_false {A} (l : list A) : is_nil l = false <-> l <> [].
Proof. destruct l; cbn; split; congruence. Qed.

Lemma takeb_len n l : lenN (takeb n l) = N.min n (lenN l).
Proof. unfold takeb, lenN. rewrite firstn_length. lia. Qed.

Lemma dropb_len n l : lenN (dropb n l) = lenN l - n.
Proof. unfold dropb, lenN. rewrite skipn_length. lia. Qed.

Lemma take_drop n l : takeb n l ++ dropb n l = l.
Proof. apply firstn_skipn. Qed.

(* ---- arrival ---- *)
Lemma arrive0_total p b r : arrive0 p = (b, r) -> pending_total p = lenN b + pending_total r.
Proof.
  revert b r; induction p as [|[d seg] p IH]; intros b r H; cbn [arrive0] in H.
  - inversion H; subst. reflexivity.
  - destruct (d =? 0).
    + destruct (arrive0 p) as [b' r'] eqn:E. inversion H; subst. cbn [pending_total].
      rewrite lenN_app, (IH _ _ eq_refl). lia.
    + inversion H; subst. rewrite lenN_nil0. lia.
Qed.

Lemma dec_head_total p : pending_total (dec_head p) = pending_total p.
Proof. destruct p as [|[d seg] p]; reflexivity. Qed.

Lemma s_with_total s b p e : s_total (s_with s b p e) = lenN b + pending_total p.
Proof. reflexivity. Qed.

Lemma s_tick_total s : s_total (s_tick s) = s_total s.
Proof.
  unfold s_tick. destruct (s_eof s); [reflexivity|].
  destruct (arrive0 (dec_head (s_pending s))) as [b r] eqn:E.
  rewrite s_with_total, lenN_app. apply arrive0_total in E. rewrite dec_head_total in E.
  unfold s_total. lia.
Qed.

Lemma next_seg_total p seg r : next_seg p = (seg, r) -> pending_total p = lenN seg + pending_total r.
Proof.
  revert seg r; induction p as [|[d sg] p IH]; intros seg r H; cbn [next_seg] in H.
  - inversion H; subst. reflexivity.
  - destruct sg as [|c sg'].
    + cbn [pending_total]. rewrite lenN_nil0, (IH _ _ H). lia.
    + inversion H; subst. reflexivity.
Qed.

Lemma next_seg_nil p r : next_seg p = ([], r) -> r = [] /\ pending_total p = 0.
Proof.
  revert r; induction p as [|[d sg] p IH]; intros r H; cbn [next_seg] in H.
  - inversion H; subst. split; reflexivity.
  - destruct sg as [|c sg']; [|discriminate]. destruct (IH _ H) as [-> E]. split; [reflexivity|].
    cbn [pending_total]. rewrite lenN_nil0. lia.
Qed.

Lemma s_wait_total s : s_total (s_wait s) = s_total s.
Proof.
  unfold s_wait. destruct (next_seg (s_pending s)) as [seg r] eqn:E. destruct seg as [|c seg'].
  - apply next_seg_nil in E as [-> E]. rewrite s_with_total. unfold s_total. cbn [pending_total]. lia.
  - apply next_seg_total in E. rewrite s_with_total, lenN_app. unfold s_total. lia.
Qed.

(* after waiting on an empty buffer: data or EOF *)
Lemma s_wait_outcome s : s_buf s = [] -> s_buf (s_wait s) <> [] \/ s_eof (s_wait s) = true.
Proof.
  intro Hb. unfold s_wait. destruct (next_seg (s_pending s)) as [seg r]. destruct seg as [|c seg'].
  - right. reflexivity.
  - left. cbn. rewrite Hb. cbn. discriminate.
Qed.

Lemma s_set_chunk_size_total n s : s_total (s_set_chunk_size n s) = s_total s.
Proof. unfold s_set_chunk_size. destruct (s_low s <? n); reflexivity. Qed.
Lemma s_set_chunk_size_buf n s : s_buf (s_set_chunk_size n s) = s_buf s.
Proof. unfold s_set_chunk_size. destruct (s_low s <? n); reflexivity. Qed.
Lemma s_set_chunk_size_eof n s : s_eof (s_set_chunk_size n s) = s_eof s.
Proof. unfold s_set_chunk_size. destruct (s_low s <? n); reflexivity. Qed.

(* ---- read ---- *)
Lemma s_read_total n s d s1 : s_read n s = (d, s1) -> s_total s1 + lenN d = s_total s.
Proof.
  unfold s_read. destruct (n =? 0).
  - intro H; inversion H; subst. rewrite s_tick_total, lenN_nil0. lia.
  - set (s0 := s_set_chunk_size n (s_tick s)).
    set (s2 := if is_nil (s_buf s0) && negb (s_eof s0) then s_wait s0 else s0).
    intro H; inversion H; subst. clear H.
    assert (T : s_total s2 = s_total s).
    { unfold s2. destruct (is_nil (s_buf s0) && negb (s_eof s0)); [rewrite s_wait_total|];
        unfold s0; rewrite s_set_chunk_size_total, s_tick_total; reflexivity. }
    rewrite s_with_total, dropb_len, takeb_len. unfold s_total in *. lia.
Qed.

Lemma s_read_len n s d s1 : s_read n s = (d, s1) -> lenN d <= n.
Proof.
  unfold s_read. destruct (n =? 0) eqn:E.
  - intro H; inversion H; subst. rewrite lenN_nil0. lia.
  - intro H; inversion H; subst. rewrite takeb_len. lia.
Qed.

Lemma s_read_empty_eof n s d s1 : 0 < n -> s_read n s = (d, s1) -> d = [] -> s_at_eof s1 = true.
Proof.
  intros Hn. unfold s_read. destruct (n =? 0) eqn:E; [lia|].
  set (s0 := s_set_chunk_size n (s_tick s)).
  intros H Hd0; subst d. inversion H as [[Hd Hs]]. clear H Hs.
  unfold s_at_eof. cbn [s_buf s_eof s_with].
  destruct (is_nil (s_buf s0) && negb (s_eof s0)) eqn:C.
  - apply andb_true_iff in C as [C1 C2]. apply is_nil_true in C1.
    destruct (s_wait_outcome s0 C1) as [Hne|He].
    + exfalso. apply Hne. apply lenN_zero_nil. apply (f_equal lenN) in Hd. rewrite takeb_len, lenN_nil0 in Hd.
      destruct (s_buf (s_wait s0)); [reflexivity|]. rewrite lenN_cons in Hd. lia.
    + rewrite He. cbn. apply is_nil_true. apply lenN_zero_nil. rewrite dropb_len.
      apply (f_equal lenN) in Hd. rewrite takeb_len, lenN_nil0 in Hd. lia.
  - apply andb_false_iff in C as [C|C].
    + exfalso. apply is_nil_false in C. apply C. apply lenN_zero_nil.
      apply (f_equal lenN) in Hd. rewrite takeb_len, lenN_nil0 in Hd. lia.
    + apply negb_false_iff in C. rewrite C. cbn. apply is_nil_true. apply lenN_zero_nil. rewrite dropb_len.
      apply (f_equal lenN) in Hd. rewrite takeb_len, lenN_nil0 in Hd.
      destruct (s_buf s0) eqn:B; [reflexivity|]. rewrite lenN_cons in *. lia.
Qed.

Lemma s_unread_total d s : s_total (s_unread d s) = s_total s + lenN d.
Proof.
  unfold s_unread. destruct d as [|c d']; [rewrite lenN_nil0; lia|].
  rewrite s_with_total, lenN_app. unfold s_total. lia.
Qed.
