(* Stream reader: chunk boundaries reported by readchunk. *)
From AV Require Import Lib.Base Generated.StreamGen Model.Stream Proofs.StreamBase Proofs.StreamInv
  Proofs.StreamDeliver Proofs.StreamEof.
From Coq Require Import ZifyBool Sorted.
Open Scope Z_scope.

Lemma consume_len n f r s : 0 <= n -> len (snd (consume n f r s)) <= n.
Proof.
  intros Hn. unfold consume, take_chunk. destruct (take_partial (len f) n) eqn:Et; cbn [snd].
  - unfold take_partial in Et. apply andb_true_iff in Et as [_ E2]. apply Z.ltb_lt in E2.
    unfold len in *. rewrite firstn_length. lia.
  - unfold take_partial in Et. apply andb_false_iff in Et as [E|E].
    + apply negb_false_iff, Z.eqb_eq in E. lia.
    + apply Z.ltb_ge in E. exact E.
Qed.

(* _read_nowait(n), n >= 0: returns at most n bytes, and fewer only by emptying the buffer *)
Lemma take_n_exact fuel : forall n s s' d,
  0 <= n -> take_n fuel n s = (s', d, SOk) -> len d <= n /\ (len d < n -> buf s' = []).
Proof.
  induction fuel as [|fuel IH]; intros n s s' d Hn; rewrite take_n_eq;
    destruct (buf s) as [|f r] eqn:Eb; try (intros E; inversion E; subst; rewrite len_nil; split; [lia|auto]; fail).
  - intros E; inversion E.
  - pose proof (consume_len n f r s Hn) as Hl. rewrite <- rnc_snd in Hl.
    destruct (rnc n f r s) as [s1 d1]. cbn [snd] in Hl. cbv zeta.
    destruct (n - len d1 =? 0) eqn:E0.
    + intros E; inversion E; subst. split; lia.
    + destruct (take_n fuel (n - len d1) s1) as [[s2 d2] e] eqn:Et. intros E; inversion E; subst.
      destruct (IH (n - len d1) s1 s' d2) as [A B]; [lia|exact Et|]. rewrite len_app. split; [lia|].
      intros Hlt. apply B. lia.
Qed.

Lemma pop_splits_In c l p l' : pop_splits c l = (Some p, l') -> In p l /\ (p = c \/ c < p).
Proof.
  induction l as [|q l IH]; cbn [pop_splits]; [intros E; inversion E|].
  destruct (readchunk_at q c) eqn:Ea.
  - intros E; inversion E; subst. unfold readchunk_at in Ea. split; [left; reflexivity|left; lia].
  - destruct (readchunk_ahead q c) eqn:Eh.
    + intros E; inversion E; subst. unfold readchunk_ahead in Eh. split; [left; reflexivity|right; lia].
    + intros E. destruct (IH E) as [A B]. split; [right; exact A|exact B].
Qed.

Lemma finish_chunk_true e d d' : finish e (RChunk d true) d = RChunk d' true -> e = SOk /\ d = d'.
Proof. destruct e; cbn; intros H; inversion H; auto. Qed.

(* C08 chunk boundaries (soundness): when readchunk reports end_of_http_chunk = True, the read
   position is one recorded by end_http_chunk_receiving *)
Lemma readchunk_sound s s' d : ICP s -> k_readchunk s = (s', Done (RChunk d true)) -> In (cursor s') (endlog s').
Proof.
  intros H. pose proof (proj1 H) as HI. unfold k_readchunk. destruct (exc s); [intros E; inversion E|].
  destruct (splits s) as [l|] eqn:El.
  2: { destruct (buf s) as [|f r]; [destruct (eof s); [|unfold block; destruct (wait_exc _)]; intros E; inversion E|].
       destruct (rnc (-1) f r s); intros E; inversion E. }
  destruct (pop_splits_suffix (cursor s) l) as [l1 Hl].
  destruct (pop_splits (cursor s) l) as [found l'] eqn:Ep. cbn [snd] in Hl.
  assert (H0 : ICP (set_splits s (Some l'))).
  { destruct H as [HI' Hw]. split; [|exact Hw]. apply (Inv_pop s l1 l' HI' Hw). congruence. }
  destruct found as [p|].
  2: { destruct (buf (set_splits s (Some l'))) as [|f r]; [destruct (eof _); [|unfold block; destruct (wait_exc _)]; intros E; inversion E|].
       destruct (rnc (-1) f r _); intros E; inversion E. }
  destruct (pop_splits_In _ _ _ _ Ep) as [Hin Hpc].
  pose proof (I_end s HI) as He. rewrite El in He. destruct He as [pre He].
  destruct (readchunk_at p (cursor s)) eqn:Ea.
  - intros E; inversion E; subst. cbn [cursor endlog set_splits]. unfold readchunk_at in Ea.
    rewrite He. apply in_or_app. right. replace (cursor s) with p by lia. exact Hin.
  - unfold readchunk_at in Ea. assert (Hc : cursor s < p) by lia.
    pose proof (ext_read_nowait (p - cursor s) (set_splits s (Some l'))) as Hx.
    pose proof (ICP_read_nowait (p - cursor s) _ H0) as H1.
    destruct (read_nowait (p - cursor s) (set_splits s (Some l'))) as [[s1 d1] e] eqn:Er. cbn [fst snd] in *.
    intros E. injection E as E1 E2. subst s1. apply finish_chunk_true in E2 as [-> ->].
    destruct Hx as [_ [Hcur [Htot [suf Hend]]]]. cbn [cursor total endlog set_splits] in *.
    unfold read_nowait in Er. destruct (p - cursor s =? -1) eqn:Em; [lia|].
    assert (Hn : 0 <= p - cursor s) by lia.
    destruct (take_n_exact _ _ _ _ _ Hn Er) as [A B].
    assert (Hlen : len d = p - cursor s).
    { destruct (Z.eq_dec (len d) (p - cursor s)) as [|Hne]; [assumption|]. exfalso.
      assert (Hb : buf s' = []) by (apply B; lia).
      pose proof (I_size s' (proj1 H1)) as Hs. pose proof (I_pos s' (proj1 H1)) as Hp.
      rewrite Hb in Hs. cbn [concat] in Hs. rewrite len_nil in Hs.
      destruct (I_spl s HI l El) as [_ Hbd]. rewrite Forall_forall in Hbd. specialize (Hbd p Hin). cbn beta in Hbd. lia. }
    rewrite Hend, He. apply in_or_app. left. apply in_or_app. right. replace (cursor s') with p by lia. exact Hin.
Qed.

Theorem chunk_sound_step o y y' d :
  SysP Inv y -> step o y = (y', ObDone (RChunk d true)) ->
  o = OStart CReadChunk \/ (o = ORun /\ task y = Some KReadChunk) ->
  In (cursor (sst y')) (endlog (sst y')).
Proof.
  intros [HI Ht] E Ho.
  assert (Hfin : forall so, finish_task so = (y', ObDone (RChunk d true)) ->
                 exists s', so = (s', Done (RChunk d true)) /\ cursor (sst y') = cursor s' /\ endlog (sst y') = endlog s').
  { intros [s1 o1] Ef. unfold finish_task in Ef. destruct o1; inversion Ef; subst. exists s1. cbn. auto. }
  destruct Ho as [->|[-> Hk]]; cbn [step] in E.
  - destruct (task y) as [k|] eqn:Et; [inversion E|].
    destruct (Hfin _ E) as [s' [Es [A B]]]. rewrite A, B. cbn [start] in Es.
    eapply readchunk_sound; [|exact Es]. split; auto.
  - rewrite Hk in E. destruct (wt (sst y)) eqn:Ew; try (inversion E; fail).
    destruct (Hfin _ E) as [s' [Es [A B]]]. rewrite A, B. cbn [resume_k] in Es.
    eapply readchunk_sound; [|exact Es]. split; [apply Inv_wt; exact HI|reflexivity].
Qed.

Theorem chunk_sound limit ops o y' d :
  let y := fst (run ops (init_sys limit)) in
  step o y = (y', ObDone (RChunk d true)) ->
  o = OStart CReadChunk \/ (o = ORun /\ task y = Some KReadChunk) ->
  In (cursor (sst y')) (endlog (sst y')).
Proof. intros y. apply chunk_sound_step. apply SysP_Inv_run. Qed.
