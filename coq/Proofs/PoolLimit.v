(* C07 — facts about the generated capacity formula, frame lemmas for the state updaters, and the
   limit invariant. *)
From AV Require Import Lib.Base Generated.PoolGen Model.Pool.
From Coq Require Import ZifyBool ZifyN.
Open Scope N_scope.

(* ---- the generated formula ---------------------------------------------------------------- *)

Ltac split_ifs :=
  repeat match goal with
         | |- context [if ?b then _ else _] => destruct b eqn:?
         | H : context [if ?b then _ else _] |- _ => destruct b eqn:?
         end.

Ltac formula := unfold available_connections; cbv beta zeta; intros; split_ifs; lia.

Lemma avail_pos_total l lh a h : (l <> 0 -> 0 < available_connections l lh a h -> a < l)%Z.
Proof. formula. Qed.

Lemma avail_pos_host l lh a h : (lh <> 0 -> 0 < available_connections l lh a h -> h < lh)%Z.
Proof. formula. Qed.

(* with no per-host limit the answer is positive exactly when the total limit leaves room *)
Lemma avail_total_only_nonpos l a h : (0 < l -> available_connections l 0 a h < 1 -> l <= a)%Z.
Proof. formula. Qed.

Lemma avail_total_only_full l a h : (0 < l -> l <= a -> available_connections l 0 a h <= 0)%Z.
Proof. formula. Qed.

Lemma avail_unlimited a h : available_connections 0 0 a h = 1%Z.
Proof. formula. Qed.

Lemma wait_checks_closed_true : wait_checks_closed = true.
Proof. reflexivity. Qed.
Lemma close_clears_per_host_true : close_clears_per_host = true.
Proof. reflexivity. Qed.

Lemma requeue_hands_on_true : requeue_hands_on = true.
Proof. reflexivity. Qed.
Lemma fast_path_true a : connect_fast_path a = true -> (0 < a)%Z.
Proof. unfold connect_fast_path; lia. Qed.

Lemma must_wait_false a : connect_must_wait a = false -> (0 < a)%Z.
Proof. unfold connect_must_wait; lia. Qed.
Lemma must_wait_true a : connect_must_wait a = true -> (a < 1)%Z.
Proof. unfold connect_must_wait; lia. Qed.
Lemma slot_found_true a : wait_slot_found a = true -> (0 < a)%Z.
Proof. unfold wait_slot_found; lia. Qed.
Lemma slot_found_false a : wait_slot_found a = false -> (a < 1)%Z.
Proof. unfold wait_slot_found; lia. Qed.
Lemma skips_false a : release_skips_key a = false -> (0 < a)%Z.
Proof. unfold release_skips_key; lia. Qed.
Lemma skips_true a : release_skips_key a = true -> (a < 1)%Z.
Proof. unfold release_skips_key; lia. Qed.

(* ---- list facts --------------------------------------------------------------------------- *)

Lemma filter_length_le {A} (f : A -> bool) l : (length (filter f l) <= length l)%nat.
Proof. induction l as [|x l IH]; simpl; [lia|]. destruct (f x); simpl; lia. Qed.

Lemma filter_filter_le {A} (f g : A -> bool) l :
  (length (filter f (filter g l)) <= length (filter f l))%nat.
Proof.
  induction l as [|x l IH]; simpl; [lia|].
  destruct (g x); simpl; destruct (f x); simpl; lia.
Qed.

Lemma count_host_map k (f : slot -> slot) h :
  count_host k (map (fun x => (f (fst x), snd x)) h) = count_host k h.
Proof.
  unfold count_host. induction h as [|[sl k'] h IH]; simpl; [reflexivity|].
  destruct (k' =? k); simpl; rewrite IH; reflexivity.
Qed.

(* ---- frame: _release_waiter never touches the slot books ---------------------------------- *)

Lemma release_loop_frame c order : forall s,
  acquired (release_loop c s order) = acquired s /\
  hostacq (release_loop c s order) = hostacq s /\
  idle (release_loop c s order) = idle s /\
  closed (release_loop c s order) = closed s /\
  nconn (release_loop c s order) = nconn s /\
  closedc (release_loop c s order) = closedc s.
Proof.
  induction order as [|k r IH]; intro s; simpl; [tauto|].
  destruct (release_skips_key (avail c s k)); [apply IH|].
  destruct (wake_key k (waiters s)) as [w' [t|]]; simpl; [tauto|].
  specialize (IH (with_waiters s w')). simpl in IH. exact IH.
Qed.

Lemma hand_on_frame c s order s2 :
  hand_on c s order = Some s2 ->
  acquired s2 = acquired s /\ hostacq s2 = hostacq s /\ idle s2 = idle s /\
  closed s2 = closed s /\ nconn s2 = nconn s /\ closedc s2 = closedc s.
Proof.
  unfold hand_on, release_waiter. destruct requeue_hands_on.
  - destruct (covers order (waiters s)); [|discriminate]. intros [= <-]. apply release_loop_frame.
  - intros [= <-]. repeat split.
Qed.

(* ---- the limit invariant ------------------------------------------------------------------- *)

Definition within (c : cfg) (s : state) : Prop :=
  ((0 < limit c)%Z -> (Z.of_nat (length (acquired s)) <= limit c)%Z) /\
  ((0 < lph c)%Z -> forall k, (Z.of_nat (count_host k (hostacq s)) <= lph c)%Z).

(* the excluded family: connect() hands out an idle pooled connection through its first _get,
   which runs before any capacity check *)
Definition good_step (c : cfg) (s : state) (e : event) : Prop :=
  match e with
  | EStart t k => take_idle k (idle s) = None \/ (0 < avail c s k)%Z
  | _ => True
  end.

Fixpoint all_steps (P : state -> event -> Prop) (c : cfg) (s : state) (tr : list event) : Prop :=
  match tr with
  | [] => True
  | e :: r => P s e /\ match step c s e with Some s' => all_steps P c s' r | None => True end
  end.

Lemma within_same c s s' :
  acquired s' = acquired s -> hostacq s' = hostacq s -> within c s -> within c s'.
Proof. unfold within. intros -> ->. tauto. Qed.

Lemma add_slot_within c s sl k :
  within c s -> (0 < avail c s k)%Z -> within c (add_slot c s sl k).
Proof.
  intros [HT HH] Hav. unfold avail in Hav. split; cbn [add_slot acquired hostacq].
  - intro Hl. apply avail_pos_total in Hav; [|lia].
    cbn [length]. rewrite Nat2Z.inj_succ. lia.
  - intros Hl k'. unfold per_host. destruct (Z.eqb (lph c) 0) eqn:E; cbn [negb]; [lia|].
    unfold count_host in *. cbn [filter snd]. destruct (k =? k') eqn:Ek.
    + apply N.eqb_eq in Ek. subst k'. apply avail_pos_host in Hav; [|lia].
      cbn [length]. rewrite Nat2Z.inj_succ. lia.
    + apply HH. exact Hl.
Qed.

Lemma proceed_within c s t k :
  within c s -> (0 < avail c s k)%Z -> within c (proceed c s t k).
Proof.
  intros W Hav. unfold proceed. destruct (take_idle k (idle s)) as [[cn rest]|].
  - eapply within_same with (s := add_slot c (with_idle s rest) (SConn cn) k); [reflexivity|reflexivity|].
    apply add_slot_within; [|exact Hav]. eapply within_same; [| |exact W]; reflexivity.
  - eapply within_same with (s := add_slot c s (SPh t) k); [reflexivity|reflexivity|].
    apply add_slot_within; assumption.
Qed.

Lemma count_host_filter_le k (f : slot * key -> bool) h :
  (count_host k (filter f h) <= count_host k h)%nat.
Proof. unfold count_host. apply filter_filter_le. Qed.

Lemma del_slot_within c s sl : within c s -> within c (del_slot s sl).
Proof.
  intros [HT HH]. split; cbn [del_slot acquired hostacq].
  - intro Hl. eapply Z.le_trans; [|exact (HT Hl)].
    apply Nat2Z.inj_le. apply filter_length_le.
  - intros Hl k. eapply Z.le_trans; [|exact (HH Hl k)].
    apply Nat2Z.inj_le. apply count_host_filter_le.
Qed.

Lemma release_waiter_within c s order s' :
  within c s -> release_waiter c s order = Some s' -> within c s'.
Proof.
  unfold release_waiter. intros W H. destruct (covers order (waiters s)); [|discriminate].
  injection H as <-. destruct (release_loop_frame c order s) as (A & B & _).
  eapply within_same; eauto.
Qed.

Lemma release_acquired_within c s sl order s' :
  within c s -> release_acquired c s sl order = Some s' -> within c s'.
Proof.
  unfold release_acquired. intros W H. destruct (closed s).
  - injection H as <-. exact W.
  - eapply release_waiter_within; [|exact H]. apply del_slot_within. exact W.
Qed.

Lemma swap_slot_within c s a b : within c s -> within c (swap_slot s a b).
Proof.
  intros [HT HH]. split; cbn [swap_slot acquired hostacq].
  - rewrite map_length. exact HT.
  - intros Hl k. rewrite (count_host_map k (replace_slot a b)). apply HH. exact Hl.
Qed.

Lemma start_tail_within c s t k s' : within c s -> start_tail c s t k = Some s' -> within c s'.
Proof.
  intros W H. unfold start_tail in H. destruct (connect_must_wait (avail c s k)) eqn:Ew.
  - destruct (refuse_wait s); injection H as <-; (eapply within_same; [| |exact W]; reflexivity).
  - injection H as <-. apply proceed_within; [exact W|]. apply must_wait_false. exact Ew.
Qed.

Lemma requeue_within c s1 t k order s' : within c s1 -> requeue c s1 t k order = Some s' -> within c s'.
Proof.
  intros W H. unfold requeue in H. destruct (hand_on c s1 order) as [s2|] eqn:Eh; [|discriminate].
  destruct (hand_on_frame _ _ _ _ Eh) as (A & B & _).
  assert (W2 : within c s2) by (eapply within_same; eauto).
  destruct (refuse_wait s2); injection H as <-; (eapply within_same; [| |exact W2]; reflexivity).
Qed.

Lemma step_within c s e s' :
  within c s -> step c s e = Some s' -> within c s'.
Proof.
  intros W H. destruct e as [t k|t order|t|t|t order|t cl order|]; cbn [step] in H.
  - (* EStart *)
    destruct (get_pc (pcs s) t); try discriminate.
    destruct (connect_fast_path (avail c s k)) eqn:Ef.
    + destruct (take_idle k (idle s)) as [x|] eqn:Ei.
      * injection H as <-. apply proceed_within; [exact W|apply fast_path_true; exact Ef].
      * eapply start_tail_within; eauto.
    + eapply start_tail_within; eauto.
  - (* EResume *)
    destruct (get_pc (pcs s) t) as [| k f | | | | |]; try discriminate.
    destruct f; try discriminate.
    + set (s1 := with_woken s (filter (fun x => negb (x =? t)) (woken s))) in *.
      assert (W1 : within c s1) by (eapply within_same; [| |exact W]; reflexivity).
      destruct (wait_slot_found (avail c s1 k)) eqn:Ef.
      * injection H as <-. apply proceed_within; [exact W1|]. apply slot_found_true. exact Ef.
      * eapply requeue_within; eauto.
    + injection H as <-. eapply within_same; [| |exact W]; reflexivity.
    + set (s1 := with_woken s (filter (fun x => negb (x =? t)) (woken s))) in *.
      assert (W1 : within c s1) by (eapply within_same; [| |exact W]; reflexivity).
      destruct (release_waiter c s1 order) as [s2|] eqn:Er; [|discriminate].
      injection H as <-. eapply within_same with (s := s2); [reflexivity|reflexivity|].
      eapply release_waiter_within; eauto.
  - (* ECancel *)
    destruct (get_pc (pcs s) t) as [| k f | | | | |]; try discriminate.
    destruct f; try discriminate; injection H as <-; (eapply within_same; [| |exact W]; reflexivity).
  - (* ECreateOk *)
    destruct (get_pc (pcs s) t); try discriminate.
    destruct (closed s); injection H as <-.
    + eapply within_same; [| |exact W]; reflexivity.
    + eapply within_same with (s := swap_slot (bump_conn s) (SPh t) (SConn (nconn s))); [reflexivity|reflexivity|].
      apply swap_slot_within. eapply within_same; [| |exact W]; reflexivity.
  - (* ECreateFail *)
    destruct (get_pc (pcs s) t); try discriminate.
    destruct (release_acquired c s (SPh t) order) as [s1|] eqn:Er; [|discriminate].
    injection H as <-. eapply within_same with (s := s1); [reflexivity|reflexivity|].
    eapply release_acquired_within; eauto.
  - (* ERelease *)
    destruct (get_pc (pcs s) t) as [| | | k cn | | |]; try discriminate.
    destruct (closed s).
    + injection H as <-. eapply within_same; [| |exact W]; reflexivity.
    + destruct (release_acquired c s (SConn cn) order) as [s1|] eqn:Er; [|discriminate].
      injection H as <-. pose proof (release_acquired_within _ _ _ _ _ W Er) as W1.
      destruct (force_close c || cl); (eapply within_same; [| |exact W1]; reflexivity).
  - (* EClose *)
    destruct (closed s); injection H as <-; [exact W|].
    destruct W as [HT HH]. split; cbn [acquired hostacq length]; [lia|].
    destruct close_clears_per_host; try exact HH; intros Hl k; unfold count_host; cbn [filter length]; lia.
Qed.

Lemma within_init c : within c init.
Proof. split; simpl; intros; unfold count_host; simpl; lia. Qed.

Lemma run_within c : forall tr s s',
  within c s -> run c s tr = Some s' -> within c s'.
Proof.
  induction tr as [|e r IH]; intros s s' W H; simpl in *.
  - injection H as <-. exact W.
  - destruct (step c s e) as [s1|] eqn:Es; [|discriminate].
    eapply IH; [|exact H]. eapply step_within; eauto.
Qed.

(* the property's limit clause, for ALL traces (since repair 755fa27 the fast-path _get is guarded by the
   capacity, so no step takes a connection past a limit) *)
Lemma limit_full c tr s :
  run c init tr = Some s ->
  ((0 < limit c)%Z -> (Z.of_nat (length (acquired s)) <= limit c)%Z) /\
  ((0 < lph c)%Z -> forall k, (Z.of_nat (count_host k (hostacq s)) <= lph c)%Z).
Proof. intros H. exact (run_within c tr init s (within_init c) H). Qed.
