(* C07 — facts about the generated capacity formula, frame lemmas for the state updaters, and the
   limit invariant. *)
From AV Require Import Lib.Base Generated.PoolGen Model.Pool.
From Coq Require Import ZifyBool ZifyN.
Open Scope N_scope.

(* ---- the generated formula ---------------------------------------------------------------- *)

Ltac split_ifs :=
  repeat match goal with
         | |- context [if ?b then _ else _] => destruct b eqn:?
         | H : context [if ?b then _ else _] |- _ => destruct b eqn:?
         end.

Ltac formula := unfold available_connections; cbv beta zeta; intros; split_ifs; lia.

Lemma avail_pos_total l lh a h : (l <> 0 -> 0 < available_connections l lh a h -> a < l)%Z.
Proof. formula. Qed.

Lemma avail_pos_host l lh a h : (lh <> 0 -> 0 < available_connections l lh a h -> h < lh)%Z.
Proof. formula. Qed.

(* with no per-host limit the answer is positive exactly when the total limit leaves room *)
Lemma avail_total_only_nonpos l a h : (0 < l -> available_connections l 0 a h < 1 -> l <= a)%Z.
Proof. formula. Qed.

Lemma avail_total_only_full l a h : (0 < l -> l <= a -> available_connections l 0 a h <= 0)%Z.
Proof. formula. Qed.

Lemma avail_unlimited a h : available_connections 0 0 a h = 1%Z.
Proof. formula. Qed.

Lemma wait_checks_closed_true : wait_checks_closed = true.
Proof. reflexivity. Qed.
Lemma close_clears_per_host_true : close_clears_per_host = true.
Proof. reflexivity. Qed.

Lemma must_wait_false a : connect_must_wait a = false -> (0 < a)%Z.
Proof. unfold connect_must_wait; lia. Qed.
Lemma must_wait_true a : connect_must_wait a = true -> (a < 1)%Z.
Proof. unfold connect_must_wait; lia. Qed.
Lemma slot_found_true a : wait_slot_found a = true -> (0 < a)%Z.
Proof. unfold wait_slot_found; lia. Qed.
Lemma slot_found_false a : wait_slot_found a = false -> (a < 1)%Z.
Proof. unfold wait_slot_found; lia. Qed.
Lemma skips_false a : release_skips_key a = false -> (0 < a)%Z.
Proof. unfold release_skips_key; lia. Qed.
Lemma skips_true a : release_skips_key a = true -> (a < 1)%Z.
Proof. unfold release_skips_key; lia. Qed.

(* ---- list facts --------------------------------------------------------------------------- *)

Lemma filter_length_le {A} (f : A -> bool) l : (length (filter f l) <= length l)%nat.
Proof. induction l as [|x l IH]; simpl; [lia|]. destruct (f x); simpl; lia. Qed.

Lemma filter_filter_le {A} (f g : A -> bool) l :
  (length (filter f (filter g l)) <= length (filter f l))%nat.
Proof.
  induction l as [|x l IH]; simpl; [lia|].
  destruct (g x); simpl; destruct (f x); simpl; lia.
Qed.

Lemma count_host_map k (f : slot -> slot) h :
  count_host k (map (fun x => (f (fst x), snd x)) h) = count_host k h.
Proof.
  unfold count_host. induction h as [|[sl k'] h IH]; simpl; [reflexivity|].
  destruct (k' =? k); simpl; rewrite IH; reflexivity.
Qed.

(* ---- frame: _release_waiter never touches the slot books ---------------------------------- *)

Lemma release_loop_frame c order : forall s,
  acquired (release_loop c s order) = acquired s /\
  hostacq (release_loop c s order) = hostacq s /\
  idle (release_loop c s order) = idle s /\
  closed (release_loop c s order) = closed s /\
  nconn (release_loop c s order) = nconn s /\
  closedc (release_loop c s order) = closedc s.
Proof.
  induction order as [|k r IH]; intro s; simpl; [tauto|].
  destruct (release_skips_key (avail c s k)); [apply IH|].
  destruct (wake_key k (waiters s)) as [w' [t|]]; simpl; [tauto|].
  specialize (IH (with_waiters s w')). simpl in IH. exact IH.
Qed.

(* ---- the limit invariant ------------------------------------------------------------------- *)

Definition within (c : cfg) (s : state) : Prop :=
  ((0 < limit c)%Z -> (Z.of_nat (length (acquired s)) <= limit c)%Z) /\
  ((0 < lph c)%Z -> forall k, (Z.of_nat (count_host k (hostacq s)) <= lph c)%Z).

(* the excluded family: connect() hands out an idle pooled connection through its first _get,
   which runs before any capacity check *)
Definition good_step (c : cfg) (s : state) (e : event) : Prop :=
  match e with
  | EStart t k => take_idle k (idle s) = None \/ (0 < avail c s k)%Z
  | _ => True
  end.

Fixpoint all_steps (P : state -> event -> Prop) (c : cfg) (s : state) (tr : list event) : Prop :=
  match tr with
  | [] => True
  | e :: r => P s e /\ match step c s e with Some s' => all_steps P c s' r | None => True end
  end.

Lemma within_same c s s' :
  acquired s' = acquired s -> hostacq s' = hostacq s -> within c s -> within c s'.
Proof. unfold within. intros -> ->. tauto. Qed.

Lemma add_slot_within c s sl k :
  within c s -> (0 < avail c s k)%Z -> within c (add_slot c s sl k).
Proof.
  intros [HT HH] Hav. unfold avail in Hav. split; cbn [add_slot acquired hostacq].
  - intro Hl. apply avail_pos_total in Hav; [|lia].
    cbn [length]. rewrite Nat2Z.inj_succ. lia.
  - intros Hl k'. unfold per_host. destruct (Z.eqb (lph c) 0) eqn:E; cbn [negb]; [lia|].
    unfold count_host in *. cbn [filter snd]. destruct (k =? k') eqn:Ek.
    + apply N.eqb_eq in Ek. subst k'. apply avail_pos_host in Hav; [|lia].
      cbn [length]. rewrite Nat2Z.inj_succ. lia.
    + apply HH. exact Hl.
Qed.

Lemma proceed_within c s t k :
  within c s -> (0 < avail c s k)%Z -> within c (proceed c s t k).
Proof.
  intros W Hav. unfold proceed. destruct (take_idle k (idle s)) as [[cn rest]|].
  - eapply within_same with (s := add_slot c (with_idle s rest) (SConn cn) k); [reflexivity|reflexivity|].
    apply add_slot_within; [|exact Hav]. eapply within_same; [| |exact W]; reflexivity.
  - eapply within_same with (s := add_slot c s (SPh t) k); [reflexivity|reflexivity|].
    apply add_slot_within; assumption.
Qed.

Lemma count_host_filter_le k (f : slot * key -> bool) h :
  (count_host k (filter f h) <= count_host k h)%nat.
Proof. unfold count_host. apply filter_filter_le. Qed.

Lemma del_slot_within c s sl : within c s -> within c (del_slot s sl).
Proof.
  intros [HT HH]. split; cbn [del_slot acquired hostacq].
  - intro Hl. eapply Z.le_trans; [|exact (HT Hl)].
    apply Nat2Z.inj_le. apply filter_length_le.
  - intros Hl k. eapply Z.le_trans; [|exact (HH Hl k)].
    apply Nat2Z.inj_le. apply count_host_filter_le.
Qed.

Lemma release_waiter_within c s order s' :
  within c s -> release_waiter c s order = Some s' -> within c s'.
Proof.
  unfold release_waiter. intros W H. destruct (covers order (waiters s)); [|discriminate].
  injection H as <-. destruct (release_loop_frame c order s) as (A & B & _).
  eapply within_same; eauto.
Qed.

Lemma release_acquired_within c s sl order s' :
  within c s -> release_acquired c s sl order = Some s' -> within c s'.
Proof.
  unfold release_acquired. intros W H. destruct (closed s).
  - injection H as <-. exact W.
  - eapply release_waiter_within; [|exact H]. apply del_slot_within. exact W.
Qed.

Lemma swap_slot_within c s a b : within c s -> within c (swap_slot s a b).
Proof.
  intros [HT HH]. split; cbn [swap_slot acquired hostacq].
  - rewrite map_length. exact HT.
  - intros Hl k. rewrite (count_host_map k (replace_slot a b)). apply HH. exact Hl.
Qed.

Lemma step_within c s e s' :
  within c s -> good_step c s e -> step c s e = Some s' -> within c s'.
Proof.
  intros W G H. destruct e as [t k|t order|t|t|t order|t cl order|]; simpl in H.
  - (* EStart *)
    destruct (get_pc (pcs s) t); try discriminate.
    destruct (take_idle k (idle s)) as [x|] eqn:Ei.
    + injection H as <-. simpl in G. destruct G as [G|G]; [congruence|].
      apply proceed_within; assumption.
    + destruct (connect_must_wait (avail c s k)) eqn:Ew.
      * destruct (refuse_wait s); injection H as <-; (eapply within_same; [| |exact W]; reflexivity).
      * injection H as <-. apply proceed_within; [exact W|]. apply must_wait_false. exact Ew.
  - (* EResume *)
    destruct (get_pc (pcs s) t) as [| k f | | | | |]; try discriminate.
    destruct f; try discriminate.
    + set (s1 := with_woken s (filter (fun x => negb (x =? t)) (woken s))) in *.
      assert (W1 : within c s1) by (eapply within_same; [| |exact W]; reflexivity).
      destruct (wait_slot_found (avail c s1 k)) eqn:Ef.
      * injection H as <-. apply proceed_within; [exact W1|]. apply slot_found_true. exact Ef.
      * destruct (refuse_wait s1); injection H as <-; (eapply within_same; [| |exact W1]; reflexivity).
    + injection H as <-. eapply within_same; [| |exact W]; reflexivity.
    + set (s1 := with_woken s (filter (fun x => negb (x =? t)) (woken s))) in *.
      assert (W1 : within c s1) by (eapply within_same; [| |exact W]; reflexivity).
      destruct (release_waiter c s1 order) as [s2|] eqn:Er; [|discriminate].
      injection H as <-. eapply within_same with (s := s2); [reflexivity|reflexivity|].
      eapply release_waiter_within; eauto.
  - (* ECancel *)
    destruct (get_pc (pcs s) t) as [| k f | | | | |]; try discriminate.
    destruct f; try discriminate; injection H as <-; (eapply within_same; [| |exact W]; reflexivity).
  - (* ECreateOk *)
    destruct (get_pc (pcs s) t); try discriminate.
    destruct (closed s); injection H as <-.
    + eapply within_same; [| |exact W]; reflexivity.
    + eapply within_same with (s := swap_slot (bump_conn s) (SPh t) (SConn (nconn s))); [reflexivity|reflexivity|].
      apply swap_slot_within. eapply within_same; [| |exact W]; reflexivity.
  - (* ECreateFail *)
    destruct (get_pc (pcs s) t); try discriminate.
    destruct (release_acquired c s (SPh t) order) as [s1|] eqn:Er; [|discriminate].
    injection H as <-. eapply within_same with (s := s1); [reflexivity|reflexivity|].
    eapply release_acquired_within; eauto.
  - (* ERelease *)
    destruct (get_pc (pcs s) t) as [| | | k cn | | |]; try discriminate.
    destruct (closed s).
    + injection H as <-. eapply within_same; [| |exact W]; reflexivity.
    + destruct (release_acquired c s (SConn cn) order) as [s1|] eqn:Er; [|discriminate].
      injection H as <-. pose proof (release_acquired_within _ _ _ _ _ W Er) as W1.
      destruct (force_close c || cl); (eapply within_same; [| |exact W1]; reflexivity).
  - (* EClose *)
    destruct (closed s); injection H as <-; [exact W|].
    destruct W as [HT HH]. split; cbn [acquired hostacq length]; [lia|].
    destruct close_clears_per_host; try exact HH; intros Hl k; unfold count_host; cbn [filter length]; lia.
Qed.

Lemma within_init c : within c init.
Proof. split; simpl; intros; unfold count_host; simpl; lia. Qed.

Lemma run_within c : forall tr s s',
  within c s -> all_steps (good_step c) c s tr -> run c s tr = Some s' -> within c s'.
Proof.
  induction tr as [|e r IH]; intros s s' W A H; simpl in *.
  - injection H as <-. exact W.
  - destruct A as [G A]. destruct (step c s e) as [s1|] eqn:Es; [|discriminate].
    eapply IH; [|exact A|exact H]. eapply step_within; eauto.
Qed.

(* the property's limit clause for every run that never takes an idle connection past a limit *)
Lemma limit_partial c tr s :
  run c init tr = Some s -> all_steps (good_step c) c init tr ->
  ((0 < limit c)%Z -> (Z.of_nat (length (acquired s)) <= limit c)%Z) /\
  ((0 < lph c)%Z -> forall k, (Z.of_nat (count_host k (hostacq s)) <= lph c)%Z).
Proof. intros H A. exact (run_within c tr init s (within_init c) A H). Qed.

(* force_close connectors never pool: the hypothesis is then automatic *)
Definition no_idle (s : state) : Prop := idle s = [].

Lemma release_acquired_idle c s sl order s' :
  release_acquired c s sl order = Some s' -> idle s' = idle s.
Proof.
  unfold release_acquired, release_waiter. destruct (closed s); [intros [= <-]; reflexivity|].
  destruct (covers order (waiters (del_slot s sl))); [|discriminate]. intros [= <-].
  destruct (release_loop_frame c order (del_slot s sl)) as (_ & _ & I & _). exact I.
Qed.

Lemma step_no_idle c s e s' :
  force_close c = true -> no_idle s -> step c s e = Some s' -> no_idle s'.
Proof.
  unfold no_idle. intros F I H.
  destruct e as [t k|t order|t|t|t order|t cl order|]; simpl in H.
  - destruct (get_pc (pcs s) t); try discriminate. rewrite I in H. simpl in H.
    destruct (connect_must_wait (avail c s k)).
    { destruct (refuse_wait s); injection H as <-; exact I. }
    injection H as <-. unfold proceed. rewrite I. simpl. exact I.
  - destruct (get_pc (pcs s) t) as [| k f | | | | |]; try discriminate.
    destruct f; try discriminate.
    + destruct (wait_slot_found _).
      * injection H as <-. unfold proceed. simpl. rewrite I. simpl. exact I.
      * destruct (refuse_wait _); injection H as <-; exact I.
    + injection H as <-. exact I.
    + destruct (release_waiter c _ order) as [s2|] eqn:Er; [|discriminate]. injection H as <-.
      unfold release_waiter in Er. destruct (covers order _); [|discriminate]. injection Er as <-.
      simpl. match goal with |- idle (release_loop c ?x order) = [] =>
        destruct (release_loop_frame c order x) as (_ & _ & I' & _); rewrite I' end. exact I.
  - destruct (get_pc (pcs s) t) as [| k f | | | | |]; try discriminate.
    destruct f; try discriminate; injection H as <-; exact I.
  - destruct (get_pc (pcs s) t); try discriminate. destruct (closed s); injection H as <-; exact I.
  - destruct (get_pc (pcs s) t); try discriminate.
    destruct (release_acquired c s (SPh t) order) as [s1|] eqn:Er; [|discriminate].
    injection H as <-. simpl. rewrite (release_acquired_idle _ _ _ _ _ Er). exact I.
  - destruct (get_pc (pcs s) t) as [| | | k cn | | |]; try discriminate.
    destruct (closed s); [injection H as <-; exact I|].
    destruct (release_acquired c s (SConn cn) order) as [s1|] eqn:Er; [|discriminate].
    injection H as <-. rewrite F. simpl. rewrite (release_acquired_idle _ _ _ _ _ Er). exact I.
  - destruct (closed s); injection H as <-; [exact I|reflexivity].
Qed.

Lemma force_close_good c : force_close c = true -> forall tr s,
  no_idle s -> all_steps (good_step c) c s tr.
Proof.
  intros F. induction tr as [|e r IH]; intros s I; simpl; [exact Logic.I|]. split.
  - destruct e; simpl; try exact Logic.I. left. rewrite I. reflexivity.
  - destruct (step c s e) as [s1|] eqn:Es; [|exact Logic.I]. apply IH. eapply step_no_idle; eauto.
Qed.

Lemma limit_force_close c tr s :
  force_close c = true -> run c init tr = Some s ->
  ((0 < limit c)%Z -> (Z.of_nat (length (acquired s)) <= limit c)%Z) /\
  ((0 < lph c)%Z -> forall k, (Z.of_nat (count_host k (hostacq s)) <= lph c)%Z).
Proof.
  intros F H. apply (limit_partial c tr s H). apply force_close_good; [exact F|reflexivity].
Qed.
