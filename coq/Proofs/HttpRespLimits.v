(* Limits and retained bytes of the response parser model (C10): what the parser holds between two
   reads is bounded by the configured limits plus the size of one read; complete lines over their
   limit are rejected; a folded field value never exceeds max_field_size. *)
From Coq Require Import ZifyBool ZifyN.
From AV Require Import Lib.Base Lib.BytesX Lib.Utf8Decode Generated.HttpGen Generated.HttpRespGen Model.Http Model.HttpResp
  Proofs.HttpSegBase Proofs.HttpRespBase Proofs.HttpRespChunk Proofs.HttpRespSeg.
Ltac Zify.zify_post_hook ::= Z.to_euclidean_division_equations.
Open Scope N_scope.

(* max(max_line_size, max_field_size); own copy so that this file does not depend on the request-side limits proofs *)
Definition rbig (lim : limits) : N := N.max (max_line lim) (max_field lim).

Lemma rlimit_le_big lim (ls : list bytes) :
  match ls with [] => max_line lim | _ => max_field lim end <= rbig lim.
Proof. unfold rbig. destruct ls; lia. Qed.

(* trailer lines collected so far: at most max_trailers (<= max_headers), each within max_field_size;
   buffered partial chunk-size / trailer line: at most 2 * max(max_line, max_field) + n bytes,
   n = the longest read so far (its length is re-checked against the limit when the next read starts) *)
Definition tl_bounded (lim : limits) (mt : N) (tl : list bytes) : Prop :=
  lenN tl <= mt /\ mt <= max_headers lim /\ Forall (fun l => lenN l <= max_field lim) tl.

Definition pbounded (lim : limits) (n : N) (p : rpstate) : Prop :=
  lenN (rctail p) <= 2 * rbig lim + 2 + n /\ tl_bounded lim (rmax_trailers p) (rtlines p).

Definition rbounded (lim : limits) (n : N) (s : rst) : Prop :=
  lenN (rtail s) <= rbig lim + 1 /\ lenN (rlines s) <= max_headers lim /\
  Forall (fun l => lenN l <= rbig lim) (rlines s) /\
  match rpayload s with Some p => pbounded lim n p | None => True end.

Lemma rbounded_init lim n : rbounded lim n rinit.
Proof. unfold rbounded, rinit. cbn. repeat split; [lia|lia|constructor]. Qed.

(* ------------------------------------------------------------------ chunked loop *)
Definition rcinv (lim : limits) (mt : N) (s : rcst) : Prop :=
  rcwf s /\ tl_bounded lim mt (snd (fst s)).

Lemma rstep_c_dec2 lim mt : forall s b s' b', rcinv lim mt s -> rstep_c lim mt s b = inl (s', b') ->
  rcinv lim mt s' /\ (meas rmu_c s' b' < meas rmu_c s b)%nat.
Proof.
  intros s b s' b' [Hw Ht] H. destruct (rstep_c_dec lim mt s b s' b' Hw H) as [Hw' Hm].
  split; [|exact Hm]. split; [exact Hw'|].
  destruct s as [[c tl] evs]. destruct b as [|a r]; [discriminate|]. cbn [fst snd] in *.
  destruct c; cbn [rstep_c] in H.
  - repeat (dmH H; try discriminate); inj_inl H; exact Ht.
  - repeat (dmH H; try discriminate); inj_inl H; exact Ht.
  - repeat (dmH H; try discriminate); inj_inl H; exact Ht.
  - destruct (find_lf (a :: r)) as [[raw rest]|]; [|discriminate].
    destruct (max_field lim <? len1 raw) eqn:E1; [discriminate|]. pose proof (rstrip_cr_le_len1 raw) as Hrl.
    destruct (mt <? lenN (tl ++ [rstrip_cr raw])) eqn:E2; [discriminate|].
    destruct (rstrip_cr raw) as [|l0 l] eqn:El; [repeat (dmH H; try discriminate)|].
    inj_inl H. cbn [fst snd]. destruct Ht as (A & B & C). repeat split; [lia|exact B|].
    apply Forall_app. split; [exact C|]. constructor; [lia|constructor].
Qed.

Lemma rcstop_need_shape lim mt c tl evs x p' e1 :
  rstep_c lim mt (c, tl, evs) x = inr (QNeed p' e1) ->
  rtlines p' = tl /\ rmax_trailers p' = mt /\ (length (rctail p') <= length x)%nat.
Proof.
  intro H. destruct x as [|a r].
  { cbn [rstep_c] in H. inversion H; subst. cbn. repeat split; try reflexivity; lia. }
  destruct c; cbn [rstep_c] in H; repeat (dmH H; try discriminate); inversion H; subst; cbn; repeat split; try reflexivity; lia.
Qed.

Lemma rcloop_need_bounds lim mt f s x p' e1 : rcinv lim mt s -> (meas rmu_c s x < f)%nat ->
  rcloop lim mt f s x = QNeed p' e1 ->
  (length (rctail p') <= length x)%nat /\ rmax_trailers p' = mt /\ tl_bounded lim mt (rtlines p').
Proof.
  intros Hi Hf H.
  destruct (stopcfg (rstep_c lim mt) f s x) as [sk xk] eqn:E.
  destruct (stopcfg_stop _ _ (rstep_c lim mt) rcdflt rmu_c (rcinv lim mt) (rstep_c_dec2 lim mt) f s x Hi Hf sk xk E)
    as ([Hwk Htk] & Hm & r & Hs & Hr).
  unfold rcloop in H. rewrite H in Hr. subst r.
  destruct sk as [[ck tlk] evk]. cbn [fst snd] in *.
  destruct (rcstop_need_shape _ _ _ _ _ _ _ _ Hs) as (A & B & C).
  rewrite A. split; [|split; [exact B|exact Htk]].
  unfold meas, rmu_c in Hm. cbn [fst] in Hm. destruct ck, (fst (fst s)); lia.
Qed.

Lemma rtoo_long_false_len lim p : rwfp p -> rtoo_long lim p = false -> lenN (rctail p) <= rbig lim + 1.
Proof.
  unfold rwfp, rtoo_long, rbig. intros Hw H.
  destruct (rpk p) as [rem|c|].
  - destruct Hw as (_ & -> & _). unfold lenN. cbn. lia.
  - destruct (rctail p) as [|t0 t] eqn:Et; [unfold lenN; cbn; lia|].
    pose proof (lenN_le_len1 (t0 :: t)).
    destruct c; cbn [rwfc] in Hw; try (destruct Hw as [_ Hw]); try discriminate; lia.
  - destruct Hw as (-> & _). unfold lenN. cbn. lia.
Qed.

Lemma rfeed_payload_need_bounds lim p x evs p' e1 n : rwfp p ->
  tl_bounded lim (rmax_trailers p) (rtlines p) ->
  rfeed_payload lim p x evs = QNeed p' e1 ->
  lenN x <= rbig lim + 1 + n ->
  pbounded lim n p'.
Proof.
  intros Hw Ht H Hx. pose proof Hw as Hw0. unfold rwfp in Hw. destruct (rpk p) as [rem|c|] eqn:Ek.
  - unfold rfeed_payload in H. rewrite Ek in H.
    destruct (takeN rem x) as [d r]. destruct (rem - lenN d =? 0); [discriminate|].
    inversion H; subst. unfold pbounded, tl_bounded. cbn. destruct Ht as (_ & B & _).
    repeat split; [unfold lenN; cbn; lia|unfold lenN; cbn; lia|exact B|constructor].
  - rewrite (rfeed_payload_chunked _ _ _ _ _ Ek) in H.
    destruct (rtoo_long lim p) eqn:Et; [discriminate|].
    pose proof (rtoo_long_false_len lim p Hw0 Et) as Hl.
    pose proof (rwfc_cwf _ _ (rtlines p) evs Hw) as Hc.
    destruct (rcloop_need_bounds lim (rmax_trailers p) _ (c, rtlines p, evs) _ p' e1
                (conj Hc Ht) (rmeas_c_fuel _ _ _ _) H) as (A & B & C).
    unfold pbounded. rewrite B. split; [|exact C].
    rewrite app_length in A. unfold lenN in *. lia.
  - unfold rfeed_payload in H. rewrite Ek in H. inversion H; subst.
    destruct Hw as (Hc & _). unfold pbounded. rewrite Hc. split; [unfold lenN; cbn; lia|exact Ht].
Qed.

(* ------------------------------------------------------------------ feed loop *)
Lemma rstart_message_payload cfg s ls s' f :
  rstart_message cfg s ls = QOk (s', f) ->
  match rpayload s' with
  | Some p => rctail p = [] /\ rtlines p = [] /\ rmax_trailers p = max_headers (c_lim cfg) - lenN ls
  | None => True
  end.
Proof.
  unfold rstart_message. cbv zeta.
  destruct (parse_response (max_field (c_lim cfg)) (removelast ls)) as [m|]; [|discriminate].
  destruct (get_header h_content_length (rm_headers m)) as [v|].
  - destruct (nonempty v && forallb dec_digit v && (lenN v <=? int_max_str_digits)); [|discriminate].
    destruct (has_header h_sec_websocket_key1 (rm_headers m)); [discriminate|].
    repeat (match goal with |- context [if ?b then _ else _] => destruct b end);
      intro H; inversion H; subst; cbn; auto.
  - destruct (has_header h_sec_websocket_key1 (rm_headers m)); [discriminate|].
    repeat (match goal with |- context [if ?b then _ else _] => destruct b end);
      intro H; inversion H; subst; cbn; auto.
Qed.

Definition rlines_ok (lim : limits) (s : rst) : Prop :=
  lenN (rlines s) <= max_headers lim /\ Forall (fun l => lenN l <= rbig lim) (rlines s).

Definition rinv_b (lim : limits) (n : N) (se : rfcfg) : Prop :=
  rinv_f se /\ rlines_ok lim (fst se) /\
  match rpayload (fst se) with Some p => pbounded lim n p | None => True end.

Lemma rstep_f_dec_b cfg n : forall se b se' b', rinv_b (c_lim cfg) n se -> rstep_f cfg se b = inl (se', b') ->
  rinv_b (c_lim cfg) n se' /\ (meas rmu_f se' b' < meas rmu_f se b)%nat.
Proof.
  intros se b se' b' (Hi & Hl & Hp) H.
  destruct (rstep_f_dec cfg se b se' b' Hi H) as [Hi' Hm]. split; [|exact Hm].
  split; [exact Hi'|].
  destruct se as [s evs]. destruct b as [|a r]; [discriminate|]. cbn [fst] in *. cbn [rstep_f] in H.
  destruct (rpayload s) as [p|] eqn:Ep.
  - destruct (rfeed_payload (c_lim cfg) p (a :: r) evs) as [p' e1|rest e1|e e1]; [discriminate| |dmH H; discriminate].
    inj_inl H. cbn [fst rlines rpayload]. split; [exact Hl|exact I].
  - destruct (rupgraded s); [discriminate|].
    destruct ((0 <? max_queue (c_lim cfg)) && (max_queue (c_lim cfg) <=? rin_flight s)); [discriminate|].
    destruct (find_lf (a :: r)) as [[raw rest]|]; [|repeat (dmH H; try discriminate)].
    assert (Hsm : forall ls s1 e1, rstart_message cfg s ls = QOk (s1, e1) ->
              (max_headers (c_lim cfg) <? lenN ls) = false ->
              rlines_ok (c_lim cfg) s1 /\ match rpayload s1 with Some p => pbounded (c_lim cfg) n p | None => True end).
    { intros ls s1 e1 Es Ec. pose proof (rstart_message_inv _ _ _ _ _ Es) as (A & B & C).
      pose proof (rstart_message_payload _ _ _ _ _ Es) as D. split.
      - unfold rlines_ok. rewrite B. split; [unfold lenN; cbn; lia|constructor].
      - destruct (rpayload s1) as [p1|]; [|exact I]. destruct D as (D1 & D2 & D3).
        unfold pbounded, tl_bounded. rewrite D1, D2, D3. repeat split; [unfold lenN; cbn; lia|unfold lenN; cbn; lia|lia|constructor]. }
    destruct raw as [|l0 raw].
    + destruct (rlines s) as [|l1 ls] eqn:El.
      * inj_inl H. cbn [fst]. rewrite Ep. split; [exact Hl|exact I].
      * repeat (dmH H; try discriminate); inj_inl H; cbn [fst]; eapply Hsm; eassumption.
    + pose proof (rstrip_cr_le_len1 (l0 :: raw)) as Hrl.
      remember (rstrip_cr (l0 :: raw)) as line eqn:Eline.
      repeat (dmH H; try discriminate); inj_inl H; cbn [fst];
        first [ eapply Hsm; eassumption
              | split; [|exact I]; destruct Hl as [A B]; split; cbn [rlines];
                [ lia
                | apply Forall_app; split; [exact B|]; constructor; [|constructor];
                  pose proof (rlimit_le_big (c_lim cfg) (rlines s)); lia ] ].
Qed.

Lemma rfeed_bounded cfg s d a s' a' lo n :
  max_queue (c_lim cfg) = 0 -> rwf s -> rbounded (c_lim cfg) n s ->
  rfeed cfg s d a = (s', a', OOk lo) ->
  rbounded (c_lim cfg) (N.max n (lenN d)) s'.
Proof.
  intros Hq Hw (Hb1 & Hb2 & Hb3 & Hb4) H.
  set (lim := c_lim cfg) in *. set (n' := N.max n (lenN d)).
  assert (Hi : rinv_b lim n' (rclr s, a)).
  { split; [apply rinv_f_clr; exact Hw|]. split; [split; assumption|].
    cbn [fst rclr rpayload]. destruct (rpayload s) as [p|]; [|exact I].
    destruct Hb4 as [A B]. split; [lia|exact B]. }
  rewrite rfeed_floop in H.
  destruct (stopcfg (rstep_f cfg) (2 * length (rtail s ++ d) + 2) (rclr s, a) (rtail s ++ d)) as [[sk ek] xk] eqn:E.
  destruct (stopcfg_stop _ _ (rstep_f cfg) rfdflt rmu_f (rinv_b lim n') (rstep_f_dec_b cfg n') _ _ _
              Hi (rmeas_f_fuel _ _) _ _ E) as (((Htk & Hpk) & (Hlk1 & Hlk2) & Hbk) & Hm & r & Hs & Hr).
  unfold rfloop in H. rewrite H in Hr. subst r. cbn [fst] in *.
  assert (Hlen : lenN xk <= rbig lim + 1 + n').
  { unfold meas, rmu_f in Hm. cbn [fst] in Hm. rewrite app_length in Hm.
    assert (length xk <= length (rtail s) + length d)%nat by (destruct (rpayload sk), (rpayload (rclr s)); lia).
    unfold lenN in *. lia. }
  destruct xk as [|x0 xk'].
  { cbn [rstep_f] in Hs. inversion Hs; subst. unfold rbounded. rewrite Htk.
    split; [|split; [|split]]; [unfold lenN; cbn; lia|assumption|assumption|assumption]. }
  cbn [rstep_f] in Hs. fold lim in Hs. unfold rpwf in Hpk.
  destruct (rpayload sk) as [p|] eqn:Ep.
  - destruct (rfeed_payload lim p (x0 :: xk') ek) as [p' e1|rest e1|e e1] eqn:Ef; [|discriminate|].
    2:{ rewrite rfatal_all in Hs. discriminate. }
    inversion Hs; subst. unfold rbounded. cbn [rtail rlines rpayload]. rewrite Htk.
    split; [|split; [|split]]; [unfold lenN; cbn; lia|assumption|assumption|].
    destruct Hbk as [_ Hbt].
    eapply rfeed_payload_need_bounds; eassumption.
  - destruct (rupgraded sk).
    { inversion Hs; subst. unfold rbounded. rewrite Htk, Ep.
      split; [|split; [|split]]; [unfold lenN; cbn; lia|assumption|assumption|exact I]. }
    rewrite Hq in Hs. change ((0 <? 0) && (0 <=? rin_flight sk)) with false in Hs. cbv iota in Hs.
    destruct (find_lf (x0 :: xk')) as [[raw rest]|].
    { exfalso. repeat (dmH Hs; try discriminate). }
    dmH Hs; [discriminate|]. inversion Hs; subst. unfold rbounded. cbn [rtail rlines rpayload].
    pose proof (rlimit_le_big lim (rlines sk)). pose proof (lenN_le_len1 (x0 :: xk')).
    split; [|split; [|split]]; [lia|assumption|assumption|exact I].
Qed.

Fixpoint maxlen (segs : list bytes) : N :=
  match segs with [] => 0 | d :: r => N.max (lenN d) (maxlen r) end.

Lemma pbounded_mono lim n m p : n <= m -> pbounded lim n p -> pbounded lim m p.
Proof. unfold pbounded. intros H [A B]. split; [lia|exact B]. Qed.

Lemma rbounded_mono lim n m s : n <= m -> rbounded lim n s -> rbounded lim m s.
Proof.
  unfold rbounded. intros H (A & B & C & D). split; [|split; [|split]]; try assumption.
  destruct (rpayload s); [eapply pbounded_mono; eassumption|exact I].
Qed.

(* over any sequence of reads *)
Lemma rrun_segs_bounded cfg : max_queue (c_lim cfg) = 0 ->
  forall segs s a lo0 s' a' lo n,
    rwf s -> rbounded (c_lim cfg) n s -> rrun_segs cfg s segs a lo0 = (s', a', OOk lo) ->
    rbounded (c_lim cfg) (N.max n (maxlen segs)) s'.
Proof.
  intros Hq. induction segs as [|d segs IH]; intros s a lo0 s' a' lo n Hw Hb H; cbn [rrun_segs] in H.
  - inversion H; subst. eapply rbounded_mono; [|exact Hb]. cbn [maxlen]. lia.
  - destruct (rfeed cfg s d a) as [[s1 a1] r] eqn:Ef. destruct r as [l|e]; try discriminate.
    pose proof (rfeed_wf _ _ _ _ _ _ _ Hw Ef) as Hw1.
    pose proof (rfeed_bounded _ _ _ _ _ _ _ n Hq Hw Hb Ef) as Hb1.
    pose proof (IH _ _ _ _ _ _ _ Hw1 Hb1 H) as Hb2.
    eapply rbounded_mono; [|exact Hb2]. cbn [maxlen]. lia.
Qed.

(* ------------------------------------------------------------------ limits are enforced *)
(* a complete line whose measured length (its last CR not counted) is over its limit: LineTooLong *)
Lemma rheader_line_too_long cfg f s buf a raw rest :
  rpayload s = None -> rupgraded s = false -> max_queue (c_lim cfg) = 0 -> rshould_close s = false ->
  find_lf buf = Some (raw, rest) -> buf <> [] ->
  match rlines s with [] => max_line (c_lim cfg) | _ => max_field (c_lim cfg) end < len1 raw ->
  rfeed_loop (S f) cfg s buf a = (s, a, OErr ELineTooLong).
Proof.
  intros Hp Hu Hq Hc Hf Hne Hlim. cbn [rfeed_loop]. destruct buf as [|b0 buf0]; [congruence|].
  rewrite Hp, Hu, Hq. change ((0 <? 0) && (0 <=? rin_flight s)) with false. cbv iota. rewrite Hf.
  destruct raw as [|l0 raw0].
  - exfalso. unfold len1, lenN in Hlim. cbn in Hlim. destruct (rlines s); lia.
  - rewrite Hc.
    destruct (match rlines s with [] => max_line (c_lim cfg) | _ => max_field (c_lim cfg) end <? len1 (l0 :: raw0)) eqn:E;
      [reflexivity|lia].
Qed.

(* more lines than max_headers in a header block: rejected when the excess line arrives *)
Lemma rtoo_many_headers cfg f s buf a raw rest :
  rpayload s = None -> rupgraded s = false -> max_queue (c_lim cfg) = 0 -> rshould_close s = false ->
  find_lf buf = Some (raw, rest) -> buf <> [] -> rlines s <> [] ->
  len1 raw <= max_field (c_lim cfg) -> max_headers (c_lim cfg) < lenN (rlines s) + 1 ->
  rfeed_loop (S f) cfg s buf a = (s, a, OErr EBadMessage).
Proof.
  intros Hp Hu Hq Hc Hf Hne Hl Hlen Hcnt. cbn [rfeed_loop]. destruct buf as [|b0 buf0]; [congruence|].
  rewrite Hp, Hu, Hq. change ((0 <? 0) && (0 <=? rin_flight s)) with false. cbv iota. rewrite Hf.
  destruct (rlines s) as [|x xs] eqn:El; [congruence|].
  assert (Hc2 : max_headers (c_lim cfg) <? lenN ((x :: xs) ++ [rstrip_cr raw]) = true).
  { rewrite lenN_app. unfold lenN at 2. cbn [length]. lia. }
  destruct raw as [|l0 raw0]; rewrite Hc.
  - destruct (max_field (c_lim cfg) <? len1 []) eqn:E; [lia|]. rewrite Hc2. reflexivity.
  - destruct (max_field (c_lim cfg) <? len1 (l0 :: raw0)) eqn:E; [lia|]. rewrite Hc2. reflexivity.
Qed.

(* ------------------------------------------------------------------ folded field values *)
Lemma lstrip_ows_l_len s : lenN (lstrip_ows_l s) <= lenN s.
Proof. unfold lenN, lstrip_ows_l. pose proof (lstrip_by_len is_ows s). lia. Qed.

Lemma strip_ows_l_len s : lenN (strip_ows_l s) <= lenN s.
Proof. unfold lenN, strip_ows_l. pose proof (strip_by_len is_ows s). lia. Qed.

Lemma parse_field_name_len line n v : parse_field_name line = QOk (n, v) -> lenN v <= lenN line.
Proof.
  unfold parse_field_name. destruct (split_byte 58 line) as [[bn bv]|] eqn:E; [|discriminate].
  destruct bn as [|f0 bn]; [discriminate|].
  destruct (is_ows f0 || is_ows (last (f0 :: bn) 0)); [discriminate|].
  destruct (negb (forallb tchar (f0 :: bn))); [discriminate|].
  intro H. inversion H; subst. apply split_byte_shape in E. subst line. pose proof (lstrip_ows_l_len bv).
  unfold lenN in *. rewrite app_length. cbn [length] in *. lia.
Qed.

Definition cur_ok (mf : N) (c : option cur) : Prop :=
  match c with Some cu => lenN (cu_value cu) <= cu_len cu /\ cu_len cu <= mf | None => True end.

Lemma finish_field_len mf cu kv : cur_ok mf (Some cu) -> finish_field cu = QOk kv -> lenN (snd kv) <= mf.
Proof.
  unfold finish_field, cur_ok. intros [A B] H. destruct (existsb lax_value_forbidden (strip_ows_l (cu_value cu))); [discriminate|].
  inversion H; subst. cbn [snd]. pose proof (strip_ows_l_len (cu_value cu)). lia.
Qed.

Lemma parse_fields_lax_bound mf : forall lines c acc hs,
  Forall (fun l => lenN l <= mf) lines -> cur_ok mf c ->
  Forall (fun kv : bytes * bytes => lenN (snd kv) <= mf) acc ->
  parse_fields_lax mf lines c acc = QOk hs ->
  Forall (fun kv : bytes * bytes => lenN (snd kv) <= mf) hs.
Proof.
  induction lines as [|l ls IH]; intros c acc hs Hl Hc Ha H; cbn [parse_fields_lax] in H.
  - destruct c as [cu|]; [|inversion H; subst; exact Ha].
    destruct (finish_field cu) as [kv|] eqn:Ef; [|discriminate]. inversion H; subst.
    apply Forall_app. split; [exact Ha|]. constructor; [|constructor]. eapply finish_field_len; eassumption.
  - inversion Hl as [|l' ls' Hl1 Hl2]; subst.
    assert (Hnew : forall n v, parse_field_name l = QOk (n, v) -> cur_ok mf (Some (mkCur n v (lenN v) false))).
    { intros n v E. apply parse_field_name_len in E. cbn. split; lia. }
    destruct c as [cu|].
    + destruct (starts_ows l).
      * destruct (mf <? cu_len cu + lenN l) eqn:E; [discriminate|].
        eapply IH; [exact Hl2| |exact Ha|exact H]. cbn. destruct Hc as [A B]. rewrite lenN_app. split; lia.
      * destruct l as [|l0 l1].
        -- destruct (cu_cont cu); [eapply IH; eassumption|].
           destruct (finish_field cu) as [kv|] eqn:Ef; [|discriminate]. inversion H; subst.
           apply Forall_app. split; [exact Ha|]. constructor; [|constructor]. eapply finish_field_len; eassumption.
        -- destruct (finish_field cu) as [kv|] eqn:Ef; [|discriminate].
           destruct (parse_field_name (l0 :: l1)) as [[n v]|] eqn:En; [|discriminate].
           eapply IH; [exact Hl2|apply Hnew; reflexivity| |exact H].
           apply Forall_app. split; [exact Ha|]. constructor; [|constructor]. eapply finish_field_len; eassumption.
    + destruct l as [|l0 l1]; [inversion H; subst; exact Ha|].
      destruct (parse_field_name (l0 :: l1)) as [[n v]|] eqn:En; [|discriminate].
      eapply IH; [exact Hl2|apply Hnew; reflexivity|exact Ha|exact H].
Qed.

(* every accepted field value - folded or not - is within max_field_size when the physical lines are *)
Theorem rfolded_value_bound mf lines hs :
  Forall (fun l => lenN l <= mf) lines -> parse_headers_lax mf lines = QOk hs ->
  Forall (fun kv : bytes * bytes => lenN (snd kv) <= mf) hs.
Proof. intros Hl H. exact (parse_fields_lax_bound mf lines None [] hs Hl I (Forall_nil _) H). Qed.
