(* C13 — bounded progress of close(): while close() waits for the peer's close frame its timeout is armed with
   a deadline at most one close timeout ahead (or has fired, with the wake-up queued); firing the timer queues
   the wake-up; the wake-up after expiry/cancellation ends close() in that step; on both sides a wake-up that
   finds no close frame re-suspends under the same deadline. *)
From Coq Require Import List NArith Bool Arith Lia.
Import ListNotations.
From AV Require Import Generated.WsSessionGen Model.WsSession.
Open Scope N_scope.

Section Prog.
Variable c : config.

Definition is_close_read (p : pc) : bool := match p with PCloseRead _ => true | _ => false end.

(* task-local invariant, n = current time *)
Definition TI (n : N) (k : task) : Prop :=
  is_close_read (t_pc k) = true ->
  (exists d, t_tmo k = Some d /\ d <= n + c_close_tmo c) \/ (t_expired k = true /\ t_fut k <> None).
Definition TIall (s : state) : Prop := forall x, TI (now s) (tasks s x).

(* functions that leave tasks and the clock alone *)
Definition tn (s : state) := (tasks s, now s).
Lemma TIall_tn s s' : tn s' = tn s -> TIall s -> TIall s'.
Proof. unfold TIall, tn. intros E H x. inversion E as [[E1 E2]]. rewrite E1, E2. apply H. Qed.

Lemma TI_upd s t f : TIall s -> TI (now s) (f (tasks s t)) -> TIall (upd_task s t f).
Proof.
  intros H Hf x. unfold upd_task. cbn. destruct (Nat.eqb_spec x t) as [->|]; [exact Hf|apply H].
Qed.
Lemma TI_finish s t r : TIall s -> TIall (finish s t r).
Proof. intros H. apply TI_upd; [exact H|]. intros E. discriminate. Qed.
Lemma TI_suspend s t p d : TIall s ->
  (is_close_read p = true -> exists d0, d = Some d0 /\ d0 <= now s + c_close_tmo c) -> TIall (suspend s t p d).
Proof. intros H Hd. apply TI_upd; [exact H|]. intros E. cbn in E. left. destruct (Hd E) as (d0 & -> & Hb). eauto. Qed.
Lemma TI_enq s r : TIall s -> TIall (enq s r). Proof. apply TIall_tn. reflexivity. Qed.
Lemma TI_fut_done s t r : TIall s -> TIall (fut_done s t r).
Proof.
  intros H. unfold fut_done. destruct (t_fut (tasks s t)) eqn:E; [exact H|]. apply TI_enq. apply TI_upd; [exact H|].
  intros Hp. cbn in *. destruct (H t Hp) as [Hd|[He Hf]]; [left; exact Hd|congruence].
Qed.
Lemma TI_release_waiter s : TIall s -> TIall (release_waiter s).
Proof. intros H. unfold release_waiter. destruct (q_waiter s); [|exact H]. apply TI_fut_done. exact H. Qed.
Lemma TI_feed_data s m : TIall s -> TIall (feed_data s m).
Proof. intros H. unfold feed_data. apply TI_release_waiter. exact H. Qed.
Lemma TI_feed_eof s : TIall s -> TIall (feed_eof s).
Proof. intros H. unfold feed_eof. eapply TIall_tn with (s := release_waiter (set_q_eof s true)); [reflexivity|]. apply TI_release_waiter. exact H. Qed.
Lemma TI_q_set_exception s code : TIall s -> TIall (q_set_exception s code).
Proof. intros H. unfold q_set_exception. cbn zeta. destruct (q_waiter _); [apply TI_fut_done|]; exact H. Qed.
Lemma tn_transport_close s : tn (transport_close s) = tn s.
Proof. unfold transport_close. destruct (tr_closing s); reflexivity. Qed.
Lemma tn_close_transport s : tn (close_transport c s) = tn s.
Proof. unfold close_transport. destruct (c_side c); [destruct (lost s); [reflexivity|]|]; apply tn_transport_close. Qed.
Lemma tn_abnormal s : tn (abnormal c s) = tn s.
Proof. unfold abnormal. rewrite tn_close_transport. reflexivity. Qed.
Lemma tn_send_frame s f : tn (fst (send_frame s f)) = tn s.
Proof. unfold send_frame. destruct (_ && _); [|destruct (tr_closing s)]; reflexivity. Qed.
Lemma tn_writer_close s code : tn (fst (writer_close s code)) = tn s.
Proof. unfold writer_close. rewrite tn_send_frame. reflexivity. Qed.
Lemma now_fut_done s t r : now (fut_done s t r) = now s.
Proof. unfold fut_done. destruct (t_fut _); reflexivity. Qed.
Lemma now_feed_data s m : now (feed_data s m) = now s.
Proof. unfold feed_data, release_waiter. destruct (q_waiter _); [rewrite now_fut_done|]; reflexivity. Qed.

Lemma TI_close_ret s t k b : TIall s -> TIall (close_ret s t k b).
Proof. intros H. unfold close_ret. destruct k; apply TI_finish; [exact H|]. destruct (ph && negb b); exact H. Qed.
Lemma TI_close_exc s t k : TIall s -> TIall (close_exc c s t k).
Proof. intros H. unfold close_exc. apply TI_close_ret. eapply TIall_tn; [apply tn_abnormal|]. exact H. Qed.

Lemma next_deadline_ok s d : d <= now s + c_close_tmo c -> next_deadline c s d <= now s + c_close_tmo c.
Proof. intros H. exact H. Qed.

Lemma TI_close_read_loop buf : forall s t k d, TIall s -> d <= now s + c_close_tmo c -> TIall (close_read_loop c buf s t k d).
Proof.
  induction buf as [|m rest IH]; intros s t k d H Hd; cbn [close_read_loop].
  - destruct (q_eof s); [apply TI_close_exc; exact H|]. destruct (q_waiter s); [apply TI_close_exc; exact H|].
    apply TI_suspend; [exact H|]. intros _. exists d. split; [reflexivity|exact Hd].
  - cbn zeta. destruct m; try (apply IH; [exact H|apply (next_deadline_ok (set_q_buf s rest)); exact Hd]).
    apply TI_close_ret. eapply TIall_tn; [apply tn_close_transport|]. exact H.
Qed.
Lemma TI_close_read_resume s t k d : TIall s -> d <= now s + c_close_tmo c -> TIall (close_read_resume c s t k d).
Proof.
  intros H Hd. unfold close_read_resume. destruct (q_buf s); [|apply TI_close_read_loop; assumption].
  destruct (c_side c); [apply TI_close_exc; exact H|]. destruct (_ && _); [|apply TI_close_exc; exact H].
  apply TI_close_ret. eapply TIall_tn; [apply tn_close_transport|]. exact H.
Qed.
Lemma TI_server_close_tail s t k : TIall s -> TIall (server_close_tail c s t k).
Proof.
  intros H. unfold server_close_tail. destruct (closing s).
  - apply TI_close_ret. eapply TIall_tn; [apply tn_close_transport|]. exact H.
  - apply TI_close_read_loop; [exact H|lia].
Qed.
Lemma TI_client_close_body s t k code : TIall s -> TIall (client_close_body c s t k code).
Proof.
  intros H. unfold client_close_body. destruct (closed s); [apply TI_close_ret; exact H|].
  pose proof (tn_writer_close (mark_closed s) code) as E. destruct (writer_close (mark_closed s) code) as [s1 raised]. cbn [fst] in E.
  assert (H1 : TIall s1) by (eapply TIall_tn; [exact E|]; eapply TIall_tn; [|exact H]; reflexivity).
  destruct raised; [apply TI_close_exc; exact H1|]. destruct (truthy_code _).
  - apply TI_close_ret. eapply TIall_tn; [apply tn_close_transport|]. destruct k as [|m ph]; [exact H1|destruct ph; exact H1].
  - apply TI_close_read_loop; [exact H1|lia].
Qed.
Lemma TI_close_entry s t k code : TIall s -> TIall (close_entry c s t k code).
Proof.
  intros H. unfold close_entry. destruct (c_side c).
  - destruct (closed s); [apply TI_close_ret; exact H|].
    pose proof (tn_writer_close (mark_closed s) code) as E. destruct (writer_close (mark_closed s) code) as [s1 raised]. cbn [fst] in E.
    assert (H1 : TIall s1) by (eapply TIall_tn; [exact E|]; eapply TIall_tn; [|exact H]; reflexivity).
    destruct raised; [apply TI_close_exc; exact H1|]. destruct (waiting s1).
    + destruct (close_wait s1); [apply TI_finish; exact H1|].
      apply TI_suspend; [|intros E'; discriminate]. apply TI_feed_data. exact H1.
    + apply TI_server_close_tail. exact H1.
  - destruct (_ && _).
    + apply TI_suspend; [|intros E'; discriminate]. apply TI_feed_data. eapply TIall_tn; [|exact H]. reflexivity.
    + apply TI_client_close_body. exact H.
Qed.
Lemma TI_recv_finally s : TIall s -> TIall (recv_finally s).
Proof.
  intros H. unfold recv_finally. cbn zeta. destruct (close_wait _); [destruct (is_close_cw _); [apply TI_fut_done|]|];
  eapply TIall_tn; try exact H; reflexivity.
Qed.
Definition lres_st (r : lres) : state := match r with Stop s => s | Cont s => s end.
Lemma TI_recv_handle s t r : TIall s -> TIall (lres_st (recv_handle c s t r)).
Proof.
  intros H. unfold recv_handle. destruct r as [m|code| | |].
  - destruct m; cbn [lres_st]; try (apply TI_finish; exact H).
    + destruct (c_autoping c); [|apply TI_finish; exact H].
      pose proof (tn_send_frame s FPong) as E. destruct (send_frame s FPong) as [s1 raised]. cbn [fst] in E.
      assert (H1 : TIall s1) by (eapply TIall_tn; eassumption).
      destruct raised; cbn [lres_st]; [apply TI_finish|]; exact H1.
    + destruct (c_autoping c); cbn [lres_st]; [exact H|apply TI_finish; exact H].
    + destruct (_ && _); cbn [lres_st]; [apply TI_close_entry|apply TI_finish]; (eapply TIall_tn; [|exact H]; reflexivity).
    + apply TI_finish. destruct (c_side c); [destruct (closed s)|]; (eapply TIall_tn; [|exact H]; reflexivity).
  - cbn [lres_st]. apply TI_close_entry. destruct (c_side c); [destruct (closed s)|]; (eapply TIall_tn; [|exact H]; reflexivity).
  - cbn [lres_st]. apply TI_close_entry. destruct (closed s); (eapply TIall_tn; [|exact H]; reflexivity).
  - cbn [lres_st]. apply TI_finish. destruct (c_side c); [exact H|eapply TIall_tn; [|exact H]; reflexivity].
  - cbn [lres_st]. apply TI_finish. destruct (c_side c); [exact H|eapply TIall_tn; [|exact H]; reflexivity].
Qed.
Lemma TI_recv_loop buf : forall s t, TIall s -> TIall (recv_loop c buf s t).
Proof.
  induction buf as [|m rest IH]; intros s t H; cbn [recv_loop];
  (destruct (waiting s); [apply TI_finish; exact H|]);
  (destruct (closed s); [destruct (c_side c); [destruct (_ <=? _)|]; apply TI_finish; (eapply TIall_tn; [|exact H]; reflexivity)|]);
  (destruct (closing s); [destruct (c_side c); [apply TI_finish|apply TI_close_entry]; exact H|]);
  cbn zeta.
  - destruct (q_eof _).
    + match goal with |- context [recv_handle c ?s0 t ?r] =>
        assert (H0 : TIall s0) by (apply TI_recv_finally; eapply TIall_tn; [|exact H]; reflexivity);
        pose proof (TI_recv_handle s0 t r H0) as H1; destruct (recv_handle c s0 t r) end; exact H1.
    + destruct (q_waiter _).
      * apply TI_close_entry. eapply TIall_tn with (s := recv_finally (set_waiting s true)); [reflexivity|].
        apply TI_recv_finally. eapply TIall_tn; [|exact H]; reflexivity.
      * apply TI_suspend; [eapply TIall_tn; [|exact H]; reflexivity|intros E; discriminate].
  - assert (H0 : TIall (recv_finally (set_q_buf (set_waiting s true) rest))).
    { apply TI_recv_finally. eapply TIall_tn; [|exact H]; reflexivity. }
    pose proof (TI_recv_handle _ t (RRMsg m) H0) as H1.
    destruct (recv_handle c _ t (RRMsg m)); cbn [lres_st] in H1; [exact H1|apply IH; exact H1].
Qed.
Lemma TI_start_op s t o : TIall s -> TIall (start_op c s t o).
Proof.
  intros H. destruct o; cbn [start_op]; [apply TI_recv_loop|apply TI_close_entry|]; try exact H.
  match goal with |- context [send_frame s ?f] => pose proof (tn_send_frame s f) as E; destruct (send_frame s f) as [s1 raised] end.
  cbn [fst] in E. apply TI_finish. eapply TIall_tn; eassumption.
Qed.

Lemma TI_run_wake s t : TIall s -> TIall (run_wake c s t).
Proof.
  intros H. unfold run_wake. cbn zeta. destruct (t_pc (tasks s t)) as [|o| |kk code|kk|r] eqn:Epc; try exact H.
  - destruct (t_cancel _); [apply TI_finish|apply TI_start_op]; exact H.
  - destruct (t_fut _) as [fr|]; [|exact H].
    match goal with |- context [let '(_, _) := ?X in _] => assert (HX : TIall (fst X)); [|destruct X as [s1 r]] end.
    { destruct (was_cancelled _); [eapply TIall_tn; [|exact H]; reflexivity|].
      destruct fr; try exact H; unfold read_from_buffer; destruct (q_buf s); [destruct (q_exc s)| | destruct (q_exc s)|]; cbn [fst];
        try exact H; (eapply TIall_tn; [|exact H]; reflexivity). }
    cbn [fst] in HX.
    pose proof (TI_recv_handle _ t r (TI_recv_finally _ HX)) as H1.
    destruct (recv_handle c _ t r); cbn [lres_st] in H1; [exact H1|apply TI_recv_loop; exact H1].
  - destruct (t_fut _); [|exact H]. destruct (was_cancelled _).
    + apply TI_finish. destruct (c_side c); [eapply TIall_tn; [apply tn_abnormal|exact H]|exact H].
    + destruct (c_side c); [apply TI_server_close_tail|apply TI_client_close_body]; exact H.
  - destruct (t_fut _) as [fr|] eqn:Ef; [|exact H]. destruct (was_cancelled _) eqn:Ew.
    + destruct (is_timeout _).
      * apply TI_close_exc. eapply TIall_tn; [|exact H]; reflexivity.
      * apply TI_finish. eapply TIall_tn; [apply tn_abnormal|]. eapply TIall_tn; [|exact H]; reflexivity.
    + assert (Hd : match t_tmo (tasks s t) with Some d => d | None => now s + c_close_tmo c end <= now s + c_close_tmo c).
      { destruct (t_tmo (tasks s t)) eqn:Et; [|lia].
        assert (Hp : is_close_read (t_pc (tasks s t)) = true) by (rewrite Epc; reflexivity).
        destruct (H t Hp) as [(d & Hd1 & Hd2)|[He _]].
        - rewrite Et in Hd1. inversion Hd1; subst. exact Hd2.
        - unfold was_cancelled in Ew. rewrite He in Ew. rewrite orb_true_r in Ew. discriminate. }
      destruct fr; try (apply TI_close_exc; exact H); apply TI_close_read_resume; assumption.
Qed.

Lemma tasks_fut_done_other s t r x : x <> t -> tasks (fut_done s t r) x = tasks s x.
Proof.
  intros Hx. unfold fut_done. destruct (t_fut (tasks s t)); [reflexivity|]. cbn.
  destruct (Nat.eqb_spec x t); [congruence|reflexivity].
Qed.
Lemma fut_done_expired s t r : t_expired (tasks (fut_done s t r) t) = t_expired (tasks s t).
Proof. unfold fut_done. destruct (t_fut (tasks s t)); [reflexivity|]. cbn. rewrite Nat.eqb_refl. reflexivity. Qed.
Definition is_some {A} (o : option A) : bool := match o with Some _ => true | None => false end.
Lemma fut_done_fut_some s t r : is_some (t_fut (tasks (fut_done s t r) t)) = true.
Proof. unfold fut_done. destruct (t_fut (tasks s t)) eqn:E; [rewrite E; reflexivity|]. cbn. rewrite Nat.eqb_refl. reflexivity. Qed.

Lemma TI_ping_pong_exc s : TIall s -> TIall (ping_pong_exc c s).
Proof.
  intros H. unfold ping_pong_exc. destruct (closed s); [exact H|]. cbn zeta.
  assert (H1 : TIall (set_has_exc (abnormal c (mark_closed s)) true)).
  { eapply TIall_tn with (s := abnormal c (mark_closed s)); [reflexivity|]. eapply TIall_tn; [apply tn_abnormal|].
    eapply TIall_tn; [|exact H]; reflexivity. }
  destruct (_ && _); [apply TI_feed_data|]; exact H1.
Qed.

Lemma TI_run_timer s k : TIall s -> TIall (run_timer c s k).
Proof.
  intros H. destruct k; cbn [run_timer].
  - destruct (due _ _); [|exact H]. unfold fire_hb. cbn zeta.
    destruct (need_reset _); [eapply TIall_tn; [|exact H]; reflexivity|].
    destruct (_ <? _); [eapply TIall_tn; [|exact H]; reflexivity|]. destruct (c_hb c); [|eapply TIall_tn; [|exact H]; reflexivity].
    match goal with |- context [send_frame ?s0 FPing] => pose proof (tn_send_frame s0 FPing) as E; destruct (send_frame s0 FPing) as [s1 raised] end.
    cbn [fst] in E. assert (H1 : TIall s1) by (eapply TIall_tn; [exact E|]; eapply TIall_tn; [|exact H]; reflexivity).
    destruct raised; [apply TI_ping_pong_exc|]; exact H1.
  - destruct (due _ _); [|exact H]. unfold fire_pong. cbn zeta.
    assert (H0 : TIall (set_pong_cb s None)) by (eapply TIall_tn; [|exact H]; reflexivity).
    destruct (c_side c); [destruct (lost _); [exact H0|]|]; apply TI_ping_pong_exc; exact H0.
  - destruct (due _ _); [|exact H]. unfold fire_task_timeout. cbn zeta.
    intros x. destruct (Nat.eq_dec x t) as [->|Hx].
    + intros Hp. right. rewrite fut_done_expired. cbn. rewrite Nat.eqb_refl. cbn. split; [reflexivity|].
      match goal with |- ?o <> None => pose proof (fut_done_fut_some (upd_task s t (fun k => mkTask (t_pc k) (t_fut k) (t_cancel k) None true)) t FCancelled) as Hs;
        destruct o; [discriminate|cbn in Hs; discriminate] end.
    + rewrite now_fut_done, tasks_fut_done_other by exact Hx. cbn.
      destruct (Nat.eqb_spec x t); [congruence|]. apply H.
Qed.

Lemma TI_conn_lost s : TIall s -> TIall (conn_lost c s).
Proof.
  intros H. unfold conn_lost. destruct (lost s); [exact H|].
  assert (H1 : TIall (set_lost s true)) by (eapply TIall_tn; [|exact H]; reflexivity).
  destruct (c_side c); [apply TI_feed_eof; exact H1|]. destruct (proto_close _); [exact H1|].
  eapply TIall_tn with (s := feed_eof (set_lost s true)); [reflexivity|]. apply TI_feed_eof. exact H1.
Qed.
Lemma TI_deliver s p : TIall s -> TIall (deliver c s p).
Proof.
  intros H. unfold deliver. destruct (_ || _); [exact H|]. cbn zeta.
  assert (H1 : TIall (on_data_received c s)).
  { unfold on_data_received. destruct (c_hb c); [destruct (need_reset s)|]; exact H. }
  destruct (rd_exc _); [eapply TIall_tn; [|exact H1]; reflexivity|]. destruct p.
  - apply TI_feed_data. destruct m; exact H1.
  - eapply TIall_tn with (s := q_set_exception (set_rd_exc (on_data_received c s) true) code); [reflexivity|].
    apply TI_q_set_exception. eapply TIall_tn; [|exact H1]; reflexivity.
Qed.
Lemma TI_flush s : TIall s -> TIall (flush_heartbeat c s).
Proof.
  intros H. unfold flush_heartbeat. destruct (need_reset s); [|exact H].
  eapply TIall_tn; [|exact H]. unfold reset_heartbeat. destruct (c_hb c); [|reflexivity]. cbn zeta. destruct (hb_cb _); reflexivity.
Qed.
Lemma TI_run_item s r : TIall s -> TIall (run_item c s r).
Proof.
  intros H. destruct r; cbn [run_item];
    [apply TI_run_wake|apply TI_conn_lost|apply TI_flush|apply TI_run_timer|apply TI_deliver]; exact H.
Qed.

Lemma TI_mono n n' k : n <= n' -> TI n k -> TI n' k.
Proof. intros Hn H Hp. destruct (H Hp) as [(d & E & Hd)|H']; [left; exists d; split; [exact E|lia]|right; exact H']. Qed.

Lemma TI_step s e s' : TIall s -> step c s e = Some s' -> TIall s'.
Proof.
  intros H Hs. destruct e; cbn [step] in Hs.
  - destruct (_ && _); inversion Hs; subst. apply TI_enq. apply TI_upd; [exact H|]. intros E. discriminate.
  - inversion Hs; subst. apply TI_deliver; exact H.
  - inversion Hs; subst. apply TI_enq; exact H.
  - inversion Hs; subst. destruct (tr_closing s); [exact H|]. apply TI_conn_lost. eapply TIall_tn; [|exact H]; reflexivity.
  - destruct (Nat.ltb _ _); inversion Hs; subst. unfold cancel_task. cbn zeta. destruct (task_blocked _).
    + apply TI_fut_done. apply TI_upd; [exact H|]. intros Hp. cbn in *. apply (H t Hp).
    + destruct (t_pc (tasks s t)) eqn:Ep; try exact H. apply TI_upd; [exact H|]. intros Hp. cbn in Hp. rewrite Ep in Hp. discriminate.
  - inversion Hs; subst. intros x. unfold advance. cbn. eapply TI_mono; [|apply H]. lia.
  - destruct (ready s) eqn:E; inversion Hs; subst. apply TI_run_item. eapply TIall_tn; [|exact H]; reflexivity.
  - inversion Hs; subst. eapply TIall_tn; [apply tn_transport_close|exact H].
Qed.

Lemma TI_init : TIall (init c).
Proof.
  unfold init. eapply TIall_tn with (s := mkState false false None false None 0 [] false None None false false false false false []
             16000 None 0 None false (fun _ => idle_task) [] false false [] false false).
  - unfold reset_heartbeat. destruct (c_hb c); reflexivity.
  - intros x E. discriminate.
Qed.

Theorem reach_TI s : reach c s -> TIall s.
Proof. induction 1; [apply TI_init|eapply TI_step; eauto]. Qed.

End Prog.

(* (1) while close() waits for the peer's close frame its timer is armed, at most one close timeout ahead — or it
   has fired and the wake-up is pending *)
Theorem close_timer_armed c s t k :
  reach c s -> t_pc (tasks s t) = PCloseRead k ->
  (exists d, t_tmo (tasks s t) = Some d /\ d <= now s + c_close_tmo c) \/
  (t_expired (tasks s t) = true /\ t_fut (tasks s t) <> None).
Proof. intros R E. apply (reach_TI c s R t). rewrite E. reflexivity. Qed.

(* (2) when the clock reaches the deadline, the timer callback is queued *)
Lemma in_insert_timer x l y : In y (insert_timer x l) <-> y = x \/ In y l.
Proof.
  induction l as [|z r IH]; cbn [insert_timer].
  - cbn. intuition.
  - destruct (fst z <=? fst x); cbn [In]; [rewrite IH|]; intuition.
Qed.
Lemma in_sorted l y : In y (fold_right insert_timer [] l) <-> In y l.
Proof. induction l as [|z r IH]; cbn [fold_right]; [tauto|]. rewrite in_insert_timer, IH. cbn. intuition. Qed.

Theorem deadline_queues_timer s t d dt :
  (t < ntasks)%nat -> t_tmo (tasks s t) = Some d -> d <= now s + dt ->
  In (RTimer (TTask t)) (ready (advance s dt)).
Proof.
  intros Ht Et Hd. unfold advance. cbn. apply in_or_app. right. apply in_map. unfold due_timers.
  apply in_map_iff. exists (d, TTask t). split; [reflexivity|]. apply in_sorted. rewrite <- in_rev.
  apply in_or_app. right. apply in_or_app. right. apply in_flat_map. exists t. split; [apply in_seq; lia|].
  cbn. rewrite Et. unfold cand. apply N.leb_le in Hd. rewrite Hd. left. reflexivity.
Qed.

(* (3) the timer callback cancels the wait: the wake-up is queued, the task marked expired *)
Theorem timer_fires_queues_wake c s t d :
  t_tmo (tasks s t) = Some d -> d <= now s -> t_fut (tasks s t) = None ->
  let s' := run_timer c s (TTask t) in
  t_expired (tasks s' t) = true /\ t_fut (tasks s' t) = Some FCancelled /\ t_pc (tasks s' t) = t_pc (tasks s t) /\
  In (RWake t) (ready s').
Proof.
  intros Et Hd Ef. cbn [run_timer]. unfold due. rewrite Et. apply N.leb_le in Hd. rewrite Hd.
  unfold fire_task_timeout, fut_done, upd_task. cbn. rewrite Nat.eqb_refl. cbn. rewrite Ef. cbn. rewrite Nat.eqb_refl. cbn.
  repeat split; try reflexivity. apply in_or_app. right. left. reflexivity.
Qed.

(* (4) a wake-up after expiry or cancellation ends close(): it returns True or raises in that step *)
Lemma pc_finish s t r : t_pc (tasks (finish s t r) t) = PDone r.
Proof. unfold finish, upd_task. cbn. rewrite Nat.eqb_refl. reflexivity. Qed.
Lemma pc_close_ret s t k b : exists r, t_pc (tasks (close_ret s t k b) t) = PDone r.
Proof. unfold close_ret. destruct k; eexists; apply pc_finish. Qed.
Lemma pc_close_exc c s t k : exists r, t_pc (tasks (close_exc c s t k) t) = PDone r.
Proof. unfold close_exc. apply pc_close_ret. Qed.

Theorem expired_wake_ends_close c s t k fr :
  t_pc (tasks s t) = PCloseRead k -> t_fut (tasks s t) = Some fr ->
  (t_expired (tasks s t) = true \/ t_cancel (tasks s t) = true) ->
  exists r, t_pc (tasks (run_wake c s t) t) = PDone r.
Proof.
  intros Ep Ef Hx. unfold run_wake. cbn zeta. rewrite Ep, Ef.
  assert (W : was_cancelled (tasks s t) = true).
  { unfold was_cancelled. destruct Hx as [-> | ->]; [rewrite orb_true_r|]; reflexivity. }
  rewrite W. destruct (is_timeout _); [apply pc_close_exc|eexists; apply pc_finish].
Qed.

(* (5) both sides: a normal wake-up either ends close() or re-suspends it under the SAME deadline *)
Lemma pc_suspend_self s t p d : tasks (suspend s t p d) t = mkTask p None false d false.
Proof. unfold suspend, upd_task. cbn. rewrite Nat.eqb_refl. reflexivity. Qed.
Lemma close_read_loop_deadline c buf : forall s t k d,
  (exists r, t_pc (tasks (close_read_loop c buf s t k d) t) = PDone r) \/
  (t_pc (tasks (close_read_loop c buf s t k d) t) = PCloseRead k /\ t_tmo (tasks (close_read_loop c buf s t k d) t) = Some d).
Proof.
  induction buf as [|m rest IH]; intros s t k d; cbn [close_read_loop].
  - destruct (q_eof s); [left; apply pc_close_exc|]. destruct (q_waiter s); [left; apply pc_close_exc|].
    right. rewrite pc_suspend_self. split; reflexivity.
  - cbn zeta. unfold next_deadline. destruct m; try apply IH. left. apply pc_close_ret.
Qed.
Theorem wake_keeps_deadline c s t k d :
  t_pc (tasks s t) = PCloseRead k -> t_fut (tasks s t) = Some FOk -> t_tmo (tasks s t) = Some d ->
  t_expired (tasks s t) = false -> t_cancel (tasks s t) = false ->
  let s' := run_wake c s t in
  (exists r, t_pc (tasks s' t) = PDone r) \/ (t_pc (tasks s' t) = PCloseRead k /\ t_tmo (tasks s' t) = Some d).
Proof.
  intros Ep Ef Et He Hc. unfold run_wake, was_cancelled. cbn zeta. rewrite Ep, Ef, He, Hc. cbn [orb].
  rewrite Et. unfold close_read_resume. destruct (q_buf s) eqn:Eb.
  { left. destruct (c_side c); [apply pc_close_exc|]. destruct (_ && _); [apply pc_close_ret|apply pc_close_exc]. }
  rewrite <- Eb. apply close_read_loop_deadline.
Qed.

(* ---- receive(): every terminating event wakes a blocked receive() that is the queue's registered waiter ---- *)
Definition woken (s' : state) (r : nat) : Prop := t_fut (tasks s' r) <> None /\ In (RWake r) (ready s').

Lemma fut_done_wakes s r x : t_fut (tasks s r) = None -> woken (fut_done s r x) r.
Proof.
  intros E. unfold woken, fut_done. rewrite E. cbn. rewrite Nat.eqb_refl. cbn. split; [discriminate|].
  apply in_or_app. right. left. reflexivity.
Qed.
Lemma feed_wakes s m r : q_waiter s = Some r -> t_fut (tasks s r) = None -> woken (feed_data s m) r.
Proof. intros Ew Ef. unfold feed_data, release_waiter. cbn. rewrite Ew. apply fut_done_wakes. exact Ef. Qed.
Lemma woken_enq s r x : woken s r -> woken (enq s x) r.
Proof. intros [A B]. split; [exact A|]. cbn. apply in_or_app. left. exact B. Qed.

(* a peer frame (data, ping, pong, close) or a malformed frame *)
Theorem peer_frame_wakes c s p r :
  q_waiter s = Some r -> t_fut (tasks s r) = None ->
  tr_closing s = false -> lost s = false -> proto_close s = false -> rd_exc s = false ->
  woken (deliver c s p) r.
Proof.
  intros Ew Ef T L P X. unfold deliver. rewrite T, L, P. cbn [orb]. cbn zeta.
  assert (E1 : q_waiter (on_data_received c s) = Some r /\ t_fut (tasks (on_data_received c s) r) = None /\ rd_exc (on_data_received c s) = false).
  { unfold on_data_received. destruct (c_hb c); [destruct (need_reset s)|]; cbn; auto. }
  destruct E1 as (E1 & E2 & E3). rewrite E3. destruct p.
  - apply feed_wakes; destruct m; assumption.
  - unfold woken. cbn. unfold q_set_exception. cbn. rewrite E1.
    pose proof (fut_done_wakes (set_q_waiter (set_q_exc (set_q_eof (set_rd_exc (on_data_received c s) true) true) (Some code)) None) r (FExc code) E2) as [A B].
    split; assumption.
Qed.

(* connection loss *)
Theorem connection_loss_wakes c s r :
  q_waiter s = Some r -> t_fut (tasks s r) = None -> lost s = false -> (c_side c = Client -> proto_close s = false) ->
  woken (conn_lost c s) r.
Proof.
  intros Ew Ef L P. unfold conn_lost. rewrite L.
  assert (W : woken (feed_eof (set_lost s true)) r).
  { unfold woken, feed_eof, release_waiter. cbn. rewrite Ew.
    pose proof (fut_done_wakes (set_q_waiter (set_q_eof (set_lost s true) true) None) r FOk Ef) as [A B]. split; assumption. }
  destruct (c_side c); [exact W|]. cbn. rewrite P by reflexivity. exact W.
Qed.

(* close() called by another task: the CLOSING message *)
Lemma woken_suspend_other s t p d r : r <> t -> woken s r -> woken (suspend s t p d) r.
Proof.
  intros Hn [A B]. unfold woken, suspend, upd_task. cbn [tasks set_tasks ready].
  destruct (Nat.eqb_spec r t); [congruence|]. split; assumption.
Qed.
Lemma writer_close_ok s code : tr_closing s = false ->
  writer_close s code = (set_sent (set_w_closing s true) (sent s ++ [FClose code]), false).
Proof.
  intros T. unfold writer_close, send_frame. cbn [w_closing set_w_closing tr_closing sent]. rewrite T.
  replace (closing_write_allowed (frame_opcode (FClose code))) with true by reflexivity.
  reflexivity.
Qed.

Theorem close_call_wakes c s t k code r :
  q_waiter s = Some r -> t_fut (tasks s r) = None -> r <> t -> waiting s = true ->
  match c_side c with Server => closed s = false /\ tr_closing s = false /\ close_wait s = None | Client => closing s = false end ->
  woken (close_entry c s t k code) r.
Proof.
  intros Ew Ef Hn Hw Hside. unfold close_entry. destruct (c_side c).
  - destruct Hside as (Hc & Ht & Hcw). rewrite Hc.
    rewrite (writer_close_ok (mark_closed s) code) by exact Ht.
    set (s2 := set_sent (set_w_closing (mark_closed s) true) (sent (mark_closed s) ++ [FClose code])).
    replace (waiting s2) with true by (symmetry; exact Hw).
    replace (close_wait s2) with (@None nat) by (symmetry; exact Hcw).
    apply woken_suspend_other; [exact Hn|]. apply feed_wakes; [exact Ew|exact Ef].
  - rewrite Hw, Hside. cbn [negb andb].
    apply woken_suspend_other; [exact Hn|]. apply feed_wakes; [exact Ew|exact Ef].
Qed.

(* heartbeat: no pong in time (or the ping could not be written) *)
Lemma abnormal_keeps c s :
  waiting (abnormal c s) = waiting s /\ closing (abnormal c s) = closing s /\ q_waiter (abnormal c s) = q_waiter s /\
  tasks (abnormal c s) = tasks s.
Proof.
  unfold abnormal, close_transport, transport_close.
  destruct (c_side c); [destruct (lost _)|]; try destruct (tr_closing _); repeat split; reflexivity.
Qed.
Theorem pong_timeout_wakes c s r :
  q_waiter s = Some r -> t_fut (tasks s r) = None -> closed s = false -> waiting s = true -> closing s = false ->
  woken (ping_pong_exc c s) r.
Proof.
  intros Ew Ef Hc Hw Hg. unfold ping_pong_exc. rewrite Hc. cbn zeta.
  destruct (abnormal_keeps c (mark_closed s)) as (A1 & A2 & A3 & A4).
  set (s1 := set_has_exc (abnormal c (mark_closed s)) true).
  assert (E1 : waiting s1 = true) by (change (waiting (abnormal c (mark_closed s)) = true); rewrite A1; exact Hw).
  assert (E2 : closing s1 = false) by (change (closing (abnormal c (mark_closed s)) = false); rewrite A2; exact Hg).
  assert (E3 : q_waiter s1 = Some r) by (change (q_waiter (abnormal c (mark_closed s)) = Some r); rewrite A3; exact Ew).
  assert (E4 : t_fut (tasks s1 r) = None) by (change (t_fut (tasks (abnormal c (mark_closed s)) r) = None); rewrite A4; exact Ef).
  rewrite E1, E2. cbn [negb andb]. apply feed_wakes; assumption.
Qed.

(* cancellation of the receiving task *)
Theorem cancel_wakes s r : t_pc (tasks s r) = PRecvWait -> t_fut (tasks s r) = None -> woken (cancel_task s r) r.
Proof.
  intros Ep Ef. unfold cancel_task. cbn zeta. unfold task_blocked. rewrite Ep.
  apply fut_done_wakes. unfold upd_task. cbn. rewrite Nat.eqb_refl. cbn. exact Ef.
Qed.

(* the wake-up of a cancelled / timed-out receive() ends it with CancelledError / TimeoutError *)
Theorem cancelled_wake_ends_receive c s r fr :
  t_pc (tasks s r) = PRecvWait -> t_fut (tasks s r) = Some fr ->
  (t_cancel (tasks s r) = true \/ t_expired (tasks s r) = true) ->
  t_pc (tasks (run_wake c s r) r) = PDone (if is_timeout (tasks s r) then XTimeout else XCancelled).
Proof.
  intros Ep Ef Hx. unfold run_wake. cbn zeta. rewrite Ep, Ef.
  assert (W : was_cancelled (tasks s r) = true).
  { unfold was_cancelled. destruct Hx as [-> | ->]; [|rewrite orb_true_r]; reflexivity. }
  rewrite W. destruct (is_timeout _); unfold recv_handle; destruct (c_side c); apply pc_finish.
Qed.
