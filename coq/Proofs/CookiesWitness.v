(* C16 — concrete histories used as refutation witnesses and non-vacuity examples in Props/C16.v.
   Strings are code-point lists; instants are in ticks of 1/8 s: T0 = 8 * 1700000000. *)
From AV Require Import Lib.Base Generated.CookiesGen Model.Cookies Proofs.CookiesStrings Proofs.CookiesJar Proofs.CookiesSound Proofs.CookiesSpec.
Open Scope N_scope.

Definition T0 : Z := (8 * 1700000000)%Z.
Definition s_a : str := [97].
Definition s_v1 : str := [118; 49].
Definition s_v2 : str := [118; 50].
Definition s_v3 : str := [118; 51].
Definition example_com : str := [101; 120; 97; 109; 112; 108; 101; 46; 99; 111; 109].
Definition sub_example_com : str := [115; 117; 98; 46; 101; 120; 97; 109; 112; 108; 101; 46; 99; 111; 109].
Definition badexample_com : str := [98; 97; 100; 101; 120; 97; 109; 112; 108; 101; 46; 99; 111; 109].

(* http://example.com/ : "a=v1" ; then "a=v2; Expires=Thu, 01 Jan 1970 00:00:00 GMT" ; request http://example.com/ *)
Definition w_epoch_zero : list op :=
  [OSet {| u_secure := false; u_host := [101; 120; 97; 109; 112; 108; 101; 46; 99; 111; 109]; u_path := [47] |} [{| m_name := [97]; m_value := [118; 49]; m_domain := []; m_path := []; m_secure := false; m_maxage := MA_none; m_expires := EX_none |}];
   OSet {| u_secure := false; u_host := [101; 120; 97; 109; 112; 108; 101; 46; 99; 111; 109]; u_path := [47] |} [{| m_name := [97]; m_value := [118; 50]; m_domain := []; m_path := []; m_secure := false; m_maxage := MA_none; m_expires := (EX_val 0) |}];
   OFilter {| u_secure := false; u_host := [101; 120; 97; 109; 112; 108; 101; 46; 99; 111; 109]; u_path := [47] |}].

(* http://example.com/ : "a=v1; Path=/foo//" ; request http://example.com/foo/xy *)
Definition w_trailing_slashes : list op :=
  [OSet {| u_secure := false; u_host := [101; 120; 97; 109; 112; 108; 101; 46; 99; 111; 109]; u_path := [47] |} [{| m_name := [97]; m_value := [118; 49]; m_domain := []; m_path := [47; 102; 111; 111; 47; 47]; m_secure := false; m_maxage := MA_none; m_expires := EX_none |}];
   OFilter {| u_secure := false; u_host := [101; 120; 97; 109; 112; 108; 101; 46; 99; 111; 109]; u_path := [47; 102; 111; 111; 47; 120; 121] |}].

(* http://example.com/ : "a=v1; Max-Age=abc; Expires=<T0-100>" ; request http://example.com/ *)
Definition w_invalid_max_age : list op :=
  [OSet {| u_secure := false; u_host := [101; 120; 97; 109; 112; 108; 101; 46; 99; 111; 109]; u_path := [47] |} [{| m_name := [97]; m_value := [118; 49]; m_domain := []; m_path := []; m_secure := false; m_maxage := MA_invalid; m_expires := (EX_val (T0 - 100)) |}];
   OFilter {| u_secure := false; u_host := [101; 120; 97; 109; 112; 108; 101; 46; 99; 111; 109]; u_path := [47] |}].

(* completeness fails (benignly): "a=v1; Path=/" and "a=v2; Path=/foo" both match /foo; the RFC store
   attaches both, the jar returns a dict and keeps the longer path only *)
Definition w_shadowing : list op :=
  [OSet {| u_secure := false; u_host := [101; 120; 97; 109; 112; 108; 101; 46; 99; 111; 109]; u_path := [47] |} [{| m_name := [97]; m_value := [118; 49]; m_domain := []; m_path := [47]; m_secure := false; m_maxage := MA_none; m_expires := EX_none |}];
   OSet {| u_secure := false; u_host := [101; 120; 97; 109; 112; 108; 101; 46; 99; 111; 109]; u_path := [47] |} [{| m_name := [97]; m_value := [118; 50]; m_domain := []; m_path := [47; 102; 111; 111]; m_secure := false; m_maxage := MA_none; m_expires := EX_none |}];
   OFilter {| u_secure := false; u_host := [101; 120; 97; 109; 112; 108; 101; 46; 99; 111; 109]; u_path := [47; 102; 111; 111] |}].

(* a history inside the proved fragment that exercises host-only, Domain=, Secure, Max-Age, save+load:
   https://example.com/ sets host-only a=v1 (Max-Age=10) and Domain=example.com; Secure b=v2;
   sub.example.com overwrites nothing; queries before/after the deadline and over http *)
Definition w_example : list op :=
  [OSet {| u_secure := true; u_host := [101; 120; 97; 109; 112; 108; 101; 46; 99; 111; 109]; u_path := [47] |} [{| m_name := [97]; m_value := [118; 49]; m_domain := []; m_path := []; m_secure := false; m_maxage := (MA_val 10); m_expires := EX_none |}; {| m_name := [98]; m_value := [118; 50]; m_domain := [46; 101; 120; 97; 109; 112; 108; 101; 46; 99; 111; 109]; m_path := []; m_secure := true; m_maxage := MA_none; m_expires := EX_none |}];
   OSaveLoad;
   OFilter {| u_secure := true; u_host := [115; 117; 98; 46; 101; 120; 97; 109; 112; 108; 101; 46; 99; 111; 109]; u_path := [47; 120] |};
   OFilter {| u_secure := true; u_host := [101; 120; 97; 109; 112; 108; 101; 46; 99; 111; 109]; u_path := [47; 120] |};
   OFilter {| u_secure := false; u_host := [101; 120; 97; 109; 112; 108; 101; 46; 99; 111; 109]; u_path := [47; 120] |};
   OFilter {| u_secure := true; u_host := [98; 97; 100; 101; 120; 97; 109; 112; 108; 101; 46; 99; 111; 109]; u_path := [47; 120] |};
   OAdvance 80;
   OFilter {| u_secure := true; u_host := [101; 120; 97; 109; 112; 108; 101; 46; 99; 111; 109]; u_path := [47; 120] |}].

(* the three histories on which the jar used to attach a cookie the RFC forbids (repaired in /repo:
   f48e726, 54412bb, 4fcae6e): nothing is attached any more *)
Lemma repaired_witnesses :
  snd (run (empty_jar false, T0) w_epoch_zero) = [ [] ] /\
  snd (run (empty_jar false, T0) w_trailing_slashes) = [ [] ] /\
  snd (run (empty_jar false, T0) w_invalid_max_age) = [ [] ].
Proof. vm_compute. auto. Qed.

Lemma shadowing_incomplete :
  forallb op_okb w_shadowing = true /\
  snd (run (empty_jar false, T0) w_shadowing) = [ [ (s_a, s_v2) ] ] /\
  snd (rfc_run false ([], T0) w_shadowing) = [ [ (s_a, s_v2); (s_a, s_v1) ] ].
Proof. vm_compute. auto. Qed.
