(* Model of one server connection: aiohttp/web_protocol.py RequestHandler (data_received, start,
   _handle_request, finish_response, handle_error, keep-alive timer, lingering read, pause/resume of the
   pipeline queue) together with the queue-cap branch of aiohttp/http_parser.py HttpParser.feed_data.

   Granularity: one `step` = one external stimulus (bytes from the peer, the running handler doing
   something, the clock, the peer going away) followed by everything the protocol and the `start()` task do
   until they block again (asyncio runs callbacks and task steps to completion; nothing else interleaves).

   The request parser is abstract: the bytes of a read are represented by the list of parse items they
   complete, in stream order (a request head, the end of a request body, a framing/syntax error).  What the
   parser does with them per feed_data CALL is modelled exactly: heads are emitted until `_msg_in_flight`
   reaches the cap, the rest is kept in `_tail`; an error discards the messages of that call, clears the
   tail, and the protocol queues ONE _ErrInfo item instead.

   Not modelled (see DESIGN-built/C05.md): Upgrade/CONNECT, Expect: 100-continue, write-side flow control
   (pause_writing), StreamReader high-water pauses (`_reading_paused`), Server.shutdown()/pre_shutdown().
   Definitions only; proofs in Proofs/ServerConn*.v. *)
From AV Require Import Lib.Base Generated.ServerGen.
Open Scope N_scope.

(* ---- parse items --------------------------------------------------------------------------- *)
Inductive item :=
  | IHead (close body : bool)   (* a complete request head; close = msg.should_close; body = payload stream still open *)
  | IBodyEnd                    (* the body of the last head is complete (payload.feed_eof) *)
  | IBad (sticky : bool).       (* HttpProcessingError raised at this point of the stream; sticky = raised after the
                                   unparsable rest was stored back into _tail (bare LF / over-long partial line), so every
                                   later feed_data call meets it again *)

Record msg := { m_id : N; m_close : bool; m_body : bool }.

(* items once they arrived: heads numbered in arrival order *)
Inductive titem := THead (m : msg) | TBodyEnd | TBad (sticky : bool).

Fixpoint tag (n : N) (its : list item) : list titem * N :=
  match its with
  | [] => ([], n)
  | IHead c b :: r => let '(l, n') := tag (n + 1) r in (THead {| m_id := n; m_close := c; m_body := b |} :: l, n')
  | IBodyEnd :: r => let '(l, n') := tag n r in (TBodyEnd :: l, n')
  | IBad k :: r => let '(l, n') := tag n r in (TBad k :: l, n')
  end.

Inductive qitem := QMsg (m : msg) | QErr.      (* RequestHandler._messages entries: RawRequestMessage | _ErrInfo *)

Inductive bstate := BNone | BOpen (id : N) | BFail (id : N).   (* parser._payload_parser: none / reading body of id / that body failed *)

Definition maxq : N := MAX_MSG_QUEUE_SIZE.
Definition resume_mark : N := msg_queue_resume_size MAX_MSG_QUEUE_SIZE.

(* ---- one HttpParser.feed_data call ------------------------------------------------------------ *)
Inductive pres := POk (emitted : list qitem) | PErr.

Record pstate := { p_tail : list titem; p_infl : N; p_body : bstate }.

Fixpoint ploop (its : list titem) (infl : N) (b : bstate) (acc : list qitem) : pres * pstate :=
  match its with
  | [] => (POk (rev acc), {| p_tail := []; p_infl := infl; p_body := b |})
  | it :: r =>
    match b with
    | BNone =>
        if parser_queue_full infl maxq
        then (POk (rev acc), {| p_tail := its; p_infl := infl; p_body := b |})
        else match it with
             | THead m => ploop r (infl + 1) (if m_body m then BOpen (m_id m) else BNone) (QMsg m :: acc)
             | TBodyEnd => ploop r infl b acc
             | TBad sticky => (PErr, {| p_tail := if sticky then its else []; p_infl := infl; p_body := b |})
             end
    | BOpen bid =>
        match it with
        | TBodyEnd => ploop r infl BNone acc
        | TBad _ => (PErr, {| p_tail := []; p_infl := infl; p_body := BFail bid |})
        | THead _ => ploop r infl b acc            (* cannot occur in a well-formed stream: bytes inside a body *)
        end
    | BFail bid =>                                  (* payload parser left in place after its error *)
        match it with
        | TBodyEnd => ploop r infl BNone acc
        | TBad _ => (PErr, {| p_tail := []; p_infl := infl; p_body := b |})
        | THead _ => ploop r infl b acc
        end
    end
  end.

(* ---- protocol state ------------------------------------------------------------------------- *)
Record resp := { r_id : option N; r_status : N; r_done : bool }.

Inductive pcs :=
  | PWait                                   (* start(): await self._waiter *)
  | PHandler (cur : qitem) (started : bool) (* start(): await task (user handler running); started = response head written *)
  | PLinger (cur : msg) (until : N)         (* start(): lingering read of an unread body, timeout at `until` *)
  | PExit.                                  (* start() returned / was cancelled *)

Record cfg := { c_keepalive : N; c_linger : N }.   (* keepalive_timeout, lingering_time (whole seconds) *)

Record st := {
  q : list qitem;          (* _messages *)
  ps : pstate;             (* parser: _tail (as items), _msg_in_flight, payload parser *)
  nseen : N;               (* heads arrived so far (numbering) *)
  paused : bool;           (* _msg_queue_paused == transport reading paused *)
  pc : pcs;
  forcef : bool;           (* _force_close *)
  closed : bool;           (* transport closed (by us or by the peer) and connection_lost delivered *)
  ka : bool;               (* _keepalive *)
  now : N;                 (* loop.time() *)
  ka_close : N;            (* _next_keepalive_close_time *)
  ka_h : option N;         (* _keepalive_handle: when it fires *)
  out : list resp          (* responses whose writing ended (completely, or cut short) *)
}.

Definition init : st :=
  {| q := []; ps := {| p_tail := []; p_infl := 0; p_body := BNone |}; nseen := 0; paused := false; pc := PWait;
     forcef := false; closed := false; ka := false; now := 0; ka_close := 0; ka_h := None; out := [] |}.

Definition set_q s v := {| q := v; ps := ps s; nseen := nseen s; paused := paused s; pc := pc s; forcef := forcef s;
  closed := closed s; ka := ka s; now := now s; ka_close := ka_close s; ka_h := ka_h s; out := out s |}.
Definition set_ps s v := {| q := q s; ps := v; nseen := nseen s; paused := paused s; pc := pc s; forcef := forcef s;
  closed := closed s; ka := ka s; now := now s; ka_close := ka_close s; ka_h := ka_h s; out := out s |}.
Definition set_nseen s v := {| q := q s; ps := ps s; nseen := v; paused := paused s; pc := pc s; forcef := forcef s;
  closed := closed s; ka := ka s; now := now s; ka_close := ka_close s; ka_h := ka_h s; out := out s |}.
Definition set_paused s v := {| q := q s; ps := ps s; nseen := nseen s; paused := v; pc := pc s; forcef := forcef s;
  closed := closed s; ka := ka s; now := now s; ka_close := ka_close s; ka_h := ka_h s; out := out s |}.
Definition set_pc s v := {| q := q s; ps := ps s; nseen := nseen s; paused := paused s; pc := v; forcef := forcef s;
  closed := closed s; ka := ka s; now := now s; ka_close := ka_close s; ka_h := ka_h s; out := out s |}.
Definition set_ka s v := {| q := q s; ps := ps s; nseen := nseen s; paused := paused s; pc := pc s; forcef := forcef s;
  closed := closed s; ka := v; now := now s; ka_close := ka_close s; ka_h := ka_h s; out := out s |}.
Definition set_now s v := {| q := q s; ps := ps s; nseen := nseen s; paused := paused s; pc := pc s; forcef := forcef s;
  closed := closed s; ka := ka s; now := v; ka_close := ka_close s; ka_h := ka_h s; out := out s |}.
Definition set_timer s c h := {| q := q s; ps := ps s; nseen := nseen s; paused := paused s; pc := pc s; forcef := forcef s;
  closed := closed s; ka := ka s; now := now s; ka_close := c; ka_h := h; out := out s |}.
Definition set_out s v := {| q := q s; ps := ps s; nseen := nseen s; paused := paused s; pc := pc s; forcef := forcef s;
  closed := closed s; ka := ka s; now := now s; ka_close := ka_close s; ka_h := ka_h s; out := v |}.
(* transport.close() / force_close() / the peer closing; connection_lost() then sets _force_close *)
Definition do_close s := {| q := q s; ps := ps s; nseen := nseen s; paused := paused s; pc := pc s; forcef := true;
  closed := true; ka := ka s; now := now s; ka_close := ka_close s; ka_h := ka_h s; out := out s |}.

Definition id_of (c : qitem) : option N := match c with QMsg m => Some (m_id m) | QErr => None end.
Definition close_of (c : qitem) : bool := match c with QMsg m => m_close m | QErr => true end.   (* ERROR.should_close = True *)

(* ---- data_received (also called with b"" by _resume_msg_queue_reading) -------------------------- *)
Definition feed (s : st) (new : list titem) : st * bool (* some message was queued *) :=
  let '(r, p') := ploop (p_tail (ps s) ++ new) (p_infl (ps s)) (p_body (ps s)) [] in
  let msgs := match r with POk l => l | PErr => [QErr] end in
  let q' := q s ++ msgs in
  let s1 := set_ps (set_q s q') p' in
  (set_paused s1 (paused s || proto_queue_full (lenN q') maxq), match msgs with [] => false | _ => true end).

(* _resume_msg_queue_reading (not upgraded, no message tail) *)
Definition resume_q (s : st) : st :=
  let s1 := if forcef s then s else fst (feed s []) in
  if proto_stays_paused (lenN (q s1)) maxq then s1 else set_paused s1 false.

(* ---- the start() task ------------------------------------------------------------------------ *)
(* leaving the while loop: `if not self._force_close: ... self.transport.close()` *)
Definition exit_loop (s : st) : st := set_pc (if forcef s then s else do_close s) PExit.

Definition arm_ka (c : cfg) (s : st) : st :=
  let t := now s + c_keepalive c in
  set_timer s t (match ka_h s with None => Some t | h => h end).

(* top of `while not self._force_close:` *)
Definition loop_top (s : st) : st :=
  if forcef s then exit_loop s else
  match q s with
  | [] => set_pc s PWait
  | it :: q' =>
      let s1 := set_ps (set_q s q') {| p_tail := p_tail (ps s); p_infl := msg_consumed (p_infl (ps s)); p_body := p_body (ps s) |} in
      let s2 := if paused s1 && proto_resume_mark (lenN q') resume_mark then resume_q s1 else s1 in
      set_pc s2 (PHandler it false)
  end.

(* `if self._keepalive and not self._close and not self._force_close: <arm timer>; continue  else: break` *)
Definition after_req (c : cfg) (s : st) (closef : bool) : st :=
  if ka s && negb closef && negb (forcef s) then loop_top (arm_ka c s) else exit_loop s.

Definition incomplete (s : st) (m : msg) : bool :=          (* not payload.is_eof() *)
  m_body m && match p_body (ps s) with BOpen i | BFail i => i =? m_id m | BNone => false end.
Definition failed (s : st) (m : msg) : bool :=              (* payload.exception() is set by the parser *)
  match p_body (ps s) with BFail i => i =? m_id m | _ => false end.

(* `# check payload` after a response was finished without a connection error *)
Definition payload_check (c : cfg) (s : st) (cur : qitem) : st :=
  match cur with
  | QErr => after_req c s false
  | QMsg m =>
      if incomplete s m then
        if forcef s then after_req c s false                        (* no lingering, no close(): the loop just ends *)
        else if failed s m then exit_loop (do_close s)              (* readany() raises -> except Exception: force_close() *)
        else if 0 <? c_linger c then set_pc s (PLinger m (now s + c_linger c))
        else after_req c s true                                     (* self.close() *)
      else after_req c s false
  end.

Definition push (s : st) (r : resp) : st := set_out s (out s ++ [r]).
Definition partial_of (cur : qitem) : resp := {| r_id := id_of cur; r_status := 200; r_done := false |}.

(* finish_response() for a response object that has not been started: head and body are written now *)
Definition finish_fresh (c : cfg) (s : st) (cur : qitem) (started : bool) (status : N) (ka_resp : bool) : st :=
  if closed s then exit_loop s                                    (* write fails: ConnectionResetError -> reset -> break *)
  else
    (* `started` is always false since 2a9b996: every ending that would send a second response object after another
       one was started raises ConnectionError before anything is written (parameter kept for the proofs' frame lemmas) *)
    let s0 := if started then push s (partial_of cur) else s in
    let s1 := push s0 {| r_id := id_of cur; r_status := status; r_done := true |} in
    payload_check c (set_ka s1 (ka_resp && negb (close_of cur))) cur.

(* how the user handler ends *)
Inductive outcome :=
  | ORet (keep : bool) (status : N)  (* returns a response it did not start; keep=false: resp.force_close() was called *)
  | OStreamed                        (* returns the response it started and finished (write_eof) *)
  | OHttp (status : N)               (* raises web.HTTPException *)
  | OExc                             (* raises another Exception *)
  | OTimeout                         (* raises asyncio.TimeoutError *)
  | OCancel                          (* raises CancelledError *)
  | OSwallow.                        (* returns a response whose prepare() failed and was swallowed *)

Definition on_done (c : cfg) (s : st) (cur : qitem) (started : bool) (o : outcome) : st :=
  match o with
  | ORet keep status =>
      (* finish_response: another response object was started for this request (request._started_response) ->
         ConnectionError -> start() breaks (2a9b996); the 500 that replaces a None return is such an object too *)
      if started then exit_loop (push s (partial_of cur)) else finish_fresh c s cur false status keep
  | OHttp status =>
      (* _handle_request: output_size > 0 -> ConnectionError -> start() breaks, like handle_error *)
      if started then exit_loop (push s (partial_of cur)) else finish_fresh c s cur false status true
  | OExc | OTimeout =>
      if started then exit_loop (push s (partial_of cur))         (* handle_error: output_size > 0 -> ConnectionError -> break *)
      else finish_fresh c s cur false (match o with OTimeout => timeout_status | _ => exception_status end) false
  | OCancel => exit_loop (do_close (if started then push s (partial_of cur) else s))
  | OStreamed =>
      if started then
        if closed s then exit_loop (push s (partial_of cur))
        else payload_check c (set_ka (push s {| r_id := id_of cur; r_status := 200; r_done := true |}) (negb (close_of cur))) cur
      else (* nothing was started: finish_response prepares and writes it now *)
        finish_fresh c s cur false 200 true
  | OSwallow =>
      (* StreamResponse._start un-started the response, so finish_response's prepare() fails again: the RuntimeError
         leaves the handler task, start(): except Exception -> force_close() *)
      exit_loop (do_close (if started then push s (partial_of cur) else s))
  end.

(* ---- timers ----------------------------------------------------------------------------------- *)
Definition fire_ka (s : st) : st :=          (* _process_keepalive, if its handle is due *)
  match ka_h s with
  | Some w =>
      if w <=? now s then
        let s1 := set_timer s (ka_close s) None in
        if forcef s1 || negb (ka s1) then s1
        else if now s1 <? ka_close s1 then set_timer s1 (ka_close s1) (Some (ka_close s1))
        else match pc s1 with
             | PWait => set_pc (do_close s1) PExit          (* force_close(); the waiter is cancelled, start() ends *)
             | _ => s1
             end
      else s
  | None => s
  end.

Definition fire_linger (c : cfg) (s : st) : st :=
  match pc s with
  | PLinger m until =>
      if until <=? now s then after_req c s (incomplete s m && negb (forcef s))   (* still incomplete: self.close() unless force-closed *)
      else s
  | _ => s
  end.

(* ---- events -------------------------------------------------------------------------------------- *)
Inductive ev :=
  | EData (its : list item)   (* transport delivers a read (only while reading is not paused) *)
  | EStart                    (* the running handler starts a streamed response: head written *)
  | EDone (o : outcome)       (* the running handler ends *)
  | EReparse                  (* BaseProtocol.resume_reading(): a body read drained the StreamReader -> data_received(b"") *)
  | EWake                     (* the lingering payload.readany() returned (data, eof or the parser's exception) *)
  | ETick (dt : N)            (* the clock advances by dt; due timers run *)
  | EPeerClose.               (* connection_lost *)

(* data_received(data) and what the start() task does when that wakes it *)
Definition deliver (s : st) (tits : list titem) : st :=
  let '(s1, woke) := feed s tits in
  match pc s1 with
  | PWait => if woke then loop_top s1 else s1
  | _ => s1
  end.

Definition step (c : cfg) (s : st) (e : ev) : option st :=
  match e with
  | EData its =>
      if closed s || paused s then None
      else let '(tits, n') := tag (nseen s) its in Some (deliver (set_nseen s n') tits)
  | EReparse => Some (if closed s then s else deliver s [])
  | EWake =>
      Some match pc s with
           | PLinger m until =>
               if incomplete s m then
                 if forcef s then s
                 else if failed s m then exit_loop (do_close s) else s
               else after_req c s false
           | _ => s
           end
  | EStart =>
      match pc s with
      | PHandler cur false => if closed s then None else Some (set_pc s (PHandler cur true))
      | _ => None
      end
  | EDone o =>
      match pc s with
      | PHandler cur started => Some (on_done c s cur started o)
      | _ => None
      end
  | ETick dt => Some (fire_linger c (fire_ka (set_now s (now s + dt))))
  | EPeerClose =>
      if closed s then None
      else let s1 := do_close s in
           Some match pc s1 with PWait => set_pc s1 PExit | _ => s1 end
  end.

Fixpoint run (c : cfg) (s : st) (es : list ev) : option st :=
  match es with
  | [] => Some s
  | e :: r => match step c s e with Some s' => run c s' r | None => None end
  end.

(* what is on the wire: finished writes, plus the head of a response being streamed *)
Definition wire (s : st) : list resp :=
  out s ++ match pc s with PHandler cur true => [partial_of cur] | _ => [] end.

Fixpoint nmsgs (l : list qitem) : N :=
  match l with [] => 0 | QMsg _ :: r => 1 + nmsgs r | QErr :: r => nmsgs r end.
