(* C09 — body decoding.  Executable model (definitions only) of the four-party protocol

     transport pause bit  <->  BaseProtocol/ResponseHandler (pause_reading, resume_reading, data_received,
                               connection_lost)
                          <->  HttpParser.feed_data (body branch) + HttpPayloadParser (length / chunked /
                               until-EOF, `_paused`, `_more_data_available`, `_chunk_tail`, `_eof_pending`)
                          <->  DeflateBuffer (max_length-capped decompression, data_available loop,
                               raw-deflate sniff, feed_eof checks)
                          <->  ZLibDecompressor (decompress_sync, _decompress_members, data_available)
                          <->  StreamReader (water marks, chunk splits, single waiter, read / readany)

   Layers, each a Section over the layer below so that theorems can be stated over an abstract codec:
     ToyMember   a run-length "zlib backend" (decompressobj) — mirrored byte for byte by harness/c09.py
                 and plugged into aiohttp with set_zlib_backend
     ZHandler    ZLibDecompressor over any member decompressor
     Sys         everything else over any handler (H, hnew, hstep, havail, heof, hflush)
   Python exceptions are result constructors; `*Fuel` results are model artefacts (recursion fuel),
   reported by the driver and never expected.  Sizes are N; 0 means "unlimited" for max_length exactly
   as in the code (ZLIB_MAX_LENGTH_UNLIMITED). *)
From AV Require Import Lib.Base Generated.DecodeGen.
Open Scope N_scope.

(* ------------------------------------------------------------------------------------------ *)
(* byte-string helpers *)

Definition isnil {A} (l : list A) : bool := match l with [] => true | _ => false end.
(* slices that never build a huge unary number: l[:n], l[n:] *)
Definition take (n : N) (l : bytes) : bytes := if lenN l <=? n then l else firstn (N.to_nat n) l.
Definition drop (n : N) (l : bytes) : bytes := if lenN l <=? n then [] else skipn (N.to_nat n) l.

(* bytes.find(sep): index of the first occurrence *)
Fixpoint find_from (sep l : bytes) (i : N) : option N :=
  match l with
  | [] => if isnil sep then Some i else None
  | _ :: l' => if starts_with sep l then Some i else find_from sep l' (i + 1)
  end.
Definition find (sep l : bytes) : option N := find_from sep l 0.

Definition is_ws (c : N) : bool := (c =? 32) || ((9 <=? c) && (c <=? 13)).
Fixpoint lstrip (l : bytes) : bytes := match l with c :: l' => if is_ws c then lstrip l' else l | [] => [] end.
Definition strip (l : bytes) : bytes := rev (lstrip (rev (lstrip l))).
Fixpoint lstrip_cr (l : bytes) : bytes := match l with c :: l' => if c =? 13 then lstrip_cr l' else l | [] => [] end.
Definition rstrip_cr (l : bytes) : bytes := rev (lstrip_cr (rev l)).
(* bytes.endswith(b"\r") *)
Definition ends_cr (l : bytes) : bool := match rev l with c :: _ => c =? 13 | [] => false end.

Definition hexval (c : N) : option N :=
  if (48 <=? c) && (c <=? 57) then Some (c - 48)
  else if (97 <=? c) && (c <=? 102) then Some (c - 87)
  else if (65 <=? c) && (c <=? 70) then Some (c - 55)
  else None.
(* re.fullmatch(HEXDIGITS, b) and int(b, 16) *)
Fixpoint hex_acc (l : bytes) (acc : N) : option N :=
  match l with
  | [] => Some acc
  | c :: l' => match hexval c with Some v => hex_acc l' (acc * 16 + v) | None => None end
  end.
Definition parse_hex (l : bytes) : option N := match l with [] => None | _ => hex_acc l 0 end.

Fixpoint last_or (l : list N) (d : N) : N := match l with [] => d | [x] => x | _ :: l' => last_or l' d end.
Fixpoint repeatN (b : N) (k : nat) (acc : bytes) : bytes := match k with O => acc | S k' => repeatN b k' (b :: acc) end.

(* ------------------------------------------------------------------------------------------ *)
(* ToyMember: a run-length codec with zlib's decompressobj interface.
   stream  = header? token* 0 checksum?          header: 31 (gzip, wbits 31) | 120 (zlib, wbits 15) | none (raw, wbits 0 here for -15)
   token   = c b   with 1 <= c < 240: c copies of byte b;    c >= 240: corrupt
   checksum (gzip, zlib only) = sum of the output bytes mod 256 *)
Record tm := mkTm { t_mode : N; t_stage : N; t_cnt : N; t_byte : N; t_sum : N; t_tail : bytes; t_unused : bytes }.
(* stages: 0 header, 1 token, 2 run byte, 3 run being emitted (output budget ran out), 4 checksum, 5 eof *)
Definition tm_new (mode : N) : tm := mkTm mode (if mode =? 0 then 1 else 0) 0 0 0 [] [].
Definition tm_eof (t : tm) : bool := t_stage t =? 5.
Definition tm_header (mode : N) : N := if mode =? 31 then 31 else 120.

(* emit up to the budget from the pending run; budget None = unlimited *)
Definition tm_emit (t : tm) (bud : option N) (acc : bytes) : tm * option N * bytes :=
  if t_stage t =? 3 then
    let k := match bud with None => t_cnt t | Some b => N.min (t_cnt t) b end in
    let acc' := repeatN (t_byte t) (N.to_nat k) acc in
    let sum' := (t_sum t + k * t_byte t) mod 256 in
    let cnt' := t_cnt t - k in
    let bud' := match bud with None => None | Some b => Some (b - k) end in
    (mkTm (t_mode t) (if cnt' =? 0 then 1 else 3) cnt' (t_byte t) sum' (t_tail t) (t_unused t), bud', acc')
  else (t, bud, acc).

Fixpoint tm_go (inp : bytes) (t : tm) (bud : option N) (acc : bytes) : option (tm * bytes) :=
  match bud with
  | Some 0 => Some (mkTm (t_mode t) (t_stage t) (t_cnt t) (t_byte t) (t_sum t) inp (t_unused t), rev acc)
  | _ =>
    match inp with
    | [] => Some (mkTm (t_mode t) (t_stage t) (t_cnt t) (t_byte t) (t_sum t) [] (t_unused t), rev acc)
    | c :: rest =>
      let st := t_stage t in
      if st =? 0 then
        if c =? tm_header (t_mode t) then tm_go rest (mkTm (t_mode t) 1 0 0 (t_sum t) [] (t_unused t)) bud acc else None
      else if st =? 1 then
        if c =? 0 then
          if t_mode t =? 0 then Some (mkTm (t_mode t) 5 0 0 (t_sum t) [] (t_unused t ++ rest), rev acc)
          else tm_go rest (mkTm (t_mode t) 4 0 0 (t_sum t) [] (t_unused t)) bud acc
        else if c <? 240 then tm_go rest (mkTm (t_mode t) 2 c 0 (t_sum t) [] (t_unused t)) bud acc
        else None
      else if st =? 2 then
        let '(t', bud', acc') := tm_emit (mkTm (t_mode t) 3 (t_cnt t) c (t_sum t) [] (t_unused t)) bud acc in
        tm_go rest t' bud' acc'
      else if st =? 4 then
        if c =? t_sum t then Some (mkTm (t_mode t) 5 0 0 (t_sum t) [] (t_unused t ++ rest), rev acc) else None
      else None   (* stage 3 with budget left / stage 5: not reachable from tm_dec *)
    end
  end.

(* decompressobj.decompress(data, max_length) : None = zlib.error *)
Definition tm_dec (t : tm) (data : bytes) (maxlen : N) : option (tm * bytes) :=
  if tm_eof t then Some (mkTm (t_mode t) 5 0 0 (t_sum t) [] (t_unused t ++ data), [])
  else
    let bud := if maxlen =? 0 then None else Some maxlen in
    let '(t1, bud1, acc1) := tm_emit t bud [] in
    tm_go data t1 bud1 acc1.
(* decompressobj.flush(): everything still obtainable from the pending run and the unconsumed tail *)
Definition tm_flush (t : tm) : option bytes :=
  match tm_dec t (t_tail t) 0 with Some (_, o) => Some o | None => None end.

(* ------------------------------------------------------------------------------------------ *)
(* ZLibDecompressor (and ConcatDecompressionHandler._decompress_members) over a member decompressor *)
Section ZHandler.
  Variable M : Type.
  Variable mnew : N -> M.
  Variable mdec : M -> bytes -> N -> option (M * bytes).
  Variable mtail munused : M -> bytes.
  Variable meof : M -> bool.
  Variable mflush : M -> option bytes.

  (* z_mid = mid_stream (db20ae1): input has been consumed since the last complete member *)
  Record zh := mkZh { z_mode : N; z_d : M; z_pending : option bytes; z_last_empty : bool; z_mid : bool }.
  Definition zh_new (mode : N) : zh := mkZh mode (mnew mode) None false false.

  (* the while loop of _decompress_members; `rest` = remaining[pos:], out = b"".join(parts).
     Result: decompressor, _pending_unused_data, output.  None = an exception (zlib.error or
     TooManyMembersError; DeflateBuffer turns every exception into ContentEncodingError). *)
  Fixpoint zh_members (fuel : nat) (mode : N) (d : M) (rest : bytes) (window maxlen produced members : N)
           (out : bytes) : option (option (M * option bytes * bytes)) :=
    match fuel with
    | O => Some None      (* out of fuel: model artefact *)
    | S f =>
      if isnil rest then Some (Some (d, None, out)) else
      let members' := if meof d then members + 1 else members in
      if meof d && dg_too_many_members members' then None else
      let d1 := if meof d then mnew mode else d in
      let window1 := if meof d then dg_window_min else window in
      if negb (maxlen =? dg_unlimited) && dg_budget_spent maxlen produced then Some (Some (d1, Some rest, out)) else
      let budget := if maxlen =? dg_unlimited then maxlen else dg_budget maxlen produced in
      let slice := take window1 rest in
      match mdec d1 slice budget with
      | None => None
      | Some (d2, chunk) =>
        if meof d2
        then zh_members f mode d2 (drop (lenN slice - lenN (munused d2)) rest) window1 maxlen (produced + lenN chunk) members' (out ++ chunk)
        else zh_members f mode d2 (drop (lenN slice) rest) (dg_window_next window1) maxlen (produced + lenN chunk) members' (out ++ chunk)
      end
    end.

  Inductive hres := HErr | HFuel | HOk (z : zh) (out : bytes).

  (* decompress_sync(data, max_length) *)
  Definition zh_step (z : zh) (data : bytes) (maxlen : N) : hres :=
    let data1 := match z_pending z with Some p => p ++ data | None => data end in
    let fed := negb (isnil data1) || negb (isnil (mtail (z_d z))) in
    match mdec (z_d z) (mtail (z_d z) ++ data1) maxlen with
    | None => HErr
    | Some (d1, r) =>
      let walk := if meof d1 && negb (isnil (munused d1))
                  then zh_members (S (length (munused d1))) (z_mode z) d1 (munused d1) dg_window_min maxlen (lenN r) 1 r
                  else Some (Some (d1, None, r)) in
      match walk with
      | None => HErr
      | Some None => HFuel
      | Some (Some (d2, pend, out)) =>
        (* `if fed or self.mid_stream: self.mid_stream = not self._decompressor.eof`, before the gzip reset *)
        let mid := if fed || z_mid z then negb (meof d2) else z_mid z in
        let d3 := if dg_gzip_reset (meof d2) (z_mode z) 15 then mnew (z_mode z) else d2 in
        HOk (mkZh (z_mode z) d3 pend (isnil out) mid) out
      end
    end.
  Definition zh_avail (z : zh) : bool :=
    negb (isnil (mtail (z_d z))) || negb (z_last_empty z) || match z_pending z with Some _ => true | None => false end.
  Definition zh_eof (z : zh) : bool := meof (z_d z).
  (* DeflateBuffer.feed_eof's stream-end checks pass: not (deflate and not eof) and not mid_stream *)
  Definition zh_complete (z : zh) : bool :=
    negb ((negb (dg_gzip_reset true (z_mode z) 15) && negb (meof (z_d z))) || z_mid z).
  Definition zh_flush (z : zh) : option bytes := mflush (z_d z).
End ZHandler.

(* ------------------------------------------------------------------------------------------ *)
(* The composed system over an abstract handler *)
Inductive ptype := PLength | PChunked | PUntilEof.
Inductive cstate := CSize | CChunk | CChunkEof | CTrailers.
(* error kinds (the class of the exception the payload parser raised / the reader raises) *)
Inductive ekind := EContentEncoding | ETransferEncoding | ELineTooLong | EContentLength | EBadMessage
                 | EAssertion | ECodecFlush | EConnClosed | EOutOfModel | EFuel.
Inductive wstate := WNone | WWaiting | WOk | WExc (e : ekind).

Section Sys.
  Variable H : Type.
  Variable hnew : N -> H.                                   (* ZLibDecompressor(mode): 31 gzip, 15 zlib, 0 raw *)
  Variable hstep : H -> bytes -> N -> option (option (H * bytes)).   (* None = raises; Some None = fuel *)
  Variable havail : H -> bool.                              (* data_available *)
  Variable heof : H -> bool.                                (* feed_eof's stream-end checks pass: not (deflate and not .eof) and not .mid_stream *)
  Variable hflush : H -> option bytes.                      (* .flush(); None = raises *)

  Record cfg := mkCfg { c_limit : N; c_lax : bool; c_maxline : N; c_maxfield : N; c_maxtrailers : N;
                        c_flow : bool (* the transport honours pause_reading *) }.
  (* protocol + HttpParser *)
  Record prot := mkProt { connected : bool; tpaused : bool; rpaused : bool; parser_alive : bool;
                          pp_present : bool; has_more : bool;
                          closing : bool (* transport.close() was called: connection_lost runs when the loop is idle *) }.
  (* HttpPayloadParser *)
  Record pp := mkPp { ptyp : ptype; plength : N; ppaused : bool; cst : cstate; csize : N; ctail : bytes;
                      more : bool; eof_pending : bool; pdone : bool; ntrailers : N; bad_trailer : bool }.
  (* DeflateBuffer *)
  Record db := mkDb { comp : bool; d_enc : N (* 1 gzip, 2 deflate *); d_h : H; d_size : N; d_started : bool }.
  (* StreamReader *)
  Record rd := mkRd { buf : list bytes; rsize : N; low : N; high : N; lowc : N; highc : N; reof : bool;
                      rexn : option ekind; total : N; cursor : N; splits : option (list N); wt : wstate;
                      delivered : bytes (* ghost: everything handed to the consumer *) }.
  Record st := mkSt { cf : cfg; pr : prot; pa : pp; de : db; re : rd;
                      fed : bytes (* ghost: every byte passed to DeflateBuffer/StreamReader by the payload parser *) }.

  Definition set_pr (s : st) (x : prot) := mkSt (cf s) x (pa s) (de s) (re s) (fed s).
  Definition set_pa (s : st) (x : pp) := mkSt (cf s) (pr s) x (de s) (re s) (fed s).
  Definition set_de (s : st) (x : db) := mkSt (cf s) (pr s) (pa s) x (re s) (fed s).
  Definition set_re (s : st) (x : rd) := mkSt (cf s) (pr s) (pa s) (de s) x (fed s).
  Definition set_fed (s : st) (x : bytes) := mkSt (cf s) (pr s) (pa s) (de s) (re s) x.

  Definition sep (s : st) : bytes := if c_lax (cf s) then [10] else [13; 10].

  (* payload-parser field setters *)
  Definition pa_paused (p : pp) v := mkPp (ptyp p) (plength p) v (cst p) (csize p) (ctail p) (more p) (eof_pending p) (pdone p) (ntrailers p) (bad_trailer p).
  Definition pa_more (p : pp) v := mkPp (ptyp p) (plength p) (ppaused p) (cst p) (csize p) (ctail p) v (eof_pending p) (pdone p) (ntrailers p) (bad_trailer p).
  Definition pa_tail (p : pp) v := mkPp (ptyp p) (plength p) (ppaused p) (cst p) (csize p) v (more p) (eof_pending p) (pdone p) (ntrailers p) (bad_trailer p).
  Definition pa_length (p : pp) v := mkPp (ptyp p) v (ppaused p) (cst p) (csize p) (ctail p) (more p) (eof_pending p) (pdone p) (ntrailers p) (bad_trailer p).
  Definition pa_cst (p : pp) v := mkPp (ptyp p) (plength p) (ppaused p) v (csize p) (ctail p) (more p) (eof_pending p) (pdone p) (ntrailers p) (bad_trailer p).
  Definition pa_csize (p : pp) v := mkPp (ptyp p) (plength p) (ppaused p) (cst p) v (ctail p) (more p) (eof_pending p) (pdone p) (ntrailers p) (bad_trailer p).
  Definition pa_eofp (p : pp) v := mkPp (ptyp p) (plength p) (ppaused p) (cst p) (csize p) (ctail p) (more p) v (pdone p) (ntrailers p) (bad_trailer p).
  Definition pa_done (p : pp) v := mkPp (ptyp p) (plength p) (ppaused p) (cst p) (csize p) (ctail p) (more p) (eof_pending p) v (ntrailers p) (bad_trailer p).
  Definition pa_trailers (p : pp) n b := mkPp (ptyp p) (plength p) (ppaused p) (cst p) (csize p) (ctail p) (more p) (eof_pending p) (pdone p) n b.

  Definition upd_pa (s : st) (f : pp -> pp) : st := set_pa s (f (pa s)).

  (* ---- protocol ---------------------------------------------------------------------------- *)
  (* BaseProtocol.pause_reading: _reading_paused = True; parser.pause_reading() (-> payload parser
     _paused = True); transport.pause_reading() when there is a transport *)
  Definition pause_reading (s : st) : st :=
    let p := pr s in
    let s1 := set_pr s (mkProt (connected p) (if connected p then true else tpaused p) true (parser_alive p) (pp_present p) (has_more p) (closing p)) in
    upd_pa s1 (fun q => pa_paused q true).

  (* ---- StreamReader, producer side ------------------------------------------------------------ *)
  Definition wake_ok (r : rd) : rd :=
    match wt r with
    | WWaiting => mkRd (buf r) (rsize r) (low r) (high r) (lowc r) (highc r) (reof r) (rexn r) (total r) (cursor r) (splits r) WOk (delivered r)
    | _ => r end.

  (* StreamReader.feed_data; None = `assert not self._eof` fails (AssertionError) *)
  Definition rd_feed (s : st) (data : bytes) : option st :=
    if reof (re s) then None else
    if isnil data then Some s else
    let r := re s in
    let r1 := wake_ok (mkRd (buf r ++ [data]) (rsize r + lenN data) (low r) (high r) (lowc r) (highc r) (reof r) (rexn r)
                            (total r + lenN data) (cursor r) (splits r) (wt r) (delivered r)) in
    let s1 := set_re s r1 in
    Some (if dg_feed_pause (rsize r1) (high r1) then pause_reading s1 else s1).

  (* StreamReader.feed_eof: _eof = True; wake; protocol.resume_reading(resume_parser=False) *)
  Definition rd_feed_eof (s : st) : st :=
    let r := re s in
    let r1 := wake_ok (mkRd (buf r) (rsize r) (low r) (high r) (lowc r) (highc r) true (rexn r) (total r) (cursor r) (splits r) (wt r) (delivered r)) in
    let p := pr s in
    set_pr (set_re s r1) (mkProt (connected p) (if connected p then false else tpaused p) false (parser_alive p) (pp_present p) (has_more p) (closing p)).

  (* StreamReader.set_exception (through helpers.set_exception) *)
  Definition rd_set_exn (s : st) (e : ekind) : st :=
    let r := re s in
    set_re s (mkRd (buf r) (rsize r) (low r) (high r) (lowc r) (highc r) (reof r) (Some e) (total r) (cursor r) (splits r)
                   (match wt r with WWaiting => WExc e | w => w end) (delivered r)).

  (* begin_http_chunk_receiving (the RuntimeError branch needs data fed before the first chunk-size
     line, which the payload parser never does) *)
  Definition rd_begin_chunk (s : st) : st :=
    let r := re s in
    match splits r with
    | Some _ => s
    | None => set_re s (mkRd (buf r) (rsize r) (low r) (high r) (lowc r) (highc r) (reof r) (rexn r) (total r) (cursor r) (Some []) (wt r) (delivered r))
    end.

  (* end_http_chunk_receiving *)
  Definition rd_end_chunk (s : st) : st :=
    let r := re s in
    match splits r with
    | None => s      (* RuntimeError: begin always precedes end in the payload parser *)
    | Some sp =>
      if total r =? last_or sp 0 then s else
      let sp' := sp ++ [total r] in
      let r1 := mkRd (buf r) (rsize r) (low r) (high r) (lowc r) (highc r) (reof r) (rexn r) (total r) (cursor r) (Some sp') (wt r) (delivered r) in
      let s1 := set_re s r1 in
      let s2 := if dg_chunk_pause (lenN sp') (highc r) then pause_reading s1 else s1 in
      set_re s2 (wake_ok (re s2))
    end.

  (* ---- DeflateBuffer ------------------------------------------------------------------------------ *)
  Inductive fres := FErr (e : ekind) | FMore (b : bool).

  (* payload.feed_data(chunk) for payload = DeflateBuffer | StreamReader *)
  Definition db_feed (s : st) (chunk : bytes) : st * fres :=
    let s := set_fed s (fed s ++ chunk) in
    let d := de s in
    if negb (comp d) then match rd_feed s chunk with Some s1 => (s1, FMore false) | None => (s, FErr EAssertion) end else
    let h1 := if negb (d_started d) && negb (isnil chunk) && (d_enc d =? 2) && dg_sniff_raw (hd 0 chunk) then hnew 0 else d_h d in
    let started1 := d_started d || negb (isnil chunk) in
    let maxlen := dg_max_length (c_limit (cf s)) (low (re s)) in
    match hstep h1 chunk maxlen with
    | None => (set_de s (mkDb true (d_enc d) h1 (d_size d + lenN chunk) started1), FErr EContentEncoding)
    | Some None => (s, FErr EFuel)
    | Some (Some (h2, out)) =>
      let s1 := set_de s (mkDb true (d_enc d) h2 (d_size d + lenN chunk) started1) in
      (* `if chunk: self.out.feed_data(chunk)` *)
      if isnil out then (s1, FMore (havail h2)) else
      match rd_feed s1 out with Some s2 => (s2, FMore (havail h2)) | None => (s1, FErr EAssertion) end
    end.

  (* payload.feed_eof() *)
  Definition db_feed_eof (s : st) : st * option ekind :=
    let d := de s in
    if negb (comp d) then (rd_feed_eof s, None) else
    match hflush (d_h d) with
    | None => (s, Some ECodecFlush)
    | Some c =>
      if negb (isnil c) then (s, Some EAssertion)
      else if (0 <? d_size d) && negb (heof (d_h d)) then (s, Some EContentEncoding)
      else (rd_feed_eof s, None)
    end.

  (* ---- HttpPayloadParser -------------------------------------------------------------------------- *)
  Inductive pres := PNeeds | PPending | PComplete (rest : bytes) | PRaise (e : ekind).
  Inductive dres := DDone | DPaused | DErr (e : ekind).

  (* `while self._more_data_available: if self._paused: ...return; more = payload.feed_data(b"")` *)
  Fixpoint drain (fuel : nat) (s : st) : st * dres :=
    match fuel with
    | O => (s, DErr EFuel)
    | S f =>
      if more (pa s) then
        if ppaused (pa s) then (upd_pa s (fun q => pa_paused q false), DPaused)
        else match db_feed s [] with
             | (s1, FErr e) => (s1, DErr e)
             | (s1, FMore m) => drain f (upd_pa s1 (fun q => pa_more q m))
             end
      else (s, DDone)
    end.

  Definition finish_eof (s : st) (rest : bytes) : st * pres :=
    match db_feed_eof s with
    | (s1, Some e) => (s1, PRaise e)
    | (s1, None) => (s1, PComplete rest)
    end.

  (* PARSE_LENGTH branch of feed_data *)
  Definition len_feed (fuel : nat) (s : st) (chunk0 : bytes) : st * pres :=
    let chunk := ctail (pa s) ++ chunk0 in
    let required := plength (pa s) in
    let s0 := upd_pa s (fun q => pa_length (pa_tail q []) (dg_remaining required (lenN chunk))) in
    match db_feed s0 (take required chunk) with
    | (s1, FErr e) => (s1, PRaise e)
    | (s1, FMore m) =>
      match drain fuel (upd_pa s1 (fun q => pa_more q m)) with
      | (s2, DErr e) => (s2, PRaise e)
      | (s2, DPaused) => (upd_pa s2 (fun q => pa_tail q (drop required chunk)), PPending)
      | (s2, DDone) => if plength (pa s2) =? 0 then finish_eof s2 (drop required chunk)
                       else (upd_pa s2 (fun q => pa_paused q false), PNeeds)
      end
    end.

  (* PARSE_UNTIL_EOF branch of feed_data *)
  Definition eof_feed (fuel : nat) (s : st) (chunk : bytes) : st * pres :=
    match db_feed s chunk with
    | (s1, FErr e) => (s1, PRaise e)
    | (s1, FMore m) =>
      match drain fuel (upd_pa s1 (fun q => pa_more q m)) with
      | (s2, DErr e) => (s2, PRaise e)
      | (s2, DPaused) => (s2, PPending)
      | (s2, DDone) =>
        if eof_pending (pa s2) then
          match db_feed_eof s2 with
          | (s3, Some e) => (s3, PRaise e)
          | (s3, None) => (upd_pa s3 (fun q => pa_eofp (pa_done q true) false), PComplete [])
          end
        else (upd_pa s2 (fun q => pa_paused q false), PNeeds)
      end
    end.

  (* chunked: the four consecutive `if self._chunk == ...` blocks of one loop iteration *)
  Inductive bres := BNext (s : st) (chunk : bytes) | BCont (s : st) (chunk : bytes) | BRet (s : st) (r : pres).

  Definition blk_size (s : st) (chunk : bytes) : bres :=
    match cst (pa s) with
    | CSize =>
      match find (sep s) chunk with
      | Some pos =>
        if c_maxline (cf s) <? pos then BRet s (PRaise ELineTooLong) else
        let line := take pos chunk in
        let semi := find [59] line in
        let bad_ext := match semi with Some i => memN 10 (drop i line) | None => false end in
        if bad_ext then BRet s (PRaise ETransferEncoding) else
        let size_b := match semi with Some i => take i line | None => line end in
        let size_b := if c_lax (cf s) then strip size_b else size_b in
        match parse_hex size_b with
        | None => BRet s (PRaise ETransferEncoding)
        | Some size =>
          let chunk1 := drop (pos + lenN (sep s)) chunk in
          if size =? 0 then BNext (upd_pa s (fun q => pa_cst q CTrailers)) chunk1
          else BNext (rd_begin_chunk (upd_pa s (fun q => pa_csize (pa_cst q CChunk) size))) chunk1
        end
      | None =>
        if memN 10 chunk then BRet s (PRaise ETransferEncoding)
        else BRet (upd_pa s (fun q => pa_paused (pa_tail q chunk) false)) PNeeds
      end
    | _ => BNext s chunk
    end.

  Definition blk_chunk (s : st) (chunk : bytes) : bres :=
    match cst (pa s) with
    | CChunk =>
      if ppaused (pa s) then BRet (upd_pa s (fun q => pa_tail (pa_paused q false) chunk)) PPending else
      let required := csize (pa s) in
      let s0 := upd_pa s (fun q => pa_csize q (dg_remaining required (lenN chunk))) in
      match db_feed s0 (take required chunk) with
      | (s1, FErr e) => BRet s1 (PRaise e)
      | (s1, FMore m) =>
        let s2 := upd_pa s1 (fun q => pa_more q m) in
        let chunk1 := drop required chunk in
        if m then BCont s2 chunk1
        else if negb (csize (pa s2) =? 0) then BRet (upd_pa s2 (fun q => pa_paused q false)) PNeeds
        else BNext (rd_end_chunk (upd_pa s2 (fun q => pa_cst q CChunkEof))) chunk1
      end
    | _ => BNext s chunk
    end.

  Definition blk_eof (s : st) (chunk : bytes) : bres :=
    match cst (pa s) with
    | CChunkEof =>
      (* lax: a lone CR is kept for the next read (4127650), `_paused = False; return NEEDS_INPUT` *)
      if c_lax (cf s) && list_eqb chunk [13] then BRet (upd_pa s (fun q => pa_paused (pa_tail q chunk) false)) PNeeds else
      let chunk1 := if c_lax (cf s) && starts_with [13] chunk then drop 1 chunk else chunk in
      let sp := sep s in
      if list_eqb (take (lenN sp) chunk1) sp then BNext (upd_pa s (fun q => pa_cst q CSize)) (drop (lenN sp) chunk1)
      else if (lenN sp <=? lenN chunk1) || negb (list_eqb chunk1 (take (lenN chunk1) sp)) then BRet s (PRaise ETransferEncoding)
      else BRet (upd_pa s (fun q => pa_paused (pa_tail q chunk1) false)) PNeeds
    | _ => BNext s chunk
    end.

  Definition blk_trailers (s : st) (chunk : bytes) : bres :=
    match cst (pa s) with
    | CTrailers =>
      match find (sep s) chunk with
      | None =>
        if memN 10 chunk then BRet s (PRaise ETransferEncoding)
        else BRet (upd_pa s (fun q => pa_paused (pa_tail q chunk) false)) PNeeds
      | Some pos =>
        let line0 := take pos chunk in
        let chunk1 := drop (pos + lenN (sep s)) chunk in
        let line := if c_lax (cf s) then rstrip_cr line0 else line0 in
        (* line_len: one CR of the terminator does not count, further trailing CRs do (0473a42) *)
        let line_len := if c_lax (cf s) && ends_cr line0 then lenN line0 - 1 else lenN line0 in
        if c_maxfield (cf s) <? line_len then BRet s (PRaise ELineTooLong) else
        let n := ntrailers (pa s) + 1 in
        let s1 := upd_pa s (fun q => pa_trailers q n (bad_trailer q || negb (isnil line))) in
        if c_maxtrailers (cf s) <? n then BRet s1 (PRaise EBadMessage)
        else if isnil line then
          (* HeadersParser.parse_headers(trailer lines) is C01/C03's subject: only the empty trailer
             section is inside this model *)
          if bad_trailer (pa s1) then BRet s1 (PRaise EOutOfModel)
          else match finish_eof (upd_pa s1 (fun q => pa_trailers q 0 false)) chunk1 with (s2, r) => BRet s2 r end
        else BCont s1 chunk1
      end
    | _ => BNext s chunk
    end.

  Fixpoint chunk_loop (fuel : nat) (s : st) (chunk : bytes) : st * pres :=
    match fuel with
    | O => (s, PRaise EFuel)
    | S f =>
      if isnil chunk && negb (more (pa s)) then (upd_pa s (fun q => pa_paused q false), PNeeds) else
      match blk_size s chunk with
      | BRet s1 r => (s1, r) | BCont s1 c1 => chunk_loop f s1 c1
      | BNext s1 c1 =>
        match blk_chunk s1 c1 with
        | BRet s2 r => (s2, r) | BCont s2 c2 => chunk_loop f s2 c2
        | BNext s2 c2 =>
          match blk_eof s2 c2 with
          | BRet s3 r => (s3, r) | BCont s3 c3 => chunk_loop f s3 c3
          | BNext s3 c3 =>
            match blk_trailers s3 c3 with
            | BRet s4 r => (s4, r) | BCont s4 c4 => chunk_loop f s4 c4
            | BNext s4 c4 => chunk_loop f s4 c4
            end
          end
        end
      end
    end.

  (* PARSE_CHUNKED branch of feed_data *)
  Definition chunked_feed (fuel : nat) (s : st) (chunk0 : bytes) : st * pres :=
    let tl := ctail (pa s) in
    let limit := match cst (pa s) with CTrailers => c_maxfield (cf s) | _ => c_maxline (cf s) end in
    (* tail_len: a CR ending the buffered part may belong to the terminator; a lax chunk-size line keeps it (0473a42, 4127650) *)
    let tail_len := if (negb (c_lax (cf s)) || match cst (pa s) with CSize => false | _ => true end) && ends_cr tl then lenN tl - 1 else lenN tl in
    let too_long := negb (isnil tl) && match cst (pa s) with CChunk => false | _ => limit <? tail_len end in
    if too_long then (s, PRaise ELineTooLong) else
    chunk_loop fuel (upd_pa s (fun q => pa_tail q [])) (tl ++ chunk0).

  Definition payload_feed (fuel : nat) (s : st) (chunk : bytes) : st * pres :=
    match ptyp (pa s) with
    | PLength => len_feed fuel s chunk
    | PChunked => chunked_feed fuel s chunk
    | PUntilEof => eof_feed fuel s chunk
    end.

  (* HttpPayloadParser.feed_eof(): Some e = raises *)
  Definition payload_feed_eof (fuel : nat) (s : st) : st * option ekind :=
    match ptyp (pa s) with
    | PChunked => (s, Some ETransferEncoding)
    | PLength =>
      if negb (plength (pa s) =? 0) then (s, Some EContentLength) else
      match drain fuel s with
      | (s1, DErr e) => (s1, Some e)
      | (s1, DPaused) => (s1, None)
      | (s1, DDone) => match db_feed_eof s1 with
                       | (s2, Some e) => (s2, Some e)
                       | (s2, None) => (upd_pa s2 (fun q => pa_done q true), None)
                       end
      end
    | PUntilEof =>
      match drain fuel (upd_pa s (fun q => pa_eofp q true)) with
      | (s1, DErr e) => (s1, Some e)
      | (s1, DPaused) => (s1, None)
      | (s1, DDone) => match db_feed_eof s1 with
                       | (s2, Some e) => (s2, Some e)
                       | (s2, None) => (upd_pa s2 (fun q => pa_eofp (pa_done q true) false), None)
                       end
      end
    end.

  (* ---- HttpParser.feed_data (payload branch) inside ResponseHandler.data_received ------------------ *)
  Definition is_framing (e : ekind) : bool :=
    match e with ETransferEncoding | ELineTooLong | EBadMessage => true | _ => false end.

  Definition pr_set (s : st) (f : prot -> prot) : st := set_pr s (f (pr s)).

  (* connection_lost(None) on the client protocol.  The parser is kept (with _payload_has_more_data set by
     HttpParser.feed_eof) when the payload parser's feed_eof() returned early because the reader is full:
     resume_reading() -> data_received(b"") then delivers the rest of the body and its EOF. *)
  Definition connection_lost (fuel : nat) (s : st) : st :=
    let '(s1, keep) :=
      if parser_alive (pr s) && pp_present (pr s) then
        match payload_feed_eof fuel s with
        | (s1, Some e) => (rd_set_exn s1 e, false)      (* set_exception(self._payload, ClientPayloadError(...)) *)
        | (s1, None) =>
          if pdone (pa s1)
          then (pr_set s1 (fun p => mkProt (connected p) (tpaused p) (rpaused p) (parser_alive p) false (has_more p) (closing p)), false)
          else (s1, true)
        end
      else (s, false) in
    pr_set s1 (fun p => mkProt false (tpaused p) false (keep && parser_alive p) (pp_present p) (keep || has_more p) false).

  Definition parser_feed (fuel : nat) (s : st) (data : bytes) : st :=
    if negb (parser_alive (pr s)) then s else                 (* data_received: `self._parser is None` *)
    if isnil data && negb (has_more (pr s)) then s else       (* while start_pos < data_len or has_more *)
    if negb (pp_present (pr s)) then s else                   (* message heads are outside this model *)
    match payload_feed fuel s data with
    | (s1, PRaise e) =>
      let s2 := rd_set_exn s1 e in
      if is_framing e then
        (* re-raised: data_received calls transport.close(); connection_lost follows when the loop is
           idle and, the payload being chunked, replaces the payload's exception by "not enough data" *)
        pr_set s2 (fun p => mkProt (connected p) (tpaused p) (rpaused p) (parser_alive p) (pp_present p) (has_more p) true)
      else pr_set s2 (fun p => mkProt (connected p) (tpaused p) (rpaused p) (parser_alive p) false false (closing p))
    | (s1, PPending) => pr_set s1 (fun p => mkProt (connected p) (tpaused p) (rpaused p) (parser_alive p) (pp_present p) true (closing p))
    | (s1, PNeeds) => pr_set s1 (fun p => mkProt (connected p) (tpaused p) (rpaused p) (parser_alive p) (pp_present p) false (closing p))
    | (s1, PComplete _) => pr_set s1 (fun p => mkProt (connected p) (tpaused p) (rpaused p) (parser_alive p) false false (closing p))
    end.

  (* BaseProtocol.resume_reading() *)
  Definition resume_reading (fuel : nat) (s : st) : st :=
    let s1 := pr_set s (fun p => mkProt (connected p) (tpaused p) false (parser_alive p) (pp_present p) (has_more p) (closing p)) in
    let s2 := parser_feed fuel s1 [] in
    if negb (rpaused (pr s2)) && connected (pr s2)
    then pr_set s2 (fun p => mkProt (connected p) false false (parser_alive p) (pp_present p) (has_more p) (closing p))
    else s2.

  (* ---- server side: RequestHandler.data_received on a connection that is closing ----------------------
     (`self._force_close or self._close`, set by RequestHandler.close() / Server.pre_shutdown()): no new message
     is accepted, the request being handled keeps receiving its body while the generated gate holds.
     has_req: _current_request is not None; custom_pp: RequestHandler._payload_parser (an upgraded protocol's
     reader) is set; the body parser of this model is HttpParser's own (pp_present). *)
  Definition srv_data_received (fuel : nat) (closing_conn has_req custom_pp upgraded : bool) (s : st) (data : bytes) : st :=
    if closing_conn then
      if dg_srv_closing_feeds (negb (isnil data)) has_req (reof (re s)) (connected (pr s)) (parser_alive (pr s)) custom_pp upgraded
      then parser_feed fuel s data else s
    else parser_feed fuel s data.

  (* BaseProtocol.resume_reading() on the server protocol: `if not self._upgraded: self.data_received(b"")` *)
  Definition srv_resume_reading (fuel : nat) (closing_conn has_req custom_pp upgraded : bool) (s : st) : st :=
    let s1 := pr_set s (fun p => mkProt (connected p) (tpaused p) false (parser_alive p) (pp_present p) (has_more p) (closing p)) in
    let s2 := if upgraded then s1 else srv_data_received fuel closing_conn has_req custom_pp upgraded s1 [] in
    if negb (rpaused (pr s2)) && connected (pr s2)
    then pr_set s2 (fun p => mkProt (connected p) false false (parser_alive p) (pp_present p) (has_more p) (closing p))
    else s2.

  (* ---- StreamReader, consumer side ------------------------------------------------------------------- *)
  Fixpoint drop_stale (sp : list N) (cur : N) : list N :=
    match sp with x :: sp' => if dg_split_stale x cur then drop_stale sp' cur else sp | [] => [] end.

  (* _read_nowait_chunk(n)   (n = None for -1); the buffer is not empty *)
  Definition rd_take (fuel : nat) (s : st) (n : option N) : st * bytes :=
    let r := re s in
    match buf r with
    | [] => (s, [])
    | first :: rest =>
      let '(data, buf') := match n with
                           | Some k => if k <? lenN first then (take k first, drop k first :: rest) else (first, rest)
                           | None => (first, rest) end in
      let cur := cursor r + lenN data in
      let sp := match splits r with Some l => Some (drop_stale l cur) | None => None end in
      let r1 := mkRd buf' (rsize r - lenN data) (low r) (high r) (lowc r) (highc r) (reof r) (rexn r) (total r) cur sp (wt r)
                     (delivered r ++ data) in
      let s1 := set_re s r1 in
      let ok_chunks := match sp with None => true | Some l => dg_resume_chunks (lenN l) (lowc r1) end in
      ((if negb (dg_resume_not_eof && reof r1) && (dg_resume_size (rsize r1) (low r1) || (dg_resume_when_empty && isnil buf')) && ok_chunks
        then resume_reading fuel s1 else s1), data)
    end.

  Fixpoint take_k (fuel : nat) (k : nat) (s : st) (acc : bytes) : st * bytes :=
    match k with
    | O => (s, acc)
    | S k' => let '(s1, d) := rd_take fuel s None in take_k fuel k' s1 (acc ++ d)
    end.

  Fixpoint read_upto (fuel : nat) (g : nat) (s : st) (n : N) (acc : bytes) : st * option bytes :=
    match g with
    | O => (s, None)
    | S g' =>
      if isnil (buf (re s)) then (s, Some acc) else
      let '(s1, d) := rd_take fuel s (Some n) in
      let n' := n - lenN d in
      if n' =? 0 then (s1, Some (acc ++ d)) else read_upto fuel g' s1 n' (acc ++ d)
    end.

  Definition set_chunk_size (s : st) (n : N) : st :=
    let r := re s in
    if dg_raises n (low r)
    then set_re s (mkRd (buf r) (rsize r) (dg_raise_low n) (dg_raise_high n) (lowc r) (highc r) (reof r) (rexn r) (total r) (cursor r) (splits r) (wt r) (delivered r))
    else s.

  Inductive op := OpReadAny | OpRead (n : N) | OpSetChunk (n : N).
  Inductive ores := RData (d : bytes) | RBlocked | RErr (e : ekind).

  Definition set_wt (s : st) (w : wstate) : st :=
    let r := re s in
    set_re s (mkRd (buf r) (rsize r) (low r) (high r) (lowc r) (highc r) (reof r) (rexn r) (total r) (cursor r) (splits r) w (delivered r)).

  (* the body of readany()/read(n) from its `while not self._buffer and not self._eof` loop on *)
  Definition op_body (fuel : nat) (s : st) (o : op) : st * ores :=
    let r := re s in
    if isnil (buf r) && negb (reof r) then
      (* _wait(): a pending exception first, then the connection test, then the waiter *)
      match rexn r with
      | Some e => (set_wt s WNone, RErr e)
      | None => if connected (pr s) then (set_wt s WWaiting, RBlocked) else (set_wt s WNone, RErr EConnClosed)
      end
    else
      let s := set_wt s WNone in
      match o with
      | OpReadAny => let '(s1, d) := take_k fuel (length (buf r)) s [] in (s1, RData d)
      | OpRead n => match read_upto fuel fuel s n [] with
                    | (s1, Some d) => (s1, RData d)
                    | (s1, None) => (s1, RErr EFuel) end
      | OpSetChunk _ => (s, RData [])
      end.

  (* a fresh call *)
  Definition op_start (fuel : nat) (s : st) (o : op) : st * ores :=
    match o with
    | OpSetChunk n => (set_chunk_size s n, RData [])
    | _ =>
      match rexn (re s) with
      | Some e => (s, RErr e)
      | None =>
        match o with
        | OpRead n => if n =? 0 then (s, RData []) else op_body fuel (set_chunk_size s n) o
        | _ => op_body fuel s o
        end
      end
    end.

  (* the reader task runs again after its waiter was completed *)
  Definition op_wake (fuel : nat) (s : st) (o : op) : st * option ores :=
    match wt (re s) with
    | WOk => let '(s1, r) := op_body fuel s o in (s1, Some r)
    | WExc e => (set_wt s WNone, Some (RErr e))
    | _ => (s, None)
    end.

  (* ---- events ------------------------------------------------------------------------------------------ *)
  Inductive event := EvData (d : bytes) | EvClose | EvOp (o : op).
  Record sys := mkSys { core : st; pend : option op }.
  (* observable of one event: what the consumer got (if anything) *)
  Inductive obs := ONone | OSkipped | ORes (r : ores).

  Definition deliverable (s : st) : bool :=
    connected (pr s) && (negb (c_flow (cf s)) || negb (tpaused (pr s))).

  Definition poll (fuel : nat) (y : sys) : sys * obs :=
    match pend y with
    | None => (y, ONone)
    | Some o =>
      match op_wake fuel (core y) o with
      | (s1, None) => (mkSys s1 (Some o), ONone)
      | (s1, Some RBlocked) => (mkSys s1 (Some o), ONone)
      | (s1, Some r) => (mkSys s1 None, ORes r)
      end
    end.

  (* the loop runs until idle after every stimulus: first the reader task (if a producer completed its
     waiter), then the connection_lost callback scheduled by transport.close(), then the task again *)
  Definition settle (fuel : nat) (yo : sys * obs) : sys * obs :=
    let '(y, o) := yo in
    if closing (pr (core y)) then
      let '(y1, o1) := poll fuel (mkSys (connection_lost fuel (core y)) (pend y)) in
      (y1, match o with ONone => o1 | _ => o end)
    else (y, o).

  Definition step (fuel : nat) (y : sys) (ev : event) : sys * obs :=
    let s := core y in
    match ev with
    | EvData d =>
      if deliverable s && pp_present (pr s) && parser_alive (pr s) && negb (isnil d)
      then settle fuel (poll fuel (mkSys (parser_feed fuel s d) (pend y)))
      else (y, OSkipped)
    | EvClose =>
      if deliverable s && pp_present (pr s) && parser_alive (pr s)
      then poll fuel (mkSys (connection_lost fuel s) (pend y)) else (y, OSkipped)
    | EvOp o =>
      match pend y with
      | Some _ => (y, OSkipped)
      | None =>
        match op_start fuel s o with
        | (s1, RBlocked) => match settle fuel (mkSys s1 (Some o), ONone) with
                            | (y1, ONone) => (y1, ORes RBlocked)
                            | yo => yo end
        | (s1, r) => settle fuel (mkSys s1 None, ORes r)
        end
      end
    end.

  Fixpoint run (fuel : nat) (y : sys) (evs : list event) : sys * list obs :=
    match evs with
    | [] => (y, [])
    | ev :: evs' => let '(y1, o) := step fuel y ev in let '(y2, os) := run fuel y1 evs' in (y2, o :: os)
    end.

  (* state right after the message head was parsed and the payload parser created *)
  Definition init (c : cfg) (t : ptype) (len : N) (enc : N) : sys :=
    let limit := c_limit c in
    mkSys (mkSt c (mkProt true false false true true false false)
                (mkPp t len false CSize 0 [] false false false 0 false)
                (mkDb (negb (enc =? 0)) enc (hnew (if enc =? 1 then 31 else 15)) 0 false)
                (mkRd [] 0 (dg_low limit) (dg_high limit) (dg_lowc limit) (dg_highc limit) false None 0 0 None WNone [])
                [])
          None.

  (* BaseRequest.read(): the accumulate-and-test loop over the chunks readany() returns.
     Result: None = HTTPRequestEntityTooLarge, Some body otherwise; `peak` is the largest size the
     accumulated body had. *)
  Fixpoint request_read (cms : N) (chunks : list bytes) (body : bytes) (peak : N) : option bytes * N :=
    match chunks with
    | [] => (Some body, peak)
    | c :: cs =>
      let body' := body ++ c in
      let peak' := N.max peak (lenN body') in
      if negb (cms =? 0) && dg_too_large (lenN body') cms then (None, peak')
      else if isnil c then (Some body', peak') else request_read cms cs body' peak'
    end.
End Sys.

(* ------------------------------------------------------------------------------------------ *)
(* The executable instance: ZLibDecompressor over the toy member codec *)
Definition toy_zh := zh tm.
Definition toy_hnew (mode : N) : toy_zh := zh_new tm tm_new mode.
Definition toy_hstep (z : toy_zh) (data : bytes) (maxlen : N) : option (option (toy_zh * bytes)) :=
  match zh_step tm tm_new tm_dec t_tail t_unused tm_eof z data maxlen with
  | HErr _ => None | HFuel _ => Some None | HOk _ z' out => Some (Some (z', out)) end.
Definition toy_havail (z : toy_zh) : bool := zh_avail tm t_tail z.
Definition toy_heof (z : toy_zh) : bool := zh_complete tm tm_eof z.
Definition toy_hflush (z : toy_zh) : option bytes := zh_flush tm tm_flush z.

Definition toy_sys := sys toy_zh.
Definition toy_init (limit : N) (lax : bool) (maxline maxfield maxtrailers : N) (flow : bool) (t : ptype) (len enc : N) : toy_sys :=
  init toy_zh toy_hnew (mkCfg limit lax maxline maxfield maxtrailers flow) t len enc.
Definition toy_step (fuel : nat) (y : toy_sys) (ev : event) : toy_sys * obs :=
  step toy_zh toy_hnew toy_hstep toy_havail toy_heof toy_hflush fuel y ev.

(* a whole body through the handler in one call each (reference decoder of the toy codec, used by the
   driver's DEC request): feed all, then drain with empty input *)
Fixpoint toy_drain (fuel : nat) (z : toy_zh) (maxlen : N) (acc : bytes) : option (toy_zh * bytes) :=
  match fuel with
  | O => None
  | S f => if toy_havail z then
             match toy_hstep z [] maxlen with
             | Some (Some (z', o)) => toy_drain f z' maxlen (acc ++ o)
             | _ => None end
           else Some (z, acc)
  end.
