(* C11 — executable model of the WebSocket WRITER (aiohttp/_websocket/writer.py: send_frame, _write_websocket_frame,
   _get_compressor, _send_compressed_frame_sync / _async_locked, close) and of the masking helper
   (helpers.py: _websocket_mask_python), to be composed with the reader of Model/Ws.v (property C12's model of
   reader_py.py).  Definitions only.

   Every bound, marker, bit and struct layout comes from Generated/WsCodecGen.v (regenerated from the source).
   The deflate codec (zlib compressobj / ZLibDecompressor) is a pair of Section variables; `toy_*` below is a small
   history-dependent instance that the harness also plugs into aiohttp through set_zlib_backend.

   Encodings: per-message `compress` None/0 = 0; random mask = the 32-bit integer returned by getrandbits(32). *)
From AV Require Import Lib.Base Lib.Utf8Valid Generated.WsGen Generated.WsCodecGen Model.Ws.
Open Scope N_scope.

(* struct.pack("!<k bytes>", n): big-endian, k bytes (n < 256^k, else struct.error — see the callers) *)
Fixpoint be_acc (k : nat) (n : N) (acc : bytes) : bytes :=
  match k with O => acc | S k' => be_acc k' (n / 256) (n mod 256 :: acc) end.
Definition be_bytes (k : nat) (n : N) : bytes := be_acc k n [].

(* bytes.removesuffix *)
Fixpoint strip_prefix (p l : bytes) : option bytes :=
  match p, l with
  | [], _ => Some l
  | x :: p', y :: l' => if x =? y then strip_prefix p' l' else None
  | _ :: _, [] => None
  end.
Definition frev (l : bytes) : bytes := rev_append l [].   (* = rev l, linear *)
Definition strip_suffix (s l : bytes) : option bytes :=
  match strip_prefix (frev s) (frev l) with Some r => Some (frev r) | None => None end.
Definition removesuffix (s l : bytes) : bytes :=
  match strip_suffix s l with Some r => r | None => l end.

(* header = PACK_LEN1/2/3(first_byte, <len or marker> | mask_bit[, msg_length]) *)
Definition encode_header (use_mask : bool) (rsv opcode len : N) : bytes :=
  let mb := if use_mask then MASK_BIT else 0 in
  let b0 := N.lor (N.lor FIN_BIT rsv) opcode in
  if len <? LEN7_BOUND then [b0; N.lor len mb]
  else if len <? LEN16_BOUND then b0 :: N.lor MARK16 mb :: be_bytes EXT16_BYTES len
  else b0 :: N.lor MARK64 mb :: be_bytes EXT64_BYTES len.

Inductive fres := FOk (wire : bytes) | FLayout.   (* FLayout: PACK_RANDBITS did not yield 4 bytes (unreachable) *)

(* _write_websocket_frame (transport open): all write() calls of one frame, concatenated *)
Definition write_frame (use_mask : bool) (rsv opcode : N) (payload : bytes) (rbits : N) : fres :=
  if use_mask then
    match be_bytes MASK_BYTES rbits with
    | [a; b; c; d] => FOk (encode_header true rsv opcode (lenN payload) ++ [a; b; c; d] ++ xor_mask a b c d payload)
    | _ => FLayout
    end
  else FOk (encode_header false rsv opcode (lenN payload) ++ payload).

Record wcfg := mkw { w_mask : bool; w_compress : N; w_notakeover : bool }.

Inductive sop :=
| Send (opcode : N) (payload : bytes) (override : N) (rbits : N)   (* send_frame(payload, opcode, compress=override) *)
| Close (code : N) (reason : bytes) (rbits : N).                   (* close(code, reason) *)

Inductive path := PPlain | PSync | PAsync.

Section Writer.
Variable Cc : Type.                                   (* zlib compressobj state *)
Variable cinit : N -> Cc.                             (* ZLibCompressor(level=Z_BEST_SPEED, wbits=-w) *)
Variable comp : bool -> Cc -> bytes -> bytes * Cc.    (* compress(m) + flush(Z_FULL_FLUSH if b else Z_SYNC_FLUSH) *)

Record wstate := mkws { ws_shared : option Cc; ws_closing : bool }.   (* _compressobj, _closing *)
Definition wstate0 : wstate := mkws None false.

Inductive sres :=
| SRefused (st : wstate)                              (* ClientConnectionResetError / struct.error: nothing written *)
| SSent (wire : bytes) (wlen : N) (p : path) (st : wstate)   (* wlen = payload length on the wire *)
| SLayout.

(* _get_compressor: (compressor to use, is it the shared one) *)
Definition get_compressor (c : wcfg) (st : wstate) (override : N) : Cc * bool :=
  if negb (override =? 0) then (cinit override, false)
  else match ws_shared st with
       | Some cc => (cc, true)
       | None => (cinit (w_compress c), true)
       end.

Definition send_frame (c : wcfg) (st : wstate) (opcode : N) (payload : bytes) (override rbits : N) : sres :=
  if ws_closing st && closing_refuses opcode then SRefused st
  else if send_plain override (w_compress c) opcode then
    match write_frame (w_mask c) 0 opcode payload rbits with
    | FOk w => SSent w (lenN payload) PPlain st
    | FLayout => SLayout
    end
  else
    let '(cc, shared) := get_compressor c st override in
    let '(z, cc') := comp (w_notakeover c) cc payload in
    let body := removesuffix DEFLATE_TRAILING z in
    (* shared compressor: its new state is kept; per-message override: `self._compressobj = None` — the peer's single
       decompressor moves on with this message, so the shared history must never be referenced again *)
    let st' := if shared then mkws (Some cc') (ws_closing st) else mkws None (ws_closing st) in
    match write_frame (w_mask c) RSV1_COMPRESSED opcode body rbits with
    | FOk w => SSent w (lenN body) (if send_sync (lenN payload) then PSync else PAsync) st'
    | FLayout => SLayout
    end.

Definition set_closing (st : wstate) : wstate := mkws (ws_shared st) true.

(* close(): struct.pack("!H", code) raises for code >= 65536; `_closing = True` in the finally either way *)
Definition close_frame (c : wcfg) (st : wstate) (code : N) (reason : bytes) (rbits : N) : sres :=
  if 256 ^ N.of_nat CLOSE_CODE_BYTES <=? code then SRefused (set_closing st)
  else match send_frame c st OP_CLOSE (be_bytes CLOSE_CODE_BYTES code ++ reason) 0 rbits with
       | SRefused st' => SRefused (set_closing st')
       | SSent w n p st' => SSent w n p (set_closing st')
       | SLayout => SLayout
       end.

Definition do_op (c : wcfg) (st : wstate) (o : sop) : sres :=
  match o with
  | Send opcode payload override rbits => send_frame c st opcode payload override rbits
  | Close code reason rbits => close_frame c st code reason rbits
  end.

(* outcome tag of one operation, for the correspondence *)
Inductive otag := TRefused | TSent (p : path) | TLayout.

Record wout := mkwo { wo_wire : bytes; wo_sent : list (sop * N); wo_tags : list otag; wo_state : wstate }.

(* a sequence of operations issued one after the other: concatenated transport bytes, the accepted operations
   (with their wire payload length), the outcome of each operation *)
Fixpoint wrun (c : wcfg) (st : wstate) (ops : list sop) : wout :=
  match ops with
  | [] => mkwo [] [] [] st
  | o :: rest =>
    match do_op c st o with
    | SRefused st' => let r := wrun c st' rest in mkwo (wo_wire r) (wo_sent r) (TRefused :: wo_tags r) (wo_state r)
    | SSent w n p st' => let r := wrun c st' rest in mkwo (w ++ wo_wire r) ((o, n) :: wo_sent r) (TSent p :: wo_tags r) (wo_state r)
    | SLayout => mkwo [] [] [TLayout] st
    end
  end.

End Writer.

Arguments mkws {Cc}. Arguments ws_shared {Cc}. Arguments ws_closing {Cc}.
Arguments SRefused {Cc}. Arguments SSent {Cc}. Arguments SLayout {Cc}.
Arguments mkwo {Cc}. Arguments wo_wire {Cc}. Arguments wo_sent {Cc}. Arguments wo_tags {Cc}. Arguments wo_state {Cc}.

(* ---- what the peer must deliver for an accepted operation ---------------------------------------------- *)
Definition expect (o : sop) : option msg :=
  match o with
  | Send opcode p _ _ =>
    if opcode =? OP_TEXT then Some (MText p)
    else if opcode =? OP_BINARY then Some (MBinary p)
    else if opcode =? OP_PING then Some (MPing p)
    else if opcode =? OP_PONG then Some (MPong p)
    else None
  | Close code reason _ => Some (MClose code reason)
  end.

Fixpoint expect_all (sent : list (sop * N)) : option (list msg) :=
  match sent with
  | [] => Some []
  | (o, _) :: r => match expect o, expect_all r with Some m, Some l => Some (m :: l) | _, _ => None end
  end.

(* the reader the handshake gives the peer: compress iff the extension was negotiated *)
Definition peer_cfg (c : wcfg) (max_msg_size : N) (decode_text : bool) : cfg :=
  mkcfg max_msg_size (negb (w_compress c =? 0)) decode_text.

(* ---- message validity (what the property ranges over) --------------------------------------------------- *)
Definition is_data_op (opcode : N) : bool := (opcode =? OP_TEXT) || (opcode =? OP_BINARY).
Definition is_ctl_op (opcode : N) : bool := (opcode =? OP_PING) || (opcode =? OP_PONG).

(* RFC 6455 well-formedness of one operation: known opcode; control payload <= 125; close code the reader's table
   allows, reason valid UTF-8; text valid UTF-8 when the peer decodes it; window size 9..15 *)
Definition op_wf (rc : cfg) (o : sop) : bool :=
  match o with
  | Send opcode p override _ =>
    (is_data_op opcode && ((override =? 0) || ((9 <=? override) && (override <=? 15)))
     && (negb (opcode =? OP_TEXT) || negb (decode_text rc) || utf8_valid p))
    || (is_ctl_op opcode && (lenN p <=? 125))
  | Close code reason _ =>
    (code <? 65536) && negb (close_code_bad code) && utf8_valid reason && (lenN reason <=? 123)
  end.

(* size limit of the peer, in the reader's own (regenerated) tests: the wire payload passes the pre-buffering test of
   READ_PAYLOAD_LENGTH (nothing buffered: partial length 0), the message passes the post-inflate test *)
Definition fits (rc : cfg) (o : sop) (wlen : N) : bool :=
  (wlen <=? MAX_PAYLOAD_LEN)                 (* a frame length the reader can represent (sys.maxsize) *)
  && match o with
     | Send opcode p _ _ =>
       if is_data_op opcode then
         negb (size_check_applies (max_msg_size rc) opcode
               && size_reject (Z.of_N wlen) (Z.of_N (max_msg_size rc)) 0)
         && negb (inflated_too_big (max_msg_size rc) (lenN p))
       else true
     | Close _ _ _ => true
     end.

Definition all_fit (rc : cfg) (sent : list (sop * N)) : bool :=
  forallb (fun x => fits rc (fst x) (snd x)) sent.

(* Per-message `compress` overrides: the message is compressed by a NEW compressor and inflated by the peer's ONE
   decompressor; the writer then forgets its shared compressor, so the contexts stay paired whatever follows.  What
   remains is that an override needs the extension to have been negotiated at all (else the peer refuses RSV1). *)
Definition is_compressed_send (c : wcfg) (opcode override : N) : bool := negb (send_plain override (w_compress c) opcode).

Definition op_safe (c : wcfg) (o : sop) : bool :=
  match o with
  | Send opcode _ override _ =>
    if is_compressed_send c opcode override && negb (override =? 0) then negb (w_compress c =? 0) else true
  | Close _ _ _ => true
  end.
Definition safe_overrides (c : wcfg) (ops : list sop) : bool := forallb (op_safe c) ops.

(* nothing but CLOSE / PING / PONG is accepted once close() was called: operations the writer accepts *)
Definition sent_ops {Cc} (r : wout Cc) : list sop := map fst (wo_sent r).

(* ---------------------------------------------------------------------------------------------------------
   Toy paired codec: a keyed stream whose key is a digest of the history, so that ANY loss of pairing (a message
   compressed by another context, two messages inflated in the other order) garbles what follows — the worst case
   of deflate's back-references.
     compressor context   = (key if it has history, wbits);   decompressor context = key
     compress+flush of m  = 0 :: m ++ TRAILING                      without history  (both sides: key := mix 0 m)
                            1 :: map (xor key) m ++ TRAILING        with history     (both sides: key := mix key m)
   Z_FULL_FLUSH forgets the history; a message longer than 2^wbits falls out of the window (history forgotten).
   The decompressor ignores max_length (it returns the whole message; the reader's size test then refuses it). *)
Definition mixb (m : bytes) : N := fold_left (fun a b => (a * 33 + b) mod 256) m 7.
Definition mix (k : N) (m : bytes) : N := (k * 31 + mixb m + 1) mod 256.

Record toyc := mktc { tc_key : option N; tc_wbits : N }.
Definition toy_cinit (w : N) : toyc := mktc None w.

Definition toy_comp (full : bool) (c : toyc) (m : bytes) : bytes * toyc :=
  let body := match tc_key c with None => 0 :: m | Some k => 1 :: map (N.lxor k) m end in
  let k' := match tc_key c with None => mix 0 m | Some k => mix k m end in
  let keep := if full then None else if lenN m <=? 2 ^ tc_wbits c then Some k' else None in
  (body ++ DEFLATE_TRAILING, mktc keep (tc_wbits c)).

Definition toyd := N.
Definition toyd0 : toyd := 0.

Definition toy_decomp2 (d : toyd) (data : bytes) (cap : N) : dres toyd :=
  match data with
  | 0 :: r => match strip_suffix DEFLATE_TRAILING r with Some m => DOk m (mix 0 m) | None => DErr end
  | 1 :: r => match strip_suffix DEFLATE_TRAILING r with
              | Some z => let m := map (N.lxor d) z in DOk m (mix d m)
              | None => DErr
              end
  | _ => DErr
  end.

(* ---- runnable instances (used by the extraction driver) ------------------------------------------------- *)
Definition toy_wrun := wrun toyc toy_cinit toy_comp.
Definition toy_feed_all := feed_all toyd toy_decomp2.
Definition toy_reader0 : reader toyd := Live (init_state toyd toyd0).

(* cut a stream at the given segment lengths (the rest is the last segment) *)
Fixpoint cut (lens : list N) (s : bytes) : list bytes :=
  match lens with
  | [] => [s]
  | n :: r => takeN (N.to_nat n) s :: cut r (dropN (N.to_nat n) s)
  end.

Definition toy_roundtrip (c : wcfg) (rc : cfg) (lens : list N) (ops : list sop)
  : wout toyc * (list msg * reader toyd) :=
  let r := toy_wrun c (wstate0 toyc) ops in
  (r, toy_feed_all rc toy_reader0 (cut lens (wo_wire r))).
