(* C15 — executable model of aiohttp's static file serving (definitions only, no proofs).

   Part A  range arithmetic and conditional requests:
           web_request.BaseRequest.http_range,
           web_fileresponse.FileResponse._make_response / _prepare_open_file / _sendfile_fallback.
   Part B  confinement: a finite file system with symbolic links, the kernel's path walk,
           os.path.realpath (posixpath._joinrealpath, non-strict), pathlib parsing, os.path.normpath,
           web_urldispatcher.StaticResource.resolve / _handle / _resolve_path_to_response and
           FileResponse._get_file_path_stat_encoding.

   Integer formulas, the Range pattern pieces, status codes and the encoding table come from
   Generated/StaticGen.v (regenerated from /repo on every run).
   Python exceptions are explicit constructors; `nat` is only structural fuel and running out of
   fuel is an explicit result (never a default).  POSIX only (IS_WINDOWS = False). *)
From AV Require Import Lib.Base Generated.StaticGen.
Open Scope N_scope.

(* ------------------------------------------------------------------------------------------ *)
(** * Part A — Range *)

(* CPython: int(str) raises ValueError when the string has more than sys.int_max_str_digits
   (default 4300) digits, leading zeros included. *)
Definition INT_MAX_STR_DIGITS : N := 4300.

Fixpoint strip_prefix (p s : str) : option str :=
  match p, s with
  | [], _ => Some s
  | x :: p', y :: s' => if x =? y then strip_prefix p' s' else None
  | _ :: _, [] => None
  end.

(* maximal run of the repeated class, and the rest *)
Fixpoint span_digits (s : str) : str * str :=
  match s with
  | c :: r => if range_digit c then let '(d, t) := span_digits r in (c :: d, t) else ([], s)
  | [] => ([], [])
  end.

Fixpoint dec_value (acc : Z) (ds : str) : Z :=
  match ds with
  | [] => acc
  | c :: r => dec_value (acc * 10 + (Z.of_N c - 48))%Z r
  end.

Definition py_int (ds : str) : option Z :=
  if INT_MAX_STR_DIGITS <? lenN ds then None else Some (dec_value 0%Z ds).

(* re.findall(r"^bytes=(\d* )-(\d* )$", rng, re.ASCII)[0]; None = IndexError *)
Definition match_range (h : str) : option (str * str) :=
  match strip_prefix range_prefix h with
  | None => None
  | Some r =>
      let '(d1, r1) := span_digits r in
      match r1 with
      | c :: r2 =>
          if c =? range_sep then
            let '(d2, r3) := span_digits r2 in
            match r3 with
            | [] => Some (d1, d2)
            | [c3] => if (c3 =? 10) && range_end_allows_trailing_lf then Some (d1, d2) else None
            | _ => None
            end
          else None
      | [] => None
      end
  end.

(* `int(x) if x else None`; outer None = ValueError from int() *)
Definition conv_group (d : str) : option (option Z) :=
  match d with
  | [] => Some None
  | _ => match py_int d with Some v => Some (Some v) | None => None end
  end.

Inductive hr_result :=
| HR_ok (start stop : option Z)     (* slice(start, stop, 1) *)
| HR_ValueError.

Definition http_range (h : option str) : hr_result :=
  match h with
  | None => HR_ok None None
  | Some s =>
      match match_range s with
      | None => HR_ValueError
      | Some (d1, d2) =>
          match conv_group d2 with
          | None => HR_ValueError
          | Some e =>
              match conv_group d1 with
              | None => HR_ValueError
              | Some st =>
                  match st, e with
                  | None, Some ev =>
                      if suffix_zero_test ev then HR_ValueError else HR_ok (Some (suffix_start ev)) None
                  | Some sv, Some ev =>
                      let e1 := end_adjust ev in
                      if range_empty_test sv e1 then HR_ValueError else HR_ok (Some sv) (Some e1)
                  | None, None => HR_ValueError
                  | Some sv, None => HR_ok (Some sv) None
                  end
              end
          end
      end
  end.

(* decimal printing of the f-strings *)
Fixpoint dec_digits (fuel : nat) (n : N) (acc : list N) : list N :=
  match fuel with
  | O => acc
  | S k => let acc' := (48 + n mod 10) :: acc in
           if n / 10 =? 0 then acc' else dec_digits k (n / 10) acc'
  end.
Definition dec_of_N (n : N) : list N := dec_digits (S (N.size_nat n)) n [].
Definition dec_of_Z (z : Z) : list N :=
  match z with
  | Zneg p => 45 :: dec_of_N (Npos p)
  | _ => dec_of_N (Z.to_N z)
  end.

Definition cr_sat (start count file_size : Z) : bytes :=
  cr_lit1 ++ dec_of_Z (cr_first start count file_size) ++ cr_lit2 ++
  dec_of_Z (cr_last start count file_size) ++ cr_lit3 ++ dec_of_Z (cr_total start count file_size).
Definition cr_unsat (file_size : Z) : bytes := cr_unsat_lit ++ dec_of_Z file_size.

Inductive decision :=
| D200 (count : Z)                         (* status untouched, whole file *)
| D206 (start count : Z) (cr : bytes)
| D416 (cr : bytes).

(* _prepare_open_file from `if ifrange is None or ...` to the status decision.
   gate = the If-Range test; h = the Range header value if present. *)
Definition range_decision (file_size : Z) (gate : bool) (h : option str) : decision :=
  if gate then
    match http_range h with
    | HR_ValueError => D416 (cr_unsat file_size)
    | HR_ok None _ => D200 file_size
    | HR_ok (Some st) e =>
        let is_none := match e with None => true | Some _ => false end in
        let '(st', cnt) :=
          if tail_test st is_none then
            let s2 := tail_clamp (tail_start st file_size) in (s2, tail_count file_size s2)
          else (st, range_count (match e with Some ev => ev | None => file_size end) file_size st) in
        if unsat_test st' file_size then D416 (cr_unsat file_size)
        else D206 st' cnt (cr_sat st' cnt file_size)
    end
  else D200 file_size.

(* ---- conditional requests (FileResponse._make_response) ---- *)
Record etag := { et_weak : bool; et_value : str }.

Definition etag_match (v : str) (etags : list etag) (weak : bool) : bool :=
  match etags with
  | [e] => if list_eqb (et_value e) [42] then true
           else existsb (fun x => (weak || negb (et_weak x)) && list_eqb (et_value x) v) etags
  | _ => existsb (fun x => (weak || negb (et_weak x)) && list_eqb (et_value x) v) etags
  end.

Inductive precond := PC_failed | PC_not_modified | PC_send.

(* times: file mtime and header dates in the same unit (the harness uses nanoseconds) *)
Definition preconditions (etag_value : str) (mtime : Z)
    (ifmatch : option (list etag)) (unmod : option Z)
    (ifnone : option (list etag)) (modsince : option Z) : precond :=
  if match ifmatch with Some l => negb (etag_match etag_value l false) | None => false end then PC_failed
  else if match unmod, ifmatch with Some t, None => (t <? mtime)%Z | _, _ => false end then PC_failed
  else if match ifnone with Some l => etag_match etag_value l true | None => false end then PC_not_modified
  else if match modsince, ifnone with Some t, None => (mtime <=? t)%Z | _, _ => false end then PC_not_modified
  else PC_send.

(* ---- the chunked copy loop (_sendfile_fallback) ---- *)
(* fobj.read(n): n < 0 reads everything *)
Definition file_read (n : Z) (rest : bytes) : bytes * bytes :=
  if (n <? 0)%Z then (rest, []) else (firstn (Z.to_nat n) rest, skipn (Z.to_nat n) rest).

Fixpoint fallback_loop (fuel : nat) (chunk_size : Z) (chunk rest : bytes) (count : Z) : option (list bytes) :=
  match fuel with
  | O => None
  | S k =>
      match chunk with
      | [] => Some []
      | _ =>
          let count' := (count - Z.of_nat (length chunk))%Z in
          if (count' <=? 0)%Z then Some [chunk]
          else
            let '(c2, rest') := file_read (Z.min chunk_size count') rest in
            match fallback_loop k chunk_size c2 rest' count' with
            | Some l => Some (chunk :: l)
            | None => None
            end
      end
  end.

(* writes of _sendfile_fallback(writer, fobj, offset, count); None = out of fuel *)
Definition sendfile_fallback (chunk_size : Z) (content : bytes) (offset count : Z) : option (list bytes) :=
  let after_seek := skipn (Z.to_nat offset) content in
  let '(c, rest) := file_read (Z.min chunk_size count) after_seek in
  fallback_loop (S (length content)) chunk_size c rest count.

Record response := {
  r_status : N;
  r_length : option Z;          (* Content-Length set by the file response code (None: not set there) *)
  r_range : option bytes;       (* Content-Range *)
  r_body : option bytes         (* concatenated writes; None = model out of fuel *)
}.

Definition send_body (is_head : bool) (chunk_size : Z) (content : bytes) (offset count : Z) : option bytes :=
  if zero_count_test count || is_head then Some []
  else match sendfile_fallback chunk_size content offset count with
       | Some l => Some (concat l)
       | None => None
       end.

(* FileResponse.prepare for a regular file that could be opened (default status 200) *)
Definition file_response (is_head : bool) (chunk_size : Z) (content : bytes) (mtime : Z) (etag_value : str)
    (ifmatch : option (list etag)) (unmod : option Z) (ifnone : option (list etag)) (modsince : option Z)
    (ifrange : option Z) (range : option str) : response :=
  match preconditions etag_value mtime ifmatch unmod ifnone modsince with
  | PC_failed => {| r_status := ST_PRECONDITION_FAILED; r_length := Some 0%Z; r_range := None; r_body := Some [] |}
  | PC_not_modified => {| r_status := ST_NOT_MODIFIED; r_length := None; r_range := None; r_body := Some [] |}
  | PC_send =>
      let sz := Z.of_N (lenN content) in
      let gate := match ifrange with None => true | Some t => ifrange_test mtime t end in
      match range_decision sz gate range with
      | D416 cr => {| r_status := ST_RANGE_NOT_SATISFIABLE; r_length := None; r_range := Some cr; r_body := Some [] |}
      | D200 cnt => {| r_status := 200; r_length := Some cnt; r_range := None;
                       r_body := send_body is_head chunk_size content 0%Z cnt |}
      | D206 st cnt cr => {| r_status := ST_PARTIAL; r_length := Some cnt; r_range := Some cr;
                             r_body := send_body is_head chunk_size content st cnt |}
      end
  end.

(* ------------------------------------------------------------------------------------------ *)
(** * Part B — confinement *)

Definition seg := list N.
Definition path := list seg.          (* absolute, canonical spelling: segments below "/" *)

Definition SLASH : N := 47.
Definition is_nil {A} (l : list A) : bool := match l with [] => true | _ => false end.
Definition is_empty (s : seg) : bool := is_nil s.
Definition is_dot (s : seg) : bool := list_eqb s [46].
Definition is_dotdot (s : seg) : bool := list_eqb s [46; 46].
(* an ordinary name: not "", ".", ".." and without NUL *)
Definition normal_seg (s : seg) : bool := negb (is_empty s) && negb (is_dot s) && negb (is_dotdot s) && negb (memN 0 s).

(* str.split(sep) *)
Fixpoint split_on (sep : N) (s : str) : list seg :=
  match s with
  | [] => [[]]
  | c :: r =>
      if c =? sep then [] :: split_on sep r
      else match split_on sep r with
           | h :: t => (c :: h) :: t
           | [] => [[c]]
           end
  end.

Fixpoint join_with (sep : N) (l : list seg) : str :=
  match l with
  | [] => []
  | [x] => x
  | x :: r => x ++ sep :: join_with sep r
  end.

Definition is_abs (s : str) : bool := match s with c :: _ => c =? SLASH | [] => false end.

Fixpoint path_eqb (a b : path) : bool :=
  match a, b with
  | [], [] => true
  | x :: a', y :: b' => list_eqb x y && path_eqb a' b'
  | _, _ => false
  end.

(* PurePath.relative_to(root) succeeds: root's parts are a prefix of p's *)
Fixpoint path_prefix (root p : path) : bool :=
  match root, p with
  | [], _ => true
  | x :: r', y :: p' => list_eqb x y && path_prefix r' p'
  | _ :: _, [] => false
  end.

Inductive node :=
| NFile (content : bytes)
| NDir
| NLink (target : str)
| NSpecial.                            (* socket, fifo, device *)

Definition fs := list (path * node).

Fixpoint lookup (f : fs) (p : path) : option node :=
  match f with
  | [] => None
  | (q, n) :: r => if path_eqb q p then Some n else lookup r p
  end.

Definition node_at (f : fs) (p : path) : option node :=
  match p with [] => Some NDir | _ => lookup f p end.

(* the entry named s in directory cur, as one kernel step sees it (cur is a physical path) *)
Definition child (f : fs) (cur : path) (s : seg) : option node :=
  match node_at f cur with
  | Some NDir => lookup f (cur ++ [s])
  | _ => None
  end.

Definition is_link (o : option node) : bool := match o with Some (NLink _) => true | _ => false end.

(* ---- the kernel's path walk (stat / lstat / open) ---- *)
Inductive kres :=
| KOk (p : path) (n : node)            (* physical location reached and what is there *)
| KENOENT | KENOTDIR | KELOOP
| KEINVAL                               (* embedded NUL: Python raises ValueError before the syscall *)
| KFuel.

Definition MAXSYMLINKS : nat := 40.

Fixpoint kwalk (fuel links : nat) (f : fs) (follow_last : bool) (cur : path) (work : list seg) : kres :=
  match fuel with
  | O => KFuel
  | S k =>
      match work with
      | [] => match node_at f cur with Some n => KOk cur n | None => KENOENT end
      | s :: w =>
          if memN 0 s then KEINVAL
          else if is_empty s || is_dot s then kwalk k links f follow_last cur w
          else if is_dotdot s then kwalk k links f follow_last (removelast cur) w
          else
            match node_at f cur with
            | None => KENOENT
            | Some NDir =>
                match lookup f (cur ++ [s]) with
                | None => KENOENT
                | Some (NLink t) =>
                    if is_nil w && negb follow_last then KOk (cur ++ [s]) (NLink t)
                    else match links with
                         | O => KELOOP
                         | S l =>
                             if is_empty t then KENOENT
                             else kwalk k l f follow_last (if is_abs t then [] else cur) (split_on SLASH t ++ w)
                         end
                | Some n =>
                    match w with
                    | [] => KOk (cur ++ [s]) n
                    | _ => match n with
                           | NDir => kwalk k links f follow_last (cur ++ [s]) w
                           | _ => KENOTDIR
                           end
                    end
                end
            | Some _ => KENOTDIR
            end
      end
  end.

(* fuel that the walk cannot exhaust: every link expansion adds at most (length target + 1) segments
   and at most MAXSYMLINKS expansions happen *)
Definition max_target (f : fs) : nat :=
  fold_right (fun e m => match snd e with NLink t => Nat.max (S (length t)) m | _ => m end) 1%nat f.
Definition kfuel (f : fs) (p : path) : nat := S (length p + 41 * max_target f).
Definition kstat (f : fs) (p : path) : kres := kwalk (kfuel f p) MAXSYMLINKS f true [] p.
Definition klstat (f : fs) (p : path) : kres := kwalk (kfuel f p) MAXSYMLINKS f false [] p.

(* ---- os.path.realpath(strict=False): posixpath._joinrealpath as a work list ---- *)
Inductive item := Seg (s : seg) | EndLink (p : path).

Inductive rp_result :=
| RP_ok (p : path)
| RP_partial (s : str)    (* _joinrealpath gave up at a symlink loop: resolved part + rest, unresolved *)
| RP_loop                 (* symlink loop: Path.resolve() raises RuntimeError (Python < 3.13) *)
| RP_nul                  (* ValueError: embedded null byte, from os.lstat / os.stat *)
| RP_fuel.

Fixpoint path_mem (p : path) (l : list path) : bool :=
  match l with [] => false | q :: r => path_eqb p q || path_mem p r end.
Fixpoint path_remove (p : path) (l : list path) : list path :=
  match l with [] => [] | q :: r => if path_eqb p q then r else q :: path_remove p r end.

(* posixpath.join(a, b) *)
Definition py_join (a b : str) : str :=
  if is_abs b then b
  else match rev a with
       | [] => b
       | c :: _ => if c =? SLASH then a ++ b else a ++ SLASH :: b
       end.

(* "return join(newpath, rest), False" propagated through every pending level:
   each level appends its own unconsumed rest (the Seg items up to the next EndLink) *)
Fixpoint abandon_at (acc : str) (level : list seg) (work : list item) : str :=
  match work with
  | [] => py_join acc (join_with SLASH (rev level))
  | Seg s :: w => abandon_at acc (s :: level) w
  | EndLink _ :: w => abandon_at (py_join acc (join_with SLASH (rev level))) [] w
  end.

Definition path_str (p : path) : str := SLASH :: join_with SLASH p.

(* cur = the `path` accumulated so far; inprog = links whose target is being resolved
   (seen[newpath] is None); a link met again while in progress is a loop. *)
Fixpoint joinreal (fuel : nat) (f : fs) (inprog : list path) (cur : path) (work : list item) : rp_result :=
  match fuel with
  | O => RP_fuel
  | S k =>
      match work with
      | [] => RP_ok cur
      | EndLink p :: w => joinreal k f (path_remove p inprog) cur w
      | Seg s :: w =>
          if is_empty s || is_dot s then joinreal k f inprog cur w
          else if is_dotdot s then joinreal k f inprog (removelast cur) w
          else if memN 0 s then RP_nul
          else
            match child f cur s with
            | Some (NLink t) =>
                let np := cur ++ [s] in
                if path_mem np inprog then RP_partial (abandon_at (path_str np) [] w)
                else joinreal k f (np :: inprog) (if is_abs t then [] else cur)
                       (map Seg (split_on SLASH t) ++ EndLink np :: w)
            | _ => joinreal k f inprog (cur ++ [s]) w
            end
      end
  end.

(* fuel for realpath (nested link expansions are not bounded by MAXSYMLINKS there); running out is
   the explicit result RP_fuel, which the harness reports as a disagreement, never a served file *)
Definition rfuel (f : fs) (p : path) : nat := 8 * (S (length p) + length f + 4 * max_target f).

(* ---- pathlib / os.path string functions ---- *)
(* PurePosixPath(s): (is_absolute, parts below the anchor); ".." is kept *)
Definition parse_posix (s : str) : bool * path :=
  (is_abs s, filter (fun x => negb (is_empty x) && negb (is_dot x)) (split_on SLASH s)).

(* posixpath.normpath *)
Fixpoint norm_comps (abs : bool) (comps acc : list seg) : list seg :=
  match comps with
  | [] => rev acc
  | c :: r =>
      if is_empty c || is_dot c then norm_comps abs r acc
      else if negb (is_dotdot c) || (negb abs && is_nil acc)
              || match acc with h :: _ => is_dotdot h | [] => false end
      then norm_comps abs r (c :: acc)
      else norm_comps abs r (tl acc)
  end.

Definition initial_slashes (s : str) : nat :=
  match s with
  | a :: b :: c :: _ =>
      if a =? SLASH then (if b =? SLASH then (if c =? SLASH then 1%nat else 2%nat) else 1%nat) else 0%nat
  | [a; b] => if a =? SLASH then (if b =? SLASH then 2%nat else 1%nat) else 0%nat
  | [a] => if a =? SLASH then 1%nat else 0%nat
  | [] => 0%nat
  end.

Definition py_normpath (s : str) : str :=
  match s with
  | [] => [46]
  | _ =>
      let i := initial_slashes s in
      let comps := norm_comps (negb (Nat.eqb i 0)) (split_on SLASH s) [] in
      let r := repeat SLASH i ++ join_with SLASH comps in
      match r with [] => [46] | _ => r end
  end.

(* Path.resolve() (strict=False, Python 3.12) of the absolute path whose segments are p:
   realpath; abspath (normpath) of what it returned; then `p.stat()` only to turn ELOOP into
   RuntimeError.  When realpath gave up at a loop, the rest of the path is NOT resolved. *)
Definition resolve (f : fs) (p : path) : rp_result :=
  match joinreal (rfuel f p) f [] [] (map Seg p) with
  | RP_partial s =>
      let q := snd (parse_posix (py_normpath s)) in
      if existsb (memN 0) q then RP_nul
      else match kstat f q with
           | KELOOP => RP_loop
           | KFuel => RP_fuel
           | _ => RP_ok q
           end
  | r => r
  end.

(* str.replace(old, new) for a non-empty old *)
Fixpoint replace_aux (old new : str) (skip : nat) (s : str) : str :=
  match s with
  | [] => []
  | c :: r =>
      match skip with
      | S k => replace_aux old new k r
      | O => if starts_with old s then new ++ replace_aux old new (length old - 1) r
             else c :: replace_aux old new 0 r
      end
  end.
Definition replace_all (old new s : str) : str := replace_aux old new 0 s.

Definition unquote_path_safe (v : str) : str :=
  if memN 37 v then fold_left (fun acc st => replace_all (fst st) (snd st) acc) unquote_steps v else v.

(* StaticResource.resolve: the filename handed to _handle, None = this resource does not match *)
Definition static_resolve (prefix path_safe : str) : option str :=
  let n := py_normpath path_safe in
  if starts_with (prefix ++ [SLASH]) n || list_eqb n prefix
  then Some (unquote_path_safe (skipn (length prefix + 1) path_safe))
  else None.

(* ---- FileResponse._get_file_path_stat_encoding ---- *)
Definition lower_ascii (c : N) : N := if (65 <=? c) && (c <=? 90) then c + 32 else c.

Fixpoint is_infix (p s : str) : bool :=
  starts_with p s || match s with [] => false | _ :: r => is_infix p r end.

Inductive sresp :=
| S404 | S403 | S500
| SListing (dir : path) (names : list seg)
| SFile (p : path) (enc : option str) (content : bytes)
| SFuel.

Fixpoint try_encodings (f : fs) (parent : path) (name : seg) (accept : str)
    (exts : list (str * str)) : option (path * str * bytes) :=
  match exts with
  | [] => None
  | (ext, enc) :: r =>
      if is_infix enc accept then
        match klstat f (parent ++ [name ++ ext]) with
        | KOk q (NFile c) => Some (parent ++ [name ++ ext], enc, c)
        | _ => try_encodings f parent name accept r
        end
      else try_encodings f parent name accept r
  end.

Definition file_lookup (f : fs) (p : path) (accept : str) : sresp :=
  match rev p with
  | [] => S500                                    (* with_suffix on an empty name: ValueError *)
  | name :: rparent =>
      match try_encodings f (rev rparent) name (map lower_ascii accept) encoding_extensions with
      | Some (q, enc, c) => SFile q (Some enc) c
      | None =>
          match kstat f p with
          | KOk _ (NFile c) => SFile p None c
          | KOk _ _ => S403
          | KFuel => SFuel
          | KEINVAL => S500
          | _ => S404
          end
      end
  end.

Definition children (f : fs) (p : path) : list seg :=
  flat_map (fun e => match rev (fst e) with
                     | nm :: rp => if path_eqb (rev rp) p then [nm] else []
                     | [] => []
                     end) f.

(* the loop of fix 6ac5763: probe = root; for part in parts: probe /= part; probe.is_symlink()
   (os.lstat; any OSError or ValueError counts as "not a link") *)
Fixpoint no_link_below (f : fs) (probe : path) (parts : list seg) : bool :=
  match parts with
  | [] => true
  | s :: r =>
      match klstat f (probe ++ [s]) with
      | KOk _ (NLink _) => false
      | _ => no_link_below f (probe ++ [s]) r
      end
  end.

(* StaticResource._handle + _resolve_path_to_response for match_info["filename"] = filename *)
Definition handle (f : fs) (root : path) (follow show_index : bool) (accept : str) (filename : str) : sresp :=
  let '(isabs, segs) := parse_posix filename in
  if isabs then S404
  else
    let unresolved := root ++ segs in
    let checked : rp_result + unit :=
      if follow then
        let n := snd (parse_posix (py_normpath (path_str unresolved))) in
        if path_prefix root n then inl (resolve f n) else inr tt
      else
        match resolve f unresolved with
        | RP_ok p =>
            if path_prefix root p then
              (* fix 6ac5763: rel_path = file_path.relative_to(root); every root/part1/.../parti is
                 lstat'ed (Path.is_symlink) and a symbolic link raises ValueError *)
              if no_link_below f root (skipn (length root) p) then inl (RP_ok p) else inr tt
            else inr tt
        | r => inl r
        end in
    match checked with
    | inr tt => S404                               (* ValueError from relative_to *)
    | inl RP_loop => S404                          (* RuntimeError, CIRCULAR_SYMLINK_ERROR *)
    | inl RP_nul => S404                           (* ValueError *)
    | inl RP_fuel => SFuel
    | inl (RP_partial _) => S500                   (* resolve never returns this constructor *)
    | inl (RP_ok p) =>
        match kstat f p with
        | KOk q NDir =>
            if show_index then
              (* _directory_as_html: dir_path.relative_to(self._directory) raises ValueError (-> 500)
                 for a directory reached through a link that leaves the root (follow mode only) *)
              if path_prefix root p then SListing p (children f q) else S500
            else S403
        | KFuel => SFuel
        | _ => file_lookup f p accept
        end
    end.

(* the whole static route for a request path (yarl's path_safe) *)
Definition serve_path (f : fs) (prefix : str) (root : path) (follow show_index : bool) (accept : str)
    (path_safe : str) : sresp :=
  match static_resolve prefix path_safe with
  | None => S404
  | Some fn => handle f root follow show_index accept fn
  end.
