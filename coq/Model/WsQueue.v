(* C11 — the receiving end of the round trip: WebSocketDataQueue (aiohttp/_websocket/reader_py.py) between the
   reader's feed_data and the application's read() (ws.receive()), with the consumer's cancellations.  Definitions only.

   Events, as the harness observes them on the event loop:
     QFeed m    WebSocketDataQueue.feed_data(m): the message is appended to _buffer (a parked reader is only WOKEN:
                its future gets None, the message stays in the buffer until the reader's task runs)
     QRead      read() is called (one reader at a time: `assert not self._waiter`)
     QReturn    the outstanding read() returns the head of the buffer (at once, or after having been parked and woken)
     QCancel    the task in the outstanding read() is cancelled (receive timeout) — parked or already woken, in the same
                loop iteration as a feed or not: `self._waiter = None; raise`
   The property: whatever the interleaving, returned ++ buffered = fed, in order (nothing lost, duplicated, reordered). *)
From AV Require Import Lib.Base Generated.WsCodecGen Model.Ws.
Open Scope N_scope.

Inductive qev := QFeed (m : msg) | QRead | QReturn | QCancel.

Record qstate := mkq {
  q_buf : list msg;      (* _buffer *)
  q_reading : bool;      (* a read() call is outstanding *)
  q_got : list msg;      (* what read() calls have returned *)
  q_fed : list msg       (* everything feed_data was given *)
}.

Definition qinit : qstate := mkq [] false [] [].

Definition qstep (st : qstate) (e : qev) : option qstate :=
  match e with
  | QFeed m => Some (mkq (q_buf st ++ [m]) (q_reading st) (q_got st) (q_fed st ++ [m]))
  | QRead => if q_reading st then None else Some (mkq (q_buf st) true (q_got st) (q_fed st))
  | QReturn =>
    if q_reading st then
      match q_buf st with
      | m :: b => Some (mkq b false (q_got st ++ [m]) (q_fed st))
      | [] => None                       (* read() only returns a message that is in the buffer *)
      end
    else None
  | QCancel => if q_reading st then Some (mkq (q_buf st) false (q_got st) (q_fed st)) else None
  end.

Fixpoint qrun (st : qstate) (evs : list qev) : option qstate :=
  match evs with
  | [] => Some st
  | e :: r => match qstep st e with Some st' => qrun st' r | None => None end
  end.

Fixpoint qrun_trace (st : qstate) (evs : list qev) (i : N) : qstate * option N :=
  match evs with
  | [] => (st, None)
  | e :: r => match qstep st e with Some st' => qrun_trace st' r (i + 1) | None => (st, Some i) end
  end.

(* ---- read flow control of the queue (sizes only) ---------------------------------------------------------------
   FlFeed sz : feed_data of a message of `size` sz:  _size += sz; append; then `queue_pause_test` -> pause_reading()
   FlPop     : _read_from_buffer: pop the head, _size -= its size, THEN `queue_resume_test` -> resume_reading()
   (both tests regenerated from the source; `lim` is the queue's _limit = QUEUE_LIMIT_FACTOR * limit).
   The property: whenever the queue is empty reading is not paused — a drained consumer can always get more. *)
Inductive flev := FlFeed (sz : N) | FlPop.

Record flstate := mkfl { fl_buf : list N; fl_size : N; fl_paused : bool }.
Definition flinit : flstate := mkfl [] 0 false.

Definition flstep (lim : N) (st : flstate) (e : flev) : option flstate :=
  match e with
  | FlFeed sz =>
    let size' := fl_size st + sz in
    Some (mkfl (fl_buf st ++ [sz]) size' (fl_paused st || queue_pause_test size' lim))
  | FlPop =>
    match fl_buf st with
    | sz :: b =>
      let size' := fl_size st - sz in
      Some (mkfl b size' (if queue_resume_test size' lim then false else fl_paused st))
    | [] => None
    end
  end.

Fixpoint flrun (lim : N) (st : flstate) (evs : list flev) : option flstate :=
  match evs with
  | [] => Some st
  | e :: r => match flstep lim st e with Some st' => flrun lim st' r | None => None end
  end.
